// Overlap family (parts B-overlap in-process, E-overlap binary): OVERLAPPING --path /
// --exclude-path arguments in every argument order.
//
// A regression (seed C02-m8) replaced the per-file seen-set of moduleReadBucket.WalkFileInfos by
// "skip a target path that is covered by an already walked one": `--path a/b --path a` walked
// a/b, then all of a, reported the files of a/b twice and every command that reads the target
// files through the module set failed, while `--path a --path a/b` worked.  No C02 input had
// two paths of which one contains the other.
//
// The family: a module tree three directories deep (with look-alike siblings `a/b` / `a/bb`),
// path lists that contain a chain directory ⊃ sub-directory ⊃ file (2-4 entries, an unrelated
// path mixed in), used as --path, as --exclude-path, and as --path with overlapping
// --exclude-path inside it; EVERY order of the list (in-process), the sorted, the reversed and
// sampled orders (binary), spelled plainly, with a trailing slash and with `./`.  Oracle:
//
//   - overlap-duplicate-target: the walk reports a file twice,
//   - overlap-order-dependent-<output>: an output differs from the output for the sorted list,
//   - overlap-not-equal-to-cover-<output>: an output differs from the output for the covering
//     paths alone (the list without every path that lies inside another one),
//   - overlap-target-set: the target files are not the files below a --path and below no
//     --exclude-path (computed from the file list),
//   - correspondence lines `twalk`: the walk order and the sorted target list of the real
//     moduleReadBucket against BufModel.Targeting.moduleTargetFiles / targetList.
//
// Image inputs: bufimage.ImageWithOnlyPaths puts explicitly named .proto files first, in argument
// order - the recorded finding `image-path-order-dependent` (two explicit files, swapped).  For an
// image input the byte comparison is therefore made only when the list names at most ONE .proto
// file; otherwise, and for the comparison with the covering paths when a .proto file is named,
// the images are compared as SETS of (file, import flag, descriptor bytes).
//
// `--only 4000000+k [keep]` runs family member k alone.
package main

import (
	"archive/tar"
	"bytes"
	"crypto/sha256"
	"encoding/hex"
	"errors"
	"fmt"
	"os"
	"path/filepath"
	"sort"
	"strings"

	imagev1 "github.com/bufbuild/buf/private/gen/proto/go/buf/alpha/image/v1"
	"github.com/bufbuild/buf/private/buf/bufformat"
	"github.com/bufbuild/buf/private/bufpkg/bufimage"
	"github.com/bufbuild/buf/private/bufpkg/bufmodule"
	"github.com/bufbuild/buf/private/pkg/protoencoding"
	"github.com/bufbuild/buf/private/pkg/storage/storagemem"
	"github.com/bufbuild/verifharness/internal/bk"
	"github.com/bufbuild/verifharness/internal/hx"
	"google.golang.org/protobuf/proto"
)

const overlapOnlyBase = 4000000

type ovWS struct {
	idx   int
	files map[string]string // module-relative path -> content (new version)
	old   map[string]string // previous version (for breaking)
	paths []string          // sorted .proto paths
	dirs  []string          // every directory that contains a file (transitively)
}

func (w ovWS) describe() map[string]any {
	return map[string]any{"family_member": w.idx, "files": w.paths}
}

func genOverlapWS(r *hx.Rand, idx int) ovWS {
	w := ovWS{idx: idx, files: map[string]string{}, old: map[string]string{}}
	cands := []string{
		"a/x.proto", "a/b/y.proto", "a/b/z.proto", "a/b/c/w.proto", "a/b/c/v.proto", "a/e/u.proto", "d/t.proto",
		"a/bb/q.proto", "a/b/c/k/deep.proto", "d/s.proto", "a/b.proto", "a/e/f/g.proto",
	}
	// the first seven always (the chains a ⊃ a/b ⊃ a/b/c exist), the rest by chance
	var ps []string
	for i, c := range cands {
		if i < 7 || r.Chance(1, 2) {
			ps = append(ps, c)
		}
	}
	order := append([]string{}, ps...)
	hx.Shuffle(r, order) // import direction: later files import earlier ones
	for i, p := range order {
		pkg := "ov." + strings.NewReplacer("/", ".", ".proto", "").Replace(p)
		var sb, ob strings.Builder
		head := "syntax = \"proto3\";\npackage " + pkg + ";\n"
		sb.WriteString(head)
		var used []string
		for k := 0; k < i && len(used) < 2; k++ {
			if r.Chance(1, 3) {
				used = append(used, order[k])
			}
		}
		for _, u := range used {
			sb.WriteString("import \"" + u + "\";\n")
		}
		body := fmt.Sprintf("message bad_%d {\n", i) // MESSAGE_PASCAL_CASE; the body is not canonically formatted
		body += "    int32   q=1;\n"
		for k, u := range used {
			upkg := "ov." + strings.NewReplacer("/", ".", ".proto", "").Replace(u)
			n := 0
			for j, o := range order {
				if o == u {
					n = j
				}
			}
			body += fmt.Sprintf("  %s.bad_%d r%d = %d;\n", upkg, n, k, k+2)
		}
		sb.WriteString(body + "}\n")
		w.files[p] = sb.String()
		// the old version has one more field and one more message per file: FIELD_NO_DELETE, MESSAGE_NO_DELETE
		ob.WriteString(sb.String()[:len(sb.String())-2])
		ob.WriteString("  int32 gone = 15;\n}\nmessage Removed" + fmt.Sprint(i) + " { int32 a = 1; }\n")
		w.old[p] = ob.String()
	}
	w.paths = append([]string{}, ps...)
	sort.Strings(w.paths)
	ds := map[string]bool{}
	for _, p := range ps {
		for d := filepath.Dir(p); d != "."; d = filepath.Dir(d) {
			ds[d] = true
		}
	}
	for d := range ds {
		w.dirs = append(w.dirs, d)
	}
	sort.Strings(w.dirs)
	return w
}

// contains: a == b or b lies below the directory a.
func pathContains(a, b string) bool { return a == b || strings.HasPrefix(b, a+"/") }

type ovCase struct {
	mode     string // "path" | "exclude" | "path+excludes" | "paths+exclude"
	targets  []string
	excludes []string
}

func (c ovCase) String() string {
	return fmt.Sprintf("%s targets=%v excludes=%v", c.mode, c.targets, c.excludes)
}

// cover: the list without every path that lies inside another one of the list.
func cover(ps []string) []string {
	var out []string
	for _, p := range ps {
		inside := false
		for _, q := range ps {
			if q != p && pathContains(q, p) {
				inside = true
			}
		}
		if !inside {
			out = append(out, p)
		}
	}
	return out
}

// overlapSets: lists with at least one containing pair.
func overlapSets(w ovWS, r *hx.Rand, n int) [][]string {
	var out [][]string
	seen := map[string]bool{}
	all := append(append([]string{}, w.dirs...), w.paths...)
	for tries := 0; len(out) < n && tries < 50*n; tries++ {
		f := hx.Pick(r, w.paths)
		var chain []string
		for d := filepath.Dir(f); d != "."; d = filepath.Dir(d) {
			chain = append([]string{d}, chain...)
		}
		chain = append(chain, f)
		if len(chain) < 2 {
			continue
		}
		// a sub-sequence of 2..3 elements of the chain
		k := 2
		if len(chain) >= 3 && r.Chance(1, 2) {
			k = 3
		}
		pick := append([]string{}, chain...)
		hx.Shuffle(r, pick)
		set := pick[:k]
		if r.Chance(1, 2) {
			x := hx.Pick(r, all)
			dup := false
			for _, s := range set {
				dup = dup || s == x
			}
			if !dup {
				set = append(set, x)
			}
		}
		sort.Strings(set)
		key := strings.Join(set, "|")
		if seen[key] {
			continue
		}
		seen[key] = true
		out = append(out, set)
	}
	return out
}

func permutations(xs []string, limit int, r *hx.Rand) [][]string {
	var out [][]string
	var rec func(cur []string, rest []string)
	rec = func(cur, rest []string) {
		if len(rest) == 0 {
			out = append(out, append([]string{}, cur...))
			return
		}
		for i := range rest {
			nr := append(append([]string{}, rest[:i]...), rest[i+1:]...)
			rec(append(cur, rest[i]), nr)
		}
	}
	rec(nil, xs) // xs sorted: out[0] is the sorted order, out[last] the reversed one
	if limit > 0 && len(out) > limit {
		keep := [][]string{out[0], out[len(out)-1]}
		mid := out[1 : len(out)-1]
		hx.Shuffle(r, mid)
		keep = append(keep, mid[:limit-2]...)
		out = keep
	}
	return out
}

// expectedTargets: independent of buf - from the file list alone.
func expectedTargets(w ovWS, targets, excludes []string) []string {
	var out []string
	for _, f := range w.paths {
		in := len(targets) == 0
		for _, t := range targets {
			in = in || pathContains(t, f)
		}
		for _, e := range excludes {
			if pathContains(e, f) {
				in = false
			}
		}
		if in {
			out = append(out, f)
		}
	}
	return out
}

type ovObs struct {
	walk    []string
	walkErr string
	ls      string // protocol form
	lsText  string
	image   string
	files   string
	format  string
}

func ovErrClass(err error) string {
	var de *bufmodule.DuplicateProtoPathError
	var ne *bufmodule.NoProtoFilesError
	switch {
	case errors.As(err, &de):
		return "dup"
	case errors.As(err, &ne):
		return "noproto"
	case errors.Is(err, bufmodule.ErrNoTargetProtoFiles):
		return "notargets"
	}
	return "other"
}

func ovInProcess(w ovWS, targets, excludes []string, withFormat bool) (o ovObs) {
	defer func() {
		if p := recover(); p != nil {
			o.walkErr = "PANIC " + fmt.Sprint(p)
		}
	}()
	b := storagemem.NewReadWriteBucket()
	for p, c := range w.files {
		must0(bk.PutString(ctx, b, p, c))
	}
	builder := bufmodule.NewModuleSetBuilder(ctx, logger, bufmodule.NopModuleDataProvider, bufmodule.NopCommitProvider)
	builder.AddLocalModule(b, "m", true, bufmodule.LocalModuleWithTargetPaths(append([]string{}, targets...), append([]string{}, excludes...)))
	ms, err := builder.Build()
	if err != nil {
		o.walkErr = "build module set: " + err.Error()
		return
	}
	mod := ms.Modules()[0]
	if err := mod.WalkFileInfos(ctx, func(fi bufmodule.FileInfo) error {
		o.walk = append(o.walk, fi.Path())
		return nil
	}, bufmodule.WalkFileInfosWithOnlyTargetFiles()); err != nil {
		o.walkErr = err.Error()
	}
	infos, err := bufmodule.GetTargetFileInfos(ctx, bufmodule.ModuleSetToModuleReadBucketWithOnlyProtoFiles(ms))
	switch {
	case err != nil:
		o.ls, o.lsText = "err/"+ovErrClass(err), "ERR "+err.Error()
	case len(infos) == 0:
		o.ls, o.lsText = "err/notargets", ""
	default:
		var ps, hs []string
		for _, fi := range infos {
			ps = append(ps, fi.Path())
			hs = append(hs, hx.Enc(fi.Path()))
		}
		o.ls, o.lsText = strings.Join(hs, ","), strings.Join(ps, "\n")
	}
	img, err := bufimage.BuildImage(ctx, logger, bufmodule.ModuleSetToModuleReadBucketWithOnlyProtoFiles(ms))
	if err != nil {
		o.image = "ERR " + ovErrClass(err) + " " + err.Error()
	} else {
		data := must(protoencoding.NewWireMarshaler().Marshal(must(bufimage.ImageToProtoImage(img))))
		h := sha256.Sum256(data)
		o.image = fmt.Sprintf("%d bytes sha256=%s", len(data), hex.EncodeToString(h[:]))
		var fs []string
		for _, f := range img.Files() {
			fs = append(fs, fmt.Sprintf("%s import=%v", f.Path(), f.IsImport()))
		}
		o.files = strings.Join(fs, "\n")
	}
	if withFormat {
		fb, err := bufformat.FormatModuleSet(ctx, ms)
		if err != nil {
			o.format = "ERR " + err.Error()
		} else {
			kvs, err := bk.WalkAll(ctx, fb, "")
			if err != nil {
				o.format = "ERR " + err.Error()
			} else {
				sort.Slice(kvs, func(i, j int) bool { return kvs[i].K < kvs[j].K })
				var sb strings.Builder
				for _, kv := range kvs {
					sb.WriteString("== " + kv.K + "\n" + kv.V)
				}
				hh := sha256.Sum256([]byte(sb.String()))
				o.format = fmt.Sprintf("%d files sha256=%s", len(kvs), hex.EncodeToString(hh[:]))
			}
		}
	}
	return
}

func encList(ps []string) string {
	if len(ps) == 0 {
		return "-"
	}
	out := make([]string, len(ps))
	for i, p := range ps {
		out[i] = hx.Enc(p)
	}
	return strings.Join(out, ",")
}

func overlapIndices(run *hx.Run) []int {
	if run.Only >= overlapOnlyBase {
		return []int{run.Only - overlapOnlyBase}
	}
	n := run.N(6, 20)
	out := make([]int, n)
	base := int(run.Seed%1000) * 1000
	for i := range out {
		out[i] = base + i
	}
	return out
}

func overlapReplay(run *hx.Run, idx int) string {
	return fmt.Sprintf("build/c02 --out /tmp/c02-replay --seed %d --tier %s --only %d keep", run.Seed, run.Tier, overlapOnlyBase+idx)
}

// overlapCases: the modes of one overlapping list.
func overlapCases(w ovWS, set []string) []ovCase {
	cs := []ovCase{
		{mode: "path", targets: set},
		{mode: "exclude", excludes: set},
	}
	cov := cover(set)
	if len(cov) == 1 && len(set) >= 3 {
		// --path <top> with the remaining (overlapping) entries as excludes inside it
		var rest []string
		for _, s := range set {
			if s != cov[0] {
				rest = append(rest, s)
			}
		}
		if len(cover(rest)) < len(rest) {
			cs = append(cs, ovCase{mode: "path+excludes", targets: []string{cov[0]}, excludes: rest})
		}
	}
	// the overlapping list as --path and one file that none of them is (or lies in) as exclude
	for _, f := range w.paths {
		ok := false
		for _, s := range set {
			if pathContains(s, f) && s != f {
				ok = true
			}
		}
		for _, s := range set {
			if s == f {
				ok = false
			}
		}
		if ok {
			cs = append(cs, ovCase{mode: "paths+exclude", targets: set, excludes: []string{f}})
			break
		}
	}
	return cs
}

func partBOverlap(run *hx.Run, r *hx.Rand) {
	seenLine := map[string]bool{}
	for _, idx := range overlapIndices(run) {
		cr := r.Fork(uint64(idx))
		w := genOverlapWS(cr, idx)
		rp := overlapReplay(run, idx)
		for si, set := range overlapSets(w, cr, run.N(6, 10)) {
			for _, c := range overlapCases(w, set) {
				in := map[string]any{"workspace": w.describe(), "case": c.String()}
				failed := map[string]bool{}
				fail := func(class, what string) {
					if failed[class] {
						return
					}
					failed[class] = true
					run.Fail(hx.OracleFailure{Class: class, What: fmt.Sprintf("overlap family member %d, %s: %s", idx, c.mode, what), Input: in, Replay: rp})
				}
				tperms := permutations(c.targets, run.N(8, 24), cr)
				eperms := permutations(c.excludes, run.N(8, 24), cr)
				if len(c.targets) == 0 {
					tperms = [][]string{nil}
				}
				if len(c.excludes) == 0 {
					eperms = [][]string{nil}
				}
				var ref ovObs
				first := true
				want := strings.Join(expectedTargets(w, c.targets, c.excludes), "\n")
				run.Count(fmt.Sprintf("O:case mode=%s size=%d", c.mode, len(set)))
				for _, tp := range tperms {
					for _, ep := range eperms {
						got := ovInProcess(w, tp, ep, first)
						run.Eval()
						run.Distinct(fmt.Sprintf("O-%d-%d-%s-%v-%v", idx, si, c.mode, tp, ep))
						subFirst := false
						for i, a := range tp {
							for _, b := range tp[i+1:] {
								subFirst = subFirst || (a != b && pathContains(b, a))
							}
						}
						run.Count(fmt.Sprintf("O:order sub-path-before-its-parent=%v", subFirst))
						// correspondence: walk order and sorted target list, as coded
						line := "twalk\t" + encList(w.paths) + "\t" + encList(tp) + "\t" + encList(ep)
						if !seenLine[line] {
							seenLine[line] = true
							impl := "walk=" + encList(got.walk) + "|ls=" + got.ls
							if got.walkErr != "" {
								impl = "walk=err|ls=" + got.ls
							}
							run.Case(line, impl, len(tp) >= 2 || len(ep) >= 2)
						}
						what := fmt.Sprintf("--path %v --exclude-path %v", tp, ep)
						if got.walkErr != "" {
							fail("overlap-walk-fails", what+": the target walk fails: "+got.walkErr)
						}
						dup := map[string]bool{}
						for _, p := range got.walk {
							if dup[p] {
								fail("overlap-duplicate-target", fmt.Sprintf("%s: WalkFileInfos(only target files) reports %s twice: %v", what, p, got.walk))
							}
							dup[p] = true
						}
						if got.lsText != want && !(got.ls == "err/notargets" && want == "") {
							fail("overlap-target-set", fmt.Sprintf("%s: target files\n%s\nbut the files below a --path and below no --exclude-path are\n%s", what, got.lsText, want))
						}
						if first {
							ref, first = got, false
							continue
						}
						cmp := func(name, a, b string) {
							if a != b {
								fail("overlap-order-dependent-"+name, fmt.Sprintf("%s gives\n%s\nbut the same paths in sorted order (--path %v --exclude-path %v) give\n%s", what, clip(b), tperms[0], eperms[0], clip(a)))
							}
						}
						cmp("lsfiles", ref.lsText, got.lsText)
						cmp("image", ref.image, got.image)
						cmp("image-files", ref.files, got.files)
						ws, gs := append([]string{}, ref.walk...), append([]string{}, got.walk...)
						sort.Strings(ws)
						sort.Strings(gs)
						cmp("walk-set", strings.Join(ws, "\n"), strings.Join(gs, "\n"))
					}
				}
				// the covering paths alone
				ct, ce := cover(c.targets), cover(c.excludes)
				if len(ct) != len(c.targets) || len(ce) != len(c.excludes) {
					cov := ovInProcess(w, ct, ce, true)
					run.Eval()
					cmp := func(name, a, b string) {
						if a != b {
							fail("overlap-not-equal-to-cover-"+name, fmt.Sprintf("--path %v --exclude-path %v gives\n%s\nbut the covering paths alone (--path %v --exclude-path %v) give\n%s", tperms[0], eperms[0], clip(a), ct, ce, clip(b)))
						}
					}
					cmp("lsfiles", ref.lsText, cov.lsText)
					cmp("image", ref.image, cov.image)
					cmp("image-files", ref.files, cov.files)
					cmp("format", ref.format, cov.format)
				}
			}
		}
	}
}

// ---------------------------------------------------------------------------------------
// the binary

// imageSetKey: an image as a SET of (file, import flag, descriptor).
func imageSetKey(data []byte) (string, bool) {
	pimg := &imagev1.Image{}
	if err := proto.Unmarshal(data, pimg); err != nil {
		return "", false
	}
	var ks []string
	names := map[string]bool{}
	for _, f := range pimg.GetFile() {
		if names[f.GetName()] {
			return "duplicate file " + f.GetName(), false
		}
		names[f.GetName()] = true
		b, _ := proto.MarshalOptions{Deterministic: true}.Marshal(f)
		h := sha256.Sum256(b)
		ks = append(ks, f.GetName()+" "+hex.EncodeToString(h[:8]))
	}
	sort.Strings(ks)
	return strings.Join(ks, "\n"), true
}

func countProtoPaths(ps []string) int {
	n := 0
	for _, p := range ps {
		if strings.HasSuffix(strings.TrimSuffix(p, "/"), ".proto") {
			n++
		}
	}
	return n
}

type ovCmd struct {
	name    string
	args    []string
	prefix  string // prepended to every module-relative path
	image   bool   // image input
	imgOut  bool   // stdout is an image
	export  bool
	lsfiles bool
}

// spell: plain, with a trailing slash (directories), with a leading "./".
func spell(p string, k int, isDir bool) string {
	switch k % 3 {
	case 1:
		if isDir {
			return p + "/"
		}
	case 2:
		return "./" + p
	}
	return p
}

func partEOverlap(run *hx.Run, r *hx.Rand, tmpRoot, bufBin string) {
	idxs := overlapIndices(run)
	if run.Only < 0 {
		n := run.N(2, 3)
		if n < len(idxs) {
			idxs = idxs[:n]
		}
	}
	keep := len(run.Args) > 0 && run.Args[0] == "keep"
	for _, idx := range idxs {
		cr := r.Fork(uint64(idx))
		w := genOverlapWS(cr, idx)
		rp := overlapReplay(run, idx)
		dir := filepath.Join(tmpRoot, fmt.Sprintf("ov-%d", idx))
		if keep {
			dir = filepath.Join(run.OutDir, fmt.Sprintf("ov-%d", idx))
			os.RemoveAll(dir)
		}
		// <root>/ws = the workspace (modules m, n), <root>/old = its previous version
		root := dir
		dir = filepath.Join(root, "ws")
		files := map[string]string{"ws/buf.yaml": "version: v2\nmodules:\n  - path: m\n  - path: n\n", "ws/n/other/n.proto": "syntax = \"proto3\";\npackage other;\nmessage N { int32 a = 1; }\n",
			"old/buf.yaml": "version: v2\nmodules:\n  - path: m\n  - path: n\n", "old/n/other/n.proto": "syntax = \"proto3\";\npackage other;\nmessage N { int32 a = 1; }\n"}
		for p, c := range w.files {
			files["ws/m/"+p] = c
			files["old/m/"+p] = w.old[p]
		}
		writeTree(root, files)
		// the previous version also as an archive: --path values are resolved inside it (a directory
		// given to --against would make every --path "outside the context directory")
		{
			var buf bytes.Buffer
			tw := tar.NewWriter(&buf)
			var names []string
			for p := range files {
				if strings.HasPrefix(p, "old/") {
					names = append(names, p)
				}
			}
			sort.Strings(names)
			for _, p := range names {
				must0(tw.WriteHeader(&tar.Header{Name: strings.TrimPrefix(p, "old/"), Mode: 0o644, Size: int64(len(files[p]))}))
				must(tw.Write([]byte(files[p])))
			}
			must0(tw.Close())
			must0(os.WriteFile(filepath.Join(root, "old.tar"), buf.Bytes(), 0o644))
		}
		if a, b := runBufBin(bufBin, tmpRoot, dir, "", []string{"build", "-o", "img.binpb"}), runBufBin(bufBin, tmpRoot, dir, "", []string{"build", "../old", "-o", "old.binpb"}); a.code != 0 || b.code != 0 {
			run.Fail(hx.OracleFailure{Class: "overlap-family-does-not-build", What: a.stderr + b.stderr, Input: w.describe(), Replay: rp})
			continue
		}
		isDir := map[string]bool{}
		for _, d := range w.dirs {
			isDir[d] = true
		}
		cmds := []ovCmd{
			{name: "build", args: []string{"build", "-o", "-"}, prefix: "m/", imgOut: true},
			{name: "build-module-dir", args: []string{"build", "m", "-o", "-"}, prefix: "m/", imgOut: true},
			{name: "build-image", args: []string{"build", "img.binpb", "-o", "-"}, image: true, imgOut: true},
			{name: "lint", args: []string{"lint", "--error-format=json"}, prefix: "m/"},
			{name: "lint-image", args: []string{"lint", "img.binpb", "--error-format=json"}, image: true},
			{name: "breaking", args: []string{"breaking", "--against", "../old.tar", "--error-format=json"}, prefix: "m/"},
			{name: "format", args: []string{"format", "-d"}, prefix: "m/"},
			{name: "export", args: []string{"export"}, prefix: "m/", export: true},
			{name: "ls-files", args: []string{"ls-files"}, prefix: "m/", lsfiles: true},
			{name: "ls-files-image", args: []string{"ls-files", "img.binpb"}, image: true, lsfiles: true},
		}
		type arrangement struct {
			c          ovCase
			tp, ep     []string
			spelling   int
			isRef      bool
			isCover    bool
			refOfCover int
		}
		type ojob struct {
			ci   int
			ar   int
			args []string
			out  string // export directory
			res  binResult
			tree string
		}
		var ars []arrangement
		var groups [][]int // indices into ars: [ref, perms..., cover?]
		for _, set := range overlapSets(w, cr, run.N(2, 4)) {
			for _, c := range overlapCases(w, set) {
				tperms := permutations(c.targets, run.N(3, 6), cr)
				eperms := permutations(c.excludes, run.N(3, 6), cr)
				if len(c.targets) == 0 {
					tperms = [][]string{nil}
				}
				if len(c.excludes) == 0 {
					eperms = [][]string{nil}
				}
				var g []int
				k := 0
				for ti, tp := range tperms {
					for ei, ep := range eperms {
						if ti > 0 && ei > 0 && len(tperms)*len(eperms) > 4 && (ti+ei)%2 == 0 {
							continue
						}
						g = append(g, len(ars))
						ars = append(ars, arrangement{c: c, tp: tp, ep: ep, spelling: k, isRef: k == 0})
						k++
					}
				}
				ct, ce := cover(c.targets), cover(c.excludes)
				if len(ct) != len(c.targets) || len(ce) != len(c.excludes) {
					g = append(g, len(ars))
					ars = append(ars, arrangement{c: c, tp: ct, ep: ce, isCover: true})
				}
				groups = append(groups, g)
			}
		}
		var jobs []*ojob
		jobAt := map[[2]int]*ojob{}
		for ai, a := range ars {
			for ci, c := range cmds {
				if strings.Contains(a.c.mode, "+") && !(c.name == "build" || c.name == "ls-files" || c.name == "format" || c.name == "build-image") {
					continue // the mixed modes: four commands
				}
				if a.c.mode == "exclude" && (c.name == "build-module-dir" || c.name == "lint-image" || c.name == "ls-files-image") {
					continue
				}
				args := append([]string{}, c.args...)
				for i, p := range a.tp {
					s := c.prefix + p
					if a.spelling > 0 {
						s = spell(s, a.spelling+i, isDir[p])
					}
					args = append(args, "--path", s)
				}
				for i, p := range a.ep {
					s := c.prefix + p
					if a.spelling > 0 {
						s = spell(s, a.spelling+i+1, isDir[p])
					}
					args = append(args, "--exclude-path", s)
				}
				j := &ojob{ci: ci, ar: ai, args: args}
				if c.export {
					j.out = filepath.Join(root, fmt.Sprintf("exp-%d", ai))
					j.args = append(j.args, "-o", j.out)
				}
				jobs = append(jobs, j)
				jobAt[[2]int{ai, ci}] = j
			}
		}
		gmps := []string{"", "1", "4", "16"}
		parallelDo(12, len(jobs), func(k int) {
			j := jobs[k]
			j.res = runBufBin(bufBin, tmpRoot, dir, gmps[k%len(gmps)], j.args)
			if j.out != "" {
				var ls []string
				filepath.Walk(j.out, func(p string, info os.FileInfo, err error) error {
					if err == nil && !info.IsDir() {
						data, _ := os.ReadFile(p)
						h := sha256.Sum256(data)
						rel, _ := filepath.Rel(j.out, p)
						ls = append(ls, rel+" "+hex.EncodeToString(h[:6]))
					}
					return nil
				})
				sort.Strings(ls)
				j.tree = strings.Join(ls, "\n")
				os.RemoveAll(j.out)
			}
		})
		text := func(j *ojob) string {
			return fmt.Sprintf("exit=%d\n--stdout\n%s\n--stderr\n%s\n--tree\n%s", j.res.code, j.res.stdout, j.res.stderr, j.tree)
		}
		for _, g := range groups {
			refA := ars[g[0]]
			for ci, c := range cmds {
				ref := jobAt[[2]int{g[0], ci}]
				if ref == nil {
					continue
				}
				in := map[string]any{"workspace": w.describe(), "case": refA.c.String(), "args": ref.args}
				nProto := countProtoPaths(refA.tp)
				run.Count("EO:buf " + c.name + " mode=" + refA.c.mode)
				fail := func(class, what string, args []string) {
					in["args"] = args
					run.Fail(hx.OracleFailure{Class: class, What: fmt.Sprintf("overlap family member %d: %s", idx, what), Input: in, Replay: rp})
				}
				// no file twice, target set as expected (sources: ls-files prints the targets)
				if c.lsfiles && ref.res.code == 0 {
					lines := strings.Split(strings.TrimSpace(ref.res.stdout), "\n")
					seen := map[string]bool{}
					for _, l := range lines {
						if seen[l] {
							fail("binary-overlap-duplicate-target", fmt.Sprintf("`buf %s` prints %s twice", strings.Join(ref.args, " "), l), ref.args)
						}
						seen[l] = true
					}
					if !c.image {
						var want []string
						for _, p := range expectedTargets(w, refA.tp, refA.ep) {
							want = append(want, c.prefix+p)
						}
						if len(refA.tp) == 0 {
							want = append(want, "n/other/n.proto") // the second module is not restricted by excludes inside m
						}
						if strings.Join(lines, "\n") != strings.Join(want, "\n") && !(len(want) == 0 && ref.res.stdout == "") {
							fail("binary-overlap-target-set", fmt.Sprintf("`buf %s` prints\n%s\nbut the files below a --path and below no --exclude-path are\n%s", strings.Join(ref.args, " "), ref.res.stdout, strings.Join(want, "\n")), ref.args)
						}
					}
				}
				if c.imgOut && ref.res.code == 0 {
					if k, ok := imageSetKey([]byte(ref.res.stdout)); !ok {
						fail("binary-overlap-duplicate-target", fmt.Sprintf("`buf %s`: %s", strings.Join(ref.args, " "), k), ref.args)
					}
				}
				if ref.res.code != 0 && ref.res.code != 100 && len(expectedTargets(w, refA.tp, refA.ep)) > 0 {
					fail("binary-overlap-fails", fmt.Sprintf("`buf %s` exits %d: %s", strings.Join(ref.args, " "), ref.res.code, clipN(ref.res.stderr, 300)), ref.args)
				}
				for _, ai := range g[1:] {
					a := ars[ai]
					j := jobAt[[2]int{ai, ci}]
					if j == nil {
						continue
					}
					run.Eval()
					run.Distinct(fmt.Sprintf("EO-%d-%d-%d", idx, ai, ci))
					x, y := text(ref), text(j)
					asSet := false
					if c.image && c.imgOut && (nProto >= 2 || (a.isCover && nProto >= 1)) {
						// explicitly named .proto files come first in argument order (recorded finding
						// image-path-order-dependent): compare as sets
						asSet = true
						kx, okx := imageSetKey([]byte(ref.res.stdout))
						ky, oky := imageSetKey([]byte(j.res.stdout))
						if okx && oky {
							x = fmt.Sprintf("exit=%d\n%s\n%s", ref.res.code, kx, ref.res.stderr)
							y = fmt.Sprintf("exit=%d\n%s\n%s", j.res.code, ky, j.res.stderr)
						}
					}
					if x == y {
						continue
					}
					class := "binary-overlap-order-dependent-" + c.name
					what := fmt.Sprintf("`buf %s` differs from `buf %s` (the same paths in sorted order)", strings.Join(j.args, " "), strings.Join(ref.args, " "))
					if a.isCover {
						class = "binary-overlap-not-equal-to-cover-" + c.name
						what = fmt.Sprintf("`buf %s` (the covering paths alone) differs from `buf %s`", strings.Join(j.args, " "), strings.Join(ref.args, " "))
					}
					if asSet {
						what += " even as a set of files"
					}
					what += fmt.Sprintf(": exit %d vs %d; first differing line: %s", j.res.code, ref.res.code, clipN(firstDiffLine(x, y), 300))
					fail(class, what, j.args)
				}
			}
		}
		if !keep {
			os.RemoveAll(root)
		}
	}
}
