package main

// Multi-client family (part B-mclient): lint / breaking with SEVERAL check clients of which some
// fail.
//
// `buf lint` / `buf breaking` fan one request out to the builtin check client and to every
// configured check plugin (bufcheck multiClient.Check -> thread.Parallelize, one job per client
// that has a requested rule, in CONFIG order).  C02: what is printed — the annotations when all
// clients succeed, the error when some fail — is a function of the inputs, not of which client
// finished first nor of how many jobs could be in flight.
//
// The family reaches the fan-out through the exported API only: bufcheck.NewClient with a
// RunnerProvider that answers every plugin config with an in-process pluginrpc server for a
// check.Spec of the harness (pluginrpc.NewServerRunner(check.NewServer(spec))), and
// Client.Lint / Client.Breaking with bufcheck.WithPluginConfigs.  Handlers of the harness's
// plugins fail / succeed (with annotations) / are slow / block until the harness releases them
// (all of them give way to a cancelled context, like every well-behaved plugin).
//
// Member k (`--only 6000000+k`): 2-5 plugin clients (+ the builtin client in 2 of 3 members),
// the failing subset is taken from k (every subset of every size is reached by consecutive
// members), some clients have no requested rule (no job), lint or breaking.  Every member is
// run under thread.SetParallelism 1/2/3/4/16, GOMAXPROCS 1/2/4/N, seeded yields at the verif hook
// points, forced completion orders of the blocking handlers, and with the plugin list permuted.
//
// Oracle classes:
//
//	multiclient-error-schedule-dependent     same member, same plugin order: two schedules, two error texts
//	multiclient-error-not-config-order       the error is not the errors of the failing clients (each obtained by
//	                                         running that client ALONE) in config order, joined by newlines
//	multiclient-context-canceled-leaked      the text mentions a cancelled context (nothing cancels the caller's)
//	multiclient-client-not-run-once          a client with a requested rule was not run exactly once
//	multiclient-annotations-schedule-dependent / multiclient-annotations-not-union   (all clients succeed)
//	multiclient-verdict                      error although no client fails / no error although one fails
//	multiclient-panic
//
// Leg C: `mcheck <parallelism> <outcome per client f|s|n> <clients in the order they finished>`
// -> `err=<ids of the clients whose errors are listed, in the order listed | ->|ran=<sorted>`
// against BufModel.MultiClient.checkErr (= Parallel.joinedErrors over the jobs).

import (
	"context"
	"errors"
	"fmt"
	"runtime"
	"sort"
	"strconv"
	"strings"
	"sync"
	"time"

	"buf.build/go/bufplugin/check"
	"github.com/bufbuild/buf/private/bufpkg/bufanalysis"
	"github.com/bufbuild/buf/private/bufpkg/bufcheck"
	"github.com/bufbuild/buf/private/bufpkg/bufconfig"
	"github.com/bufbuild/buf/private/bufpkg/bufimage"
	"github.com/bufbuild/buf/private/bufpkg/bufmodule"
	"github.com/bufbuild/buf/private/bufpkg/bufmodule/bufmoduletesting"
	"github.com/bufbuild/buf/private/pkg/thread"
	"github.com/bufbuild/buf/private/pkg/verifhook"
	"github.com/bufbuild/verifharness/internal/hx"
	"pluginrpc.com/pluginrpc"
)

const mclientOnlyBase = 6000000

type mcBehaviour struct {
	Outcome string `json:"outcome"` // "f" fails, "s" succeeds, "n" no rule of it requested
	Timing  string `json:"timing"`  // "instant", "slow", "gated"
	Annots  int    `json:"annotations"`
}

type mcMember struct {
	Idx      int           `json:"member"`
	Breaking bool          `json:"breaking"`
	Builtin  bool          `json:"builtin_client"`
	Clients  []mcBehaviour `json:"plugins"`
}

func (m mcMember) outcomes() string {
	var sb strings.Builder
	for _, c := range m.Clients {
		sb.WriteString(c.Outcome)
	}
	return sb.String()
}

func mcName(i int) string { return fmt.Sprintf("buf-plugin-mc%c", 'a'+i) }
func mcRule(i int, breaking bool) string {
	if breaking {
		return fmt.Sprintf("MC%c_BREAKING", 'A'+i)
	}
	return fmt.Sprintf("MC%c_LINT", 'A'+i)
}

func genMClient(r *hx.Rand, idx int) mcMember {
	nc := 2 + idx%4
	mask := (idx / 4) % (1 << nc)
	m := mcMember{Idx: idx, Breaking: (idx/4)%3 == 2, Builtin: idx%3 != 0}
	for i := 0; i < nc; i++ {
		b := mcBehaviour{Outcome: "s", Timing: hx.Pick(r, []string{"instant", "instant", "slow", "gated", "gated"})}
		if mask&(1<<i) != 0 {
			b.Outcome = "f"
		} else if r.Chance(1, 6) {
			b.Outcome = "n"
		} else {
			b.Annots = r.Intn(3)
		}
		m.Clients = append(m.Clients, b)
	}
	// at least one plugin rule is requested: with NO rule in `use` at all (every client "n" and no
	// builtin client) the check config falls back to the DEFAULT rules, which include the rules of
	// every plugin, so each handler rightly runs once — a different configuration from the one this
	// family means by "n" (false alarm of the first version: seed 4, member 384)
	allN := true
	for _, b := range m.Clients {
		allN = allN && b.Outcome == "n"
	}
	if allN {
		m.Clients[0].Outcome = "s"
	}
	return m
}

// mcRun is one execution of a member: the plugin servers record what happened.
type mcRun struct {
	mu        sync.Mutex
	started   []int
	finished  []int
	ranCount  map[int]int
	gates     map[int]chan struct{}
	gateOnce  map[int]*sync.Once
	behaviour []mcBehaviour
	breaking  bool
}

func (x *mcRun) release(i int) {
	if g, ok := x.gates[i]; ok {
		x.gateOnce[i].Do(func() { close(g) })
	}
}

// handle is the body of both rules of plugin i in this execution.
func (x *mcRun) handle(i int, ctx context.Context, w check.ResponseWriter, req check.Request) error {
	b := x.behaviour[i]
	x.mu.Lock()
	x.started = append(x.started, i)
	x.ranCount[i]++
	x.mu.Unlock()
	defer func() {
		x.mu.Lock()
		x.finished = append(x.finished, i)
		x.mu.Unlock()
	}()
	switch b.Timing {
	case "slow":
		select {
		case <-ctx.Done():
			return ctx.Err()
		case <-time.After(time.Duration(300+200*i) * time.Microsecond):
		}
	case "gated":
		select {
		case <-ctx.Done():
			return ctx.Err()
		case <-x.gates[i]:
		}
	}
	if b.Outcome == "f" {
		return fmt.Errorf("client %d exploded", i)
	}
	for a := 0; a < b.Annots; a++ {
		for _, fd := range req.FileDescriptors() {
			if fd.IsImport() {
				continue
			}
			w.AddAnnotation(check.WithMessagef("finding %d of client %d", a, i), check.WithDescriptor(fd.ProtoreflectFileDescriptor().Messages().Get(0)))
		}
	}
	return nil
}

// mcServer: the in-process pluginrpc server of plugin i, built once (a check server builds its
// protovalidate validators on first use, ~50 ms); its handlers act for the execution in progress.
var mcServers = map[int]pluginrpc.Server{}

func mcServer(i int) (pluginrpc.Server, error) {
	if s, ok := mcServers[i]; ok {
		return s, nil
	}
	handler := func(ctx context.Context, w check.ResponseWriter, req check.Request) error {
		mcCurrent.Lock()
		x := mcCurrent.run
		mcCurrent.Unlock()
		return x.handle(i, ctx, w, req)
	}
	// a lint rule and a breaking rule per plugin; only the rule of the member's kind is requested
	s, err := check.NewServer(&check.Spec{Rules: []*check.RuleSpec{
		{ID: mcRule(i, false), Default: true, Purpose: "Checks nothing (lint rule of harness client " + strconv.Itoa(i) + ").", Type: check.RuleTypeLint, Handler: check.RuleHandlerFunc(handler)},
		{ID: mcRule(i, true), Default: true, Purpose: "Checks nothing (breaking rule of harness client " + strconv.Itoa(i) + ").", Type: check.RuleTypeBreaking, Handler: check.RuleHandlerFunc(handler)},
	}})
	if err == nil {
		mcServers[i] = s
	}
	return s, err
}

type mcSchedule struct {
	Par      int    `json:"parallelism"`
	Gmp      int    `json:"gomaxprocs"`
	HookSeed uint64 `json:"hook_seed"`
	Order    []int  `json:"plugin_order"`  // config order: position -> client
	Release  []int  `json:"release_order"` // gated clients (client ids) in the order the harness releases them
	Only     []int  `json:"only_clients"`  // nil: all; else the run is restricted to these clients (reference runs)
	// OnlyBuiltin: reference run of the builtin client alone
	OnlyBuiltin bool `json:"only_builtin"`
}

type mcResult struct {
	err      string
	isErr    bool
	finished []int
	ran      map[int]int
	panicked string
}

var mcImage, mcAgainst bufimage.Image

var mcCurrent struct {
	sync.Mutex
	run    *mcRun
	byName map[string]int
}

var mcClientOnce sync.Once
var mcTheClient bufcheck.Client

func mcClient() bufcheck.Client {
	mcClientOnce.Do(func() {
		mcTheClient = must(bufcheck.NewClient(logger, bufcheck.RunnerProviderFunc(func(pc bufconfig.PluginConfig) (pluginrpc.Runner, error) {
			mcCurrent.Lock()
			byName := mcCurrent.byName
			mcCurrent.Unlock()
			i, ok := byName[pc.Name()]
			if !ok {
				return nil, fmt.Errorf("unknown plugin %q", pc.Name())
			}
			server, err := mcServer(i)
			if err != nil {
				return nil, err
			}
			return pluginrpc.NewServerRunner(server), nil
		})))
	})
	return mcTheClient
}

func mcImages() (bufimage.Image, bufimage.Image) {
	if mcImage == nil {
		build := func(src string) bufimage.Image {
			ms := must(bufmoduletesting.NewModuleSet(bufmoduletesting.ModuleData{Name: "buf.build/acme/mc", PathToData: map[string][]byte{"mc/v1/mc.proto": []byte(src)}}))
			return must(bufimage.BuildImage(ctx, logger, bufmodule.ModuleSetToModuleReadBucketWithOnlyProtoFiles(ms)))
		}
		mcImage = build("syntax = \"proto3\";\n\npackage mc.v1;\n\nmessage Mc {\n  string a = 1;\n  string Bad = 3;\n}\n")
		mcAgainst = build("syntax = \"proto3\";\n\npackage mc.v1;\n\nmessage Mc {\n  string a = 1;\n  string b = 2;\n  string Bad = 3;\n}\n")
	}
	return mcImage, mcAgainst
}

// mcExecute runs lint / breaking once with the member's plugins in the schedule's config order.
func mcExecute(m mcMember, s mcSchedule) (res mcResult) {
	x := &mcRun{ranCount: map[int]int{}, gates: map[int]chan struct{}{}, gateOnce: map[int]*sync.Once{}, behaviour: m.Clients, breaking: m.Breaking}
	for i, b := range m.Clients {
		if b.Timing == "gated" {
			x.gates[i] = make(chan struct{})
			x.gateOnce[i] = &sync.Once{}
		}
	}
	byName := map[string]int{}
	var pcs []bufconfig.PluginConfig
	var use []string
	for _, i := range s.Order {
		if s.Only != nil && !containsInt(s.Only, i) {
			continue
		}
		byName[mcName(i)] = i
		pcs = append(pcs, must(bufconfig.NewLocalPluginConfig(mcName(i), nil, []string{mcName(i)})))
		if m.Clients[i].Outcome != "n" {
			use = append(use, mcRule(i, m.Breaking))
		}
	}
	// the builtin client takes part with one rule that has a finding on the family's image
	withBuiltin := (m.Builtin && s.Only == nil) || s.OnlyBuiltin
	if withBuiltin {
		if m.Breaking {
			use = append(use, "FIELD_NO_DELETE")
		} else {
			use = append(use, "FIELD_LOWER_SNAKE_CASE")
		}
	}
	// one bufcheck.Client for the whole part (constructing one costs ~150 ms: three builtin
	// specs); its runner provider serves the plugins of the execution in progress
	mcCurrent.Lock()
	mcCurrent.run, mcCurrent.byName = x, byName
	mcCurrent.Unlock()
	client := mcClient()
	oldG := runtime.GOMAXPROCS(s.Gmp)
	oldP := thread.Parallelism()
	thread.SetParallelism(s.Par)
	if s.HookSeed != 0 {
		installHooks(s.HookSeed)
	}
	defer func() {
		verifhook.SetHandler(nil)
		thread.SetParallelism(oldP)
		runtime.GOMAXPROCS(oldG)
	}()
	// the releaser: opens the gates in the schedule's order, each once the client has started
	// (or after a moment: with a small parallelism it may not start before an earlier one ends)
	stop := make(chan struct{})
	var relWG sync.WaitGroup
	relWG.Add(1)
	go func() {
		defer relWG.Done()
		waitFor := func(cond func() bool, d time.Duration) {
			deadline := time.Now().Add(d)
			for !cond() && time.Now().Before(deadline) {
				select {
				case <-stop:
					return
				default:
				}
				time.Sleep(20 * time.Microsecond)
			}
		}
		for _, i := range s.Release {
			waitFor(func() bool { x.mu.Lock(); defer x.mu.Unlock(); return containsInt(x.started, i) }, 2*time.Millisecond)
			x.release(i)
			waitFor(func() bool { x.mu.Lock(); defer x.mu.Unlock(); return containsInt(x.finished, i) }, 2*time.Millisecond)
			time.Sleep(30 * time.Microsecond) // a cancellation caused by this client's failure would be visible now
		}
		for i := range x.gates {
			x.release(i)
		}
	}()
	cc := must(bufconfig.NewEnabledCheckConfig(bufconfig.FileVersionV2, use, nil, nil, nil, !withBuiltin))
	img, against := mcImages()
	var err error
	func() {
		defer func() {
			if p := recover(); p != nil {
				res.panicked = fmt.Sprint(p)
			}
		}()
		if m.Breaking {
			err = client.Breaking(ctx, bufconfig.NewBreakingConfig(cc, false), img, against, bufcheck.WithPluginConfigs(pcs...))
		} else {
			err = client.Lint(ctx, bufconfig.NewLintConfig(cc, "", false, false, false, "", false), img, bufcheck.WithPluginConfigs(pcs...))
		}
	}()
	close(stop)
	for i := range x.gates {
		x.release(i)
	}
	relWG.Wait()
	x.mu.Lock()
	defer x.mu.Unlock()
	res.finished = append([]int{}, x.finished...)
	res.ran = map[int]int{}
	for k, v := range x.ranCount {
		res.ran[k] = v
	}
	if err != nil {
		res.err = err.Error()
		var fas bufanalysis.FileAnnotationSet
		res.isErr = !errors.As(err, &fas)
	}
	return res
}

func containsInt(xs []int, v int) bool {
	for _, x := range xs {
		if x == v {
			return true
		}
	}
	return false
}

func mclientIndices(run *hx.Run) []int {
	if run.Only >= mclientOnlyBase {
		return []int{run.Only - mclientOnlyBase}
	}
	n := run.N(32, 96)
	out := make([]int, n)
	base := int(run.Seed%1000) * 96
	for i := range out {
		out[i] = base + i
	}
	return out
}

func mclientReplay(run *hx.Run, idx int) string {
	return fmt.Sprintf("build/c02 --out /tmp/c02-replay --seed %d --tier %s --only %d", run.Seed, run.Tier, mclientOnlyBase+idx)
}

// mcSchedules: the executions of one member (all with the SAME inputs up to the plugin order).
func mcSchedules(run *hx.Run, cr *hx.Rand, m mcMember) []mcSchedule {
	nc := len(m.Clients)
	ident := make([]int, nc)
	for i := range ident {
		ident[i] = i
	}
	rev := make([]int, nc)
	for i := range rev {
		rev[i] = nc - 1 - i
	}
	shuf := func() []int {
		o := append([]int{}, ident...)
		hx.Shuffle(cr, o)
		return o
	}
	var gated, gatedFailFirst, gatedFailLast []int
	for i, b := range m.Clients {
		if b.Timing == "gated" {
			gated = append(gated, i)
		}
	}
	for _, want := range []string{"f", "s", "n"} {
		for _, i := range gated {
			if m.Clients[i].Outcome == want {
				gatedFailFirst = append(gatedFailFirst, i)
			}
		}
	}
	for k := len(gatedFailFirst) - 1; k >= 0; k-- {
		gatedFailLast = append(gatedFailLast, gatedFailFirst[k])
	}
	revGated := make([]int, len(gated))
	for k := range gated {
		revGated[k] = gated[len(gated)-1-k]
	}
	shufGated := func() []int {
		o := append([]int{}, gated...)
		hx.Shuffle(cr, o)
		return o
	}
	ncpu := runtime.NumCPU()
	out := []mcSchedule{
		{Par: 1, Gmp: ncpu, Order: ident, Release: gated},
		{Par: 16, Gmp: ncpu, HookSeed: cr.Uint64() | 1, Order: ident, Release: revGated},
		{Par: 2, Gmp: 2, HookSeed: cr.Uint64() | 1, Order: ident, Release: shufGated()},
		{Par: 4, Gmp: 1, Order: ident, Release: gatedFailFirst},
		{Par: 3, Gmp: 4, HookSeed: cr.Uint64() | 1, Order: ident, Release: gatedFailLast},
		{Par: 16, Gmp: ncpu, Order: rev, Release: gatedFailFirst},
		{Par: 1, Gmp: 2, Order: shuf(), Release: revGated},
		{Par: 2, Gmp: ncpu, HookSeed: cr.Uint64() | 1, Order: shuf(), Release: shufGated()},
	}
	if run.Thorough() {
		for k := 0; k < 8; k++ {
			s := mcSchedule{Par: hx.Pick(cr, []int{1, 2, 3, 4, 5, 16}), Gmp: hx.Pick(cr, []int{1, 2, 3, 8, ncpu}), Release: shufGated(), Order: ident}
			if cr.Bool() {
				s.HookSeed = cr.Uint64() | 1
			}
			if k%2 == 1 {
				s.Order = shuf()
			}
			out = append(out, s)
		}
	}
	return out
}

func sortedLines(s string) string {
	if s == "" {
		return ""
	}
	ls := strings.Split(s, "\n")
	sort.Strings(ls)
	return strings.Join(ls, "\n")
}

func partBMClient(run *hx.Run, r *hx.Rand) {
	for _, idx := range mclientIndices(run) {
		cr := r.Fork(uint64(idx))
		m := genMClient(cr, idx)
		nc := len(m.Clients)
		replay := mclientReplay(run, idx)
		nFail := strings.Count(m.outcomes(), "f")
		run.Count(fmt.Sprintf("MC:plugins=%d", nc))
		run.Count(fmt.Sprintf("MC:failing=%d", nFail))
		run.Count("MC:breaking=" + b01(m.Breaking))
		run.Count("MC:builtin=" + b01(m.Builtin))
		perClass := map[string]int{}
		fail := func(class, what string, s mcSchedule, extra map[string]any) {
			perClass[class]++
			if perClass[class] > 2 {
				return
			}
			in := map[string]any{"member": m, "schedule": s}
			for k, v := range extra {
				in[k] = v
			}
			run.Fail(hx.OracleFailure{Class: class, What: fmt.Sprintf("multi-client member %d (%s, outcomes %s, builtin client %v): %s", idx, map[bool]string{false: "lint", true: "breaking"}[m.Breaking], m.outcomes(), m.Builtin, what), Input: in, Replay: replay})
		}
		// reference: every client ALONE (same request otherwise) — its own error text / its own findings
		aloneErr := map[int]string{}
		var unionLines []string
		for i, b := range m.Clients {
			if b.Outcome == "n" {
				continue
			}
			res := mcExecute(m, mcSchedule{Par: 1, Gmp: runtime.NumCPU(), Order: []int{i}, Release: []int{i}, Only: []int{i}})
			run.Eval()
			switch {
			case res.panicked != "":
				fail("multiclient-panic", "client "+strconv.Itoa(i)+" alone: panic: "+res.panicked, mcSchedule{Only: []int{i}}, nil)
			case b.Outcome == "f" && res.isErr:
				aloneErr[i] = res.err
			case b.Outcome == "s" && !res.isErr:
				if res.err != "" {
					unionLines = append(unionLines, strings.Split(res.err, "\n")...)
				}
			default:
				fail("multiclient-verdict", fmt.Sprintf("client %d alone (outcome %s) gave isErr=%v: %s", i, b.Outcome, res.isErr, clipN(res.err, 300)), mcSchedule{Only: []int{i}}, nil)
			}
		}
		if m.Builtin {
			res := mcExecute(m, mcSchedule{Par: 1, Gmp: runtime.NumCPU(), Order: nil, Only: []int{}, OnlyBuiltin: true})
			run.Eval()
			if res.isErr || res.panicked != "" {
				fail("multiclient-verdict", "the builtin client alone fails: "+res.err+res.panicked, mcSchedule{OnlyBuiltin: true}, nil)
			} else if res.err != "" {
				unionLines = append(unionLines, strings.Split(res.err, "\n")...)
			}
		}
		sort.Strings(unionLines)
		wantLines := strings.Join(unionLines, "\n")
		firstByOrder := map[string]string{} // plugin order -> text of the first schedule with that order
		firstSched := map[string]mcSchedule{}
		successText, haveSuccess := "", false
		var successSched mcSchedule
		for si, s := range mcSchedules(run, cr, m) {
			res := mcExecute(m, s)
			run.Eval()
			run.Distinct(fmt.Sprintf("MC-%d-%d", idx, si))
			run.Count(fmt.Sprintf("MC:parallelism=%d", s.Par))
			pos := map[int]int{} // client -> position in the config order
			for p, i := range s.Order {
				pos[i] = p
			}
			outc := make([]byte, nc)
			for p, i := range s.Order {
				outc[p] = m.Clients[i].Outcome[0]
			}
			// what the error lists, as positions
			var items []string
			if res.isErr {
				for _, line := range strings.Split(res.err, "\n") {
					item := "other"
					for i, e := range aloneErr {
						if line == e {
							item = strconv.Itoa(pos[i])
						}
					}
					if line == context.Canceled.Error() {
						item = "ctx"
					}
					items = append(items, item)
				}
			}
			var ranPos, finPos []int
			for i, n := range res.ran {
				if n > 0 {
					ranPos = append(ranPos, pos[i])
				}
			}
			sort.Ints(ranPos)
			for _, i := range res.finished {
				finPos = append(finPos, pos[i])
			}
			errS := "-"
			if len(items) > 0 {
				errS = strings.Join(items, ",")
			}
			run.Case("mcheck\t"+strconv.Itoa(s.Par)+"\t"+string(outc)+"\t"+intsCSV(finPos), "err="+errS+"|ran="+intsCSV(ranPos), nFail >= 2)
			run.Count(fmt.Sprintf("MC:error-items=%d", len(items)))
			if len(finPos) >= 2 {
				inOrder := sort.IntsAreSorted(finPos)
				run.Count("MC:finished-in-config-order=" + b01(inOrder))
			}
			extra := map[string]any{"output": res.err, "handlers_finished_in_order": res.finished}
			if res.panicked != "" {
				fail("multiclient-panic", "panic: "+res.panicked, s, extra)
				continue
			}
			// every client with a requested rule runs exactly once, failing neighbours or not
			for i, b := range m.Clients {
				want := 1
				if b.Outcome == "n" {
					want = 0
				}
				if res.ran[i] != want {
					fail("multiclient-client-not-run-once", fmt.Sprintf("[parallelism %d, plugin order %v] the handler of client %d (outcome %s) ran %d time(s), expected %d; output %s", s.Par, s.Order, i, b.Outcome, res.ran[i], want, clipOut(res.err, 300)), s, extra)
				}
			}
			if res.isErr != (nFail > 0) {
				fail("multiclient-verdict", fmt.Sprintf("[parallelism %d, plugin order %v] %d client(s) fail but the call returned error=%v: %s", s.Par, s.Order, nFail, res.isErr, clipOut(res.err, 300)), s, extra)
				continue
			}
			key := fmt.Sprint(s.Order)
			if res.isErr {
				if strings.Contains(res.err, "context canceled") {
					fail("multiclient-context-canceled-leaked", fmt.Sprintf("[parallelism %d, plugin order %v, release order %v] nothing cancels the caller's context, yet the error reads %s", s.Par, s.Order, s.Release, clipOut(res.err, 400)), s, extra)
				}
				var want []string
				for _, i := range s.Order {
					if e, ok := aloneErr[i]; ok {
						want = append(want, e)
					}
				}
				if w := strings.Join(want, "\n"); w != res.err {
					extra["expected"] = w
					fail("multiclient-error-not-config-order", fmt.Sprintf("[parallelism %d, plugin order %v, release order %v, handlers finished %v] the error is not the errors of the failing clients in config order:\n--- got\n%s\n--- expected (each failing client run alone, joined in config order)\n%s", s.Par, s.Order, s.Release, res.finished, clipN(res.err, 500), clipN(w, 500)), s, extra)
				}
				if first, ok := firstByOrder[key]; !ok {
					firstByOrder[key], firstSched[key] = res.err, s
				} else if first != res.err {
					extra["other_schedule"] = firstSched[key]
					extra["other_output"] = first
					fail("multiclient-error-schedule-dependent", fmt.Sprintf("same plugins in the same order %v, two schedules, two errors:\n--- parallelism %d, GOMAXPROCS %d, release order %v\n%s\n--- parallelism %d, GOMAXPROCS %d, release order %v\n%s", s.Order, firstSched[key].Par, firstSched[key].Gmp, firstSched[key].Release, clipN(first, 400), s.Par, s.Gmp, s.Release, clipN(res.err, 400)), s, extra)
				}
				continue
			}
			// all clients succeed: the findings
			if !haveSuccess {
				successText, successSched, haveSuccess = res.err, s, true
			} else if successText != res.err {
				extra["other_schedule"] = successSched
				extra["other_output"] = successText
				fail("multiclient-annotations-schedule-dependent", fmt.Sprintf("the findings differ between two runs (plugin order %v parallelism %d vs plugin order %v parallelism %d):\n--- \n%s\n---\n%s", successSched.Order, successSched.Par, s.Order, s.Par, clipN(successText, 400), clipN(res.err, 400)), s, extra)
			}
			if sortedLines(res.err) != wantLines {
				extra["expected_lines"] = wantLines
				fail("multiclient-annotations-not-union", fmt.Sprintf("[parallelism %d, plugin order %v] the findings are not the union of the findings of each client alone:\n--- got\n%s\n--- union\n%s", s.Par, s.Order, clipN(res.err, 400), clipN(wantLines, 400)), s, extra)
			}
		}
		if idx%24 < 2 {
			run.Sample(map[string]any{"part": "B-mclient", "member": m})
		}
	}
}
