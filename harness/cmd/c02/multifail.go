package main

// Multi-failure family (parts B-multifail / E-multifail): the module-dependency traversal
// (bufmodule getModuleDeps / getModuleDepsRec = Module.ModuleDeps(), behind `buf dep graph`,
// ModuleSetToDAG, the b5 digest, `buf push`) on workspaces where the traversal FAILS IN SEVERAL
// PLACES at once.
//
// A module discovers its dependencies while it walks its files, so the list of new dependencies
// arrives in storage-enumeration order; the code sorts it by OpaqueID before it descends.  Only
// when two or more of the dependencies fail can anybody see in which order they were visited:
// the error that is returned is the error of the FIRST failing one.  C02: that error (text,
// status, stderr) is the same for every order in which the storage enumerates the files, for
// every order in which the modules were listed / added, and for every GOMAXPROCS.
//
// Member k (`--only 5000000+k keep`):
//   - shape  flat (root -> 2-4 failing deps), deeper (root -> healthy `mid` -> 2-4 failing deps),
//     mixed (root -> one failing dep + `mid` -> failing deps);
//   - kinds  missing import in the dep (ImportNotExistError), the dep imports back into the root
//     (ModuleCycleError; several cycles through the root), dep without .proto files
//     (NoProtoFilesError; reached through an import of its LICENSE / README), unparsable dep file
//     (FileAnnotationSet from the import scan), mixed; and (observation, see below) one dep that
//     has TWO failing files of its own;
//   - every dependency is discovered from its own file of the parent (sometimes two by one file,
//     imports written in an order that disagrees with the ids); the files live in directories
//     `foo`, `foo-bar`, `foo.d`, `fop` (for which the memory bucket's order — whole paths compared —
//     and the disk bucket's order — directory by directory — disagree), and file order and
//     OpaqueID order are unrelated random permutations.
//
// In-process variations: walk order as stored / reversed / shuffled (all modules), a disk bucket
// instead of a memory bucket, the modules handed to the builder in permuted order, ModuleDeps()
// asked in permuted module order (results are memoised per module), GOMAXPROCS 1/2/16.
// Compared: the error string (or the dependency list) of ModuleDeps() of EVERY module,
// bufmodule.ModuleSetToDAG, the b5 digest of every module.
//
// Binary (E-multifail): the workspace on disk, buf.yaml with the `modules:` list in 3 orders,
// GOMAXPROCS unset/1/2/16, repeated, and the same workspace as a TAR input (read into a memory
// bucket: the one way to a different storage walk order through the binary; the first two
// dependency files of every parent sit in directories for which the two orders are opposite):
// `buf dep graph`, `buf dep graph --format json`,
// `buf ls-files`, `buf build` (build only for the kinds whose compile diagnostics are not subject
// to the recorded finding import-cycle-diagnostics-vary).
//
// Oracle classes: multifail-error-walk-order-dependent, multifail-error-module-order-dependent,
// multifail-error-query-order-dependent, multifail-error-gomaxprocs-dependent (which = what the
// variation changed), multifail-verdict (no error although a dependency fails),
// multifail-error-not-smallest-failing-dependency (members without module cycles: the error of a
// healthy parent is the error of its failing direct dependency with the smallest OpaqueID),
// multifail-panic,
// binary-multifail-nondeterministic-<cmd>, binary-multifail-status.
//
// Leg C: `mfail <modules> <root>` -> `ok:<deps>` | `err:<id>` and `mfdag <modules>` -> ditto,
// against BufModel.MultiFail.moduleDepsE / toDAGE (= Graph.depsRec with the identity of the
// failing module / file / cycle kept).  Modules are listed in OpaqueID order, files in the order
// THIS variation's walk reported them.
//
// Observation (not an alarm; switch reportWithinModuleWalkOrder): when ONE module has two files
// that each fail the import scan, the error names whichever file the storage enumerated first —
// storage.ReadBucket.Walk promises no order, and memory and disk buckets really differ.

import (
	"archive/tar"
	"context"
	"errors"
	"fmt"
	"os"
	"path/filepath"
	"regexp"
	"runtime"
	"sort"
	"strconv"
	"strings"

	"github.com/bufbuild/buf/private/bufpkg/bufanalysis"
	"github.com/bufbuild/buf/private/bufpkg/bufmodule"
	"github.com/bufbuild/buf/private/bufpkg/bufmodule/bufmoduletesting"
	"github.com/bufbuild/buf/private/pkg/storage"
	"github.com/bufbuild/buf/private/pkg/storage/storagemem"
	"github.com/bufbuild/buf/private/pkg/storage/storageos"
	"github.com/bufbuild/verifharness/internal/bk"
	"github.com/bufbuild/verifharness/internal/hx"
	"github.com/google/uuid"
)

const multifailOnlyBase = 5000000

// reportWithinModuleWalkOrder: see "Observation" above.
const reportWithinModuleWalkOrder = true

type mfMod struct {
	ID    string            `json:"id"`   // last element of the name buf.build/acme/<id>; also the directory on disk
	Kind  string            `json:"kind"` // root mid ok missing cycle noproto parse within
	Files map[string]string `json:"files"`
}

func (m mfMod) name() string { return "buf.build/acme/" + m.ID }

type mfWS struct {
	Idx    int     `json:"member"`
	Shape  string  `json:"shape"`
	Kinds  string  `json:"kinds"`
	Mods   []mfMod `json:"modules"`
	Within bool    `json:"one_module_with_two_failing_files"`
	Note   string  `json:"note"`
}

var mfShapes = []string{"flat", "deeper", "mixed"}
// (a quick run sees 4 consecutive sets: the first or the second half, by seed)
var mfKindSets = []string{"missing", "cycle", "mixed", "noproto", "cycle", "missing", "parse", "within"}
var mfDirs = []string{"foo", "foo-bar", "foo.d", "fop"}
var mfDocs = []string{"LICENSE", "README.md", "buf.md", "README.markdown"}

func genMultiFail(r *hx.Rand, idx int) mfWS {
	w := mfWS{Idx: idx, Shape: mfShapes[idx%3], Kinds: mfKindSets[(idx/9)%len(mfKindSets)]}
	n := 2 + (idx/3)%3 // failing dependencies
	// ids: OpaqueID order is the order of these letters; which dep gets which is random
	letters := []string{"da", "db", "dc", "dd", "de", "df", "dg"}
	hx.Shuffle(r, letters)
	// the root and mid ids sort before / between / after the deps, by chance
	rootID := hx.Pick(r, []string{"aroot", "dcroot", "zroot"})
	midID := hx.Pick(r, []string{"amid", "dbmid", "zmid"})
	proto := func(pkg string, imports []string, body string) string {
		var sb strings.Builder
		sb.WriteString("syntax = \"proto3\";\n\npackage " + pkg + ";\n\n")
		for _, im := range imports {
			sb.WriteString("import \"" + im + "\";\n")
		}
		sb.WriteString(body)
		return sb.String()
	}
	root := mfMod{ID: rootID, Kind: "root", Files: map[string]string{}}
	mid := mfMod{ID: midID, Kind: "mid", Files: map[string]string{}}
	// parent files: one per dependency, in directories whose memory / disk orders disagree
	type slot struct{ parent *mfMod; path string; imports []string }
	// the first two dependency files of a parent sit in a pair of directories that a memory bucket
	// and a disk bucket enumerate in opposite orders (`foo-bar/` < `foo/` as paths, `foo` < `foo-bar`
	// as directory entries; likewise `foo.d`), the rest anywhere
	perParent := map[string]int{}
	pairs := [][2]string{{"foo", "foo-bar"}, {"foo-bar", "foo"}, {"foo", "foo.d"}, {"foo.d", "foo"}}
	pairOf := map[string][2]string{}
	newSlot := func(parent *mfMod, k int) *slot {
		dir := mfDirs[r.Intn(len(mfDirs))]
		if k < 8 {
			if _, ok := pairOf[parent.ID]; !ok {
				pairOf[parent.ID] = pairs[r.Intn(len(pairs))]
			}
			if n := perParent[parent.ID]; n < 2 {
				dir = pairOf[parent.ID][n]
			}
			perParent[parent.ID]++
		}
		return &slot{parent: parent, path: fmt.Sprintf("%s/%s/f%d_%s.proto", parent.ID, dir, k, hx.Pick(r, []string{"a", "m", "z"}))}
	}
	// a file of the root that the cycle deps import back
	rootBack := rootID + "/back.proto"
	root.Files[rootBack] = proto(rootID+".back", nil, "message Back {}\n")
	var deps []mfMod
	var slots []*slot
	docAt := 0
	for d := 0; d < n; d++ {
		id := letters[d]
		kind := w.Kinds
		if kind == "mixed" {
			kind = hx.Pick(r, []string{"missing", "cycle", "noproto", "parse"})
		}
		if kind == "within" {
			kind = "missing"
			if d == 0 {
				kind = "within"
			}
		}
		parent := &root
		switch w.Shape {
		case "deeper":
			parent = &mid
		case "mixed":
			if d > 0 {
				parent = &mid
			}
		}
		dep := mfMod{ID: id, Kind: kind, Files: map[string]string{}}
		main := fmt.Sprintf("%s/v1/%s.proto", id, id)
		target := main
		switch kind {
		case "missing":
			dep.Files[main] = proto(id+".v1", []string{fmt.Sprintf("%s/v1/missing_%s.proto", id, id)}, "message M {}\n")
		case "cycle":
			dep.Files[main] = proto(id+".v1", []string{rootBack}, "message M {}\n")
		case "noproto":
			doc := mfDocs[docAt%len(mfDocs)]
			docAt++
			dep.Files[doc] = "documentation of " + id + "\n"
			target = doc
		case "parse":
			dep.Files[main] = "syntax = \"proto3\";\n\npackage " + id + ".v1;\n\nimport ;\nmessage M {}\n"
		case "within":
			w.Within = true
			// (memory bucket: foo-bar/… before foo/…; disk bucket: foo/… before foo-bar/…)
			dep.Files[main] = proto(id+".v1", nil, "message M {}\n")
			dep.Files[fmt.Sprintf("%s/foo-bar/second.proto", id)] = proto(id+".second", []string{fmt.Sprintf("%s/v1/missing_two.proto", id)}, "message S {}\n")
			dep.Files[fmt.Sprintf("%s/foo/first.proto", id)] = proto(id+".first", []string{fmt.Sprintf("%s/v1/missing_one.proto", id)}, "message F {}\n")
		}
		deps = append(deps, dep)
		s := newSlot(parent, d)
		// sometimes the previous slot's file imports this dependency as well (two discoveries by one
		// file, written in creation order = unrelated to id order)
		if d > 0 && slots[d-1].parent == parent && r.Chance(1, 3) {
			slots[d-1].imports = append(slots[d-1].imports, target)
		}
		s.imports = append(s.imports, target)
		slots = append(slots, s)
	}
	// healthy leaf imported by the root (and by mid): discovered next to the failing ones
	ok := mfMod{ID: hx.Pick(r, []string{"aok", "dcok", "zok"}), Kind: "ok", Files: map[string]string{}}
	okMain := ok.ID + "/v1/ok.proto"
	ok.Files[okMain] = proto(ok.ID+".v1", nil, "message Ok {}\n")
	withOK := r.Chance(2, 3)
	if withOK {
		s := newSlot(&root, 8)
		s.imports = []string{okMain}
		slots = append(slots, s)
	}
	if w.Shape != "flat" {
		midMain := midID + "/v1/mid.proto"
		mid.Files[midMain] = proto(midID+".v1", nil, "message Mid {}\n")
		s := newSlot(&root, 9)
		s.imports = []string{midMain}
		slots = append(slots, s)
	}
	for k, s := range slots {
		if s.parent.Files[s.path] != "" {
			s.path = strings.TrimSuffix(s.path, ".proto") + fmt.Sprintf("_%d.proto", k)
		}
		pkg := strings.NewReplacer("/", ".", "-", "_", ".proto", "").Replace(s.path)
		s.parent.Files[s.path] = proto(pkg, s.imports, "message P {}\n")
	}
	w.Mods = append(w.Mods, root)
	if w.Shape != "flat" {
		w.Mods = append(w.Mods, mid)
	}
	w.Mods = append(w.Mods, deps...)
	if withOK {
		w.Mods = append(w.Mods, ok)
	}
	hx.Shuffle(r, w.Mods) // listing order unrelated to anything
	w.Note = fmt.Sprintf("%s, %d failing dependencies of kind %s", w.Shape, n, w.Kinds)
	return w
}

func (w mfWS) describe() map[string]any {
	return map[string]any{"member": w.Idx, "note": w.Note, "modules": w.Mods}
}

// ---------------------------------------------------------------------------------------
// in-process

type mfVar struct {
	Walk      string `json:"walk"` // stored reversed shuffled disk
	WalkSeed  uint64 `json:"walk_seed"`
	ModPerm   uint64 `json:"module_order_seed"`
	QueryPerm uint64 `json:"query_order_seed"`
	Gmp       int    `json:"gomaxprocs"`
}

func (v mfVar) String() string {
	return fmt.Sprintf("walk=%s/%d modules=%d queries=%d GOMAXPROCS=%d", v.Walk, v.WalkSeed, v.ModPerm, v.QueryPerm, v.Gmp)
}

// orderBucket reports the walk in reversed or shuffled order and records the order reported.
type orderBucket struct {
	storage.ReadBucket
	mode string
	seed uint64
	seen *[]string
}

func (s orderBucket) Walk(ctx context.Context, prefix string, f func(storage.ObjectInfo) error) error {
	var infos []storage.ObjectInfo
	if err := s.ReadBucket.Walk(ctx, prefix, func(oi storage.ObjectInfo) error {
		infos = append(infos, oi)
		return nil
	}); err != nil {
		return err
	}
	switch s.mode {
	case "reversed":
		for i, j := 0, len(infos)-1; i < j; i, j = i+1, j-1 {
			infos[i], infos[j] = infos[j], infos[i]
		}
	case "shuffled":
		hx.Shuffle(hx.NewRand(s.seed), infos)
	}
	if (prefix == "" || prefix == ".") && s.seen != nil {
		*s.seen = (*s.seen)[:0]
		for _, oi := range infos {
			*s.seen = append(*s.seen, oi.Path())
		}
	}
	for _, oi := range infos {
		if err := f(oi); err != nil {
			return err
		}
	}
	return nil
}

type mfObs struct {
	out      map[string]string   // key -> text (error texts with the scratch directory removed)
	ids      map[string]string   // key -> canonical id of the result (protocol)
	walk     map[string][]string // module id -> files in the order the walk reported them
	panicked string
}

var mfImportRe = regexp.MustCompile(`^(?:(.*): )?import "(.*)": file does not exist$`)

// mfErrID: WHICH failure an error names, as an id (module ranks by OpaqueID order).
func mfErrID(err error, rank map[string]int, strip func(string) string) string {
	var cyc *bufmodule.ModuleCycleError
	var inx *bufmodule.ImportNotExistError
	var npf *bufmodule.NoProtoFilesError
	var dup *bufmodule.DuplicateProtoPathError
	var fas bufanalysis.FileAnnotationSet
	rk := func(desc string) string {
		if r, ok := rank[desc]; ok {
			return strconv.Itoa(r)
		}
		return "?" + hx.Enc(desc)
	}
	switch {
	case errors.As(err, &cyc):
		var ps []string
		for _, d := range cyc.Descriptions {
			ps = append(ps, rk(d))
		}
		return "cycle:" + strings.Join(ps, ">")
	case errors.As(err, &inx):
		m := mfImportRe.FindStringSubmatch(inx.Error())
		if m == nil {
			return "noimport:?"
		}
		return "noimport:" + hx.Enc(strip(m[1])) + ":" + hx.Enc(m[2])
	case errors.As(err, &npf):
		return "noproto:" + rk(npf.ModuleDescription)
	case errors.As(err, &dup):
		return "dup:" + hx.Enc(dup.ProtoPath)
	case errors.As(err, &fas):
		var ps []string
		for _, a := range fas.FileAnnotations() {
			p := ""
			if fi := a.FileInfo(); fi != nil {
				p = fi.Path()
			}
			ps = append(ps, hx.Enc(p))
		}
		return "parse:" + strings.Join(ps, ",")
	}
	return "other"
}

func mfInProcess(w mfWS, v mfVar, scratch string) (o mfObs) {
	o = mfObs{out: map[string]string{}, ids: map[string]string{}, walk: map[string][]string{}}
	defer func() {
		if p := recover(); p != nil {
			o.panicked = fmt.Sprint(p)
		}
	}()
	oldG := runtime.GOMAXPROCS(v.Gmp)
	defer runtime.GOMAXPROCS(oldG)
	mods := append([]mfMod{}, w.Mods...)
	if v.ModPerm != 0 {
		hx.Shuffle(hx.NewRand(v.ModPerm), mods)
	}
	seen := map[string]*[]string{}
	var mds []bufmoduletesting.ModuleData
	for _, m := range mods {
		var b storage.ReadBucket
		if v.Walk == "disk" {
			dir := filepath.Join(scratch, m.ID)
			for p, c := range m.Files {
				full := filepath.Join(dir, p)
				must0(os.MkdirAll(filepath.Dir(full), 0o755))
				must0(os.WriteFile(full, []byte(c), 0o644))
			}
			b = must(storageos.NewProvider().NewReadWriteBucket(dir))
		} else {
			mb := storagemem.NewReadWriteBucket()
			for p, c := range m.Files {
				must0(bk.PutString(ctx, mb, p, c))
			}
			b = mb
		}
		s := &[]string{}
		seen[m.ID] = s
		mds = append(mds, bufmoduletesting.ModuleData{Name: m.name(), CommitID: uuid.NewSHA1(uuid.NameSpaceURL, []byte(m.name())), Bucket: orderBucket{b, v.Walk, v.WalkSeed, s}})
	}
	if v.Walk == "disk" {
		defer os.RemoveAll(scratch)
	}
	ms, err := bufmoduletesting.NewModuleSet(mds...)
	if err != nil {
		o.out["moduleset"] = "ERR " + err.Error()
		return o
	}
	all := ms.Modules() // documented: sorted by OpaqueID
	rank := map[string]int{}
	for i, m := range all {
		rank[m.OpaqueID()] = i
		rank[m.Description()] = i
	}
	// a disk bucket reports external paths <scratch>/<module dir>/<path>, a memory bucket <path>:
	// the scratch prefix (the same text in every variation) is taken off, nothing else
	clean := func(s string) string {
		if v.Walk == "disk" {
			for _, m := range mods {
				s = strings.ReplaceAll(s, filepath.Join(scratch, m.ID)+"/", "")
			}
		}
		return s
	}
	strip := clean
	query := append([]bufmodule.Module{}, all...)
	if v.QueryPerm != 0 {
		hx.Shuffle(hx.NewRand(v.QueryPerm), query)
	}
	for _, m := range query {
		key := "deps:" + m.OpaqueID()
		deps, err := m.ModuleDeps()
		if err != nil {
			o.out[key] = "ERR " + clean(err.Error())
			o.ids[key] = "err:" + mfErrID(err, rank, strip)
			continue
		}
		var ds, is []string
		for _, d := range deps {
			ds = append(ds, fmt.Sprintf("%s direct=%v", d.OpaqueID(), d.IsDirect()))
			is = append(is, fmt.Sprintf("%d/%s", rank[d.OpaqueID()], b01(d.IsDirect())))
		}
		o.out[key] = strings.Join(ds, "; ")
		if len(is) == 0 {
			is = []string{"-"}
		}
		o.ids[key] = "ok:" + strings.Join(is, ",")
	}
	if g, err := bufmodule.ModuleSetToDAG(ms); err != nil {
		o.out["dag"] = "ERR " + clean(err.Error())
		o.ids["dag"] = "err:" + mfErrID(err, rank, strip)
	} else {
		s, derr := g.DOTString(func(m bufmodule.Module) string { return m.OpaqueID() })
		if derr != nil {
			s = "ERR " + derr.Error()
		}
		o.out["dag"] = s
		o.ids["dag"] = "ok"
	}
	for _, m := range query {
		key := "digest:" + m.OpaqueID()
		d, err := m.Digest(bufmodule.DigestTypeB5)
		if err != nil {
			o.out[key] = "ERR " + clean(err.Error())
		} else {
			o.out[key] = d.String()
		}
	}
	for id, s := range seen {
		o.walk[id] = append([]string{}, (*s)...)
	}
	return o
}

func multifailIndices(run *hx.Run) []int {
	if run.Only >= multifailOnlyBase && run.Only < mclientOnlyBase {
		return []int{run.Only - multifailOnlyBase}
	}
	n := run.N(36, 144)
	out := make([]int, n)
	base := int(run.Seed%1000) * 180
	for i := range out {
		out[i] = base + i
	}
	return out
}

func multifailReplay(run *hx.Run, idx int) string {
	return fmt.Sprintf("build/c02 --out /tmp/c02-replay --seed %d --tier %s --only %d keep", run.Seed, run.Tier, multifailOnlyBase+idx)
}

var mfImportStmt = regexp.MustCompile(`(?m)^import "([^"]*)";$`)

// mfModulesField: the modules in OpaqueID order, files in the order THIS run's walk reported them.
func mfModulesField(w mfWS, walk map[string][]string) string {
	mods := append([]mfMod{}, w.Mods...)
	sort.Slice(mods, func(i, j int) bool { return mods[i].name() < mods[j].name() })
	var ms []string
	for _, m := range mods {
		var fs []string
		for _, p := range walk[m.ID] {
			c := m.Files[p]
			kind := "d"
			if strings.HasSuffix(p, ".proto") {
				kind = "p"
				if strings.Contains(c, "\nimport ;\n") {
					kind = "x"
				}
			}
			var imps []string
			if kind == "p" {
				for _, sm := range mfImportStmt.FindAllStringSubmatch(c, -1) {
					imps = append(imps, hx.Enc(sm[1]))
				}
			}
			is := "-"
			if len(imps) > 0 {
				is = strings.Join(imps, "+")
			}
			fs = append(fs, hx.Enc(p)+":"+kind+":"+is)
		}
		if len(fs) == 0 {
			ms = append(ms, "-")
		} else {
			ms = append(ms, strings.Join(fs, ","))
		}
	}
	return strings.Join(ms, ";")
}

func mfVariations(run *hx.Run, cr *hx.Rand) []mfVar {
	n := runtime.NumCPU()
	vs := []mfVar{
		{Walk: "reversed", Gmp: n},
		{Walk: "shuffled", WalkSeed: cr.Uint64() | 1, Gmp: n},
		{Walk: "shuffled", WalkSeed: cr.Uint64() | 1, Gmp: 1},
		{Walk: "disk", Gmp: n},
		{Walk: "stored", ModPerm: cr.Uint64() | 1, Gmp: n},
		{Walk: "stored", QueryPerm: cr.Uint64() | 1, Gmp: n},
		{Walk: "stored", Gmp: 1},
		{Walk: "shuffled", WalkSeed: cr.Uint64() | 1, ModPerm: cr.Uint64() | 1, QueryPerm: cr.Uint64() | 1, Gmp: 2},
	}
	if run.Thorough() {
		for k := 0; k < 6; k++ {
			v := mfVar{Walk: hx.Pick(cr, []string{"shuffled", "shuffled", "reversed", "disk"}), WalkSeed: cr.Uint64() | 1, Gmp: hx.Pick(cr, []int{1, 2, 3, 16})}
			if cr.Bool() {
				v.ModPerm = cr.Uint64() | 1
			}
			if cr.Bool() {
				v.QueryPerm = cr.Uint64() | 1
			}
			vs = append(vs, v)
		}
	}
	return vs
}

// mfSmallestFirst: implementation-only statement of the order "as documented in the code" (new
// dependencies are visited sorted by OpaqueID).  In a member without module cycles every failing
// leaf fails by itself, so the error of a healthy parent (root, mid) must be, text for text, the
// error that ModuleDeps() of its failing direct dependency with the SMALLEST OpaqueID returns.
func mfSmallestFirst(w mfWS, o mfObs, fail func(what string)) {
	if w.Within {
		return
	}
	owner := map[string]string{}
	for _, m := range w.Mods {
		if m.Kind == "cycle" {
			return
		}
		for p := range m.Files {
			owner[p] = m.name()
		}
	}
	for _, m := range w.Mods {
		if m.Kind != "root" && m.Kind != "mid" {
			continue
		}
		smallest := ""
		for _, c := range m.Files {
			for _, sm := range mfImportStmt.FindAllStringSubmatch(c, -1) {
				d, ok := owner[sm[1]]
				if !ok || d == m.name() || !strings.HasPrefix(o.out["deps:"+d], "ERR ") {
					continue
				}
				if smallest == "" || d < smallest {
					smallest = d
				}
			}
		}
		got := o.out["deps:"+m.name()]
		switch {
		case smallest == "" && strings.HasPrefix(got, "ERR "):
			fail(fmt.Sprintf("ModuleDeps() of %s fails although none of its direct dependencies does: %s", m.name(), got))
		case smallest != "" && got != o.out["deps:"+smallest]:
			fail(fmt.Sprintf("ModuleDeps() of %s does not report the failure of its failing direct dependency with the smallest OpaqueID (%s):\n--- got\n%s\n--- ModuleDeps() of %s\n%s", m.name(), smallest, got, smallest, o.out["deps:"+smallest]))
		}
	}
}

func (v mfVar) class() string {
	switch {
	case v.Walk != "stored":
		return "multifail-error-walk-order-dependent"
	case v.ModPerm != 0:
		return "multifail-error-module-order-dependent"
	case v.QueryPerm != 0:
		return "multifail-error-query-order-dependent"
	}
	return "multifail-error-gomaxprocs-dependent"
}

func partBMultiFail(run *hx.Run, r *hx.Rand) {
	scratchRoot := must(os.MkdirTemp("", "verif-c02-mf-"))
	defer os.RemoveAll(scratchRoot)
	for _, idx := range multifailIndices(run) {
		cr := r.Fork(uint64(idx))
		w := genMultiFail(cr, idx)
		replay := multifailReplay(run, idx)
		run.Count("MF:shape=" + w.Shape)
		run.Count("MF:kinds=" + w.Kinds)
		perClass := map[string]int{}
		fail := func(class, what string, v mfVar, extra map[string]any) {
			perClass[class]++
			if perClass[class] > 2 {
				return
			}
			in := w.describe()
			in["variation"] = v
			for k, x := range extra {
				in[k] = x
			}
			run.Fail(hx.OracleFailure{Class: class, What: fmt.Sprintf("multi-failure member %d (%s): %s", idx, w.Note, what), Input: in, Replay: replay})
		}
		seenLine := map[string]bool{}
		lines := func(o mfObs) {
			field := mfModulesField(w, o.walk)
			mods := append([]mfMod{}, w.Mods...)
			sort.Slice(mods, func(i, j int) bool { return mods[i].name() < mods[j].name() })
			for rk, m := range mods {
				id, ok := o.ids["deps:"+m.name()]
				if !ok {
					continue
				}
				line := "mfail\t" + field + "\t" + strconv.Itoa(rk)
				if !seenLine[line+id] {
					seenLine[line+id] = true
					run.Case(line, id, strings.HasPrefix(id, "err:"))
					run.Count("MF:line:" + strings.SplitN(strings.TrimPrefix(id, "err:"), ":", 2)[0])
				}
			}
			if id, ok := o.ids["dag"]; ok {
				line := "mfdag\t" + field
				if !seenLine[line+id] {
					seenLine[line+id] = true
					run.Case(line, id, strings.HasPrefix(id, "err:"))
				}
			}
		}
		base := mfVar{Walk: "stored", Gmp: runtime.NumCPU()}
		ref := mfInProcess(w, base, filepath.Join(scratchRoot, fmt.Sprintf("m%d", idx)))
		run.Eval()
		if ref.panicked != "" {
			fail("multifail-panic", "panic: "+ref.panicked, base, nil)
			continue
		}
		lines(ref)
		// a failing dependency is reachable from the root: its ModuleDeps() cannot succeed
		for _, m := range w.Mods {
			if m.Kind == "root" && !strings.HasPrefix(ref.out["deps:"+m.name()], "ERR ") {
				fail("multifail-verdict", fmt.Sprintf("ModuleDeps() of the root %s succeeds although dependencies fail: %s", m.name(), ref.out["deps:"+m.name()]), base, nil)
			}
		}
		mfSmallestFirst(w, ref, func(what string) { fail("multifail-error-not-smallest-failing-dependency", what, base, nil) })
		if keep := len(run.Args) > 0 && run.Args[len(run.Args)-1] == "keep"; keep {
			dir := filepath.Join(run.OutDir, fmt.Sprintf("multifail-%d", idx))
			mfWriteWorkspace(dir, w, w.Mods)
		}
		for vi, v := range mfVariations(run, cr) {
			got := mfInProcess(w, v, filepath.Join(scratchRoot, fmt.Sprintf("m%d", idx)))
			run.Eval()
			run.Distinct(fmt.Sprintf("MF-%d-%d", idx, vi))
			run.Count("MF:variation:walk=" + v.Walk)
			if got.panicked != "" {
				fail("multifail-panic", fmt.Sprintf("[%s] panic: %s", v, got.panicked), v, nil)
				continue
			}
			lines(got)
			for _, k := range keysOf(ref.out, got.out) {
				run.Count("MF:compared:" + strings.SplitN(k, ":", 2)[0])
				if ref.out[k] == got.out[k] {
					continue
				}
				if w.Within && !reportWithinModuleWalkOrder {
					// one module with two failing files of its own: which one is named follows the
					// walk as coded (see the file comment); counted, not judged
					run.Count("MF:observed:within-module-error-follows-walk-order")
					continue
				}
				class := v.class()
				if w.Within {
					class = "multifail-within-module-error-walk-order-dependent"
				}
				fail(class, fmt.Sprintf("%q differs between the reference run and [%s]:\n--- reference (walk as stored, modules as listed)\n%s\n--- variation\n%s", k, v, clipN(ref.out[k], 500), clipN(got.out[k], 500)),
					v, map[string]any{"output": k, "reference": ref.out[k], "variation_output": got.out[k], "walk_order_of_variation": got.walk})
			}
		}
		if idx%36 < 2 {
			run.Sample(map[string]any{"part": "B-multifail", "workspace": w.describe(), "outputs": ref.out})
		}
	}
}

// ---------------------------------------------------------------------------------------
// through the binary

func mfWriteWorkspace(dir string, w mfWS, order []mfMod) {
	var yaml strings.Builder
	yaml.WriteString("version: v2\nmodules:\n")
	for _, m := range order {
		yaml.WriteString("  - path: " + m.ID + "\n    name: " + m.name() + "\n")
		for p, c := range m.Files {
			full := filepath.Join(dir, m.ID, p)
			must0(os.MkdirAll(filepath.Dir(full), 0o755))
			must0(os.WriteFile(full, []byte(c), 0o644))
		}
	}
	must0(os.WriteFile(filepath.Join(dir, "buf.yaml"), []byte(yaml.String()), 0o644))
}

// mfTar: the directory as an uncompressed tar archive (entries sorted by path).
func mfTar(dir, out string) {
	var paths []string
	must0(filepath.Walk(dir, func(p string, info os.FileInfo, err error) error {
		if err == nil && !info.IsDir() {
			paths = append(paths, p)
		}
		return err
	}))
	sort.Strings(paths)
	f := must(os.Create(out))
	tw := tar.NewWriter(f)
	for _, p := range paths {
		data := must(os.ReadFile(p))
		rel := must(filepath.Rel(dir, p))
		must0(tw.WriteHeader(&tar.Header{Name: filepath.ToSlash(rel), Mode: 0o644, Size: int64(len(data)), Typeflag: tar.TypeReg}))
		must(tw.Write(data))
	}
	must0(tw.Close())
	must0(f.Close())
}

func partEMultiFail(run *hx.Run, r *hx.Rand, tmpRoot, bufBin string) {
	all := multifailIndices(run)
	var pick []int
	if len(all) == 1 {
		pick = all
	} else {
		n := run.N(2, 8)
		for k := 0; k < n; k++ {
			pick = append(pick, all[(int(run.Seed%97)*5+k*13+k*k)%len(all)])
		}
	}
	gmps := []string{"", "1", "2", "16", ""}
	type job struct {
		w     mfWS
		dir   string
		order string
		args  []string
		gmp   string
		res   binResult
	}
	var jobs []*job
	var dirs []string
	groups := 0
	for _, idx := range pick {
		w := genMultiFail(r.Fork(uint64(idx)), idx)
		if w.Within {
			run.Count("EMF:skipped:within-member")
			continue
		}
		hasCycle := false
		for _, m := range w.Mods {
			hasCycle = hasCycle || m.Kind == "cycle"
		}
		sorted := append([]mfMod{}, w.Mods...)
		sort.Slice(sorted, func(i, j int) bool { return sorted[i].name() < sorted[j].name() })
		rev := make([]mfMod, len(sorted))
		for i := range sorted {
			rev[len(sorted)-1-i] = sorted[i]
		}
		orders := map[string][]mfMod{"as-listed": w.Mods, "sorted": sorted, "reverse-sorted": rev}
		cmds := [][]string{{"dep", "graph"}, {"dep", "graph", "--format", "json"}, {"ls-files"}}
		if !hasCycle {
			// (file-level import cycles: the compile diagnostics vary run to run, recorded finding
			// import-cycle-diagnostics-vary — part E-cycles)
			cmds = append(cmds, []string{"build", "-o", os.DevNull})
		}
		for _, c := range cmds {
			for _, on := range []string{"as-listed", "sorted", "reverse-sorted"} {
				dir := filepath.Join(tmpRoot, fmt.Sprintf("mf-%d", idx), on, "ws")
				if c[0] == "dep" && len(c) == 2 {
					mfWriteWorkspace(dir, w, orders[on])
					mfTar(dir, filepath.Join(filepath.Dir(dir), "ws.tar"))
					dirs = append(dirs, filepath.Join(tmpRoot, fmt.Sprintf("mf-%d", idx)))
				}
				for _, g := range gmps {
					jobs = append(jobs, &job{w: w, dir: dir, order: on, args: c, gmp: g})
				}
				// the same workspace as a tar archive: buf reads it into a MEMORY bucket, whose walk
				// order differs from the disk's for this family's directories
				ta := append(append([]string{}, c...), "../ws.tar")
				if c[0] == "build" {
					ta = []string{"build", "../ws.tar", "-o", os.DevNull}
				}
				jobs = append(jobs, &job{w: w, dir: dir, order: on + ", tar input", args: ta, gmp: ""})
			}
			groups++
		}
	}
	parallelDo(12, len(jobs), func(i int) {
		j := jobs[i]
		j.res = runBufBin(bufBin, tmpRoot, j.dir, j.gmp, j.args)
	})
	per := 3 * (len(gmps) + 1)
	for at := 0; at+per <= len(jobs); at += per {
		group := jobs[at : at+per]
		w, args := group[0].w, group[0].args
		var ref string
		text := func(j *job) string {
			return fmt.Sprintf("exit=%d\nstdout:\n%s\nstderr:\n%s", j.res.code, j.res.stdout, j.res.stderr)
		}
		for k, j := range group {
			run.Eval()
			run.Distinct(fmt.Sprintf("EMF-%d-%s-%d", w.Idx, strings.Join(args, "_"), k))
			run.Count("EMF:buf " + strings.Join(args[:min(2, len(args))], " "))
			t := text(j)
			if k == 0 {
				ref = t
				run.Count(fmt.Sprintf("EMF:buf %s:exit=%d", args[0], j.res.code))
				if strings.Contains(t, tmpRoot) {
					run.Count("EMF:output-mentions-scratch-directory")
				}
				continue
			}
			if t != ref {
				in := w.describe()
				in["args"] = args
				in["modules_order_reference"] = group[0].order
				in["modules_order_this_run"] = j.order
				in["gomaxprocs"] = gmpName(j.gmp)
				in["reference_output"] = ref
				in["this_output"] = t
				run.Fail(hx.OracleFailure{Class: "binary-multifail-nondeterministic-" + args[0],
					What: fmt.Sprintf("multi-failure member %d (%s): `buf %s` differs between [modules %s, GOMAXPROCS=%s] and [modules %s, GOMAXPROCS=%s]:\n--- \n%s\n---\n%s", w.Idx, w.Note, strings.Join(args, " "),
						group[0].order, gmpName(group[0].gmp), j.order, gmpName(j.gmp), clipN(ref, 500), clipN(t, 500)),
					Input: in, Replay: multifailReplay(run, w.Idx) + "   # then: cd /tmp/c02-replay/multifail-" + strconv.Itoa(w.Idx) + " && buf " + strings.Join(args, " ") + " (permute `modules:` in buf.yaml)"})
				break
			}
		}
		if args[0] == "dep" && len(args) == 2 && group[0].res.code == 0 {
			run.Fail(hx.OracleFailure{Class: "binary-multifail-status", What: fmt.Sprintf("multi-failure member %d (%s): `buf dep graph` ends with status 0 although dependencies of the workspace fail:\n%s", w.Idx, w.Note, clipN(ref, 400)), Input: w.describe(), Replay: multifailReplay(run, w.Idx)})
		}
	}
	for _, d := range dirs {
		os.RemoveAll(d)
	}
}
