package main

// Import cycles through the built binary (part E-cycles).
//
// C02 says lint, build and breaking print the same thing run after run. A workspace whose ONLY
// problem is an import cycle of n >= 2 files is the one compile problem whose diagnostics are not
// produced by a single protocompile task: every task that starts waiting for an import checks
// for a closed chain, and whichever task sees it first reports it from ITS import statement, so
// the set of annotated files (one to n of them) follows the scheduler. Oracle only: the runs of
// one command on one workspace must be byte-identical (status, stdout, stderr).
//
// Classes: `import-cycle-diagnostics-vary` when the workspace's only problem is an import cycle
// that at least two compile tasks can see (n >= 2 files, or a self import that a further file
// imports) — recorded in known_findings.json, protocompile's executor is third-party code;
// `import-self-diagnostics-vary` for a lone file importing itself (one task: deterministic on the
// unchanged tree) and `import-cycle-status` when a cycle does not give status 100 every time —
// neither is recorded, so both stay VIOLATIONs.

import (
	"fmt"
	"os"
	"path/filepath"
	"sort"
	"strings"

	"github.com/bufbuild/verifharness/internal/hx"
)

type cycleWS struct {
	idx   int
	n     int  // length of the cycle (1 = self import)
	into  bool // a further file imports a member of the cycle (a second task that can see the chain)
	files map[string]string
	note  string
}

func (w cycleWS) describe() map[string]any {
	names := make([]string, 0, len(w.files))
	for k := range w.files {
		names = append(names, k)
	}
	sort.Strings(names)
	return map[string]any{"cycle_length": w.n, "note": w.note, "workspace": w.files, "files": names}
}

func genCycle(r *hx.Rand, idx int) cycleWS {
	n := 1 + r.Intn(4) // 1..4
	if idx%5 == 0 {
		n = 1
	}
	dirs := []string{"", "", "cyc/", "x/y/"}
	names := make([]string, n)
	for i := range names {
		names[i] = fmt.Sprintf("%sc%d_%c.proto", dirs[r.Intn(len(dirs))], idx, 'a'+i)
	}
	hx.Shuffle(r, names) // alphabetical order and cycle order unrelated
	files := map[string]string{}
	for i, name := range names {
		next := names[(i+1)%n]
		files[name] = fmt.Sprintf("syntax = \"proto3\";\npackage cyc%d.p%d;\nimport \"%s\";\nmessage M%d {}\n", idx, i, next, i)
	}
	// bystanders: clean files, and (sometimes) one that imports INTO the cycle
	extra := r.Intn(4)
	for k := 0; k < extra; k++ {
		files[fmt.Sprintf("by%d_%d.proto", idx, k)] = fmt.Sprintf("syntax = \"proto3\";\npackage by%d.p%d;\nmessage B%d {}\n", idx, k, k)
	}
	into := false
	note := fmt.Sprintf("import cycle of %d file(s): %s", n, strings.Join(append(append([]string{}, names...), names[0]), " -> "))
	if r.Chance(1, 3) {
		files[fmt.Sprintf("in%d.proto", idx)] = fmt.Sprintf("syntax = \"proto3\";\npackage in%d;\nimport \"%s\";\nmessage I {}\n", idx, names[r.Intn(n)])
		note += "; one more file imports a member of the cycle"
		into = true
	}
	return cycleWS{idx: idx, n: n, into: into, files: files, note: note}
}

func partECycles(run *hx.Run, r *hx.Rand, tmpRoot, bufBin string) {
	nws := run.N(6, 40)
	gmps := []string{"1", "2", "4", "16", "", "16", "4", "2", "16", "", "1", "16"}
	cmds := [][]string{{"lint"}, {"build"}, {"build", "--error-format", "json"}, {"breaking", "--against", "."}}
	type job struct {
		w    cycleWS
		dir  string
		args []string
		gmp  string
		res  binResult
	}
	var jobs []*job
	for i := 0; i < nws; i++ {
		w := genCycle(r.Fork(uint64(i)), i)
		dir := filepath.Join(tmpRoot, fmt.Sprintf("cycle-%d", i))
		writeTree(dir, w.files)
		for _, c := range cmds {
			for _, g := range gmps {
				jobs = append(jobs, &job{w: w, dir: dir, args: c, gmp: g})
			}
		}
	}
	parallelDo(12, len(jobs), func(i int) {
		j := jobs[i]
		j.res = runBufBin(bufBin, tmpRoot, j.dir, j.gmp, j.args)
	})
	for at := 0; at < len(jobs); at += len(gmps) {
		group := jobs[at : at+len(gmps)]
		w, args := group[0].w, group[0].args
		distinct := map[string]int{}
		var first, other string
		badStatus := ""
		for k, j := range group {
			run.Eval()
			text := fmt.Sprintf("exit=%d\nstdout:\n%s\nstderr:\n%s", j.res.code, j.res.stdout, j.res.stderr)
			if distinct[text] == 0 {
				if k == 0 {
					first = text
				} else if other == "" {
					other = text
				}
			}
			distinct[text]++
			if j.res.code != 100 && badStatus == "" {
				badStatus = fmt.Sprintf("run %d (GOMAXPROCS=%s): %s", k, gmpName(j.gmp), clipN(text, 400))
			}
		}
		run.Distinct(fmt.Sprintf("ECYC-%d-%s", w.idx, strings.Join(args, "_")))
		run.Count(fmt.Sprintf("ECYC:cycle-length=%d", w.n))
		run.Count(fmt.Sprintf("ECYC:buf %s:distinct-outputs=%d", args[0], len(distinct)))
		in := w.describe()
		in["args"] = args
		in["runs"] = len(group)
		replay := "write the files of `workspace` next to a `version: v2` buf.yaml and run `buf " + strings.Join(args, " ") + "` repeatedly"
		if badStatus != "" {
			run.Fail(hx.OracleFailure{Class: "import-cycle-status", What: fmt.Sprintf("%s: `buf %s` must end with status 100 (a problem in the sources) every time; %s", w.note, strings.Join(args, " "), badStatus), Input: in, Replay: replay})
		}
		if len(distinct) > 1 {
			class := "import-cycle-diagnostics-vary"
			if w.n == 1 && !w.into {
				class = "import-self-diagnostics-vary"
			}
			run.Fail(hx.OracleFailure{Class: class, What: fmt.Sprintf("%s: `buf %s` printed %d distinct outputs in %d runs, e.g.\n%s\n--- and ---\n%s", w.note, strings.Join(args, " "), len(distinct), len(group), clipN(first, 500), clipN(other, 500)), Input: in, Replay: replay})
		}
	}
	for i := 0; i < nws; i++ {
		os.RemoveAll(filepath.Join(tmpRoot, fmt.Sprintf("cycle-%d", i)))
	}
}
