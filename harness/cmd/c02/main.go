// Command c02 is the harness for property C02 ("outputs are deterministic and independent of
// scheduling and enumeration order").
//
// Part A (model correspondence): the real thread.Parallelize is run on job lists with failing
// jobs, with and without cancel-on-failure, under seeded yields/delays at the verif hook
// points and several parallelism settings; the verdict (error or not) and the per-slot results
// are compared with the Lean model, whose verdict is proved schedule-independent.
//
// Part B (exploration of the real runtime; oracle only): generated multi-module workspaces are
// built, linted, broken-against, formatted, listed, digested and graphed in-process under
// varied GOMAXPROCS / parallelism / hook yields / storage walk orders / module listing orders;
// every output must be byte-identical across all variations of one workspace.
//
// Part C: the same through the real `buf` binary (build -o -, lint, ls-files, format -d) under
// GOMAXPROCS variation and permuted --path arguments.
//
// Part E: dedicated binary scenarios (many files, nested --type filters, image --path order).
//
// Parts B-many / E-many (many.go): workspaces with HUNDREDS of problems of every kind (compile
// errors over many files, lint findings, breaking findings, unparsable files for format), each
// run >= 8 times in-process and >= 8 times through the binary; bytes, exit status and the NUMBER
// of diagnostics are compared with a GOMAXPROCS=1 reference and with the harness's bookkeeping
// of what it planted.  `--only 2000000+k [keep]` runs family member k alone.
//
// Parts B-filter / E-filter (filterfam.go, `--only 3000000+k`), B-overlap / E-overlap (overlap.go,
// `--only 4000000+k`), A-wait (wait.go, `await [k]`), E-cycles (cycles.go).
//
// Parts B-multifail / E-multifail (multifail.go): workspaces in which the module-dependency
// traversal fails in SEVERAL dependencies at once, under permuted storage walks, module orders and
// query orders; `--only 5000000+k [keep]` runs member k alone, `multifail` the family alone.
//
// Part B-mclient (multiclient.go): lint / breaking over SEVERAL check clients of which some fail,
// under forced completion orders and parallelism 1..16; `--only 6000000+k` runs member k alone,
// `mclient` the part alone.
package main

import (
	"bytes"
	"context"
	"crypto/sha256"
	"encoding/hex"
	"errors"
	"fmt"
	"io"
	"log/slog"
	"os"
	"os/exec"
	"path/filepath"
	"runtime"
	"sort"
	"strconv"
	"strings"
	"sync"
	"time"

	"buf.build/go/bufplugin/check"
	"github.com/bufbuild/buf/private/buf/bufformat"
	"github.com/bufbuild/buf/private/bufpkg/bufcheck"
	"github.com/bufbuild/buf/private/bufpkg/bufconfig"
	"github.com/bufbuild/buf/private/bufpkg/bufimage"
	"github.com/bufbuild/buf/private/bufpkg/bufmodule"
	"github.com/bufbuild/buf/private/bufpkg/bufmodule/bufmoduletesting"
	"github.com/bufbuild/buf/private/pkg/protoencoding"
	"github.com/bufbuild/buf/private/pkg/storage"
	"github.com/bufbuild/buf/private/pkg/storage/storagemem"
	"github.com/bufbuild/buf/private/pkg/thread"
	"github.com/bufbuild/buf/private/pkg/verifhook"
	"github.com/bufbuild/verifharness/internal/bk"
	"github.com/bufbuild/verifharness/internal/hx"
	"github.com/google/uuid"
	"pluginrpc.com/pluginrpc"
)

var ctx = context.Background()
var logger = slog.New(slog.NewTextHandler(io.Discard, nil))
var _ = check.RuleTypeLint

func must[T any](v T, err error) T {
	if err != nil {
		panic(err)
	}
	return v
}

func must0(err error) {
	if err != nil {
		panic(err)
	}
}

// ---------------------------------------------------------------------------------------
// schedule perturbation

func installHooks(seed uint64) {
	var mu sync.Mutex
	r := hx.NewRand(seed)
	verifhook.SetHandler(func(point string) {
		mu.Lock()
		k := r.Intn(6)
		mu.Unlock()
		switch k {
		case 0, 1:
			runtime.Gosched()
		case 2:
			time.Sleep(20 * time.Microsecond)
		case 3:
			time.Sleep(200 * time.Microsecond)
		}
	})
}

// ---------------------------------------------------------------------------------------
// Part A

func partA(run *hx.Run, r *hx.Rand) {
	n := run.N(400, 6000)
	for i := 0; i < n; i++ {
		cr := r.Fork(uint64(i))
		nj := cr.Intn(9)
		fails := make([]bool, nj)
		anyFail := false
		for j := range fails {
			fails[j] = cr.Chance(2, 5)
			anyFail = anyFail || fails[j]
		}
		cancel := cr.Bool()
		par := hx.Pick(cr, []int{1, 2, 4, 16})
		old := thread.Parallelism()
		thread.SetParallelism(par)
		installHooks(cr.Uint64())
		slots := make([]int, nj)
		ran := make([]bool, nj)
		var completedMu sync.Mutex
		var completed []int
		jobs := make([]func(context.Context) error, nj)
		for j := range jobs {
			j := j
			jobs[j] = func(ctx context.Context) error {
				ran[j] = true // each job owns its slot
				defer func() {
					completedMu.Lock()
					completed = append(completed, j)
					completedMu.Unlock()
				}()
				if fails[j] {
					return fmt.Errorf("job %d failed", j)
				}
				slots[j] = j*j + 1
				return nil
			}
		}
		var opts []thread.ParallelizeOption
		if cancel {
			opts = append(opts, thread.ParallelizeWithCancelOnFailure())
		}
		err := thread.Parallelize(ctx, jobs, opts...)
		verifhook.SetHandler(nil)
		thread.SetParallelism(old)
		// protocol: par <cancel> <fails bits> <seesCancel bits (arbitrary: the verdict is proved
		// independent of them)>
		fb, sb := "", ""
		for j := range fails {
			fb += b01(fails[j])
			sb += b01(cr.Bool())
		}
		if nj == 0 {
			fb, sb = "-", "-"
		}
		run.Case("par\t"+b01(cancel)+"\t"+fb+"\t"+sb, b01(err != nil), anyFail)
		run.Count(fmt.Sprintf("A:jobs=%d", nj))
		run.Count("A:verdict=" + b01(err != nil))
		in := map[string]any{"fails": fails, "cancel_on_failure": cancel, "parallelism": par}
		rp := fmt.Sprintf("build/c02 --out /tmp/c02-replay --seed %d --tier %s", run.Seed, run.Tier)
		// which errors, in which order: the combined error's items against the model, fed with the
		// schedule this very run had (completion order; where dispatch stopped)
		var items []string
		var flat func(e error)
		flat = func(e error) {
			if e == nil {
				return
			}
			if u, ok := e.(interface{ Unwrap() []error }); ok {
				for _, x := range u.Unwrap() {
					flat(x)
				}
				return
			}
			var k int
			if _, serr := fmt.Sscanf(e.Error(), "job %d failed", &k); serr == nil {
				items = append(items, "j"+strconv.Itoa(k))
			} else if errors.Is(e, context.Canceled) {
				items = append(items, "ctx")
			} else {
				items = append(items, "other")
			}
		}
		flat(err)
		itemS := "-"
		if len(items) > 0 {
			itemS = strings.Join(items, ",")
		}
		compS, stopS := "-", "-"
		if len(completed) > 0 {
			cs := make([]string, len(completed))
			for k, c := range completed {
				cs[k] = strconv.Itoa(c)
			}
			compS = strings.Join(cs, ",")
		}
		for j := range ran {
			if !ran[j] {
				stopS = strconv.Itoa(j)
				break
			}
		}
		run.Case("perr\t"+fb+"\t"+compS+"\t"+stopS, itemS, len(items) > 1)
		run.Count(fmt.Sprintf("A:error-items=%d", len(items)))
		if !cancel {
			var want []string
			for j := range fails {
				if fails[j] {
					want = append(want, "j"+strconv.Itoa(j))
				}
			}
			if strings.Join(want, ",") != strings.Join(items, ",") {
				run.Fail(hx.OracleFailure{Class: "parallelize-error-order", What: fmt.Sprintf("Parallelize (no cancel-on-failure) of jobs failing=%v returned the errors %v (completion order %v): not the failing jobs in job order", fails, items, completed), Input: in, Replay: rp})
			}
		}
		if (err != nil) != anyFail {
			run.Fail(hx.OracleFailure{Class: "parallelize-verdict", What: fmt.Sprintf("Parallelize returned err=%v for jobs failing=%v", err, fails), Input: in, Replay: rp})
		}
		if !anyFail {
			for j := range slots {
				if !ran[j] || slots[j] != j*j+1 {
					run.Fail(hx.OracleFailure{Class: "parallelize-lost-job", What: fmt.Sprintf("job %d did not run to completion although no job failed", j), Input: in, Replay: rp})
				}
			}
		}
		if !cancel {
			for j := range ran {
				if !ran[j] {
					run.Fail(hx.OracleFailure{Class: "parallelize-skipped-job", What: fmt.Sprintf("job %d was never started although cancel-on-failure is off", j), Input: in, Replay: rp})
				}
			}
		}
	}
}

func b01(b bool) string {
	if b {
		return "1"
	}
	return "0"
}

// ---------------------------------------------------------------------------------------
// Part B: workspaces

type module struct {
	name  string
	files map[string]string
}

type workspace struct {
	mods []module
}

func genWorkspace(r *hx.Rand, i int) workspace {
	nm := 1 + r.Intn(4)
	var ws workspace
	for m := 0; m < nm; m++ {
		mod := module{name: fmt.Sprintf("buf.build/acme/m%d", m), files: map[string]string{}}
		nf := 1 + r.Intn(4)
		for f := 0; f < nf; f++ {
			pkg := fmt.Sprintf("acme.m%d.v1", m)
			path := fmt.Sprintf("acme/m%d/v1/f%d.proto", m, f)
			var sb strings.Builder
			sb.WriteString("syntax = \"proto3\";\n\npackage " + pkg + ";\n\n")
			// imports: earlier files of this module, files of earlier modules
			var imports []string
			if f > 0 && r.Chance(1, 2) {
				imports = append(imports, fmt.Sprintf("acme/m%d/v1/f%d.proto", m, r.Intn(f)))
			}
			if m > 0 && r.Chance(2, 3) {
				pm := r.Intn(m)
				imports = append(imports, fmt.Sprintf("acme/m%d/v1/f0.proto", pm))
			}
			if r.Chance(1, 4) {
				imports = append(imports, "google/protobuf/timestamp.proto")
			}
			hx.Shuffle(r, imports) // unsorted imports exercise format + unused-import warnings
			for _, im := range imports {
				sb.WriteString("import \"" + im + "\";\n")
			}
			sb.WriteString("\n")
			nmsg := 1 + r.Intn(3)
			for k := 0; k < nmsg; k++ {
				name := fmt.Sprintf("Msg%d_%d", f, k)
				if r.Chance(1, 3) {
					name = fmt.Sprintf("bad_name%d_%d", f, k) // lint: MESSAGE_PASCAL_CASE
				}
				sb.WriteString("message " + name + " {\n")
				nfld := 1 + r.Intn(3)
				for q := 0; q < nfld; q++ {
					fname := fmt.Sprintf("field_%d", q)
					if r.Chance(1, 4) {
						fname = fmt.Sprintf("BadField%d", q) // lint: FIELD_LOWER_SNAKE_CASE
					}
					typ := hx.Pick(r, []string{"string", "int32", "bool", "bytes"})
					if len(imports) > 0 && q == 0 {
						for _, im := range imports {
							if im == "google/protobuf/timestamp.proto" {
								typ = "google.protobuf.Timestamp"
							}
						}
					}
					sb.WriteString(fmt.Sprintf("    %s   %s=%d;\n", typ, fname, q+1))
				}
				sb.WriteString("}\n")
			}
			if r.Chance(1, 3) {
				sb.WriteString(fmt.Sprintf("enum E%d { E%d_UNSPECIFIED = 0; E%d_ONE = 1; }\n", f, f, f))
			}
			mod.files[path] = sb.String()
		}
		if r.Chance(1, 2) {
			mod.files["LICENSE"] = "license text " + strconv.Itoa(i)
		}
		if r.Chance(1, 3) {
			mod.files["README.md"] = "# readme " + strconv.Itoa(i)
		}
		ws.mods = append(ws.mods, mod)
	}
	return ws
}

// shuffleBucket permutes the order in which Walk reports objects.
type shuffleBucket struct {
	storage.ReadBucket
	seed uint64
}

func (s shuffleBucket) Walk(ctx context.Context, prefix string, f func(storage.ObjectInfo) error) error {
	var infos []storage.ObjectInfo
	if err := s.ReadBucket.Walk(ctx, prefix, func(oi storage.ObjectInfo) error {
		infos = append(infos, oi)
		return nil
	}); err != nil {
		return err
	}
	if s.seed != 0 {
		hx.Shuffle(hx.NewRand(s.seed), infos)
	}
	for _, oi := range infos {
		if err := f(oi); err != nil {
			return err
		}
	}
	return nil
}

type variation struct {
	gomaxprocs  int
	parallelism int
	hookSeed    uint64
	walkSeed    uint64
	modulePerm  uint64
}

func (v variation) String() string {
	return fmt.Sprintf("GOMAXPROCS=%d parallelism=%d hooks=%d walk=%d modperm=%d", v.gomaxprocs, v.parallelism, v.hookSeed, v.walkSeed, v.modulePerm)
}

var lintClient bufcheck.Client

func outputs(ws workspace, v variation) (out map[string]string) {
	out = map[string]string{}
	defer func() {
		if p := recover(); p != nil {
			out["PANIC"] = fmt.Sprint(p)
		}
	}()
	oldG := runtime.GOMAXPROCS(v.gomaxprocs)
	oldP := thread.Parallelism()
	thread.SetParallelism(v.parallelism)
	if v.hookSeed != 0 {
		installHooks(v.hookSeed)
	}
	defer func() {
		verifhook.SetHandler(nil)
		thread.SetParallelism(oldP)
		runtime.GOMAXPROCS(oldG)
	}()
	mods := append([]module{}, ws.mods...)
	if v.modulePerm != 0 {
		hx.Shuffle(hx.NewRand(v.modulePerm), mods)
	}
	var mds []bufmoduletesting.ModuleData
	for _, m := range mods {
		b := storagemem.NewReadWriteBucket()
		for p, c := range m.files {
			must0(bk.PutString(ctx, b, p, c))
		}
		// a fixed commit id per module: the testing helper otherwise invents a random one per call
		mds = append(mds, bufmoduletesting.ModuleData{Name: m.name, CommitID: uuid.NewSHA1(uuid.NameSpaceURL, []byte(m.name)), Bucket: shuffleBucket{b, v.walkSeed}})
	}
	ms, err := bufmoduletesting.NewModuleSet(mds...)
	if err != nil {
		out["moduleset"] = "ERR " + err.Error()
		return
	}
	// digests
	var dg []string
	for _, m := range ms.Modules() {
		d, err := m.Digest(bufmodule.DigestTypeB5)
		if err != nil {
			dg = append(dg, m.OpaqueID()+" ERR "+err.Error())
		} else {
			dg = append(dg, m.OpaqueID()+" "+d.String())
		}
	}
	out["digests"] = strings.Join(dg, "\n") // Modules() is documented sorted by OpaqueID
	// dep graph
	if g, err := bufmodule.ModuleSetToDAG(ms); err != nil {
		out["depgraph"] = "ERR " + err.Error()
	} else {
		s, err := g.DOTString(func(m bufmodule.Module) string { return m.OpaqueID() })
		if err != nil {
			s = "ERR " + err.Error()
		}
		out["depgraph"] = s
	}
	// ls-files
	if infos, err := bufmodule.GetTargetFileInfos(ctx, bufmodule.ModuleSetToModuleReadBucketWithOnlyProtoFiles(ms)); err != nil {
		out["lsfiles"] = "ERR " + err.Error()
	} else {
		var ps []string
		for _, fi := range infos {
			ps = append(ps, fi.Path())
		}
		out["lsfiles"] = strings.Join(ps, "\n")
	}
	// image
	img, err := bufimage.BuildImage(ctx, logger, bufmodule.ModuleSetToModuleReadBucketWithOnlyProtoFiles(ms))
	if err != nil {
		out["image"] = "ERR " + err.Error()
		return
	}
	pimg := must(bufimage.ImageToProtoImage(img))
	data := must(protoencoding.NewWireMarshaler().Marshal(pimg))
	h := sha256.Sum256(data)
	out["image"] = fmt.Sprintf("%d bytes sha256=%s", len(data), hex.EncodeToString(h[:]))
	var order []string
	for _, f := range img.Files() {
		order = append(order, fmt.Sprintf("%s import=%v unused=%v", f.Path(), f.IsImport(), f.UnusedDependencyIndexes()))
	}
	out["image-files"] = strings.Join(order, "\n")
	// lint
	cc := must(bufconfig.NewEnabledCheckConfig(bufconfig.FileVersionV2, []string{"STANDARD", "COMMENTS"}, nil, nil, nil, false))
	lerr := lintClient.Lint(ctx, bufconfig.NewLintConfig(cc, "", false, false, false, "", false), img)
	if lerr == nil {
		out["lint"] = "clean"
	} else {
		out["lint"] = lerr.Error()
	}
	// breaking against an image of the same workspace with the last file's first message renamed
	bcc := must(bufconfig.NewEnabledCheckConfig(bufconfig.FileVersionV2, []string{"FILE"}, nil, nil, nil, false))
	berr := lintClient.Breaking(ctx, bufconfig.NewBreakingConfig(bcc, false), img, img)
	if berr == nil {
		out["breaking-self"] = "clean"
	} else {
		out["breaking-self"] = berr.Error()
	}
	// format
	fb, err := bufformat.FormatModuleSet(ctx, ms)
	if err != nil {
		out["format"] = "ERR " + err.Error()
	} else {
		// the unified diff `buf format -d` prints, over the (shuffled) source view
		src := bufmodule.ModuleReadBucketToStorageReadBucket(bufmodule.ModuleSetToModuleReadBucketWithOnlyProtoFiles(ms))
		if d, derr := storage.DiffBytes(ctx, shuffleBucket{src, v.walkSeed}, fb, storage.DiffWithSuppressTimestamps()); derr != nil {
			out["format-diff"] = "ERR " + derr.Error()
		} else {
			hd := sha256.Sum256(d)
			out["format-diff"] = fmt.Sprintf("%d bytes sha256=%s", len(d), hex.EncodeToString(hd[:]))
		}
		kvs, err := bk.WalkAll(ctx, fb, "")
		if err != nil {
			out["format"] = "ERR " + err.Error()
		} else {
			sort.Slice(kvs, func(i, j int) bool { return kvs[i].K < kvs[j].K })
			var sb strings.Builder
			for _, kv := range kvs {
				sb.WriteString("== " + kv.K + "\n" + kv.V)
			}
			hh := sha256.Sum256([]byte(sb.String()))
			out["format"] = fmt.Sprintf("%d files sha256=%s", len(kvs), hex.EncodeToString(hh[:]))
		}
	}
	return out
}

func partB(run *hx.Run, r *hx.Rand) {
	n := run.N(25, 215) // thorough re-budgeted (400 -> 240 when the filter and overlap families were added, -> 215 with the multi-failure and multi-client families)
	for i := 0; i < n; i++ {
		cr := r.Fork(uint64(i))
		ws := genWorkspace(cr, i)
		base := variation{gomaxprocs: runtime.NumCPU(), parallelism: thread.Parallelism()}
		ref := outputs(ws, base)
		vars := []variation{
			{1, 1, 0, 0, 0},
			{2, 2, cr.Uint64() | 1, 0, 0},
			{16, 16, cr.Uint64() | 1, cr.Uint64() | 1, 0},
			{4, 1, 0, cr.Uint64() | 1, cr.Uint64() | 1},
			{16, 4, cr.Uint64() | 1, cr.Uint64() | 1, cr.Uint64() | 1},
			{runtime.NumCPU(), thread.Parallelism(), 0, 0, 0}, // plain repeat
		}
		if run.Thorough() {
			for k := 0; k < 6; k++ {
				vars = append(vars, variation{hx.Pick(cr, []int{1, 2, 3, 8, 16}), hx.Pick(cr, []int{1, 2, 3, 7, 16}), cr.Uint64() | 1, cr.Uint64() | 1, cr.Uint64() | 1})
			}
		}
		for _, v := range vars {
			got := outputs(ws, v)
			run.Eval()
			run.Distinct(fmt.Sprintf("B-%d-%s", i, v))
			for _, k := range keysOf(ref, got) {
				run.Count("B:compared:" + k)
				if ref[k] != got[k] {
					run.Fail(hx.OracleFailure{Class: "nondeterministic-" + k,
						What:   fmt.Sprintf("workspace %d: output %q differs between the default run and [%s]:\n--- default\n%s\n--- variation\n%s", i, k, v, clip(ref[k]), clip(got[k])),
						Input:  map[string]any{"workspace": describe(ws), "variation": v.String()},
						Replay: fmt.Sprintf("build/c02 --out /tmp/c02-replay --seed %d --tier %s --only %d", run.Seed, run.Tier, i)})
				}
			}
		}
		if i < 2 {
			run.Sample(map[string]any{"part": "B", "workspace": describe(ws), "outputs": ref})
		}
	}
}

func clip(s string) string {
	if len(s) > 600 {
		return s[:600] + "…"
	}
	return s
}

func keysOf(a, b map[string]string) []string {
	m := map[string]bool{}
	for k := range a {
		m[k] = true
	}
	for k := range b {
		m[k] = true
	}
	out := make([]string, 0, len(m))
	for k := range m {
		out = append(out, k)
	}
	sort.Strings(out)
	return out
}

func describe(ws workspace) []string {
	var out []string
	for _, m := range ws.mods {
		var ps []string
		for p := range m.files {
			ps = append(ps, p)
		}
		sort.Strings(ps)
		out = append(out, m.name+": "+strings.Join(ps, " "))
	}
	return out
}

// ---------------------------------------------------------------------------------------
// Part D: several remote commits of one dependency, listed in every order

// registry serves several commits of the same remote module (what conflicting buf.lock pins of
// a v1 workspace amount to).
type registry struct {
	byCommit map[uuid.UUID]bufmoduletesting.OmniProvider
}

func (g *registry) GetModuleDatasForModuleKeys(ctx context.Context, keys []bufmodule.ModuleKey) ([]bufmodule.ModuleData, error) {
	var out []bufmodule.ModuleData
	for _, k := range keys {
		p, ok := g.byCommit[k.CommitID()]
		if !ok {
			return nil, fmt.Errorf("unknown commit %v", k.CommitID())
		}
		one, err := p.GetModuleDatasForModuleKeys(ctx, []bufmodule.ModuleKey{k})
		if err != nil {
			return nil, err
		}
		out = append(out, one...)
	}
	return out, nil
}

func (g *registry) GetCommitsForModuleKeys(ctx context.Context, keys []bufmodule.ModuleKey) ([]bufmodule.Commit, error) {
	var out []bufmodule.Commit
	for _, k := range keys {
		p, ok := g.byCommit[k.CommitID()]
		if !ok {
			return nil, fmt.Errorf("unknown commit %v", k.CommitID())
		}
		one, err := p.GetCommitsForModuleKeys(ctx, []bufmodule.ModuleKey{k})
		if err != nil {
			return nil, err
		}
		out = append(out, one...)
	}
	return out, nil
}

func (g *registry) GetCommitsForCommitKeys(ctx context.Context, keys []bufmodule.CommitKey) ([]bufmodule.Commit, error) {
	var out []bufmodule.Commit
	for _, k := range keys {
		p, ok := g.byCommit[k.CommitID()]
		if !ok {
			return nil, fmt.Errorf("unknown commit %v", k.CommitID())
		}
		one, err := p.GetCommitsForCommitKeys(ctx, []bufmodule.CommitKey{k})
		if err != nil {
			return nil, err
		}
		out = append(out, one...)
	}
	return out, nil
}

func partD(run *hx.Run, r *hx.Rand) {
	n := run.N(12, 150)
	base := time.Date(2024, 1, 1, 0, 0, 0, 0, time.UTC)
	for i := 0; i < n; i++ {
		cr := r.Fork(uint64(i))
		nc := 2 + cr.Intn(5)
		reg := &registry{byCommit: map[uuid.UUID]bufmoduletesting.OmniProvider{}}
		keys := make([]bufmodule.ModuleKey, nc)
		times := make([]int, nc)
		for c := 0; c < nc; c++ {
			id := uuid.NewSHA1(uuid.NameSpaceURL, []byte(fmt.Sprintf("dep-%d-%d", i, c)))
			times[c] = cr.Intn(4) // equal create times do occur
			p := must(bufmoduletesting.NewOmniProvider(bufmoduletesting.ModuleData{
				Name: "buf.build/acme/dep", CommitID: id, CreateTime: base.Add(time.Duration(times[c]) * 24 * time.Hour),
				PathToData: map[string][]byte{"dep/dep.proto": []byte(fmt.Sprintf("syntax = \"proto3\";\npackage dep;\nmessage Dep { string v%d = 1; }\n", c+1))},
			}))
			mod := p.GetModuleForCommitID(id)
			keys[c] = must(bufmodule.ModuleToModuleKey(mod, bufmodule.DigestTypeB5))
			reg.byCommit[id] = p
		}
		local := must(storagemem.NewReadBucket(map[string][]byte{
			"app/app.proto": []byte("syntax = \"proto3\";\npackage app;\nimport \"dep/dep.proto\";\nmessage App { dep.Dep dep = 1; }\n"),
		}))
		build := func(order []int) string {
			b := bufmodule.NewModuleSetBuilder(ctx, logger, reg, reg)
			b.AddLocalModule(local, "app", true)
			for _, c := range order {
				b.AddRemoteModule(keys[c], false)
			}
			ms, err := b.Build()
			if err != nil {
				return "ERR " + err.Error()
			}
			var chosen []string
			for _, m := range ms.Modules() {
				d, _ := m.Digest(bufmodule.DigestTypeB5)
				chosen = append(chosen, fmt.Sprintf("%s@%s %v", m.OpaqueID(), m.CommitID(), d))
			}
			img, err := bufimage.BuildImage(ctx, logger, bufmodule.ModuleSetToModuleReadBucketWithOnlyProtoFiles(ms))
			if err != nil {
				return strings.Join(chosen, ";") + " IMAGE-ERR " + err.Error()
			}
			data := must(protoencoding.NewWireMarshaler().Marshal(must(bufimage.ImageToProtoImage(img))))
			h := sha256.Sum256(data)
			return strings.Join(chosen, ";") + " image=" + hex.EncodeToString(h[:8])
		}
		order := make([]int, nc)
		for c := range order {
			order[c] = c
		}
		ref := build(order)
		for rep := 0; rep < 12; rep++ {
			o := append([]int{}, order...)
			if rep%3 != 0 {
				hx.Shuffle(cr, o)
			}
			got := build(o)
			run.Eval()
			run.Distinct(fmt.Sprintf("D-%d-%d", i, rep))
			run.Count("D:remote-commit-selection")
			if got != ref {
				run.Fail(hx.OracleFailure{Class: "nondeterministic-remote-commit-selection",
					What:   fmt.Sprintf("%d commits of one remote module (create-time days %v): listing order %v gave\n%s\nbut order %v gave\n%s", nc, times, order, ref, o, got),
					Input:  map[string]any{"commits": nc, "create_time_days": times, "order": o},
					Replay: fmt.Sprintf("build/c02 --out /tmp/c02-replay --seed %d --tier %s", run.Seed, run.Tier)})
				break
			}
		}
	}
}

// ---------------------------------------------------------------------------------------
// Part C: the real binary

// buildBuf builds the real binary from the tree under test into tmpRoot/buf.
func buildBuf(run *hx.Run, tmpRoot string) (string, bool) {
	repo := os.Getenv("VERIF_REPO")
	if repo == "" {
		repo = "/repo"
	}
	bufBin := filepath.Join(tmpRoot, "buf")
	cmd := exec.Command("go", "build", "-o", bufBin, "./cmd/buf")
	cmd.Dir = repo
	cmd.Env = append(os.Environ(), "GOPROXY=off", "GOFLAGS=-mod=mod")
	if out, err := cmd.CombinedOutput(); err != nil {
		run.Fail(hx.OracleFailure{Class: "buf-binary-does-not-build", What: string(out), Input: nil, Replay: "go build ./cmd/buf"})
		return "", false
	}
	return bufBin, true
}

// clip keeps the head of a (possibly binary) output for a failure report.
func clipOut(s string, n int) string {
	if len(s) > n {
		s = s[:n] + fmt.Sprintf("... (%d bytes)", len(s))
	}
	return strconv.Quote(s)
}

func partC(run *hx.Run, r *hx.Rand, tmpRoot string, bufBin string) {
	n := run.N(6, 60)
	for i := 0; i < n; i++ {
		cr := r.Fork(uint64(i))
		ws := genWorkspace(cr, 1000+i)
		dir := filepath.Join(tmpRoot, "ws"+strconv.Itoa(i))
		var yaml strings.Builder
		yaml.WriteString("version: v2\nmodules:\n")
		var allProto []string
		for mi, m := range ws.mods {
			md := fmt.Sprintf("mod%d", mi)
			yaml.WriteString("  - path: " + md + "\n    name: " + m.name + "\n")
			for p, c := range m.files {
				full := filepath.Join(dir, md, p)
				must0(os.MkdirAll(filepath.Dir(full), 0o755))
				must0(os.WriteFile(full, []byte(c), 0o644))
				if strings.HasSuffix(p, ".proto") {
					allProto = append(allProto, md+"/"+p)
				}
			}
		}
		must0(os.WriteFile(filepath.Join(dir, "buf.yaml"), []byte(yaml.String()), 0o644))
		if i%3 == 1 {
			// several unparsable files: every command fails, each with several diagnostics whose
			// order must not depend on which file was parsed first
			for k := 0; k < 5; k++ {
				p := fmt.Sprintf("mod0/zz_broken_%d.proto", k)
				must0(os.WriteFile(filepath.Join(dir, p), []byte(fmt.Sprintf("syntax = \"proto3\";\npackage broken%d;\nmessage B%d { int32 a = ; }\n", k, k)), 0o644))
			}
			run.Count("C:workspace-with-unparsable-files")
		}
		sort.Strings(allProto)
		cmds := [][]string{
			{"build", "-o", "-"},
			{"lint", "--error-format=json"},
			{"ls-files"},
			{"format", "-d"},
			{"build", "--exclude-source-info", "-o", "-#format=json"},
		}
		// path-restricted build with permuted --path order
		if len(allProto) >= 2 {
			a, b := allProto[0], allProto[len(allProto)-1]
			cmds = append(cmds, []string{"build", "-o", "-", "--path", a, "--path", b})
		}
		// all runs of this workspace, 12 processes at a time; judged afterwards in order
		gmpsC := []string{"", "1", "2", "16", "", "16", "4", ""}
		type cjob struct {
			ci, vi int
			a      []string
			res    []byte
		}
		var cjobs []*cjob
		for ci, args := range cmds {
			for vi := range gmpsC {
				a := append([]string{}, args...)
				if ci == 5 && vi%2 == 1 {
					// swap the two --path arguments
					a[4], a[6] = a[6], a[4]
				}
				cjobs = append(cjobs, &cjob{ci: ci, vi: vi, a: a})
			}
		}
		parallelDo(12, len(cjobs), func(k int) {
			j := cjobs[k]
			br := runBufBin(bufBin, tmpRoot, dir, gmpsC[j.vi], j.a) // format: diff timestamps stripped
			j.res = []byte(fmt.Sprintf("exit=%d\n--stdout\n%s\n--stderr\n%s", br.code, br.stdout, br.stderr))
		})
		var ref []byte
		for _, j := range cjobs {
			args, gmp := cmds[j.ci], gmpsC[j.vi]
			run.Eval()
			run.Distinct(fmt.Sprintf("C-%d-%d-%d", i, j.ci, j.vi))
			run.Count("C:buf " + args[0])
			if j.vi == 0 {
				ref = j.res
			} else if !bytes.Equal(ref, j.res) {
				run.Fail(hx.OracleFailure{Class: "binary-nondeterministic-" + args[0],
					What:   fmt.Sprintf("`buf %s` output differs between default and GOMAXPROCS=%s (args %v)", strings.Join(args, " "), gmp, j.a),
					Input:  map[string]any{"workspace": describe(ws), "args": j.a, "reference_output": clipOut(string(ref), 1500), "this_output": clipOut(string(j.res), 1500)},
					Replay: fmt.Sprintf("build/c02 --out /tmp/c02-replay --seed %d --tier %s", run.Seed, run.Tier)})
			}
		}
		os.RemoveAll(dir)
	}
}

// partE: dedicated binary scenarios — image input with permuted --path, nested --type
// filters (the include set is a Go map in bufimageutil), and a workspace large enough for the
// chunked parallel paths (bufprotosource.NewFiles converts in chunks from 8 files per worker).
func partE(run *hx.Run, r *hx.Rand, tmpRoot string, bufBin string) {
	runBuf := func(dir string, gmp string, args ...string) []byte {
		c := exec.Command(bufBin, args...)
		c.Dir = dir
		c.Env = append(os.Environ(), "HOME="+tmpRoot, "BUF_CACHE_DIR="+filepath.Join(tmpRoot, "cache"))
		if gmp != "" {
			c.Env = append(c.Env, "GOMAXPROCS="+gmp)
		}
		var stdout, stderr bytes.Buffer
		c.Stdout, c.Stderr = &stdout, &stderr
		err := c.Run()
		code := 0
		var ee *exec.ExitError
		if errors.As(err, &ee) {
			code = ee.ExitCode()
		} else if err != nil {
			code = -1
		}
		run.Eval()
		return append([]byte(fmt.Sprintf("exit=%d\n--stdout\n%s\n--stderr\n", code, stdout.Bytes())), stderr.Bytes()...)
	}
	rp := fmt.Sprintf("build/c02 --out /tmp/c02-replay --seed %d --tier %s", run.Seed, run.Tier)
	rounds := run.N(2, 10)
	for i := 0; i < rounds; i++ {
		cr := r.Fork(uint64(i))
		dir := filepath.Join(tmpRoot, "e"+strconv.Itoa(i))
		must0(os.MkdirAll(filepath.Join(dir, "p"), 0o755))
		must0(os.WriteFile(filepath.Join(dir, "buf.yaml"), []byte("version: v2\n"), 0o644))
		// nested types + a service, a chain of imports
		must0(os.WriteFile(filepath.Join(dir, "p", "t.proto"), []byte("syntax = \"proto3\";\npackage p;\nmessage Outer {\n  message Inner { int32 a = 1; }\n  Inner i = 1;\n  int32 z = 2;\n  enum E { E_UNSPECIFIED = 0; }\n}\nmessage Other { Outer o = 1; }\nservice Svc {\n  rpc One(Outer) returns (Other);\n  rpc Two(Other) returns (Outer);\n}\n"), 0o644))
		// 25, 27 or 29 files in all (with t.proto): the conversion is chunked (>= 8 files per
		// worker) for 2 and 3 workers, and the file count is not a multiple of the worker count
		nFiles := 24 + 2*cr.Intn(3)
		var names []string
		for k := 0; k < nFiles; k++ {
			name := fmt.Sprintf("p/f%02d.proto", k)
			names = append(names, name)
			imp := ""
			if k > 0 && cr.Chance(1, 2) {
				imp = fmt.Sprintf("import \"p/f%02d.proto\";\n", cr.Intn(k))
			}
			// every file carries its own lint findings (lower-case message name, field not snake case)
			must0(os.WriteFile(filepath.Join(dir, name), []byte(fmt.Sprintf("syntax = \"proto3\";\npackage p;\n%smessage bad_%02d { int32 camelCase = 1; }\n", imp, k)), 0o644))
		}
		// (1) many files: lint / build / ls-files under different core counts
		// (2) nested --type includes, repeated (map iteration order)
		// all processes of (1) and (2) run 12 at a time and are judged afterwards in order
		type ejob struct {
			group string
			args  []string
			gmp   string
			res   []byte
		}
		var ejobs []*ejob
		bigArgs := [][]string{{"lint", "--error-format=json"}, {"build", "-o", "-"}, {"ls-files"}, {"breaking", "--against", ".", "--error-format=json"}}
		bigGmps := []string{"1", "2", "3", "4", "16", "2", ""}
		for _, args := range bigArgs {
			for _, gmp := range bigGmps {
				ejobs = append(ejobs, &ejob{group: "big", args: args, gmp: gmp})
			}
		}
		typeSets := [][]string{{"p.Outer", "p.Outer.Inner"}, {"p.Svc", "p.Svc.One"}, {"p.Outer.Inner", "p.Outer", "p.Outer.E"}}
		for _, types := range typeSets {
			for rep := 0; rep < 16; rep++ {
				args := []string{"build", "-o", "-"}
				ts := append([]string{}, types...)
				if rep%2 == 1 {
					for a, b := 0, len(ts)-1; a < b; a, b = a+1, b-1 {
						ts[a], ts[b] = ts[b], ts[a]
					}
				}
				for _, t := range ts {
					args = append(args, "--type", t)
				}
				ejobs = append(ejobs, &ejob{group: "type", args: args})
			}
		}
		parallelDo(12, len(ejobs), func(k int) {
			j := ejobs[k]
			br := runBufBin(bufBin, tmpRoot, dir, j.gmp, j.args)
			j.res = []byte(fmt.Sprintf("exit=%d\n--stdout\n%s\n--stderr\n%s", br.code, br.stdout, br.stderr))
		})
		at := 0
		for _, args := range bigArgs {
			var ref []byte
			failed := false
			for vi, gmp := range bigGmps {
				res := ejobs[at].res
				at++
				if failed {
					continue
				}
				run.Eval()
				run.Distinct(fmt.Sprintf("E-big-%d-%s-%d", i, args[0], vi))
				run.Count("E:many-files buf " + args[0])
				if vi == 0 {
					ref = res
				} else if !bytes.Equal(ref, res) {
					run.Fail(hx.OracleFailure{Class: "binary-nondeterministic-manyfiles-" + args[0], What: fmt.Sprintf("`buf %s` on a %d-file module differs between GOMAXPROCS=1 and GOMAXPROCS=%q: %d vs %d bytes", strings.Join(args, " "), nFiles+1, gmp, len(ref), len(res)), Input: map[string]any{"files": nFiles + 1, "args": args}, Replay: rp})
					failed = true
				}
			}
		}
		for ti, types := range typeSets {
			var ref []byte
			failed := false
			for rep := 0; rep < 16; rep++ {
				res := ejobs[at].res
				at++
				if failed {
					continue
				}
				run.Eval()
				run.Distinct(fmt.Sprintf("E-type-%d-%d-%d", i, ti, rep))
				run.Count("E:type-filter")
				if rep == 0 {
					ref = res
				} else if !bytes.Equal(ref, res) {
					run.Fail(hx.OracleFailure{Class: "binary-nondeterministic-type-filter", What: fmt.Sprintf("`buf build --type %s` gives different images on repeated runs / for permuted --type order (%d vs %d bytes)", strings.Join(types, " --type "), len(ref), len(res)), Input: map[string]any{"types": types}, Replay: rp})
					failed = true
				}
			}
		}
		// (3) image input with permuted --path
		img := filepath.Join(dir, "img.binpb")
		if out := runBuf(dir, "", "build", "-o", img); !bytes.HasPrefix(out, []byte("exit=0")) {
			panic("cannot build image: " + string(out))
		}
		pa, pb := names[len(names)-1], names[0]
		x := runBuf(dir, "", "build", img, "--path", pa, "--path", pb, "-o", "-")
		y := runBuf(dir, "", "build", img, "--path", pb, "--path", pa, "-o", "-")
		run.Count("E:image-path-order")
		if !bytes.Equal(x, y) {
			run.Fail(hx.OracleFailure{Class: "image-path-order-dependent", What: fmt.Sprintf("`buf build IMAGE --path %s --path %s` and the same with the two --path flags swapped give different images", pa, pb), Input: map[string]any{"paths": []string{pa, pb}}, Replay: rp})
		}
		sx := runBuf(dir, "", "build", ".", "--path", pa, "--path", pb, "-o", "-")
		sy := runBuf(dir, "", "build", ".", "--path", pb, "--path", pa, "-o", "-")
		if !bytes.Equal(sx, sy) {
			run.Fail(hx.OracleFailure{Class: "binary-path-order-sources", What: "building the sources with swapped --path flags gives different images", Input: map[string]any{"paths": []string{pa, pb}}, Replay: rp})
		}
		os.RemoveAll(dir)
	}
}

func main() {
	run := hx.Start("C02")
	r := hx.NewRand(run.Seed)
	lintClient = must(bufcheck.NewClient(logger, bufcheck.RunnerProviderFunc(
		func(bufconfig.PluginConfig) (pluginrpc.Runner, error) { return nil, errors.New("no plugins") })))
	tmpRoot := must(os.MkdirTemp("", "verif-c02-"))
	defer os.RemoveAll(tmpRoot)
	secs := map[string]string{}
	timed := func(name string, f func()) {
		t0 := time.Now()
		f()
		secs[name] = fmt.Sprintf("%.1f", time.Since(t0).Seconds())
		run.Set("seconds_per_part", secs)
	}
	if len(run.Args) > 0 && run.Args[0] == "await" {
		// part A-wait alone (one scenario alone: await <k>)
		k := -1
		if len(run.Args) > 1 {
			k, _ = strconv.Atoi(run.Args[1])
		}
		partAWait(run, r.Fork(7), k)
		run.Finish()
		return
	}
	if run.Only >= mclientOnlyBase || (len(run.Args) > 0 && run.Args[0] == "mclient") {
		// one member of the multi-client family alone (`mclient`: the whole part alone)
		timed("B-mclient", func() { partBMClient(run, r.Fork(12)) })
		run.Finish()
		return
	}
	if run.Only >= multifailOnlyBase || (len(run.Args) > 0 && run.Args[0] == "multifail") {
		// one member of the multi-failure family alone (`multifail`: the whole family alone)
		timed("B-multifail", func() { partBMultiFail(run, r.Fork(11)) })
		if bufBin, ok := buildBuf(run, tmpRoot); ok {
			timed("E-multifail", func() { partEMultiFail(run, r.Fork(11), tmpRoot, bufBin) })
		}
		run.Finish()
		return
	}
	if run.Only >= overlapOnlyBase {
		// one member of the overlap family alone
		partBOverlap(run, r.Fork(9))
		if bufBin, ok := buildBuf(run, tmpRoot); ok {
			partEOverlap(run, r.Fork(9), tmpRoot, bufBin)
		}
		run.Finish()
		return
	}
	if run.Only >= filterOnlyBase {
		// one member of the filter family alone
		partBFilter(run, r.Fork(10))
		if bufBin, ok := buildBuf(run, tmpRoot); ok {
			partEFilter(run, r.Fork(10), tmpRoot, bufBin)
		}
		run.Finish()
		return
	}
	if run.Only >= manyOnlyBase {
		// one member of the many-problem family alone
		partBMany(run, r.Fork(6))
		if bufBin, ok := buildBuf(run, tmpRoot); ok {
			partEMany(run, r.Fork(6), tmpRoot, bufBin)
		}
		run.Finish()
		return
	}
	timed("A", func() { partA(run, r.Fork(1)) })
	timed("A-wait", func() { partAWait(run, r.Fork(7), -1) })
	if run.Only < 0 {
		timed("B", func() { partB(run, r.Fork(2)) })
		timed("B-many", func() { partBMany(run, r.Fork(6)) })
		timed("B-filter", func() { partBFilter(run, r.Fork(10)) })
		timed("B-overlap", func() { partBOverlap(run, r.Fork(9)) })
		timed("B-multifail", func() { partBMultiFail(run, r.Fork(11)) })
		timed("B-mclient", func() { partBMClient(run, r.Fork(12)) })
		timed("D", func() { partD(run, r.Fork(4)) })
		var bufBin string
		var ok bool
		timed("build-buf", func() { bufBin, ok = buildBuf(run, tmpRoot) })
		if ok {
			timed("C", func() { partC(run, r.Fork(3), tmpRoot, bufBin) })
			timed("E", func() { partE(run, r.Fork(5), tmpRoot, bufBin) })
			timed("E-many", func() { partEMany(run, r.Fork(6), tmpRoot, bufBin) })
			timed("E-filter", func() { partEFilter(run, r.Fork(10), tmpRoot, bufBin) })
			timed("E-overlap", func() { partEOverlap(run, r.Fork(9), tmpRoot, bufBin) })
			timed("E-cycles", func() { partECycles(run, r.Fork(8), tmpRoot, bufBin) })
			timed("E-multifail", func() { partEMultiFail(run, r.Fork(11), tmpRoot, bufBin) })
		}
	} else {
		partB(run, r.Fork(2))
	}
	run.Finish()
}
