package main

// Part A-wait: thread.Parallelize returns only after EVERY dispatched job has finished.
//
// Whoever fans work out through Parallelize (storage.Copy under the module cache's exclusive
// lock, the image builder, the check clients …) relies on the join: when the call has returned —
// with or without an error, with or without cancel-on-failure, after a cancellation of the
// caller's context — no job of it is still running and none starts later.  Jobs here block on a
// gate (a channel: slow I/O that ignores the context); one job fails at once.  The harness
// gives Parallelize a moment to return, then opens the gate.  A Parallelize that joins its jobs
// CANNOT return before the gate opens, whatever the bound is; when it returns the oracle looks
// at what the jobs recorded, not at the clock:
//
//	parallelize-returned-before-jobs-finished  a job that had started had not finished at the return
//	parallelize-job-started-after-return       a job started after the return
//
// and the event list (job start / job finish / return, in the order they happened) is replayed
// by the Lean machine `prun` in which `ret` is enabled only when nothing is running.
//
// `build/c02 … await [k]` runs this part alone (scenario k alone).

import (
	"context"
	"fmt"
	"sort"
	"strconv"
	"strings"
	"sync"
	"time"

	"github.com/bufbuild/buf/private/pkg/thread"
	"github.com/bufbuild/verifharness/internal/hx"
)

// awaitReturn: how long Parallelize is given to return while jobs are held.  Not a correctness
// criterion (see above).
const awaitReturn = 12 * time.Millisecond

type waitScenario struct {
	Jobs      int    `json:"jobs"`
	Par       int    `json:"parallelism"`
	Cancel    bool   `json:"cancel_on_failure"`
	Failing   int    `json:"failing_job"` // -1: none
	Outer     bool   `json:"caller_context_cancelled"`
	Gated     []int  `json:"gated_jobs"`
	GateMode  string `json:"gate_mode"`
	Index     int    `json:"scenario"`
	reachable bool
}

func waitScenarios(run *hx.Run, r *hx.Rand) []waitScenario {
	var out []waitScenario
	reps := run.N(1, 6)
	for rep := 0; rep < reps; rep++ {
		for _, par := range []int{1, 2, 4, 16} {
			for _, cancel := range []bool{false, true} {
				for _, nj := range []int{2, 3, 5, 8} {
					for f := -1; f < nj; f++ {
						sc := waitScenario{Jobs: nj, Par: par, Cancel: cancel, Failing: f, Outer: f < 0}
						var others []int
						for j := 0; j < nj; j++ {
							if j != f {
								others = append(others, j)
							}
						}
						switch mode := r.Intn(4); {
						case f < 0:
							// the caller's context is cancelled while jobs are in flight: a random non-empty subset is slow
							sc.GateMode = "subset"
							for _, j := range others {
								if r.Chance(1, 2) {
									sc.Gated = append(sc.Gated, j)
								}
							}
							if len(sc.Gated) == 0 {
								sc.Gated = []int{hx.Pick(r, others)}
							}
						case mode == 0:
							sc.GateMode = "last-or-first"
							if f != nj-1 {
								sc.Gated = []int{nj - 1}
							} else {
								sc.Gated = []int{0}
							}
						case mode == 1:
							// the failing job stays reachable: fewer than `par` slow jobs are dispatched before it
							sc.GateMode = "reachable"
							before := 0
							for _, j := range others {
								if !r.Chance(1, 2) {
									continue
								}
								if j < f {
									if before >= par-1 {
										continue
									}
									before++
								}
								sc.Gated = append(sc.Gated, j)
							}
							if len(sc.Gated) == 0 {
								sc.Gated = []int{others[len(others)-1]}
							}
						case mode == 2:
							sc.GateMode = "all-others"
							sc.Gated = append(sc.Gated, others...)
						default:
							sc.GateMode = "one"
							sc.Gated = []int{hx.Pick(r, others)}
						}
						sc.Index = len(out)
						out = append(out, sc)
					}
				}
			}
		}
	}
	return out
}

func intsCSV(xs []int) string {
	if len(xs) == 0 {
		return "-"
	}
	ss := make([]string, len(xs))
	for i, x := range xs {
		ss[i] = strconv.Itoa(x)
	}
	return strings.Join(ss, ",")
}

func partAWait(run *hx.Run, r *hx.Rand, only int) {
	old := thread.Parallelism()
	defer thread.SetParallelism(old)
	for _, sc := range waitScenarios(run, r) {
		if only >= 0 && sc.Index != only {
			continue
		}
		thread.SetParallelism(sc.Par)
		nj := sc.Jobs
		gated := map[int]bool{}
		for _, j := range sc.Gated {
			gated[j] = true
		}
		var mu sync.Mutex
		var events []string
		started := make([]bool, nj)
		finished := make([]bool, nj)
		returned := false
		var startedAfterReturn []int
		var unfinishedAtReturn []int
		gate := make(chan struct{})
		firstHeld := make(chan struct{})
		var firstHeldOnce sync.Once
		jobs := make([]func(context.Context) error, nj)
		for j := range jobs {
			j := j
			jobs[j] = func(context.Context) error {
				mu.Lock()
				started[j] = true
				if returned {
					startedAfterReturn = append(startedAfterReturn, j)
				}
				events = append(events, "d"+strconv.Itoa(j))
				mu.Unlock()
				var err error
				switch {
				case j == sc.Failing:
					err = fmt.Errorf("job %d failed", j)
				case gated[j]:
					firstHeldOnce.Do(func() { close(firstHeld) })
					<-gate // slow work that does not look at the context
				}
				mu.Lock()
				finished[j] = true
				events = append(events, "f"+strconv.Itoa(j))
				mu.Unlock()
				return err
			}
		}
		var opts []thread.ParallelizeOption
		if sc.Cancel {
			opts = append(opts, thread.ParallelizeWithCancelOnFailure())
		}
		cctx, cancelOuter := context.WithCancel(ctx)
		done := make(chan struct{})
		var perr error
		go func() {
			defer close(done)
			defer func() {
				if p := recover(); p != nil {
					perr = fmt.Errorf("panic: %v", p)
				}
			}()
			e := thread.Parallelize(cctx, jobs, opts...)
			mu.Lock()
			perr = e
			returned = true
			for j := range started {
				if started[j] && !finished[j] {
					unfinishedAtReturn = append(unfinishedAtReturn, j)
				}
			}
			events = append(events, "r")
			mu.Unlock()
		}()
		if sc.Outer {
			// cancel the caller's context once a slow job is in flight
			select {
			case <-firstHeld:
			case <-done:
			}
			cancelOuter()
		}
		early := false
		select {
		case <-done:
			early = true
		case <-time.After(awaitReturn):
		}
		close(gate)
		<-done
		// let whatever is still running finish (bounded), so that the event list is complete
		deadline := time.Now().Add(2 * time.Second)
		for {
			mu.Lock()
			all := true
			for j := range started {
				if started[j] && !finished[j] {
					all = false
				}
			}
			mu.Unlock()
			if all || time.Now().After(deadline) {
				break
			}
			time.Sleep(100 * time.Microsecond)
		}
		time.Sleep(50 * time.Microsecond) // a job dispatched after the return would start about now
		cancelOuter()
		mu.Lock()
		evs := append([]string{}, events...)
		var fin, running []int
		nStarted := 0
		for j := range started {
			if started[j] {
				nStarted++
				if finished[j] {
					fin = append(fin, j)
				} else {
					running = append(running, j)
				}
			}
		}
		unfinished := append([]int{}, unfinishedAtReturn...)
		lateStart := append([]int{}, startedAfterReturn...)
		mu.Unlock()
		sort.Ints(fin)
		// protocol: pwait <parallelism> <events>  ->  ret=<0|1>|running=<csv>|finished=<csv>
		run.Case("pwait\t"+strconv.Itoa(sc.Par)+"\t"+strings.Join(evs, ","),
			"ret=1|running="+intsCSV(running)+"|finished="+intsCSV(fin), true)
		run.Count(fmt.Sprintf("A-wait:par=%d", sc.Par))
		run.Count("A-wait:cancel-on-failure=" + b01(sc.Cancel))
		run.Count("A-wait:gate-mode=" + sc.GateMode)
		run.Count(fmt.Sprintf("A-wait:started=%d-of-%d", nStarted, nj))
		run.Count("A-wait:returned-while-gate-closed=" + b01(early))
		run.Count("A-wait:verdict=" + b01(perr != nil))
		in := map[string]any{"scenario": sc, "events": strings.Join(evs, ","), "error": fmt.Sprint(perr)}
		rp := fmt.Sprintf("build/c02 --out /tmp/c02-replay --seed %d --tier %s await %d", run.Seed, run.Tier, sc.Index)
		if len(unfinished) > 0 {
			run.Fail(hx.OracleFailure{Class: "parallelize-returned-before-jobs-finished",
				What: fmt.Sprintf("Parallelize(%d jobs, parallelism %d, cancel-on-failure=%v, failing job %d, caller-cancel=%v) returned %v while job(s) %v it had started were still running (events %s)",
					nj, sc.Par, sc.Cancel, sc.Failing, sc.Outer, perr, unfinished, strings.Join(evs, ",")), Input: in, Replay: rp})
		}
		if len(lateStart) > 0 {
			run.Fail(hx.OracleFailure{Class: "parallelize-job-started-after-return",
				What: fmt.Sprintf("Parallelize(%d jobs, parallelism %d, cancel-on-failure=%v, failing job %d, caller-cancel=%v) had returned %v when job(s) %v started (events %s)",
					nj, sc.Par, sc.Cancel, sc.Failing, sc.Outer, perr, lateStart, strings.Join(evs, ",")), Input: in, Replay: rp})
		}
		if len(running) > 0 {
			run.Fail(hx.OracleFailure{Class: "parallelize-job-never-finished",
				What: fmt.Sprintf("job(s) %v were still running 2 s after their gate had opened (events %s)", running, strings.Join(evs, ",")), Input: in, Replay: rp})
		}
		// the verdict, as in part A
		// (caller-cancel: an error only if the dispatch loop saw the cancellation — not determined)
		if !sc.Outer && (perr != nil) != (sc.Failing >= 0) {
			run.Fail(hx.OracleFailure{Class: "parallelize-verdict", What: fmt.Sprintf("Parallelize returned err=%v for scenario %+v", perr, sc), Input: in, Replay: rp})
		}
		if !sc.Cancel && !sc.Outer && nStarted != nj {
			run.Fail(hx.OracleFailure{Class: "parallelize-skipped-job", What: fmt.Sprintf("%d of %d jobs were started although cancel-on-failure is off", nStarted, nj), Input: in, Replay: rp})
		}
	}
}
