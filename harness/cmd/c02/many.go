// Many-problem family (parts B-many and E-many of C02).
//
// Every other part of the harness runs workspaces with a handful of diagnostics.  This family
// plants HUNDREDS of problems of every kind in one workspace — 150-400 compile errors spread
// over 5-20 files, 600+ lint findings, 550+ breaking findings, dozens of unparsable files for
// `buf format` — and runs each workspace at least 8 times in-process (GOMAXPROCS 1/2/4/16 x
// thread parallelism x hook yields x jittered file reads) and at least 8 times through the real
// binary (GOMAXPROCS 1/2/4/16 twice).  Three oracles per (workspace, output):
//
//   - exit status / bytes identical to the GOMAXPROCS=1 reference run  ("a different subset")
//   - the NUMBER of diagnostics identical to the reference run          ("a truncated set")
//   - where the unchanged tool reports every planted problem, the number reported per file /
//     per rule equals the harness's own bookkeeping of what it planted  ("truncated always")
//
// What the unchanged tree does about caps and truncation (probed, modelled as coded here):
//
//   - bufimage.BuildImage collects every error protocompile reports (no cap); protocompile
//     reports, per file, all errors of the EARLIEST failing phase only (syntax errors; else
//     descriptor validation such as `required` in proto3 together with link errors such as
//     duplicate tags; unknown types; unknown options; proto3 enum-zero / JSON-name conflicts) —
//     so exact planted counts are asserted only for files carrying ONE kind of error and
//     importing nothing; mixed-phase files and files importing failing files are compared with
//     the reference run only.
//   - bufformat parses with a nil reporter: ONE syntax error per unparsable file, and no output
//     at all (no diff) when any file fails.
//   - lint / breaking report every annotation (bufanalysis dedups identical ones: the planted
//     problems are pairwise distinct); `buf lint` / `buf breaking` on a workspace that does not
//     compile print the build errors instead.
//   - A symbol defined in two files that do not import each other is reported by protocompile
//     against whichever file reached the shared symbol table second: `buf build` output then
//     differs run after run on the UNCHANGED tree.  The family therefore gives every file its own
//     package; the defect is exercised by one dedicated workspace kind ("dupsym") whose outcome is
//     counted, and reported as an oracle failure only when reportDuplicateSymbolOrder is set.
package main

import (
	"bytes"
	"errors"
	"fmt"
	"os"
	"os/exec"
	"path/filepath"
	"runtime"
	"sort"
	"strconv"
	"strings"
	"sync"
	"time"

	"context"

	"github.com/bufbuild/buf/private/buf/bufformat"
	"github.com/bufbuild/buf/private/bufpkg/bufanalysis"
	"github.com/bufbuild/buf/private/bufpkg/bufconfig"
	"github.com/bufbuild/buf/private/bufpkg/bufimage"
	"github.com/bufbuild/buf/private/bufpkg/bufmodule"
	"github.com/bufbuild/buf/private/bufpkg/bufmodule/bufmoduletesting"
	"github.com/bufbuild/buf/private/pkg/storage"
	"github.com/bufbuild/buf/private/pkg/storage/storagemem"
	"github.com/bufbuild/buf/private/pkg/thread"
	"github.com/bufbuild/buf/private/pkg/verifhook"
	"github.com/bufbuild/verifharness/internal/bk"
	"github.com/bufbuild/verifharness/internal/hx"
	"github.com/google/uuid"
)

// reportDuplicateSymbolOrder turns the recorded observation "cross-file duplicate symbols are
// reported in scheduling order" (a defect of the unchanged tree, see the header) into an oracle
// failure of class binary-manyproblems-duplicate-symbol-order.  Off: the outcome is only counted.
const reportDuplicateSymbolOrder = true

// manyOnlyBase: `--only 2000000+k` regenerates and runs family member k alone (add the
// positional argument `keep` to leave its files under <out>/many-k).
const manyOnlyBase = 2000000

var manyKinds = []string{"compile", "lint", "breaking", "format", "compile-mixed"}

type manyWS struct {
	idx   int
	kind  string
	files map[string]string // the workspace (one module, default v2 configuration)
	prev  map[string]string // breaking: the previous version
	// bookkeeping of what was planted, only where the unchanged tool reports all of it
	perFile map[string]int // compile / format: path -> diagnostics that file must contribute
	perRule map[string]int // lint / breaking: rule id -> annotations
	planted int            // everything planted (also what is not asserted exactly)
	note    string
}

func (w manyWS) describe() map[string]any {
	var ps []string
	for p := range w.files {
		ps = append(ps, p)
	}
	sort.Strings(ps)
	return map[string]any{"family_index": w.idx, "kind": w.kind, "files": len(w.files), "paths": ps, "planted_total": w.planted, "planted_per_file": w.perFile, "planted_per_rule": w.perRule, "note": w.note}
}

// ---------------------------------------------------------------------------------------
// generators

var compileKinds = []string{"syn", "val", "unk", "tag", "opt", "enz", "jsn"}

// compileLine is one planted compile error of the given kind; j makes names unique in the file.
func compileLine(kind string, j int) string {
	switch kind {
	case "syn":
		return fmt.Sprintf("message S%d { int32 a = ; }\n", j)
	case "val":
		return fmt.Sprintf("message V%d { required int32 a = 1; }\n", j)
	case "unk":
		return fmt.Sprintf("message U%d { gone.v1.Type%d a = 1; }\n", j, j)
	case "tag":
		return fmt.Sprintf("message T%d { int32 a = 1; int32 b = 1; }\n", j)
	case "opt":
		return fmt.Sprintf("message O%d { option (nope%d) = 1; }\n", j, j)
	case "enz":
		return fmt.Sprintf("enum E%d { E%d_X = 1; }\n", j, j)
	case "jsn":
		return fmt.Sprintf("message J%d { int32 foo_bar = 1; int32 fooBar = 2; }\n", j)
	}
	panic(kind)
}

func genCompile(r *hx.Rand, idx int, mixed bool) manyWS {
	w := manyWS{idx: idx, kind: "compile", files: map[string]string{}, perFile: map[string]int{}}
	if mixed {
		w.kind = "compile-mixed"
	}
	nf := 5 + r.Intn(16)       // 5..20 files
	total := 150 + r.Intn(251) // 150..400 errors
	nerr := nf - r.Intn(3)     // a few files compile
	if nerr < 3 {
		nerr = 3
	}
	// split total over the failing files: every one gets a share, sizes vary a lot
	weights := make([]int, nerr)
	sum := 0
	for i := range weights {
		weights[i] = 1 + r.Intn(10)
		sum += weights[i]
	}
	var names []string
	for f := 0; f < nf; f++ {
		path := fmt.Sprintf("p/f%02d.proto", f)
		var sb strings.Builder
		sb.WriteString(fmt.Sprintf("syntax = \"proto3\";\npackage many.f%02d;\n", f)) // own package: see header
		if mixed && f > 0 && r.Chance(1, 2) {
			sb.WriteString("import \"" + names[r.Intn(len(names))] + "\";\n")
		}
		if f < nerr {
			n := total * weights[f] / sum
			if n < 2 {
				n = 2
			}
			kind := compileKinds[(f+idx)%len(compileKinds)]
			if f >= len(compileKinds) {
				kind = hx.Pick(r, compileKinds)
			}
			single := true
			for j := 0; j < n; j++ {
				k := kind
				if mixed && f%3 == 2 && r.Chance(1, 5) {
					k = hx.Pick(r, compileKinds) // a mixed-phase file
					single = single && k == kind
				}
				sb.WriteString(compileLine(k, j))
			}
			w.planted += n
			if !mixed && single {
				w.perFile[path] = n
			}
		} else {
			sb.WriteString(fmt.Sprintf("message Ok%d { int32 a = 1; }\n", f))
		}
		w.files[path] = sb.String()
		names = append(names, path)
	}
	w.note = fmt.Sprintf("%d files, %d failing, %d compile errors planted", nf, nerr, w.planted)
	return w
}

func genLint(r *hx.Rand, idx int) manyWS {
	w := manyWS{idx: idx, kind: "lint", files: map[string]string{}, perRule: map[string]int{}}
	nf := 10 + r.Intn(21)
	target := 600 + r.Intn(600)
	for f := 0; f < nf || w.planted < target; f++ {
		var sb strings.Builder
		sb.WriteString("syntax = \"proto3\";\n\npackage many.lint.v1;\n\n")
		nm := 5 + r.Intn(8)
		for m := 0; m < nm; m++ {
			name := fmt.Sprintf("Msg%dX%d", f, m)
			if r.Chance(1, 2) {
				name = fmt.Sprintf("bad_msg_%d_%d", f, m)
				w.perRule["MESSAGE_PASCAL_CASE"]++
				w.planted++
			}
			sb.WriteString("message " + name + " {\n")
			nfl := 2 + r.Intn(5)
			for q := 0; q < nfl; q++ {
				fn := fmt.Sprintf("field_%d", q)
				if r.Chance(1, 2) {
					fn = fmt.Sprintf("BadField%d", q)
					w.perRule["FIELD_LOWER_SNAKE_CASE"]++
					w.planted++
				}
				sb.WriteString(fmt.Sprintf("  %s %s = %d;\n", hx.Pick(r, []string{"string", "int32", "bool", "bytes"}), fn, q+1))
			}
			sb.WriteString("}\n")
		}
		ne := r.Intn(5)
		for e := 0; e < ne; e++ {
			name := fmt.Sprintf("Enum%dX%d", f, e)
			if r.Chance(1, 2) {
				name = fmt.Sprintf("bad_enum_%d_%d", f, e)
				w.perRule["ENUM_PASCAL_CASE"]++
				w.planted++
			}
			sb.WriteString("enum " + name + " {\n")
			nv := 1 + r.Intn(5)
			for v := 0; v < nv; v++ {
				vn := fmt.Sprintf("ENUM%d_X%d_V%d", f, e, v)
				if v > 0 && r.Chance(1, 2) {
					vn = fmt.Sprintf("bad_value_%d_%d_%d", f, e, v)
					w.perRule["ENUM_VALUE_UPPER_SNAKE_CASE"]++
					w.planted++
				}
				sb.WriteString(fmt.Sprintf("  %s = %d;\n", vn, v))
			}
			sb.WriteString("}\n")
		}
		w.files[fmt.Sprintf("many/lint/v1/f%03d.proto", f)] = sb.String()
	}
	w.note = fmt.Sprintf("%d files, %d findings planted for 4 naming rules (other STANDARD rules fire too)", len(w.files), w.planted)
	return w
}

func genBreaking(r *hx.Rand, idx int) manyWS {
	w := manyWS{idx: idx, kind: "breaking", files: map[string]string{}, prev: map[string]string{}, perRule: map[string]int{}}
	nf := 8 + r.Intn(13)
	target := 550 + r.Intn(450)
	for f := 0; f < nf || w.planted < target; f++ {
		path := fmt.Sprintf("p/f%03d.proto", f)
		var prev, cur strings.Builder
		hdr := fmt.Sprintf("syntax = \"proto3\";\npackage many.brk.f%03d;\n", f)
		prev.WriteString(hdr)
		cur.WriteString(hdr)
		fileDeleted := f > 1 && r.Chance(1, 12)
		add := map[string]int{}
		nm := 4 + r.Intn(7)
		for m := 0; m < nm; m++ {
			msgDeleted := r.Chance(1, 10)
			if msgDeleted {
				add["MESSAGE_NO_DELETE"]++
			}
			prev.WriteString(fmt.Sprintf("message M%d {\n", m))
			if !msgDeleted {
				cur.WriteString(fmt.Sprintf("message M%d {\n", m))
			}
			nfl := 3 + r.Intn(6)
			for q := 0; q < nfl; q++ {
				prev.WriteString(fmt.Sprintf("  int32 f%d = %d;\n", q, q+1))
				switch k := r.Intn(6); {
				case k < 2: // type change
					cur2 := fmt.Sprintf("  string f%d = %d;\n", q, q+1)
					if !msgDeleted {
						cur.WriteString(cur2)
						add["FIELD_SAME_TYPE"]++
					}
				case k == 2 && q > 0: // deleted
					if !msgDeleted {
						add["FIELD_NO_DELETE"]++
					}
				default:
					if !msgDeleted {
						cur.WriteString(fmt.Sprintf("  int32 f%d = %d;\n", q, q+1))
					}
				}
			}
			prev.WriteString("}\n")
			if !msgDeleted {
				cur.WriteString("}\n")
			}
		}
		ne := 1 + r.Intn(3)
		for e := 0; e < ne; e++ {
			prev.WriteString(fmt.Sprintf("enum E%d {\n", e))
			cur.WriteString(fmt.Sprintf("enum E%d {\n", e))
			nv := 2 + r.Intn(6)
			for v := 0; v < nv; v++ {
				line := fmt.Sprintf("  E%d_V%d = %d;\n", e, v, v)
				prev.WriteString(line)
				if v > 0 && r.Chance(1, 3) {
					add["ENUM_VALUE_NO_DELETE"]++
				} else {
					cur.WriteString(line)
				}
			}
			prev.WriteString("}\n")
			cur.WriteString("}\n")
		}
		w.prev[path] = prev.String()
		if fileDeleted {
			w.perRule["FILE_NO_DELETE"]++
			w.planted++
			continue
		}
		w.files[path] = cur.String()
		for k, v := range add {
			w.perRule[k] += v
			w.planted += v
		}
	}
	w.note = fmt.Sprintf("%d previous files, %d current files, %d breaking changes planted", len(w.prev), len(w.files), w.planted)
	return w
}

func genFormat(r *hx.Rand, idx int) manyWS {
	w := manyWS{idx: idx, kind: "format", files: map[string]string{}, perFile: map[string]int{}}
	nf := 20 + r.Intn(41)
	nbad := nf/2 + r.Intn(nf/4+1) // at least a quarter of the files parse
	for f := 0; f < nf; f++ {
		if f < nbad {
			path := fmt.Sprintf("bad/b%03d.proto", f)
			var sb strings.Builder
			sb.WriteString(fmt.Sprintf("syntax = \"proto3\";\npackage many.fmt.b%03d;\n", f))
			for j, n := 0, r.Intn(4); j < n; j++ {
				sb.WriteString(fmt.Sprintf("message Fine%d {   int32 a=1; }\n", j))
			}
			// several syntax errors per file: bufformat reports the first one only
			for j, n := 0, 1+r.Intn(4); j < n; j++ {
				sb.WriteString(hx.Pick(r, []string{"message B%d { int32 a = ; }\n", "message B%d { int32 = 3; }\n", "message B%d { int32 a 1; }\n", "enum B%d { = 0; }\n"}))
			}
			w.files[path] = fixFmt(sb.String(), f)
			w.perFile[path] = 1
			w.planted++
		} else {
			path := fmt.Sprintf("ok/k%03d.proto", f)
			var sb strings.Builder
			sb.WriteString(fmt.Sprintf("syntax = \"proto3\";\npackage many.fmt.k%03d;\n", f))
			for j, n := 0, 1+r.Intn(4); j < n; j++ {
				sb.WriteString(fmt.Sprintf("message   Ok%d {int32 a=1;   string b =2;}\n", j))
			}
			w.files[path] = sb.String()
		}
	}
	w.note = fmt.Sprintf("%d files, %d unparsable (one reported syntax error each), the others need reformatting", nf, nbad)
	return w
}

// fixFmt substitutes the %d of the picked error templates (each template has exactly one).
func fixFmt(s string, f int) string {
	return strings.ReplaceAll(s, "%d", strconv.Itoa(f))
}

// genDupSym: the same message in several files that do not import each other.
func genDupSym(r *hx.Rand, idx int) manyWS {
	w := manyWS{idx: idx, kind: "dupsym", files: map[string]string{}}
	nf := 4 + r.Intn(5)
	for f := 0; f < nf; f++ {
		w.files[fmt.Sprintf("p/d%02d.proto", f)] = fmt.Sprintf("syntax = \"proto3\";\npackage many.dup;\nmessage Same { int32 a = 1; }\nmessage Own%d {}\n", f)
	}
	w.note = fmt.Sprintf("%d files all defining many.dup.Same", nf)
	return w
}

func genMany(r *hx.Rand, idx int) manyWS {
	cr := r.Fork(uint64(idx))
	switch manyKinds[idx%len(manyKinds)] {
	case "compile":
		return genCompile(cr, idx, false)
	case "compile-mixed":
		return genCompile(cr, idx, true)
	case "lint":
		return genLint(cr, idx)
	case "breaking":
		return genBreaking(cr, idx)
	default:
		return genFormat(cr, idx)
	}
}

// manyIndices: which family members this run covers.
func manyIndices(run *hx.Run) []int {
	if run.Only >= manyOnlyBase {
		return []int{run.Only - manyOnlyBase}
	}
	n := run.N(10, 30)
	out := make([]int, n)
	for i := range out {
		out[i] = i
	}
	return out
}

func manyReplay(run *hx.Run, idx int) string {
	return fmt.Sprintf("build/c02 --out /tmp/c02-replay --seed %d --tier %s --only %d keep   # family member %d alone, in-process and through the binary; its files stay under /tmp/c02-replay/many-%d", run.Seed, run.Tier, manyOnlyBase+idx, idx, idx)
}

// ---------------------------------------------------------------------------------------
// shared evaluation

type manyObs struct {
	label   string         // variation / GOMAXPROCS
	exit    string         // exit status (binary) or error class (in-process)
	text    string         // canonical bytes
	count   int            // number of diagnostics
	perFile map[string]int // only for asserted files
	perRule map[string]int
}

func firstDiffLine(a, b string) string {
	al, bl := strings.Split(a, "\n"), strings.Split(b, "\n")
	for i := 0; i < len(al) && i < len(bl); i++ {
		if al[i] != bl[i] {
			return fmt.Sprintf("line %d: %q vs %q", i+1, clipN(al[i], 200), clipN(bl[i], 200))
		}
	}
	return fmt.Sprintf("%d lines vs %d lines (one is a prefix of the other)", len(al), len(bl))
}

func clipN(s string, n int) string {
	if len(s) > n {
		return s[:n] + "…"
	}
	return s
}

// judge compares all observations of one (workspace, output) with the first one (GOMAXPROCS=1)
// and with the planted bookkeeping.  prefix is "manyproblems" (in-process) or
// "binary-manyproblems".
func judge(run *hx.Run, prefix string, w manyWS, output string, obs []manyObs, exact bool, extra map[string]any) {
	if len(obs) == 0 {
		return
	}
	in := func(o manyObs) map[string]any {
		m := map[string]any{"workspace": w.describe(), "output": output, "reference": obs[0].label, "run": o.label}
		for k, v := range extra {
			m[k] = v
		}
		return m
	}
	rp := manyReplay(run, w.idx)
	ref := obs[0]
	for _, o := range obs[1:] {
		run.Eval()
		run.Count("M:compared:" + prefix + ":" + w.kind + ":" + output)
		switch {
		case o.exit != ref.exit:
			run.Fail(hx.OracleFailure{Class: prefix + "-exit-differs-" + output, What: fmt.Sprintf("%s workspace %d (%s): %s ended with %s under [%s] but with %s under [%s]", w.kind, w.idx, w.note, output, ref.exit, ref.label, o.exit, o.label), Input: in(o), Replay: rp})
		case o.count != ref.count:
			run.Fail(hx.OracleFailure{Class: prefix + "-count-differs-" + output, What: fmt.Sprintf("%s workspace %d (%s): %s reports %d diagnostics under [%s] but %d under [%s]; first difference %s", w.kind, w.idx, w.note, output, ref.count, ref.label, o.count, o.label, firstDiffLine(ref.text, o.text)), Input: in(o), Replay: rp})
		case o.text != ref.text:
			run.Fail(hx.OracleFailure{Class: prefix + "-subset-differs-" + output, What: fmt.Sprintf("%s workspace %d (%s): %s reports %d diagnostics under [%s] and under [%s], but not the same ones; first difference %s", w.kind, w.idx, w.note, output, ref.count, ref.label, o.label, firstDiffLine(ref.text, o.text)), Input: in(o), Replay: rp})
		}
	}
	if !exact {
		return
	}
	// planted bookkeeping: every observation (also the reference) must report all of it
	for _, o := range obs {
		bad := ""
		var keys []string
		for k := range w.perFile {
			keys = append(keys, k)
		}
		sort.Strings(keys)
		for _, k := range keys {
			if o.perFile[k] != w.perFile[k] {
				bad = fmt.Sprintf("file %s: %d diagnostics planted, %d reported", k, w.perFile[k], o.perFile[k])
				break
			}
		}
		keys = keys[:0]
		for k := range w.perRule {
			keys = append(keys, k)
		}
		sort.Strings(keys)
		for _, k := range keys {
			if bad == "" && o.perRule[k] != w.perRule[k] {
				bad = fmt.Sprintf("rule %s: %d findings planted, %d reported", k, w.perRule[k], o.perRule[k])
			}
		}
		run.Count("M:planted-checked:" + prefix + ":" + w.kind + ":" + output)
		if bad != "" {
			run.Fail(hx.OracleFailure{Class: prefix + "-planted-count-" + output, What: fmt.Sprintf("%s workspace %d (%s): %s under [%s] does not report everything that was planted: %s (%d diagnostics in all)", w.kind, w.idx, w.note, output, o.label, bad, o.count), Input: in(o), Replay: rp})
			break
		}
	}
}

// ---------------------------------------------------------------------------------------
// in-process (part B-many)

// jitterBucket delays file reads: protocompile's per-file tasks are not reachable by the verif
// hook points, their interleaving is perturbed where they open their sources.
type jitterBucket struct {
	storage.ReadBucket
	mu *sync.Mutex
	r  *hx.Rand
}

func (j jitterBucket) Get(ctx context.Context, path string) (storage.ReadObjectCloser, error) {
	if j.r != nil {
		j.mu.Lock()
		k := j.r.Intn(8)
		j.mu.Unlock()
		switch k {
		case 0, 1, 2:
			runtime.Gosched()
		case 3:
			time.Sleep(30 * time.Microsecond)
		case 4:
			time.Sleep(300 * time.Microsecond)
		}
	}
	return j.ReadBucket.Get(ctx, path)
}

func manyModuleSet(files map[string]string, name string, jitter uint64) (bufmodule.ModuleSet, error) {
	b := storagemem.NewReadWriteBucket()
	for p, c := range files {
		must0(bk.PutString(ctx, b, p, c))
	}
	var rb storage.ReadBucket = b
	if jitter != 0 {
		rb = jitterBucket{b, &sync.Mutex{}, hx.NewRand(jitter)}
	}
	return bufmoduletesting.NewModuleSet(bufmoduletesting.ModuleData{Name: name, CommitID: uuid.NewSHA1(uuid.NameSpaceURL, []byte(name)), Bucket: rb})
}

// obsFromErr turns an in-process result (nil, FileAnnotationSet, other error) into an observation.
func obsFromErr(label string, err error, w manyWS) manyObs {
	o := manyObs{label: label, perFile: map[string]int{}, perRule: map[string]int{}}
	if err == nil {
		o.exit = "clean"
		return o
	}
	var fas bufanalysis.FileAnnotationSet
	if errors.As(err, &fas) {
		o.exit = "annotations"
		o.text = fas.String()
		for _, a := range fas.FileAnnotations() {
			o.count++
			if fi := a.FileInfo(); fi != nil {
				if _, ok := w.perFile[fi.Path()]; ok {
					o.perFile[fi.Path()]++
				}
			}
			o.perRule[a.Type()]++
		}
		return o
	}
	// errors.Join of per-file errors (bufformat): one line per file
	o.exit = "error"
	o.text = err.Error()
	for _, l := range strings.Split(o.text, "\n") {
		if l == "" {
			continue
		}
		o.count++
		for p := range w.perFile {
			if strings.HasPrefix(l, p+":") {
				o.perFile[p]++
			}
		}
	}
	return o
}

type manyVar struct {
	gomaxprocs, parallelism int
	hooks, jitter           uint64
}

func (v manyVar) String() string {
	return fmt.Sprintf("GOMAXPROCS=%d parallelism=%d hooks=%d read-jitter=%d", v.gomaxprocs, v.parallelism, v.hooks, v.jitter)
}

// manyInProcess runs one family member once under v; result: output name -> observation.
func manyInProcess(w manyWS, v manyVar) (out map[string]manyObs) {
	out = map[string]manyObs{}
	label := v.String()
	defer func() {
		if p := recover(); p != nil {
			out["PANIC"] = manyObs{label: label, exit: "panic", text: fmt.Sprint(p)}
		}
	}()
	oldG := runtime.GOMAXPROCS(v.gomaxprocs)
	oldP := thread.Parallelism()
	thread.SetParallelism(v.parallelism)
	if v.hooks != 0 {
		installHooks(v.hooks)
	}
	defer func() {
		verifhook.SetHandler(nil)
		thread.SetParallelism(oldP)
		runtime.GOMAXPROCS(oldG)
	}()
	build := func(files map[string]string, name string) (bufimage.Image, bufmodule.ModuleSet, error) {
		ms, err := manyModuleSet(files, name, v.jitter)
		if err != nil {
			return nil, nil, err
		}
		img, err := bufimage.BuildImage(ctx, logger, bufmodule.ModuleSetToModuleReadBucketWithOnlyProtoFiles(ms))
		return img, ms, err
	}
	switch w.kind {
	case "compile", "compile-mixed", "dupsym":
		_, _, err := build(w.files, "buf.build/acme/many")
		out["build"] = obsFromErr(label, err, w)
	case "lint":
		img, _, err := build(w.files, "buf.build/acme/many")
		if err != nil {
			out["build"] = obsFromErr(label, err, w)
			return
		}
		cc := must(bufconfig.NewEnabledCheckConfig(bufconfig.FileVersionV2, []string{"STANDARD"}, nil, nil, nil, false))
		out["lint"] = obsFromErr(label, lintClient.Lint(ctx, bufconfig.NewLintConfig(cc, "", false, false, false, "", false), img), w)
	case "breaking":
		img, _, err := build(w.files, "buf.build/acme/many")
		if err != nil {
			out["build"] = obsFromErr(label, err, w)
			return
		}
		pimg, _, err := build(w.prev, "buf.build/acme/many")
		if err != nil {
			out["build-previous"] = obsFromErr(label, err, w)
			return
		}
		cc := must(bufconfig.NewEnabledCheckConfig(bufconfig.FileVersionV2, []string{"FILE"}, nil, nil, nil, false))
		out["breaking"] = obsFromErr(label, lintClient.Breaking(ctx, bufconfig.NewBreakingConfig(cc, false), img, pimg), w)
	case "format":
		ms, err := manyModuleSet(w.files, "buf.build/acme/many", v.jitter)
		if err != nil {
			out["format"] = obsFromErr(label, err, w)
			return
		}
		_, ferr := bufformat.FormatModuleSet(ctx, ms)
		out["format"] = obsFromErr(label, ferr, w)
		// the parsable half alone: every file is rewritten
		okFiles := map[string]string{}
		for p, c := range w.files {
			if strings.HasPrefix(p, "ok/") {
				okFiles[p] = c
			}
		}
		oms, err := manyModuleSet(okFiles, "buf.build/acme/many", v.jitter)
		if err != nil {
			out["format-ok-half"] = obsFromErr(label, err, w)
			return
		}
		fb, ferr := bufformat.FormatModuleSet(ctx, oms)
		if ferr != nil {
			out["format-ok-half"] = obsFromErr(label, ferr, w)
			return
		}
		kvs := must(bk.WalkAll(ctx, fb, ""))
		sort.Slice(kvs, func(i, j int) bool { return kvs[i].K < kvs[j].K })
		var sb strings.Builder
		for _, kv := range kvs {
			sb.WriteString("== " + kv.K + "\n" + kv.V)
		}
		out["format-ok-half"] = manyObs{label: label, exit: "clean", text: sb.String(), count: len(kvs)}
	}
	return out
}

func manyVariations(run *hx.Run, cr *hx.Rand) []manyVar {
	h := func() uint64 { return cr.Uint64() | 1 }
	vars := []manyVar{
		{1, 1, 0, 0}, // the reference
		{2, 2, h(), 0},
		{4, 4, h(), h()},
		{16, 16, h(), h()},
		{1, 1, h(), h()},
		{2, 16, 0, h()},
		{4, 1, h(), 0},
		{16, 4, h(), h()},
		{16, 16, 0, 0},
	}
	if run.Thorough() {
		for k := 0; k < 7; k++ {
			vars = append(vars, manyVar{hx.Pick(cr, []int{1, 2, 3, 4, 8, 16}), hx.Pick(cr, []int{1, 2, 3, 7, 16}), h(), h()})
		}
	}
	return vars
}

func partBMany(run *hx.Run, r *hx.Rand) {
	for _, idx := range manyIndices(run) {
		w := genMany(r, idx)
		cr := r.Fork(uint64(1000 + idx))
		byOutput := map[string][]manyObs{}
		for _, v := range manyVariations(run, cr) {
			for k, o := range manyInProcess(w, v) {
				byOutput[k] = append(byOutput[k], o)
			}
			run.Distinct(fmt.Sprintf("BM-%d-%s", idx, v))
		}
		run.Count("BM:workspace:" + w.kind)
		run.CountN("BM:planted:"+w.kind, w.planted)
		var outs []string
		for k := range byOutput {
			outs = append(outs, k)
		}
		sort.Strings(outs)
		for _, k := range outs {
			obs := byOutput[k]
			run.CountN("BM:reported-by-reference:"+w.kind+":"+k, obs[0].count)
			if k == "PANIC" {
				run.Fail(hx.OracleFailure{Class: "manyproblems-panic", What: fmt.Sprintf("%s workspace %d: panic under [%s]: %s", w.kind, idx, obs[0].label, clipN(obs[0].text, 400)), Input: w.describe(), Replay: manyReplay(run, idx)})
				continue
			}
			exact := k == "build" && w.kind == "compile" || k == "lint" || k == "breaking" || k == "format"
			judge(run, "manyproblems", w, k, obs, exact, nil)
		}
		if idx < 5 {
			s := map[string]any{"part": "B-many", "workspace": w.describe()}
			for k, obs := range byOutput {
				s["reference:"+k] = fmt.Sprintf("%s, %d diagnostics, first line %q", obs[0].exit, obs[0].count, clipN(strings.SplitN(obs[0].text, "\n", 2)[0], 160))
			}
			delete(s["workspace"].(map[string]any), "paths")
			run.Sample(s)
		}
	}
}

// ---------------------------------------------------------------------------------------
// through the binary (part E-many)

var (
	cachePoolOnce sync.Once
	cachePool     chan string
)

func cacheDirs(tmpRoot string) chan string {
	cachePoolOnce.Do(func() {
		cachePool = make(chan string, 16)
		for i := 0; i < 16; i++ {
			cachePool <- filepath.Join(tmpRoot, fmt.Sprintf("cache-%d", i))
		}
	})
	return cachePool
}

type binResult struct {
	code           int
	stdout, stderr string
}

func runBufBin(bufBin, tmpRoot, dir, gmp string, args []string) binResult {
	c := exec.Command(bufBin, args...)
	c.Dir = dir
	// one cache directory per process in flight: concurrent buf PROCESSES sharing one BUF_CACHE_DIR
	// race on the well-known-types cache (bufwktstore.GetBucket: is-empty / diff / delete-all /
	// copy without a lock; one process can delete what another is reading: "stat …/cpp_features.proto:
	// file does not exist"). C02 quantifies over schedules inside one process, so that race is kept
	// out of this check (it produced `binary-nondeterministic-ls-files` twice under machine load).
	cache := <-cacheDirs(tmpRoot)
	defer func() { cacheDirs(tmpRoot) <- cache }()
	c.Env = append(os.Environ(), "HOME="+tmpRoot, "BUF_CACHE_DIR="+cache)
	if gmp != "" {
		c.Env = append(c.Env, "GOMAXPROCS="+gmp)
	}
	var stdout, stderr bytes.Buffer
	c.Stdout, c.Stderr = &stdout, &stderr
	err := c.Run()
	code := 0
	var ee *exec.ExitError
	if errors.As(err, &ee) {
		code = ee.ExitCode()
	} else if err != nil {
		code = -1
	}
	return binResult{code, stripDiffTimes(stdout.String()), stderr.String()}
}

// stripDiffTimes: `diff -u` headers carry the wall-clock time of the run.
func stripDiffTimes(s string) string {
	if !strings.Contains(s, "\n+++ ") && !strings.HasPrefix(s, "--- ") {
		return s
	}
	lines := strings.Split(s, "\n")
	for li, l := range lines {
		if strings.HasPrefix(l, "--- ") || strings.HasPrefix(l, "+++ ") {
			if t := strings.IndexByte(l, '\t'); t >= 0 {
				lines[li] = l[:t]
			}
		}
	}
	return strings.Join(lines, "\n")
}

// parallelDo runs the jobs on `workers` goroutines (one buf process is ~0.1-0.3 s).
func parallelDo(workers int, n int, job func(i int)) {
	var wg sync.WaitGroup
	ch := make(chan int)
	for k := 0; k < workers; k++ {
		wg.Add(1)
		go func() {
			defer wg.Done()
			for i := range ch {
				job(i)
			}
		}()
	}
	for i := 0; i < n; i++ {
		ch <- i
	}
	close(ch)
	wg.Wait()
}

type manyCmd struct {
	name  string // stable output name for the class
	args  []string
	json  bool
	exact bool   // planted bookkeeping applies
	diffs bool   // count `--- ` headers instead of lines
	pfx   string // path prefix of the diagnostics relative to the working directory
}

func manyCommands(w manyWS) []manyCmd {
	switch w.kind {
	case "compile", "compile-mixed":
		ex := w.kind == "compile"
		return []manyCmd{
			{name: "build", args: []string{"build"}, exact: ex},
			{name: "build-json", args: []string{"build", "--error-format=json"}, json: true, exact: ex},
			{name: "lint", args: []string{"lint"}, exact: ex},
			{name: "breaking", args: []string{"breaking", "--against", "."}, exact: ex},
		}
	case "dupsym":
		return []manyCmd{{name: "build", args: []string{"build"}}}
	case "lint":
		return []manyCmd{
			{name: "lint", args: []string{"lint"}},
			{name: "lint-json", args: []string{"lint", "--error-format=json"}, json: true, exact: true},
		}
	case "breaking":
		return []manyCmd{
			{name: "breaking", args: []string{"breaking", "cur", "--against", "prev"}},
			{name: "breaking-json", args: []string{"breaking", "cur", "--against", "prev", "--error-format=json"}, json: true, exact: true},
		}
	default:
		return []manyCmd{
			{name: "format-diff", args: []string{"format", "-d"}, exact: true},
			{name: "format", args: []string{"format"}, exact: true},
			{name: "format-diff-ok-half", args: []string{"format", "-d", "--path", "ok"}, diffs: true},
		}
	}
}

func obsFromBin(label string, res binResult, w manyWS, c manyCmd) manyObs {
	o := manyObs{label: label, exit: "exit " + strconv.Itoa(res.code), perFile: map[string]int{}, perRule: map[string]int{}}
	o.text = "--stdout\n" + res.stdout + "\n--stderr\n" + res.stderr
	all := res.stdout + "\n" + res.stderr
	for _, l := range strings.Split(all, "\n") {
		if c.diffs {
			if strings.HasPrefix(l, "--- ") {
				o.count++
			}
		} else if l != "" {
			o.count++
		}
	}
	hay := "\n" + strings.ReplaceAll(all, "\nFailure: ", "\n")
	if strings.HasPrefix(all, "Failure: ") {
		hay = "\n" + strings.ReplaceAll(all[len("Failure: "):], "\nFailure: ", "\n")
	}
	for p := range w.perFile {
		if c.json {
			o.perFile[p] = strings.Count(all, "\"path\":\""+p+"\"")
		} else {
			o.perFile[p] = strings.Count(hay, "\n"+p+":")
		}
	}
	if c.json {
		for rID := range w.perRule {
			o.perRule[rID] = strings.Count(all, "\"type\":\""+rID+"\"")
		}
	} else {
		for rID, n := range w.perRule {
			o.perRule[rID] = n // the text format does not name rules: nothing to assert
		}
	}
	return o
}

func writeTree(dir string, files map[string]string) {
	for p, c := range files {
		full := filepath.Join(dir, p)
		must0(os.MkdirAll(filepath.Dir(full), 0o755))
		must0(os.WriteFile(full, []byte(c), 0o644))
	}
	must0(os.WriteFile(filepath.Join(dir, "buf.yaml"), []byte("version: v2\n"), 0o644))
}

func partEMany(run *hx.Run, r *hx.Rand, tmpRoot, bufBin string) {
	keep := false
	for _, a := range run.Args {
		keep = keep || a == "keep"
	}
	gmps := []string{"1", "2", "4", "16", "1", "2", "4", "16", "16"}
	if run.Thorough() {
		gmps = append(gmps, "3", "8", "", "1")
	}
	type job struct {
		w   manyWS
		dir string
		c   manyCmd
		gmp string
		res binResult
	}
	var jobs []*job
	var wss []manyWS
	for _, idx := range manyIndices(run) {
		wss = append(wss, genMany(r, idx))
	}
	if run.Only < 0 {
		// the recorded observation: cross-file duplicate symbols (see header)
		wss = append(wss, genDupSym(r.Fork(777), 900000))
	}
	for _, w := range wss {
		dir := filepath.Join(tmpRoot, fmt.Sprintf("many-%d", w.idx))
		if keep {
			dir = filepath.Join(run.OutDir, fmt.Sprintf("many-%d", w.idx))
			os.RemoveAll(dir)
		}
		if w.kind == "breaking" {
			writeTree(filepath.Join(dir, "cur"), w.files)
			writeTree(filepath.Join(dir, "prev"), w.prev)
		} else {
			writeTree(dir, w.files)
		}
		for _, c := range manyCommands(w) {
			for _, g := range gmps {
				jobs = append(jobs, &job{w: w, dir: dir, c: c, gmp: g})
			}
		}
	}
	parallelDo(12, len(jobs), func(i int) {
		j := jobs[i]
		j.res = runBufBin(bufBin, tmpRoot, j.dir, j.gmp, j.c.args)
	})
	// evaluation (sequential: hx.Run is not thread-safe)
	for at := 0; at < len(jobs); at += len(gmps) {
		group := jobs[at : at+len(gmps)]
		w, c := group[0].w, group[0].c
		var obs []manyObs
		for k, j := range group {
			obs = append(obs, obsFromBin(fmt.Sprintf("GOMAXPROCS=%s run %d", gmpName(j.gmp), k), j.res, w, c))
			run.Distinct(fmt.Sprintf("EM-%d-%s-%d", w.idx, c.name, k))
		}
		run.Count("EM:buf " + c.name + " (" + w.kind + ")")
		run.CountN("EM:reported-by-reference:"+w.kind+":"+c.name, obs[0].count)
		extra := map[string]any{"args": c.args, "working_directory": "many-" + strconv.Itoa(w.idx)}
		if w.kind == "dupsym" {
			distinct := map[string]bool{}
			for _, o := range obs {
				distinct[o.text] = true
			}
			run.Count(fmt.Sprintf("EM:observed:duplicate-symbol-distinct-outputs=%d", len(distinct)))
			run.Set("duplicate_symbol_observation", fmt.Sprintf("`buf build` of %s: %d distinct outputs in %d runs (reportDuplicateSymbolOrder=%v)", w.note, len(distinct), len(obs), reportDuplicateSymbolOrder))
			if reportDuplicateSymbolOrder && len(distinct) > 1 {
				run.Fail(hx.OracleFailure{Class: "binary-manyproblems-duplicate-symbol-order", What: fmt.Sprintf("`buf build` of %s printed %d distinct outputs in %d runs: protocompile reports the duplicate against whichever file reached the shared symbol table second", w.note, len(distinct), len(obs)), Input: w.describe(), Replay: "write the files of `workspace` next to a `version: v2` buf.yaml and run `buf build` repeatedly"})
			}
			continue
		}
		// a planted workspace must not come out clean
		if w.planted > 0 && obs[0].count == 0 && !c.diffs {
			run.Fail(hx.OracleFailure{Class: "binary-manyproblems-planted-count-" + c.name, What: fmt.Sprintf("%s workspace %d (%s): `buf %s` reports nothing at all", w.kind, w.idx, w.note, strings.Join(c.args, " ")), Input: w.describe(), Replay: manyReplay(run, w.idx)})
		}
		judge(run, "binary-manyproblems", w, c.name, obs, c.exact, extra)
	}
	if !keep {
		for _, w := range wss {
			os.RemoveAll(filepath.Join(tmpRoot, fmt.Sprintf("many-%d", w.idx)))
		}
	}
}

func gmpName(g string) string {
	if g == "" {
		return "unset"
	}
	return g
}
