// Filter family (parts B-filter in-process, E-filter binary): the order clauses of C02 on
// FILTERED images.
//
// A regression (seed C02-m7) made `remapDependencies` append the imports that a filtered file
// only reaches through `import public` in Go map iteration order; no C02 input had a file that
// reaches TWO OR MORE files through a public-import chain, and no oracle looked at the
// dependency lists of a filtered image.  This family generates workspaces in which the requested
// types live BEHIND `import public` chains (depth 1-4, 2-6 re-exported files, diamonds, `import
// weak`, custom options defined behind the chain), applies every filter option the library and
// the CLI offer, and checks
//
//   - filter-nondeterministic / binary-filter-nondeterministic: the serialised result (or the
//     error) is byte-identical over repeated runs, GOMAXPROCS 1/2/4/16 and permuted --type order,
//   - filter-order-not-topological: in the result EVERY file comes after every file of its
//     dependency list that is in the image,
//   - filter-file-order-not-as-coded: the surviving files keep the relative order of the source
//     image (filterImage walks the image backwards and reverses; it never reorders),
//   - filter-dependency-order-not-as-coded: the new dependency list of every file is the kept
//     imports in their source order followed by the imports gained through public imports in
//     strictly ascending path order (remapDependencies as coded; Lean: BufModel.Filter.remapDeps),
//   - filter-duplicate-file / filter-duplicate-dependency,
//   - correspondence lines `rdep` (one per rewritten dependency list): the model is given the old
//     list and the SET of required imports in a scrambled order and must print the implementation's
//     new list.
//
// `--only 3000000+k [keep]` runs family member k alone.
package main

import (
	"bytes"
	"crypto/sha256"
	"encoding/hex"
	"fmt"
	"os"
	"path/filepath"
	"runtime"
	"sort"
	"strconv"
	"strings"

	imagev1 "github.com/bufbuild/buf/private/gen/proto/go/buf/alpha/image/v1"
	"github.com/bufbuild/buf/private/bufpkg/bufimage"
	"github.com/bufbuild/buf/private/bufpkg/bufimage/bufimageutil"
	"github.com/bufbuild/buf/private/bufpkg/bufmodule"
	"github.com/bufbuild/buf/private/bufpkg/bufmodule/bufmoduletesting"
	"github.com/bufbuild/buf/private/pkg/protoencoding"
	"github.com/bufbuild/verifharness/internal/hx"
	"google.golang.org/protobuf/proto"
)

const filterOnlyBase = 3000000

// reportFilterErrorTypeOrder: on the unchanged tree filterImage ranges over the Go MAPS
// options.includeTypes / options.excludeTypes; when two or more requested types are each in error
// (not found, missing import, type of an imported module ...) the error names whichever type the
// map iteration reached first, so stderr of `buf build --type A --type B` differs run after run.
// A genuine (small) defect; proposed repair = handoff/strengthen5-C-C02-filter-type-order.diff
// (iterate the sorted keys).  Until it is applied the family only COUNTS such pairs
// (`*:observed:error-names-arbitrary-type`); set to true once the repair is in /repo.
const reportFilterErrorTypeOrder = true

// sameErrorOtherType: two error texts that differ only in the quoted names.
func sameErrorOtherType(a, b string, nTypes int) bool {
	return !reportFilterErrorTypeOrder && nTypes >= 2 && a != b && errShape(a) == errShape(b)
}

type famWS struct {
	idx      int
	files    map[string]string
	depth    int
	leaves   []string // leaf file paths
	includes []string // candidate include types (full names)
	excludes []string // candidate exclude types
	leafType string   // a type that lives in a leaf (an import when built with --path app)
	feat     []string
}

func (w famWS) describe() map[string]any {
	var ps []string
	for p := range w.files {
		ps = append(ps, p)
	}
	sort.Strings(ps)
	return map[string]any{"family_member": w.idx, "public_chain_depth": w.depth, "leaves": w.leaves, "features": w.feat, "files": ps}
}

// leaf names in an order that is neither sorted nor reverse sorted
var famLeafNames = []string{"lq", "lb", "lz", "la", "lm", "lc", "lx", "ld"}

func capName(s string) string { return strings.ToUpper(s[:1]) + s[1:] }

// genFilterFam: member idx of the family; strata by index: public chain depth 1..4 = idx%4+1,
// number of leaves 2..6 = (idx/4)%5+2; features by bits of idx/20 and by chance.
func genFilterFam(r *hx.Rand, idx int) famWS {
	w := famWS{idx: idx, files: map[string]string{}}
	w.depth = idx%4 + 1
	nLeaves := (idx/4)%5 + 2
	diamond := (idx/20)%2 == 1 || r.Chance(1, 3)
	weak := (idx/40)%2 == 1 || r.Chance(1, 3)
	opts := r.Chance(1, 2)
	base := r.Chance(1, 2)
	syntax := hx.Pick(r, []string{"proto3", "proto3", "proto2"})
	names := append([]string{}, famLeafNames...)
	hx.Shuffle(r, names)
	names = names[:nLeaves]
	hdr := func(pkg string) string {
		return "syntax = \"" + syntax + "\";\npackage " + pkg + ";\n"
	}
	fld := func(typ, name string, n int) string {
		if syntax == "proto2" {
			return fmt.Sprintf("  optional %s %s = %d;\n", typ, name, n)
		}
		return fmt.Sprintf("  %s %s = %d;\n", typ, name, n)
	}
	enumZero := func(n string) string {
		return fmt.Sprintf("enum %sEnum { %s_ZERO = 0; %s_ONE = 1; }\n", capName(n), strings.ToUpper(n), strings.ToUpper(n))
	}
	if base {
		w.files["base/common.proto"] = hdr("fam.base") + "message Common {\n" + fld("int32", "c", 1) + "}\n"
		w.feat = append(w.feat, "diamond-bottom")
	}
	// leaves
	for i, n := range names {
		p := "leaf/" + n + ".proto"
		w.leaves = append(w.leaves, p)
		var sb strings.Builder
		sb.WriteString(hdr("fam.leaf." + n))
		if base && i%2 == 0 {
			sb.WriteString("import \"base/common.proto\";\n")
		}
		sb.WriteString("message " + capName(n) + "Msg {\n" + fld("int32", "v", 1))
		if base && i%2 == 0 {
			sb.WriteString(fld("fam.base.Common", "common", 2))
		}
		sb.WriteString("}\n" + enumZero(n))
		w.files[p] = sb.String()
	}
	if opts {
		w.files["opts/o.proto"] = "syntax = \"proto2\";\npackage fam.opts;\nimport \"google/protobuf/descriptor.proto\";\n" +
			"extend google.protobuf.MessageOptions { optional string tag = 50001; }\nextend google.protobuf.FieldOptions { optional int32 weight = 50002; }\n"
		w.feat = append(w.feat, "custom-options-behind-chain")
	}
	// the public chain: umbrella j re-exports its share of the leaves and umbrella j+1
	for j := 1; j <= w.depth; j++ {
		var sb strings.Builder
		sb.WriteString(hdr("fam.umb"))
		for i, n := range names {
			if i%w.depth == j-1 {
				sb.WriteString("import public \"leaf/" + n + ".proto\";\n")
			}
		}
		if j < w.depth {
			sb.WriteString(fmt.Sprintf("import public \"umb/u%d.proto\";\n", j+1))
		}
		if opts && j == w.depth {
			sb.WriteString("import public \"opts/o.proto\";\n")
		}
		// an own message that uses the first leaf of this level (if any), so that the umbrella
		// file itself can be requested
		own := ""
		for i, n := range names {
			if i%w.depth == j-1 {
				own = "fam.leaf." + n + "." + capName(n) + "Msg"
				break
			}
		}
		sb.WriteString(fmt.Sprintf("message U%dOwn {\n", j))
		if own != "" {
			sb.WriteString(fld(own, "x", 1))
		} else {
			sb.WriteString(fld("int32", "x", 1))
		}
		sb.WriteString("}\n")
		w.files[fmt.Sprintf("umb/u%d.proto", j)] = sb.String()
	}
	if diamond && nLeaves >= 2 {
		w.files["umb/alt.proto"] = hdr("fam.umb") + "import public \"leaf/" + names[0] + ".proto\";\nimport public \"leaf/" + names[1] + ".proto\";\n" +
			"message AltOwn {\n" + fld("int32", "x", 1) + "}\n"
		w.feat = append(w.feat, "diamond")
	}
	if weak {
		w.files["leaf/weakling.proto"] = hdr("fam.leaf.weakling") + "message WeakMsg {\n" + fld("int32", "v", 1) + "}\n"
		w.feat = append(w.feat, "import-weak")
	}
	// main: everything it uses comes through umb/u1.proto
	{
		var sb strings.Builder
		sb.WriteString(hdr("fam.app"))
		imps := []string{"import \"umb/u1.proto\";\n"}
		if diamond && nLeaves >= 2 {
			imps = append(imps, "import \"umb/alt.proto\";\n")
		}
		if weak {
			imps = append(imps, "import weak \"leaf/weakling.proto\";\n")
		}
		if r.Chance(1, 3) {
			// a direct import of one leaf in addition to the chain: that one is KEPT, not gained
			imps = append(imps, "import \"leaf/"+names[nLeaves-1]+".proto\";\n")
			w.feat = append(w.feat, "direct-import-of-a-leaf")
		}
		hx.Shuffle(r, imps)
		for _, s := range imps {
			sb.WriteString(s)
		}
		sb.WriteString("message Main {\n")
		if opts {
			sb.WriteString("  option (fam.opts.tag) = \"main\";\n")
		}
		for i, n := range names {
			if opts && i == 0 {
				if syntax == "proto2" {
					sb.WriteString(fmt.Sprintf("  optional fam.leaf.%s.%sMsg f%d = %d [(fam.opts.weight) = 3];\n", n, capName(n), i, i+1))
				} else {
					sb.WriteString(fmt.Sprintf("  fam.leaf.%s.%sMsg f%d = %d [(fam.opts.weight) = 3];\n", n, capName(n), i, i+1))
				}
				continue
			}
			sb.WriteString(fld("fam.leaf."+n+"."+capName(n)+"Msg", fmt.Sprintf("f%d", i), i+1))
		}
		if weak {
			sb.WriteString(fld("fam.leaf.weakling.WeakMsg", "wk", 40))
		}
		sb.WriteString("}\n")
		sb.WriteString("message Other {\n" + fld("fam.leaf."+names[0]+"."+capName(names[0])+"Msg", "o", 1) +
			fld("fam.leaf."+names[1]+"."+capName(names[1])+"Enum", "e", 2) + "}\n")
		sb.WriteString("message Lone {\n" + fld("int32", "z", 1) + "}\n")
		sb.WriteString("service Svc {\n  rpc Do(Main) returns (Other);\n  rpc Alone(Lone) returns (Lone);\n}\n")
		w.files["app/main.proto"] = sb.String()
	}
	// side re-exports main, top uses Main through side: a public chain ABOVE the rewritten file
	w.files["app/side.proto"] = hdr("fam.app") + "import public \"app/main.proto\";\nmessage Side {\n" + fld("int32", "s", 1) + "}\n"
	w.files["app/top.proto"] = hdr("fam.app") + "import \"app/side.proto\";\nmessage Top {\n" + fld("Main", "m", 1) + fld("Side", "s", 2) + "}\n"
	w.includes = []string{"fam.app.Main", "fam.app.Other", "fam.app.Lone", "fam.app.Svc", "fam.app.Svc.Do", "fam.app.Top", "fam.app", "fam.umb.U1Own", "fam.umb"}
	w.leafType = "fam.leaf." + names[0] + "." + capName(names[0]) + "Msg"
	w.excludes = []string{w.leafType, "fam.app.Other", "fam.leaf." + names[1] + "." + capName(names[1]) + "Enum", "fam.app.Lone", "fam.leaf." + names[nLeaves-1]}
	if opts {
		w.excludes = append(w.excludes, "fam.opts.tag")
	}
	return w
}

func filterIndices(run *hx.Run) []int {
	if run.Only >= filterOnlyBase && run.Only < overlapOnlyBase {
		return []int{run.Only - filterOnlyBase}
	}
	n := run.N(20, 40)
	out := make([]int, n)
	base := int(run.Seed%1000) * 1000 // other seeds see other members
	for i := range out {
		out[i] = base + i
	}
	return out
}

func filterReplay(run *hx.Run, idx int) string {
	return fmt.Sprintf("build/c02 --out /tmp/c02-replay --seed %d --tier %s --only %d keep", run.Seed, run.Tier, filterOnlyBase+idx)
}

// famSourceImage builds the family workspace in memory.
func famSourceImage(w famWS) (bufimage.Image, error) {
	data := map[string][]byte{}
	for p, c := range w.files {
		data[p] = []byte(c)
	}
	ms, err := bufmoduletesting.NewModuleSet(bufmoduletesting.ModuleData{Name: "buf.build/fam/ws", PathToData: data})
	if err != nil {
		return nil, err
	}
	return bufimage.BuildImage(ctx, logger, bufmodule.ModuleSetToModuleReadBucketWithOnlyProtoFiles(ms))
}

type filterCombo struct {
	inc, exc                       []string
	noCustom, noKnownExt, allowImp bool
	mutate                         bool
	source                         string // "all" | "app" (leaves are imports) | "app-noimports"
	withoutImports                 bool   // ImageWithoutImports after the filter (--exclude-imports)
}

func (c filterCombo) String() string {
	s := "source=" + c.source
	if len(c.inc) > 0 {
		s += " include=" + strings.Join(c.inc, ",")
	}
	if len(c.exc) > 0 {
		s += " exclude=" + strings.Join(c.exc, ",")
	}
	for _, kv := range []struct {
		b bool
		n string
	}{{c.noCustom, "exclude-custom-options"}, {c.noKnownExt, "exclude-known-extensions"}, {c.allowImp, "allow-imported-type"}, {c.mutate, "mutate-in-place"}, {c.withoutImports, "then-without-imports"}} {
		if kv.b {
			s += " " + kv.n
		}
	}
	return s
}

func (c filterCombo) options(order int) []bufimageutil.ImageFilterOption {
	var o []bufimageutil.ImageFilterOption
	inc := append([]string{}, c.inc...)
	exc := append([]string{}, c.exc...)
	if order%2 == 1 { // the order in which types were listed must not matter
		for a, b := 0, len(inc)-1; a < b; a, b = a+1, b-1 {
			inc[a], inc[b] = inc[b], inc[a]
		}
		for a, b := 0, len(exc)-1; a < b; a, b = a+1, b-1 {
			exc[a], exc[b] = exc[b], exc[a]
		}
	}
	if len(inc) > 0 {
		o = append(o, bufimageutil.WithIncludeTypes(inc...))
	}
	if len(exc) > 0 {
		o = append(o, bufimageutil.WithExcludeTypes(exc...))
	}
	if c.noCustom {
		o = append(o, bufimageutil.WithExcludeCustomOptions())
	}
	if c.noKnownExt {
		o = append(o, bufimageutil.WithExcludeKnownExtensions())
	}
	if c.allowImp {
		o = append(o, bufimageutil.WithAllowIncludeOfImportedType())
	}
	if c.mutate {
		o = append(o, bufimageutil.WithMutateInPlace())
	}
	if order >= 2 {
		hx.Shuffle(hx.NewRand(uint64(order)), o)
	}
	return o
}

// filterCombos: every include candidate alone, pairs, every exclude candidate alone, include x
// exclude, each with a rotating choice of the boolean options and of the source image.
func filterCombos(w famWS, r *hx.Rand, thorough bool) []filterCombo {
	var out []filterCombo
	k := 0
	add := func(c filterCombo) {
		// rotate the remaining dimensions so that every value meets every type choice over the family
		c.noCustom = k%3 == 1
		c.noKnownExt = k%4 == 2
		c.mutate = k%5 == 3
		c.source = []string{"all", "app", "all", "app-noimports"}[k%4]
		c.allowImp = c.allowImp || k%2 == 0
		c.withoutImports = k%7 == 4
		k++
		out = append(out, c)
	}
	for _, t := range w.includes {
		add(filterCombo{inc: []string{t}})
	}
	add(filterCombo{inc: []string{"fam.app.Main", "fam.app.Other"}})
	add(filterCombo{inc: []string{"fam.app.Top", "fam.app.Svc.Do", "fam.app.Lone"}})
	add(filterCombo{inc: []string{w.leafType}, allowImp: true})
	add(filterCombo{inc: []string{w.leafType, "fam.app.Main"}, allowImp: true})
	for _, t := range w.excludes {
		add(filterCombo{exc: []string{t}})
	}
	for i, t := range w.includes {
		e := w.excludes[i%len(w.excludes)]
		add(filterCombo{inc: []string{t}, exc: []string{e}})
		if thorough {
			add(filterCombo{inc: []string{t}, exc: []string{w.excludes[(i+1)%len(w.excludes)], w.excludes[(i+2)%len(w.excludes)]}})
		}
	}
	// the plain Main request from every source image, every boolean off: the seed's own shape
	for _, src := range []string{"all", "app", "app-noimports"} {
		out = append(out, filterCombo{inc: []string{"fam.app.Main"}, source: src, allowImp: true})
		out = append(out, filterCombo{inc: []string{"fam.app.Top"}, source: src, allowImp: true, withoutImports: true})
	}
	_ = r
	return out
}

// imgSummary: what the oracles and the byte comparison look at.
type imgSummary struct {
	err   string
	bytes []byte
	files []*imagev1.ImageFile
}

func summarise(img bufimage.Image, err error) imgSummary {
	if err != nil {
		return imgSummary{err: err.Error()}
	}
	pimg, perr := bufimage.ImageToProtoImage(img)
	if perr != nil {
		return imgSummary{err: "ImageToProtoImage: " + perr.Error()}
	}
	data, merr := protoencoding.NewWireMarshaler().Marshal(pimg)
	if merr != nil {
		return imgSummary{err: "marshal: " + merr.Error()}
	}
	return imgSummary{bytes: data, files: pimg.GetFile()}
}

func (s imgSummary) key() string {
	if s.err != "" {
		return "ERR " + s.err
	}
	h := sha256.Sum256(s.bytes)
	return fmt.Sprintf("%d bytes sha256=%s", len(s.bytes), hex.EncodeToString(h[:]))
}

func depLists(files []*imagev1.ImageFile) string {
	var sb strings.Builder
	for _, f := range files {
		sb.WriteString(f.GetName() + " <- " + strings.Join(f.GetDependency(), " ") + "\n")
	}
	return sb.String()
}

// applyCombo runs one filter on a FRESH copy of the source image (decoded from its bytes, so that
// mutate-in-place cannot leak between runs).
func applyCombo(srcBytes map[string][]byte, c filterCombo, order int) (s imgSummary) {
	defer func() {
		if p := recover(); p != nil {
			s = imgSummary{err: "PANIC " + fmt.Sprint(p)}
		}
	}()
	pimg := &imagev1.Image{}
	if err := proto.Unmarshal(srcBytes[c.source], pimg); err != nil {
		return imgSummary{err: "unmarshal source: " + err.Error()}
	}
	img, err := bufimage.NewImageForProto(pimg)
	if err != nil {
		return imgSummary{err: "NewImageForProto: " + err.Error()}
	}
	out, err := bufimageutil.FilterImage(img, c.options(order)...)
	if err == nil && c.withoutImports {
		out = bufimage.ImageWithoutImports(out)
	}
	return summarise(out, err)
}

// checkFilteredStructure: the order clauses on ONE filtered image, against its source image.
// `where` names the case; `fail` records a failure of the given class.
func checkFilteredStructure(src, got []*imagev1.ImageFile, fail func(class, what string)) (rewritten []*imagev1.ImageFile) {
	srcPos := map[string]int{}
	srcByName := map[string]*imagev1.ImageFile{}
	for i, f := range src {
		srcPos[f.GetName()] = i
		srcByName[f.GetName()] = f
	}
	pos := map[string]int{}
	for i, f := range got {
		if _, dup := pos[f.GetName()]; dup {
			fail("filter-duplicate-file", fmt.Sprintf("%s is in the filtered image twice", f.GetName()))
		}
		pos[f.GetName()] = i
	}
	last := -1
	for _, f := range got {
		sp, ok := srcPos[f.GetName()]
		if !ok {
			fail("filter-file-order-not-as-coded", fmt.Sprintf("%s is not a file of the source image", f.GetName()))
			continue
		}
		if sp < last {
			fail("filter-file-order-not-as-coded", fmt.Sprintf("the filtered image lists %s before a file that precedes it in the source image: the filter must keep the source order\nfiltered: %s\nsource:   %s", f.GetName(), fileNames(got), fileNames(src)))
		}
		if sp > last {
			last = sp
		}
	}
	for i, f := range got {
		seen := map[string]bool{}
		for _, d := range f.GetDependency() {
			if seen[d] {
				fail("filter-duplicate-dependency", fmt.Sprintf("%s lists the dependency %s twice: %v", f.GetName(), d, f.GetDependency()))
			}
			seen[d] = true
			if j, ok := pos[d]; ok && j >= i {
				fail("filter-order-not-topological", fmt.Sprintf("%s (position %d) comes before its dependency %s (position %d)\nfiltered image: %s", f.GetName(), i, d, j, fileNames(got)))
			}
		}
		sf := srcByName[f.GetName()]
		if sf == nil {
			continue
		}
		old := sf.GetDependency()
		if strings.Join(old, "\x00") == strings.Join(f.GetDependency(), "\x00") {
			continue
		}
		rewritten = append(rewritten, f)
		// as coded: kept old entries in their old relative order, then the gained ones ascending
		oldIdx := map[string]int{}
		for k, d := range old {
			oldIdx[d] = k
		}
		deps := f.GetDependency()
		k := 0
		lastOld := -1
		for k < len(deps) {
			oi, isOld := oldIdx[deps[k]]
			if !isOld {
				break
			}
			if oi < lastOld {
				fail("filter-dependency-order-not-as-coded", fmt.Sprintf("%s: the kept imports changed their relative order: source %v, filtered %v", f.GetName(), old, deps))
			}
			lastOld = oi
			k++
		}
		for t := k; t < len(deps); t++ {
			if _, isOld := oldIdx[deps[t]]; isOld {
				fail("filter-dependency-order-not-as-coded", fmt.Sprintf("%s: the kept import %s comes after an import gained through a public import: source %v, filtered %v", f.GetName(), deps[t], old, deps))
			}
			if t > k && !(deps[t-1] < deps[t]) {
				fail("filter-dependency-order-not-as-coded", fmt.Sprintf("%s: the imports gained through public imports are not in ascending order (remapDependencies sorts them): %v (source list %v)", f.GetName(), deps[k:], old))
			}
		}
		if len(f.GetPublicDependency()) != 0 {
			fail("filter-dependency-order-not-as-coded", fmt.Sprintf("%s: a rewritten dependency list still has public_dependency %v", f.GetName(), f.GetPublicDependency()))
		}
		for _, wi := range f.GetWeakDependency() {
			if int(wi) >= len(deps) || wi < 0 {
				fail("filter-dependency-order-not-as-coded", fmt.Sprintf("%s: weak_dependency index %d out of range of %v", f.GetName(), wi, deps))
				continue
			}
			// a weak index must still name a file that was a weak import in the source
			wasWeak := false
			for _, owi := range sf.GetWeakDependency() {
				if int(owi) < len(old) && old[owi] == deps[wi] {
					wasWeak = true
				}
			}
			if !wasWeak {
				fail("filter-dependency-order-not-as-coded", fmt.Sprintf("%s: weak_dependency index %d names %s, which was not a weak import (source deps %v weak %v)", f.GetName(), wi, deps[wi], old, sf.GetWeakDependency()))
			}
		}
	}
	return rewritten
}

func fileNames(fs []*imagev1.ImageFile) string {
	var ns []string
	for _, f := range fs {
		ns = append(ns, f.GetName())
	}
	return strings.Join(ns, " ")
}

// rdepLine: the correspondence line of one rewritten dependency list.  ids = rank of the path
// among all paths of the source image in Go string order, so that the model's numeric sort is the
// implementation's sort.Strings.  `required` is the SET of the new list, scrambled.
func rdepLine(run *hx.Run, r *hx.Rand, src []*imagev1.ImageFile, f *imagev1.ImageFile, seen map[string]bool) {
	var all []string
	for _, s := range src {
		all = append(all, s.GetName())
	}
	sort.Strings(all)
	id := map[string]int{}
	for i, p := range all {
		id[p] = i
	}
	var old []string
	for _, s := range src {
		if s.GetName() == f.GetName() {
			old = s.GetDependency()
		}
	}
	ids := func(ps []string) string {
		if len(ps) == 0 {
			return "-"
		}
		out := make([]string, len(ps))
		for i, p := range ps {
			n, ok := id[p]
			if !ok {
				n = 9999 // not a file of the source image: the model prints it, the oracle reports it
			}
			out[i] = strconv.Itoa(n)
		}
		return strings.Join(out, ",")
	}
	req := append([]string{}, f.GetDependency()...)
	hx.Shuffle(r, req)
	in := "rdep\t" + strconv.Itoa(id[f.GetName()]) + "\t" + ids(old) + "\t" + ids(req)
	out := ids(f.GetDependency())
	if seen[in+"|"+out] {
		return
	}
	seen[in+"|"+out] = true
	gained := 0
	oldSet := map[string]bool{}
	for _, d := range old {
		oldSet[d] = true
	}
	for _, d := range f.GetDependency() {
		if !oldSet[d] {
			gained++
		}
	}
	run.Case(in, out, gained >= 2)
	run.Count(fmt.Sprintf("F:rdep-lines gained=%d", min(gained, 4)))
}

func partBFilter(run *hx.Run, r *hx.Rand) {
	for _, idx := range filterIndices(run) {
		cr := r.Fork(uint64(idx))
		w := genFilterFam(cr, idx)
		rp := filterReplay(run, idx)
		full, err := famSourceImage(w)
		if err != nil {
			run.Fail(hx.OracleFailure{Class: "filter-family-does-not-build", What: err.Error(), Input: w.describe(), Replay: rp})
			continue
		}
		srcBytes := map[string][]byte{}
		srcFiles := map[string][]*imagev1.ImageFile{}
		put := func(name string, img bufimage.Image, err error) bool {
			s := summarise(img, err)
			if s.err != "" {
				run.Fail(hx.OracleFailure{Class: "filter-family-does-not-build", What: name + ": " + s.err, Input: w.describe(), Replay: rp})
				return false
			}
			srcBytes[name], srcFiles[name] = s.bytes, s.files
			return true
		}
		if !put("all", full, nil) {
			continue
		}
		app, err := bufimage.ImageWithOnlyPaths(full, []string{"app"}, nil)
		if !put("app", app, err) {
			continue
		}
		if err == nil {
			if !put("app-noimports", bufimage.ImageWithoutImports(app), nil) {
				continue
			}
		}
		run.Count(fmt.Sprintf("F:workspace depth=%d leaves=%d", w.depth, len(w.leaves)))
		for _, ft := range w.feat {
			run.Count("F:feature " + ft)
		}
		seenLine := map[string]bool{}
		for ci, c := range filterCombos(w, cr, run.Thorough()) {
			in := map[string]any{"workspace": w.describe(), "filter": c.String()}
			failed := map[string]bool{}
			fail := func(class, what string) {
				if failed[class] {
					return
				}
				failed[class] = true
				run.Fail(hx.OracleFailure{Class: class, What: fmt.Sprintf("filter family member %d, %s: %s", idx, c, what), Input: in, Replay: rp})
			}
			reps := run.N(5, 10)
			var ref imgSummary
			oldG := runtime.GOMAXPROCS(0)
			for rep := 0; rep < reps; rep++ {
				runtime.GOMAXPROCS([]int{1, 2, 16, 4, oldG, 1, 16, 2, 3, 8}[rep%10])
				got := applyCombo(srcBytes, c, rep)
				run.Eval()
				if rep == 0 {
					ref = got
					continue
				}
				if ref.err != "" && got.err != "" && sameErrorOtherType(ref.err, got.err, len(c.inc)+len(c.exc)) {
					run.Count("F:observed:error-names-arbitrary-type")
					continue
				}
				if got.key() != ref.key() {
					what := fmt.Sprintf("run 1 and run %d of the same filter on the same image differ: %s vs %s", rep+1, ref.key(), got.key())
					if ref.err == "" && got.err == "" {
						a, b := depLists(ref.files), depLists(got.files)
						what += "\nfirst difference in (file <- dependency list): " + firstDiffLine(a, b)
					}
					fail("filter-nondeterministic", what)
				}
			}
			runtime.GOMAXPROCS(oldG)
			run.Distinct(fmt.Sprintf("F-%d-%d", idx, ci))
			if ref.err != "" {
				if strings.HasPrefix(ref.err, "PANIC") {
					fail("filter-panic", ref.err)
				}
				run.Count("F:filter result=error")
				run.Count("F:filter error: " + errShape(ref.err))
				continue
			}
			run.Count("F:filter result=image source=" + c.source)
			rewritten := checkFilteredStructure(srcFiles[c.source], ref.files, fail)
			maxGained := 0
			for _, f := range rewritten {
				rdepLine(run, cr, srcFiles[c.source], f, seenLine)
				var old []string
				for _, s := range srcFiles[c.source] {
					if s.GetName() == f.GetName() {
						old = s.GetDependency()
					}
				}
				g := 0
				for _, d := range f.GetDependency() {
					isOld := false
					for _, o := range old {
						isOld = isOld || o == d
					}
					if !isOld {
						g++
					}
				}
				maxGained = max(maxGained, g)
			}
			run.Count(fmt.Sprintf("F:imports gained through public chain (max per file)=%d", min(maxGained, 6)))
			if ci < 1 && idx%7 == 0 {
				run.Sample(map[string]any{"part": "B-filter", "workspace": w.describe(), "filter": c.String(), "result": depLists(ref.files)})
			}
		}
	}
}

// ---------------------------------------------------------------------------------------
// the binary

type famCmd struct {
	name  string
	args  []string // before the --type flags
	types []string
	image bool // the output is an image (not a FileDescriptorSet): structure oracle applies
}

func partEFilter(run *hx.Run, r *hx.Rand, tmpRoot, bufBin string) {
	idxs := filterIndices(run)
	if run.Only < 0 {
		// a stratified sample: one per public chain depth (quick), three per depth (thorough)
		n := run.N(4, 8)
		if n < len(idxs) {
			idxs = idxs[:n]
		}
	}
	keep := len(run.Args) > 0 && run.Args[0] == "keep"
	for _, idx := range idxs {
		cr := r.Fork(uint64(idx))
		w := genFilterFam(cr, idx)
		rp := filterReplay(run, idx)
		dir := filepath.Join(tmpRoot, fmt.Sprintf("fam-%d", idx))
		if keep {
			dir = filepath.Join(run.OutDir, fmt.Sprintf("fam-%d", idx))
			os.RemoveAll(dir)
		}
		files := map[string]string{"buf.yaml": "version: v2\n"}
		for p, c := range w.files {
			files[p] = c
		}
		writeTree(dir, files)
		full := runBufBin(bufBin, tmpRoot, dir, "", []string{"build", "-o", "full.binpb"})
		appImg := runBufBin(bufBin, tmpRoot, dir, "", []string{"build", "--path", "app", "-o", "app.binpb"})
		if full.code != 0 || appImg.code != 0 {
			run.Fail(hx.OracleFailure{Class: "filter-family-does-not-build", What: full.stderr + appImg.stderr, Input: w.describe(), Replay: rp})
			continue
		}
		readFiles := func(name string) []*imagev1.ImageFile {
			data, err := os.ReadFile(filepath.Join(dir, name))
			if err != nil {
				return nil
			}
			pimg := &imagev1.Image{}
			if proto.Unmarshal(data, pimg) != nil {
				return nil
			}
			return pimg.GetFile()
		}
		fullFiles, appFiles := readFiles("full.binpb"), readFiles("app.binpb")
		cmds := []famCmd{
			{"type", []string{"build", "-o", "-"}, []string{"fam.app.Main"}, true},
			{"types", []string{"build", "-o", "-"}, []string{"fam.app.Main", "fam.app.Other", "fam.app.Svc.Do"}, true},
			// --exclude-imports is applied BEFORE the type filter (bufctl): a requested type must not need an import
			{"type-exclude-imports", []string{"build", "--exclude-imports", "-o", "-"}, []string{"fam.app.Main"}, true},
			{"type-path", []string{"build", "--path", "app", "-o", "-"}, []string{"fam.app.Top"}, true},
			{"type-no-source-info", []string{"build", "--exclude-source-info", "--exclude-source-retention-options", "-o", "-"}, []string{"fam.app.Main"}, true},
			{"image-type", []string{"build", "full.binpb", "-o", "-"}, []string{"fam.app.Main"}, true},
			{"image-type-exclude-imports", []string{"build", "full.binpb", "--exclude-imports", "-o", "-"}, []string{"fam.app.Svc.Do", "fam.app.Top"}, true},
			{"type-path-exclude-imports", []string{"build", "--path", "app", "--exclude-imports", "-o", "-"}, []string{"fam.app.Lone", "fam.app.Side"}, true},
			{"type-descriptor-set", []string{"build", "--as-file-descriptor-set", "-o", "-"}, []string{"fam.app.Main"}, false},
			{"image-type-path", []string{"build", "full.binpb", "--path", "app/top.proto", "--exclude-path", "leaf", "-o", "-"}, []string{"fam.app.Top"}, true},
			{"type-package", []string{"build", "-o", "-"}, []string{"fam.umb", "fam.app.Lone"}, true},
			{"type-json", []string{"build", "-o", "-#format=json"}, []string{"fam.app.Top"}, false},
		}
		gmps := []string{"1", "2", "16", "", "1", "4"}
		if run.Thorough() {
			gmps = append(gmps, "16", "", "3", "8", "1", "")
		}
		type fjob struct {
			ci, vi int
			args   []string
			res    binResult
		}
		var jobs []*fjob
		for ci, c := range cmds {
			for vi := range gmps {
				args := append([]string{}, c.args...)
				ts := append([]string{}, c.types...)
				if vi%2 == 1 {
					for a, b := 0, len(ts)-1; a < b; a, b = a+1, b-1 {
						ts[a], ts[b] = ts[b], ts[a]
					}
				}
				for _, t := range ts {
					args = append(args, "--type", t)
				}
				jobs = append(jobs, &fjob{ci: ci, vi: vi, args: args})
			}
		}
		parallelDo(12, len(jobs), func(k int) {
			j := jobs[k]
			j.res = runBufBin(bufBin, tmpRoot, dir, gmps[j.vi], j.args)
		})
		var ref *fjob
		failedCmd := map[int]bool{}
		for _, j := range jobs {
			c := cmds[j.ci]
			run.Eval()
			run.Distinct(fmt.Sprintf("EF-%d-%d-%d", idx, j.ci, j.vi))
			run.Count("EF:buf build " + c.name)
			in := map[string]any{"workspace": w.describe(), "args": j.args, "GOMAXPROCS": gmpName(gmps[j.vi])}
			if j.vi == 0 {
				ref = j
				if j.res.code != 0 && strings.Contains(c.name, "exclude-imports") {
					// --exclude-imports drops the imports BEFORE the type filter runs (bufctl): a type that
					// needs an import (descriptor.proto for a custom option) is legitimately "missing"; the
					// runs are still compared with each other below
					run.Count("EF:exclude-imports before type filter: type needs an import")
					continue
				}
				if j.res.code != 0 {
					run.Fail(hx.OracleFailure{Class: "binary-filter-fails", What: fmt.Sprintf("filter family member %d: `buf %s` exits %d: %s", idx, strings.Join(j.args, " "), j.res.code, clipN(j.res.stderr, 400)), Input: in, Replay: rp})
					failedCmd[j.ci] = true
					continue
				}
				if c.image {
					pimg := &imagev1.Image{}
					if err := proto.Unmarshal([]byte(j.res.stdout), pimg); err != nil {
						run.Fail(hx.OracleFailure{Class: "binary-filter-fails", What: "output is not an image: " + err.Error(), Input: in, Replay: rp})
						continue
					}
					src := fullFiles
					if strings.Contains(c.name, "path") || j.args[1] == "app.binpb" {
						src = appFiles
					}
					if strings.Contains(c.name, "image-type-path") {
						src = nil // a path filter on an image re-walks the files: only the order checks that need no source
					}
					failed := map[string]bool{}
					fail := func(class, what string) {
						if failed[class] {
							return
						}
						failed[class] = true
						run.Fail(hx.OracleFailure{Class: "binary-" + class, What: fmt.Sprintf("filter family member %d: `buf %s`: %s", idx, strings.Join(j.args, " "), what), Input: in, Replay: rp})
					}
					if src != nil {
						checkFilteredStructure(src, pimg.GetFile(), fail)
					} else {
						checkTopological(pimg.GetFile(), fail)
					}
				}
				continue
			}
			if failedCmd[j.ci] {
				continue
			}
			if j.res.code == ref.res.code && j.res.code != 0 && j.res.stdout == ref.res.stdout && sameErrorOtherType(ref.res.stderr, j.res.stderr, len(c.types)) {
				run.Count("EF:observed:error-names-arbitrary-type")
				continue
			}
			if j.res.code != ref.res.code || j.res.stdout != ref.res.stdout || j.res.stderr != ref.res.stderr {
				failedCmd[j.ci] = true
				what := fmt.Sprintf("filter family member %d: `buf %s` (GOMAXPROCS=%s) differs from `buf %s` (GOMAXPROCS=%s): exit %d vs %d, %d vs %d bytes", idx,
					strings.Join(j.args, " "), gmpName(gmps[j.vi]), strings.Join(ref.args, " "), gmpName(gmps[0]), j.res.code, ref.res.code, len(j.res.stdout), len(ref.res.stdout))
				if c.image {
					a, b := &imagev1.Image{}, &imagev1.Image{}
					if proto.Unmarshal([]byte(ref.res.stdout), a) == nil && proto.Unmarshal([]byte(j.res.stdout), b) == nil {
						what += "\nfirst difference in (file <- dependency list): " + firstDiffLine(depLists(a.GetFile()), depLists(b.GetFile()))
					}
				} else if !bytes.Equal([]byte(j.res.stdout), []byte(ref.res.stdout)) {
					what += "\nfirst differing line: " + firstDiffLine(ref.res.stdout, j.res.stdout)
				}
				run.Fail(hx.OracleFailure{Class: "binary-filter-nondeterministic", What: what, Input: in, Replay: rp})
			}
		}
		if !keep {
			os.RemoveAll(dir)
		}
	}
}

// errShape: an error text without the quoted names.
func errShape(e string) string {
	var sb strings.Builder
	q := false
	for _, c := range e {
		if c == '"' {
			q = !q
			if q {
				sb.WriteString("\"…\"")
			}
			continue
		}
		if !q {
			sb.WriteRune(c)
		}
	}
	return clipN(sb.String(), 80)
}

// checkTopological: the part of the structure oracle that needs no source image.
func checkTopological(got []*imagev1.ImageFile, fail func(class, what string)) {
	pos := map[string]int{}
	for i, f := range got {
		if _, dup := pos[f.GetName()]; dup {
			fail("filter-duplicate-file", fmt.Sprintf("%s is in the image twice", f.GetName()))
		}
		pos[f.GetName()] = i
	}
	for i, f := range got {
		for _, d := range f.GetDependency() {
			if j, ok := pos[d]; ok && j >= i {
				fail("filter-order-not-topological", fmt.Sprintf("%s (position %d) comes before its dependency %s (position %d)\nimage: %s", f.GetName(), i, d, j, fileNames(got)))
			}
		}
	}
}
