// Part (iii) of the C20 harness: error VALUES through the real classification code.
//
// The exit status of every buf command is decided by three pieces of code that look at a Go error
// value with errors.As / Error(): controller.handleFileAnnotationSetRetError (bufctl),
// wrapError (cmd/buf/buf.go, the interceptor around every command) and app.GetExitCode /
// app.Run's printError.  wrapError and the controller method are unexported, so this part
// EXTRACTS their source from the working tree (go/ast), puts it verbatim into a small probe
// program next to the real packages it uses (bufanalysis, bufctl.ErrFileAnnotation, app, syserror,
// connect, bufmodule.ImportNotExistError), builds the probe and feeds it error values written in
// a small notation.  The probe constructs the REAL values (a real FileAnnotationSet, a real
// *ImportNotExistError, app.WrapError, &syserror.Error{}, connect.NewError, fmt.Errorf %w,
// errors.Join), lets the extracted code classify them, runs the result through the real app.Run /
// app.GetExitCode and reports exit status, number of printed annotations and whether a message
// was printed.  The Lean model answers the same line (`err c|d <notation>`) with its `GoErr`
// model: the classification of real errors is compared, not assumed.
//
// Two leaves are not constructed by the probe but PRODUCED by bufmodule on sources with a planted
// problem (an in-memory module, bufmoduletesting): `F` = what FileInfo.ProtoFileImports() returns
// for a file whose header statement `import ;` the pre-compile scan (fastscan) rejects - as coded
// a FileAnnotationSet with one annotation, so that a controller method prints it and the status
// is 100; `N` = what Module.ModuleDeps() returns for a file importing a file that does not exist
// - as coded an *ImportNotExistError (status 100 through wrapError).
//
// The probe also answers `imp` lines (imports.go, part vii b): a whole module set given by its
// sources goes through the real bufimage.BuildImage and ModuleDeps(), the errors they return through
// the same extracted classification code.
package main

import (
	"bytes"
	"fmt"
	"go/ast"
	"go/parser"
	"go/printer"
	"go/token"
	"os"
	"os/exec"
	"path"
	"path/filepath"
	"regexp"
	"sort"
	"strconv"
	"strings"

	"github.com/bufbuild/verifharness/internal/hx"
)

func repoDir() string {
	if r := os.Getenv("VERIF_REPO"); r != "" {
		return r
	}
	return "/repo"
}

// extractFuncs returns the printed source of the named functions / methods of a Go file and the
// import specs (name -> path) the extracted code uses.
func extractFuncs(file string, names []string) (string, map[string]string, error) {
	fset := token.NewFileSet()
	f, err := parser.ParseFile(fset, file, nil, parser.ParseComments)
	if err != nil {
		return "", nil, err
	}
	imports := map[string]string{}
	for _, im := range f.Imports {
		p, _ := strconv.Unquote(im.Path.Value)
		name := path.Base(p)
		if regexp.MustCompile(`^v[0-9]+$`).MatchString(name) {
			name = path.Base(path.Dir(p))
		}
		if im.Name != nil {
			name = im.Name.Name
		}
		imports[name] = p
	}
	want := map[string]bool{}
	for _, n := range names {
		want[n] = true
	}
	var src strings.Builder
	used := map[string]string{}
	found := map[string]bool{}
	for _, d := range f.Decls {
		fd, ok := d.(*ast.FuncDecl)
		if !ok || !want[fd.Name.Name] {
			continue
		}
		found[fd.Name.Name] = true
		fd.Doc = nil
		var b bytes.Buffer
		if err := printer.Fprint(&b, fset, fd); err != nil {
			return "", nil, err
		}
		src.WriteString(b.String() + "\n\n")
		ast.Inspect(fd, func(n ast.Node) bool {
			if se, ok := n.(*ast.SelectorExpr); ok {
				if id, ok := se.X.(*ast.Ident); ok && id.Obj == nil {
					if p, ok := imports[id.Name]; ok {
						used[id.Name] = p
					}
				}
			}
			return true
		})
	}
	for _, n := range names {
		if !found[n] {
			return "", nil, fmt.Errorf("%s: function %s not found", file, n)
		}
	}
	return src.String(), used, nil
}

const probeMain = `
type controller struct {
	container                 app.Container
	fileAnnotationsToStdout   bool
	fileAnnotationErrorFormat string
}

var ErrFileAnnotation = bufctl.ErrFileAnnotation

type probeFileInfo struct{ p string }

func (f probeFileInfo) Path() string         { return f.p }
func (f probeFileInfo) ExternalPath() string { return f.p }

type probeParser struct {
	s string
	i int
}

func (p *probeParser) peek() byte {
	if p.i < len(p.s) {
		return p.s[p.i]
	}
	return 0
}

func (p *probeParser) num() int {
	j := p.i
	for p.i < len(p.s) && p.s[p.i] >= '0' && p.s[p.i] <= '9' {
		p.i++
	}
	n, _ := strconv.Atoi(p.s[j:p.i])
	return n
}

func (p *probeParser) expect(c byte) {
	if p.peek() != c {
		panic("bad error notation: " + p.s)
	}
	p.i++
}

func (p *probeParser) unary() error {
	p.expect('(')
	e := p.err()
	p.expect(')')
	return e
}

func (p *probeParser) err() error {
	c := p.peek()
	p.i++
	switch c {
	case 'I':
		return &bufmodule.ImportNotExistError{}
	case 'T':
		return errors.New("x")
	case 'F':
		return realScanError()
	case 'N':
		return realImportNotExist()
	case 'Z':
		return errors.New("")
	case 'A':
		n := p.num()
		var as []bufanalysis.FileAnnotation
		for i := 0; i < n; i++ {
			as = append(as, bufanalysis.NewFileAnnotation(probeFileInfo{"a.proto"}, i+1, 1, 1, 1, "X", "m", ""))
		}
		return bufanalysis.NewFileAnnotationSet(as...)
	case 'W':
		return fmt.Errorf("w: %w", p.unary())
	case 'S':
		return &syserror.Error{Underlying: p.unary()}
	case 'C':
		return connect.NewError(connect.CodeUnavailable, p.unary())
	case 'K':
		return connect.NewError(connect.CodeInternal, p.unary())
	case 'P':
		code := p.num()
		return app.WrapError(code, p.unary())
	case 'J':
		p.expect('(')
		a := p.err()
		p.expect(',')
		b := p.err()
		p.expect(')')
		return errors.Join(a, b)
	}
	panic("bad error notation: " + p.s)
}

const probeGood = "syntax = \"proto3\";\n\npackage p;\n\nmessage A {\n  string x = 1;\n}\n"

func probeModule(bad string) bufmodule.Module {
	moduleSet, err := bufmoduletesting.NewModuleSetForPathToData(map[string][]byte{"a.proto": []byte(probeGood), "b.proto": []byte(bad)})
	if err != nil {
		panic("probe module set: " + err.Error())
	}
	modules := moduleSet.Modules()
	if len(modules) != 1 {
		panic("probe module set: expected one module")
	}
	return modules[0]
}

// the error the header scan of a .proto file returns for 'import ;'
var realScanError = sync.OnceValue(func() error {
	fileInfo, err := probeModule("syntax = \"proto3\";\n\npackage p;\n\nimport ;\n").StatFileInfo(context.Background(), "b.proto")
	if err != nil {
		panic("probe StatFileInfo: " + err.Error())
	}
	_, err = fileInfo.ProtoFileImports()
	if err == nil {
		panic("the header scan accepted an empty import statement")
	}
	return err
})

// the error ModuleDeps() returns for an import that no module has
var realImportNotExist = sync.OnceValue(func() error {
	_, err := probeModule("syntax = \"proto3\";\n\npackage p;\n\nimport \"nope/missing.proto\";\n").ModuleDeps()
	if err == nil {
		panic("ModuleDeps accepted an import that does not exist")
	}
	return err
})

func probeOne(via, notation string) (out string) {
	defer func() {
		if v := recover(); v != nil {
			out = fmt.Sprintf("panic %v", v)
		}
	}()
	pp := &probeParser{s: notation}
	ret := pp.err()
	if pp.i != len(pp.s) {
		panic("trailing text in " + notation)
	}
	var stdout, stderr bytes.Buffer
	container := app.NewContainer(map[string]string{}, strings.NewReader(""), &stdout, &stderr)
	if via == "c" {
		c := &controller{container: container, fileAnnotationsToStdout: true, fileAnnotationErrorFormat: "json"}
		c.handleFileAnnotationSetRetError(&ret)
	}
	printed := strings.Count(stdout.String(), "\n")
	final := app.Run(context.Background(), container, func(context.Context, app.Container) error {
		return wrapError(ret)
	})
	failure := 0
	if stderr.Len() > 0 {
		failure = 1
	}
	return fmt.Sprintf("exit=%d printed=%d failure=%d", app.GetExitCode(final), printed, failure)
}

func unhex(s string) string {
	if s == "-" {
		return ""
	}
	b, err := hex.DecodeString(s)
	if err != nil {
		panic("bad hex " + s)
	}
	return string(b)
}

// classify runs an error value through the extracted classification code, as probeOne does;
// at = file:line:col of the first annotation printed (json), "-" without one
func classify(via string, ret error) (triple string, at string) {
	var stdout, stderr bytes.Buffer
	container := app.NewContainer(map[string]string{}, strings.NewReader(""), &stdout, &stderr)
	if via == "c" {
		c := &controller{container: container, fileAnnotationsToStdout: true, fileAnnotationErrorFormat: "json"}
		c.handleFileAnnotationSetRetError(&ret)
	}
	printed := strings.Count(stdout.String(), "\n")
	at = "-"
	if printed > 0 {
		var first struct {
			Path         string
			Start_line   int
			Start_column int
		}
		if err := json.Unmarshal([]byte(strings.SplitN(stdout.String(), "\n", 2)[0]), &first); err != nil {
			panic("annotation is not json: " + err.Error())
		}
		at = fmt.Sprintf("%s:%d:%d", hex.EncodeToString([]byte(first.Path)), first.Start_line, first.Start_column)
	}
	final := app.Run(context.Background(), container, func(context.Context, app.Container) error {
		return wrapError(ret)
	})
	failure := 0
	if stderr.Len() > 0 {
		failure = 1
	}
	return fmt.Sprintf("%d:%d:%d", app.GetExitCode(final), printed, failure), at
}

// probeImp: "<importer>\t<name:source;…>" (hex) - a module set with these sources (names
// below m1/ and m2/ = two modules of one workspace, otherwise one module); what
// bufimage.BuildImage returns for it goes through a controller method + wrapError, what
// ModuleDeps() of the importer's module returns goes through wrapError directly.
func probeImp(arg string) (out string) {
	defer func() {
		if v := recover(); v != nil {
			out = fmt.Sprintf("panic %v", v)
		}
	}()
	f := strings.Split(arg, "\t")
	if len(f) != 2 {
		return "bad-line"
	}
	importer := unhex(f[0])
	mods := map[string]map[string][]byte{}
	var order []string
	for _, e := range strings.Split(f[1], ";") {
		ns := strings.SplitN(e, ":", 2)
		name, src := unhex(ns[0]), unhex(ns[1])
		mod := ""
		if strings.HasPrefix(name, "m1/") || strings.HasPrefix(name, "m2/") {
			mod, name = name[:2], name[3:]
		}
		if mods[mod] == nil {
			mods[mod] = map[string][]byte{}
			order = append(order, mod)
		}
		mods[mod][name] = []byte(src)
	}
	sort.Strings(order)
	importerMod := ""
	if strings.HasPrefix(importer, "m1/") || strings.HasPrefix(importer, "m2/") {
		importerMod, importer = importer[:2], importer[3:]
	}
	var datas []bufmoduletesting.ModuleData
	importerIdx := 0
	for i, mod := range order {
		if mod == importerMod {
			importerIdx = i
		}
		datas = append(datas, bufmoduletesting.ModuleData{PathToData: mods[mod]})
	}
	ctx := context.Background()
	moduleSet, err := bufmoduletesting.NewModuleSet(datas...)
	if err != nil {
		panic("probe module set: " + err.Error())
	}
	logger := slog.New(slog.NewTextHandler(io.Discard, nil))
	_, buildErr := bufimage.BuildImage(ctx, logger, bufmodule.ModuleSetToModuleReadBucketWithOnlyProtoFiles(moduleSet))
	build, at := "0:0:0", "-"
	if buildErr != nil {
		build, at = classify("c", buildErr)
	}
	deps := "0:0:0"
	if _, depsErr := moduleSet.Modules()[importerIdx].ModuleDeps(); depsErr != nil {
		deps, _ = classify("d", depsErr)
	}
	_ = importer
	return "build=" + build + " at=" + at + " deps=" + deps
}

func main() {
	sc := bufio.NewScanner(os.Stdin)
	sc.Buffer(make([]byte, 1<<20), 1<<20)
	w := bufio.NewWriter(os.Stdout)
	defer w.Flush()
	for sc.Scan() {
		f := strings.SplitN(sc.Text(), "\t", 2)
		if len(f) != 2 {
			fmt.Fprintln(w, "bad-line")
			continue
		}
		if f[0] == "imp" {
			fmt.Fprintln(w, probeImp(f[1]))
			continue
		}
		fmt.Fprintln(w, probeOne(f[0], f[1]))
	}
}
`

// buildErrProbe writes and builds the probe; returns the executable.
func buildErrProbe(run *hx.Run) (string, error) {
	repo := repoDir()
	wrapSrc, used1, err := extractFuncs(filepath.Join(repo, "private/buf/cmd/buf/buf.go"),
		[]string{"wrapError", "appFailureError", "isEmptyUnknownError", "wrappedTLSError", "isPossibleNewCLIOldBSRError"})
	if err != nil {
		return "", err
	}
	handleSrc, used2, err := extractFuncs(filepath.Join(repo, "private/buf/bufctl/controller.go"),
		[]string{"handleFileAnnotationSetRetError"})
	if err != nil {
		return "", err
	}
	imports := map[string]string{
		"bufio": "bufio", "bytes": "bytes", "context": "context", "errors": "errors", "fmt": "fmt", "os": "os",
		"strconv": "strconv", "strings": "strings", "sync": "sync",
		"hex": "encoding/hex", "json": "encoding/json", "io": "io", "slog": "log/slog", "sort": "sort",
		"bufimage": "github.com/bufbuild/buf/private/bufpkg/bufimage",
		"connect":     "connectrpc.com/connect",
		"bufmoduletesting": "github.com/bufbuild/buf/private/bufpkg/bufmodule/bufmoduletesting",
		"app":         "github.com/bufbuild/buf/private/pkg/app",
		"syserror":    "github.com/bufbuild/buf/private/pkg/syserror",
		"bufctl":      "github.com/bufbuild/buf/private/buf/bufctl",
		"bufanalysis": "github.com/bufbuild/buf/private/bufpkg/bufanalysis",
		"bufmodule":   "github.com/bufbuild/buf/private/bufpkg/bufmodule",
	}
	for _, u := range []map[string]string{used1, used2} {
		for n, p := range u {
			if old, ok := imports[n]; ok && old != p {
				return "", fmt.Errorf("import name %s is used for %s and %s", n, old, p)
			}
			imports[n] = p
		}
	}
	names := make([]string, 0, len(imports))
	for n := range imports {
		names = append(names, n)
	}
	sort.Strings(names)
	var src strings.Builder
	src.WriteString("// Generated by harness c20 from the working tree. DO NOT EDIT.\npackage main\n\nimport (\n")
	for _, n := range names {
		fmt.Fprintf(&src, "\t%s %q\n", n, imports[n])
	}
	src.WriteString(")\n\n// ---- extracted verbatim from private/buf/cmd/buf/buf.go\n\n" + wrapSrc)
	src.WriteString("// ---- extracted verbatim from private/buf/bufctl/controller.go\n\n" + handleSrc)
	src.WriteString(probeMain)
	dir := filepath.Join(run.OutDir, "c20probe")
	if err := os.MkdirAll(dir, 0o755); err != nil {
		return "", err
	}
	if err := os.WriteFile(filepath.Join(dir, "main.go"), []byte(src.String()), 0o644); err != nil {
		return "", err
	}
	// a module of its own next to the harness module: same requirements, same replace
	harnessDir := filepath.Join(os.Getenv("VERIF_DIR"), "harness")
	if os.Getenv("VERIF_DIR") == "" {
		harnessDir = "harness"
	}
	gomod, err := os.ReadFile(filepath.Join(harnessDir, "go.mod"))
	if err != nil {
		return "", err
	}
	mod := strings.Replace(string(gomod), "module github.com/bufbuild/verifharness", "module github.com/bufbuild/verifharness/c20probe", 1)
	mod = regexp.MustCompile(`replace github.com/bufbuild/buf => .*`).ReplaceAllString(mod, "replace github.com/bufbuild/buf => "+repo)
	if err := os.WriteFile(filepath.Join(dir, "go.mod"), []byte(mod), 0o644); err != nil {
		return "", err
	}
	gosum, err := os.ReadFile(filepath.Join(harnessDir, "go.sum"))
	if err != nil {
		return "", err
	}
	if err := os.WriteFile(filepath.Join(dir, "go.sum"), gosum, 0o644); err != nil {
		return "", err
	}
	exe := filepath.Join(dir, "probe")
	cmd := exec.Command("go", "build", "-o", exe, ".")
	cmd.Dir = dir
	cmd.Env = os.Environ()
	if b, err := cmd.CombinedOutput(); err != nil {
		return "", fmt.Errorf("go build of the error probe in %s: %v\n%s", dir, err, b)
	}
	errProbeExe = exe
	return exe, nil
}

// error notations: every tree over the leaves with up to two wrappers, joins of the
// interesting pairs, and random deeper ones
func genErrNotations(r *hx.Rand, nRandom int) []string {
	leaves := []string{"A1", "A3", "I", "T", "Z", "F", "N"}
	wrap := func(w, e string) string { return w + "(" + e + ")" }
	wrappers := []string{"W", "S", "C", "K", "P100", "P1", "P3", "P0"}
	seen := map[string]bool{}
	var out []string
	add := func(s string) {
		if !seen[s] {
			seen[s] = true
			out = append(out, s)
		}
	}
	for _, l := range leaves {
		add(l)
		for _, w1 := range wrappers {
			add(wrap(w1, l))
			for _, w2 := range wrappers {
				add(wrap(w2, wrap(w1, l)))
			}
		}
	}
	pool := append([]string(nil), out...)
	for _, a := range []string{"P100(Z)", "A2", "I", "T", "W(I)", "S(T)", "S(I)", "C(T)", "K(I)", "Z"} {
		for _, b := range []string{"T", "Z", "I", "S(T)", "C(T)", "K(T)", "A1", "P100(Z)", "W(S(I))"} {
			add("J(" + a + "," + b + ")")
			add("W(J(" + a + "," + b + "))")
		}
	}
	var gen func(depth int) string
	gen = func(depth int) string {
		if depth == 0 || r.Chance(1, 4) {
			return hx.Pick(r, leaves)
		}
		if r.Chance(1, 4) {
			return "J(" + gen(depth-1) + "," + gen(depth-1) + ")"
		}
		return wrap(hx.Pick(r, wrappers), gen(depth-1))
	}
	for i := 0; i < nRandom; i++ {
		if r.Chance(1, 3) {
			add(wrap(hx.Pick(r, wrappers), hx.Pick(r, pool)))
		} else {
			add(gen(2 + r.Intn(3)))
		}
	}
	return out
}

func errValueCases(run *hx.Run, r *hx.Rand, idx *int, do func(func())) {
	probe, err := buildErrProbe(run)
	if err != nil {
		// the code this part extracts is no longer where / what it was: the model of wrapError /
		// handleFileAnnotationSetRetError has to be re-derived
		run.Fail(hx.OracleFailure{Class: "error-probe-not-buildable", What: err.Error(), Input: "private/buf/cmd/buf/buf.go wrapError, private/buf/bufctl/controller.go handleFileAnnotationSetRetError",
			Replay: fmt.Sprintf("harness c20 --seed %d --tier %s", run.Seed, run.Tier)})
		return
	}
	notations := genErrNotations(r, run.N(400, 4000))
	var in strings.Builder
	type q struct{ via, n string }
	var qs []q
	for _, n := range notations {
		for _, via := range []string{"c", "d"} {
			qs = append(qs, q{via, n})
			in.WriteString(via + "\t" + n + "\n")
		}
	}
	cmd := exec.Command(probe)
	cmd.Stdin = strings.NewReader(in.String())
	var so, se bytes.Buffer
	cmd.Stdout, cmd.Stderr = &so, &se
	if err := cmd.Run(); err != nil {
		run.Fail(hx.OracleFailure{Class: "panic", What: fmt.Sprintf("error probe crashed: %v: %.400s", err, se.String()), Input: "error probe", Replay: "harness c20"})
		return
	}
	answers := strings.Split(strings.TrimSuffix(so.String(), "\n"), "\n")
	if len(answers) != len(qs) {
		run.Fail(hx.OracleFailure{Class: "panic", What: fmt.Sprintf("error probe answered %d of %d lines", len(answers), len(qs)), Input: "error probe", Replay: "harness c20"})
		return
	}
	ansRe := regexp.MustCompile(`^exit=(\d+) printed=(\d+) failure=([01])$`)
	for i, qq := range qs {
		qq, ans := qq, answers[i]
		do(func() {
			replay := fmt.Sprintf("harness c20 --seed %d --tier %s --only %d", run.Seed, run.Tier, *idx)
			m := ansRe.FindStringSubmatch(ans)
			if m == nil {
				run.Fail(hx.OracleFailure{Class: "panic", What: "error probe: " + ans, Input: qq, Replay: replay})
				run.Case("err\t"+qq.via+"\t"+qq.n, ans, true)
				return
			}
			exit, _ := strconv.Atoi(m[1])
			printed, _ := strconv.Atoi(m[2])
			failure := m[3] == "1"
			// the property on error values (implementation only): printed annotations => 100 and
			// nothing else is said; status 0 never for an error; an ImportNotExistError that is
			// reported ("Failure:" line) and not buried under a system / connect error => 100
			if printed > 0 && (exit != 100 || failure) {
				run.Fail(hx.OracleFailure{Class: "exit-100-mismatch", What: fmt.Sprintf("error %s via %s: %d annotations printed but exit=%d failure line=%v", qq.n, qq.via, printed, exit, failure), Input: qq, Replay: replay})
			}
			if exit == 0 {
				run.Fail(hx.OracleFailure{Class: "exit-zero-mismatch", What: fmt.Sprintf("error %s via %s: exit 0 for a non-nil error", qq.n, qq.via), Input: qq, Replay: replay})
			}
			plainImport := regexp.MustCompile(`^(W\(|J\(|[INT,)])*$`).MatchString(qq.n) && strings.ContainsAny(qq.n, "IN")
			// a problem the header scan finds in the user's sources, returned by a controller method
			// below plain wrappers: printed as an annotation, status 100, no Failure line
			if via, n := qq.via, qq.n; via == "c" && regexp.MustCompile(`^(W\()*F\)*$`).MatchString(n) && (exit != 100 || printed == 0 || failure) {
				run.Fail(hx.OracleFailure{Class: "source-problem-not-annotated", What: fmt.Sprintf("error %s via a controller method is what the header scan of a .proto file with `import ;` returns, but exit=%d annotations printed=%d failure line=%v (want 100 / 1 / none)", n, exit, printed, failure), Input: qq, Replay: replay})
			}
			if plainImport && (exit != 100 || !failure) {
				run.Fail(hx.OracleFailure{Class: "import-not-found-verdict", What: fmt.Sprintf("error %s via %s holds an ImportNotExistError below plain wrappers but exit=%d failure line=%v", qq.n, qq.via, exit, failure), Input: qq, Replay: replay})
			}
			run.Case("err\t"+qq.via+"\t"+qq.n, ans, exit != 1)
			run.Count(fmt.Sprintf("err:exit=%d", exit))
			if printed > 0 {
				run.Count("err:annotations-printed")
			}
			if strings.Contains(qq.n, "J(") {
				run.Count("err:join")
			}
		})
	}
}

// appErrorCreators scans the tree for creators of *app.appError: the exit-status theorems assume
// that the only ones on the paths of build / lint / breaking / format are bufctl.ErrFileAnnotation
// and wrapError's WrapError(100, importNotExistError).
func appErrorCreators(run *hx.Run) {
	known := map[string]bool{
		"private/buf/bufctl/bufctl.go":                         true, // ErrFileAnnotation
		"private/buf/cmd/buf/buf.go":                           true, // wrapError
		"private/buf/bufcurl/invoker.go":                       true, // buf curl only
		"private/buf/bufwkt/cmd/wkt-go-data/main.go":           true, // separate binary
		"private/pkg/licenseheader/cmd/license-header/main.go": true, // separate binary
	}
	re := regexp.MustCompile(`\bapp\.(NewError|NewErrorf|WrapError)\(`)
	repo := repoDir()
	var extra []string
	_ = filepath.Walk(filepath.Join(repo, "private"), func(p string, info os.FileInfo, err error) error {
		if err != nil || info.IsDir() || !strings.HasSuffix(p, ".go") || strings.HasSuffix(p, "_test.go") {
			return nil
		}
		rel, _ := filepath.Rel(repo, p)
		if strings.HasPrefix(rel, "private/pkg/app/") {
			return nil
		}
		b, err := os.ReadFile(p)
		if err == nil && re.Match(b) && !known[filepath.ToSlash(rel)] {
			extra = append(extra, filepath.ToSlash(rel))
		}
		return nil
	})
	run.Set("app_error_creator_files", len(known))
	if len(extra) > 0 {
		run.Fail(hx.OracleFailure{Class: "app-error-creators-changed", What: fmt.Sprintf("new creators of an *appError (an exit code of their own): %v - the exit-status theorems assume step errors carry none", extra), Input: extra, Replay: "harness c20"})
	}
}
