// Part (ii) of the C20 harness: the real `buf` binary.
//
// Every generated workspace is run through ONE of the four commands; the command rotates with
// the workspace index and so does the command's VARIANT (alternative input / output path), so
// that every return path that prints annotations or decides the exit status is exercised
// several times per run:
//
//	lint      input: directory (default / "."), single file, --path, module directory, tar archive,
//	          a built image; every workspace x 5 --error-format values + config-ignore-yaml
//	breaking  --against directory / tar archive + --limit-to-input-files / --exclude-imports /
//	          built image (+ --limit-to-input-files) / single file / module directory / an
//	          against side that does not compile; x 5 --error-format values
//	build     -o /dev/null, -o - (image on stdout, annotations on stderr), -o file.binpb,
//	          -o file.json, -o - --as-file-descriptor-set --exclude-source-info, -o below a regular
//	          file (PutImage fails); inputs as for lint; x 5 --error-format values
//	format    EVERY output mode {plain, -d, -w, -d -w, -o X, -d -o X} x {--exit-code, without},
//	          the rejected -w -o combinations, a failing -o location, the second run after each
//	          -w mode; input: directory, ".", single file, --path, module directory, tar
//	          archive, module reference (only with -w: rejected before any network access)
//
// One protocol line per workspace (lint / breaking / build) resp. per (workspace, mode, run) for
// format.  The oracle uses only what the binary did (exit status, streams, files on disk) and
// what the generator planted.
package main

import (
	"archive/tar"
	"bytes"
	"fmt"
	"os"
	"os/exec"
	"path/filepath"
	"sort"
	"strconv"
	"strings"
	"sync"
	"syscall"

	"github.com/bufbuild/verifharness/internal/hx"
)

// fileFact is what the generator planted in one file of the workspace.
type fileFact struct {
	Name        string `json:"name"`   // workspace-relative path (module prefix included)
	Module      string `json:"module"` // "" | "m1" | "m2"
	Lint        int    `json:"lint"`
	Brk         int    `json:"breaking"`
	Unknown     bool   `json:"unknown_type"`
	Import      bool   `json:"missing_import"`
	Syntax      bool   `json:"syntax_error"`
	Unformatted bool   `json:"unformatted"`
	Canonical   string `json:"-"` // what `buf format` must produce for this file
}

func (f fileFact) rel() string { // module-relative path
	if f.Module != "" {
		return strings.TrimPrefix(f.Name, f.Module+"/")
	}
	return f.Name
}

type ws struct {
	Name        string            `json:"name"`
	Files       map[string]string `json:"files"`         // relative path -> content (workspace dir)
	Against     map[string]string `json:"against_files"` // for breaking
	Cmd         string            `json:"cmd"`           // lint | breaking | build | format
	Variant     string            `json:"variant"`       // command specific alternative path
	Input       string            `json:"input_kind"`    // dir | dot | file | path | moddir | tar | modref
	Target      int               `json:"target_file"`   // index into Facts for file / path
	Mod         string            `json:"target_module"` // for moddir
	Multi       bool              `json:"two_modules"`
	Facts       []fileFact        `json:"facts"`
	Args        []string          `json:"args"`
	ModelLine   string            `json:"model_line"`
	PlantedLint int               `json:"planted_lint"`     // over the targeted files
	PlantedBrk  int               `json:"planted_breaking"` // over the targeted files
	Compile     bool              `json:"compile_problem"`  // in a targeted file
	Operational string            `json:"operational"`
	BadCheck    string            `json:"bad_check_config"` // module whose lint / breaking config names an unknown rule
	Diff        bool              `json:"format_diff"`      // a targeted file is not formatted
	Syntax      bool              `json:"syntax_error"`     // in a targeted file
}

const bufYAML = "version: v2\nlint:\n  use:\n    - FIELD_LOWER_SNAKE_CASE\n    - MESSAGE_PASCAL_CASE\nbreaking:\n  use:\n    - FIELD_NO_DELETE\n"

// badCheckSection is a module-level check configuration that parses but makes the CHECK of that
// module's image fail: an unknown ID under `except` (an unknown ID under `use` would already fail
// the check of every other module, because all configurations are passed along as related ones).
const badCheckSection = "    lint:\n      use:\n        - FIELD_LOWER_SNAKE_CASE\n        - MESSAGE_PASCAL_CASE\n      except:\n        - NOT_A_RULE\n" +
	"    breaking:\n      use:\n        - FIELD_NO_DELETE\n      except:\n        - NOT_A_RULE\n"

var fileNamePool = []string{"a.proto", "b.proto", "sub/c.proto", "wé \"q\" <x>&.proto", "new\nline.proto", "c:d,e%25.proto", "日本/ファイル.proto", "x y.proto", "q'uote.proto"}

// --path is a CSV flag (pflag StringSlice): a comma, a double quote or a line break in the value
// is flag syntax, not part of a path.
func pathFlagSafe(name string) bool { return !strings.ContainsAny(name, ",\"\n\r") }

type msgSpec struct {
	name   string
	fields []string // field names; camelCase ones are lint problems
	extra  []string // fields only present in the against version (deleted now => breaking)
}

func renderFile(pkg string, imports []string, msgs []msgSpec, formatted bool, against bool, unknownType bool, syntaxBad bool) string {
	var b strings.Builder
	b.WriteString("syntax = \"proto3\";\n\npackage " + pkg + ";\n")
	if len(imports) > 0 {
		b.WriteString("\n")
		for _, imp := range imports {
			b.WriteString("import \"" + imp + "\";\n")
		}
	}
	for _, m := range msgs {
		b.WriteString("\nmessage " + m.name + " {\n")
		n := 1
		for _, f := range m.fields {
			b.WriteString(fmt.Sprintf("  string %s = %d;\n", f, n))
			n++
		}
		if against {
			for _, f := range m.extra {
				b.WriteString(fmt.Sprintf("  string %s = %d;\n", f, n+10))
				n++
			}
		}
		if unknownType {
			b.WriteString(fmt.Sprintf("  Undefined%s undefined_ref = %d;\n", m.name, n+30))
		}
		b.WriteString("}\n")
	}
	if syntaxBad && !against {
		b.WriteString("\nmessage {\n")
	}
	s := b.String()
	if !formatted {
		s = strings.Replace(s, " {\n  string", " {   string", 1)
		if !strings.Contains(s, "{   string") {
			s = strings.Replace(s, "package "+pkg+";\n", "package   "+pkg+";\n", 1)
		}
	}
	return s
}

var (
	cmdCycle      = []string{"lint", "format", "breaking", "build", "depgraph"}
	depInputs     = []string{"dir", "dot"}
	lintVariants  = []string{"dir", "file", "image", "path", "moddir", "tar", "dot"}
	brkVariants   = []string{"dir", "limit", "exclimp", "image", "file", "againstbad", "moddir", "imagelimit"}
	buildOutputs  = []string{"devnull", "stdout", "file", "json", "fds", "blocked"}
	buildInputs   = []string{"dir", "file", "path", "moddir", "tar", "dot"}
	formatInputs  = []string{"dir", "file", "moddir", "tar", "path", "dot", "modref"}
	moduleRefName = "buf.build/acme/weather"
)

func genWorkspace(r *hx.Rand, i int) ws {
	w := ws{Name: fmt.Sprintf("ws%d", i), Files: map[string]string{"buf.yaml": bufYAML}, Against: map[string]string{"buf.yaml": bufYAML}}
	w.Cmd = cmdCycle[i%len(cmdCycle)]
	k := i / len(cmdCycle)
	switch w.Cmd {
	case "lint":
		w.Variant = lintVariants[k%len(lintVariants)]
		w.Input = w.Variant
	case "breaking":
		w.Variant = brkVariants[k%len(brkVariants)]
		w.Input = map[string]string{"file": "file", "moddir": "moddir"}[w.Variant]
		if w.Input == "" {
			w.Input = "dir"
		}
	case "build":
		w.Variant = buildOutputs[k%len(buildOutputs)]
		w.Input = buildInputs[(k/len(buildOutputs)+k)%len(buildInputs)]
	case "format":
		w.Input = formatInputs[k%len(formatInputs)]
		w.Variant = w.Input
	case "depgraph":
		w.Input = depInputs[k%len(depInputs)]
		w.Variant = w.Input
	}
	nFiles := 1 + r.Intn(3)
	lintClean := r.Chance(2, 5)
	// a quarter of the workspaces (and every one that targets a module directory) have two
	// modules: lint / breaking then run once per module and the command merges the annotation sets
	w.Multi = r.Chance(1, 4) || w.Input == "moddir"
	if w.Multi {
		yaml := strings.Replace(bufYAML, "version: v2\n", "version: v2\nmodules:\n  - path: m1\n  - path: m2\n", 1)
		w.Files["buf.yaml"], w.Against["buf.yaml"] = yaml, yaml
		nFiles = 2 + r.Intn(2)
	}
	names := append([]string(nil), fileNamePool...)
	hx.Shuffle(r, names)
	uniq := 0
	badAgainst := -1
	if w.Variant == "againstbad" {
		badAgainst = r.Intn(nFiles)
	}
	for f := 0; f < nFiles; f++ {
		fact := fileFact{Name: names[f]}
		if w.Multi {
			fact.Module = []string{"m1", "m2"}[f%2]
			fact.Name = fact.Module + "/" + fact.Name
		}
		var msgs []msgSpec
		for m := 0; m < 1+r.Intn(2); m++ {
			ms := msgSpec{name: fmt.Sprintf("M%d%c", f, 'A'+m)}
			if !lintClean && r.Chance(1, 6) {
				ms.name = fmt.Sprintf("m%d_bad%c", f, 'a'+m) // MESSAGE_PASCAL_CASE
				fact.Lint++
			}
			for k := 0; k < 1+r.Intn(3); k++ {
				uniq++
				if !lintClean && r.Chance(1, 3) {
					ms.fields = append(ms.fields, fmt.Sprintf("camelCase%d", uniq))
					fact.Lint++
				} else {
					ms.fields = append(ms.fields, fmt.Sprintf("snake_case_%d", uniq))
				}
			}
			if w.Cmd == "breaking" && r.Chance(1, 2) {
				for k := 0; k < 1+r.Intn(2); k++ {
					uniq++
					ms.extra = append(ms.extra, fmt.Sprintf("deleted_%d", uniq))
					fact.Brk++
				}
			}
			msgs = append(msgs, ms)
		}
		var imports []string
		switch r.Intn(24) {
		case 0:
			fact.Unknown = true
		case 1:
			imports, fact.Import = []string{"nope/miss<ing> é.proto"}, true
		case 2:
			if w.Cmd != "breaking" {
				fact.Syntax = true
			}
		}
		fact.Unformatted = r.Chance(1, 3)
		pkg := fmt.Sprintf("pkg%d", f)
		w.Files[fact.Name] = renderFile(pkg, imports, msgs, !fact.Unformatted, false, fact.Unknown, fact.Syntax)
		fact.Canonical = renderFile(pkg, imports, msgs, true, false, fact.Unknown, false)
		w.Against[fact.Name] = renderFile(pkg, nil, msgs, true, true, f == badAgainst, false)
		w.Facts = append(w.Facts, fact)
	}
	if r.Chance(1, 9) && w.Input != "modref" {
		switch r.Intn(3) {
		case 0:
			w.Operational = "bad-config"
			w.Files["buf.yaml"] = "version: v9\n"
		case 1:
			w.Operational = "missing-input"
		case 2:
			w.Operational = "bad-flag"
		}
	}
	// a module whose own lint / breaking section names an unknown rule under `except`: the configuration parses,
	// the CHECK of that module's image fails (an error that is no annotation set, in the check loop,
	// possibly after another module's annotations were collected)
	if w.Multi && w.Operational == "" && r.Chance(1, 3) &&
		(w.Cmd == "lint" && (w.Variant == "dir" || w.Variant == "dot" || w.Variant == "tar") ||
			w.Cmd == "breaking" && (w.Variant == "dir" || w.Variant == "limit" || w.Variant == "exclimp")) {
		w.BadCheck = []string{"m1", "m2"}[r.Intn(2)]
		bad := "  - path: " + w.BadCheck + "\n" + badCheckSection
		yaml := strings.Replace(w.Files["buf.yaml"], "  - path: "+w.BadCheck+"\n", bad, 1)
		w.Files["buf.yaml"], w.Against["buf.yaml"] = yaml, yaml
	}
	// settle the input selection
	w.Target = r.Intn(nFiles)
	w.Mod = []string{"m1", "m2"}[r.Intn(2)]
	if w.Input == "path" {
		// take a file whose name survives the CSV flag syntax, else fall back to a file input
		w.Input = "file"
		for d := 0; d < nFiles; d++ {
			if t := (w.Target + d) % nFiles; pathFlagSafe(w.Facts[t].Name) {
				w.Target, w.Input = t, "path"
				break
			}
		}
	}
	anyProblem := false
	for _, f := range w.Facts {
		anyProblem = anyProblem || f.Unknown || f.Import || f.Syntax
	}
	if w.Cmd == "lint" && w.Variant == "image" && (anyProblem || w.Operational != "") {
		// no image can be built from these sources: lint the directory instead
		w.Variant, w.Input = "dot", "dot"
	}
	if w.Input == "image" {
		w.Input = "dir" // all files are targeted; the positional argument is the image
	}
	for _, f := range w.targets() {
		w.PlantedLint += f.Lint
		w.PlantedBrk += f.Brk
		w.Compile = w.Compile || f.Unknown || f.Import || f.Syntax
		w.Syntax = w.Syntax || f.Syntax
		w.Diff = w.Diff || f.Unformatted
	}
	ctl := "o"
	switch {
	case w.Operational != "":
		ctl = "x"
	case w.Compile:
		ctl = "a"
	}
	// one check per image; a two-module workspace given as a whole yields one image per module
	// (in buf.yaml order), every other input one image
	checksFor := func(count func(fileFact) int) string {
		groups := [][]fileFact{w.targets()}
		if w.Multi && (w.Input == "dir" || w.Input == "dot" || w.Input == "tar") && !(w.Cmd == "lint" && w.Variant == "image") &&
			w.Variant != "image" && w.Variant != "imagelimit" {
			groups = [][]fileFact{nil, nil}
			for _, f := range w.Facts {
				if f.Module == "m1" {
					groups[0] = append(groups[0], f)
				} else {
					groups[1] = append(groups[1], f)
				}
			}
		}
		out := ""
		for gi, g := range groups {
			n := 0
			for _, f := range g {
				n += count(f)
			}
			switch {
			case w.BadCheck != "" && len(groups) == 2 && w.BadCheck == []string{"m1", "m2"}[gi]:
				out += "x"
			case n > 0:
				out += "a"
			default:
				out += "o"
			}
		}
		return out
	}
	switch w.Cmd {
	case "lint":
		w.ModelLine = "exit\tlint\t" + ctl + "\t" + checksFor(func(f fileFact) int { return f.Lint })
	case "breaking":
		if ctl == "o" {
			switch {
			case w.Variant == "againstbad":
				ctl = "oa" // the against side does not compile: its annotations, status 100
			case (w.Variant == "image" || w.Variant == "imagelimit") && w.Multi:
				ctl = "ooX" // two input images against the one image file: "input contained 2 images …" (directly in run)
			default:
				ctl = "oo"
			}
		}
		w.ModelLine = "exit\tbreaking\t" + ctl + "\t" + checksFor(func(f fileFact) int { return f.Brk })
	case "build":
		if ctl == "o" && w.Variant == "blocked" {
			ctl = "ox" // GetImage fine, PutImage fails
		}
		w.ModelLine = "exit\tbuild\t" + ctl
	case "depgraph":
		// GetWorkspace (controller method), then ModuleSetToDAG directly in run: the one place that
		// calls ModuleDeps() and meets the ImportNotExistError of a missing import
		anyImport := false
		for _, f := range w.Facts {
			anyImport = anyImport || f.Import
		}
		switch {
		case w.Operational != "":
			ctl = "x"
		case anyImport:
			ctl = "oI"
		default:
			ctl = "oo"
		}
		w.ModelLine = "exit\tdepgraph\t" + ctl
	}
	return w
}

// stepFails: a step of the model line fails with an error that is no annotation set
// (x / X other error, s system error).
func (w ws) stepFails() bool {
	f := strings.Split(w.ModelLine, "\t")
	if len(f) < 3 {
		return false
	}
	return strings.ContainsAny(strings.Join(f[2:], " "), "xXsS")
}

// targets is the set of files the input selection makes the command look at.
func (w ws) targets() []fileFact {
	switch w.Input {
	case "file", "path":
		return []fileFact{w.Facts[w.Target]}
	case "moddir":
		var out []fileFact
		for _, f := range w.Facts {
			if f.Module == w.Mod {
				out = append(out, f)
			}
		}
		return out
	case "modref":
		return nil
	}
	return w.Facts
}

// inputArgs is the command line that selects the input (positional argument and/or --path).
func (w ws) inputArgs() []string {
	var pos, flags []string
	switch w.Input {
	case "dot":
		pos = []string{"."}
	case "file":
		pos = []string{w.Facts[w.Target].Name}
	case "path":
		flags = []string{"--path", w.Facts[w.Target].Name}
	case "moddir":
		pos = []string{w.Mod}
	case "tar":
		pos = []string{"../ws.tar"}
	case "modref":
		pos = []string{moduleRefName}
	}
	if w.Cmd == "lint" && (w.Variant == "image" || w.Variant == "imagenodep") {
		pos = []string{"../img.binpb"}
	}
	switch w.Operational {
	case "missing-input":
		pos = []string{"../does-not-exist"}
	case "bad-flag":
		flags = append(flags, "--no-such-flag")
	}
	return append(pos, flags...)
}

// collisionWorkspace plants two FIELD_LOWER_SNAKE_CASE annotations in one file whose
// (start line, start column, end line, end column) are (2,31,2,37) and (23,1,23,7): written
// back to back both give "231237".
func collisionWorkspace() ws {
	var b strings.Builder
	b.WriteString("syntax = \"proto3\";\n")
	b.WriteString("message Aaaaaaaaaaaaaa{string fooBar=1;}\n")
	for i := 3; i <= 21; i++ {
		b.WriteString("\n")
	}
	b.WriteString("message B{string\nfooBar=1;}\n")
	return ws{Name: "collision", Files: map[string]string{"buf.yaml": bufYAML, "a.proto": b.String()}, Cmd: "lint", Variant: "dir", Input: "dir",
		Facts:     []fileFact{{Name: "a.proto", Lint: 2}},
		ModelLine: "exit\tlint\to\ta", PlantedLint: 2, PlantedBrk: 0}
}

// missingImportWorkspace: a .proto file importing a file that does not exist, through `buf dep
// graph` - the command that calls ModuleDeps() and so reaches *bufmodule.ImportNotExistError and
// wrapError's app.WrapError(100, …) for real.
func missingImportWorkspace() ws {
	src := "syntax = \"proto3\";\n\npackage a;\n\nimport \"nope/missing.proto\";\n\nmessage A {\n  string x = 1;\n}\n"
	return ws{Name: "missingimport", Files: map[string]string{"buf.yaml": bufYAML, "a.proto": src}, Cmd: "depgraph", Variant: "dir", Input: "dir",
		Facts: []fileFact{{Name: "a.proto", Import: true}}, ModelLine: "exit\tdepgraph\toI", Compile: true}
}

// missingDepImageWorkspace: an image that lacks a dependency (`buf build --path a.proto
// --exclude-imports`) as input of `buf lint`: the image cannot be linked, which buf reports as a
// system error ("it looks like you have found a bug …"), status 1.
func missingDepImageWorkspace() ws {
	a := "syntax = \"proto3\";\n\npackage a;\n\nimport \"b.proto\";\n\nmessage A {\n  b.B x = 1;\n}\n"
	b := "syntax = \"proto3\";\n\npackage b;\n\nmessage B {\n  string x = 1;\n}\n"
	return ws{Name: "imagenodep", Files: map[string]string{"buf.yaml": bufYAML, "a.proto": a, "b.proto": b}, Cmd: "lint", Variant: "imagenodep", Input: "dir",
		Facts: []fileFact{{Name: "a.proto"}, {Name: "b.proto"}}, ModelLine: "exit\tlint\ts\to", Operational: "image-without-dependency"}
}

// fixedMultiWorkspace: a two-module workspace with p1 / p2 planted problems in m1 / m2 (camelCase
// fields for lint, deleted fields for breaking) and optionally an unknown rule in the check
// configuration of one module: the check lists a…x of the model (annotations collected from one
// image, then the check of another image fails otherwise - nothing is printed, status 1).
func fixedMultiWorkspace(cmd string, p1, p2 int, bad string) ws {
	yaml := strings.Replace(bufYAML, "version: v2\n", "version: v2\nmodules:\n  - path: m1\n  - path: m2\n", 1)
	if bad != "" {
		yaml = strings.Replace(yaml, "  - path: "+bad+"\n", "  - path: "+bad+"\n"+badCheckSection, 1)
	}
	w := ws{Name: fmt.Sprintf("multi-%s-%d-%d-%s", cmd, p1, p2, bad), Files: map[string]string{"buf.yaml": yaml}, Against: map[string]string{"buf.yaml": yaml},
		Cmd: cmd, Variant: "dir", Input: "dir", Multi: true, BadCheck: bad}
	checks := ""
	for mi, p := range []int{p1, p2} {
		mod := []string{"m1", "m2"}[mi]
		ms := msgSpec{name: fmt.Sprintf("M%d", mi)}
		fact := fileFact{Name: mod + "/" + []string{"a.proto", "b.proto"}[mi], Module: mod}
		for k := 0; k < p; k++ {
			if cmd == "lint" {
				ms.fields = append(ms.fields, fmt.Sprintf("camelCase%d%d", mi, k))
				fact.Lint++
			} else {
				ms.extra = append(ms.extra, fmt.Sprintf("deleted_%d_%d", mi, k))
				fact.Brk++
			}
		}
		ms.fields = append(ms.fields, fmt.Sprintf("fine_%d", mi))
		pkg := fmt.Sprintf("pkg%d", mi)
		w.Files[fact.Name] = renderFile(pkg, nil, []msgSpec{ms}, true, false, false, false)
		fact.Canonical = w.Files[fact.Name]
		w.Against[fact.Name] = renderFile(pkg, nil, []msgSpec{ms}, true, true, false, false)
		w.Facts = append(w.Facts, fact)
		w.PlantedLint += fact.Lint
		w.PlantedBrk += fact.Brk
		switch {
		case bad == mod:
			checks += "x"
		case p > 0:
			checks += "a"
		default:
			checks += "o"
		}
	}
	if cmd == "lint" {
		w.ModelLine = "exit\tlint\to\t" + checks
	} else {
		w.ModelLine = "exit\tbreaking\too\t" + checks
	}
	return w
}

func fixedWorkspaces() []ws {
	out := []ws{collisionWorkspace(), missingImportWorkspace(), missingDepImageWorkspace()}
	for _, cmd := range []string{"lint", "breaking"} {
		out = append(out,
			fixedMultiWorkspace(cmd, 0, 0, ""), fixedMultiWorkspace(cmd, 2, 0, ""), fixedMultiWorkspace(cmd, 0, 1, ""), fixedMultiWorkspace(cmd, 1, 2, ""),
			fixedMultiWorkspace(cmd, 1, 0, "m2"), fixedMultiWorkspace(cmd, 0, 1, "m1"), fixedMultiWorkspace(cmd, 0, 0, "m2"), fixedMultiWorkspace(cmd, 2, 2, "m1"))
	}
	// two input images against ONE image file: "input contained 2 images, whereas against contained 1" (directly in run)
	w := fixedMultiWorkspace("breaking", 1, 1, "")
	w.Name, w.Variant, w.ModelLine = "multi-breaking-image", "image", "exit\tbreaking\tooX\taa"
	return append(out, w)
}

type procResult struct {
	exit           int
	stdout, stderr string
}

func runBuf(bufBin, dir string, args ...string) procResult { return runBufAs(-1, bufBin, dir, args...) }

// runBufAs runs buf under another user id (uid >= 0; only possible when the harness is root): the
// way to meet a file that cannot be opened for writing, which root never does.
func runBufAs(uid int, bufBin, dir string, args ...string) procResult {
	return runBufEnv(uid, nil, bufBin, dir, args...)
}

// runBufEnv: with further environment variables (NAME=value).
func runBufEnv(uid int, env []string, bufBin, dir string, args ...string) procResult {
	cmd := exec.Command(bufBin, args...)
	if uid >= 0 {
		cmd.SysProcAttr = &syscall.SysProcAttr{Credential: &syscall.Credential{Uid: uint32(uid), Gid: uint32(uid)}}
	}
	cmd.Dir = dir
	cmd.Env = append(append(os.Environ(), "BUF_CACHE_DIR="+filepath.Join(filepath.Dir(dir), ".cache"), "HOME="+filepath.Dir(dir), "NO_COLOR=1"), env...)
	var so, se bytes.Buffer
	cmd.Stdout, cmd.Stderr = &so, &se
	err := cmd.Run()
	code := 0
	if err != nil {
		if ee, ok := err.(*exec.ExitError); ok {
			code = ee.ExitCode()
		} else {
			code = -1
			se.WriteString("\nexec error: " + err.Error())
		}
	}
	return procResult{exit: code, stdout: so.String(), stderr: se.String()}
}

func writeTree(root string, files map[string]string) error {
	for p, c := range files {
		full := filepath.Join(root, p)
		if err := os.MkdirAll(filepath.Dir(full), 0o755); err != nil {
			return err
		}
		if err := os.WriteFile(full, []byte(c), 0o644); err != nil {
			return err
		}
	}
	return nil
}

// readTree returns relative path -> content of every regular file below root (nil if root is missing).
func readTree(root string) map[string]string {
	out := map[string]string{}
	if _, err := os.Stat(root); err != nil {
		return nil
	}
	_ = filepath.Walk(root, func(p string, info os.FileInfo, err error) error {
		if err != nil || info.IsDir() {
			return nil
		}
		rel, _ := filepath.Rel(root, p)
		b, _ := os.ReadFile(p)
		out[filepath.ToSlash(rel)] = string(b)
		return nil
	})
	return out
}

func writeTar(path string, files map[string]string) error {
	var buf bytes.Buffer
	tw := tar.NewWriter(&buf)
	names := make([]string, 0, len(files))
	for n := range files {
		names = append(names, n)
	}
	sort.Strings(names)
	for _, n := range names {
		if err := tw.WriteHeader(&tar.Header{Name: n, Mode: 0o644, Size: int64(len(files[n])), Typeflag: tar.TypeReg, Format: tar.FormatPAX}); err != nil {
			return err
		}
		if _, err := tw.Write([]byte(files[n])); err != nil {
			return err
		}
	}
	if err := tw.Close(); err != nil {
		return err
	}
	return os.WriteFile(path, buf.Bytes(), 0o644)
}

var allFormats = []string{"text", "json", "msvs", "junit", "github-actions"}

func hasFailureLine(stderr string) bool {
	for _, l := range strings.Split(stderr, "\n") {
		if strings.HasPrefix(l, "Failure:") || strings.HasPrefix(l, "unknown flag") || strings.HasPrefix(l, "Error:") {
			return true
		}
	}
	return false
}

// annotationStream is the stream the command prints annotations on, minus what app.printError wrote.
func annotationStream(w ws, p procResult) string {
	if w.Cmd == "lint" || w.Cmd == "breaking" {
		return p.stdout
	}
	// build / format print annotations on stderr; a "Failure:" text and usage go there too
	if hasFailureLine(p.stderr) {
		return ""
	}
	return p.stderr
}

func b01(x bool) string {
	if x {
		return "1"
	}
	return "0"
}

// parallel runs the jobs, at most `width` at a time.
func parallel(width int, jobs []func()) {
	sem := make(chan struct{}, width)
	var wg sync.WaitGroup
	for _, j := range jobs {
		wg.Add(1)
		sem <- struct{}{}
		go func() {
			defer wg.Done()
			defer func() { <-sem }()
			j()
		}()
	}
	wg.Wait()
}

func binaryCase(run *hx.Run, idx int, w ws, bufBin, scratch string) int {
	if w.Cmd == "format" {
		return formatCase(run, idx, w, bufBin, scratch)
	}
	replay := fmt.Sprintf("harness c20 --seed %d --tier %s --only %d   (workspace files are in the failure input)", run.Seed, run.Tier, idx)
	root := filepath.Join(scratch, w.Name)
	dir := filepath.Join(root, "work")
	_ = os.RemoveAll(root)
	if err := writeTree(dir, w.Files); err != nil {
		panic(err)
	}
	defer os.RemoveAll(root)
	fail := func(class, what string) {
		run.Fail(hx.OracleFailure{Class: class, What: fmt.Sprintf("%s [%s, input %s]: %s", w.Cmd, w.Variant, w.Input, what), Input: w, Replay: replay})
	}
	runs := 0
	if w.Input == "tar" {
		if err := writeTar(filepath.Join(root, "ws.tar"), w.Files); err != nil {
			panic(err)
		}
	}
	if err := os.WriteFile(filepath.Join(root, "blocked"), []byte("a regular file\n"), 0o644); err != nil {
		panic(err)
	}
	// the command line of the variant
	var head, tail []string
	outFile := "" // file the command is expected to produce (build)
	switch w.Cmd {
	case "depgraph":
		head = []string{"dep", "graph"}
	case "lint":
		head = []string{"lint"}
		if w.Variant == "imagenodep" {
			runs++
			if p := runBuf(bufBin, dir, "build", "--path", "a.proto", "--exclude-imports", "-o", "../img.binpb"); p.exit != 0 {
				fail("setup-build-failed", fmt.Sprintf("`buf build --path a.proto --exclude-imports`: exit %d, stderr %.300q", p.exit, p.stderr))
			}
		}
		if w.Variant == "image" {
			runs++
			if p := runBuf(bufBin, dir, "build", "-o", "../img.binpb"); p.exit != 0 {
				fail("setup-build-failed", fmt.Sprintf("`buf build -o ../img.binpb` of sources without a planted problem: exit %d, stderr %.300q", p.exit, p.stderr))
			}
		}
	case "breaking":
		if err := writeTree(filepath.Join(root, "against"), w.Against); err != nil {
			panic(err)
		}
		head = []string{"breaking"}
		switch w.Variant {
		case "dir", "againstbad":
			tail = []string{"--against", "../against"}
		case "limit":
			if err := writeTar(filepath.Join(root, "against.tar"), w.Against); err != nil {
				panic(err)
			}
			tail = []string{"--against", "../against.tar", "--limit-to-input-files"}
		case "exclimp":
			tail = []string{"--against", "../against", "--exclude-imports"}
		case "image", "imagelimit":
			runs++
			if p := runBuf(bufBin, dir, "build", "../against", "-o", "../against.binpb"); p.exit != 0 {
				fail("setup-build-failed", fmt.Sprintf("`buf build ../against -o ../against.binpb`: exit %d, stderr %.300q", p.exit, p.stderr))
			}
			tail = []string{"--against", "../against.binpb"}
			if w.Variant == "imagelimit" {
				tail = append(tail, "--limit-to-input-files")
			}
		case "file":
			tail = []string{"--against", "../against/" + w.Facts[w.Target].Name}
		case "moddir":
			tail = []string{"--against", "../against/" + w.Mod}
		}
	case "build":
		head = []string{"build"}
		switch w.Variant {
		case "devnull":
			tail = []string{"-o", os.DevNull}
		case "stdout":
			tail = []string{"-o", "-"}
		case "file":
			outFile = "img.binpb"
		case "json":
			outFile = "img.json"
		case "fds":
			tail = []string{"-o", "-", "--as-file-descriptor-set", "--exclude-source-info"}
		case "blocked":
			tail = []string{"-o", "../blocked/img.binpb"}
		}
	}
	base := append(append(head, w.inputArgs()...), tail...)
	formats := append([]string(nil), allFormats...)
	if w.Cmd == "lint" {
		formats = append(formats, "config-ignore-yaml")
	}
	results := make([]procResult, len(formats))
	produced := make([]string, len(formats)) // content of the output file per run ("" = none)
	var jobs []func()
	for fi, f := range formats {
		args := append(append([]string(nil), base...), "--error-format", f)
		if outFile != "" {
			args = append(args, "-o", "../out-"+f+"/"+outFile)
		}
		if fi == 1 {
			w.Args = args
		}
		runs++
		jobs = append(jobs, func() {
			if outFile != "" {
				_ = os.MkdirAll(filepath.Join(root, "out-"+f), 0o755)
			}
			results[fi] = runBuf(bufBin, dir, args...)
			if outFile != "" {
				b, _ := os.ReadFile(filepath.Join(root, "out-"+f, outFile))
				produced[fi] = string(b)
			}
		})
	}
	parallel(6, jobs)
	outs := map[string]procResult{}
	for fi, f := range formats {
		outs[f] = results[fi]
	}
	// every format: same exit status
	ref := outs["json"]
	for _, f := range formats {
		if outs[f].exit != ref.exit {
			fail("exit-differs-by-format", fmt.Sprintf("exit %d with --error-format %s but %d with json", outs[f].exit, f, ref.exit))
		}
		if outs[f].exit < 0 || strings.Contains(outs[f].stderr, "panic:") || strings.Contains(outs[f].stderr, "goroutine ") {
			fail("panic", fmt.Sprintf("buf crashed with --error-format %s: %.300s", f, outs[f].stderr))
		}
	}
	fo := formatOutputs{text: annotationStream(w, outs["text"]), jsonOut: annotationStream(w, outs["json"]), msvs: annotationStream(w, outs["msvs"]),
		junit: annotationStream(w, outs["junit"]), gha: annotationStream(w, outs["github-actions"])}
	printed := 0
	var recs []rec
	if fo.jsonOut != "" || fo.text != "" || fo.msvs != "" || fo.gha != "" {
		want := -1
		if !w.Compile && w.Operational == "" && !w.stepFails() && w.Variant != "againstbad" {
			if w.Cmd == "lint" {
				want = w.PlantedLint
			} else if w.Cmd == "breaking" {
				want = w.PlantedBrk
			}
		}
		if fo.junit == "" {
			fo.junit = "<testsuites></testsuites>\n"
		}
		class, what, rs, _ := crossCheck(fo, want)
		recs = rs
		if class != "" {
			fail(class, what)
		}
		printed = len(rs)
	}
	failure := hasFailureLine(ref.stderr)
	// the property's verdict clauses
	nothing := printed == 0 && !failure
	if (ref.exit == 0) != nothing {
		fail("exit-zero-mismatch", fmt.Sprintf("exit=%d but printed=%d failure=%v", ref.exit, printed, failure))
	}
	userSources := printed > 0 || strings.Contains(ref.stderr, "file does not exist") && strings.Contains(ref.stderr, "import")
	if (ref.exit == 100) != userSources {
		fail("exit-100-mismatch", fmt.Sprintf("exit=%d but printed=%d stderr=%.200q", ref.exit, printed, ref.stderr))
	}
	if ref.exit != 0 && ref.exit != 100 && !failure {
		fail("silent-operational-error", fmt.Sprintf("exit=%d without any message", ref.exit))
	}
	// a "Failure:" line announces an operational error; next to printed annotations (status 100)
	// the two verdicts contradict each other
	for _, f := range formats {
		if p := outs[f]; printed > 0 && hasFailureLine(p.stderr) {
			fail("failure-line-with-annotations", fmt.Sprintf("--error-format %s: %d annotations printed and exit %d, but also a Failure line: %.200q", f, printed, p.exit, p.stderr))
			break
		}
	}
	// an operational error planted in the check of one image (unknown rule under `except`): the
	// status must be the operational one whatever the other images' checks reported
	if w.BadCheck != "" && w.Operational == "" && !w.Compile && (ref.exit == 0 || ref.exit == 100) {
		fail("check-error-swallowed", fmt.Sprintf("the check configuration of module %s is unusable (operational error) but exit=%d, %d annotations printed", w.BadCheck, ref.exit, printed))
	}
	// the planted facts must show (harness sanity + property: a planted problem is reported)
	if w.Operational == "" && !w.stepFails() {
		planted := w.Compile || w.Variant == "againstbad" || (w.Cmd == "lint" && w.PlantedLint > 0) || (w.Cmd == "breaking" && w.PlantedBrk > 0)
		if w.Cmd == "depgraph" {
			// no compilation, no checks: nothing is ever printed as an annotation; a missing import
			// is the ImportNotExistError of ModuleDeps() - status 100 with a "Failure:" line
			planted = false
			wantExit := 0
			if strings.HasSuffix(w.ModelLine, "I") {
				wantExit = 100
			}
			if ref.exit != wantExit || (wantExit == 100) != failure {
				fail("import-not-found-verdict", fmt.Sprintf("dep graph: missing import planted=%v but exit=%d failure line=%v stderr=%.200q", wantExit == 100, ref.exit, failure, ref.stderr))
			}
		}
		if planted != (printed > 0) {
			fail("planted-not-reported", fmt.Sprintf("planted problems=%v but %d annotations printed (exit %d, stderr %.200q)", planted, printed, ref.exit, ref.stderr))
		}
	}
	// lint --error-format config-ignore-yaml: its own printer.  Same verdict; compile problems come
	// as text; otherwise one `- path` entry under its rule ID for every (rule, file) of the json records.
	if w.Cmd == "lint" {
		cfg := outs["config-ignore-yaml"]
		switch {
		case hasFailureLine(cfg.stderr) != failure:
			fail("config-ignore-yaml-disagrees", fmt.Sprintf("Failure line=%v with config-ignore-yaml, %v with json", hasFailureLine(cfg.stderr), failure))
		case w.Compile && w.Operational == "":
			if cfg.stdout != outs["text"].stdout {
				fail("config-ignore-yaml-disagrees", fmt.Sprintf("compile annotations %q, as text %q", cfg.stdout, outs["text"].stdout))
			}
		case (cfg.stdout != "") != (printed > 0):
			fail("config-ignore-yaml-disagrees", fmt.Sprintf("%d annotations with json but config-ignore-yaml printed %q", printed, cfg.stdout))
		case printed > 0:
			if !strings.HasPrefix(cfg.stdout, "version: v1\nlint:\n  ignore_only:\n") {
				fail("config-ignore-yaml-disagrees", fmt.Sprintf("unexpected header: %.120q", cfg.stdout))
			}
			ids := map[string]bool{}
			for _, r := range recs {
				ids[r.Type] = true
				found := false
				for _, f := range w.Facts {
					if (r.Path == f.Name || r.Path == f.rel()) && strings.Contains(cfg.stdout, "      - "+f.rel()+"\n") {
						found = true
					}
				}
				if !found {
					fail("config-ignore-yaml-disagrees", fmt.Sprintf("no `- path` entry for the file of json record %q in %q", r.Path, cfg.stdout))
				}
			}
			n := 0
			for _, l := range strings.Split(cfg.stdout, "\n") {
				if strings.HasPrefix(l, "    ") && !strings.HasPrefix(l, "     ") && strings.HasSuffix(l, ":") {
					n++
					if !ids[strings.TrimSuffix(strings.TrimPrefix(l, "    "), ":")] {
						fail("config-ignore-yaml-disagrees", fmt.Sprintf("rule %q listed but no json record has it", l))
					}
				}
			}
			if n != len(ids) {
				fail("config-ignore-yaml-disagrees", fmt.Sprintf("%d rule IDs listed, json records have %d", n, len(ids)))
			}
		}
	}
	// build: an image is produced exactly when the status is 0; annotations never go to stdout
	if w.Cmd == "build" {
		for fi, f := range formats {
			p := outs[f]
			var got bool
			switch w.Variant {
			case "stdout", "fds":
				got = p.stdout != ""
			case "file", "json":
				got = produced[fi] != ""
				if p.stdout != "" {
					fail("build-output-verdict", fmt.Sprintf("--error-format %s: %d bytes on stdout although -o names a file", f, len(p.stdout)))
				}
			default:
				got = p.exit == 0
				if p.stdout != "" {
					fail("build-output-verdict", fmt.Sprintf("--error-format %s: %d bytes on stdout", f, len(p.stdout)))
				}
			}
			if got != (p.exit == 0) {
				fail("build-output-verdict", fmt.Sprintf("--error-format %s: exit %d but image produced=%v", f, p.exit, got))
			}
			if w.Variant == "json" && got && !strings.HasPrefix(produced[fi], "{") {
				fail("build-output-verdict", fmt.Sprintf("--error-format %s: -o img.json is not JSON: %.60q", f, produced[fi]))
			}
		}
	}
	exitClass := strconv.Itoa(ref.exit)
	implOut := "exit=" + exitClass + " printed=" + b01(printed > 0) + " failure=" + b01(failure)
	run.Case(w.ModelLine, implOut, ref.exit != 0)
	run.Count("bin:" + w.Cmd + ":exit=" + exitClass)
	run.Count("bin:" + w.Cmd + ":variant=" + w.Variant)
	run.Count("bin:" + w.Cmd + ":input=" + w.Input)
	if w.Operational != "" {
		run.Count("bin:operational:" + w.Operational)
	}
	if w.Multi {
		run.Count("bin:two-modules")
	}
	if w.BadCheck != "" {
		run.Count("bin:bad-check-config")
	}
	run.Count("bin:model-line=" + strings.ReplaceAll(strings.TrimPrefix(w.ModelLine, "exit\t"), "\t", " "))
	if w.Compile {
		run.Count("bin:compile-or-import-problem")
	}
	run.Count(fmt.Sprintf("bin:annotations=%d", min(printed, 8)))
	if idx%13 == 0 {
		run.Sample(map[string]any{"cmd": w.Cmd, "variant": w.Variant, "args": w.Args, "exit": ref.exit, "json": ref.stdout + ref.stderr, "planted_lint": w.PlantedLint, "planted_breaking": w.PlantedBrk})
	}
	return runs
}

// ---------------------------------------------------------------------------------------
// buf format: every output mode

// archiveWriteRejected says whether `buf format <archive> -w` is rejected as an invalid argument.
// false = the code as it is (known finding format-write-archive-input); set it to true when
// handoff/C20-format-write-archive.diff is applied to the repository.
const archiveWriteRejected = false

type fmtRun struct {
	Mode    string `json:"mode"`    // letters d w o e
	Blocked bool   `json:"blocked"` // -o below a regular file
	Second  bool   `json:"second"`  // the run after a -w run, same flags, same directory
	ErrFmt  string `json:"error_format"`
	Args    []string
}

func (m fmtRun) has(c byte) bool { return strings.IndexByte(m.Mode, c) >= 0 }
func (m fmtRun) valid() bool     { return !(m.has('w') && m.has('o')) }
func (m fmtRun) name() string {
	n := m.Mode
	if n == "" {
		n = "plain"
	}
	if m.Blocked {
		n += "+blocked"
	}
	return n
}

// every combination of -d -w -o --exit-code (16; the four with both -w and -o are rejected) plus
// two runs whose -o location cannot be written
func fmtModes() []fmtRun {
	var out []fmtRun
	for _, d := range []string{"", "d"} {
		for _, w := range []string{"", "w"} {
			for _, o := range []string{"", "o"} {
				for _, e := range []string{"", "e"} {
					out = append(out, fmtRun{Mode: d + w + o + e})
				}
			}
		}
	}
	return append(out, fmtRun{Mode: "oe", Blocked: true}, fmtRun{Mode: "doe", Blocked: true})
}

type fmtObs struct {
	p            procResult
	before       map[string]string // work dir before the run
	after        map[string]string // work dir after the run
	outTree      map[string]string // -o directory (nil if absent)
	outFile      string            // -o file content
	outFileThere bool
}

func formatCase(run *hx.Run, idx int, w ws, bufBin, scratch string) int {
	replay := fmt.Sprintf("harness c20 --seed %d --tier %s --only %d   (workspace files are in the failure input)", run.Seed, run.Tier, idx)
	root := filepath.Join(scratch, w.Name)
	_ = os.RemoveAll(root)
	defer os.RemoveAll(root)
	targets := w.targets()
	outIsDir := idx%2 == 0
	runs := 0
	modes := fmtModes()
	if w.Input == "modref" {
		// without -w a module reference means a registry call; with -w it is rejected up front
		var keep []fmtRun
		for _, m := range modes {
			if m.has('w') && !m.Blocked {
				keep = append(keep, m)
			}
		}
		modes = keep
	}
	type job struct {
		m      fmtRun
		first  fmtObs
		second *fmtObs
	}
	jobsData := make([]*job, len(modes))
	var jobs []func()
	for mi, m := range modes {
		m.ErrFmt = allFormats[(idx+mi)%len(allFormats)]
		mroot := filepath.Join(root, m.name())
		dir := filepath.Join(mroot, "work")
		args := []string{"format"}
		args = append(args, w.inputArgs()...)
		if m.has('d') {
			args = append(args, "-d")
		}
		if m.has('w') {
			args = append(args, "-w")
		}
		if m.has('o') {
			switch {
			case m.Blocked && outIsDir:
				args = append(args, "-o", "../blocked/out")
			case m.Blocked:
				args = append(args, "-o", "../blocked/out.proto")
			case outIsDir:
				args = append(args, "-o", "../out")
			default:
				args = append(args, "-o", "../outf/all.proto")
			}
		}
		if m.has('e') {
			args = append(args, "--exit-code")
		}
		args = append(args, "--error-format", m.ErrFmt)
		m.Args = args
		j := &job{m: m}
		jobsData[mi] = j
		secondRun := m.has('w') && m.valid() && w.Input != "modref"
		runs++
		if secondRun {
			runs++
		}
		jobs = append(jobs, func() {
			if err := writeTree(dir, w.Files); err != nil {
				panic(err)
			}
			if w.Input == "tar" {
				if err := writeTar(filepath.Join(mroot, "ws.tar"), w.Files); err != nil {
					panic(err)
				}
			}
			if err := os.WriteFile(filepath.Join(mroot, "blocked"), []byte("a regular file\n"), 0o644); err != nil {
				panic(err)
			}
			observe := func() fmtObs {
				o := fmtObs{before: readTree(dir)}
				o.p = runBuf(bufBin, dir, args...)
				o.after = readTree(dir)
				o.outTree = readTree(filepath.Join(mroot, "out"))
				if b, err := os.ReadFile(filepath.Join(mroot, "outf", "all.proto")); err == nil {
					o.outFile, o.outFileThere = string(b), true
				}
				return o
			}
			j.first = observe()
			if secondRun {
				s := observe()
				j.second = &s
			}
		})
	}
	parallel(6, jobs)

	// what the planted facts say
	sumCanon, nUnformatted := 0, 0
	for _, f := range targets {
		sumCanon += len(f.Canonical)
		if f.Unformatted {
			nUnformatted++
		}
	}
	// as coded: every path that is not a module reference counts as a directory, archives included
	// (recorded finding format-write-archive-input; see archiveWriteRejected)
	sw := w.Input != "modref" && !(w.Input == "tar" && archiveWriteRejected)
	for _, j := range jobsData {
		for pass, obs := range []*fmtObs{&j.first, j.second} {
			if obs == nil {
				continue
			}
			m := j.m
			m.Second = pass == 1
			fail := func(class, what string) {
				in := map[string]any{"workspace": w, "run": m}
				run.Fail(hx.OracleFailure{Class: class, What: fmt.Sprintf("format [%s%s, input %s, --error-format %s]: %s", m.name(), map[bool]string{true: ", second run", false: ""}[m.Second], w.Input, m.ErrFmt, what), Input: in, Replay: replay})
			}
			p := obs.p
			if p.exit < 0 || strings.Contains(p.stderr, "panic:") || strings.Contains(p.stderr, "goroutine ") {
				fail("panic", fmt.Sprintf("buf crashed: %.300s", p.stderr))
			}
			failure := hasFailureLine(p.stderr)
			printed := p.stderr != "" && !failure
			// source of this run: after a -w run on a rewritable source the files are formatted
			diffNow := w.Diff
			rewritable := w.Input != "tar" && w.Input != "modref"
			if m.Second && rewritable && !w.Syntax && w.Operational == "" {
				diffNow = false
			}
			// `-w` with an archive as source (recorded finding): the archive is accepted as if it
			// were a directory, the formatted files go to the archive-internal paths below the
			// working directory, the archive stays as it was - so the run after -w reports the same
			// difference again.  Only this witness family is routed to its own class.
			// This is NOT a violation of C20 (the archive still differs from its formatted form, so
			// status 100 on the second run is the right verdict): it is judged like a first run.
			archiveSecond := false
			// --- what the run did, seen from outside
			// "changed": the files on disk hold something else than the source this run read (the
			// working directory as it was; for an archive input the archive's content)
			changed, stray := false, false
			for n, c := range obs.after {
				b, ok := obs.before[n]
				if w.Input == "tar" {
					if src, isSrc := w.Files[n]; isSrc {
						b = src
					}
				}
				if !ok {
					stray = true
				} else if b != c {
					changed = true
				}
			}
			for n := range obs.before {
				if _, ok := obs.after[n]; !ok {
					stray = true
				}
			}
			wrote := len(obs.outTree) > 0 || obs.outFileThere
			stdoutKind := "n"
			switch {
			case p.stdout == "":
			case strings.HasPrefix(p.stdout, "diff -u "):
				stdoutKind = "d"
			default:
				stdoutKind = "s"
			}
			// a difference between the sources and their formatted form as THIS run shows it
			// (independent of the planted facts): the diff it printed, the files it changed, the
			// formatted text it wrote somewhere else
			sameAsSources := func(text string) bool {
				n := 0
				for _, f := range targets {
					src := obs.before[f.Name]
					if w.Input == "tar" {
						src = w.Files[f.Name]
					}
					if !strings.Contains(text, src) {
						return false
					}
					n += len(src)
				}
				return n == len(text)
			}
			observedDiff := false
			switch {
			case p.exit != 0 && p.exit != 100:
			case m.has('d'):
				observedDiff = p.stdout != ""
			case m.has('w'):
				observedDiff = changed
			case m.has('o') && outIsDir:
				for _, f := range targets {
					src := obs.before[f.Name]
					if w.Input == "tar" {
						src = w.Files[f.Name]
					}
					if obs.outTree[f.rel()] != src {
						observedDiff = true
					}
				}
			case m.has('o'):
				observedDiff = !sameAsSources(obs.outFile)
			default:
				observedDiff = !sameAsSources(p.stdout)
			}
			if archiveSecond {
				if p.exit != 0 || m.has('d') && p.stdout != "" {
					fail("format-write-archive-input", fmt.Sprintf("-w accepted an archive as source; the run after it still reports the difference (exit %d, stdout %.100q)", p.exit, p.stdout))
				}
			}
			// --- the property's verdict clauses, per mode
			if archiveSecond {
				// judged above
			} else if (p.exit == 0) != (!printed && !failure && !(m.has('e') && observedDiff)) {
				fail("exit-zero-mismatch", fmt.Sprintf("exit=%d but annotations=%v failure=%v --exit-code=%v difference shown=%v", p.exit, printed, failure, m.has('e'), observedDiff))
			}
			if !archiveSecond && (p.exit == 100) != (printed || m.has('e') && observedDiff) {
				fail("exit-100-mismatch", fmt.Sprintf("exit=%d but annotations=%v --exit-code=%v difference shown=%v stderr=%.200q", p.exit, printed, m.has('e'), observedDiff, p.stderr))
			}
			if p.exit != 0 && p.exit != 100 && !failure {
				fail("silent-operational-error", fmt.Sprintf("exit=%d without any message", p.exit))
			}
			if stray {
				fail("format-stray-files", fmt.Sprintf("the set of files in the working directory changed: before %d files, after %d", len(obs.before), len(obs.after)))
			}
			// --- against what was planted
			clean := m.valid() && (sw || !m.has('w')) && w.Operational == "" && !w.Syntax && !m.Blocked
			if archiveSecond {
				// judged above
			} else if clean {
				wantExit := 0
				if m.has('e') && diffNow {
					wantExit = 100
				}
				switch {
				case p.exit != wantExit && m.Second:
					fail("format-second-run-after-write", fmt.Sprintf("the run after -w exits %d, want %d (stdout %.120q)", p.exit, wantExit, p.stdout))
				case p.exit != wantExit:
					fail("format-diff-verdict", fmt.Sprintf("unformatted file planted=%v --exit-code=%v but exit=%d (want %d); stderr %.200q", diffNow, m.has('e'), p.exit, wantExit, p.stderr))
				}
				// stdout
				switch {
				case m.has('d'):
					if n := strings.Count("\n"+p.stdout, "\ndiff -u "); (p.stdout != "") != diffNow || diffNow && !m.Second && n != nUnformatted {
						fail("format-diff-verdict", fmt.Sprintf("-d: %d unformatted files planted (now unformatted=%v) but the diff has %d file headers: %.200q", nUnformatted, diffNow, n, p.stdout))
					}
				case !m.has('w') && !m.has('o'):
					ok := len(p.stdout) == sumCanon
					for _, f := range targets {
						ok = ok && strings.Contains(p.stdout, f.Canonical)
					}
					if !ok {
						fail("format-output-wrong", fmt.Sprintf("plain mode: stdout is not the formatted text of the %d targeted files: %.300q", len(targets), p.stdout))
					}
				default:
					if p.stdout != "" {
						fail("format-output-wrong", fmt.Sprintf("stdout should be empty in this mode: %.200q", p.stdout))
					}
				}
				// files
				if m.has('w') && w.Input != "tar" {
					for _, f := range w.Facts {
						want := w.Files[f.Name]
						for _, t := range targets {
							if t.Name == f.Name {
								want = t.Canonical
							}
						}
						if obs.after[f.Name] != want {
							fail("format-output-wrong", fmt.Sprintf("-w: %q on disk is %q, want %q", f.Name, obs.after[f.Name], want))
						}
					}
				}
				if !m.has('w') && changed {
					fail("format-output-wrong", "sources were modified without -w")
				}
				if m.has('o') && outIsDir {
					if len(obs.outTree) != len(targets) {
						fail("format-output-wrong", fmt.Sprintf("-o dir holds %d files, %d targeted", len(obs.outTree), len(targets)))
					}
					for _, f := range targets {
						if obs.outTree[f.rel()] != f.Canonical {
							fail("format-output-wrong", fmt.Sprintf("-o dir: %q is %q, want %q", f.rel(), obs.outTree[f.rel()], f.Canonical))
						}
					}
				}
				if m.has('o') && !outIsDir {
					ok := len(obs.outFile) == sumCanon
					for _, f := range targets {
						ok = ok && strings.Contains(obs.outFile, f.Canonical)
					}
					if !ok {
						fail("format-output-wrong", fmt.Sprintf("-o file is not the formatted text of the targeted files: %.300q", obs.outFile))
					}
				}
				if !m.has('o') && wrote {
					fail("format-output-wrong", "an -o location was written without -o")
				}
			} else {
				// operational: invalid flag combination / unusable input / parse error / unwritable -o
				if p.exit == 0 || p.exit == 100 {
					fail("format-operational-verdict", fmt.Sprintf("operational problem (mode valid=%v, source rewritable=%v, operational=%q, syntax error=%v, blocked -o=%v) but exit=%d", m.valid(), sw, w.Operational, w.Syntax, m.Blocked, p.exit))
				}
				if changed || wrote {
					fail("format-operational-verdict", fmt.Sprintf("the failed run modified files (sources changed=%v, -o written=%v)", changed, wrote))
				}
			}
			// --- the protocol line
			ctl, fstep, outStep := "o", "o", "o"
			if w.Operational != "" {
				ctl = "x"
			}
			if w.Syntax {
				fstep = "x"
			}
			if m.Blocked {
				outStep = "x"
			}
			mode := m.Mode
			if mode == "" {
				mode = "-"
			}
			line := strings.Join([]string{"exit", "format", mode, b01(sw), ctl, fstep, b01(diffNow), "o", "o", outStep}, "\t")
			implOut := fmt.Sprintf("exit=%d printed=%s failure=%s stdout=%s rewrote=%s wrote=%s", p.exit, b01(printed), b01(failure), stdoutKind, b01(changed), b01(wrote))
			run.Case(line, implOut, p.exit != 0)
			run.Count(fmt.Sprintf("bin:format:mode=%s:exit=%d", m.name(), p.exit))
			if m.Second {
				run.Count("bin:format:second-run-after-w")
			}
		}
	}
	run.Count("bin:format:input=" + w.Input)
	if w.Operational != "" {
		run.Count("bin:operational:" + w.Operational)
	}
	if w.Multi {
		run.Count("bin:two-modules")
	}
	if idx%13 == 1 {
		run.Sample(map[string]any{"cmd": "format", "input": w.Input, "args": jobsData[0].m.Args, "exit": jobsData[0].first.p.exit, "modes": len(modes)})
	}
	return runs
}

func buildBuf(run *hx.Run) (string, error) {
	repo := os.Getenv("VERIF_REPO")
	if repo == "" {
		repo = "/repo"
	}
	out := filepath.Join(run.OutDir, "buf")
	cmd := exec.Command("go", "build", "-o", out, "./cmd/buf")
	cmd.Dir = repo
	cmd.Env = os.Environ()
	if b, err := cmd.CombinedOutput(); err != nil {
		return "", fmt.Errorf("go build ./cmd/buf in %s: %v\n%s", repo, err, b)
	}
	return out, nil
}
