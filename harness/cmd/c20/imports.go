// Part (vii) of the C20 harness: the IMPORT-PATH family of the linker phase.
//
// Part (iv) plants "import not found" with one ordinary missing path.  What buf does with an
// import statement depends on much more than whether a file of that name exists: the module
// set's bucket validates and normalises the path AS WRITTEN before anything is looked up
// (normalpath.NormalizeAndValidate: an absolute path and a path that leaves the module root are
// errors of their own, not fs.ErrNotExist), the accessor refuses a file whose normalised path is
// not the requested string, what no module has is looked up among the Well-Known Types,
// protocompile detects cycles and duplicates - and every one of these reaches the user through
// ONE place, getBuildResult's conversion of the positioned error `Compile` returns into a
// FileAnnotationSet.  The property says for all of them the same: the problem lies in the user's
// sources, so status 100 and an annotation that names the importing file at the import statement,
// in the requested format, the same in every format; never a bare `Failure:` line with status 1.
//
// (a) The binary: one import statement of one kind (impKinds) planted in the target file, a
// sibling of its package, or a file of another module x lint / build / breaking (either side) /
// format / ls-files / ls-files --include-imports / dep graph x the input forms of part (iv) x
// every --error-format; machinery, oracle classes and protocol lines are those of part (iv)
// (phaseCase with Imp set); the annotation must lie on the planted statement
// (`source-problem-position`: file, line, column within the statement).  Import paths that leave
// the module are planted so that a file EXISTS where they point.
//
// (b) The probe of part (iii): generated import paths against generated module sets through the
// real bufimage.BuildImage (+ controller method + wrapError) and ModuleDeps() (+ wrapError),
// compared with the Lean model `importFate` / `buildImageErr` / `moduleDepsErr` (line `imp`).
package main

import (
	"bytes"
	"fmt"
	"os/exec"
	"path/filepath"
	"regexp"
	"sort"
	"strconv"
	"strings"

	"github.com/bufbuild/buf/private/gen/data/datawkt"
	"github.com/bufbuild/verifharness/internal/hx"
)

// depGraphInvalidImportIs100 says what `buf dep graph` does with an import path the bucket
// rejects (absolute / leaves the root).  false = the code as it is: ModuleDeps() returns the plain
// normalpath error, "Failure: ../x.proto: is outside the context directory", status 1 (the
// importing file is not even named); set it to true when handoff/strengthen4-F-depgraph-invalid-import.diff
// is applied to the repository (then: ImportNotExistError, status 100, like every other import
// that cannot be found).
const depGraphInvalidImportIs100 = false

type impPos struct {
	File string `json:"file"` // workspace-relative
	Line int    `json:"line"`
	Cols int    `json:"columns"` // the statement occupies columns 1..Cols
}

type impKind struct {
	Name      string                  `json:"name"`
	Class     string                  `json:"class"`       // unresolvable | resolves | cycle | duplicate
	Fate      string                  `json:"fate"`        // the model's ImportFate: notexist | invalid | notnormal | file | wkt (cycle, duplicate: found by protocompile)
	Dep       string                  `json:"dep_graph"`   // as coded: ok | notexist (100 + Failure) | invalid | modcycle (1 + Failure)
	Lsi       bool                    `json:"lsi_fails"`   // as coded: `ls-files --include-imports` ends with a Failure line, status 1
	TwoMods   bool                    `json:"two_modules"` // needs the second module
	Sensitive bool                    `json:"-"`           // the accessor's error is NOT fs.ErrNotExist
	Narrow    bool                    `json:"-"`           // lint / build / format on directory inputs only (--exclude-path)
	Plant     func(x impCtx) impPlant `json:"-"`
}

func (k impKind) describe(stmt string) string {
	return fmt.Sprintf("import kind %s (%s; the accessor's answer: %s) `%s`", k.Name, k.Class, k.Fate, stmt)
}

type impCtx struct {
	Self string // module-relative name of the file the statement is planted in
	Peer string // module-relative name of a file of the OTHER module (two modules only)
	Root string // directory above work/
	Lead int
}

type impPlant struct {
	Stmts    []string          // the import statements of the planted file, one per line
	Bad      int               // index of the statement the annotation belongs to
	In       map[string]string // further files of the same module: name -> import statements ("" = none)
	Out      []string          // paths relative to the module root at which a file is to exist OUTSIDE the module
	OutAbs   []string          // absolute ones
	Excludes []string          // module-relative directories under `excludes` of the module
	Args     []string          // extra flags; {mod} = "" / "m1/" / "m2/"
	Cycle    []string          // names among In whose (first) import statement closes the cycle
	PeerStmt string            // statement added to the peer file of the other module
}

func protoQuote(s string) string {
	var b strings.Builder
	b.WriteByte('"')
	for _, c := range []byte(s) {
		switch c {
		case '\\':
			b.WriteString(`\\`)
		case '"':
			b.WriteString(`\"`)
		case '\n':
			b.WriteString(`\n`)
		default:
			b.WriteByte(c)
		}
	}
	b.WriteByte('"')
	return b.String()
}

func importStmt(path string) string { return "import " + protoQuote(path) + ";" }

func up(n int) string { return strings.Repeat("../", n) }

var zz = map[string]string{"zz/x.proto": ""}

func onePath(name, class, fate, dep string, lsi, sensitive bool, path string, in map[string]string, out ...string) impKind {
	return impKind{Name: name, Class: class, Fate: fate, Dep: dep, Lsi: lsi, Sensitive: sensitive, Plant: func(impCtx) impPlant {
		return impPlant{Stmts: []string{importStmt(path)}, In: in, Out: out}
	}}
}

var impKinds = []impKind{
	// --- nothing of that name anywhere
	onePath("missing", "unresolvable", "notexist", "notexist", true, false, "nope/missing.proto", nil),
	onePath("missing-space", "unresolvable", "notexist", "notexist", true, false, "no such file.proto", nil),
	onePath("missing-unicode", "unresolvable", "notexist", "notexist", true, false, "日本/ない.proto", nil),
	onePath("missing-backslash", "unresolvable", "notexist", "notexist", true, false, `zz\x.proto`, zz),
	onePath("empty-path", "unresolvable", "notexist", "notexist", true, false, "", nil),
	onePath("dot-path", "unresolvable", "notexist", "notexist", true, false, ".", nil),
	onePath("wkt-missing", "unresolvable", "notexist", "notexist", true, false, "google/protobuf/nope.proto", nil),
	// --- a directory
	onePath("directory", "unresolvable", "notexist", "notexist", true, false, "zz", zz),
	onePath("directory-trailing-slash", "unresolvable", "notexist", "notexist", true, false, "zz/", zz),
	onePath("directory-named-proto", "unresolvable", "notexist", "notexist", true, false, "dir.proto", map[string]string{"dir.proto/inner.proto": ""}),
	// --- exists, but only outside the module
	onePath("outside-only", "unresolvable", "notexist", "notexist", true, false, "sib1/b.proto", nil, "../sib1/b.proto"),
	// --- the bucket rejects the path: absolute / leaves the root (NOT fs.ErrNotExist)
	onePath("absolute", "unresolvable", "invalid", "invalid", true, true, "/usr/include/b.proto", nil),
	{Name: "absolute-existing", Class: "unresolvable", Fate: "invalid", Dep: "invalid", Lsi: true, Sensitive: true, Plant: func(x impCtx) impPlant {
		p := filepath.Join(x.Root, "sib0", "b.proto")
		return impPlant{Stmts: []string{importStmt(p)}, OutAbs: []string{p}}
	}},
	onePath("dotdot-1", "unresolvable", "invalid", "invalid", true, true, "../sib1/b.proto", nil, "../sib1/b.proto"),
	onePath("dotdot-2", "unresolvable", "invalid", "invalid", true, true, "../../sib2/b.proto", nil, "../../sib2/b.proto"),
	onePath("dotdot-3", "unresolvable", "invalid", "invalid", true, true, "../../../sib3/b.proto", nil, "../../../sib3/b.proto"),
	onePath("dotdot-inner-escape", "unresolvable", "invalid", "invalid", true, true, "zz/../../sib1/b.proto", zz, "../sib1/b.proto"),
	onePath("dotdot-path", "unresolvable", "invalid", "invalid", true, true, "..", nil),
	// --- names an existing file, not by its normalised path
	onePath("dot-slash", "unresolvable", "notnormal", "ok", true, true, "./zz/x.proto", zz),
	onePath("dot-inner", "unresolvable", "notnormal", "ok", true, true, "zz/./x.proto", zz),
	onePath("dotdot-inner", "unresolvable", "notnormal", "ok", true, true, "zz/../zz/x.proto", zz),
	onePath("double-slash", "unresolvable", "notnormal", "ok", true, true, "zz//x.proto", zz),
	onePath("trailing-slash", "unresolvable", "notnormal", "ok", true, true, "zz/x.proto/", zz),
	onePath("wkt-dot-slash", "unresolvable", "notnormal", "ok", true, true, "./google/protobuf/empty.proto", nil),
	// --- excluded
	{Name: "excluded-in-buf-yaml", Class: "unresolvable", Fate: "notexist", Dep: "notexist", Lsi: true, Plant: func(impCtx) impPlant {
		return impPlant{Stmts: []string{importStmt("ex/e.proto")}, In: map[string]string{"ex/e.proto": ""}, Excludes: []string{"ex"}}
	}},
	{Name: "excluded-by-flag", Class: "resolves", Fate: "file", Dep: "ok", Narrow: true, Plant: func(impCtx) impPlant {
		return impPlant{Stmts: []string{importStmt("ex/e.proto")}, In: map[string]string{"ex/e.proto": ""}, Args: []string{"--exclude-path", "{mod}ex"}}
	}},
	// --- another module of the workspace (v2: every module of the workspace is importable)
	{Name: "other-module", Class: "resolves", Fate: "file", Dep: "ok", TwoMods: true, Plant: func(x impCtx) impPlant {
		return impPlant{Stmts: []string{importStmt(x.Peer)}}
	}},
	// --- cycles, duplicates (found by protocompile, not by the accessor)
	{Name: "self", Class: "cycle", Fate: "file", Dep: "ok", Plant: func(x impCtx) impPlant {
		return impPlant{Stmts: []string{importStmt(x.Self)}}
	}},
	{Name: "cycle-2", Class: "cycle", Fate: "file", Dep: "ok", Plant: func(x impCtx) impPlant {
		return impPlant{Stmts: []string{importStmt("cyc/a.proto")}, In: map[string]string{"cyc/a.proto": importStmt(x.Self)}, Cycle: []string{"cyc/a.proto"}}
	}},
	{Name: "cycle-3", Class: "cycle", Fate: "file", Dep: "ok", Plant: func(x impCtx) impPlant {
		return impPlant{Stmts: []string{importStmt("cyc/a.proto")}, In: map[string]string{"cyc/a.proto": importStmt("cyc/b.proto"), "cyc/b.proto": importStmt(x.Self)}, Cycle: []string{"cyc/a.proto", "cyc/b.proto"}}
	}},
	{Name: "cycle-across-modules", Class: "cycle", Fate: "file", Dep: "modcycle", TwoMods: true, Plant: func(x impCtx) impPlant {
		return impPlant{Stmts: []string{importStmt(x.Peer)}, PeerStmt: importStmt(x.Self)}
	}},
	{Name: "duplicate", Class: "duplicate", Fate: "file", Dep: "ok", Plant: func(impCtx) impPlant {
		return impPlant{Stmts: []string{importStmt("zz/x.proto"), importStmt("zz/x.proto")}, Bad: 1, In: zz}
	}},
	{Name: "duplicate-apart", Class: "duplicate", Fate: "file", Dep: "ok", Plant: func(impCtx) impPlant {
		return impPlant{Stmts: []string{importStmt("zz/x.proto"), importStmt("google/protobuf/empty.proto"), importStmt("zz/x.proto")}, Bad: 2, In: zz}
	}},
	// --- import public / import weak
	{Name: "public-missing", Class: "unresolvable", Fate: "notexist", Dep: "notexist", Lsi: true, Plant: func(impCtx) impPlant {
		return impPlant{Stmts: []string{"import public " + protoQuote("nope/missing.proto") + ";"}}
	}},
	{Name: "weak-missing", Class: "unresolvable", Fate: "notexist", Dep: "notexist", Lsi: true, Plant: func(impCtx) impPlant {
		return impPlant{Stmts: []string{"import weak " + protoQuote("nope/missing.proto") + ";"}}
	}},
	{Name: "public-dotdot", Class: "unresolvable", Fate: "invalid", Dep: "invalid", Lsi: true, Sensitive: true, Plant: func(impCtx) impPlant {
		return impPlant{Stmts: []string{"import public " + protoQuote("../sib1/b.proto") + ";"}, Out: []string{"../sib1/b.proto"}}
	}},
	{Name: "weak-dot-slash", Class: "unresolvable", Fate: "notnormal", Dep: "ok", Lsi: true, Sensitive: true, Plant: func(impCtx) impPlant {
		return impPlant{Stmts: []string{"import weak " + protoQuote("./zz/x.proto") + ";"}, In: zz}
	}},
	// --- controls: the statement is fine
	onePath("existing", "resolves", "file", "ok", false, false, "zz/x.proto", zz),
	onePath("existing-unicode-space", "resolves", "file", "ok", false, false, "uni/日本 語.proto", map[string]string{"uni/日本 語.proto": ""}),
	onePath("wkt-existing", "resolves", "wkt", "ok", false, false, "google/protobuf/empty.proto", nil),
}

func impKindNamed(name string) *impKind {
	for i := range impKinds {
		if impKinds[i].Name == name {
			return &impKinds[i]
		}
	}
	panic("no import kind " + name)
}

// renderImports: a file of package pkg with the given import statements (from line lead+5 on)
// and one message.
func renderImports(pkg, msg string, lead int, stmts []string) string {
	var b strings.Builder
	for i := 0; i < lead; i++ {
		b.WriteString(fmt.Sprintf("// leading comment %d\n", i+1))
	}
	b.WriteString("syntax = \"proto3\";\n\npackage " + pkg + ";\n\n")
	for _, l := range stmts {
		b.WriteString(l + "\n")
	}
	if len(stmts) > 0 {
		b.WriteString("\n")
	}
	b.WriteString("message " + msg + " {\n  string x = 1;\n}\n")
	return b.String()
}

var nonIdent = regexp.MustCompile(`[^a-z0-9]+`)

func (c *phaseCase) buildImport() {
	k := c.Imp
	c.KindN = "import:" + k.Name
	roleIdx := map[string]int{"t": 0, "s": 1, "o": 2}
	modOf := func(role string) string {
		if !c.Multi {
			return ""
		}
		return []string{"m1/", "m1/", "m2/"}[roleIdx[role]]
	}
	mod := modOf(c.Loc)
	peerRole := "o"
	if c.Loc == "o" {
		peerRole = "t"
	}
	x := impCtx{Self: c.Names[roleIdx[c.Loc]], Peer: c.Names[roleIdx[peerRole]], Root: c.Root, Lead: c.Lead}
	pl := k.Plant(x)
	// buf.yaml
	yaml := bufYAML
	if c.Multi || len(pl.Excludes) > 0 {
		mods := []string{"."}
		if c.Multi {
			mods = []string{"m1", "m2"}
		}
		sec := "version: v2\nmodules:\n"
		for _, m := range mods {
			sec += "  - path: " + m + "\n"
			if len(pl.Excludes) > 0 && (m == "." || m+"/" == mod) {
				sec += "    excludes:\n"
				for _, e := range pl.Excludes {
					sec += "      - " + mod + e + "\n"
				}
			}
		}
		yaml = strings.Replace(bufYAML, "version: v2\n", sec, 1)
	}
	c.Files = map[string]string{"buf.yaml": yaml}
	c.Against = map[string]string{"buf.yaml": yaml}
	c.Outside = map[string]string{}
	plantedOnAgainst := c.Cmd == "breaking" && c.Side == "against"
	for role, i := range roleIdx {
		pkg, msg := []string{"p", "p", "q"}[i], []string{"T", "S", "O"}[i]
		var goodStmts []string
		if c.Linked && role == "t" && c.Loc != "t" {
			// the target imports the planted file (by the name its module gives it)
			goodStmts = []string{importStmt(x.Self)}
		}
		good := renderImports(pkg, msg, c.Lead, goodStmts)
		bad := good
		switch {
		case role == c.Loc:
			bad = renderImports(pkg, msg, c.Lead, pl.Stmts)
		case role == peerRole && pl.PeerStmt != "":
			bad = renderImports(pkg, msg, c.Lead, []string{pl.PeerStmt})
		}
		if plantedOnAgainst {
			c.Files[c.file(role)], c.Against[c.file(role)] = good, bad
		} else {
			c.Files[c.file(role)], c.Against[c.file(role)] = bad, good
		}
	}
	// further files of the planted file's module (the same on both sides)
	for name, stmt := range pl.In {
		id := nonIdent.ReplaceAllString(strings.ToLower(name), "")
		var stmts []string
		if stmt != "" {
			stmts = []string{stmt}
		}
		src := renderImports("x"+id, "X"+id, c.Lead, stmts)
		plain := renderImports("x"+id, "X"+id, c.Lead, nil)
		if plantedOnAgainst {
			c.Files[mod+name], c.Against[mod+name] = plain, src
		} else {
			c.Files[mod+name], c.Against[mod+name] = src, plain
		}
	}
	// files outside the module, where the import paths that leave it point
	outside := renderImports("outside", "Outside", 0, nil)
	for _, rel := range pl.Out {
		for _, side := range []string{"work", "against"} {
			if side == "against" && c.Cmd != "breaking" {
				continue
			}
			c.Outside[filepath.Join(c.Root, side, mod, filepath.FromSlash(rel))] = outside
		}
	}
	for _, abs := range pl.OutAbs {
		c.Outside[abs] = outside
	}
	for _, a := range pl.Args {
		c.Extra = append(c.Extra, strings.ReplaceAll(a, "{mod}", mod))
	}
	c.Line = c.Lead + 5 + pl.Bad
	c.Stmt = pl.Stmts[pl.Bad]
	c.Where = []impPos{{File: c.file(c.Loc), Line: c.Line, Cols: len(c.Stmt)}}
	for _, name := range pl.Cycle {
		c.Where = append(c.Where, impPos{File: mod + name, Line: c.Lead + 5, Cols: len(pl.In[name])})
	}
	if pl.PeerStmt != "" {
		c.Where = append(c.Where, impPos{File: c.file(peerRole), Line: c.Lead + 5, Cols: len(pl.PeerStmt)})
	}
	if c.Linked && c.Loc != "t" && len(c.Where) > 1 {
		// the target imports a file of the cycle: its task, waiting for that import, may be the one
		// that sees the closed chain first - the annotation is then on the TARGET's import statement
		// (`cycle found in imports: "t.proto" -> "s.proto" -> "cyc/a.proto" -> "s.proto"`)
		c.Where = append(c.Where, impPos{File: c.file("t"), Line: c.Lead + 5, Cols: len(importStmt(x.Self))})
	}
}

// importFormatDiff: does `buf format -d` show a difference - the formatter's own output (computed
// here) of a file the input form targets differs from the file.
func (c phaseCase) importFormatDiff() bool {
	t := c.file("t")
	for name, src := range c.Files {
		if !strings.HasSuffix(name, ".proto") {
			continue
		}
		targeted := c.formTargets(name) && (c.Form != "fileipf" || name == t)
		for _, e := range c.Extra {
			// --exclude-path <dir>
			if e != "--exclude-path" && strings.HasPrefix(name, e+"/") {
				targeted = false
			}
		}
		if c.Imp != nil && c.Imp.Name == "excluded-in-buf-yaml" && strings.Contains(name, "ex/e.proto") {
			targeted = false
		}
		if !targeted {
			continue
		}
		if out, err := apiFormat(name, src); err == nil && out != src {
			return true
		}
	}
	return false
}

// importCases: the stratified selection (quick) / the product (thorough) of the import family.
func importCases(r *hx.Rand, thorough bool, seed uint64) []phaseCase {
	var out []phaseCase
	type cs struct{ cmd, side string }
	compile := []cs{{"lint", ""}, {"build", ""}, {"breaking", "input"}, {"breaking", "against"}}
	others := []cs{{"format", ""}, {"lsfiles", ""}, {"lsimports", ""}, {"depgraph", ""}}
	locs := []string{"t", "s", "o"}
	// the input forms under which the file with the role is compiled
	formsFor := func(loc string, multi bool) []string {
		switch loc {
		case "t":
			if multi {
				return []string{"dir", "dot", "file", "fileipf", "path", "moddir", "tar"}
			}
			return []string{"dir", "dot", "file", "fileipf", "path", "tar"}
		case "s":
			if multi {
				return []string{"dir", "dot", "fileipf", "moddir", "tar"}
			}
			return []string{"dir", "dot", "fileipf", "tar"}
		}
		return []string{"dir", "dot", "tar"}
	}
	add := func(k *impKind, cm cs, form, loc string, multi, linked bool) {
		if k.TwoMods {
			multi = true
		}
		if form == "moddir" && !multi {
			form = "dir"
		}
		if cm.cmd == "depgraph" && form != "dir" && form != "dot" {
			form = "dir"
		}
		if cm.cmd == "breaking" && form == "path" {
			form = "file" // see phaseCases
		}
		if k.Narrow {
			// --exclude-path: lint / build / format on a directory
			if cm.cmd == "breaking" {
				cm = cs{"lint", ""}
			}
			if cm.cmd != "lint" && cm.cmd != "build" && cm.cmd != "format" {
				return
			}
			if form != "dir" && form != "dot" {
				form = "dir"
			}
		}
		c := phaseCase{Cmd: cm.cmd, Side: cm.side, Form: form, Loc: loc, Multi: multi, Lead: r.Intn(4), Names: hx.Pick(r, phaseNamePool), Imp: k, Linked: linked && loc != "t" && k.PeerStmtFree()}
		if form == "path" && !pathFlagSafe(c.Names[0]) {
			c.Names = phaseNamePool[0]
		}
		out = append(out, c)
	}
	rot := r.Intn(1000)
	multiFor := func(loc string, n int) bool { return loc == "o" && n%4 != 0 || loc != "o" && n%3 == 0 }
	if thorough {
		// every kind x location x {one of lint / build, one side of breaking, format, ls-files,
		// ls-files --include-imports, dep graph} with the input form rotating (the two seeds of a
		// thorough run take the other command of each pair and other forms); every kind whose
		// accessor error is not fs.ErrNotExist x the input forms x lint / build / breaking (either
		// side), split between the two seeds by parity
		n := int(seed % 7)
		for ki := range impKinds {
			k := &impKinds[ki]
			for li, loc := range locs {
				pair := []cs{compile[(ki+li+int(seed%2))%2], compile[2+(ki+li+int(seed%2))%2]}
				for _, cm := range append(pair, others...) {
					n++
					multi := multiFor(loc, n)
					forms := formsFor(loc, multi || k.TwoMods)
					add(k, cm, forms[(n+rot)%len(forms)], loc, multi, false)
				}
			}
		}
		cell := 0
		for ki := range impKinds {
			k := &impKinds[ki]
			if !k.Sensitive {
				continue
			}
			for fi, form := range []string{"dir", "file", "fileipf", "moddir", "tar"} {
				for ci, cm := range compile {
					cell++
					if (ki+fi+ci+int(seed%2))%2 == 1 {
						continue
					}
					loc := locs[(rot+ki+fi+ci)%3]
					if form == "file" || form == "path" {
						loc = "t"
					} else if (form == "fileipf" || form == "moddir") && loc == "o" {
						loc = "s"
					}
					add(k, cm, form, loc, form == "moddir" || loc == "o" || cell%5 == 0, false)
				}
			}
		}
		for ki := range impKinds {
			switch (ki + int(seed%3)) % 3 {
			case 0:
				add(&impKinds[ki], compile[(rot+ki)%4], "file", "s", ki%2 == 0, true)
			case 1:
				add(&impKinds[ki], compile[(rot+ki+1)%4], "dir", "o", true, true)
			default:
				add(&impKinds[ki], compile[(rot+ki+2)%4], "file", []string{"s", "o"}[ki%2], ki%2 == 1, false) // not compiled
			}
		}
		return out
	}
	n := 0
	for ki := range impKinds {
		k := &impKinds[ki]
		// (1) every kind x every location: one of lint / build / breaking (either side), the input
		// form rotating over the forms that compile the file
		for li, loc := range locs {
			n++
			multi := multiFor(loc, n+rot)
			forms := formsFor(loc, multi || k.TwoMods)
			add(k, compile[(rot+ki+li)%4], forms[(rot+n)%len(forms)], loc, multi, false)
		}
		// (2) every kind x format / ls-files / ls-files --include-imports / dep graph, the location rotating
		for oi, cm := range others {
			n++
			loc := locs[(rot+ki+oi)%3]
			multi := multiFor(loc, n+rot)
			forms := formsFor(loc, multi || k.TwoMods)
			add(k, cm, forms[(rot+n)%len(forms)], loc, multi, false)
		}
		// (3) an accessor error that is not fs.ErrNotExist: each of lint / build / breaking input /
		// breaking against sees it (the one of (1) is not repeated)
		if k.Sensitive {
			for ci, cm := range compile {
				if ci == (rot+ki)%4 {
					continue
				}
				n++
				loc := locs[(rot+ki+ci)%3]
				multi := multiFor(loc, n+rot)
				forms := formsFor(loc, multi)
				add(k, cm, forms[(rot+n)%len(forms)], loc, multi, false)
			}
		}
	}
	// (4) the planted file is compiled only because the target imports it / is not compiled at all
	for i, name := range []string{"dotdot-1", "absolute", "dot-slash", "missing", "cycle-2", "duplicate", "existing", "excluded-in-buf-yaml"} {
		k := impKindNamed(name)
		add(k, compile[(rot+i)%4], []string{"file", "path", "fileipf"}[(rot+i)%3], []string{"s", "o"}[i%2], i%2 == 1, true)
		if i < 4 {
			add(k, compile[(rot+i+1)%4], "file", []string{"s", "o"}[(i+1)%2], i%2 == 0, false)
		}
	}
	return out
}

// PeerStmtFree: the kind does not itself rewrite the peer file (then "the target imports the
// planted file" can be added without interfering)
func (k *impKind) PeerStmtFree() bool {
	return k.Name != "cycle-across-modules" && k.Name != "other-module"
}

// importPrepare: the cases of the family as a batch of background processes (see phasePrepare).
// The workspace lies three directories below the case's own scratch directory, so that `../`,
// `../../` and `../../../` point at places the harness owns.
func importPrepare(run *hx.Run, r *hx.Rand, startIdx int, bufBin, scratch string) family {
	cases := importCases(r, run.Thorough(), run.Seed)
	return phasePrepareCases(run, cases, startIdx, bufBin, func(idx int) string {
		return filepath.Join(scratch, fmt.Sprintf("im%d", idx), "l3", "l2")
	})
}

// evaluateIndependently: the five runs of a case whose outcome depends on protocompile's
// scheduler (phaseCase.independentRuns), each judged on its own: the format's own decoder reads
// every record, at least one, each on an import statement of the cycle.  Returns the number of
// annotations and the first one of the text run.
func evaluateIndependently(run *hx.Run, c phaseCase, outs map[string]procResult, fail func(class, what string)) (int, *rec) {
	wsLike := ws{Cmd: c.Cmd}
	type at struct {
		path string
		line int
	}
	var firstText *rec
	printedText := 0
	differ := false
	var textSet string
	for _, f := range allFormats {
		stream := annotationStream(wsLike, outs[f])
		var got []at
		bad := func(what string) {
			fail(map[string]string{"text": "text-disagrees", "json": "json-malformed", "msvs": "msvs-not-one-line", "junit": "junit-malformed", "github-actions": "gha-not-one-line"}[f], fmt.Sprintf("--error-format %s on an import cycle: %s: %.300q", f, what, stream))
		}
		lineDec := map[string]func(string) ([]string, bool){"text": decodeTextLine, "msvs": decodeMSVSLine, "github-actions": decodeGHALine}[f]
		switch {
		case lineDec != nil:
			for _, l := range splitLines(stream) {
				fs, ok := lineDec(l)
				if !ok {
					bad("a line that is no record of the format")
					continue
				}
				n, _ := strconv.Atoi(fs[1])
				got = append(got, at{hx.Dec(fs[0]), n})
				if f == "text" && firstText == nil {
					col, _ := strconv.Atoi(fs[2])
					firstText = &rec{Path: hx.Dec(fs[0]), HasPath: true, SL: n, SC: col, Msg: hx.Dec(fs[3])}
				}
			}
		case f == "json":
			recs, err := parseJSONLines(stream)
			if err != nil {
				bad(err.Error())
			}
			for _, r := range recs {
				got = append(got, at{r.Path, r.SL})
			}
		case f == "junit" && strings.TrimSpace(stream) == "":
			// nothing was printed (the status clauses speak about that)
		case f == "junit":
			suites, err := parseJUnit(stream)
			if err != nil {
				bad(err.Error())
				break
			}
			for _, su := range suites.Suites {
				for _, cs := range su.Cases {
					if len(cs.Failures) != 1 {
						bad("a testcase without exactly one failure")
						continue
					}
					fs, ok := decodeTextLine(cs.Failures[0].Message)
					if !ok {
						bad("a failure message that is no text record")
						continue
					}
					n, _ := strconv.Atoi(fs[1])
					got = append(got, at{hx.Dec(fs[0]), n})
				}
			}
		}
		if outs[f].exit == 100 && len(got) == 0 {
			fail("exit-100-mismatch", fmt.Sprintf("exit=100 with --error-format %s but no annotation was printed: stdout=%.200q stderr=%.200q", f, outs[f].stdout, outs[f].stderr))
		}
		var set []string
		for _, g := range got {
			on := false
			for _, w := range c.Where {
				wantPath := w.File
				if c.Side == "against" && c.Form != "tar" {
					wantPath = "../against/" + w.File
				}
				on = on || g.path == wantPath && g.line == w.Line
			}
			if !on {
				fail("source-problem-position", fmt.Sprintf("--error-format %s on an import cycle: an annotation at %q line %d, the import statements of the cycle are %v", f, g.path, g.line, c.Where))
			}
			set = append(set, fmt.Sprintf("%s:%d", g.path, g.line))
		}
		if f == "text" {
			printedText, textSet = len(got), strings.Join(set, " ")
		} else if strings.Join(set, " ") != textSet {
			differ = true
		}
	}
	if differ {
		run.Count("import:cycle-annotations-differ-between-runs(as coded)")
	}
	run.Count("import:cycle-runs-judged-independently")
	return printedText, firstText
}

func importCounters(run *hx.Run, c phaseCase, exit int) {
	k := c.Imp
	run.Distinct(fmt.Sprintf("import:%s:%s:%s:%s:%s:%v:%v", c.Cmd, c.Side, c.Form, k.Name, c.Loc, c.Multi, c.Linked))
	run.Count("import:cmd=" + c.Cmd + map[string]string{"": "", "input": "", "against": ":against-side"}[c.Side])
	run.Count("import:input=" + c.Form)
	run.Count("import:kind=" + k.Name)
	run.Count("import:class=" + k.Class)
	run.Count("import:fate=" + k.Fate)
	run.Count("import:in=" + c.Loc)
	run.Count(fmt.Sprintf("import:%s:exit=%d", c.Cmd, exit))
	if c.Multi {
		run.Count("import:two-modules")
	}
	if c.Linked {
		run.Count("import:compiled-as-import-of-the-target")
	}
	if k.Dep == "invalid" && c.Cmd == "depgraph" {
		run.Count("import:dep-graph-invalid-path-status-1(as coded)")
	}
}

// ---------------------------------------------------------------------------------------
// (b) generated import paths through the real BuildImage / ModuleDeps (probe of part iii)

var errProbeExe string // set by buildErrProbe

type impProbeCase struct {
	Files    map[string]string `json:"files"` // name (m1/…, m2/… = two modules) -> source
	Importer string            `json:"importer"`
	Path     string            `json:"import_path"`
	Stmt     string            `json:"statement"`
	Line     int               `json:"line"`
	Col      int               `json:"column_of_the_path"`
}

var impProbeFilePool = []string{"a.proto", "sub/x.proto", "sub/deep/y.proto", "x y.proto", "日本/ファイル.proto", "google/protobuf/empty.proto", "zz/x.proto", "sub.proto/inner.proto"}

func genImportPath(r *hx.Rand, existing []string) string {
	wkt := datawkt.AllFilePaths
	switch r.Intn(10) {
	case 0:
		return hx.Pick(r, existing)
	case 1:
		return hx.Pick(r, wkt)
	case 2:
		return hx.Pick(r, []string{"", ".", "..", "/", "./", "../", "nope.proto", "nope/missing.proto", "google/protobuf/nope.proto", "sub", "sub/", "/a.proto", `sub\x.proto`, "a.proto ", " a.proto", "A.proto"})
	}
	// decorate a base path: ./, //, /./, dir/../, leading ../ or /, trailing /
	base := hx.Pick(r, append(append([]string{"nope.proto", "sub/nope.proto"}, existing...), hx.Pick(r, wkt)))
	comps := strings.Split(base, "/")
	var outc []string
	for i, c := range comps {
		switch r.Intn(9) {
		case 0:
			outc = append(outc, ".")
		case 1:
			outc = append(outc, "")
		case 2:
			outc = append(outc, hx.Pick(r, []string{"zz", "sub", "q"}), "..")
		case 3:
			if i == 0 {
				for j := 0; j <= r.Intn(3); j++ {
					outc = append(outc, "..")
				}
			}
		}
		outc = append(outc, c)
	}
	p := strings.Join(outc, "/")
	switch r.Intn(8) {
	case 0:
		p = "/" + p
	case 1:
		p += "/"
	case 2:
		p = "./" + p
	}
	return p
}

func genImpProbeCase(r *hx.Rand) impProbeCase {
	two := r.Chance(1, 4)
	c := impProbeCase{Files: map[string]string{}}
	var existing []string
	n := 1 + r.Intn(4)
	for i := 0; i < n; i++ {
		name := hx.Pick(r, impProbeFilePool)
		mod := ""
		if two {
			mod = hx.Pick(r, []string{"m1/", "m2/"})
		}
		dup := false
		for _, e := range existing {
			if e == name {
				dup = true
			}
		}
		if dup {
			continue
		}
		existing = append(existing, name)
		id := nonIdent.ReplaceAllString(strings.ToLower(name), "") + strconv.Itoa(i)
		c.Files[mod+name] = renderImports("x"+id, "X"+id, 0, nil)
	}
	importer := hx.Pick(r, []string{"b.proto", "imp/b.proto", "sub/b.proto"})
	lead := r.Intn(3)
	kw := hx.Pick(r, []string{"", "", "", "public ", "weak "})
	c.Path = genImportPath(r, existing)
	if c.Path == importer {
		c.Path = "nope.proto"
	}
	c.Stmt = "import " + kw + protoQuote(c.Path) + ";"
	c.Line, c.Col = lead+5, len("import "+kw)+1
	c.Importer = importer
	if two {
		c.Importer = "m1/" + importer
	}
	c.Files[c.Importer] = renderImports("imp", "Importer", lead, []string{c.Stmt})
	return c
}

// fixed paths of the family (every kind of (a) has its path here too)
func fixedImpProbeCases() []impProbeCase {
	var out []impProbeCase
	files := func(names ...string) map[string]string {
		m := map[string]string{}
		for i, n := range names {
			m[n] = renderImports("x"+strconv.Itoa(i), "X"+strconv.Itoa(i), 0, nil)
		}
		return m
	}
	for _, p := range []string{"nope/missing.proto", "/usr/include/b.proto", "../sibling/b.proto", "../../sibling/b.proto", "../../../sibling/b.proto", "./a.proto", "zz//x.proto", "zz/", "zz/x.proto/",
		`zz\x.proto`, "no such file.proto", "日本/ない.proto", "zz", "sub.proto", "google/protobuf/nope.proto", "google/protobuf/empty.proto", "./google/protobuf/empty.proto", "", ".", "..",
		"zz/../a.proto", "zz/../../a.proto", "zz/./x.proto", "a.proto", "zz/x.proto", "x y.proto"} {
		for _, kw := range []string{"", "public ", "weak "} {
			if kw != "" && p != "nope/missing.proto" && p != "../sibling/b.proto" && p != "./a.proto" {
				continue
			}
			c := impProbeCase{Files: files("a.proto", "zz/x.proto", "x y.proto", "sub.proto/inner.proto"), Importer: "b.proto", Path: p}
			c.Stmt = "import " + kw + protoQuote(p) + ";"
			c.Line, c.Col = 5, len("import "+kw)+1
			c.Files["b.proto"] = renderImports("imp", "Importer", 0, []string{c.Stmt})
			out = append(out, c)
		}
	}
	return out
}

func importProbeCases(run *hx.Run, r *hx.Rand, idx *int, do func(func())) {
	if errProbeExe == "" {
		return // error-probe-not-buildable was reported by part (iii)
	}
	cases := fixedImpProbeCases()
	nRandom := run.N(400, 1500)
	for i := 0; i < nRandom; i++ {
		cases = append(cases, genImpProbeCase(r.Fork(uint64(i))))
	}
	var in strings.Builder
	for _, c := range cases {
		names := make([]string, 0, len(c.Files))
		for n := range c.Files {
			names = append(names, n)
		}
		sort.Strings(names)
		var fs []string
		for _, n := range names {
			fs = append(fs, hx.Enc(n)+":"+hx.Enc(c.Files[n]))
		}
		in.WriteString("imp\t" + hx.Enc(c.Importer) + "\t" + strings.Join(fs, ";") + "\n")
	}
	cmd := exec.Command(errProbeExe)
	cmd.Stdin = strings.NewReader(in.String())
	var so, se bytes.Buffer
	cmd.Stdout, cmd.Stderr = &so, &se
	if err := cmd.Run(); err != nil {
		run.Fail(hx.OracleFailure{Class: "panic", What: fmt.Sprintf("error probe crashed on the import cases: %v: %.400s", err, se.String()), Input: "error probe", Replay: "harness c20"})
		return
	}
	answers := strings.Split(strings.TrimSuffix(so.String(), "\n"), "\n")
	if len(answers) != len(cases) {
		run.Fail(hx.OracleFailure{Class: "panic", What: fmt.Sprintf("error probe answered %d of %d import lines", len(answers), len(cases)), Input: "error probe", Replay: "harness c20"})
		return
	}
	wkt := make([]string, len(datawkt.AllFilePaths))
	for i, p := range datawkt.AllFilePaths {
		wkt[i] = hx.Enc(p)
	}
	ansRe := regexp.MustCompile(`^build=(\d+):(\d+):([01]) at=(\S+) deps=(\d+):(\d+):([01])$`)
	for i, c := range cases {
		c, ans := c, answers[i]
		do(func() {
			replay := fmt.Sprintf("harness c20 --seed %d --tier %s --only %d", run.Seed, run.Tier, *idx)
			// the model's view: the .proto files of the module set by module-relative name
			var files []string
			for n := range c.Files {
				files = append(files, hx.Enc(strings.TrimPrefix(strings.TrimPrefix(n, "m1/"), "m2/")))
			}
			sort.Strings(files)
			importer := strings.TrimPrefix(c.Importer, "m1/")
			line := strings.Join([]string{"imp", strings.Join(files, ";"), strings.Join(wkt, ";"), hx.Enc(c.Path), hx.Enc(importer), strconv.Itoa(c.Line), strconv.Itoa(c.Col)}, "\t")
			m := ansRe.FindStringSubmatch(ans)
			if m == nil {
				run.Fail(hx.OracleFailure{Class: "panic", What: "error probe on an import statement: " + ans, Input: c, Replay: replay})
				run.Case(line, ans, true)
				return
			}
			bExit, _ := strconv.Atoi(m[1])
			bPrinted, _ := strconv.Atoi(m[2])
			bFailure := m[3] == "1"
			// the property on what BuildImage returns for a file whose only problem is one import
			// statement (implementation only): through a controller method it is nothing, or printed
			// as an annotation at the statement with status 100 and no Failure line
			if bExit != 0 && (bExit != 100 || bPrinted == 0 || bFailure) {
				run.Fail(hx.OracleFailure{Class: "source-problem-not-annotated", What: fmt.Sprintf("bufimage.BuildImage on a module whose only problem is the statement `%s` in %s: returned through a controller method the error gives exit=%d annotations printed=%d failure line=%v (want 100 / 1 / none): an import that cannot be resolved is a problem in the user's sources whatever the reason", c.Stmt, importer, bExit, bPrinted, bFailure), Input: c, Replay: replay})
			}
			if bPrinted > 0 {
				if want := fmt.Sprintf("%s:%d:%d", hx.Enc(importer), c.Line, c.Col); m[4] != want {
					got := strings.SplitN(m[4], ":", 2)
					run.Fail(hx.OracleFailure{Class: "source-problem-position", What: fmt.Sprintf("bufimage.BuildImage: the annotation for `%s` is at %s:%s, the path literal of the statement is at %s:%d:%d", c.Stmt, hx.Dec(got[0]), got[1], importer, c.Line, c.Col), Input: c, Replay: replay})
				}
			}
			run.Case(line, ans, bExit != 0)
			run.Count(fmt.Sprintf("import-probe:build=%s deps=%s", m[1], m[5]))
			if strings.Contains(c.Importer, "m1/") {
				run.Count("import-probe:two-modules")
			}
		})
	}
}
