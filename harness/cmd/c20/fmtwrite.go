// Part (v) of the C20 harness: `buf format` output modes at the level of FILE CONTENTS.
//
// The verdict of `format --exit-code` ("a difference exists") and of the run after `-w`
// ("nothing to report") is only right when the modes that write do write the formatter's output,
// all of it and nothing else.  Part (ii) plants one kind of unformatted file whose formatted form
// has the SAME length; here the planted files are variants of a canonical file that SHRINK when
// formatted (runs of blank lines, trailing whitespace, extra indentation, redundant `;`, spaces
// inside brackets, long runs of spaces between tokens, blank lines at either end, CRLF line ends,
// a UTF-8 BOM), keep their length, or GROW (one-line bodies, no final newline); regular, read-only
// and symlinked files; several changed files in one run.
//
//	W  `-w` / `-w --exit-code` / `-d -w` / `-d -w --exit-code` x input directory, ".", single file,
//	   --path file, --path directory, --exclude-path, --path + --exclude-path, module directory,
//	   --disable-symlinks; a few runs under an unprivileged user id (the harness being root), where a
//	   read-only file refuses the open: the walk stops there (as coded), status 1.  After the run EVERY file on disk (symlink targets included) is
//	   compared byte for byte with the formatter's own output for it (Go API: protocompile parser
//	   + bufformat.FormatFileNode, computed in the harness) resp. with its old content if it is
//	   not targeted; file modes and symlinks are as they were; no file appeared or vanished.  The
//	   second run with the same flags must exit 0, print nothing and change nothing; so must
//	   `format -d --exit-code` afterwards.  Protocol: one `fmtw` line (the Lean walk model
//	   `formatWrite` on the same files) + the `exit format` lines of both runs.
//	O  `-o` to an EXISTING non-empty directory (stale longer versions of the same files, a foreign
//	   file) / an existing longer file / a location that is a regular file.
//	D  `-d` with and without `--exit-code` x every input form (directory, ".", file, --path,
//	   --exclude-path, module directory, archive; `file.proto#include_package_files=true` and an
//	   image are rejected) x which files differ (none, only the first, only the last, only the
//	   middle one, all): status 100 exactly with --exit-code and a targeted file that differs,
//	   one `diff -u` header per differing targeted file.
package main

import (
	"fmt"
	"os"
	"path/filepath"
	"sort"
	"strings"
	"sync"

	"github.com/bufbuild/verifharness/internal/hx"
)

// canonical text of a file (checked against the formatter before use)
func canonProto(pkg, tag string) string {
	return "syntax = \"proto3\";\n\npackage " + pkg + ";\n\n// " + tag + " carries a few fields.\nmessage Msg" + tag + " {\n" +
		"  string field_a = 1;\n  int32 field_b = 2 [deprecated = true];\n  repeated string field_c = 3;\n}\n\n" +
		"enum Enum" + tag + " {\n  ENUM_" + strings.ToUpper(tag) + "_UNSPECIFIED = 0;\n  ENUM_" + strings.ToUpper(tag) + "_ONE = 1;\n}\n"
}

var uglyVariants = []string{"formatted", "blank-runs", "trailing-ws", "indent", "semicolons", "bracket-spaces", "token-spaces", "leading-blank",
	"trailing-blank", "equal", "oneline", "no-final-newline", "blank-runs-no-final-newline", "crlf", "bom", "bom-crlf-blank"}

func uglify(variant, canon string) string {
	switch variant {
	case "formatted":
		return canon
	case "blank-runs":
		return strings.ReplaceAll(canon, "\n\n", "\n\n\n\n\n\n")
	case "trailing-ws":
		return strings.ReplaceAll(canon, ";\n", ";   \t \n")
	case "indent":
		return strings.ReplaceAll(canon, "\n  ", "\n              ")
	case "semicolons":
		return strings.ReplaceAll(canon, "= 1;\n", "= 1;;;\n")
	case "bracket-spaces":
		return strings.ReplaceAll(canon, "[deprecated = true]", "[     deprecated   =   true     ]")
	case "token-spaces":
		return strings.ReplaceAll(strings.ReplaceAll(canon, " = ", "        =        "), "string field", "string          field")
	case "leading-blank":
		return "\n\n\n\n" + canon
	case "trailing-blank":
		return canon + "\n\n\n\n\n"
	case "equal":
		// one space less here, one more there
		return strings.Replace(strings.Replace(canon, " {\n  string", "{\n   string", 1), "enum ", "enum ", 1)
	case "oneline":
		return strings.Replace(canon, " {\n  string field_a = 1;\n  int32 field_b = 2 [deprecated = true];\n  repeated string field_c = 3;\n}\n",
			"{string field_a=1;int32 field_b=2[deprecated=true];repeated string field_c=3;}\n", 1)
	case "no-final-newline":
		return strings.TrimSuffix(canon, "\n")
	case "blank-runs-no-final-newline":
		return strings.TrimSuffix(strings.ReplaceAll(canon, "\n\n", "\n\n\n\n\n"), "\n")
	case "crlf":
		return strings.ReplaceAll(canon, "\n", "\r\n")
	case "bom":
		return "\xef\xbb\xbf" + canon
	case "bom-crlf-blank":
		return "\xef\xbb\xbf" + strings.ReplaceAll(strings.ReplaceAll(canon, "\n\n", "\n\n\n\n"), "\n", "\r\n")
	case "syntax-error":
		return strings.Replace(canon, "string field_a = 1;", "string field_a = 1", 1)
	}
	panic("unknown variant " + variant)
}

type wfile struct {
	Name    string `json:"name"`   // workspace-relative
	Module  string `json:"module"` // "" | m1 | m2
	Variant string `json:"variant"`
	FS      string `json:"fs"` // regular | readonly | symlink
	Src     string `json:"content"`
	Ref     string `json:"formatter_output"`
	RefOK   bool   `json:"parses"`
	Target  bool   `json:"targeted"`
	Shape   string `json:"shape,omitempty"`                  // part (vi): how the text is built
	Size    int    `json:"formatter_output_bytes,omitempty"` // part (vi)
}

func (f wfile) rel() string { return strings.TrimPrefix(f.Name, f.Module+"/") }
func (f wfile) want() string {
	if f.Target && f.RefOK {
		return f.Ref
	}
	return f.Src
}
func (f wfile) changed() bool { return f.Target && f.RefOK && f.Ref != f.Src }

type writeSpec struct {
	Family   string   `json:"family"` // W | O | D
	Files    []wfile  `json:"files"`
	Multi    bool     `json:"two_modules"`
	Input    string   `json:"input"`
	Mode     string   `json:"mode"` // letters d w o e
	NoLinks  bool     `json:"disable_symlinks"`
	AsUser   bool     `json:"as_unprivileged_user"` // buf runs as `nobody` (the harness being root): read-only files refuse the open
	OutKind  string   `json:"out_kind"` // O: dir | file | notadir
	InArgs   []string `json:"input_args"`
	Rejected bool     `json:"rejected"` // the input form is not accepted by buf format
}

var writeNames = []string{"a.proto", "sub/b.proto", "sub/c.proto", "z.proto", "sub/inner/d.proto"}

// newWriteFiles: n files with the given variants / fs kinds; the API output is computed here
func newWriteFiles(run *hx.Run, variants, fss []string, multi bool) []wfile {
	var out []wfile
	for i, v := range variants {
		f := wfile{Name: writeNames[i%len(writeNames)], Variant: v, FS: fss[i%len(fss)]}
		if multi {
			f.Module = []string{"m1", "m2"}[i%2]
			f.Name = f.Module + "/" + f.Name
		}
		tag := string(rune('A' + i))
		canon := canonProto(fmt.Sprintf("pkg%d", i), tag)
		f.Src = uglify(v, canon)
		ref, err := apiFormat(f.Name, f.Src)
		f.Ref, f.RefOK = ref, err == nil
		if f.RefOK {
			// the second-run clause needs a formatter that reproduces its own output on this text
			// (C07's property); a variant where it does not is replaced by the canonical text
			if again, err2 := apiFormat(f.Name, ref); err2 != nil || again != ref {
				run.Count("write:variant-not-idempotent:" + v)
				f.Variant, f.Src = "formatted", canon
				f.Ref, _ = apiFormat(f.Name, canon)
			}
		}
		out = append(out, f)
	}
	return out
}

// settle computes the input arguments and the targeted files
func (s *writeSpec) settle() {
	pick := func(pred func(wfile) bool) {
		for i := range s.Files {
			s.Files[i].Target = pred(s.Files[i])
		}
	}
	all := func(wfile) bool { return true }
	last := s.Files[len(s.Files)-1]
	switch s.Input {
	case "dir":
		pick(all)
	case "dot":
		s.InArgs = []string{"."}
		pick(all)
	case "file":
		s.InArgs = []string{last.Name}
		pick(func(f wfile) bool { return f.Name == last.Name })
	case "file0":
		s.InArgs = []string{s.Files[0].Name}
		pick(func(f wfile) bool { return f.Name == s.Files[0].Name })
	case "path":
		s.InArgs = []string{"--path", last.Name}
		pick(func(f wfile) bool { return f.Name == last.Name })
	case "pathdir":
		d := "sub"
		if s.Multi {
			d = "m1/sub"
		}
		s.InArgs = []string{"--path", d}
		pick(func(f wfile) bool { return strings.HasPrefix(f.Name, d+"/") })
	case "excl":
		s.InArgs = []string{"--exclude-path", s.Files[0].Name}
		pick(func(f wfile) bool { return f.Name != s.Files[0].Name })
	case "pathexcl":
		d := "sub"
		if s.Multi {
			d = "m1/sub"
		}
		ex := ""
		for _, f := range s.Files {
			if strings.HasPrefix(f.Name, d+"/") {
				ex = f.Name
			}
		}
		s.InArgs = []string{"--path", d, "--exclude-path", ex}
		pick(func(f wfile) bool { return strings.HasPrefix(f.Name, d+"/") && f.Name != ex })
	case "moddir":
		s.InArgs = []string{"m1"}
		pick(func(f wfile) bool { return f.Module == "m1" })
	case "tar":
		s.InArgs = []string{"../ws.tar"}
		pick(all)
	case "fileipf":
		s.InArgs = []string{last.Name + "#include_package_files=true"}
		s.Rejected = true
		pick(func(wfile) bool { return false })
	case "image":
		s.InArgs = []string{"../img.binpb"}
		s.Rejected = true
		pick(func(wfile) bool { return false })
	default:
		panic("unknown input " + s.Input)
	}
	if s.NoLinks {
		s.InArgs = append(s.InArgs, "--disable-symlinks")
		for i := range s.Files {
			if s.Files[i].FS == "symlink" {
				s.Files[i].Target = false
			}
		}
	}
}

func (s writeSpec) has(c byte) bool { return strings.IndexByte(s.Mode, c) >= 0 }

func (s writeSpec) files() map[string]string {
	yaml := bufYAML
	if s.Multi {
		yaml = strings.Replace(bufYAML, "version: v2\n", "version: v2\nmodules:\n  - path: m1\n  - path: m2\n", 1)
	}
	m := map[string]string{"buf.yaml": yaml}
	for _, f := range s.Files {
		m[f.Name] = f.Src
	}
	return m
}

// materialise writes the workspace: regular files, read-only files, symlinks into ../outside
func (s writeSpec) materialise(root string) {
	dir := filepath.Join(root, "work")
	must := func(err error) {
		if err != nil {
			panic(err)
		}
	}
	must(os.MkdirAll(dir, 0o755))
	yaml := s.files()["buf.yaml"]
	must(os.WriteFile(filepath.Join(dir, "buf.yaml"), []byte(yaml), 0o644))
	for i, f := range s.Files {
		full := filepath.Join(dir, f.Name)
		must(os.MkdirAll(filepath.Dir(full), 0o755))
		switch f.FS {
		case "symlink":
			target := filepath.Join(root, "outside", fmt.Sprintf("real%d.proto", i))
			must(os.MkdirAll(filepath.Dir(target), 0o755))
			must(os.WriteFile(target, []byte(f.Src), 0o644))
			must(os.Symlink(target, full))
		case "readonly":
			must(os.WriteFile(full, []byte(f.Src), 0o444))
			must(os.Chmod(full, 0o444))
		default:
			must(os.WriteFile(full, []byte(f.Src), 0o644))
		}
	}
}

type diskState struct {
	content map[string]string      // relative path (work dir and ../outside) -> content, symlinks followed
	mode    map[string]os.FileMode // Lstat mode
}

func readDisk(root string) diskState {
	st := diskState{content: map[string]string{}, mode: map[string]os.FileMode{}}
	for _, top := range []string{"work", "outside"} {
		base := filepath.Join(root, top)
		_ = filepath.Walk(base, func(p string, info os.FileInfo, err error) error {
			if err != nil || info.IsDir() {
				return nil
			}
			rel, _ := filepath.Rel(root, p)
			b, _ := os.ReadFile(p)
			st.content[filepath.ToSlash(rel)] = string(b)
			st.mode[filepath.ToSlash(rel)] = info.Mode()
			return nil
		})
	}
	return st
}

const nobodyUID = 65534

// dropped: this job runs buf as `nobody` (only when the harness itself is root)
func (j *writeJob) dropped() bool { return j.s.AsUser && os.Geteuid() == 0 && canDropTo(j.root) }

// canDropTo: `nobody` can only run buf when every directory on the way to the binary and the
// scratch tree is searchable by it (a checkout under /root is not). Probed once with the real
// binary; when it cannot, the jobs run as root and the read-only cases are those root itself
// cannot open (none, normally) — the oracle follows canOpenForWrite either way.
var (
	dropOnce sync.Once
	dropOK   bool
	dropBin  string
)

func canDropTo(root string) bool {
	dropOnce.Do(func() {
		probe := filepath.Join(filepath.Dir(root), ".dropprobe")
		if os.MkdirAll(probe, 0o755) != nil {
			return
		}
		defer os.RemoveAll(probe)
		_ = os.Lchown(probe, nobodyUID, nobodyUID)
		dropOK = dropBin != "" && runBufAs(nobodyUID, dropBin, probe, "--version").exit == 0
	})
	return dropOK
}

func (j *writeJob) buf(bufBin, dir string, args ...string) procResult {
	if j.dropped() {
		return runBufAs(nobodyUID, bufBin, dir, args...)
	}
	return runBuf(bufBin, dir, args...)
}

func chownTree(root string, uid int) {
	_ = filepath.Walk(root, func(p string, info os.FileInfo, err error) error {
		if err == nil {
			_ = os.Lchown(p, uid, uid)
		}
		return nil
	})
}

func canOpenForWrite(p string) bool {
	f, err := os.OpenFile(p, os.O_WRONLY, 0)
	if err != nil {
		return false
	}
	_ = f.Close()
	return true
}

func diffHeaders(stdout string) []string {
	var out []string
	for _, l := range strings.Split(stdout, "\n") {
		if strings.HasPrefix(l, "diff -u ") {
			f := strings.Fields(l)
			out = append(out, f[len(f)-1])
		}
	}
	return out
}

type writeJob struct {
	idx        int
	s          writeSpec
	root       string
	args       []string
	openable   map[string]bool
	before     diskState
	r1, r2, r3 procResult
	after1     diskState
	after2     diskState
	after3     diskState
	outBefore  map[string]string
	outAfter   map[string]string
}

func (s writeSpec) cmdline(errFormat string) []string {
	args := append([]string{"format"}, s.InArgs...)
	if s.has('d') {
		args = append(args, "-d")
	}
	if s.has('w') {
		args = append(args, "-w")
	}
	if s.has('o') {
		switch s.OutKind {
		case "dir":
			args = append(args, "-o", "../out")
		case "file":
			args = append(args, "-o", "../outf/all.proto")
		case "notadir":
			args = append(args, "-o", "../out/junk.txt")
		}
	}
	if s.has('e') {
		args = append(args, "--exit-code")
	}
	return append(args, "--error-format", errFormat)
}

func writeSpecs(run *hx.Run, r *hx.Rand) []writeSpec {
	var out []writeSpec
	shrinking := []string{"blank-runs", "trailing-ws", "indent", "semicolons", "bracket-spaces", "token-spaces", "leading-blank", "trailing-blank",
		"blank-runs-no-final-newline", "crlf", "bom", "bom-crlf-blank"}
	other := []string{"formatted", "equal", "oneline", "no-final-newline"}
	fsKinds := []string{"regular", "readonly", "symlink"}
	rot := r.Intn(1000)
	// ---- W
	inputs := []string{"dir", "dot", "file", "path", "pathdir", "excl", "pathexcl", "moddir"}
	modes := []string{"w", "we", "dw", "dwe"}
	n := 0
	addW := func(input, mode string, variants, fss []string, nolinks bool) {
		// (with --disable-symlinks one module: a module left with symlinked files only "had no .proto files")
		multi := input == "moddir" || (input == "dir" || input == "dot") && (rot+n)%4 == 0 && !nolinks
		s := writeSpec{Family: "W", Input: input, Mode: mode, Multi: multi, NoLinks: nolinks}
		s.Files = newWriteFiles(run, variants, fss, multi)
		s.settle()
		out = append(out, s)
		n++
	}
	rounds := run.N(1, 6)
	for round := 0; round < rounds; round++ {
		for ii, input := range inputs {
			for mi, mode := range modes {
				k := rot + round*7 + ii*len(modes) + mi
				// 4 or 5 files: two that shrink, one of the others, one more of any kind; the fs kinds rotate
				vs := []string{shrinking[k%len(shrinking)], other[k%len(other)], shrinking[(k*5+3)%len(shrinking)], uglyVariants[(k*3+1)%len(uglyVariants)]}
				if k%2 == 0 {
					vs = append(vs, shrinking[(k*7+1)%len(shrinking)])
				}
				fss := []string{fsKinds[k%3], "regular", fsKinds[(k+1)%3], fsKinds[(k+2)%3], "regular"}
				addW(input, mode, vs, fss, false)
			}
		}
		// every variant alone as a single-file input, in both exit-code settings
		for vi, v := range uglyVariants {
			addW("file0", []string{"w", "we", "dwe"}[(rot+vi+round)%3], []string{v, "formatted"}, []string{fsKinds[(rot+vi+round)%3], "regular"}, false)
		}
		// --disable-symlinks: a symlinked file is not read, hence not rewritten
		addW("dir", "we", []string{"blank-runs", "indent", "crlf"}, []string{"symlink", "regular", "symlink"}, true)
		// a targeted file that does not parse: nothing is written at all
		addW("dir", "we", []string{"blank-runs", "syntax-error", "indent"}, []string{"regular"}, false)
		addW("file", "w", []string{"blank-runs", "syntax-error"}, []string{"regular"}, false)
		// nothing to do
		addW("dot", "dwe", []string{"formatted", "formatted"}, []string{"regular", "readonly"}, false)
		// as an unprivileged user: a changed read-only file refuses the open - the walk stops there
		for ui, fss := range [][]string{{"regular", "readonly", "regular", "regular"}, {"readonly", "regular", "symlink"}, {"regular", "symlink", "regular", "readonly"}, {"regular", "regular", "regular"}} {
			k := rot + round + ui
			vs := []string{shrinking[k%len(shrinking)], shrinking[(k+3)%len(shrinking)], other[1+k%3], shrinking[(k+7)%len(shrinking)]}[:len(fss)]
			addW([]string{"dir", "dot", "pathdir", "dir"}[ui], modes[(k+ui)%len(modes)], vs, fss, false)
			out[len(out)-1].AsUser = true
		}
		// a read-only file that is already formatted is never opened: no failure
		addW("dir", "we", []string{"formatted", "blank-runs", "formatted"}, []string{"readonly", "regular", "readonly"}, false)
		out[len(out)-1].AsUser = true
	}
	// ---- O
	for oi, ok := range []string{"dir", "file", "notadir", "dir", "file"} {
		for mi, mode := range []string{"o", "oe", "do", "doe"} {
			if (oi+mi+rot)%2 == 0 && !run.Thorough() && oi >= 3 {
				continue
			}
			input := []string{"dir", "file0", "dot", "moddir", "path"}[oi]
			k := rot + oi*4 + mi
			s := writeSpec{Family: "O", Input: input, Mode: mode, OutKind: ok, Multi: input == "moddir"}
			s.Files = newWriteFiles(run, []string{shrinking[k%len(shrinking)], other[k%len(other)], shrinking[(k+5)%len(shrinking)]}, []string{"regular"}, s.Multi)
			s.settle()
			out = append(out, s)
		}
	}
	// ---- D
	patterns := map[string][]bool{"none": {false, false, false}, "first": {true, false, false}, "last": {false, false, true}, "middle": {false, true, false}, "all": {true, true, true}}
	for _, input := range []string{"dir", "dot", "file", "file0", "path", "pathdir", "excl", "moddir", "tar", "fileipf", "image"} {
		for _, mode := range []string{"d", "de"} {
			for _, pn := range []string{"none", "first", "last", "middle", "all"} {
				if (input == "fileipf" || input == "image") && pn != "all" {
					continue
				}
				var vs []string
				for i, ugly := range patterns[pn] {
					if ugly {
						vs = append(vs, shrinking[(rot+i+len(out))%len(shrinking)])
					} else {
						vs = append(vs, "formatted")
					}
				}
				s := writeSpec{Family: "D", Input: input, Mode: mode, Multi: input == "moddir"}
				s.Files = newWriteFiles(run, vs, []string{"regular"}, s.Multi)
				// three files in path order a.proto < sub/b.proto < z.proto
				s.Files[2].Name = strings.Replace(s.Files[2].Name, "sub/c.proto", "z.proto", 1)
				s.settle()
				out = append(out, s)
			}
		}
	}
	return out
}

func writePrepare(run *hx.Run, r *hx.Rand, startIdx int, bufBin, scratch string) family {
	var jobs []*writeJob
	dropBin = bufBin
	specs := writeSpecs(run, r)
	for i, s := range specs {
		if idx := startIdx + i; selected(run, idx) {
			jobs = append(jobs, &writeJob{idx: idx, s: s, root: filepath.Join(scratch, fmt.Sprintf("fw%d", idx))})
		}
	}
	runs := 0
	var procs []func()
	for _, j := range jobs {
		j := j
		j.args = j.s.cmdline(allFormats[j.idx%len(allFormats)])
		procs = append(procs, func() {
			dir := filepath.Join(j.root, "work")
			j.s.materialise(j.root)
			if j.s.Input == "tar" {
				if err := writeTar(filepath.Join(j.root, "ws.tar"), j.s.files()); err != nil {
					panic(err)
				}
			}
			if j.s.Input == "image" {
				// an image of the same sources (buf format does not take images)
				_ = runBuf(bufBin, dir, "build", "-o", "../img.binpb")
			}
			if j.s.Family == "O" {
				// the -o location exists and is not empty: stale, LONGER versions of the files, a foreign file
				stale := strings.Repeat("// stale content of an earlier run, longer than anything the formatter writes\n", 40)
				_ = os.MkdirAll(filepath.Join(j.root, "out", "sub"), 0o755)
				_ = os.MkdirAll(filepath.Join(j.root, "outf"), 0o755)
				for _, f := range j.s.Files {
					p := filepath.Join(j.root, "out", f.rel())
					_ = os.MkdirAll(filepath.Dir(p), 0o755)
					_ = os.WriteFile(p, []byte(stale), 0o644)
				}
				_ = os.WriteFile(filepath.Join(j.root, "out", "junk.txt"), []byte("not ours\n"), 0o644)
				_ = os.WriteFile(filepath.Join(j.root, "outf", "all.proto"), []byte(stale), 0o644)
				j.outBefore = readTree(filepath.Join(j.root, "out"))
			}
			j.openable = map[string]bool{}
			for _, f := range j.s.Files {
				j.openable[f.Name] = canOpenForWrite(filepath.Join(dir, f.Name))
				if j.dropped() {
					// owner `nobody`: mode 0444 refuses, 0644 (also behind a symlink) allows
					j.openable[f.Name] = f.FS != "readonly"
				}
			}
			if j.dropped() {
				chownTree(j.root, nobodyUID)
			}
			j.before = readDisk(j.root)
			j.r1 = j.buf(bufBin, dir, j.args...)
			j.after1 = readDisk(j.root)
			if j.s.Family == "O" {
				j.outAfter = readTree(filepath.Join(j.root, "out"))
				if b, err := os.ReadFile(filepath.Join(j.root, "outf", "all.proto")); err == nil && j.s.OutKind == "file" {
					j.outAfter["\x00file"] = string(b)
				}
			}
			if j.s.Family == "W" {
				j.r2 = j.buf(bufBin, dir, j.args...)
				j.after2 = readDisk(j.root)
				chk := append(append([]string{"format"}, j.s.InArgs...), "-d", "--exit-code")
				j.r3 = j.buf(bufBin, dir, chk...)
				j.after3 = readDisk(j.root)
			}
		})
		runs++
		if j.s.Family == "W" {
			runs += 2
		}
	}
	return family{n: len(specs), runs: runs, procs: procs, eval: func() {
		for _, j := range jobs {
			writeEvaluate(run, j)
			// read-only files sit in directories we own: RemoveAll works
			_ = os.RemoveAll(j.root)
		}
	}}
}

func writeEvaluate(run *hx.Run, j *writeJob) {
	s := j.s
	replay := fmt.Sprintf("harness c20 --seed %d --tier %s --only %d   (files and command line are in the failure input)", run.Seed, run.Tier, j.idx)
	fail := func(class, what string) {
		in := map[string]any{"spec": s, "args": j.args}
		run.Fail(hx.OracleFailure{Class: class, What: fmt.Sprintf("format %s [family %s, input %s]: %s", strings.Join(j.args[1:], " "), s.Family, s.Input, what), Input: in, Replay: replay})
	}
	mode := s.Mode
	crash := func(p procResult) {
		if p.exit < 0 || strings.Contains(p.stderr, "panic:") || strings.Contains(p.stderr, "goroutine ") {
			fail("panic", fmt.Sprintf("buf crashed: %.300s", p.stderr))
		}
	}
	crash(j.r1)
	// planted facts
	parseFail, anyChanged, nChanged := false, false, 0
	var changedNames []string
	for _, f := range s.Files {
		if f.Target && !f.RefOK {
			parseFail = true
		}
		if f.changed() {
			anyChanged = true
			nChanged++
			changedNames = append(changedNames, f.Name)
		}
	}
	// the walk order of the rewrite: module-relative path
	walk := append([]wfile(nil), s.Files...)
	sort.SliceStable(walk, func(a, b int) bool { return walk[a].rel() < walk[b].rel() })
	blockedAt := -1 // first changed file that cannot be opened
	if !parseFail && s.has('w') {
		for i, f := range walk {
			if f.changed() && !j.openable[f.Name] {
				blockedAt = i
				break
			}
		}
	}
	wantDisk := map[string]string{}
	for i, f := range walk {
		switch {
		case !s.has('w') || parseFail || s.Rejected:
			wantDisk[f.Name] = f.Src
		case blockedAt >= 0 && i >= blockedAt:
			wantDisk[f.Name] = f.Src
		default:
			wantDisk[f.Name] = f.want()
		}
	}
	wantExit := 0
	switch {
	case s.Rejected || parseFail || blockedAt >= 0 || s.OutKind == "notadir":
		wantExit = 1
	case s.has('e') && anyChanged:
		wantExit = 100
	}
	if parseFail || s.Rejected {
		anyChanged, nChanged, changedNames = false, 0, nil
	}
	checkRun := func(label string, p procResult, before, after diskState, wantExit int, wantDisk map[string]string, wantDiffs []string, showsDiff bool) {
		failure := hasFailureLine(p.stderr)
		printed := p.stderr != "" && !failure
		// what the run shows
		headers := diffHeaders(p.stdout)
		changedOnDisk := false
		for n, c := range after.content {
			if b, ok := before.content[n]; ok && b != c {
				changedOnDisk = true
			}
		}
		observedDiff := false
		switch {
		case p.exit != 0 && p.exit != 100:
		case s.has('d') || label == "check":
			observedDiff = len(headers) > 0
		case s.has('w'):
			observedDiff = changedOnDisk
		case s.Family == "O":
			observedDiff = anyChanged // judged by content below
		}
		ec := s.has('e') || label == "check"
		if (p.exit == 0) != (!printed && !failure && !(ec && observedDiff)) {
			fail("exit-zero-mismatch", fmt.Sprintf("%s: exit=%d but annotations=%v failure=%v --exit-code=%v difference shown=%v", label, p.exit, printed, failure, ec, observedDiff))
		}
		if (p.exit == 100) != (printed || ec && observedDiff) {
			fail("exit-100-mismatch", fmt.Sprintf("%s: exit=%d but annotations=%v --exit-code=%v difference shown=%v stderr=%.200q", label, p.exit, printed, ec, observedDiff, p.stderr))
		}
		if p.exit != 0 && p.exit != 100 && !failure {
			fail("silent-operational-error", fmt.Sprintf("%s: exit=%d without any message", label, p.exit))
		}
		// against the planted facts
		if p.exit != wantExit {
			class := "format-diff-verdict"
			if label != "first run" {
				class = "format-second-run-after-write"
			}
			fail(class, fmt.Sprintf("%s: exit=%d, want %d (files that differ from the formatter's output: %v); stdout %.200q stderr %.200q", label, p.exit, wantExit, wantDiffs, p.stdout, p.stderr))
		}
		if showsDiff && wantExit != 1 {
			sort.Strings(headers)
			w := append([]string(nil), wantDiffs...)
			sort.Strings(w)
			if strings.Join(headers, "\x00") != strings.Join(w, "\x00") {
				class := "format-diff-verdict"
				if label != "first run" {
					class = "format-second-run-after-write"
				}
				fail(class, fmt.Sprintf("%s: -d names %q, the files that differ from the formatter's output are %q", label, headers, w))
			}
		} else if !showsDiff && p.stdout != "" && (s.has('w') || s.has('o')) {
			fail("format-output-wrong", fmt.Sprintf("%s: stdout should be empty in this mode: %.200q", label, p.stdout))
		}
		// EVERY file on disk, byte for byte
		for _, f := range s.Files {
			key := "work/" + f.Name
			got, ok := after.content[key]
			if !ok {
				fail("format-stray-files", fmt.Sprintf("%s: %q vanished", label, f.Name))
				continue
			}
			if got != wantDisk[f.Name] {
				what := "its old content (it is not targeted / the run must not write)"
				if wantDisk[f.Name] != f.Src {
					what = "the formatter's own output for it"
				}
				fail("format-output-wrong", fmt.Sprintf("%s: %q (%s, %s, %d bytes before, formatter output %d bytes) holds %d bytes %.160q, want %s %.160q", label, f.Name, f.Variant, f.FS,
					len(f.Src), len(f.Ref), len(got), tailDiff(got, wantDisk[f.Name]), what, tailDiff(wantDisk[f.Name], got)))
			}
			if after.mode[key] != before.mode[key] {
				fail("format-output-wrong", fmt.Sprintf("%s: the mode of %q changed from %v to %v", label, f.Name, before.mode[key], after.mode[key]))
			}
		}
		for n := range after.content {
			if _, ok := before.content[n]; !ok {
				fail("format-stray-files", fmt.Sprintf("%s: new file %q", label, n))
			}
		}
		for n := range before.content {
			if _, ok := after.content[n]; !ok {
				fail("format-stray-files", fmt.Sprintf("%s: %q vanished", label, n))
			}
		}
		if wantExit == 1 && !failure {
			fail("format-operational-verdict", fmt.Sprintf("%s: want a Failure line, stderr %.200q", label, p.stderr))
		}
	}
	var displayed []string // how -d names a changed file
	for _, n := range changedNames {
		displayed = append(displayed, n)
	}
	switch s.Family {
	case "W":
		checkRun("first run", j.r1, j.before, j.after1, wantExit, wantDisk, displayed, s.has('d'))
		// the second run: everything that could be rewritten is formatted now
		crash(j.r2)
		crash(j.r3)
		var left []string
		for i, f := range walk {
			if blockedAt >= 0 && i >= blockedAt && f.changed() {
				left = append(left, f.Name)
			}
		}
		want2 := 0
		switch {
		case parseFail || blockedAt >= 0:
			want2 = 1
		}
		checkRun("second run", j.r2, j.after1, j.after2, want2, wantDisk, left, s.has('d'))
		want3 := 0
		if parseFail {
			want3 = 1
		} else if len(left) > 0 {
			want3 = 100
		}
		checkRun("check", j.r3, j.after2, j.after3, want3, wantDisk, left, true)
	case "D":
		checkRun("first run", j.r1, j.before, j.after1, wantExit, wantDisk, displayed, true)
	case "O":
		checkRun("first run", j.r1, j.before, j.after1, wantExit, wantDisk, displayed, s.has('d'))
		var targets []wfile
		for _, f := range walk {
			if f.Target {
				targets = append(targets, f)
			}
		}
		switch s.OutKind {
		case "dir":
			for _, f := range s.Files {
				got := j.outAfter[f.rel()]
				want := j.outBefore[f.rel()]
				if f.Target {
					want = f.Ref
				}
				if got != want {
					fail("format-output-wrong", fmt.Sprintf("-o existing directory: %q holds %d bytes %.120q, want %d bytes %.120q", f.rel(), len(got), tailDiff(got, want), len(want), tailDiff(want, got)))
				}
			}
			if j.outAfter["junk.txt"] != "not ours\n" {
				fail("format-output-wrong", fmt.Sprintf("-o existing directory: the foreign file junk.txt now holds %.80q", j.outAfter["junk.txt"]))
			}
			if len(j.outAfter) != len(j.outBefore) {
				// (every targeted file had a stale version there)
				fail("format-output-wrong", fmt.Sprintf("-o existing directory: %d files before, %d after", len(j.outBefore), len(j.outAfter)))
			}
		case "file":
			want := ""
			for _, f := range targets {
				want += f.Ref
			}
			if got := j.outAfter["\x00file"]; got != want {
				fail("format-output-wrong", fmt.Sprintf("-o existing file: holds %d bytes %.120q, want the formatter's output of the %d targeted files, %d bytes %.120q", len(got), tailDiff(got, want), len(targets), len(want), tailDiff(want, got)))
			}
		case "notadir":
			for n, c := range j.outBefore {
				if j.outAfter[n] != c {
					fail("format-operational-verdict", fmt.Sprintf("the failed run modified %q in the -o location", n))
				}
			}
		}
	}
	// ---- protocol lines
	stdoutKind := func(p procResult) string {
		switch {
		case p.stdout == "":
			return "n"
		case strings.HasPrefix(p.stdout, "diff -u "):
			return "d"
		}
		return "s"
	}
	changedOn := func(a, b diskState) bool {
		for n, c := range b.content {
			if x, ok := a.content[n]; ok && x != c {
				return true
			}
		}
		return false
	}
	exitLine := func(diff bool, rewrite, output string) string {
		ctl, fstep := "o", "o"
		if s.Rejected {
			ctl = "X" // rejected directly in run, before the controller
		}
		if parseFail {
			fstep = "x"
		}
		m := mode
		if m == "" {
			m = "-"
		}
		return strings.Join([]string{"exit", "format", m, "1", ctl, fstep, b01(diff), "o", rewrite, output}, "\t")
	}
	implLine := func(p procResult, before, after diskState, wrote bool) string {
		failure := hasFailureLine(p.stderr)
		return fmt.Sprintf("exit=%d printed=%s failure=%s stdout=%s rewrote=%s wrote=%s", p.exit, b01(p.stderr != "" && !failure), b01(failure), stdoutKind(p), b01(changedOn(before, after)), b01(wrote))
	}
	switch s.Family {
	case "W":
		// the walk model on the same files
		var fields, implFiles []string
		for _, f := range walk {
			fm := "!"
			if f.RefOK {
				fm = hx.Enc(f.Ref)
			}
			fields = append(fields, strings.Join([]string{hx.Enc(f.Name), hx.Enc(f.Src), fm, b01(f.Target), b01(j.openable[f.Name])}, ","))
			implFiles = append(implFiles, hx.Enc(f.Name)+":"+hx.Enc(j.after1.content["work/"+f.Name]))
		}
		failed := j.r1.exit != 0 && j.r1.exit != 100
		diffSeen := j.r1.exit == 100 || len(diffHeaders(j.r1.stdout)) > 0 || changedOn(j.before, j.after1)
		if blockedAt >= 0 {
			// the run failed on a changed file it could not open: the difference exists (only a changed
			// file is ever opened) although the failed run may show nothing of it
			diffSeen = true
		}
		run.Case("fmtw\t"+strings.Join(fields, ";"), fmt.Sprintf("err=%s diff=%s files=%s", b01(failed), b01(diffSeen), strings.Join(implFiles, ";")), true)
		rw := "o"
		if blockedAt >= 0 {
			rw = "x"
		}
		// (a walk that stops half way has rewritten the files before the refusing one: the step model
		// has no partial rewrite - `rewrote` is the fmtw line's business then)
		l1, l2 := implLine(j.r1, j.before, j.after1, false), implLine(j.r2, j.after1, j.after2, false)
		if blockedAt >= 0 {
			l1 = strings.Replace(l1, "rewrote=1", "rewrote=0", 1)
		}
		run.Case(exitLine(anyChanged, rw, "o"), l1, j.r1.exit != 0)
		run.Case(exitLine(blockedAt >= 0, rw, "o"), l2, j.r2.exit != 0)
	case "D":
		run.Case(exitLine(anyChanged, "o", "o"), implLine(j.r1, j.before, j.after1, false), j.r1.exit != 0)
	case "O":
		outStep := "o"
		if s.OutKind == "notadir" {
			outStep = "x"
		}
		wrote := false
		for n, c := range j.outAfter {
			if j.outBefore[n] != c {
				wrote = true
			}
		}
		run.Case(exitLine(anyChanged, "o", outStep), implLine(j.r1, j.before, j.after1, wrote), j.r1.exit != 0)
	}
	// distribution
	run.Count("write:family=" + s.Family)
	run.Count("write:" + s.Family + ":input=" + s.Input)
	run.Count("write:" + s.Family + ":mode=" + s.Mode)
	run.Count(fmt.Sprintf("write:%s:exit=%d", s.Family, j.r1.exit))
	run.Count(fmt.Sprintf("write:changed-files-in-one-run=%d", min(nChanged, 4)))
	for _, f := range s.Files {
		size := "formatted"
		switch {
		case !f.RefOK:
			size = "does-not-parse"
		case f.Ref == f.Src:
		case len(f.Ref) < len(f.Src):
			size = "shrinks"
		case len(f.Ref) == len(f.Src):
			size = "same-length"
		default:
			size = "grows"
		}
		run.Count("write:file:size=" + size)
		run.Count("write:file:variant=" + f.Variant)
		run.Count("write:file:fs=" + f.FS)
		if f.changed() && s.has('w') {
			run.Count("write:rewritten:size=" + size + ":fs=" + f.FS)
		}
	}
	if s.NoLinks {
		run.Count("write:disable-symlinks")
	}
	if j.dropped() {
		run.Count("write:as-unprivileged-user")
	}
	if blockedAt >= 0 {
		run.Count("write:open-for-write-refused")
	}
	if j.idx%11 == 0 {
		run.Sample(map[string]any{"family": "write-" + s.Family, "args": j.args, "exit": j.r1.exit, "changed": changedNames})
	}
}

// tailDiff shows a where it starts to differ from b (the interesting part of a long text)
func tailDiff(a, b string) string {
	i := 0
	for i < len(a) && i < len(b) && a[i] == b[i] {
		i++
	}
	if i > 20 {
		return "…" + a[i-20:]
	}
	return a
}
