// The harness's own decoders of the three line-oriented formats and of the JUnit testcases:
// what a line-oriented consumer does with the REAL output (split at the first separator, read a
// decimal number, undo GitHub's escaping the way the runner does).  The Lean model has its own
// decoders (`parseTextLine`, `parseMsvsLine`, `parseGhaLine`, `parseJunitCase`, proved to invert the
// model's printers); the `dec` lines of the protocol run those on the same real text and
// bin/check compares the two results.
package main

import (
	"math/big"
	"strings"

	"github.com/bufbuild/verifharness/internal/hx"
)

func cutAt(sep rune, s []rune) ([]rune, []rune, bool) {
	for i, c := range s {
		if c == sep {
			return s[:i], s[i+1:], true
		}
	}
	return nil, nil, false
}

func dropPrefix(p string, s []rune) ([]rune, bool) {
	pr := []rune(p)
	if len(s) < len(pr) {
		return nil, false
	}
	for i, c := range pr {
		if s[i] != c {
			return nil, false
		}
	}
	return s[len(pr):], true
}

// readNat reads a non-empty run of ASCII digits; the value is kept as a decimal string without
// leading zeros (numbers in hostile file names can be longer than an int).
func readNat(s []rune) (string, []rune, bool) {
	i := 0
	for i < len(s) && s[i] >= '0' && s[i] <= '9' {
		i++
	}
	if i == 0 {
		return "", nil, false
	}
	n, _ := new(big.Int).SetString(string(s[:i]), 10)
	return n.String(), s[i:], true
}

func decodeTextLine(line string) ([]string, bool) {
	p, r, ok := cutAt(':', []rune(line))
	if !ok {
		return nil, false
	}
	l, r, ok := readNat(r)
	if !ok {
		return nil, false
	}
	if r, ok = dropPrefix(":", r); !ok {
		return nil, false
	}
	c, r, ok := readNat(r)
	if !ok {
		return nil, false
	}
	if r, ok = dropPrefix(":", r); !ok {
		return nil, false
	}
	return []string{hx.Enc(string(p)), l, c, hx.Enc(string(r))}, true
}

func decodeMSVSLine(line string) ([]string, bool) {
	p, r, ok := cutAt('(', []rune(line))
	if !ok {
		return nil, false
	}
	l, r, ok := readNat(r)
	if !ok {
		return nil, false
	}
	if r, ok = dropPrefix(",", r); !ok {
		return nil, false
	}
	c, r, ok := readNat(r)
	if !ok {
		return nil, false
	}
	if r, ok = dropPrefix(") : error ", r); !ok {
		return nil, false
	}
	t, r, ok := cutAt(':', r)
	if !ok || len(t) == 0 || t[len(t)-1] != ' ' {
		return nil, false
	}
	t = t[:len(t)-1]
	if r, ok = dropPrefix(" ", r); !ok {
		return nil, false
	}
	return []string{hx.Enc(string(p)), l, c, hx.Enc(string(t)), hx.Enc(string(r))}, true
}

func decodeGHALine(line string) ([]string, bool) {
	r, ok := dropPrefix("::error file=", []rune(line))
	if !ok {
		return nil, false
	}
	i := 0
	for i < len(r) && r[i] != ',' && r[i] != ':' {
		i++
	}
	file := string(r[:i])
	r = r[i:]
	nums := make([]string, 4)
	for k, key := range []string{",line=", ",col=", ",endLine=", ",endColumn="} {
		nums[k] = "0"
		if rest, ok := dropPrefix(key, r); ok {
			n, rest2, ok := readNat(rest)
			if !ok {
				return nil, false
			}
			nums[k], r = n, rest2
		}
	}
	if r, ok = dropPrefix("::", r); !ok {
		return nil, false
	}
	// the runner's unescape (ghaUnescape: %0D %0A [%3A %2C] then %25)
	return []string{hx.Enc(ghaUnescape(file, true)), nums[0], nums[1], nums[2], nums[3], hx.Enc(ghaUnescape(string(r), false))}, true
}

func decodeLines(out string, dec func(string) ([]string, bool)) string {
	lines := splitLines(out)
	if len(lines) == 0 {
		return "-"
	}
	res := make([]string, len(lines))
	for i, l := range lines {
		if f, ok := dec(l); ok {
			res[i] = strings.Join(f, ",")
		} else {
			res[i] = "!"
		}
	}
	return strings.Join(res, ";")
}

func parsePosSuffix(s []rune) (string, string, bool) {
	if len(s) == 0 {
		return "0", "0", true
	}
	if s[0] != '_' {
		return "", "", false
	}
	l, r, ok := readNat(s[1:])
	if !ok {
		return "", "", false
	}
	if len(r) == 0 {
		return l, "0", true
	}
	if r[0] != '_' {
		return "", "", false
	}
	c, r, ok := readNat(r[1:])
	if !ok || len(r) != 0 {
		return "", "", false
	}
	return l, c, true
}

// decodeJUnit decodes every testcase: suite, rule ID (failure type), the position encoded in the
// testcase name after the rule ID, and the text line carried as failure message.
func decodeJUnit(s *xSuites) string {
	var res []string
	if s != nil {
		for _, su := range s.Suites {
			for _, c := range su.Cases {
				one := "!"
				if len(c.Failures) == 1 {
					typ := c.Failures[0].Type
					if rest, ok := dropPrefix(typ, []rune(c.Name)); ok {
						if sl, sc, ok := parsePosSuffix(rest); ok {
							if tf, ok := decodeTextLine(c.Failures[0].Message); ok {
								one = strings.Join(append([]string{hx.Enc(su.Name), hx.Enc(typ), sl, sc}, tf...), ",")
							}
						}
					}
				}
				res = append(res, one)
			}
		}
	}
	if len(res) == 0 {
		return "-"
	}
	return strings.Join(res, ";")
}
