// Part (iv) of the C20 harness: every phase that can reject a source file x where the file is x how
// the input is spelled x every command x every --error-format.
//
// "A problem in the user's sources gives status 100 and the annotation (file, position) in the
// requested format, never a bare `Failure:` line with status 1" must hold whichever piece of code
// meets the problem first.  buf has (at least) four such pieces:
//
//	header scan   bufmodule's fastscan of the syntax / package / import STATEMENTS.  It runs before
//	              any compilation when the input is `file.proto#include_package_files=true` (the
//	              package of every .proto file of the module is needed to know what is targeted),
//	              for `ls-files --include-imports` and for `dep graph`; its SyntaxError is converted
//	              to a FileAnnotationSet in bufmodule
//	lexer         protocompile (unterminated string, invalid character)
//	parser        protocompile (missing ';', duplicate package statement)
//	linker        protocompile (unknown type, import not found, import cycle)
//
// One workspace = a target file t and a sibling s (package p) and a file o of another package (in
// the same module, or in a second module), ONE planted problem of one kind in one of them.  The
// expected verdict is derived from the planted facts only (which phase meets the file under which
// input form is a table below, checked against the unchanged tree); the oracle then demands: same
// exit status for all five formats, the formats agree record by record (crossCheck), status 100
// exactly when annotations were printed, no `Failure:` line for a source problem, the annotation
// names the planted file and line.  The protocol line is the step model of the command
// (`exit lint a o`, `exit lsfiles Oa`, …).
//
// The same machinery carries part (vii), the import-path family of the linker phase (imports.go):
// a phaseCase with Imp set plants one import statement of an impKind instead of one of phaseKinds.
package main

import (
	"bytes"
	"context"
	"fmt"
	"os"
	"path/filepath"
	"strconv"
	"strings"
	"sync"

	"github.com/bufbuild/buf/private/buf/bufformat"
	"github.com/bufbuild/protocompile/parser"
	"github.com/bufbuild/protocompile/reporter"
	"github.com/bufbuild/verifharness/internal/hx"
)

type phaseKind struct {
	Name         string `json:"name"`
	Group        string `json:"group"`          // header-rejected | header-accepted | body | link | good
	ScanRejects  bool   `json:"scan_rejects"`   // the header scan returns a SyntaxError for the file
	ScanKeepsPkg bool   `json:"scan_keeps_pkg"` // the header scan still reads the package as written
	FmtRejects   bool   `json:"fmt_rejects"`    // the formatter's parser rejects the file
	Missing      bool   `json:"missing_import"` // import of a file that does not exist
}

var phaseKinds = []phaseKind{
	{Name: "good", Group: "good", ScanKeepsPkg: true},
	{Name: "import-empty", Group: "header-rejected", ScanRejects: true, ScanKeepsPkg: true, FmtRejects: true},
	{Name: "import-nosemi", Group: "header-rejected", ScanRejects: true, ScanKeepsPkg: true, FmtRejects: true},
	{Name: "package-dots", Group: "header-rejected", ScanRejects: true, FmtRejects: true},
	{Name: "package-nosemi", Group: "header-rejected", ScanRejects: true, FmtRejects: true},
	{Name: "syntax-unterminated", Group: "header-accepted", FmtRejects: true},
	{Name: "package-dup", Group: "header-accepted", ScanKeepsPkg: true},
	{Name: "lexer", Group: "body", ScanKeepsPkg: true, FmtRejects: true},
	{Name: "parser", Group: "body", ScanKeepsPkg: true, FmtRejects: true},
	{Name: "unknown-type", Group: "link", ScanKeepsPkg: true},
	{Name: "import-missing", Group: "link", ScanKeepsPkg: true, Missing: true},
	{Name: "import-cycle", Group: "link", ScanKeepsPkg: true},
}

var phaseGroups = []string{"header-rejected", "header-accepted", "body", "link", "good"}

func kindsOfGroup(g string) []int {
	var out []int
	for i, k := range phaseKinds {
		if k.Group == g {
			out = append(out, i)
		}
	}
	return out
}

// renderPhase returns the source of a file of package pkg with one message, the planted problem
// of the kind, `lead` comment lines in front (so that the planted line varies with the seed), and
// the line the problem must be reported on (0 = none).  self = module-relative path of the file.
func renderPhase(kind, pkg, msg, self string, lead int) (string, int) {
	l1, l3, l4 := "syntax = \"proto3\";", "package "+pkg+";", ""
	var imp []string
	body := []string{"message " + msg + " {", "  string x = 1;", "}"}
	line := 0
	switch kind {
	case "good":
	case "import-empty":
		imp, line = []string{"import ;", ""}, lead+5
	case "import-nosemi":
		// the token after the path is `message`, two lines further down
		imp, line = []string{"import \"google/protobuf/empty.proto\"", ""}, lead+7
	case "package-dots":
		l3, line = "package "+pkg+"..x;", lead+3
	case "package-nosemi":
		l3, line = "package "+pkg, lead+5
	case "syntax-unterminated":
		l1, line = "syntax = \"proto3;", lead+1
	case "package-dup":
		l4, line = "package "+pkg+";", lead+4
	case "lexer":
		body[1], line = "  $", lead+6
	case "parser":
		body, line = []string{"message " + msg + " { string x = 1 }"}, lead+5
	case "unknown-type":
		body[1], line = "  Undefined"+msg+" x = 1;", lead+6
	case "import-missing":
		imp, line = []string{"import \"nope/missing.proto\";", ""}, lead+5
	case "import-cycle":
		imp, line = []string{"import \"" + self + "\";", ""}, lead+5
	default:
		panic("unknown phase kind " + kind)
	}
	var b strings.Builder
	for i := 0; i < lead; i++ {
		b.WriteString(fmt.Sprintf("// leading comment %d\n", i+1))
	}
	b.WriteString(l1 + "\n\n" + l3 + "\n" + l4 + "\n")
	for _, l := range imp {
		b.WriteString(l + "\n")
	}
	for _, l := range body {
		b.WriteString(l + "\n")
	}
	return b.String(), line
}

// apiFormat is the formatter's own output for one file (what bufformat.FormatBucket does per
// file: protocompile's parser, then FormatFileNode).
func apiFormat(name, src string) (out string, err error) {
	defer func() {
		if p := recover(); p != nil {
			err = fmt.Errorf("panic: %v", p)
		}
	}()
	fileNode, err := parser.Parse(name, strings.NewReader(src), reporter.NewHandler(nil))
	if err != nil {
		return "", err
	}
	var buf bytes.Buffer
	if err := bufformat.FormatFileNode(&buf, fileNode); err != nil {
		return "", err
	}
	return buf.String(), nil
}

type phaseCase struct {
	Cmd   string `json:"cmd"`  // lint | build | breaking | lsfiles | lsimports | depgraph | format
	Side  string `json:"side"` // breaking: input | against (which side carries the problem)
	Form  string `json:"input_form"`
	Kind  int    `json:"-"`
	KindN string `json:"kind"`
	Loc   string `json:"problem_in"` // t (the target file) | s (sibling of the same package) | o (file of another package)
	Multi bool   `json:"two_modules"`
	Lead  int    `json:"lead_lines"`
	Names [3]string
	// the import-path family (imports.go): the kind of import statement planted instead of one of
	// phaseKinds; Linked = the target file imports the file the statement is planted in; Root = the
	// directory above work/ and against/ (import paths that leave the module are planted so that a
	// file EXISTS where they point)
	Imp    *impKind `json:"import_kind,omitempty"`
	Linked bool     `json:"target_imports_planted_file,omitempty"`
	Root   string   `json:"root,omitempty"`
	// derived
	Files   map[string]string `json:"files"`
	Against map[string]string `json:"against_files"`
	Outside map[string]string `json:"files_outside_the_workspace,omitempty"` // absolute path -> content
	Line    int               `json:"planted_line"`
	Stmt    string            `json:"planted_statement,omitempty"`
	Where   []impPos          `json:"annotation_expected_at_one_of,omitempty"` // import family: (file, line) an annotation may name
	Extra   []string          `json:"extra_args,omitempty"`
	Args    []string          `json:"args"`
}

func (c phaseCase) kind() phaseKind {
	if c.Imp != nil {
		return phaseKind{Name: "import:" + c.Imp.Name, Group: "import", ScanKeepsPkg: true}
	}
	return phaseKinds[c.Kind]
}

// name of the file with the given role, workspace-relative
func (c phaseCase) file(role string) string {
	i := map[string]int{"t": 0, "s": 1, "o": 2}[role]
	if c.Multi {
		return []string{"m1/", "m1/", "m2/"}[i] + c.Names[i]
	}
	return c.Names[i]
}

var phaseNamePool = [][3]string{
	{"t.proto", "s.proto", "o.proto"},
	{"a/t.proto", "a/s.proto", "b/o.proto"},
	{"x y.proto", "q'uote.proto", "日本/ファイル.proto"},
	{"sub/deep/t.proto", "s.proto", "sub/o.proto"},
	{"b.proto", "a.proto", "c.proto"}, // the sibling sorts BEFORE the target
}

func (c *phaseCase) build() {
	if c.Imp != nil {
		c.buildImport()
		return
	}
	yaml := bufYAML
	if c.Multi {
		yaml = strings.Replace(bufYAML, "version: v2\n", "version: v2\nmodules:\n  - path: m1\n  - path: m2\n", 1)
	}
	c.Files = map[string]string{"buf.yaml": yaml}
	c.Against = map[string]string{"buf.yaml": yaml}
	c.KindN = c.kind().Name
	for i, role := range []string{"t", "s", "o"} {
		pkg := []string{"p", "p", "q"}[i]
		msg := []string{"T", "S", "O"}[i]
		good, _ := renderPhase("good", pkg, msg, c.Names[i], c.Lead)
		bad, line := good, 0
		if role == c.Loc {
			bad, line = renderPhase(c.KindN, pkg, msg, c.Names[i], c.Lead)
			c.Line = line
		}
		if c.Cmd == "breaking" && c.Side == "against" {
			c.Files[c.file(role)], c.Against[c.file(role)] = good, bad
		} else {
			c.Files[c.file(role)], c.Against[c.file(role)] = bad, good
		}
	}
}

type phaseExpect struct {
	Exit    int
	Failure bool
	File    string // workspace-relative name of the file the first annotation must name ("" = none)
	Model   string
	Why     string
}

// expect derives the verdict from the planted facts (as coded; see the file comment).
func (c phaseCase) expect() phaseExpect {
	k := c.kind()
	bad := k.Name != "good"
	// as coded: what `ls-files --include-imports` and `dep graph` do with the import statement
	lsiFails, dep := k.Missing, "ok"
	if k.Missing {
		dep = "notexist"
	}
	if c.Imp != nil {
		bad, lsiFails, dep = c.Imp.Class != "resolves", c.Imp.Lsi, c.Imp.Dep
	}
	inT := !c.Multi || c.Loc != "o" // the problem file is in the module of t
	targeted := false
	switch c.Form {
	case "dir", "dot", "tar":
		targeted = true
	case "file", "path":
		targeted = c.Loc == "t"
	case "moddir": // the module directory m1
		targeted = inT
	case "fileipf":
		// t itself; the files of t's module whose package - as the header scan reads it - is t's
		targeted = c.Loc == "t" || c.Loc == "s" && k.ScanKeepsPkg
	}
	if c.Linked {
		// the target file (always targeted) imports the planted file: it is compiled as an import
		targeted = true
	}
	// `file.proto#include_package_files=true`: the header scan of every .proto file of t's module
	// runs inside the controller method; its error is an annotation set
	scanAbort := c.Form == "fileipf" && inT && k.ScanRejects
	twoImages := c.Multi && (c.Form == "dir" || c.Form == "dot" || c.Form == "tar")
	checks := "o"
	if twoImages {
		checks = "oo"
	}
	e := phaseExpect{}
	switch c.Cmd {
	case "lint", "build", "breaking":
		hit := bad && (scanAbort || targeted)
		if hit {
			e.Exit, e.File = 100, c.file(c.Loc)
		}
		switch {
		case c.Cmd == "lint" && hit:
			e.Model = "exit\tlint\ta\to"
		case c.Cmd == "lint":
			e.Model = "exit\tlint\to\t" + checks
		case c.Cmd == "build" && hit:
			e.Model = "exit\tbuild\ta"
		case c.Cmd == "build":
			e.Model = "exit\tbuild\too"
		case hit && c.Side == "against":
			e.Model = "exit\tbreaking\toa\to"
		case hit:
			e.Model = "exit\tbreaking\ta\to"
		default:
			e.Model = "exit\tbreaking\too\t" + checks
		}
	case "lsfiles":
		// no compilation: only the header scan of the include_package_files form can object
		if bad && scanAbort {
			e.Exit, e.File, e.Model = 100, c.file(c.Loc), "exit\tlsfiles\tOa"
		} else {
			e.Model = "exit\tlsfiles\tOo"
		}
	case "lsimports":
		// `ls-files --include-imports` reads the import statements of the targeted files (header
		// scan) DIRECTLY in run: as coded the annotation set / the missing import are plain
		// failures there (status 1, "Failure:"), not annotations
		switch {
		case bad && scanAbort:
			e.Exit, e.File, e.Model = 100, c.file(c.Loc), "exit\tlsfiles\tOa"
		case bad && targeted && k.ScanRejects:
			e.Exit, e.Failure, e.Model = 1, true, "exit\tlsfiles\tOoA"
		case bad && targeted && lsiFails:
			e.Exit, e.Failure, e.Model = 1, true, "exit\tlsfiles\tOoX"
		default:
			e.Model = "exit\tlsfiles\tOoo"
		}
	case "depgraph":
		// ModuleSetToDAG directly in run, over every module of the workspace: the header scan's
		// annotation set is a plain failure there (as coded), the missing import the ImportNotExistError
		switch {
		case bad && k.ScanRejects:
			e.Exit, e.Failure, e.Model = 1, true, "exit\tdepgraph\toA"
		case bad && dep == "notexist", bad && dep == "invalid" && depGraphInvalidImportIs100:
			e.Exit, e.Failure, e.Model = 100, true, "exit\tdepgraph\toI"
		case bad && (dep == "invalid" || dep == "modcycle"):
			// as coded: an import path the bucket rejects (absolute, leaves the root) comes back from
			// ModuleDeps() as the plain normalpath error, a cycle between modules as ModuleCycleError
			e.Exit, e.Failure, e.Model = 1, true, "exit\tdepgraph\toX"
		default:
			e.Model = "exit\tdepgraph\too"
		}
	case "format":
		// `format -d --exit-code`; the formatter parses, it does not link; a parse error is a plain
		// failure (as coded: the property lists only --exit-code for format)
		diff := c.Imp != nil && c.importFormatDiff()
		for _, role := range []string{"t", "s", "o"} {
			if c.Imp != nil {
				break
			}
			roleTargeted := false
			switch c.Form {
			case "dir", "dot", "tar":
				roleTargeted = true
			case "file", "path":
				roleTargeted = role == "t"
			case "moddir":
				roleTargeted = !c.Multi || role != "o"
			}
			if src := c.Files[c.file(role)]; roleTargeted {
				if out, err := apiFormat(c.file(role), src); err == nil && out != src {
					diff = true
				}
			}
		}
		switch {
		case c.Form == "fileipf": // "cannot specify include_package_files=true with format"
			e.Exit, e.Failure, e.Model = 1, true, "exit\tformat\tde\t1\tX\to\t0\to\to\to"
		case bad && targeted && k.FmtRejects:
			e.Exit, e.Failure, e.Model = 1, true, "exit\tformat\tde\t1\to\tx\t0\to\to\to"
		case diff:
			e.Exit, e.Model = 100, "exit\tformat\tde\t1\to\to\t1\to\to\to"
		default:
			e.Model = "exit\tformat\tde\t1\to\to\t0\to\to\to"
		}
	}
	e.Why = fmt.Sprintf("kind=%s in %s, input %s, targeted=%v, header scan aborts=%v", k.Name, c.Loc, c.Form, targeted, scanAbort)
	if c.Imp != nil {
		e.Why = fmt.Sprintf("%s planted in %s (%s), input %s, that file is compiled=%v", c.Imp.describe(c.Stmt), c.Loc, c.file(c.Loc), c.Form, targeted)
	}
	return e
}

// command line; the working directory is <root>/work
func (c phaseCase) args(errFormat string) []string {
	t := c.file("t")
	var head, in, tail []string
	against := "../against"
	switch c.Form {
	case "dot":
		in = []string{"."}
	case "file":
		in = []string{t}
		against = "../against/" + t
	case "fileipf":
		in = []string{t + "#include_package_files=true"}
		against = "../against/" + t + "#include_package_files=true"
	case "path":
		tail = []string{"--path", t}
	case "moddir":
		in = []string{"m1"}
		against = "../against/m1"
	case "tar":
		in = []string{"../ws.tar"}
		against = "../against.tar"
	}
	tail = append(tail, c.Extra...)
	switch c.Cmd {
	case "lint":
		head = []string{"lint"}
	case "build":
		head = []string{"build"}
		tail = append(tail, "-o", os.DevNull)
	case "breaking":
		head = []string{"breaking"}
		tail = append(tail, "--against", against)
	case "lsfiles":
		return append([]string{"ls-files"}, append(in, tail...)...)
	case "lsimports":
		return append(append([]string{"ls-files"}, append(in, tail...)...), "--include-imports")
	case "depgraph":
		return append([]string{"dep", "graph"}, in...)
	case "format":
		head = []string{"format"}
		tail = append(tail, "-d", "--exit-code")
	}
	return append(append(append(head, in...), tail...), "--error-format", errFormat)
}

func (c phaseCase) formats(idx int) []string {
	switch c.Cmd {
	case "lint", "build", "breaking":
		return allFormats
	case "format":
		return []string{allFormats[idx%len(allFormats)]}
	}
	return []string{"text"}
}

// phaseCases: the stratified selection of the quick tier / the whole product in the thorough one.
func phaseCases(r *hx.Rand, thorough bool, seed uint64) []phaseCase {
	var out []phaseCase
	add := func(cmd, side, form string, kind int, loc string, multi bool) {
		if form == "moddir" && !multi {
			return
		}
		if cmd == "depgraph" && form != "dir" && form != "dot" {
			return
		}
		if cmd == "breaking" && form == "path" {
			// --path is applied to the --against input as well ("is outside the context directory"
			// for a directory next to the input): the single file is given as file reference instead
			form = "file"
		}
		c := phaseCase{Cmd: cmd, Side: side, Form: form, Kind: kind, Loc: loc, Multi: multi, Lead: r.Intn(4), Names: hx.Pick(r, phaseNamePool)}
		if form == "path" && !pathFlagSafe(c.Names[0]) {
			c.Names = phaseNamePool[0]
		}
		out = append(out, c)
	}
	forms := []string{"dir", "dot", "file", "fileipf", "path", "moddir", "tar"}
	locs := []string{"t", "s", "o"}
	type cs struct{ cmd, side string }
	cmds := []cs{{"lint", ""}, {"build", ""}, {"breaking", "input"}, {"breaking", "against"}, {"lsfiles", ""}, {"lsimports", ""}, {"depgraph", ""}, {"format", ""}}
	if thorough {
		// the whole product; the cells that do not involve the include_package_files form are split
		// between the two seeds of a thorough run (seed, seed + 1000003) by parity
		cell := 0
		for _, cm := range cmds {
			for _, form := range forms {
				for k := range phaseKinds {
					for _, loc := range locs {
						for _, multi := range []bool{false, true} {
							if cm.side == "against" && phaseKinds[k].Name == "good" {
								continue
							}
							cell++
							if form != "fileipf" && (cell+int(seed%2))%2 == 1 {
								continue
							}
							add(cm.cmd, cm.side, form, k, loc, multi)
						}
					}
				}
			}
		}
		return out
	}
	three := []cs{{"lint", ""}, {"build", ""}, {"breaking", "input"}}
	rot := r.Intn(1000)
	// (1) file.proto#include_package_files=true: the kinds the header scan rejects x every
	// location x lint / build / breaking; every other kind x every location, the command rotating
	for k, kd := range phaseKinds {
		for li, loc := range locs {
			if kd.ScanRejects {
				for _, cm := range three {
					add(cm.cmd, cm.side, "fileipf", k, loc, false)
				}
			} else {
				cm := three[(rot+k+li)%3]
				add(cm.cmd, cm.side, "fileipf", k, loc, false)
			}
			add("lsfiles", "", "fileipf", k, loc, false)
		}
		add("lsimports", "", []string{"fileipf", "dir", "file"}[(rot+k)%3], k, locs[(rot+k)%3], false)
		if kd.ScanRejects {
			// the against side of breaking spelled the same way; two modules: the scan stays in t's module
			add("breaking", "against", "fileipf", k, locs[(rot+k)%2+1], false)
			add(three[(rot+k)%3].cmd, three[(rot+k)%3].side, "fileipf", k, "o", true)
			add(three[(rot+k+1)%3].cmd, three[(rot+k+1)%3].side, "fileipf", k, "s", true)
			add("depgraph", "", []string{"dir", "dot"}[(rot+k)%2], k, locs[(rot+k)%3], k%2 == 0)
		}
	}
	add("format", "", "fileipf", 0, "t", false)
	add("format", "", "fileipf", 1, "s", false)
	add("depgraph", "", "dir", 10, "s", false)
	add("depgraph", "", "dot", 0, "t", true)
	// (2) every other input form x every kind group: kind within the group, location and command rotating
	n := 0
	for _, form := range []string{"dir", "dot", "file", "path", "moddir", "tar"} {
		for _, g := range phaseGroups {
			ks := kindsOfGroup(g)
			n++
			k := ks[(rot+n)%len(ks)]
			cm := cmds[(rot+n)%4]
			add(cm.cmd, cm.side, form, k, locs[(rot+n)%3], form == "moddir" || (rot+n)%5 == 0)
			// and a second command of another family on the same cell
			other := []cs{{"format", ""}, {"lsfiles", ""}, {"lsimports", ""}}[(rot+n)%3]
			add(other.cmd, other.side, form, ks[(rot+n+1)%len(ks)], locs[(rot+n+1)%3], form == "moddir")
		}
	}
	return out
}

type phaseJob struct {
	idx     int
	c       phaseCase
	root    string
	formats []string
	results []procResult
}

// independentRuns: which member of an import cycle of several files protocompile reports - and
// whether one, two or all of them - depends on the order in which its concurrent tasks happen to
// run: every task checks for a cycle when it starts waiting for an import, the one that sees the
// closed chain first reports it at ITS import statement.  40 runs of `buf lint` on a directory
// with a 3-cycle give 7 different outputs on the unchanged tree, status 100 each time; with a
// single targeted file (one chain of tasks) a difference is rare but happens, GOMAXPROCS=1 does
// not remove it either.  Five runs with five formats then need not show the same annotations, and
// the cross-format clause - which is about RENDERING one set - cannot be judged between them:
// every run is judged on its own (status 100, no Failure line, every record decodes with the
// format's own decoder and lies on an import statement of the cycle).  A file importing itself is
// found inside one task: reproducible, compared across formats like everything else.
func (c phaseCase) independentRuns() bool {
	return c.Imp != nil && c.Imp.Class == "cycle" && len(c.Where) > 1 && (c.Cmd == "lint" || c.Cmd == "build" || c.Cmd == "breaking")
}

// formTargets: is the workspace-relative .proto file one the input form targets (a root of the compilation)
func (c phaseCase) formTargets(name string) bool {
	switch c.Form {
	case "dir", "dot", "tar":
		return true
	case "file", "path":
		return name == c.file("t")
	case "fileipf":
		return name == c.file("t") || name == c.file("s")
	case "moddir":
		return strings.HasPrefix(name, "m1/")
	}
	return false
}

// family is a batch of cases whose buf processes are independent of the rest of the run: the
// processes may run while other parts of the harness do (no *hx.Run is touched by them), the
// evaluation happens afterwards, in case order.
type family struct {
	n     int      // case indices consumed
	runs  int      // buf processes
	procs []func() // the processes (set-up included)
	eval  func()   // oracle + protocol lines, to be called once all procs have run
}

func selected(run *hx.Run, idx int) bool { return (run.Only < 0 || run.Only == idx) && partEnabled() }

// phasePrepare lays out the selected cases (indices startIdx, startIdx+1, …) and returns their
// processes and their evaluation.
func phasePrepare(run *hx.Run, r *hx.Rand, startIdx int, bufBin, scratch string) family {
	cases := phaseCases(r, run.Thorough(), run.Seed)
	return phasePrepareCases(run, cases, startIdx, bufBin, func(idx int) string { return filepath.Join(scratch, fmt.Sprintf("ph%d", idx)) })
}

// phasePrepareCases: rootOf(idx) = the directory above work/ and against/ of the case.
func phasePrepareCases(run *hx.Run, cases []phaseCase, startIdx int, bufBin string, rootOf func(idx int) string) family {
	var jobs []*phaseJob
	for i, c := range cases {
		if idx := startIdx + i; selected(run, idx) {
			root := rootOf(idx)
			if c.Imp != nil {
				c.Root = root
			}
			c.build()
			jobs = append(jobs, &phaseJob{idx: idx, c: c, root: root})
		}
	}
	fam := family{n: len(cases)}
	for _, j := range jobs {
		j := j
		dir := filepath.Join(j.root, "work")
		j.formats = j.c.formats(j.idx)
		j.results = make([]procResult, len(j.formats))
		var setup sync.Once
		for fi, f := range j.formats {
			fi, args := fi, j.c.args(f)
			if fi == 0 {
				j.c.Args = args
			}
			fam.runs++
			fam.procs = append(fam.procs, func() {
				setup.Do(func() { j.materialise() })
				j.results[fi] = runBuf(bufBin, dir, args...)
			})
		}
	}
	fam.eval = func() {
		for _, j := range jobs {
			phaseEvaluate(run, j)
			_ = os.RemoveAll(j.root)
		}
	}
	return fam
}

func (j *phaseJob) materialise() {
	if err := writeTree(filepath.Join(j.root, "work"), j.c.Files); err != nil {
		panic(err)
	}
	if err := writeTree("/", j.c.Outside); err != nil {
		panic(err)
	}
	if j.c.Cmd == "breaking" {
		if err := writeTree(filepath.Join(j.root, "against"), j.c.Against); err != nil {
			panic(err)
		}
	}
	if j.c.Form == "tar" {
		if err := writeTar(filepath.Join(j.root, "ws.tar"), j.c.Files); err != nil {
			panic(err)
		}
		if j.c.Cmd == "breaking" {
			if err := writeTar(filepath.Join(j.root, "against.tar"), j.c.Against); err != nil {
				panic(err)
			}
		}
	}
}

func phaseEvaluate(run *hx.Run, j *phaseJob) {
	c := j.c
	replay := fmt.Sprintf("harness c20 --seed %d --tier %s --only %d   (workspace files and command line are in the failure input)", run.Seed, run.Tier, j.idx)
	fail := func(class, what string) {
		run.Fail(hx.OracleFailure{Class: class, What: fmt.Sprintf("%s [problem %s in %s, input %s%s]: %s", c.Cmd, c.KindN, c.Loc, c.Form,
			map[bool]string{true: ", two modules", false: ""}[c.Multi]+map[bool]string{true: ", on the --against side", false: ""}[c.Side == "against"], what), Input: c, Replay: replay})
	}
	exp := c.expect()
	outs := map[string]procResult{}
	for fi, f := range j.formats {
		outs[f] = j.results[fi]
	}
	ref := j.results[0]
	for _, f := range j.formats {
		p := outs[f]
		if p.exit != ref.exit {
			fail("exit-differs-by-format", fmt.Sprintf("exit %d with --error-format %s but %d with %s", p.exit, f, ref.exit, j.formats[0]))
		}
		if hasFailureLine(p.stderr) != hasFailureLine(ref.stderr) {
			fail("exit-differs-by-format", fmt.Sprintf("a Failure line with --error-format %s: %v, with %s: %v", f, hasFailureLine(p.stderr), j.formats[0], hasFailureLine(ref.stderr)))
		}
		if p.exit < 0 || strings.Contains(p.stderr, "panic:") || strings.Contains(p.stderr, "goroutine ") {
			fail("panic", fmt.Sprintf("buf crashed with --error-format %s: %.300s", f, p.stderr))
		}
	}
	failure := hasFailureLine(ref.stderr)
	// what was printed as annotations
	printed := 0
	var first *rec
	wsLike := ws{Cmd: c.Cmd}
	switch c.Cmd {
	case "lint", "build", "breaking":
		if c.independentRuns() {
			printed, first = evaluateIndependently(run, c, outs, fail)
			break
		}
		fo := formatOutputs{text: annotationStream(wsLike, outs["text"]), jsonOut: annotationStream(wsLike, outs["json"]), msvs: annotationStream(wsLike, outs["msvs"]),
			junit: annotationStream(wsLike, outs["junit"]), gha: annotationStream(wsLike, outs["github-actions"])}
		if fo.jsonOut != "" || fo.text != "" || fo.msvs != "" || fo.gha != "" || strings.Contains(fo.junit, "<testcase") {
			if fo.junit == "" {
				fo.junit = "<testsuites></testsuites>\n"
			}
			class, what, recs, _ := crossCheck(fo, -1)
			if class != "" {
				fail(class, what)
			}
			printed = len(recs)
			if len(recs) > 0 {
				first = &recs[0]
			}
		}
	case "lsfiles", "lsimports":
		// annotations come as text on stderr (ls-files has no --error-format)
		if !failure {
			for _, l := range splitLines(ref.stderr) {
				if f, ok := decodeTextLine(l); ok {
					printed++
					if first == nil {
						n, _ := strconv.Atoi(f[1])
						first = &rec{Path: hx.Dec(f[0]), HasPath: true, SL: n}
					}
				} else if strings.TrimSpace(l) != "" {
					fail("ls-files-stderr", fmt.Sprintf("stderr line is neither an annotation nor a Failure line: %q", l))
				}
			}
		}
	case "format":
		if ref.stderr != "" && !failure {
			printed = 1
		}
	}
	// the property's clauses on what the run shows
	diffShown := c.Cmd == "format" && strings.HasPrefix(ref.stdout, "diff -u ")
	if (ref.exit == 0) != (printed == 0 && !failure && !diffShown) {
		fail("exit-zero-mismatch", fmt.Sprintf("exit=%d but annotations printed=%d failure line=%v difference shown=%v", ref.exit, printed, failure, diffShown))
	}
	// (the message of an ImportNotExistError names the import - unless its path is the empty string)
	importFailure := failure && strings.Contains(ref.stderr, "file does not exist") && (strings.Contains(ref.stderr, "import") || c.Imp != nil) && c.Cmd == "depgraph"
	if (ref.exit == 100) != (printed > 0 || diffShown || importFailure) {
		fail("exit-100-mismatch", fmt.Sprintf("exit=%d but annotations printed=%d difference shown=%v stderr=%.200q", ref.exit, printed, diffShown, ref.stderr))
	}
	if ref.exit != 0 && ref.exit != 100 && !failure {
		fail("silent-operational-error", fmt.Sprintf("exit=%d without any message", ref.exit))
	}
	if printed > 0 && failure {
		fail("failure-line-with-annotations", fmt.Sprintf("%d annotations printed and exit %d, but also a Failure line: %.200q", printed, ref.exit, ref.stderr))
	}
	// nothing operational is planted in this family (configuration, input and flags are fine): for
	// the commands that print annotations every outcome is 0 or 100 and there is no Failure line
	annotating := c.Cmd == "lint" || c.Cmd == "build" || c.Cmd == "breaking" || c.Cmd == "lsfiles"
	if annotating && (failure || ref.exit != 0 && ref.exit != 100) {
		fail("source-problem-not-annotated", fmt.Sprintf("the only thing wrong is a problem in the user's sources (%s), which must give status 100 and annotations in the requested format; got exit=%d, %d annotations, stderr=%.300q", exp.Why, ref.exit, printed, ref.stderr))
	}
	// against the planted facts
	if ref.exit != exp.Exit || failure != exp.Failure {
		fail("source-problem-verdict", fmt.Sprintf("want exit=%d failure line=%v (%s), got exit=%d failure line=%v, %d annotations, stderr=%.300q", exp.Exit, exp.Failure, exp.Why, ref.exit, failure, printed, ref.stderr))
	}
	if c.Imp != nil && exp.Exit == 100 && first != nil && (c.Cmd == "lint" || c.Cmd == "build" || c.Cmd == "breaking") {
		// the annotation names the importing file and lies on the import statement (for a cycle:
		// an import statement of the cycle, whichever file protocompile met last)
		ok := false
		var want []string
		for _, w := range c.Where {
			wantPath := w.File
			if c.Side == "against" && c.Form != "tar" {
				wantPath = "../against/" + w.File
			}
			want = append(want, fmt.Sprintf("%s:%d:%d-%d", wantPath, w.Line, 1, w.Cols))
			if first.Path == wantPath && first.SL == w.Line && first.SC >= 1 && first.SC <= w.Cols {
				ok = true
			}
		}
		if !ok {
			fail("source-problem-position", fmt.Sprintf("the first annotation is at %q line %d column %d (%q); the import statement %s was planted at %v (file:line:columns)", first.Path, first.SL, first.SC, first.Msg, c.Stmt, want))
		}
	} else if exp.File != "" && exp.Exit == 100 && first != nil {
		wantPath := exp.File
		if c.Side == "against" && c.Form != "tar" {
			wantPath = "../against/" + exp.File
		}
		if first.Path != wantPath || first.SL != c.Line {
			fail("source-problem-position", fmt.Sprintf("the first annotation is at %q line %d, the problem was planted in %q line %d", first.Path, first.SL, wantPath, c.Line))
		}
	}
	if c.Cmd == "lsfiles" && ref.exit == 0 && ref.stdout == "" {
		fail("ls-files-stderr", "ls-files exits 0 and lists nothing")
	}
	// the protocol line
	var implOut string
	if c.Cmd == "format" {
		kind := "n"
		if diffShown {
			kind = "d"
		} else if ref.stdout != "" {
			kind = "s"
		}
		implOut = fmt.Sprintf("exit=%d printed=%s failure=%s stdout=%s rewrote=0 wrote=0", ref.exit, b01(printed > 0), b01(failure), kind)
	} else {
		implOut = "exit=" + strconv.Itoa(ref.exit) + " printed=" + b01(printed > 0) + " failure=" + b01(failure)
	}
	run.Case(exp.Model, implOut, ref.exit != 0)
	if c.Imp != nil {
		importCounters(run, c, ref.exit)
		if j.idx%23 == 0 {
			run.Sample(map[string]any{"family": "import-path", "cmd": c.Cmd, "args": c.Args, "statement": c.Stmt, "in": c.Loc, "exit": ref.exit, "out": ref.stdout + ref.stderr})
		}
		return
	}
	run.Distinct(fmt.Sprintf("phase:%s:%s:%s:%s:%s:%v", c.Cmd, c.Side, c.Form, c.KindN, c.Loc, c.Multi))
	run.Count("phase:cmd=" + c.Cmd)
	run.Count("phase:input=" + c.Form)
	run.Count("phase:kind=" + c.KindN)
	run.Count("phase:in=" + c.Loc)
	run.Count(fmt.Sprintf("phase:exit=%d", ref.exit))
	run.Count(fmt.Sprintf("phase:%s:input=%s:exit=%d", c.Cmd, c.Form, ref.exit))
	if c.Form == "fileipf" && c.kind().ScanRejects {
		run.Count("phase:header-scan-before-compile")
	}
	if c.Multi {
		run.Count("phase:two-modules")
	}
	if j.idx%17 == 0 {
		run.Sample(map[string]any{"family": "phase", "cmd": c.Cmd, "args": c.Args, "kind": c.KindN, "in": c.Loc, "exit": ref.exit, "out": ref.stdout + ref.stderr})
	}
	_ = context.Background
}
