// Part (vi) of the C20 harness: `buf format` output modes at the level of file contents, by SIZE.
//
// Part (v) compares what every mode writes with the formatter's own output, but its files have a
// few hundred bytes.  A sink that moves the formatted text through a buffer (one Read of 32 KiB, a
// chunked copy that drops the last partial chunk, a bufio.Writer that is not flushed, a rune-wise
// copy that breaks a character lying across two chunks) is right on all of them.  Here the
// FORMATTED size is the planted fact: a generator produces files whose formatter output has
// exactly a wanted number of bytes (a canonical text padded with a comment line / a string option
// of computed length, checked with the formatter in the harness), and the strata are
//
//	size      512 B, 4 KiB, 32 KiB-1, 32 KiB, 32 KiB+1, 64 KiB-1, 64 KiB, 64 KiB+1, 1 MiB+1
//	          (thorough: also 8 KiB, 16 KiB, 128 KiB, 1 MiB and every -1 / +1 neighbour)
//	sink      stdout | -o file (existing shorter / existing LONGER / new) | -o dir (existing with
//	          stale longer versions / new) | -w (+ the second run) | -d; -d combined with the
//	          three writing sinks; --exit-code rotating
//	input     directory, ".", single file, --path, module directory, tar archive (not with -w);
//	          every third whole-workspace run has two modules (the sink gets the files of both
//	          merged by module-relative path)
//	(quick: every size x every sink, the input form rotating; thorough: the whole product)
//	shape     many declarations + one padding comment | ONE comment line as long as the file |
//	          ONE string literal as long as the file
//	variant   already formatted (size = input size) | shrinks to the size (blank runs, trailing
//	          white space, indentation, CRLF, BOM, leading blank lines that put the INPUT size one
//	          past the next boundary) | grows to it (no final newline, `a=1` for `a = 1`)
//	several   the sized file first / in the middle / last among small ones; three sized files
//	          in one run; the concatenated STREAM (not any one file) ending at 32 KiB / 64 KiB -1/0/+1
//	straddle  a 2-, 3- or 4-byte UTF-8 character whose bytes lie on both sides of byte 4096,
//	          32768 and 65536 of the formatted output (every split of the character), in a
//	          comment and in a string literal, after many short lines or inside one long line,
//	          and once with the boundaries counted in the concatenated stream
//
// Oracle (implementation only): stdout / the -o file byte for byte = the concatenation, in path
// order, of bufformat.FormatFileNode's output for the targeted files; every file below -o dir / on
// disk after -w byte for byte = that output; the `diff -u` text of -d, applied to the input, must
// reproduce the formatter's output completely (hunk counts included).  Classes
// `format-output-truncated` (fewer bytes than the formatter produced), `format-sink-not-truncated`
// (the formatter's text preceded / followed by what the location held before),
// `format-concat-wrong` (several files, every length right, order / content not),
// `format-output-wrong` (anything else), `format-diff-inconsistent`, `format-diff-verdict`.
// Protocol: one `fmts` line per run - the Lean sink model on SUMMARIES (length + polynomial hash,
// which is a monoid homomorphism, so the model concatenates without seeing a byte) -, a `fmtc`
// line with the contents themselves for the small cases, and the `exit format` line.
package main

import (
	"fmt"
	"os"
	"path/filepath"
	"regexp"
	"sort"
	"strconv"
	"strings"
	"unicode/utf8"

	"github.com/bufbuild/verifharness/internal/hx"
)

// ---------------------------------------------------------------------------------------
// summaries: length + polynomial hash mod a prime; summ(a ++ b) = summ(a).append(summ(b))
// (lean/BufModel/Annot.lean `Summ`, theorem `sink_summary_is_summary_of_sink`)

const (
	hashB = 257
	hashP = 4294967291
)

type summ struct {
	n int
	h uint64
}

func summOf(s string) summ {
	h := uint64(0)
	for i := 0; i < len(s); i++ {
		h = (h*hashB + uint64(s[i])) % hashP
	}
	return summ{len(s), h}
}

func (s summ) String() string { return fmt.Sprintf("%d:%d", s.n, s.h) }

// ---------------------------------------------------------------------------------------
// the generator: a formatted text of an exact size

// padText is position dependent, so that a chunk that is dropped, repeated or moved shows
func padText(n int) string {
	const abc = "abcdefghijklmnopqrstuvwxyz0123456789"
	b := make([]byte, n)
	for i := range b {
		b[i] = abc[(i+i/len(abc))%len(abc)]
	}
	return string(b)
}

func sizedHeader(pkg string) string { return "syntax = \"proto3\";\n\npackage " + pkg + ";\n\n" }

func fillerUnit(tag string, i int) string {
	return fmt.Sprintf("// %sM%d carries two fields.\nmessage %sM%d {\n  string field_a = 1;\n  int32 field_b = 2 [deprecated = true];\n}\n\n", tag, i, tag, i)
}

type sizedKey struct {
	pkg, tag, shape string
	target          int
}

var (
	sizedCache   = map[sizedKey]string{}
	variantCache = map[string]string{}
)

// sizedText returns a text on which the formatter is the identity and that has exactly `target`
// bytes.  shape: decls (many declarations, one padding comment) | long-comment (one comment line)
// | long-string (one string literal).
func sizedText(pkg, tag string, target int, shape string) (string, error) {
	key := sizedKey{pkg, tag, shape, target}
	if t, ok := sizedCache[key]; ok {
		return t, nil
	}
	var head strings.Builder
	head.WriteString(sizedHeader(pkg))
	tail := func(pad int) string {
		if shape == "long-string" {
			return "message " + tag + "Last {\n  string z = 1 [json_name = \"" + padText(pad) + "\"];\n}\n"
		}
		return "// " + padText(pad) + "\nmessage " + tag + "Last {\n  string z = 1;\n}\n"
	}
	if shape == "decls" {
		for i := 0; head.Len()+len(fillerUnit(tag, i))+len(tail(1)) <= target; i++ {
			head.WriteString(fillerUnit(tag, i))
		}
	}
	pad := target - head.Len() - len(tail(0))
	for try := 0; try < 5; try++ {
		if pad < 1 {
			return "", fmt.Errorf("size %d is too small for shape %s", target, shape)
		}
		cand := head.String() + tail(pad)
		out, err := apiFormat("sized.proto", cand)
		if err != nil {
			return "", err
		}
		if len(out) == target {
			if again, err := apiFormat("sized.proto", out); err != nil || again != out {
				return "", fmt.Errorf("the formatter does not reproduce its output on the sized text (%d, %s)", target, shape)
			}
			sizedCache[key] = out
			return out, nil
		}
		pad += target - len(out)
	}
	return "", fmt.Errorf("no text of formatted size %d (shape %s) found", target, shape)
}

// straddleText: for every boundary B the character ch (2-4 bytes) starts at byte B-k-shift of the
// formatted text, so that with 1 <= k < len(ch) its bytes lie on both sides of byte B (counted
// `shift` bytes into a stream).  place: comment | string; longline: no declarations between the
// boundaries, every straddling line is as long as the gap.
func straddleText(pkg, tag, place, ch string, k int, boundaries []int, shift int, longline bool) (string, error) {
	key := sizedKey{pkg, tag, fmt.Sprintf("straddle:%s:%q:%d:%v:%d:%v", place, ch, k, boundaries, shift, longline), 0}
	if t, ok := sizedCache[key]; ok {
		return t, nil
	}
	cur := sizedHeader(pkg)
	filler := 0
	for _, b := range boundaries {
		at := b - k - shift
		name := fmt.Sprintf("%sS%d", tag, b)
		prefix, suffix := "// ", ch+" lies across byte "+strconv.Itoa(b)+"\nmessage "+name+" {\n  string z = 1;\n}\n\n"
		if place == "string" {
			prefix, suffix = "message "+name+" {\n  string z = 1 [json_name = \"", ch+" across "+strconv.Itoa(b)+"\"];\n}\n\n"
		}
		if !longline {
			for len(cur)+len(fillerUnit(tag, filler))+len(prefix)+1 <= at {
				cur += fillerUnit(tag, filler)
				filler++
			}
		}
		pad := at - len(cur) - len(prefix)
		if pad < 0 {
			return "", fmt.Errorf("no room before byte %d", at)
		}
		cur += prefix + padText(pad) + suffix
	}
	cur = strings.TrimSuffix(cur, "\n")
	out, err := apiFormat("straddle.proto", cur)
	if err != nil {
		return "", err
	}
	if out != cur {
		return "", fmt.Errorf("the straddle text is not a fixed point of the formatter")
	}
	for _, b := range boundaries {
		at := b - k - shift
		if at+len(ch) > len(out) || out[at:at+len(ch)] != ch || !utf8.ValidString(out) {
			return "", fmt.Errorf("the character is not at byte %d", at)
		}
	}
	sizedCache[key] = out
	return out, nil
}

var sizeBoundaries = []int{4096, 32768, 65536, 1 << 20}

// sized variants: how the INPUT relates to the formatted text
var sizedShrinking = []string{"blank-runs", "trailing-ws", "indent", "crlf", "bom", "leading-blank"}
var sizedGrowing = []string{"no-final-newline", "compact"}

func sizedVariant(variant, canon string) string {
	switch variant {
	case "formatted":
		return canon
	case "blank-runs":
		return strings.ReplaceAll(canon, "\n\n", "\n\n\n\n")
	case "trailing-ws":
		return strings.ReplaceAll(canon, ";\n", ";  \t\n")
	case "indent":
		return strings.ReplaceAll(canon, "\n  ", "\n        ")
	case "crlf":
		return strings.ReplaceAll(canon, "\n", "\r\n")
	case "bom":
		return "\xef\xbb\xbf" + canon
	case "no-final-newline":
		return strings.TrimSuffix(canon, "\n")
	case "compact":
		return strings.ReplaceAll(canon, " = ", "=")
	case "leading-blank":
		// the INPUT is one byte longer than the next buffer boundary
		n := 5
		for _, b := range sizeBoundaries {
			if b >= len(canon) {
				n = b + 1 - len(canon)
				break
			}
		}
		return strings.Repeat("\n", n) + canon
	}
	panic("unknown sized variant " + variant)
}

// sizedFile: a wfile whose formatter output is `canon`
func sizedFile(run *hx.Run, name, module, canon, variant, shape string) wfile {
	f := wfile{Name: name, Module: module, Variant: variant, FS: "regular", Ref: canon, RefOK: true, Shape: shape, Size: len(canon)}
	if module != "" {
		f.Name = module + "/" + name
	}
	ck := variant + "\x00" + canon
	src, ok := variantCache[ck]
	if !ok {
		src = sizedVariant(variant, canon)
		if out, err := apiFormat(f.Name, src); err != nil || out != canon {
			run.Count("size:variant-replaced:" + variant)
			src = "\x00"
		}
		variantCache[ck] = src
	}
	if src == "\x00" {
		f.Variant, src = "formatted", canon
	}
	f.Src = src
	return f
}

func smallFile(run *hx.Run, i int, name, module, variant string) wfile {
	canon := canonProto(fmt.Sprintf("pkg%d", i), string(rune('A'+i)))
	ref, err := apiFormat(name, canon)
	if err != nil || ref != canon {
		panic("canonProto is not formatted")
	}
	f := wfile{Name: name, Module: module, Variant: variant, FS: "regular", Src: uglify(variant, canon), Shape: "small"}
	if module != "" {
		f.Name = module + "/" + name
	}
	f.Ref, err = apiFormat(f.Name, f.Src)
	f.RefOK = err == nil
	if !f.RefOK || f.Ref != canon {
		run.Count("size:small-variant-replaced:" + variant)
		f.Variant, f.Src, f.Ref, f.RefOK = "formatted", canon, canon, true
	}
	f.Size = len(f.Ref)
	return f
}

// ---------------------------------------------------------------------------------------
// specs

type sizeSpec struct {
	writeSpec
	Label       string `json:"stratum"`
	Sink        string `json:"sink"` // stdout | ofile | odir | w | d
	Diff        bool   `json:"with_diff"`
	Exit        bool   `json:"exit_code"`
	OutNew      bool   `json:"out_location_new"`
	StaleLonger bool   `json:"out_location_longer"`
}

var sizeSinks = []string{"stdout", "ofile", "odir", "w", "d"}
var sizeInputs = []string{"dir", "dot", "file", "path", "moddir", "tar"}
var sizeNames = []string{"a.proto", "sub/b.proto", "z.proto"}

func (s sizeSpec) modeLetters() string {
	m := ""
	if s.Sink == "d" || s.Diff {
		m += "d"
	}
	if s.Sink == "w" {
		m += "w"
	}
	if s.Sink == "ofile" || s.Sink == "odir" {
		m += "o"
	}
	if s.Exit {
		m += "e"
	}
	return m
}

func (s sizeSpec) outLocation() string {
	switch {
	case s.Sink == "ofile" && s.OutNew:
		return "../outn/deep/all.proto"
	case s.Sink == "ofile":
		return "../outf/all.proto"
	case s.Sink == "odir" && s.OutNew:
		return "../outn/dir"
	case s.Sink == "odir":
		return "../out"
	}
	return ""
}

func (s sizeSpec) cmdline(errFormat string) []string {
	args := append([]string{"format"}, s.InArgs...)
	if s.Sink == "d" || s.Diff {
		args = append(args, "-d")
	}
	if s.Sink == "w" {
		args = append(args, "-w")
	}
	if loc := s.outLocation(); loc != "" {
		args = append(args, "-o", loc)
	}
	if s.Exit {
		args = append(args, "--exit-code")
	}
	return append(args, "--error-format", errFormat)
}

// layout: the position of the main file among the three, such that the input form targets it
func sizePosition(input string, k int) int {
	switch input {
	case "file", "path":
		return 2 // these forms target the last file
	case "moddir":
		return []int{0, 2}[k%2] // the files of m1
	}
	return k % 3
}

func sizeSpecs(run *hx.Run, r *hx.Rand) []sizeSpec {
	var out []sizeSpec
	rot := r.Intn(1000)
	tagOf := func(i int) string { return string(rune('A'+(rot+i)%20)) + "x" }
	smallVariants := []string{"formatted", "blank-runs", "oneline", "trailing-ws", "no-final-newline", "indent", "equal", "crlf"}
	add := func(label, sink, input string, k int, files []wfile) {
		if sink == "w" && input == "tar" {
			input = "dir" // (-w on an archive: recorded finding format-write-archive-input, part ii)
		}
		s := sizeSpec{Label: label, Sink: sink}
		s.Family, s.Input, s.Multi, s.Files = "S", input, files[0].Module != "", files
		s.Exit = (k+rot)%3 == 0
		s.Diff = sink != "stdout" && sink != "d" && (k+rot)%4 == 1
		s.OutNew = (k+rot)%3 == 2
		s.StaleLonger = (k+rot)%3 == 1
		s.settle()
		out = append(out, s)
	}
	// three files: the main one at position pos, small ones around it
	nWhole := 0
	around := func(input string, k int, mainAt func(name, module string) (wfile, error)) ([]wfile, error) {
		pos := sizePosition(input, k)
		twoModules := false
		if input == "dir" || input == "dot" {
			nWhole++
			twoModules = (nWhole+rot)%3 == 0
		}
		var files []wfile
		for i, name := range sizeNames {
			// two modules: for the module directory form, and now and then for the whole workspace
			// (the sink gets the files of both modules merged by module-relative path)
			module := ""
			if input == "moddir" || twoModules {
				module = []string{"m1", "m2"}[i%2]
			}
			if i == pos {
				f, err := mainAt(name, module)
				if err != nil {
					return nil, err
				}
				files = append(files, f)
			} else {
				files = append(files, smallFile(run, i, name, module, smallVariants[(k+i+rot)%len(smallVariants)]))
			}
		}
		return files, nil
	}
	miss := func(label string, err error) {
		run.Count("size:generator-miss")
		run.Fail(hx.OracleFailure{Class: "harness-size-generator", What: fmt.Sprintf("stratum %s: %v", label, err), Input: label,
			Replay: fmt.Sprintf("harness c20 --seed %d --tier %s", run.Seed, run.Tier)})
	}
	variantFor := func(sink string, k int) string {
		// a quarter already formatted (size = input size), the rest shrink or grow to the size
		all := append(append([]string{}, sizedShrinking...), sizedGrowing...)
		if sink != "d" && (k+rot)%4 == 0 { // (-d shows something only for an input that differs)
			return "formatted"
		}
		return all[(k/4*3+k%4+rot)%len(all)]
	}
	// ---- A: every size x every sink, the input form (and everything else) rotating; thorough: x every input form
	sizes := []int{512, 4096, 32767, 32768, 32769, 65535, 65536, 65537, 1<<20 + 1}
	if run.Thorough() {
		sizes = append(sizes, 511, 513, 4095, 4097, 8191, 8192, 8193, 16383, 16384, 16385, 131071, 131072, 131073, 1<<20-1, 1<<20)
		sort.Ints(sizes)
	}
	k := 0
	for zi, size := range sizes {
		for si, sink := range sizeSinks {
			inputs := []string{sizeInputs[(zi+si+rot)%len(sizeInputs)]}
			if run.Thorough() {
				inputs = sizeInputs
			}
			for _, input := range inputs {
				k++
				kk := k
				label := fmt.Sprintf("size=%d", size)
				shape := "decls"
				files, err := around(input, kk, func(name, module string) (wfile, error) {
					canon, err := sizedText("pkgmain", tagOf(0), size, shape)
					return sizedFile(run, name, module, canon, variantFor(sink, kk), shape), err
				})
				if err != nil {
					miss(label, err)
					continue
				}
				add(label, sink, input, kk, files)
			}
		}
	}
	// ---- B: several sized files in one run; the STREAM ending at a boundary
	triples := [][3]int{{32768, 32769, 65537}, {65536, 4096, 32767}, {32769, 65535, 32768}}
	for ti, t := range triples {
		sinks := []string{"stdout", "ofile", "d", "odir", "w"}
		if !run.Thorough() {
			sinks = sinks[:3]
			sinks = []string{sinks[(ti+rot)%3], sinks[(ti+rot+1)%3]}
		}
		for si, sink := range sinks {
			k++
			var files []wfile
			var err error
			for i, name := range sizeNames {
				var canon string
				if canon, err = sizedText(fmt.Sprintf("pkgt%d", i), tagOf(i+1), t[i], "decls"); err != nil {
					break
				}
				files = append(files, sizedFile(run, name, "", canon, variantFor(sink, k+i), "decls"))
			}
			label := fmt.Sprintf("sizes=%d+%d+%d", t[0], t[1], t[2])
			if err != nil {
				miss(label, err)
				continue
			}
			add(label, sink, []string{"dir", "dot", "tar"}[(ti+si+rot)%3], k, files)
		}
	}
	for _, total := range []int{32768, 65536} {
		for _, delta := range []int{-1, 0, 1} {
			if !run.Thorough() && (total/32768+delta+rot)%2 == 0 {
				continue
			}
			for _, sink := range []string{"stdout", "ofile"} {
				k++
				first := smallFile(run, 0, sizeNames[0], "", "formatted")
				last := smallFile(run, 2, sizeNames[2], "", smallVariants[(k+rot)%len(smallVariants)])
				label := fmt.Sprintf("stream=%d", total+delta)
				canon, err := sizedText("pkgmid", tagOf(2), total+delta-first.Size-last.Size, "decls")
				if err != nil {
					miss(label, err)
					continue
				}
				add(label, sink, []string{"dir", "dot", "tar"}[(k+rot)%3], k, []wfile{first, sizedFile(run, sizeNames[1], "", canon, variantFor(sink, k), "decls"), last})
			}
		}
	}
	// ---- C: one line as long as the file
	for li, size := range []int{70001, 1<<20 + 1} {
		for hi, shape := range []string{"long-comment", "long-string"} {
			sinks := sizeSinks
			if !run.Thorough() {
				// 70001: -d (the long line is in the diff) and one of the writing sinks; 1 MiB: one sink
				sinks = []string{"d", sizeSinks[(hi*2+rot)%4]}
				if size > 1<<20 {
					sinks = []string{sizeSinks[(hi*2+rot/4+1)%5]}
				}
			}
			for si, sink := range sinks {
				k++
				kk := k
				input := sizeInputs[(li+hi+si+rot)%len(sizeInputs)]
				label := fmt.Sprintf("%s=%d", shape, size)
				files, err := around(input, kk, func(name, module string) (wfile, error) {
					canon, err := sizedText("pkgline", tagOf(3), size, shape)
					v := variantFor(sink, kk)
					if (sink == "d" || kk%2 == 0) && (v == "bom" || v == "leading-blank") {
						// a change on line 1 only: the long line would not be part of the diff
						v = []string{"crlf", "no-final-newline", "trailing-ws"}[kk%3]
					}
					return sizedFile(run, name, module, canon, v, shape), err
				})
				if err != nil {
					miss(label, err)
					continue
				}
				add(label, sink, input, kk, files)
			}
		}
	}
	// ---- D: a multi-byte character across byte 4096 / 32768 / 65536
	type split struct {
		ch string
		k  int
	}
	splits := []split{{"é", 1}, {"日", 1}, {"日", 2}, {"😀", 1}, {"😀", 2}, {"😀", 3}}
	n := 0
	for pi, place := range []string{"comment", "string"} {
		for ci, sp := range splits {
			sinks := sizeSinks
			if !run.Thorough() {
				sinks = []string{sizeSinks[(pi*len(splits)+ci+rot)%5]}
			}
			for si, sink := range sinks {
				k++
				n++
				kk := k
				longline := (n+rot)%2 == 0
				input := sizeInputs[(pi+ci+si+rot)%len(sizeInputs)]
				shape := fmt.Sprintf("straddle-%s-%dof%d", place, sp.k, len(sp.ch))
				if longline {
					shape += "-long-line"
				}
				label := shape
				files, err := around(input, kk, func(name, module string) (wfile, error) {
					canon, err := straddleText("pkgutf", tagOf(4), place, sp.ch, sp.k, []int{4096, 32768, 65536}, 0, longline)
					return sizedFile(run, name, module, canon, variantFor(sink, kk), shape), err
				})
				if err != nil {
					miss(label, err)
					continue
				}
				add(label, sink, input, kk, files)
			}
		}
	}
	// … and with the boundary counted in the concatenated stream (the character is in the SECOND file)
	for ci, sp := range splits {
		if !run.Thorough() && (ci+rot)%3 != 0 {
			continue
		}
		for _, sink := range []string{"stdout", "ofile"} {
			k++
			first := smallFile(run, 0, sizeNames[0], "", "formatted")
			shape := fmt.Sprintf("straddle-stream-%dof%d", sp.k, len(sp.ch))
			canon, err := straddleText("pkgutf", tagOf(5), []string{"comment", "string"}[(ci+rot)%2], sp.ch, sp.k, []int{4096, 32768, 65536}, first.Size, false)
			if err != nil {
				miss(shape, err)
				continue
			}
			add(shape, sink, []string{"dir", "dot", "tar"}[(k+rot)%3], k, []wfile{first, sizedFile(run, sizeNames[1], "", canon, variantFor(sink, k), shape),
				smallFile(run, 2, sizeNames[2], "", "blank-runs")})
		}
	}
	return out
}

// ---------------------------------------------------------------------------------------
// running and judging one spec (no *hx.Run is touched: this happens in the background)

type sizeFinding struct{ class, what string }

type sizeJob struct {
	idx      int
	s        sizeSpec
	root     string
	args     []string
	findings []sizeFinding
	lines    [][2]string // protocol lines (input, implementation output)
	counts   []string
	exit     int
	runs     int
}

// mismatch describes how got differs from want (class "" = equal)
func mismatch(got, want, old string, pieces int) (class, what string) {
	if got == want {
		return "", ""
	}
	i := 0
	for i < len(got) && i < len(want) && got[i] == want[i] {
		i++
	}
	ctx := func(s string) string {
		lo, hi := max(i-12, 0), min(i+28, len(s))
		return s[lo:hi]
	}
	switch {
	case len(got) < len(want):
		class = "format-output-truncated"
	case old != "" && len(got) > len(want) && (strings.HasSuffix(got, want) || strings.HasPrefix(got, want)):
		class = "format-sink-not-truncated"
	case pieces > 1 && len(got) == len(want):
		class = "format-concat-wrong"
	default:
		class = "format-output-wrong"
	}
	what = fmt.Sprintf("expected %d bytes, got %d bytes, first difference at offset %d (expected …%q, got …%q)", len(want), len(got), i, ctx(want), ctx(got))
	if class == "format-output-truncated" && i == len(got) {
		what += fmt.Sprintf(": cut after byte %d", len(got))
		if !utf8.ValidString(got) && utf8.ValidString(want) {
			what += ", inside a multi-byte character"
		}
	}
	if class == "format-sink-not-truncated" {
		what += fmt.Sprintf(": the location held %d bytes before the run and they are still there", len(old))
	}
	return class, what
}

var hunkRe = regexp.MustCompile(`^@@ -(\d+)(?:,(\d+))? \+(\d+)(?:,(\d+))? @@`)

// applyUnified applies the hunks of one file's `diff -u` text to old.
func applyUnified(old, body string) (string, error) {
	oldLines := strings.SplitAfter(old, "\n")
	if n := len(oldLines); n > 0 && oldLines[n-1] == "" {
		oldLines = oldLines[:n-1]
	}
	lines := strings.Split(body, "\n")
	if n := len(lines); n > 0 && lines[n-1] == "" {
		lines = lines[:n-1]
	}
	var out strings.Builder
	pos := 0
	atoi := func(s string, dflt int) int {
		if s == "" {
			return dflt
		}
		n, _ := strconv.Atoi(s)
		return n
	}
	for li := 0; li < len(lines); {
		m := hunkRe.FindStringSubmatch(lines[li])
		if m == nil {
			return "", fmt.Errorf("line %d of the diff is not a hunk header: %.60q", li+1, lines[li])
		}
		oldStart, oldCount, newCount := atoi(m[1], 0), atoi(m[2], 1), atoi(m[4], 1)
		li++
		start := oldStart - 1
		if oldCount == 0 {
			start = oldStart
		}
		if start < pos || start > len(oldLines) {
			return "", fmt.Errorf("hunk %s starts at old line %d, %d lines are consumed, the input has %d", m[0], oldStart, pos, len(oldLines))
		}
		for ; pos < start; pos++ {
			out.WriteString(oldLines[pos])
		}
		gotOld, gotNew := 0, 0
		for li < len(lines) && (gotOld < oldCount || gotNew < newCount) {
			l := lines[li]
			if l == "" {
				return "", fmt.Errorf("empty line inside hunk %s", m[0])
			}
			text := l[1:] + "\n"
			if li+1 < len(lines) && strings.HasPrefix(lines[li+1], "\\") {
				text = l[1:]
			}
			switch l[0] {
			case ' ', '-':
				if pos >= len(oldLines) || oldLines[pos] != text {
					have := "<end of input>"
					if pos < len(oldLines) {
						have = oldLines[pos]
					}
					return "", fmt.Errorf("hunk %s: line %.60q is not line %d of the input (%.60q)", m[0], l, pos+1, have)
				}
				pos++
				gotOld++
				if l[0] == ' ' {
					out.WriteString(text)
					gotNew++
				}
			case '+':
				out.WriteString(text)
				gotNew++
			default:
				return "", fmt.Errorf("hunk %s: unexpected line %.60q", m[0], l)
			}
			li++
			if li < len(lines) && strings.HasPrefix(lines[li], "\\") {
				li++
			}
		}
		if gotOld != oldCount || gotNew != newCount {
			return "", fmt.Errorf("hunk %s announces %d old / %d new lines, it has %d / %d", m[0], oldCount, newCount, gotOld, gotNew)
		}
	}
	for ; pos < len(oldLines); pos++ {
		out.WriteString(oldLines[pos])
	}
	return out.String(), nil
}

// splitDiff: file name (as displayed) -> the hunks
func splitDiff(stdout string) (names []string, bodies map[string]string, err error) {
	bodies = map[string]string{}
	if stdout == "" {
		return nil, bodies, nil
	}
	if !strings.HasPrefix(stdout, "diff -u ") {
		return nil, nil, fmt.Errorf("stdout does not start with a `diff -u` line: %.80q", stdout)
	}
	for _, part := range strings.Split("\n"+stdout, "\ndiff -u ")[1:] {
		ls := strings.SplitN(part, "\n", 4)
		if len(ls) < 4 || !strings.HasPrefix(ls[1], "--- ") || !strings.HasPrefix(ls[2], "+++ ") {
			return nil, nil, fmt.Errorf("malformed diff header: %.120q", part)
		}
		f := strings.Fields(ls[0])
		name := f[len(f)-1]
		names = append(names, name)
		bodies[name] = ls[3]
	}
	return names, bodies, nil
}

func (f wfile) brief() map[string]any {
	m := map[string]any{"name": f.Name, "shape": f.Shape, "variant": f.Variant, "input_bytes": len(f.Src), "formatter_output_bytes": len(f.Ref), "targeted": f.Target}
	if len(f.Src) <= 1024 {
		m["content"] = f.Src
	}
	return m
}

func (j *sizeJob) execute(bufBin string) {
	s := j.s
	dir := filepath.Join(j.root, "work")
	must := func(err error) {
		if err != nil {
			panic(err)
		}
	}
	fail := func(class, what string) { j.findings = append(j.findings, sizeFinding{class, what}) }
	s.materialise(j.root)
	if s.Input == "tar" {
		must(writeTar(filepath.Join(j.root, "ws.tar"), s.files()))
	}
	walk := append([]wfile(nil), s.Files...)
	sort.SliceStable(walk, func(a, b int) bool { return walk[a].rel() < walk[b].rel() })
	var targets []wfile
	var changedNames []string
	concat := ""
	for _, f := range walk {
		if f.Target {
			targets = append(targets, f)
			concat += f.Ref
		}
		if f.changed() {
			changedNames = append(changedNames, f.Name)
		}
	}
	// the -o location
	stale := func(n int) string {
		line := "// stale content of an earlier run\n"
		return strings.Repeat(line, n/len(line)+1)
	}
	outRoot, oldFile := "", ""
	outBefore := map[string]string{}
	switch {
	case s.Sink == "ofile" && !s.OutNew:
		oldFile = stale(3000)
		if s.StaleLonger && len(concat) < 300_000 {
			oldFile = stale(len(concat) + 777)
		}
		must(os.MkdirAll(filepath.Join(j.root, "outf"), 0o755))
		must(os.WriteFile(filepath.Join(j.root, "outf", "all.proto"), []byte(oldFile), 0o644))
	case s.Sink == "odir" && !s.OutNew:
		outRoot = filepath.Join(j.root, "out")
		for _, f := range s.Files {
			p := filepath.Join(outRoot, f.rel())
			must(os.MkdirAll(filepath.Dir(p), 0o755))
			n := 3000
			if s.StaleLonger && len(f.Ref) < 300_000 {
				n = len(f.Ref) + 777
			}
			must(os.WriteFile(p, []byte(stale(n)), 0o644))
		}
		must(os.WriteFile(filepath.Join(outRoot, "junk.txt"), []byte("not ours\n"), 0o644))
		outBefore = readTree(outRoot)
	case s.Sink == "odir":
		outRoot = filepath.Join(j.root, "outn", "dir")
	}
	before := readDisk(j.root)
	r1 := runBuf(bufBin, dir, j.args...)
	j.runs++
	j.exit = r1.exit
	after := readDisk(j.root)
	where := func(f wfile) string {
		return fmt.Sprintf("file %q (%s, %s, input %d bytes, formatter output %d bytes)", f.Name, f.Shape, f.Variant, len(f.Src), len(f.Ref))
	}
	if r1.exit < 0 || strings.Contains(r1.stderr, "panic:") || strings.Contains(r1.stderr, "goroutine ") {
		fail("panic", fmt.Sprintf("buf crashed: %.300s", r1.stderr))
	}
	wantExit := 0
	if s.Exit && len(changedNames) > 0 {
		wantExit = 100
	}
	if r1.exit != wantExit || r1.stderr != "" {
		fail("format-diff-verdict", fmt.Sprintf("exit=%d, want %d (files that differ from the formatter's output: %v); stderr %.300q", r1.exit, wantExit, changedNames, r1.stderr))
	}
	// stdout
	showsDiff := s.Sink == "d" || s.Diff
	switch {
	case showsDiff:
		names, bodies, err := splitDiff(r1.stdout)
		if err != nil {
			fail("format-diff-inconsistent", err.Error())
		} else {
			got := append([]string(nil), names...)
			sort.Strings(got)
			want := append([]string(nil), changedNames...)
			sort.Strings(want)
			if strings.Join(got, "\x00") != strings.Join(want, "\x00") {
				fail("format-diff-verdict", fmt.Sprintf("-d names %q, the files that differ from the formatter's output are %q", got, want))
			}
			for _, f := range targets {
				body, ok := bodies[f.Name]
				if !ok {
					continue
				}
				applied, err := applyUnified(f.Src, body)
				if err != nil {
					fail("format-diff-inconsistent", fmt.Sprintf("the diff shown for %s does not apply to the input: %v (the whole diff text of the file has %d bytes)", where(f), err, len(body)))
				} else if _, what := mismatch(applied, f.Ref, "", 1); what != "" {
					fail("format-diff-inconsistent", fmt.Sprintf("the diff shown for %s, applied to the input, does not give the formatter's output: %s", where(f), what))
				}
			}
		}
	case s.Sink == "stdout":
		if class, what := mismatch(r1.stdout, concat, "", len(targets)); class != "" {
			fail(class, fmt.Sprintf("stdout is not the formatter's output of the %d targeted files %s in path order: %s", len(targets), targetSizes(targets), what))
		}
	default:
		if r1.stdout != "" {
			fail("format-output-wrong", fmt.Sprintf("stdout should be empty in this mode, it has %d bytes: %.120q", len(r1.stdout), r1.stdout))
		}
	}
	// the sink
	wantDisk := func(f wfile) string {
		if s.Sink == "w" {
			return f.want()
		}
		return f.Src
	}
	checkDisk := func(label string, st diskState, prev diskState) {
		for _, f := range s.Files {
			got, ok := st.content["work/"+f.Name]
			if !ok {
				fail("format-stray-files", fmt.Sprintf("%s: %q vanished", label, f.Name))
				continue
			}
			if class, what := mismatch(got, wantDisk(f), "", 1); class != "" {
				holds := "the formatter's output"
				if wantDisk(f) == f.Src && (s.Sink != "w" || !f.Target) {
					holds = "its old content (nothing may write it)"
				}
				fail(class, fmt.Sprintf("%s: %s on disk is not %s: %s", label, where(f), holds, what))
			}
		}
		for n := range st.content {
			if _, ok := prev.content[n]; !ok && strings.HasPrefix(n, "work/") {
				fail("format-stray-files", fmt.Sprintf("%s: new file %q", label, n))
			}
		}
	}
	checkDisk("after the run", after, before)
	var outSumm string
	wrote := false
	switch s.Sink {
	case "ofile":
		p := filepath.Join(dir, filepath.FromSlash(s.outLocation()))
		b, err := os.ReadFile(p)
		if err != nil {
			fail("format-output-wrong", fmt.Sprintf("the -o file was not written: %v", err))
		} else if class, what := mismatch(string(b), concat, oldFile, len(targets)); class != "" {
			fail(class, fmt.Sprintf("the -o file (%s) is not the formatter's output of the %d targeted files %s in path order: %s", s.outLocation(), len(targets), targetSizes(targets), what))
		}
		wrote = err == nil && string(b) != oldFile
		outSumm = "out=" + summOf(string(b)).String()
	case "odir":
		outAfter := readTree(outRoot)
		var parts []string
		for _, f := range walk {
			got, ok := outAfter[f.rel()]
			want, present := outBefore[f.rel()]
			if f.Target {
				want, present = f.Ref, true
				if ok {
					parts = append(parts, hx.Enc(f.rel())+":"+summOf(got).String())
				} else {
					parts = append(parts, hx.Enc(f.rel())+":~")
				}
			}
			if ok != present {
				fail("format-stray-files", fmt.Sprintf("-o directory: %q present=%v, want %v", f.rel(), ok, present))
				continue
			}
			if class, what := mismatch(got, want, outBefore[f.rel()], 1); class != "" {
				holds := "the formatter's output"
				if !f.Target {
					holds = "what it held before (the file is not targeted)"
				}
				fail(class, fmt.Sprintf("-o directory: %s below %s is not %s: %s", where(f), s.outLocation(), holds, what))
			}
		}
		for n, c := range outAfter {
			if b, ok := outBefore[n]; !ok || b != c {
				wrote = true
			}
			known := n == "junk.txt" && !s.OutNew
			for _, f := range s.Files {
				if n == f.rel() {
					known = true
				}
			}
			if !known {
				fail("format-stray-files", fmt.Sprintf("-o directory: unexpected file %q", n))
			}
		}
		if !s.OutNew && outAfter["junk.txt"] != "not ours\n" {
			fail("format-output-wrong", fmt.Sprintf("-o directory: the foreign file junk.txt now holds %.80q", outAfter["junk.txt"]))
		}
		outSumm = "files=" + strings.Join(parts, ";")
	case "stdout":
		outSumm = "out=" + summOf(r1.stdout).String()
	case "w":
		var parts []string
		for _, f := range walk {
			parts = append(parts, hx.Enc(f.Name)+":"+summOf(after.content["work/"+f.Name]).String())
		}
		outSumm = "files=" + strings.Join(parts, ";")
		// the second run: nothing left to do
		r2 := runBuf(bufBin, dir, j.args...)
		j.runs++
		after2 := readDisk(j.root)
		if r2.exit != 0 || r2.stdout != "" || r2.stderr != "" {
			fail("format-second-run-after-write", fmt.Sprintf("second run: exit=%d, want 0 and no output; stdout %.200q stderr %.200q", r2.exit, r2.stdout, r2.stderr))
		}
		checkDisk("after the second run", after2, after)
	}
	// ---- protocol lines
	changedOnDisk := false
	for n, c := range after.content {
		if b, ok := before.content[n]; ok && b != c {
			changedOnDisk = true
		}
	}
	stdoutKind := "s"
	switch {
	case r1.stdout == "":
		stdoutKind = "n"
	case strings.HasPrefix(r1.stdout, "diff -u "):
		stdoutKind = "d"
	}
	m := s.modeLetters()
	if m == "" {
		m = "-"
	}
	failure := hasFailureLine(r1.stderr)
	j.lines = append(j.lines, [2]string{
		strings.Join([]string{"exit", "format", m, "1", "o", "o", b01(len(changedNames) > 0), "o", "o", "o"}, "\t"),
		fmt.Sprintf("exit=%d printed=%s failure=%s stdout=%s rewrote=%s wrote=%s", r1.exit, b01(r1.stderr != "" && !failure), b01(failure), stdoutKind, b01(changedOnDisk), b01(wrote))})
	if s.Sink != "d" {
		var fields, cfields []string
		total := len(oldFile)
		for _, f := range walk {
			total += len(f.Src) + len(f.Ref)
		}
		for _, f := range walk {
			path := f.Name
			if s.Sink == "odir" {
				path = f.rel()
			}
			fields = append(fields, strings.Join([]string{hx.Enc(path), summOf(f.Src).String(), summOf(f.Ref).String(), b01(f.Target), "1"}, ","))
			if total <= 12000 {
				cfields = append(cfields, strings.Join([]string{hx.Enc(path), hx.Enc(f.Src), hx.Enc(f.Ref), b01(f.Target), "1"}, ","))
			}
		}
		sink := map[string]string{"stdout": "stdout", "ofile": "file", "odir": "dir", "w": "write"}[s.Sink]
		j.lines = append(j.lines, [2]string{"fmts\t" + sink + "\t" + summOf(oldFile).String() + "\t" + strings.Join(fields, ";"), "err=" + b01(r1.exit != 0 && r1.exit != 100) + " " + outSumm})
		if total <= 12000 && (s.Sink == "stdout" || s.Sink == "ofile") {
			got := r1.stdout
			if s.Sink == "ofile" {
				b, _ := os.ReadFile(filepath.Join(dir, filepath.FromSlash(s.outLocation())))
				got = string(b)
			}
			j.lines = append(j.lines, [2]string{"fmtc\t" + sink + "\t" + hx.Enc(oldFile) + "\t" + strings.Join(cfields, ";"), "err=" + b01(r1.exit != 0 && r1.exit != 100) + " out=" + hx.Enc(got)})
		}
	}
	// ---- distribution
	c := func(format string, a ...any) { j.counts = append(j.counts, fmt.Sprintf(format, a...)) }
	c("size:sink=%s", s.Sink)
	c("size:input=%s", s.Input)
	c("size:sink=%s:input=%s", s.Sink, s.Input)
	c("size:stratum=%s", strings.SplitN(s.Label, "=", 2)[0])
	c("size:exit=%d", r1.exit)
	c("size:targeted-files=%d", len(targets))
	if s.Multi {
		c("size:two-modules:input=%s", s.Input)
	}
	if s.Diff {
		c("size:diff-and-sink=%s", s.Sink)
	}
	if s.Sink == "ofile" || s.Sink == "odir" {
		switch {
		case s.OutNew:
			c("size:out-location=new")
		case s.StaleLonger:
			c("size:out-location=existing-longer")
		default:
			c("size:out-location=existing-3kB")
		}
	}
	for _, f := range targets {
		if f.Shape == "small" {
			continue
		}
		c("size:formatted-bytes=%s:sink=%s", sizeBucket(len(f.Ref)), s.Sink)
		c("size:shape=%s", strings.SplitN(f.Shape, "-", 3)[0])
		switch {
		case f.Ref == f.Src:
			c("size:input=already-formatted")
		case len(f.Src) > len(f.Ref):
			c("size:input=shrinks")
		default:
			c("size:input=grows")
		}
		c("size:variant=%s", f.Variant)
	}
}

func targetSizes(fs []wfile) string {
	var p []string
	for _, f := range fs {
		p = append(p, fmt.Sprintf("%s=%d", f.Name, len(f.Ref)))
	}
	return "(" + strings.Join(p, " ") + " bytes)"
}

func sizeBucket(n int) string {
	for _, b := range []int{512, 4096, 8192, 16384, 32768, 65536, 131072, 1 << 20} {
		switch {
		case n == b-1:
			return fmt.Sprintf("%d-1", b)
		case n == b:
			return strconv.Itoa(b)
		case n == b+1:
			return fmt.Sprintf("%d+1", b)
		}
	}
	return "other"
}

func sizePrepare(run *hx.Run, r *hx.Rand, startIdx int, bufBin, scratch string) family {
	specs := sizeSpecs(run, r)
	var jobs []*sizeJob
	fam := family{n: len(specs)}
	for i, s := range specs {
		if idx := startIdx + i; selected(run, idx) {
			j := &sizeJob{idx: idx, s: s, root: filepath.Join(scratch, fmt.Sprintf("fs%d", idx))}
			j.args = s.cmdline(allFormats[idx%len(allFormats)])
			jobs = append(jobs, j)
			fam.runs++
			if s.Sink == "w" {
				fam.runs++
			}
		}
	}
	// the big ones first
	order := append([]*sizeJob(nil), jobs...)
	weight := func(j *sizeJob) int {
		n := 0
		for _, f := range j.s.Files {
			n += len(f.Src)
		}
		return n
	}
	sort.SliceStable(order, func(a, b int) bool { return weight(order[a]) > weight(order[b]) })
	for _, j := range order {
		j := j
		fam.procs = append(fam.procs, func() {
			defer func() {
				if p := recover(); p != nil {
					j.findings = append(j.findings, sizeFinding{"harness-size-generator", fmt.Sprintf("the harness itself failed: %v", p)})
				}
				_ = os.RemoveAll(j.root)
			}()
			j.execute(bufBin)
		})
	}
	fam.eval = func() {
		for _, j := range jobs {
			s := j.s
			replay := fmt.Sprintf("harness c20 --seed %d --tier %s --only %d   (sizes and command line are in the failure input)", run.Seed, run.Tier, j.idx)
			var files []map[string]any
			for _, f := range s.Files {
				files = append(files, f.brief())
			}
			seen := map[string]int{}
			for _, f := range j.findings {
				if seen[f.class]++; seen[f.class] > 3 {
					continue
				}
				run.Fail(hx.OracleFailure{Class: f.class,
					What:   fmt.Sprintf("format %s [family S, stratum %s, input %s, sink %s]: %s", strings.Join(j.args[1:], " "), s.Label, s.Input, s.Sink, f.what),
					Input:  map[string]any{"stratum": s.Label, "sink": s.Sink, "input": s.Input, "args": j.args, "files": files, "out_location_new": s.OutNew, "out_location_longer": s.StaleLonger},
					Replay: replay})
			}
			for _, l := range j.lines {
				run.Case(l[0], l[1], j.exit != 0 || strings.HasPrefix(l[0], "fmt"))
			}
			for _, c := range j.counts {
				run.Count(c)
			}
			if j.idx%9 == 0 {
				run.Sample(map[string]any{"family": "size", "stratum": s.Label, "args": j.args, "exit": j.exit, "files": files})
			}
		}
	}
	return fam
}
