// Command c20 is the correspondence + oracle harness for property C20
// ("exit status and every diagnostic format tell the same verdict").
//
// Part (i), in-process: generated annotation multisets (messages / paths with quotes, angle
// brackets, newlines, '%', ':' ',' and non-ASCII; numbers chosen so that digit splits such as
// (1,23)/(12,3) and string splits such as type "A"+msg "Bm" / type "AB"+msg "m" occur) go through
// the real bufanalysis.NewFileAnnotationSet and every printer.  The sorted set and the five
// outputs are compared with the Lean model (json / junit after decoding with encoding/json /
// encoding/xml, i.e. at field level).  The oracle (implementation only) checks the property's
// own statement: no annotation that differs on a key field is dropped, the order is the
// documented one and independent of the input order, every format shows the same annotations in
// the same order agreeing on every field it carries (each format is parsed back and compared
// with the JSON records), json lines / junit XML / github-actions commands / msvs lines are
// well formed for any text.
//
// Part (ii), the real binary: `buf` is built from the working tree and run on generated tiny
// workspaces with planted lint / breaking / compile problems, missing imports, format
// differences and operational errors, for every --error-format.  The exit status and the
// presence of printed annotations / a "Failure:" line are compared with the Lean exit-status
// model; the oracle checks 0 / 100 / other against what was printed and the cross-format
// agreement of the printed annotations.
//
// Part (iii), errvalues.go: Go error VALUES through the extracted wrapError /
// handleFileAnnotationSetRetError (two leaves are produced by bufmodule itself on planted sources:
// the header scan's error, ModuleDeps()'s import-not-found).
//
// Part (iv), phases.go: every phase that can reject a source file (header scan, lexer, parser,
// linker) x the file it is in (target, sibling of the same package, other package / module) x the
// input form (directory, ".", file, file.proto#include_package_files=true, --path, module
// directory, archive) x lint / build / breaking (either side) / ls-files / dep graph / format x
// every --error-format.
//
// Part (v), fmtwrite.go: `buf format -w` / `-o` / `-d` at the level of file contents (inputs that
// shrink, keep their length or grow when formatted; read-only and symlinked files; --path /
// --exclude-path; existing -o locations): every file on disk byte for byte against the
// formatter's own output, the second run clean.
//
// Part (vi), fmtsize.go: the same output modes by SIZE of the formatted text - formatted sizes at
// every plausible buffer boundary (4 KiB … 1 MiB, -1 / 0 / +1), single lines longer than 64 KiB /
// 1 MiB, multi-byte characters lying across byte 4096 / 32768 / 65536, several such files in one
// run - for stdout, -o file, -o dir, -w and -d x every input form; stdout / the -o file byte for
// byte the concatenation of the formatter's outputs in path order, the -d text applied to the
// input reproduces the formatter's output.
//
// Part (vii), imports.go: the import-path family of the linker phase - import statements whose
// path is missing, absolute, leaves the module with `..` (depth 1-3), is not normalised (`./`,
// `//`, trailing `/`, inner `..`), names a directory, a file outside the module, an excluded file,
// a Well-Known Type that does not exist, the file itself, a 2- / 3-cycle, a duplicate, `import
// public` / `import weak` - planted in the target, a sibling, a file of another module x every
// command and input form of part (iv) x every --error-format; and generated import paths through
// the real bufimage.BuildImage / ModuleDeps() against the model's `importFate`.
package main

import (
	"bytes"
	"encoding/json"
	"encoding/xml"
	"fmt"
	"os"
	"regexp"
	"sort"
	"strconv"
	"strings"
	"time"
	"unicode/utf8"

	"github.com/bufbuild/buf/private/bufpkg/bufanalysis"
	"github.com/bufbuild/verifharness/internal/hx"
)

// ---------------------------------------------------------------------------------------
// annotations

type ann struct {
	HasFile           bool   `json:"has_file"`
	Path              string `json:"path"`
	SL, SC, EL, EC    int
	Type, Msg, Plugin string
}

type fileInfo struct{ p string }

func (f fileInfo) Path() string         { return f.p }
func (f fileInfo) ExternalPath() string { return f.p }

func (a ann) real() bufanalysis.FileAnnotation {
	var fi bufanalysis.FileInfo
	if a.HasFile {
		fi = fileInfo{a.Path}
	}
	return bufanalysis.NewFileAnnotation(fi, a.SL, a.SC, a.EL, a.EC, a.Type, a.Msg, a.Plugin)
}

func fromReal(f bufanalysis.FileAnnotation) ann {
	a := ann{SL: f.StartLine(), SC: f.StartColumn(), EL: f.EndLine(), EC: f.EndColumn(), Type: f.Type(), Msg: f.Message(), Plugin: f.PluginName()}
	if fi := f.FileInfo(); fi != nil {
		a.HasFile = true
		a.Path = fi.ExternalPath()
	}
	return a
}

func (a ann) enc() string {
	f := "~"
	if a.HasFile {
		f = hx.Enc(a.Path)
	}
	return strings.Join([]string{f, strconv.Itoa(a.SL), strconv.Itoa(a.SC), strconv.Itoa(a.EL), strconv.Itoa(a.EC), hx.Enc(a.Type), hx.Enc(a.Msg), hx.Enc(a.Plugin)}, ",")
}

func encAnns(as []ann) string {
	if len(as) == 0 {
		return "-"
	}
	s := make([]string, len(as))
	for i, a := range as {
		s[i] = a.enc()
	}
	return strings.Join(s, ";")
}

// keyTuple is the seven key fields (the property: only annotations equal on all of them may be merged).
func (a ann) keyTuple() string {
	return fmt.Sprintf("%q|%d|%d|%d|%d|%q|%q", a.Path, a.SL, a.SC, a.EL, a.EC, a.Type, a.Msg)
}

// documented order: ExternalPath (nil first), StartLine, StartColumn, Type, Message, EndLine, EndColumn
func docCompare(a, b ann) int {
	if !a.HasFile && b.HasFile {
		return -1
	}
	if a.HasFile && !b.HasFile {
		return 1
	}
	if c := strings.Compare(a.Path, b.Path); c != 0 {
		return c
	}
	for _, p := range [][2]int{{a.SL, b.SL}, {a.SC, b.SC}} {
		if p[0] != p[1] {
			if p[0] < p[1] {
				return -1
			}
			return 1
		}
	}
	if c := strings.Compare(a.Type, b.Type); c != 0 {
		return c
	}
	if c := strings.Compare(a.Msg, b.Msg); c != 0 {
		return c
	}
	for _, p := range [][2]int{{a.EL, b.EL}, {a.EC, b.EC}} {
		if p[0] != p[1] {
			if p[0] < p[1] {
				return -1
			}
			return 1
		}
	}
	return 0
}

// ---------------------------------------------------------------------------------------
// parsed-back records

// rec is one JSON record (the reference every other format is compared with).
type rec struct {
	Path, Type, Msg, Plugin             string
	HasPath, HasType, HasMsg, HasPlugin bool
	SL, SC, EL, EC                      int
}

func parseJSONLines(out string) ([]rec, error) {
	if out == "" {
		return nil, nil
	}
	if !strings.HasSuffix(out, "\n") {
		return nil, fmt.Errorf("json output does not end with a newline")
	}
	var recs []rec
	for i, line := range strings.Split(strings.TrimSuffix(out, "\n"), "\n") {
		var m map[string]json.RawMessage
		if err := json.Unmarshal([]byte(line), &m); err != nil {
			return nil, fmt.Errorf("json line %d is not a JSON object: %v", i, err)
		}
		var r rec
		for k, v := range m {
			var err error
			switch k {
			case "path":
				r.HasPath = true
				err = json.Unmarshal(v, &r.Path)
			case "type":
				r.HasType = true
				err = json.Unmarshal(v, &r.Type)
			case "message":
				r.HasMsg = true
				err = json.Unmarshal(v, &r.Msg)
			case "plugin":
				r.HasPlugin = true
				err = json.Unmarshal(v, &r.Plugin)
			case "start_line":
				err = json.Unmarshal(v, &r.SL)
			case "start_column":
				err = json.Unmarshal(v, &r.SC)
			case "end_line":
				err = json.Unmarshal(v, &r.EL)
			case "end_column":
				err = json.Unmarshal(v, &r.EC)
			default:
				err = fmt.Errorf("unknown key %q", k)
			}
			if err != nil {
				return nil, fmt.Errorf("json line %d key %s: %v", i, k, err)
			}
		}
		recs = append(recs, r)
	}
	return recs, nil
}

func omit(has bool, s string) string {
	if !has {
		return "_"
	}
	return hx.Enc(s)
}

func encRecs(rs []rec) string {
	if len(rs) == 0 {
		return "-"
	}
	out := make([]string, len(rs))
	for i, r := range rs {
		out[i] = strings.Join([]string{omit(r.HasPath, r.Path), strconv.Itoa(r.SL), strconv.Itoa(r.SC), strconv.Itoa(r.EL), strconv.Itoa(r.EC),
			omit(r.HasType, r.Type), omit(r.HasMsg, r.Msg), omit(r.HasPlugin, r.Plugin)}, ",")
	}
	return strings.Join(out, ";")
}

type xFailure struct {
	Message string `xml:"message,attr"`
	Type    string `xml:"type,attr"`
}
type xCase struct {
	Name     string     `xml:"name,attr"`
	Failures []xFailure `xml:"failure"`
}
type xSuite struct {
	Name     string  `xml:"name,attr"`
	Tests    string  `xml:"tests,attr"`
	Failures string  `xml:"failures,attr"`
	Errors   string  `xml:"errors,attr"`
	Cases    []xCase `xml:"testcase"`
}
type xSuites struct {
	XMLName xml.Name `xml:"testsuites"`
	Suites  []xSuite `xml:"testsuite"`
}

func parseJUnit(out string) (*xSuites, error) {
	var s xSuites
	d := xml.NewDecoder(strings.NewReader(out))
	d.Strict = true
	if err := d.Decode(&s); err != nil {
		return nil, err
	}
	// nothing but white space may follow
	rest, _ := d.Token()
	for rest != nil {
		if cd, ok := rest.(xml.CharData); !ok || strings.TrimSpace(string(cd)) != "" {
			return nil, fmt.Errorf("trailing content after </testsuites>")
		}
		rest, _ = d.Token()
	}
	return &s, nil
}

func encSuites(s *xSuites) string {
	if s == nil || len(s.Suites) == 0 {
		return "-"
	}
	out := make([]string, len(s.Suites))
	for i, su := range s.Suites {
		cs := make([]string, len(su.Cases))
		for j, c := range su.Cases {
			msg, typ := "", ""
			if len(c.Failures) == 1 {
				msg, typ = c.Failures[0].Message, c.Failures[0].Type
			} else {
				msg = fmt.Sprintf("!%d failures", len(c.Failures))
			}
			cs[j] = strings.Join([]string{hx.Enc(c.Name), hx.Enc(msg), hx.Enc(typ)}, ",")
		}
		out[i] = hx.Enc(su.Name) + "," + su.Tests + "[" + strings.Join(cs, "|") + "]"
	}
	return strings.Join(out, ";")
}

// ---------------------------------------------------------------------------------------
// the oracle's own reading of each format, from the JSON record (independent of the Lean model)

func shownPath(r rec) string {
	if !r.HasPath {
		return "<input>"
	}
	return r.Path
}
func shownMsg(r rec) string {
	if r.Msg != "" {
		return r.Msg
	}
	if r.Type != "" {
		return r.Type
	}
	return "FAILURE"
}
func pluginSuffix(p string) string {
	if p == "" {
		return ""
	}
	return " (" + p + ")"
}
func wantText(r rec) string {
	return fmt.Sprintf("%s:%d:%d:%s%s", shownPath(r), r.SL, r.SC, shownMsg(r), pluginSuffix(r.Plugin))
}
func flat(s string) string { return strings.NewReplacer("\r", " ", "\n", " ").Replace(s) }
func wantMSVS(r rec) string {
	t := r.Type
	if t == "" {
		t = "FAILURE"
	}
	return flat(fmt.Sprintf("%s(%d,%d) : error %s : %s%s", shownPath(r), r.SL, r.SC, t, shownMsg(r), pluginSuffix(r.Plugin)))
}

var ghaRe = regexp.MustCompile(`^::error file=([^,:\r\n]*)((?:,(?:line|col|endLine|endColumn)=[0-9]+)*)::([^\r\n]*)$`)
var ghaPropRe = regexp.MustCompile(`,(line|col|endLine|endColumn)=([0-9]+)`)
var msvsRe = regexp.MustCompile(`^[^\r\n]*\([0-9]+,[0-9]+\) : error [^\r\n]* : [^\r\n]*$`)

// GitHub's unescape (runner side): %0D %0A %3A %2C then %25.
func ghaUnescape(s string, prop bool) string {
	s = strings.ReplaceAll(s, "%0D", "\r")
	s = strings.ReplaceAll(s, "%0A", "\n")
	if prop {
		s = strings.ReplaceAll(s, "%3A", ":")
		s = strings.ReplaceAll(s, "%2C", ",")
	}
	return strings.ReplaceAll(s, "%25", "%")
}

type formatOutputs struct {
	text, jsonOut, msvs, junit, gha string
}

// crossCheck verifies well-formedness of every machine-readable format and that all formats show
// the same annotations in the same order; returns (class, what) of the first problem.
func crossCheck(o formatOutputs, wantCount int) (string, string, []rec, *xSuites) {
	recs, err := parseJSONLines(o.jsonOut)
	if err != nil {
		return "json-malformed", err.Error(), nil, nil
	}
	suites, junitErr := parseJUnit(o.junit)
	if junitErr != nil {
		return "junit-malformed", fmt.Sprintf("junit output is not well-formed XML: %v: %q", junitErr, o.junit), recs, nil
	}
	class, what := crossCheckParsed(o, wantCount, recs, suites)
	return class, what, recs, suites
}

func crossCheckParsed(o formatOutputs, wantCount int, recs []rec, suites *xSuites) (string, string) {
	if wantCount >= 0 && len(recs) != wantCount {
		return "dedup-dropped-distinct", fmt.Sprintf("%d annotations differ on a key field but %d were printed (json)", wantCount, len(recs))
	}
	// text: the human format; must be the records in order
	var wt strings.Builder
	for _, r := range recs {
		wt.WriteString(wantText(r) + "\n")
	}
	if o.text != wt.String() {
		return "text-disagrees", fmt.Sprintf("text output %q differs from the json records rendered as text %q", o.text, wt.String())
	}
	// msvs: one line per annotation
	ml := splitLines(o.msvs)
	if len(ml) != len(recs) {
		return "msvs-not-one-line", fmt.Sprintf("msvs printed %d lines for %d annotations: %q", len(ml), len(recs), o.msvs)
	}
	for i, l := range ml {
		if !msvsRe.MatchString(l) {
			return "msvs-not-one-line", fmt.Sprintf("msvs line %d is not `path(l,c) : error T : msg`: %q", i, l)
		}
		if l != wantMSVS(recs[i]) {
			return "msvs-disagrees", fmt.Sprintf("msvs line %d %q differs from json record rendered %q", i, l, wantMSVS(recs[i]))
		}
	}
	// github-actions: one well-formed workflow command per annotation
	gl := splitLines(o.gha)
	if len(gl) != len(recs) {
		return "gha-not-one-line", fmt.Sprintf("github-actions printed %d lines for %d annotations: %q", len(gl), len(recs), o.gha)
	}
	for i, l := range gl {
		m := ghaRe.FindStringSubmatch(l)
		if m == nil {
			return "gha-not-one-line", fmt.Sprintf("github-actions line %d is not a well-formed ::error command: %q", i, l)
		}
		r := recs[i]
		if f := ghaUnescape(m[1], true); f != shownPath(r) {
			return "gha-disagrees", fmt.Sprintf("github-actions line %d file %q, json path %q", i, f, shownPath(r))
		}
		if msg := ghaUnescape(m[3], false); msg != r.Msg+pluginSuffix(r.Plugin) {
			return "gha-disagrees", fmt.Sprintf("github-actions line %d message %q, json %q", i, msg, r.Msg+pluginSuffix(r.Plugin))
		}
		props := map[string]int{}
		for _, pm := range ghaPropRe.FindAllStringSubmatch(m[2], -1) {
			n, _ := strconv.Atoi(pm[2])
			props[pm[1]] = n
		}
		// a property that is present must agree; it may be absent only where the format does not
		// carry it: unknown (json shows 1) or nested under an absent line / endLine.
		_, hasLine := props["line"]
		_, hasEndLine := props["endLine"]
		for _, k := range []string{"line", "col", "endLine", "endColumn"} {
			want := map[string]int{"line": r.SL, "col": r.SC, "endLine": r.EL, "endColumn": r.EC}[k]
			got, ok := props[k]
			mayOmit := want == 1 || (k != "line" && !hasLine) || (k == "endColumn" && !hasEndLine)
			if ok && got != want || !ok && !mayOmit {
				return "gha-disagrees", fmt.Sprintf("github-actions line %d %s=%d (present=%v), json %d", i, k, got, ok, want)
			}
		}
	}
	// junit: cases in order
	idx := 0
	for _, su := range suites.Suites {
		if su.Tests != strconv.Itoa(len(su.Cases)) || su.Failures != su.Tests {
			return "junit-disagrees", fmt.Sprintf("testsuite %q tests=%s failures=%s but %d testcases", su.Name, su.Tests, su.Failures, len(su.Cases))
		}
		for _, c := range su.Cases {
			if idx >= len(recs) {
				return "junit-disagrees", "junit has more testcases than json records"
			}
			r := recs[idx]
			idx++
			if len(c.Failures) != 1 {
				return "junit-disagrees", fmt.Sprintf("testcase %q has %d failures", c.Name, len(c.Failures))
			}
			if su.Name != strings.TrimSuffix(shownPath(r), ".proto") {
				return "junit-disagrees", fmt.Sprintf("testcase #%d is in suite %q, json path %q", idx-1, su.Name, shownPath(r))
			}
			if c.Failures[0].Type != r.Type || c.Failures[0].Message != wantText(r) || !strings.HasPrefix(c.Name, r.Type) {
				return "junit-disagrees", fmt.Sprintf("testcase #%d (%q, %q, %q) differs from json record (%q, %q)", idx-1, c.Name, c.Failures[0].Type, c.Failures[0].Message, r.Type, wantText(r))
			}
		}
	}
	if idx != len(recs) {
		return "junit-disagrees", fmt.Sprintf("junit has %d testcases, json %d records", idx, len(recs))
	}
	return "", ""
}

func splitLines(s string) []string {
	if s == "" {
		return nil
	}
	t := strings.TrimSuffix(s, "\n")
	return strings.Split(t, "\n")
}

// ---------------------------------------------------------------------------------------
// part (i): generator

var (
	pathPool = []string{"a.proto", "a1.proto", "a", "a1", "a12", "dir/b.proto", "wé \"q\" <x>&.proto", "new\nline.proto",
		"c:d,e%.proto", "p%25q%0A.proto", "cr\r\nlf.proto", "日本語/ファイル.proto", "x.proto.proto", "'single'.proto", "tab\there.proto", "]]>.proto"}
	numPool  = []int{0, 0, 1, 1, 1, 2, 3, 12, 12, 23, 23, 123, 9, 10, 31, 7, 13}
	typePool = []string{"", "A", "AB", "FIELD_LOWER_SNAKE_CASE", "COMPILE", "X1", "T<&>\"", "N\nL"}
	msgPool  = []string{"", "m", "Bm", "1m", "Field name \"fooBar\" should be lower_snake_case, such as \"foo_bar\".",
		"line one\nline two", "cr\r\nlf", "100% sure", "%0A literal", "%25", "a::b", "x,y=z", "<tag attr=\"v\">&amp;</tag>", "]]>", "naïve ünïcödé 日本 \U0001F600",
		"trailing newline\n", "\n", " leading space", "tab\tsep", "back\\slash \\n", "'q' \"dq\" `bq`", "::error file=evil.proto::injected", "{\"json\":true}"}
	pluginPool = []string{"", "", "", "buf-plugin-foo", "p\nq", "plug%in", "b<&>"}
)

func genAnn(r *hx.Rand) ann {
	a := ann{HasFile: !r.Chance(1, 8), SL: hx.Pick(r, numPool), SC: hx.Pick(r, numPool), EL: hx.Pick(r, numPool), EC: hx.Pick(r, numPool),
		Type: hx.Pick(r, typePool), Msg: hx.Pick(r, msgPool), Plugin: hx.Pick(r, pluginPool)}
	if a.HasFile {
		a.Path = hx.Pick(r, pathPool)
		if r.Chance(1, 12) {
			a.Path = randText(r)
		}
	}
	if r.Chance(1, 10) {
		a.Msg = randText(r)
	}
	return a
}

var alphabet = []rune{'a', 'b', '1', '2', ' ', '"', '\'', '<', '>', '&', '\n', '\r', '%', ':', ',', '\t', 'é', '日', '\\', '(', ')', '=', '0', 'A'}

func randText(r *hx.Rand) string {
	n := 1 + r.Intn(12)
	rs := make([]rune, n)
	for i := range rs {
		rs[i] = hx.Pick(r, alphabet)
	}
	return string(rs)
}

// collide returns an annotation that differs from a on key fields but has the same
// un-separated concatenation whenever the chosen split exists.
func collide(r *hx.Rand, a ann) ann {
	b := a
	switch r.Intn(5) {
	case 0: // (1,23) / (12,3)
		s := strconv.Itoa(a.SL) + strconv.Itoa(a.SC)
		if len(s) >= 2 {
			k := 1 + r.Intn(len(s)-1)
			b.SL, _ = strconv.Atoi(s[:k])
			b.SC, _ = strconv.Atoi(s[k:])
		}
	case 1:
		s := strconv.Itoa(a.EL) + strconv.Itoa(a.EC)
		if len(s) >= 2 {
			k := 1 + r.Intn(len(s)-1)
			b.EL, _ = strconv.Atoi(s[:k])
			b.EC, _ = strconv.Atoi(s[k:])
		}
	case 2: // type / message boundary
		s := a.Type + a.Msg
		if len(s) >= 1 {
			k := r.Intn(len(s) + 1)
			if utf8.ValidString(s[:k]) && utf8.ValidString(s[k:]) {
				b.Type, b.Msg = s[:k], s[k:]
			}
		}
	case 3: // path / start line boundary
		if a.HasFile {
			b.Path = a.Path + strconv.Itoa(a.SL)[:1]
			rest := strconv.Itoa(a.SL)[1:]
			if rest != "" && rest[0] != '0' {
				b.SL, _ = strconv.Atoi(rest)
			} else {
				b = a
				b.Path = a.Path + "1"
			}
		}
	case 4: // start column / end line boundary
		s := strconv.Itoa(a.SC) + strconv.Itoa(a.EL)
		if len(s) >= 2 {
			k := 1 + r.Intn(len(s)-1)
			if s[k] != '0' || k == len(s)-1 {
				b.SC, _ = strconv.Atoi(s[:k])
				b.EL, _ = strconv.Atoi(s[k:])
			}
		}
	}
	return b
}

// perturb changes exactly one field of a.
func perturb(r *hx.Rand, a ann) ann {
	b := a
	bump := func(n int) int {
		if n > 0 && r.Bool() {
			return n - 1
		}
		return n + 1 + r.Intn(2)
	}
	switch r.Intn(8) {
	case 0:
		if a.HasFile {
			b.Path = a.Path + hx.Pick(r, []string{"0", "a", "é", "\n"})
		} else {
			b.HasFile, b.Path = true, hx.Pick(r, pathPool)
		}
	case 1:
		b.SL = bump(a.SL)
	case 2:
		b.SC = bump(a.SC)
	case 3:
		b.EL = bump(a.EL)
	case 4:
		b.EC = bump(a.EC)
	case 5:
		b.Type = a.Type + hx.Pick(r, []string{"A", "_", "1"})
	case 6:
		b.Msg = a.Msg + hx.Pick(r, []string{".", "m", "\n", "é"})
	case 7:
		b.HasFile, b.Path = false, ""
	}
	return b
}

func genSet(r *hx.Rand) []ann {
	n := 1 + r.Intn(7)
	var as []ann
	for len(as) < n {
		a := genAnn(r)
		as = append(as, a)
		if r.Chance(1, 3) {
			as = append(as, collide(r, a))
		}
		if r.Chance(1, 6) {
			as = append(as, a) // exact duplicate
		}
		for r.Chance(2, 5) {
			as = append(as, perturb(r, a)) // equal to a except for ONE field: every comparator level decides somewhere
		}
		if r.Chance(1, 10) {
			b := a // equal on the key, different plugin (first one wins)
			b.Plugin = a.Plugin + "2"
			as = append(as, b)
		}
	}
	hx.Shuffle(r, as)
	return as
}

type setResult struct {
	sorted []ann
	out    formatOutputs
	panicV any
}

func runSet(as []ann) (res setResult) {
	defer func() {
		if v := recover(); v != nil {
			res.panicV = v
		}
	}()
	reals := make([]bufanalysis.FileAnnotation, len(as))
	for i, a := range as {
		reals[i] = a.real()
	}
	set := bufanalysis.NewFileAnnotationSet(reals...)
	for _, f := range set.FileAnnotations() {
		res.sorted = append(res.sorted, fromReal(f))
	}
	p := func(format string) string {
		var b bytes.Buffer
		if err := bufanalysis.PrintFileAnnotationSet(&b, set, format); err != nil {
			panic(fmt.Sprintf("PrintFileAnnotationSet(%s): %v", format, err))
		}
		return b.String()
	}
	res.out = formatOutputs{text: p("text"), jsonOut: p("json"), msvs: p("msvs"), junit: p("junit"), gha: p("github-actions")}
	return res
}

func inProcessCase(run *hx.Run, idx int, as []ann, tag string) {
	replay := fmt.Sprintf("harness c20 --seed %d --tier %s --only %d", run.Seed, run.Tier, idx)
	res := runSet(as)
	input := "ann\t" + encAnns(as)
	if res.panicV != nil {
		run.Fail(hx.OracleFailure{Class: "panic", What: fmt.Sprintf("%v", res.panicV), Input: as, Replay: replay})
		run.Case(input, "panic", true)
		return
	}
	distinct := map[string]struct{}{}
	keyDet := true
	firstOf := map[string]ann{}
	for _, a := range as {
		k := a.keyTuple()
		if !a.HasFile {
			k = "nil" + k
		}
		distinct[k] = struct{}{}
		if f, ok := firstOf[k]; ok && f != a {
			keyDet = false
		}
		firstOf[k] = a
	}
	class, what, recs, suites := crossCheck(res.out, len(distinct))
	if class != "" {
		run.Fail(hx.OracleFailure{Class: class, What: what, Input: as, Replay: replay})
	}
	// order: strictly increasing in the documented order
	for i := 1; i < len(res.sorted); i++ {
		if docCompare(res.sorted[i-1], res.sorted[i]) >= 0 {
			run.Fail(hx.OracleFailure{Class: "not-sorted", What: fmt.Sprintf("annotations %d and %d are not in the documented order", i-1, i), Input: as, Replay: replay})
			break
		}
	}
	// independence of the input order (when equal keys mean equal annotations)
	if keyDet {
		rev := make([]ann, len(as))
		for i, a := range as {
			rev[len(as)-1-i] = a
		}
		res2 := runSet(rev)
		if res2.panicV == nil && (res2.out != res.out || encAnns(res2.sorted) != encAnns(res.sorted)) {
			run.Fail(hx.OracleFailure{Class: "order-dependent", What: "reversing the input order changes the printed output", Input: as, Replay: replay})
		}
	}
	implOut := strings.Join([]string{
		"sorted=" + encAnns(res.sorted),
		"text=" + hx.Enc(res.out.text),
		"msvs=" + hx.Enc(res.out.msvs),
		"gha=" + hx.Enc(res.out.gha),
		"json=" + encRecs(recs),
		"junit=" + encSuites(suites),
		"djunit=" + decodeJUnit(suites),
	}, "\t")
	run.Case(input, implOut, len(res.sorted) > 1 || len(as) != len(res.sorted))
	// the decoders on the REAL printed text: the harness's own (what a line-oriented consumer
	// does) against the Lean model's `parse_f`
	// (every set in the quick tier, every 8th in the thorough one: the lines carry the whole text again)
	if idx%run.N(1, 8) == 0 {
		run.Case("dec\ttext\t"+hx.Enc(res.out.text), decodeLines(res.out.text, decodeTextLine), len(res.sorted) > 1)
		run.Case("dec\tmsvs\t"+hx.Enc(res.out.msvs), decodeLines(res.out.msvs, decodeMSVSLine), len(res.sorted) > 1)
		run.Case("dec\tgha\t"+hx.Enc(res.out.gha), decodeLines(res.out.gha, decodeGHALine), len(res.sorted) > 1)
	}
	if d := decodeLines(res.out.gha, decodeGHALine); strings.Contains(d, "!") {
		run.Fail(hx.OracleFailure{Class: "gha-not-one-line", What: fmt.Sprintf("a github-actions line does not decode: %q", res.out.gha), Input: as, Replay: replay})
	}
	if strings.Contains(decodeLines(res.out.text, decodeTextLine), "!") {
		run.Count(tag + ":text-line-undecodable")
	}
	if strings.Contains(decodeLines(res.out.msvs, decodeMSVSLine), "!") {
		run.Count(tag + ":msvs-line-undecodable")
	}
	run.Count(fmt.Sprintf("%s:in=%d", tag, min(len(as), 9)))
	run.Count(fmt.Sprintf("%s:dropped=%d", tag, min(len(as)-len(res.sorted), 5)))
	if !keyDet {
		run.Count(tag + ":key-equal-but-different-plugin")
	}
	hostile := false
	for _, a := range as {
		if strings.ContainsAny(a.Msg+a.Path+a.Plugin, "\n\r%<>&\"") {
			hostile = true
		}
	}
	if hostile {
		run.Count(tag + ":hostile-text")
	}
	if idx%97 == 0 {
		run.Sample(map[string]any{"input": as, "text": res.out.text, "github-actions": res.out.gha})
	}
}

// corpus: the recorded witnesses, run first.
func corpusSets() [][]ann {
	base := ann{HasFile: true, Path: "a.proto", SL: 1, SC: 23, EL: 1, EC: 29, Type: "FIELD_LOWER_SNAKE_CASE", Msg: "Field name \"fooBar\" should be lower_snake_case, such as \"foo_bar\"."}
	b2 := base
	b2.SL, b2.SC, b2.EL, b2.EC = 12, 3, 12, 9
	b3 := base
	b3.SL, b3.SC = 3, 1
	nl := ann{HasFile: true, Path: "a.proto", SL: 3, SC: 1, EL: 3, EC: 4, Type: "X", Msg: "first line\nsecond line"}
	pct := ann{HasFile: true, Path: "c:d,e%.proto", SL: 1, SC: 1, EL: 1, EC: 1, Type: "X", Msg: "100%0A\r"}
	tm1 := ann{HasFile: true, Path: "a.proto", SL: 1, SC: 1, EL: 1, EC: 1, Type: "A", Msg: "Bm"}
	tm2 := tm1
	tm2.Type, tm2.Msg = "AB", "m"
	return [][]ann{{base, b2, b3}, {b2, base}, {nl}, {pct}, {tm1, tm2}, {{HasFile: false, SL: 0, SC: 0, Type: "", Msg: ""}}}
}

// ---------------------------------------------------------------------------------------

// C20_PARTS (development aid): a list of part numbers such as "6" or "5,6" restricts the run to
// those parts; the case indices stay what they are in a full run.
var currentPart = 0

func partEnabled() bool {
	p := os.Getenv("C20_PARTS")
	if p == "" {
		return true
	}
	for _, x := range strings.Split(p, ",") {
		if x == strconv.Itoa(currentPart) {
			return true
		}
	}
	return false
}

func main() {
	run := hx.Start("C20")
	defer run.Finish()
	rnd := hx.NewRand(run.Seed)
	tStart := time.Now()
	idx := 0
	do := func(f func()) {
		if (run.Only < 0 || run.Only == idx) && partEnabled() {
			f()
		}
		idx++
	}
	// part (i)
	currentPart = 1
	for _, as := range corpusSets() {
		as := as
		do(func() { inProcessCase(run, idx, as, "corpus") })
	}
	nSets := run.N(20000, 200000)
	for i := 0; i < nSets; i++ {
		r := rnd.Fork(uint64(i))
		as := genSet(r)
		do(func() { inProcessCase(run, idx, as, "set") })
	}
	run.Set("part1_seconds", time.Since(tStart).Seconds())
	// part (iii): error values through the extracted classification code
	t3 := time.Now()
	currentPart = 3
	errValueCases(run, rnd.Fork(3_000_000), &idx, do)
	appErrorCreators(run)
	run.Set("part3_seconds", time.Since(t3).Seconds())
	// part (ii)
	t0 := time.Now()
	bufBin, err := buildBuf(run)
	if err != nil {
		fmt.Fprintln(os.Stderr, err)
		os.Exit(3)
	}
	run.Set("buf_build_seconds", time.Since(t0).Seconds())
	scratch, err := os.MkdirTemp("", "c20-ws-")
	if err != nil {
		panic(err)
	}
	defer os.RemoveAll(scratch)
	_ = os.Chmod(scratch, 0o755) // part (v) runs some buf processes under another user id
	procRuns := 0
	// parts (iv) and (v) are batches of independent buf processes: they run in the background
	// while part (ii) goes through its workspaces; their evaluation (and their case indices)
	// come after part (ii)
	fixed := fixedWorkspaces()
	nWs := run.N(100, 800)
	base := idx + len(fixed) + nWs
	currentPart = 4
	ph := phasePrepare(run, rnd.Fork(4_000_000), base, bufBin, scratch)
	currentPart = 5
	wr := writePrepare(run, rnd.Fork(5_000_000), base+ph.n, bufBin, scratch)
	t6 := time.Now()
	currentPart = 6
	sz := sizePrepare(run, rnd.Fork(6_000_000), base+ph.n+wr.n, bufBin, scratch)
	run.Set("part6_generate_seconds", time.Since(t6).Seconds())
	currentPart = 7
	im := importPrepare(run, rnd.Fork(7_000_000), base+ph.n+wr.n+sz.n, bufBin, scratch)
	currentPart = 2
	background := make(chan struct{})
	go func() {
		parallel(10, append(append(append(append([]func(){}, sz.procs...), ph.procs...), wr.procs...), im.procs...))
		close(background)
	}()
	for _, w := range fixed {
		w := w
		do(func() { procRuns += binaryCase(run, idx, w, bufBin, scratch) })
	}
	for i := 0; i < nWs; i++ {
		r := rnd.Fork(uint64(1_000_000 + i))
		w := genWorkspace(r, i)
		do(func() { procRuns += binaryCase(run, idx, w, bufBin, scratch) })
	}
	run.Set("part2_seconds", time.Since(t0).Seconds())
	if idx != base {
		panic(fmt.Sprintf("case index %d after part (ii), expected %d", idx, base))
	}
	t4 := time.Now()
	<-background
	run.Set("part45_wait_seconds", time.Since(t4).Seconds())
	// part (iv): every phase that can reject a source file x location x input form x command
	ph.eval()
	// part (v): buf format -w / -o / -d at the level of file contents
	wr.eval()
	// part (vi): the same modes by SIZE of the formatted text
	sz.eval()
	// part (vii): the import-path family - (a) the binary, (b) BuildImage / ModuleDeps in the probe
	t7 := time.Now()
	im.eval()
	idx += ph.n + wr.n + sz.n + im.n
	procRuns += ph.runs + wr.runs + sz.runs + im.runs
	run.Set("part45_seconds", time.Since(t4).Seconds())
	currentPart = 7
	importProbeCases(run, rnd.Fork(7_500_000), &idx, do)
	run.Set("part7_eval_seconds", time.Since(t7).Seconds())
	run.Set("process_runs", procRuns)
	_ = sort.Strings
}
