// Number family: SourceCodeInfo paths whose ELEMENTS are large or differ only in high bits.
//
// The mark-sweeper remembers the location paths of rewritten options under a map key
// (internal.getPathKey: four little-endian bytes per int32 element) and compares every location
// of the file with those keys.  The property ("source-info entries are removed exactly for the
// options that were rewritten") needs the comparison to be EXACT on whole paths; any lossy key
// (fewer bytes per element, only a suffix / prefix of the path, no element separator, ...) removes
// locations of options managed mode never touched.  The Lean model compares paths as `List Nat`
// (exact, unbounded), so every such loss is also a model / implementation mismatch.
//
// Case 2000000+k (`--only`), by k mod 8:
//
//	0,1,2  compiled .proto: all twelve governed file options pre-set, every 64-bit field with
//	       jstype pre-set; custom FILE and FIELD options (scalar [..,T], message-typed through a
//	       sub-field [..,T,1], repeated [..,T,i]) whose extension numbers cycle through
//	       numFamNumbers: 1000, 1023..1025, 2^15-1..2^15+1, 18999, 20000, 2^16-20 .. 2^16+20,
//	       2^17, 2^17+1, 2^24-1..2^24+1, 2^28, 2^29-1 (the largest field number) and, for every
//	       governed option number N (file: 1 8 9 10 11 27 31 36 37 41 44 45; field: 6),
//	       1024+N, 2^16+N, 2*2^16+N, 2^24+N, 2^24+2^16+N, 2^28+N.  Message / enum / enum value
//	       options with such numbers too (never swept).
//	3,4    hand-built descriptor, CONFUSABLE paths: next to the location of every governed file
//	       option [8,N] and of every jstype [..field..,8,6] the list holds paths that a lossy key
//	       would identify with it: one element +2^8 / +2^16 / +2^17 / +2^16+2^8 / +2^24 / +2^30 (at
//	       every position: tags, message / field / extension indexes, the option number), the
//	       decimal digits regrouped ([8,11] ~ [8,1,1] ~ [81,1] ~ [811]), every proper suffix, the
//	       path behind a foreign prefix, one more trailing element, the reversed path.  FileOptions /
//	       FieldOptions also hold unknown fields 65536+N.
//	5      compiled: indexes >= 256 in the paths: a message with 300 fields, a file with 300
//	       messages, 300 nested messages, 300 extensions in a message / at file level; jstype pre-set
//	       on indexes i and i+256, overridden per field for index i only; a file with 300 enums and
//	       an enum with 300 values, each with an option (never swept).
//	6      hand-built: indexes >= 65536: a file with 65 540 messages (fields in messages 0, 3, 65536,
//	       65539), a message with 65 540 nested messages; per-field override for the low index only.
//	7      compiled: deep paths (messages nested 12 / 28 deep, fields and extensions at every level).
//
// Configs make the governed options really change (overrides to new values; file-wide or per-field
// jstype override), or only some of them (the others disabled), so that marks exist; the existing
// sweep oracle of runCase (exactly the changed options' locations, their [8] parents and emptied
// FieldOptions parents are removed; every other location survives) decides.
package main

import (
	"fmt"
	"strconv"
	"strings"

	"github.com/bufbuild/buf/private/bufpkg/bufconfig"
	"github.com/bufbuild/buf/private/bufpkg/bufimage"
	"github.com/bufbuild/protocompile"
	"github.com/bufbuild/verifharness/internal/hx"
	"google.golang.org/protobuf/encoding/protowire"
	"google.golang.org/protobuf/proto"
	"google.golang.org/protobuf/types/descriptorpb"
)

const numFamBase = 2000000

var governedFileTags = []int32{1, 8, 9, 10, 11, 27, 31, 36, 37, 41, 44, 45}

// numFamNumbers: legal extension numbers (1000 .. 2^29-1 outside 19000-19999) at and around
// every power-of-two boundary and congruent to a governed option number modulo 2^8, 2^16, 2^24.
var numFamNumbers = func() []int32 {
	seen := map[int32]bool{}
	var out []int32
	add := func(n int64) {
		if n < 1000 || n > 536870911 || (n >= 19000 && n <= 19999) {
			return
		}
		if !seen[int32(n)] {
			seen[int32(n)] = true
			out = append(out, int32(n))
		}
	}
	for _, n := range []int64{1000, 1023, 1024, 1025, 1<<15 - 1, 1 << 15, 1<<15 + 1, 18999, 20000, 1 << 17, 1<<17 + 1, 1<<24 - 1, 1 << 24, 1<<24 + 1, 1 << 28, 1<<29 - 1, 1<<29 - 2} {
		add(n)
	}
	for d := int64(-20); d <= 20; d++ {
		add(1<<16 + d)
	}
	for _, t := range append([]int32{6}, governedFileTags...) {
		n := int64(t)
		for _, b := range []int64{1024, 2048, 1 << 16, 2 << 16, 3 << 16, 1 << 24, 1<<24 + 1<<16, 1 << 28, 1<<16 + 1<<8} {
			add(b + n)
		}
	}
	return out
}()

// every governed file option pre-set to a value no managed default / override below produces
var numFamPreset = []string{
	`java_package = "com.old"`, `java_outer_classname = "OldOuter"`, `java_multiple_files = false`, `java_string_check_utf8 = true`,
	`optimize_for = CODE_SIZE`, `go_package = "old/pkg;oldpb"`, `cc_enable_arenas = false`, `objc_class_prefix = "OLD"`,
	`csharp_namespace = "Old.Ns"`, `php_namespace = "Old\\Ns"`, `php_metadata_namespace = "Old\\Meta"`, `ruby_package = "Old::Pkg"`,
}

// overrides that change every governed option of a file carrying numFamPreset
func numFamAllOverrides() []ruleO {
	os := []ruleO{
		{fileOpt: bufconfig.FileOptionJavaPackage, kind: 's', sval: "net.new"},
		{fileOpt: bufconfig.FileOptionJavaOuterClassname, kind: 's', sval: "NewOuter"},
		{fileOpt: bufconfig.FileOptionJavaMultipleFiles, kind: 'b', bval: true},
		{fileOpt: bufconfig.FileOptionJavaStringCheckUtf8, kind: 'b', bval: false},
		{fileOpt: bufconfig.FileOptionOptimizeFor, kind: 'o', nval: 3},
		{fileOpt: bufconfig.FileOptionGoPackage, kind: 's', sval: "new/pkg"},
		{fileOpt: bufconfig.FileOptionCcEnableArenas, kind: 'b', bval: true},
		{fileOpt: bufconfig.FileOptionObjcClassPrefix, kind: 's', sval: "NEW"},
		{fileOpt: bufconfig.FileOptionCsharpNamespace, kind: 's', sval: "New.Ns"},
		{fileOpt: bufconfig.FileOptionPhpNamespace, kind: 's', sval: "New"},
		{fileOpt: bufconfig.FileOptionPhpMetadataNamespace, kind: 's', sval: "NewMeta"},
		{fileOpt: bufconfig.FileOptionRubyPackage, kind: 's', sval: "New"},
	}
	return os
}

func disableAllFileOptions() []ruleD {
	var ds []ruleD
	for fo := bufconfig.FileOption(1); fo <= 18; fo++ {
		d := ruleD{fileOpt: fo}
		if _, err := buildDirect(true, []ruleD{d}, nil); err == nil {
			ds = append(ds, d)
		}
	}
	return ds
}

// ---------------------------------------------------------------------------------------
// compiled: boundary extension numbers

func genNumFamProto(r *hx.Rand, k int) string {
	var sb strings.Builder
	sb.WriteString("syntax = \"proto2\";\npackage nf.v1;\nimport \"google/protobuf/descriptor.proto\";\n")
	nn := len(numFamNumbers)
	pick := func(base, count int) []int32 {
		var out []int32
		for j := 0; j < count; j++ {
			out = append(out, numFamNumbers[(base+j)%nn])
		}
		return out
	}
	fileNums := pick(k*9, 9)
	fieldNums := pick(k*7+3, 7)
	otherNums := pick(k*3+5, 3)
	// option statements
	var stmts []string
	stmts = append(stmts, numFamPreset...)
	var fileDecl, fieldDecl []string
	for j, n := range fileNums {
		switch (j + k) % 3 {
		case 0:
			fileDecl = append(fileDecl, fmt.Sprintf("optional string nf_s_%d = %d;", n, n))
			stmts = append(stmts, fmt.Sprintf("(nf_s_%d) = \"x\"", n))
		case 1:
			fileDecl = append(fileDecl, fmt.Sprintf("optional NfMsg nf_m_%d = %d;", n, n))
			stmts = append(stmts, fmt.Sprintf("(nf_m_%d).a = 1", n))
			if j%2 == 0 {
				stmts = append(stmts, fmt.Sprintf("(nf_m_%d).inner.a = 2", n))
			}
		default:
			fileDecl = append(fileDecl, fmt.Sprintf("repeated int32 nf_r_%d = %d;", n, n))
			stmts = append(stmts, fmt.Sprintf("(nf_r_%d) = 1", n), fmt.Sprintf("(nf_r_%d) = 2", n))
		}
	}
	// repeated option statements must keep their relative order; shuffle blocks of the governed ones only
	gov := stmts[:len(numFamPreset)]
	hx.Shuffle(r, gov)
	rest := stmts[len(numFamPreset):]
	// interleave: governed options between the custom ones
	var all []string
	gi := 0
	for _, s := range rest {
		if gi < len(gov) && r.Bool() {
			all = append(all, gov[gi])
			gi++
		}
		all = append(all, s)
	}
	all = append(all, gov[gi:]...)
	for _, s := range all {
		sb.WriteString("option " + s + ";\n")
	}
	sb.WriteString("message NfMsg { optional int32 a = 1; optional NfMsg inner = 2; repeated int32 rr = 3; }\n")
	// fields
	var fields []string
	js := func(j int) string { return "jstype = " + jsNames[(j+k)%2] } // JS_NORMAL / JS_STRING; the override sets JS_NUMBER
	for j, n := range fieldNums {
		var os []string
		switch (j + k) % 3 {
		case 0:
			fieldDecl = append(fieldDecl, fmt.Sprintf("optional string ff_s_%d = %d;", n, n))
			os = append(os, fmt.Sprintf("(ff_s_%d) = \"c\"", n))
		case 1:
			fieldDecl = append(fieldDecl, fmt.Sprintf("optional NfMsg ff_m_%d = %d;", n, n))
			os = append(os, fmt.Sprintf("(ff_m_%d).a = 1", n))
		default:
			fieldDecl = append(fieldDecl, fmt.Sprintf("repeated int32 ff_r_%d = %d;", n, n))
			os = append(os, fmt.Sprintf("(ff_r_%d) = 1", n), fmt.Sprintf("(ff_r_%d) = 2", n))
		}
		if j%3 == 0 {
			os = append([]string{js(j)}, os...)
		} else {
			os = append(os, js(j))
		}
		fields = append(fields, fmt.Sprintf("  optional %s f%d = %d [%s];\n", hx.Pick(r, scalarTypes[:5]), j, j+1, strings.Join(os, ", ")))
	}
	// one field with every custom field option at once, one with jstype alone, one without jstype
	var allOpts []string
	for j, n := range fieldNums {
		switch (j + k) % 3 {
		case 0:
			allOpts = append(allOpts, fmt.Sprintf("(ff_s_%d) = \"d\"", n))
		case 1:
			allOpts = append(allOpts, fmt.Sprintf("(ff_m_%d).inner.a = 3", n))
		default:
			allOpts = append(allOpts, fmt.Sprintf("(ff_r_%d) = 7", n))
		}
	}
	fields = append(fields, fmt.Sprintf("  optional uint64 all = 50 [%s, jstype = JS_STRING];\n", strings.Join(allOpts, ", ")))
	fields = append(fields, "  optional sint64 alone = 51 [jstype = JS_NORMAL];\n")
	fields = append(fields, fmt.Sprintf("  optional int64 nojs = 52 [%s];\n", allOpts[0]))
	sb.WriteString("extend google.protobuf.FileOptions { " + strings.Join(fileDecl, " ") + " }\n")
	sb.WriteString("extend google.protobuf.FieldOptions { " + strings.Join(fieldDecl, " ") + " }\n")
	sb.WriteString(fmt.Sprintf("extend google.protobuf.MessageOptions { optional NfMsg nm_%d = %d; }\n", otherNums[0], otherNums[0]))
	sb.WriteString(fmt.Sprintf("extend google.protobuf.EnumOptions { optional NfMsg ne_%d = %d; }\n", otherNums[1], otherNums[1]))
	sb.WriteString(fmt.Sprintf("extend google.protobuf.EnumValueOptions { optional string nv_%d = %d; }\n", otherNums[2], otherNums[2]))
	sb.WriteString("message M0 {\n")
	sb.WriteString(fmt.Sprintf("  option (nm_%d).a = 1;\n", otherNums[0]))
	for _, f := range fields {
		sb.WriteString(f)
	}
	sb.WriteString("  extensions 100 to 199;\n")
	sb.WriteString(fmt.Sprintf("  message N { optional fixed64 n0 = 1 [jstype = JS_STRING, %s]; }\n", allOpts[len(allOpts)-1]))
	sb.WriteString(fmt.Sprintf("  extend M0 { optional int64 in_ext = 101 [%s, jstype = JS_NORMAL]; }\n", allOpts[0]))
	sb.WriteString(fmt.Sprintf("  enum E { option (ne_%d).a = 2; E_UNSPECIFIED = 0 [(nv_%d) = \"v\"]; }\n", otherNums[1], otherNums[2]))
	sb.WriteString("}\n")
	sb.WriteString(fmt.Sprintf("extend M0 { optional sfixed64 top_ext = 150 [jstype = JS_STRING, %s]; }\n", allOpts[len(allOpts)/2]))
	return sb.String()
}

// ---------------------------------------------------------------------------------------
// compiled: indexes >= 256, deep nesting

func genManyIndexProto(k int) string {
	var sb strings.Builder
	sb.WriteString("syntax = \"proto2\";\npackage nf.many;\n")
	sb.WriteString("option java_package = \"com.old\";\n")
	const n = 300
	lo := []int{0, 3, 43}
	isMarked := func(i int) bool {
		for _, l := range lo {
			if i == l || i == l+256 {
				return true
			}
		}
		return i == n-1
	}
	jsOpt := func(i int) string {
		if isMarked(i) {
			return " [jstype = JS_STRING]"
		}
		return ""
	}
	switch k % 6 {
	case 5: // 300 enums with an option each, an enum with 300 values with an option each (never swept)
		sb.WriteString("message Holder { optional int64 a = 1 [jstype = JS_STRING]; optional int64 b = 2 [jstype = JS_NORMAL]; }\n")
		for i := 0; i < n; i++ {
			sb.WriteString(fmt.Sprintf("enum E%d { option deprecated = true; E%d_UNSPECIFIED = 0 [deprecated = true]; }\n", i, i))
		}
		sb.WriteString("enum Wide {\n  WIDE_UNSPECIFIED = 0;\n")
		for i := 1; i < n; i++ {
			sb.WriteString(fmt.Sprintf("  WIDE_%d = %d [deprecated = true];\n", i, i))
		}
		sb.WriteString("}\n")
	case 0: // a message with 300 fields
		sb.WriteString("message Big {\n")
		for i := 0; i < n; i++ {
			sb.WriteString(fmt.Sprintf("  optional int64 f%d = %d%s;\n", i, i+1, jsOpt(i)))
		}
		sb.WriteString("}\n")
	case 1: // a file with 300 messages
		for i := 0; i < n; i++ {
			sb.WriteString(fmt.Sprintf("message M%d { optional uint64 a = 1%s; }\n", i, jsOpt(i)))
		}
	case 2: // 300 nested messages
		sb.WriteString("message Outer {\n")
		for i := 0; i < n; i++ {
			sb.WriteString(fmt.Sprintf("  message N%d { optional sint64 a = 1%s; }\n", i, jsOpt(i)))
		}
		sb.WriteString("}\n")
	case 3: // 300 extensions in a message
		sb.WriteString("message Ext { extensions 100 to 999;\n  extend Ext {\n")
		for i := 0; i < n; i++ {
			sb.WriteString(fmt.Sprintf("    optional fixed64 e%d = %d%s;\n", i, 100+i, jsOpt(i)))
		}
		sb.WriteString("  }\n}\n")
	default: // 300 file-level extensions
		sb.WriteString("message Ext { extensions 100 to 999; }\nextend Ext {\n")
		for i := 0; i < n; i++ {
			sb.WriteString(fmt.Sprintf("  optional sfixed64 e%d = %d%s;\n", i, 100+i, jsOpt(i)))
		}
		sb.WriteString("}\n")
	}
	return sb.String()
}

func genDeepProto(depth int) string {
	var sb strings.Builder
	sb.WriteString("syntax = \"proto2\";\npackage nf.deep;\noption java_package = \"com.old\";\n")
	for d := 0; d < depth; d++ {
		ind := strings.Repeat(" ", d)
		sb.WriteString(fmt.Sprintf("%smessage D%d {\n%s optional int64 a = 1 [jstype = JS_STRING];\n%s optional int64 b = 2 [jstype = JS_STRING, deprecated = true];\n%s extensions 100 to 199;\n", ind, d, ind, ind, ind))
		if d%3 == 1 {
			sb.WriteString(fmt.Sprintf("%s extend D0 { optional uint64 x%d = %d [jstype = JS_NORMAL]; }\n", ind, d, 100+d))
		}
	}
	for d := depth - 1; d >= 0; d-- {
		sb.WriteString(strings.Repeat(" ", d) + "}\n")
	}
	return sb.String()
}

// the 64-bit fields of the user files with their pre-set jstype
type jsField struct {
	name string
	path []int32
	cur  *int32
}

func jsFieldsOf(img *builtImage) []jsField {
	var out []jsField
	for _, f := range img.files {
		if f.IsImport() {
			continue
		}
		for _, fl := range walkFields(f.FileDescriptorProto()) {
			switch fl.desc.GetType() {
			case descriptorpb.FieldDescriptorProto_TYPE_INT64, descriptorpb.FieldDescriptorProto_TYPE_UINT64, descriptorpb.FieldDescriptorProto_TYPE_SINT64,
				descriptorpb.FieldDescriptorProto_TYPE_FIXED64, descriptorpb.FieldDescriptorProto_TYPE_SFIXED64:
				var cur *int32
				if fl.desc.Options != nil && fl.desc.Options.Jstype != nil {
					v := int32(*fl.desc.Options.Jstype)
					cur = &v
				}
				out = append(out, jsField{fl.name, fl.path, cur})
			}
		}
	}
	return out
}

// ---------------------------------------------------------------------------------------
// hand-built: confusable paths

func digitsOf(p []int32) []string {
	out := make([]string, len(p))
	for i, x := range p {
		out[i] = strconv.Itoa(int(x))
	}
	return out
}

// confusables lists paths a lossy key could identify with p.
func confusables(p []int32) [][]int32 {
	var out [][]int32
	for i := range p {
		for _, d := range []int32{1 << 8, 1 << 16, 1 << 17, 1<<16 + 1<<8, 1 << 24, 1 << 30} {
			q := append([]int32(nil), p...)
			q[i] += d
			out = append(out, q)
		}
	}
	// decimal digits regrouped
	ds := digitsOf(p)
	atoi := func(s string) (int32, bool) {
		if s == "" || len(s) > 9 || (len(s) > 1 && s[0] == '0') {
			return 0, false
		}
		n, err := strconv.Atoi(s)
		return int32(n), err == nil
	}
	for i := 0; i+1 < len(p); i++ {
		// merge elements i and i+1
		if m, ok := atoi(ds[i] + ds[i+1]); ok {
			q := append(append(append([]int32(nil), p[:i]...), m), p[i+2:]...)
			out = append(out, q)
		}
		// move the first digit of element i+1 to element i
		if len(ds[i+1]) > 1 {
			a, ok1 := atoi(ds[i] + ds[i+1][:1])
			b, ok2 := atoi(ds[i+1][1:])
			if ok1 && ok2 {
				q := append([]int32(nil), p...)
				q[i], q[i+1] = a, b
				out = append(out, q)
			}
		}
	}
	for i := range p {
		// split element i in two
		if len(ds[i]) > 1 {
			a, ok1 := atoi(ds[i][:1])
			b, ok2 := atoi(ds[i][1:])
			if ok1 && ok2 {
				q := append(append(append([]int32(nil), p[:i]...), a, b), p[i+1:]...)
				out = append(out, q)
			}
		}
	}
	// proper suffixes (a key built from the last elements only)
	for i := 1; i+1 < len(p); i++ {
		out = append(out, append([]int32(nil), p[i:]...))
	}
	// the path behind a foreign prefix, with one more element, reversed
	out = append(out, append([]int32{5, 9}, p...), append([]int32{4, 9, 4}, p...), append(append([]int32(nil), p...), 0))
	rev := make([]int32, len(p))
	for i, x := range p {
		rev[len(p)-1-i] = x
	}
	out = append(out, rev)
	return out
}

type locBuilder struct {
	sci  *descriptorpb.SourceCodeInfo
	seen map[string]bool
}

func (b *locBuilder) has(p []int32) bool { return b.seen[pathStr(p)] }

// add appends a location (paths that must be unique are deduplicated by the caller through has).
func (b *locBuilder) add(p []int32) {
	b.seen[pathStr(p)] = true
	b.sci.Location = append(b.sci.Location, &descriptorpb.SourceCodeInfo_Location{Path: append([]int32(nil), p...), Span: []int32{int32(len(b.sci.Location)), 0, 1}})
}

func unknownVarint(num int32, v uint64) []byte {
	return protowire.AppendVarint(protowire.AppendTag(nil, protowire.Number(num), protowire.VarintType), v)
}

func presetFileOptions() *descriptorpb.FileOptions {
	return &descriptorpb.FileOptions{
		JavaPackage: proto.String("com.old"), JavaOuterClassname: proto.String("OldOuter"), JavaMultipleFiles: proto.Bool(false),
		JavaStringCheckUtf8: proto.Bool(true), OptimizeFor: descriptorpb.FileOptions_CODE_SIZE.Enum(), GoPackage: proto.String("old/pkg;oldpb"),
		CcEnableArenas: proto.Bool(false), ObjcClassPrefix: proto.String("OLD"), CsharpNamespace: proto.String("Old.Ns"),
		PhpNamespace: proto.String("Old\\Ns"), PhpMetadataNamespace: proto.String("Old\\Meta"), RubyPackage: proto.String("Old::Pkg"),
	}
}

func genConfusableImage(r *hx.Rand, k int) *builtImage {
	fd := &descriptorpb.FileDescriptorProto{Name: proto.String("nf/confusable.proto"), Package: proto.String("nf.v1"), Options: presetFileOptions()}
	for _, t := range governedFileTags {
		if (int(t)+k)%3 == 0 {
			fd.Options.ProtoReflect().SetUnknown(append(fd.Options.ProtoReflect().GetUnknown(), unknownVarint(1<<16+t, 1)...))
		}
	}
	b := &locBuilder{sci: &descriptorpb.SourceCodeInfo{}, seen: map[string]bool{}}
	b.add([]int32{})
	b.add([]int32{12})
	b.add([]int32{2})
	tags := append([]int32(nil), governedFileTags...)
	hx.Shuffle(r, tags)
	for ti, t := range tags {
		p := []int32{8, t}
		b.add([]int32{8})
		b.add(p)
		if (ti+k)%4 == 3 {
			continue // this option's location has no confusable neighbours
		}
		for _, c := range confusables(p) {
			if b.has(c) {
				continue
			}
			if len(c) == 2 && c[0] == 8 {
				b.add([]int32{8}) // a file option statement: its own [8] parent first
			}
			b.add(c)
		}
	}
	mkField := func(name string, num int32, typ descriptorpb.FieldDescriptorProto_Type, js int32) *descriptorpb.FieldDescriptorProto {
		f := &descriptorpb.FieldDescriptorProto{Name: proto.String(name), Number: proto.Int32(num), Type: typ.Enum(),
			Options: &descriptorpb.FieldOptions{Jstype: descriptorpb.FieldOptions_JSType(js).Enum()}}
		if (int(num)+k)%2 == 0 {
			f.Options.ProtoReflect().SetUnknown(unknownVarint(1<<16+6, 1))
		}
		return f
	}
	msg := &descriptorpb.DescriptorProto{Name: proto.String("M")}
	type home struct{ path []int32 }
	var homes []home
	for j := 0; j < 3; j++ {
		msg.Field = append(msg.Field, mkField("f"+strconv.Itoa(j), int32(j+1), descriptorpb.FieldDescriptorProto_TYPE_INT64, int32(j%2)))
		homes = append(homes, home{[]int32{4, 0, 2, int32(j)}})
	}
	nested := &descriptorpb.DescriptorProto{Name: proto.String("N"), Field: []*descriptorpb.FieldDescriptorProto{mkField("n0", 1, descriptorpb.FieldDescriptorProto_TYPE_UINT64, 1)}}
	msg.NestedType = append(msg.NestedType, nested)
	homes = append(homes, home{[]int32{4, 0, 3, 0, 2, 0}})
	ie := mkField("in_ext", 120, descriptorpb.FieldDescriptorProto_TYPE_FIXED64, 0)
	ie.Extendee = proto.String(".nf.v1.M")
	msg.Extension = append(msg.Extension, ie)
	homes = append(homes, home{[]int32{4, 0, 6, 0}})
	fd.MessageType = append(fd.MessageType, msg)
	te := mkField("top_ext", 121, descriptorpb.FieldDescriptorProto_TYPE_SFIXED64, 1)
	te.Extendee = proto.String(".nf.v1.M")
	fd.Extension = append(fd.Extension, te)
	homes = append(homes, home{[]int32{7, 0}})
	b.add([]int32{4, 0})
	for hi, h := range homes {
		if !b.has(h.path) {
			b.add(h.path)
		}
		root := cat(h.path, 8)
		leaf := cat(root, 6)
		b.add(root)
		b.add(leaf)
		inRoot := (hi+k)%2 == 0 // confusable locations INSIDE this FieldOptions location: the root must then stay
		var later [][]int32
		for _, c := range confusables(leaf) {
			if b.has(c) {
				continue
			}
			under := len(c) > len(root) && pathEq(c[:len(root)], root)
			if under {
				if inRoot {
					b.add(c)
				}
				continue
			}
			later = append(later, c)
		}
		b.add(cat(h.path, 1))
		for _, c := range later {
			if b.has(c) {
				continue
			}
			// a confusable path of the form <other field> ++ [8,6]: give it its own field and
			// FieldOptions locations first, as a compiler would
			if n := len(c); n >= 4 && c[n-2] == 8 {
				croot := c[:n-1]
				if b.has(croot) {
					continue // would repeat a FieldOptions location (malformed shape)
				}
				if !b.has(c[:n-2]) {
					b.add(c[:n-2])
				}
				b.add(croot)
			}
			b.add(c)
		}
	}
	fd.SourceCodeInfo = b.sci
	return &builtImage{files: []bufimage.ImageFile{newImageFile(fd, hx.Pick(r, modules), false)}, kind: "numfam-confusable"}
}

// ---------------------------------------------------------------------------------------
// hand-built: indexes >= 65536 in a real descriptor

func genHugeIndexImage(k int) (*builtImage, []string) {
	fd := &descriptorpb.FileDescriptorProto{Name: proto.String("nf/huge.proto"), Package: proto.String("nf.huge"), Options: &descriptorpb.FileOptions{JavaPackage: proto.String("com.old")}}
	b := &locBuilder{sci: &descriptorpb.SourceCodeInfo{}, seen: map[string]bool{}}
	b.add([]int32{})
	b.add([]int32{8})
	b.add([]int32{8, 1})
	const n = 65540
	marked := []int{0, 3, 65536, 65539}
	low := []string{}
	mk := func(name string) *descriptorpb.FieldDescriptorProto {
		return &descriptorpb.FieldDescriptorProto{Name: proto.String(name), Number: proto.Int32(1), Type: descriptorpb.FieldDescriptorProto_TYPE_INT64.Enum(),
			Options: &descriptorpb.FieldOptions{Jstype: descriptorpb.FieldOptions_JS_STRING.Enum()}}
	}
	isMarked := map[int]bool{}
	for _, i := range marked {
		isMarked[i] = true
	}
	addField := func(p []int32) {
		b.add(p)
		b.add(cat(p, 8))
		b.add(cat(p, 8, 6))
		b.add(cat(p, 1))
	}
	if k%2 == 0 {
		// 65 540 top-level messages
		for i := 0; i < n; i++ {
			m := &descriptorpb.DescriptorProto{Name: proto.String("M" + strconv.Itoa(i))}
			if isMarked[i] {
				m.Field = append(m.Field, mk("a"))
			}
			fd.MessageType = append(fd.MessageType, m)
		}
		for _, i := range marked {
			b.add([]int32{4, int32(i)})
			addField([]int32{4, int32(i), 2, 0})
			if i < 256 {
				low = append(low, "nf.huge.M"+strconv.Itoa(i)+".a")
			}
		}
	} else {
		// one message with 65 540 nested messages
		outer := &descriptorpb.DescriptorProto{Name: proto.String("Outer")}
		for i := 0; i < n; i++ {
			m := &descriptorpb.DescriptorProto{Name: proto.String("N" + strconv.Itoa(i))}
			if isMarked[i] {
				m.Field = append(m.Field, mk("a"))
			}
			outer.NestedType = append(outer.NestedType, m)
		}
		fd.MessageType = append(fd.MessageType, outer)
		b.add([]int32{4, 0})
		for _, i := range marked {
			b.add([]int32{4, 0, 3, int32(i)})
			addField([]int32{4, 0, 3, int32(i), 2, 0})
			if i < 256 {
				low = append(low, "nf.huge.Outer.N"+strconv.Itoa(i)+".a")
			}
		}
	}
	fd.SourceCodeInfo = b.sci
	return &builtImage{files: []bufimage.ImageFile{newImageFile(fd, "", false)}, kind: "numfam-huge-index"}, low
}

// ---------------------------------------------------------------------------------------

func runNumberFamily(run *hx.Run, root *hx.Rand) {
	n := run.N(160, 800)
	for k := 0; k < n; k++ {
		if run.Only >= 0 && run.Only != numFamBase+k {
			continue
		}
		r := root.Fork(uint64(k))
		var img *builtImage
		var ds []ruleD
		var os []ruleO
		preserve := false
		kind := ""
		compiled := func(src, path, what string) bool {
			var err error
			img, err = compileSources([]genFile{{path: path, pkg: "nf", module: hx.Pick(r, modules), src: src}}, protocompile.SourceInfoExtraOptionLocations, what)
			if err != nil {
				run.Count("gen:numfam-compile-error")
				run.Set("numfam_compile_error", err.Error())
				return false
			}
			return true
		}
		// per-field jstype overrides: change the fields selected by sel, leave the others alone
		perField := func(sel func(i int, f jsField) bool) {
			for i, f := range jsFieldsOf(img) {
				if !sel(i, f) {
					continue
				}
				v := int32(2)
				if f.cur != nil && *f.cur == 2 {
					v = 1
				}
				os = append(os, ruleO{field: f.name, js: true, kind: 'j', nval: v})
			}
		}
		switch k % 8 {
		case 0, 1, 2:
			if !compiled(genNumFamProto(r, k/8*3+k%8), "nf/numbers.proto", "numfam-numbers") {
				continue
			}
			switch (k / 8) % 4 {
			case 0:
				kind = "nf:all-overrides+jstype-file-wide"
				os = append(numFamAllOverrides(), ruleO{js: true, kind: 'j', nval: 2})
			case 1:
				kind = "nf:no-rules"
			case 2:
				kind = "nf:jstype-only-per-field"
				ds = disableAllFileOptions()
				perField(func(i int, f jsField) bool { return i%2 == 0 })
			default:
				kind = "nf:some-overrides+jstype-file-wide"
				for i, o := range numFamAllOverrides() {
					if (i+k/8)%2 == 0 {
						os = append(os, o)
					}
				}
				for fo := bufconfig.FileOption(1); fo <= 18; fo++ {
					if int(fo)%3 == (k/8)%3 {
						d := ruleD{fileOpt: fo}
						if _, err := buildDirect(true, []ruleD{d}, nil); err == nil {
							ds = append(ds, d)
						}
					}
				}
				os = append(os, ruleO{js: true, kind: 'j', nval: 2})
			}
		case 3, 4:
			img = genConfusableImage(r, k/8*2+k%8-3)
			switch (k / 8) % 3 {
			case 0:
				kind = "nf:all-overrides+jstype-file-wide"
				os = append(numFamAllOverrides(), ruleO{js: true, kind: 'j', nval: 2})
			case 1:
				kind = "nf:jstype-only-per-field"
				ds = disableAllFileOptions()
				perField(func(i int, f jsField) bool { return (i+k/8)%2 == 0 })
			default:
				kind = "nf:some-overrides+jstype-per-field"
				for i, o := range numFamAllOverrides() {
					if (i+k/8)%3 != 0 {
						os = append(os, o)
					}
				}
				perField(func(i int, f jsField) bool { return (i+k/8)%3 != 1 })
			}
		case 5:
			if !compiled(genManyIndexProto(k/8), "nf/many.proto", "numfam-many-indexes") {
				continue
			}
			if (k/40)%2 == 0 {
				kind = "nf:jstype-per-field-low-indexes"
				// only the fields at indexes < 256 change; their twins at index + 256 keep their locations
				perField(func(i int, f jsField) bool {
					for _, x := range f.path {
						if x >= 256 {
							return false
						}
					}
					return f.cur != nil
				})
			} else {
				kind = "nf:jstype-per-field-high-indexes"
				perField(func(i int, f jsField) bool {
					for _, x := range f.path {
						if x >= 256 {
							return f.cur != nil
						}
					}
					return false
				})
			}
		case 6:
			if k/8 >= 4 && !run.Thorough() {
				continue // two shapes x two configs are enough per quick run (65 540 messages each)
			}
			var low []string
			img, low = genHugeIndexImage(k / 8)
			if (k/16)%2 == 0 {
				kind = "nf:jstype-per-field-low-indexes"
				for _, name := range low {
					os = append(os, ruleO{field: name, js: true, kind: 'j', nval: 2})
				}
			} else {
				kind = "nf:jstype-per-field-high-indexes"
				lowSet := map[string]bool{}
				for _, name := range low {
					lowSet[name] = true
				}
				perField(func(i int, f jsField) bool { return !lowSet[f.name] })
			}
		default:
			depth := 12
			if (k/8)%2 == 1 {
				depth = 28
			}
			if !compiled(genDeepProto(depth), "nf/deep.proto", "numfam-deep") {
				continue
			}
			switch (k / 16) % 3 {
			case 0:
				kind = "nf:jstype-per-field-a-only"
				perField(func(i int, f jsField) bool { return strings.HasSuffix(f.name, ".a") })
			case 1:
				kind = "nf:jstype-per-field-every-third"
				perField(func(i int, f jsField) bool { return i%3 == 0 })
			default:
				kind = "nf:jstype-file-wide"
				os = append(os, ruleO{js: true, kind: 'j', nval: 2})
			}
		}
		cfg, err := buildDirect(true, ds, os)
		if err != nil {
			panic(err)
		}
		run.Count("image:" + img.kind)
		run.Count("cfg:" + kind)
		maxElem := int32(0)
		for _, f := range img.files {
			for _, l := range f.FileDescriptorProto().GetSourceCodeInfo().GetLocation() {
				for _, x := range l.Path {
					if x > maxElem {
						maxElem = x
					}
				}
			}
		}
		switch {
		case maxElem >= 1<<24:
			run.Count("numfam:max-path-element>=2^24")
		case maxElem >= 1<<16:
			run.Count("numfam:max-path-element>=2^16")
		case maxElem >= 1<<8:
			run.Count("numfam:max-path-element>=2^8")
		}
		if k < 2 {
			run.Sample(map[string]any{"case": numFamBase + k, "image": img.kind, "config": kind})
		}
		runCase(run, strconv.Itoa(numFamBase+k), img, cfg, preserve, kind)
	}
}
