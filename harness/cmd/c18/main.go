// Command c18 is the correspondence + oracle harness for property C18
// ("managed mode rewrites only what it governs").
//
// Every case is one image (1-3 generated .proto files compiled in-process with protocompile in
// buf's source-info mode, plus the well-known-type files they import; or hand-built
// descriptors with arbitrary options / packages / source-info lists) and one managed config
// (built through bufconfig's exported constructors, or rendered as buf.gen.yaml v2 / v1 text
// and parsed through bufconfig's reader).  bufimagemodify.Modify runs on the real image.
//
// The model receives the COMPLETE content of every file: every FileOptions / FieldOptions
// entry by field number (the governed ones typed, every other one — deprecated, swift_prefix,
// features, custom extensions, unknown fields — as a hash of its wire bytes), per field a
// hash of the FieldDescriptorProto without options, and a hash of the serialized descriptor
// without file options, field options and source info.  The implementation's answer is the
// same encoding of the real descriptor AFTER Modify plus the removed source-info location
// indices; the Lean model must predict all of it, so a change to anything managed mode does
// not govern is a line mismatch (frame), not only an oracle finding.
//
// The oracle is independent of the Lean model and checks the property's own statement:
// changes confined to governed options (reflection diff + payload / per-option hashes), WKT
// files byte-identical, disabled mode is the identity, an option exempted by a disable rule
// or set under ModifyPreserveExisting is unchanged, bool/enum/jstype values follow
// last-override-else-default, removed locations are exactly those of rewritten options (plus
// their then-empty parents), idempotence; Modify fails only on malformed source info.
//
// Families run after the random cases: sweepfam.go (option locations of every shape), numfam.go
// (large / confusable path elements: extension numbers around 2^8k, indexes >= 2^8 / 2^16, deep
// paths), cfgfam.go (every buf.gen.yaml v1 key and v2 rule shape as YAML text through the real
// reader, judged by an oracle taken from the documentation of the keys, + cfgv1 / cfgv2 lines
// tying the YAML -> rules translation to the Lean model).
package main

import (
	"bytes"
	"context"
	"fmt"
	"hash/fnv"
	"sort"
	"strconv"
	"strings"

	"github.com/bufbuild/buf/private/bufpkg/bufconfig"
	"github.com/bufbuild/buf/private/bufpkg/bufimage"
	"github.com/bufbuild/buf/private/bufpkg/bufimage/bufimagemodify"
	"github.com/bufbuild/buf/private/bufpkg/bufparse"
	"github.com/bufbuild/buf/private/gen/data/datawkt"
	"github.com/bufbuild/buf/private/pkg/protoversion"
	"github.com/bufbuild/buf/private/pkg/storage"
	"github.com/bufbuild/buf/private/pkg/stringutil"
	"github.com/bufbuild/protocompile"
	"github.com/bufbuild/protocompile/linker"
	"github.com/bufbuild/verifharness/internal/hx"
	"github.com/google/uuid"
	"google.golang.org/protobuf/encoding/protowire"
	"google.golang.org/protobuf/proto"
	"google.golang.org/protobuf/reflect/protodesc"
	"google.golang.org/protobuf/reflect/protoreflect"
	"google.golang.org/protobuf/types/descriptorpb"
)

var ctx = context.Background()

// ---------------------------------------------------------------------------------------
// governed options

type strOpt struct {
	name    string // FileOptions field name
	tag     int32
	fileOpt bufconfig.FileOption
	pfx     bufconfig.FileOption
	sfx     bufconfig.FileOption
}

// order = BufModel.Managed.StrOpt.all
var strOpts = []strOpt{
	{"java_package", 1, bufconfig.FileOptionJavaPackage, bufconfig.FileOptionJavaPackagePrefix, bufconfig.FileOptionJavaPackageSuffix},
	{"java_outer_classname", 8, bufconfig.FileOptionJavaOuterClassname, 0, 0},
	{"go_package", 11, bufconfig.FileOptionGoPackage, bufconfig.FileOptionGoPackagePrefix, 0},
	{"objc_class_prefix", 36, bufconfig.FileOptionObjcClassPrefix, 0, 0},
	{"csharp_namespace", 37, bufconfig.FileOptionCsharpNamespace, bufconfig.FileOptionCsharpNamespacePrefix, 0},
	{"php_namespace", 41, bufconfig.FileOptionPhpNamespace, 0, 0},
	{"php_metadata_namespace", 44, bufconfig.FileOptionPhpMetadataNamespace, 0, bufconfig.FileOptionPhpMetadataNamespaceSuffix},
	{"ruby_package", 45, bufconfig.FileOptionRubyPackage, 0, bufconfig.FileOptionRubyPackageSuffix},
}

type boolOpt struct {
	name       string
	tag        int32
	fileOpt    bufconfig.FileOption
	managedDef bool
}

// order = BufModel.Managed.BoolOpt.all
var boolOpts = []boolOpt{
	{"cc_enable_arenas", 31, bufconfig.FileOptionCcEnableArenas, true},
	{"java_multiple_files", 10, bufconfig.FileOptionJavaMultipleFiles, true},
	{"java_string_check_utf8", 27, bufconfig.FileOptionJavaStringCheckUtf8, false},
}

var governedFileOptionNames = func() map[string]int32 {
	m := map[string]int32{"optimize_for": 9}
	for _, o := range strOpts {
		m[o.name] = o.tag
	}
	for _, o := range boolOpts {
		m[o.name] = o.tag
	}
	return m
}()

// file options whose override value is a string / bool
var stringFileOptions = []bufconfig.FileOption{
	bufconfig.FileOptionJavaPackage, bufconfig.FileOptionJavaPackagePrefix, bufconfig.FileOptionJavaPackageSuffix,
	bufconfig.FileOptionJavaOuterClassname, bufconfig.FileOptionGoPackage, bufconfig.FileOptionGoPackagePrefix,
	bufconfig.FileOptionObjcClassPrefix, bufconfig.FileOptionCsharpNamespace, bufconfig.FileOptionCsharpNamespacePrefix,
	bufconfig.FileOptionPhpNamespace, bufconfig.FileOptionPhpMetadataNamespace, bufconfig.FileOptionPhpMetadataNamespaceSuffix,
	bufconfig.FileOptionRubyPackage, bufconfig.FileOptionRubyPackageSuffix,
}
var boolFileOptions = []bufconfig.FileOption{
	bufconfig.FileOptionCcEnableArenas, bufconfig.FileOptionJavaMultipleFiles, bufconfig.FileOptionJavaStringCheckUtf8,
}

// ---------------------------------------------------------------------------------------
// model input extraction

type fieldIn struct {
	name string
	path []int32
	desc *descriptorpb.FieldDescriptorProto
	key  string // reflection-walk path of the FieldDescriptorProto, e.g. message_type.0.field.1
}

// walkFields lists every FieldDescriptorProto of the file (message fields, nested messages,
// extensions in messages, file-level extensions) with its full name and SourceCodeInfo path.
func walkFields(fd *descriptorpb.FileDescriptorProto) []fieldIn {
	var out []fieldIn
	prefix := fd.GetPackage()
	if prefix != "" {
		prefix += "."
	}
	var walkMsg func(prefix string, path []int32, key string, m *descriptorpb.DescriptorProto)
	walkMsg = func(prefix string, path []int32, key string, m *descriptorpb.DescriptorProto) {
		fqn := prefix + m.GetName()
		for i, f := range m.Field {
			out = append(out, fieldIn{fqn + "." + f.GetName(), cat(path, 2, int32(i)), f, key + ".field." + strconv.Itoa(i)})
		}
		for i, n := range m.NestedType {
			walkMsg(fqn+".", cat(path, 3, int32(i)), key+".nested_type."+strconv.Itoa(i), n)
		}
		for i, f := range m.Extension {
			out = append(out, fieldIn{fqn + "." + f.GetName(), cat(path, 6, int32(i)), f, key + ".extension." + strconv.Itoa(i)})
		}
	}
	for i, m := range fd.MessageType {
		walkMsg(prefix, []int32{4, int32(i)}, "message_type."+strconv.Itoa(i), m)
	}
	for i, f := range fd.Extension {
		out = append(out, fieldIn{prefix + f.GetName(), []int32{7, int32(i)}, f, "extension." + strconv.Itoa(i)})
	}
	return out
}

func cat(p []int32, xs ...int32) []int32 {
	q := make([]int32, 0, len(p)+len(xs))
	q = append(q, p...)
	return append(q, xs...)
}

func pathStr(p []int32) string {
	if len(p) == 0 {
		return "e"
	}
	ss := make([]string, len(p))
	for i, x := range p {
		ss[i] = strconv.Itoa(int(x))
	}
	return strings.Join(ss, ".")
}

func strOptPtr(o *descriptorpb.FileOptions, i int) *string {
	if o == nil {
		return nil
	}
	switch i {
	case 0:
		return o.JavaPackage
	case 1:
		return o.JavaOuterClassname
	case 2:
		return o.GoPackage
	case 3:
		return o.ObjcClassPrefix
	case 4:
		return o.CsharpNamespace
	case 5:
		return o.PhpNamespace
	case 6:
		return o.PhpMetadataNamespace
	case 7:
		return o.RubyPackage
	}
	panic("bad str opt")
}

func boolOptPtr(o *descriptorpb.FileOptions, i int) *bool {
	if o == nil {
		return nil
	}
	switch i {
	case 0:
		return o.CcEnableArenas
	case 1:
		return o.JavaMultipleFiles
	case 2:
		return o.JavaStringCheckUtf8
	}
	panic("bad bool opt")
}

// hashBytes: 60-bit FNV-1a, printed in decimal (a Lean Nat on the model side).
func hashBytes(b []byte) string {
	h := fnv.New64a()
	h.Write(b)
	return strconv.FormatUint(h.Sum64()&(1<<60-1), 10)
}

// rawOptions splits the deterministic wire form of an options message into the bytes of each
// field number (all occurrences, tag included, in wire order).  Known fields, extensions and
// unknown fields all show up here: it is the complete content of the message.
func rawOptions(m proto.Message) map[int32][]byte {
	out := map[int32][]byte{}
	b := detMarshal(m)
	for len(b) > 0 {
		num, _, n := protowire.ConsumeField(b)
		if n < 0 {
			panic(fmt.Sprintf("options message does not parse back: %v", protowire.ParseError(n)))
		}
		out[int32(num)] = append(out[int32(num)], b[:n]...)
		b = b[n:]
	}
	return out
}

func sortedNums(m map[int32]string) []int32 {
	var ks []int32
	for k := range m {
		ks = append(ks, k)
	}
	sort.Slice(ks, func(i, j int) bool { return ks[i] < ks[j] })
	return ks
}

// fileOptionValues: every option present in FileOptions by field number; the twelve governed
// ones typed (as the modifiers read them: through the generated struct), all others opaque.
func fileOptionValues(o *descriptorpb.FileOptions) map[int32]string {
	out := map[int32]string{}
	if o == nil {
		return out
	}
	for num, raw := range rawOptions(o) {
		out[num] = "r" + hashBytes(raw)
	}
	for i, so := range strOpts {
		if p := strOptPtr(o, i); p != nil {
			out[so.tag] = "s" + hx.Enc(*p)
		}
	}
	for i, bo := range boolOpts {
		if p := boolOptPtr(o, i); p != nil {
			out[bo.tag] = "b" + b01(*p)
		}
	}
	if o.OptimizeFor != nil {
		out[9] = "n" + strconv.Itoa(int(*o.OptimizeFor))
	}
	return out
}

func fieldOptionValues(o *descriptorpb.FieldOptions) map[int32]string {
	out := map[int32]string{}
	if o == nil {
		return out
	}
	for num, raw := range rawOptions(o) {
		out[num] = "r" + hashBytes(raw)
	}
	if o.Jstype != nil {
		out[6] = "n" + strconv.Itoa(int(*o.Jstype))
	}
	return out
}

func encOptionValues(m map[int32]string, sep string) string {
	var ss []string
	for _, k := range sortedNums(m) {
		ss = append(ss, strconv.Itoa(int(k))+"="+m[k])
	}
	return dash(strings.Join(ss, sep))
}

// fieldRest: hash of the FieldDescriptorProto without its options.
func fieldRest(f *descriptorpb.FieldDescriptorProto) string {
	c := proto.Clone(f).(*descriptorpb.FieldDescriptorProto)
	c.Options = nil
	return hashBytes(detMarshal(c))
}

// filePayload: hash of the FileDescriptorProto without file options, the options of every
// field, and source code info: messages, enums, services, dependencies, syntax, message /
// enum / service / method / value options ... everything managed mode must not touch.
func filePayload(fd *descriptorpb.FileDescriptorProto) string {
	c := proto.Clone(fd).(*descriptorpb.FileDescriptorProto)
	c.Options = nil
	c.SourceCodeInfo = nil
	for _, fl := range walkFields(c) {
		fl.desc.Options = nil
	}
	return hashBytes(detMarshal(c))
}

func encodeFile(f bufimage.ImageFile) string {
	fd := f.FileDescriptorProto()
	var parts []string
	parts = append(parts, hx.Enc(fd.GetName()), hx.Enc(fd.GetPackage()))
	if f.FullName() == nil {
		parts = append(parts, "~")
	} else {
		parts = append(parts, hx.Enc(f.FullName().String()))
	}
	parts = append(parts, encOptionValues(fileOptionValues(fd.Options), ";"))
	var fs []string
	for _, fl := range walkFields(fd) {
		t := "~"
		if fl.desc.Type != nil {
			t = strconv.Itoa(int(*fl.desc.Type))
		}
		fs = append(fs, hx.Enc(fl.name)+":"+pathStr(fl.path)+":"+t+":"+encOptionValues(fieldOptionValues(fl.desc.Options), "+")+":"+fieldRest(fl.desc))
	}
	parts = append(parts, dash(strings.Join(fs, ";")))
	var ls []string
	for _, l := range fd.GetSourceCodeInfo().GetLocation() {
		ls = append(ls, pathStr(l.Path))
	}
	parts = append(parts, dash(strings.Join(ls, ";")))
	parts = append(parts, filePayload(fd))
	return strings.Join(parts, ",")
}

// fileState: the complete state the model predicts after Modify (options by field number,
// per field options + rest, payload), read from a real descriptor.
func fileState(fd *descriptorpb.FileDescriptorProto) string {
	var fs []string
	for _, fl := range walkFields(fd) {
		fs = append(fs, encOptionValues(fieldOptionValues(fl.desc.Options), "+")+":"+fieldRest(fl.desc))
	}
	return encOptionValues(fileOptionValues(fd.Options), ";") + "," + dash(strings.Join(fs, ";")) + "," + filePayload(fd)
}

func unionKeys(a, b map[int32]string) map[int32]bool {
	out := map[int32]bool{}
	for k := range a {
		out[k] = true
	}
	for k := range b {
		out[k] = true
	}
	return out
}

func dash(s string) string {
	if s == "" {
		return "-"
	}
	return s
}

func b01(b bool) string {
	if b {
		return "1"
	}
	return "0"
}

type ruleD struct {
	path, module, field string
	fileOpt             bufconfig.FileOption
	js                  bool
}

type ruleO struct {
	path, module, field string
	fileOpt             bufconfig.FileOption
	js                  bool
	sval                string
	bval                bool
	nval                int32
	kind                byte // 's' 'b' 'o' 'j'
}

func readRules(cfg bufconfig.GenerateManagedConfig) ([]ruleD, []ruleO) {
	var ds []ruleD
	var os []ruleO
	for _, d := range cfg.Disables() {
		ds = append(ds, ruleD{d.Path(), d.FullName(), d.FieldName(), d.FileOption(), d.FieldOption() == bufconfig.FieldOptionJSType})
	}
	for _, o := range cfg.Overrides() {
		r := ruleO{path: o.Path(), module: o.FullName(), field: o.FieldName(), fileOpt: o.FileOption(), js: o.FieldOption() == bufconfig.FieldOptionJSType}
		switch v := o.Value().(type) {
		case string:
			r.sval, r.kind = v, 's'
		case bool:
			r.bval, r.kind = v, 'b'
		case descriptorpb.FileOptions_OptimizeMode:
			r.nval, r.kind = int32(v), 'o'
		case descriptorpb.FieldOptions_JSType:
			r.nval, r.kind = int32(v), 'j'
		default:
			panic(fmt.Sprintf("override value of type %T", v))
		}
		os = append(os, r)
	}
	return ds, os
}

func encodeRules(ds []ruleD, os []ruleO) (string, string) {
	var a, b []string
	for _, d := range ds {
		a = append(a, strings.Join([]string{hx.Enc(d.path), hx.Enc(d.module), hx.Enc(d.field), strconv.Itoa(int(d.fileOpt)), b01(d.js)}, ","))
	}
	for _, o := range os {
		b = append(b, strings.Join([]string{hx.Enc(o.path), hx.Enc(o.module), hx.Enc(o.field), strconv.Itoa(int(o.fileOpt)), b01(o.js),
			hx.Enc(o.sval), b01(o.bval), strconv.Itoa(int(o.nval))}, ","))
	}
	return dash(strings.Join(a, ";")), dash(strings.Join(b, ";"))
}

// ---------------------------------------------------------------------------------------
// reflection diff

type change struct {
	path string // dotted reflection path inside the FileDescriptorProto
	val  protoreflect.Value
	has  bool // present after
}

// diffMsg lists every leaf (scalar field, list length, presence of an empty message, unknown
// bytes) that differs between a and b.  Either may be invalid (absent): it then stands for
// the empty message.  skip(path) suppresses a field (used for source_code_info.location).
func diffMsg(prefix string, a, b protoreflect.Message, skip func(string) bool, out *[]change) {
	seen := map[protoreflect.FullName]protoreflect.FieldDescriptor{}
	var fds []protoreflect.FieldDescriptor
	add := func(fd protoreflect.FieldDescriptor) {
		if _, ok := seen[fd.FullName()]; !ok {
			seen[fd.FullName()] = fd
			fds = append(fds, fd)
		}
	}
	md := a.Descriptor()
	for i := 0; i < md.Fields().Len(); i++ {
		add(md.Fields().Get(i))
	}
	collect := func(m protoreflect.Message) {
		if !m.IsValid() {
			return
		}
		m.Range(func(fd protoreflect.FieldDescriptor, _ protoreflect.Value) bool {
			if fd.IsExtension() {
				add(fd)
			}
			return true
		})
	}
	collect(a)
	collect(b)
	for _, fd := range fds {
		name := string(fd.Name())
		if fd.IsExtension() {
			name = "(" + string(fd.FullName()) + ")"
		}
		p := name
		if prefix != "" {
			p = prefix + "." + name
		}
		if skip != nil && skip(p) {
			continue
		}
		ha, hb := a.IsValid() && a.Has(fd), b.IsValid() && b.Has(fd)
		if !ha && !hb {
			continue
		}
		switch {
		case fd.IsMap():
			if !ha || !hb || !a.Get(fd).Equal(b.Get(fd)) {
				*out = append(*out, change{p, protoreflect.Value{}, hb})
			}
		case fd.IsList():
			var la, lb protoreflect.List
			na, nb := 0, 0
			if ha {
				la = a.Get(fd).List()
				na = la.Len()
			}
			if hb {
				lb = b.Get(fd).List()
				nb = lb.Len()
			}
			if na != nb {
				*out = append(*out, change{p + "[len]", protoreflect.Value{}, hb})
				continue
			}
			for i := 0; i < na; i++ {
				ip := p + "." + strconv.Itoa(i)
				if fd.Message() != nil {
					diffMsg(ip, la.Get(i).Message(), lb.Get(i).Message(), skip, out)
				} else if !la.Get(i).Equal(lb.Get(i)) {
					*out = append(*out, change{ip, lb.Get(i), true})
				}
			}
		case fd.Message() != nil:
			var ma, mb protoreflect.Message
			if ha {
				ma = a.Get(fd).Message()
			} else {
				ma = b.Get(fd).Message().Type().Zero()
			}
			if hb {
				mb = b.Get(fd).Message()
			} else {
				mb = a.Get(fd).Message().Type().Zero()
			}
			n := len(*out)
			diffMsg(p, ma, mb, skip, out)
			if ha != hb && len(*out) == n {
				*out = append(*out, change{p + "(presence)", protoreflect.Value{}, hb})
			}
		default:
			if ha != hb || !a.Get(fd).Equal(b.Get(fd)) {
				var v protoreflect.Value
				if hb {
					v = b.Get(fd)
				}
				*out = append(*out, change{p, v, hb})
			}
		}
	}
	var ua, ub []byte
	if a.IsValid() {
		ua = a.GetUnknown()
	}
	if b.IsValid() {
		ub = b.GetUnknown()
	}
	if !bytes.Equal(ua, ub) {
		*out = append(*out, change{prefix + ".<unknown>", protoreflect.Value{}, true})
	}
}

// ---------------------------------------------------------------------------------------
// generators

var pkgParts = []string{"foo", "bar", "acme", "weather", "pet", "v1", "v2", "v1beta1", "v1alpha", "v3alpha2",
	"v1p2beta3", "v1test", "v1testfoo", "v0", "v10", "vfoo", "v1beta", "v1alphabeta1", "v1p0beta1", "v2147483647",
	"v2147483648", "v01", "v1p1", "v1pbeta1", "list", "echo", "array", "Empty", "static", "foo_bar", "fooBar", "FOO",
	"g", "p", "b", "x9", "_x", "G", "v", "v1alpha0", "vbeta1", "v1testalpha"}

var modules = []string{"", "", "buf.build/acme/weather", "buf.build/acme/pet", "example.com/org/repo"}

var dirs = []string{"", "", "a", "a/b", "acme/weather/v1", "x-y/Z", "a/bc"}
var baseNames = []string{"foo", "foo_bar", "Baz", "v1", "my-file", "a.b", "weather", "FooBAR", "x_"}

var strValues = []string{"com.example", "Org", "x", "", "github.com/acme/gen", "example.com//x/", "./rel", "../up",
	"a/../b", "/abs", ".", "x;y", "Acme\\Weather", "A::B", "net", "gen/go", "GPB", "Meta", "v1", "a b", "io.buf"}

var scalarTypes = []string{"int64", "uint64", "sint64", "fixed64", "sfixed64", "int32", "string", "bool", "double", "bytes", "uint32"}

func genPackage(r *hx.Rand) string {
	n := r.Intn(5)
	if r.Chance(1, 3) {
		// typical versioned package
		return hx.Pick(r, []string{"acme", "foo", "g.p", "foo.bar"}) + "." + hx.Pick(r, pkgParts)
	}
	ps := make([]string, n)
	for i := range ps {
		ps[i] = hx.Pick(r, pkgParts)
	}
	return strings.Join(ps, ".")
}

type genFile struct {
	path   string
	pkg    string
	module string
	src    string
}

var jsNames = []string{"JS_NORMAL", "JS_STRING", "JS_NUMBER"}
var optNames = []string{"SPEED", "CODE_SIZE", "LITE_RUNTIME"}

// genProto renders one .proto file.  idx>0 files may import earlier ones.
func genProto(r *hx.Rand, idx int, path, pkg string, earlier []genFile) string {
	var sb strings.Builder
	proto2 := r.Chance(2, 3)
	if proto2 {
		sb.WriteString("syntax = \"proto2\";\n")
	} else {
		sb.WriteString("syntax = \"proto3\";\n")
	}
	if pkg != "" {
		sb.WriteString("package " + pkg + ";\n")
	}
	useTS := r.Chance(1, 2)
	custom := r.Chance(1, 3)
	if useTS {
		sb.WriteString("import \"google/protobuf/timestamp.proto\";\n")
	}
	if custom {
		sb.WriteString("import \"google/protobuf/descriptor.proto\";\n")
	}
	for _, e := range earlier {
		if r.Chance(1, 2) {
			sb.WriteString("import \"" + e.path + "\";\n")
		}
	}
	// pre-set file options, governed and not
	type fo struct{ k, v string }
	var fos []fo
	q := func(s string) string { return strconv.Quote(s) }
	if r.Chance(1, 3) {
		fos = append(fos, fo{"java_package", q(hx.Pick(r, []string{"com.old", "com." + pkg, "x"}))})
	}
	if r.Chance(1, 4) {
		fos = append(fos, fo{"java_outer_classname", q(hx.Pick(r, []string{"OldOuter", "FooProto", "BazProto"}))})
	}
	if r.Chance(1, 3) {
		fos = append(fos, fo{"java_multiple_files", hx.Pick(r, []string{"true", "false"})})
	}
	if r.Chance(1, 5) {
		fos = append(fos, fo{"java_string_check_utf8", hx.Pick(r, []string{"true", "false"})})
	}
	if r.Chance(1, 3) {
		fos = append(fos, fo{"optimize_for", hx.Pick(r, optNames[:2])})
	}
	if r.Chance(1, 3) {
		fos = append(fos, fo{"go_package", q(hx.Pick(r, []string{"old/pkg;oldpb", "github.com/acme/gen", "gen/go/a"}))})
	}
	if r.Chance(1, 4) {
		fos = append(fos, fo{"cc_enable_arenas", hx.Pick(r, []string{"true", "false"})})
	}
	if r.Chance(1, 5) {
		fos = append(fos, fo{"objc_class_prefix", q(hx.Pick(r, []string{"OLD", "AXX", "FXX", "GPX"}))})
	}
	if r.Chance(1, 5) {
		fos = append(fos, fo{"csharp_namespace", q(hx.Pick(r, []string{"Old.Ns", "Foo", "Acme.V1"}))})
	}
	if r.Chance(1, 5) {
		fos = append(fos, fo{"php_namespace", q(hx.Pick(r, []string{"Old\\Ns", "Foo"}))})
	}
	if r.Chance(1, 6) {
		fos = append(fos, fo{"php_metadata_namespace", q(hx.Pick(r, []string{"Old\\Meta", "Foo\\GPBMetadata"}))})
	}
	if r.Chance(1, 5) {
		fos = append(fos, fo{"ruby_package", q(hx.Pick(r, []string{"Old::Pkg", "Foo"}))})
	}
	if r.Chance(1, 4) {
		fos = append(fos, fo{"deprecated", "true"})
	}
	if r.Chance(1, 5) {
		fos = append(fos, fo{"swift_prefix", q("SW")})
	}
	if r.Chance(1, 6) {
		fos = append(fos, fo{"java_generic_services", "true"})
	}
	if custom && proto2 {
		fos = append(fos, fo{"(my_file_opt)", q("custom")})
		if r.Bool() {
			fos = append(fos, fo{"(my_file_msg).a", "7"})
		}
	}
	hx.Shuffle(r, fos)
	for _, o := range fos {
		sb.WriteString("option " + o.k + " = " + o.v + ";\n")
	}
	if custom && proto2 {
		sb.WriteString("message MyOpt { optional int64 a = 1; optional string s = 2; }\n")
		b := 50001 + 10*idx
		sb.WriteString(fmt.Sprintf("extend google.protobuf.FileOptions { optional string my_file_opt = %d; optional MyOpt my_file_msg = %d; }\n", b, b+1))
		sb.WriteString(fmt.Sprintf("extend google.protobuf.FieldOptions { optional string my_field_opt = %d; repeated int32 my_rep = %d; }\n", b+2, b+3))
	}
	label := func() string {
		if proto2 {
			return hx.Pick(r, []string{"optional ", "optional ", "repeated ", "required "})
		}
		return hx.Pick(r, []string{"", "", "repeated ", "optional "})
	}
	num := 1
	fieldOpts := func(typ, lbl string, isExt bool) string {
		var os []string
		is64 := typ == "int64" || typ == "uint64" || typ == "sint64" || typ == "fixed64" || typ == "sfixed64"
		if is64 && r.Chance(1, 3) {
			os = append(os, "jstype = "+hx.Pick(r, jsNames))
		}
		if r.Chance(1, 5) {
			os = append(os, "deprecated = true")
		}
		if !isExt && r.Chance(1, 6) {
			num++
			os = append(os, "json_name = \"jn"+strconv.Itoa(num)+"\"")
		}
		if proto2 && lbl == "optional " && r.Chance(1, 5) {
			switch typ {
			case "string", "bytes":
				os = append(os, "default = \"d\"")
			case "bool":
				os = append(os, "default = true")
			default:
				os = append(os, "default = 5")
			}
		}
		if custom && proto2 && r.Chance(1, 4) {
			os = append(os, "(my_field_opt) = \"c\"")
			if r.Bool() {
				os = append(os, "(my_rep) = 1", "(my_rep) = 2")
			}
		}
		hx.Shuffle(r, os)
		if len(os) == 0 {
			return ""
		}
		return " [" + strings.Join(os, ", ") + "]"
	}
	var genMsg func(name string, depth int, indent string)
	genMsg = func(name string, depth int, indent string) {
		sb.WriteString(indent + "message " + name + " {\n")
		nf := r.Intn(4)
		for i := 0; i < nf; i++ {
			typ := hx.Pick(r, scalarTypes)
			if useTS && r.Chance(1, 8) {
				typ = "google.protobuf.Timestamp"
			}
			lbl := label()
			fo := ""
			if typ != "google.protobuf.Timestamp" {
				fo = fieldOpts(typ, lbl, false)
			}
			sb.WriteString(fmt.Sprintf("%s  %s%s %s = %d%s;\n", indent, lbl, typ, hx.Pick(r, []string{"id", "val", "count", "x"})+strconv.Itoa(i), i+1, fo))
		}
		if proto2 {
			sb.WriteString(indent + "  extensions 100 to 199;\n")
		}
		if depth < 2 && r.Chance(1, 3) {
			genMsg("N"+strconv.Itoa(depth), depth+1, indent+"  ")
		}
		if proto2 && r.Chance(1, 4) {
			typ := hx.Pick(r, scalarTypes[:6])
			sb.WriteString(fmt.Sprintf("%s  extend %s { optional %s ext_in%d = %d%s; }\n", indent, name, typ, num, 100+num, fieldOpts(typ, "optional ", true)))
			num++
		}
		if r.Chance(1, 5) {
			sb.WriteString(indent + "  enum E { E_UNSPECIFIED = 0; E_ONE = 1; }\n")
		}
		sb.WriteString(indent + "}\n")
	}
	nm := r.Intn(3)
	if proto2 && r.Chance(1, 3) && nm == 0 {
		nm = 1
	}
	for i := 0; i < nm; i++ {
		genMsg("M"+strconv.Itoa(i), 0, "")
	}
	if proto2 && nm > 0 && r.Chance(1, 3) {
		typ := hx.Pick(r, scalarTypes[:6])
		sb.WriteString(fmt.Sprintf("extend M0 { optional %s top_ext = 150%s; }\n", typ, fieldOpts(typ, "optional ", true)))
	}
	if r.Chance(1, 5) {
		sb.WriteString("enum TopE { TOP_E_UNSPECIFIED = 0; }\n")
	}
	if nm > 0 && r.Chance(1, 5) {
		sb.WriteString("service Svc { rpc Get(M0) returns (M0); }\n")
	}
	return sb.String()
}

func genFilePath(r *hx.Rand, used map[string]bool) string {
	for {
		d := hx.Pick(r, dirs)
		p := hx.Pick(r, baseNames) + ".proto"
		if d != "" {
			p = d + "/" + p
		}
		if !used[p] {
			used[p] = true
			return p
		}
	}
}

type builtImage struct {
	files []bufimage.ImageFile
	kind  string
}

func newImageFile(fd *descriptorpb.FileDescriptorProto, module string, isImport bool) bufimage.ImageFile {
	var fn bufparse.FullName
	if module != "" {
		var err error
		fn, err = bufparse.ParseFullName(module)
		if err != nil {
			panic(err)
		}
	}
	f, err := bufimage.NewImageFile(fd, fn, uuid.Nil, "", "", isImport, false, nil)
	if err != nil {
		panic(err)
	}
	return f
}

// compiled image: generated sources through protocompile (buf's source-info mode).
func genCompiledImage(r *hx.Rand) (*builtImage, error) {
	used := map[string]bool{}
	n := 1 + r.Intn(3)
	var gfs []genFile
	srcs := map[string]string{}
	sharedPkg := genPackage(r)
	for i := 0; i < n; i++ {
		p := genFilePath(r, used)
		pkg := sharedPkg
		if r.Chance(1, 2) {
			pkg = genPackage(r)
		}
		// files importing each other in the same package would clash on message names
		for _, e := range gfs {
			if e.pkg == pkg {
				pkg = pkg + hx.Pick(r, []string{".sub", ".v1", ".x"}) + strconv.Itoa(i)
				pkg = strings.TrimPrefix(pkg, ".")
			}
		}
		g := genFile{path: p, pkg: pkg, module: hx.Pick(r, modules)}
		g.src = genProto(r, i, p, pkg, gfs)
		gfs = append(gfs, g)
		srcs[p] = g.src
	}
	mode := protocompile.SourceInfoExtraOptionLocations
	if r.Chance(1, 6) {
		mode = protocompile.SourceInfoNone
	}
	c := protocompile.Compiler{
		Resolver:       protocompile.WithStandardImports(&protocompile.SourceResolver{Accessor: protocompile.SourceAccessorFromMap(srcs)}),
		SourceInfoMode: mode,
	}
	names := make([]string, len(gfs))
	for i, g := range gfs {
		names[i] = g.path
	}
	res, err := c.Compile(ctx, names...)
	if err != nil {
		return nil, fmt.Errorf("%w\n%s", err, gfs[len(gfs)-1].src)
	}
	modOf := map[string]string{}
	for _, g := range gfs {
		modOf[g.path] = g.module
	}
	var files []bufimage.ImageFile
	seen := map[string]bool{}
	var addFile func(f protoreflect.FileDescriptor)
	addFile = func(f protoreflect.FileDescriptor) {
		if seen[f.Path()] {
			return
		}
		seen[f.Path()] = true
		imps := f.Imports()
		for i := 0; i < imps.Len(); i++ {
			addFile(imps.Get(i).FileDescriptor)
		}
		var fd *descriptorpb.FileDescriptorProto
		if lr, ok := f.(linker.Result); ok {
			fd = proto.Clone(lr.FileDescriptorProto()).(*descriptorpb.FileDescriptorProto)
		} else {
			fd = protodesc.ToFileDescriptorProto(f)
		}
		mod, user := modOf[f.Path()]
		files = append(files, newImageFile(fd, mod, !user))
	}
	for _, f := range res {
		addFile(f)
	}
	return &builtImage{files: files, kind: "compiled"}, nil
}

var handPkgs = []string{"", "a", "Foo.BAR_baz.v1", "g.p.b", "list.echo.v1beta1", "a-b.c d", "x.v1test", "foo.bar.v2alpha",
	"G.p.b.v1", "acme.weather.v1p1alpha1", "_x.y", "héllo.v1", "a.B.c.d.e"}

var locVocab = [][]int32{{8}, {8, 1}, {8, 8}, {8, 9}, {8, 10}, {8, 11}, {8, 27}, {8, 31}, {8, 36}, {8, 37}, {8, 41}, {8, 44}, {8, 45},
	{8, 23}, {8, 50001}, {8, 50002, 1}, {}, {2}, {12}, {4, 0}, {4, 0, 1}, {4, 0, 2, 0}, {4, 0, 2, 0, 8}, {4, 0, 2, 0, 8, 6},
	{4, 0, 2, 0, 8, 3}, {4, 0, 2, 1}, {4, 0, 2, 1, 8}, {4, 0, 2, 1, 8, 6}, {4, 0, 2, 1, 8, 50003}, {4, 0, 2, 1, 8, 50004, 0},
	{4, 0, 3, 0, 2, 0, 8}, {4, 0, 3, 0, 2, 0, 8, 6}, {7, 0}, {7, 0, 8}, {7, 0, 8, 6}, {7, 0, 8, 6, 1}, {4, 0, 6, 0, 8}, {4, 0, 6, 0, 8, 6},
	{4, 0, 2, 0, 5}, {5, 0, 8}, {4, 0, 4, 0, 2, 0, 8}, {6, 0, 2, 0, 8}, {4, 0, 2}, {4, 0, 8}, {4, 0, 8, 6}}

// hand-built image: descriptors written directly, options / packages / source info arbitrary.
func genHandImage(r *hx.Rand) *builtImage {
	used := map[string]bool{}
	n := 1 + r.Intn(2)
	var files []bufimage.ImageFile
	if r.Chance(1, 3) {
		// a file at a WKT path with options that managed mode would otherwise rewrite
		fd := &descriptorpb.FileDescriptorProto{
			Name:    proto.String(hx.Pick(r, []string{"google/protobuf/timestamp.proto", "google/protobuf/any.proto", "google/protobuf/compiler/plugin.proto"})),
			Package: proto.String("google.protobuf"),
			Options: &descriptorpb.FileOptions{GoPackage: proto.String("google.golang.org/protobuf/types/known/x"), JavaPackage: proto.String("com.google.protobuf")},
			MessageType: []*descriptorpb.DescriptorProto{{Name: proto.String("T"), Field: []*descriptorpb.FieldDescriptorProto{
				{Name: proto.String("seconds"), Number: proto.Int32(1), Type: descriptorpb.FieldDescriptorProto_TYPE_INT64.Enum()}}}},
			SourceCodeInfo: &descriptorpb.SourceCodeInfo{Location: []*descriptorpb.SourceCodeInfo_Location{
				{Path: []int32{8}, Span: []int32{1, 0, 1}}, {Path: []int32{8, 11}, Span: []int32{1, 0, 2}}}},
		}
		used[fd.GetName()] = true
		files = append(files, newImageFile(fd, hx.Pick(r, modules), r.Bool()))
	}
	for i := 0; i < n; i++ {
		p := genFilePath(r, used)
		if r.Chance(1, 8) {
			p = hx.Pick(r, []string{"x y/a b.proto", " lead.proto", "google/protobuf/mine.proto", "google/protobuf.proto", "ünï/cödé.proto"})
			if used[p] {
				continue
			}
			used[p] = true
		}
		fd := &descriptorpb.FileDescriptorProto{Name: proto.String(p)}
		if pkg := hx.Pick(r, handPkgs); pkg != "" {
			fd.Package = proto.String(pkg)
		} else if r.Bool() {
			if pk := genPackage(r); pk != "" {
				fd.Package = proto.String(pk)
			}
		}
		if r.Chance(3, 4) {
			o := &descriptorpb.FileOptions{}
			sv := func() *string { return proto.String(hx.Pick(r, strValues)) }
			if r.Chance(1, 3) {
				o.JavaPackage = sv()
			}
			if r.Chance(1, 4) {
				o.JavaOuterClassname = sv()
			}
			if r.Chance(1, 3) {
				o.GoPackage = sv()
			}
			if r.Chance(1, 4) {
				o.ObjcClassPrefix = sv()
			}
			if r.Chance(1, 4) {
				o.CsharpNamespace = sv()
			}
			if r.Chance(1, 4) {
				o.PhpNamespace = sv()
			}
			if r.Chance(1, 4) {
				o.PhpMetadataNamespace = sv()
			}
			if r.Chance(1, 4) {
				o.RubyPackage = sv()
			}
			if r.Chance(1, 3) {
				o.CcEnableArenas = proto.Bool(r.Bool())
			}
			if r.Chance(1, 3) {
				o.JavaMultipleFiles = proto.Bool(r.Bool())
			}
			if r.Chance(1, 3) {
				o.JavaStringCheckUtf8 = proto.Bool(r.Bool())
			}
			if r.Chance(1, 3) {
				o.OptimizeFor = descriptorpb.FileOptions_OptimizeMode(hx.Pick(r, []int32{1, 2, 3, 0, 7})).Enum()
			}
			if r.Chance(1, 4) {
				o.Deprecated = proto.Bool(true)
			}
			if r.Chance(1, 4) {
				o.SwiftPrefix = proto.String("SW")
			}
			if r.Chance(1, 4) {
				o.ProtoReflect().SetUnknown([]byte{0x8a, 0xb5, 0x18, 0x01, 'u'}) // field 50001 as unknown bytes
			}
			fd.Options = o
		}
		nm := r.Intn(3)
		for m := 0; m < nm; m++ {
			msg := &descriptorpb.DescriptorProto{Name: proto.String("M" + strconv.Itoa(m))}
			mkField := func(j int) *descriptorpb.FieldDescriptorProto {
				f := &descriptorpb.FieldDescriptorProto{Name: proto.String("f" + strconv.Itoa(j)), Number: proto.Int32(int32(j + 1))}
				if r.Chance(7, 8) {
					f.Type = descriptorpb.FieldDescriptorProto_Type(hx.Pick(r, []int32{3, 4, 6, 16, 18, 5, 9, 1, 11, 13, 17})).Enum()
				}
				if r.Chance(1, 3) {
					f.Options = &descriptorpb.FieldOptions{}
					if r.Chance(2, 3) {
						f.Options.Jstype = descriptorpb.FieldOptions_JSType(hx.Pick(r, []int32{0, 1, 2})).Enum()
					}
					if r.Chance(1, 3) {
						f.Options.Deprecated = proto.Bool(true)
					}
				}
				return f
			}
			for j := 0; j < r.Intn(3); j++ {
				msg.Field = append(msg.Field, mkField(j))
			}
			if r.Chance(1, 3) {
				nested := &descriptorpb.DescriptorProto{Name: proto.String("N")}
				nested.Field = append(nested.Field, mkField(0))
				msg.NestedType = append(msg.NestedType, nested)
			}
			if r.Chance(1, 4) {
				e := mkField(5)
				e.Extendee = proto.String("." + fd.GetPackage() + ".M0")
				msg.Extension = append(msg.Extension, e)
			}
			fd.MessageType = append(fd.MessageType, msg)
		}
		if r.Chance(1, 4) {
			e := &descriptorpb.FieldDescriptorProto{Name: proto.String("top_ext"), Number: proto.Int32(150), Extendee: proto.String(".x.M0"),
				Type: descriptorpb.FieldDescriptorProto_TYPE_UINT64.Enum()}
			if r.Bool() {
				e.Options = &descriptorpb.FieldOptions{Jstype: descriptorpb.FieldOptions_JS_STRING.Enum()}
			}
			fd.Extension = append(fd.Extension, e)
		}
		if r.Chance(4, 5) {
			sci := &descriptorpb.SourceCodeInfo{}
			nl := r.Intn(14)
			wellFormed := r.Chance(1, 2)
			for k := 0; k < nl; k++ {
				p := hx.Pick(r, locVocab)
				if wellFormed && len(p) == 2 && p[0] == 8 {
					sci.Location = append(sci.Location, &descriptorpb.SourceCodeInfo_Location{Path: []int32{8}, Span: []int32{int32(len(sci.Location)), 0, 1}})
				}
				loc := &descriptorpb.SourceCodeInfo_Location{Path: append([]int32(nil), p...), Span: []int32{int32(len(sci.Location)), 0, 1}}
				if r.Chance(1, 6) {
					loc.LeadingComments = proto.String("c")
				}
				sci.Location = append(sci.Location, loc)
			}
			fd.SourceCodeInfo = sci
		}
		files = append(files, newImageFile(fd, hx.Pick(r, modules), r.Chance(1, 5)))
	}
	if len(files) == 0 {
		return genHandImage(r)
	}
	return &builtImage{files: files, kind: "hand"}
}

// ---- configs

type cfgGen struct {
	paths  []string // candidate rule paths (file paths, their dirs, others)
	fields []string // candidate field full names
}

func newCfgGen(img *builtImage) *cfgGen {
	g := &cfgGen{}
	seen := map[string]bool{}
	addp := func(p string) {
		if !seen[p] {
			seen[p] = true
			g.paths = append(g.paths, p)
		}
	}
	for _, f := range img.files {
		p := f.Path()
		addp(p)
		for {
			i := strings.LastIndex(p, "/")
			if i < 0 {
				break
			}
			p = p[:i]
			addp(p)
		}
		for _, fl := range walkFields(f.FileDescriptorProto()) {
			g.fields = append(g.fields, fl.name)
		}
	}
	addp(".")
	addp("a")
	addp("a/b")
	addp("a/bc")
	addp("nomatch/dir")
	addp("foo")
	addp("google")
	addp("google/protobuf")
	g.fields = append(g.fields, "no.such.field", "M0.f0")
	return g
}

func (g *cfgGen) where(r *hx.Rand) (string, string) {
	p, m := "", ""
	if r.Chance(1, 2) {
		p = hx.Pick(r, g.paths)
	}
	if r.Chance(1, 3) {
		m = hx.Pick(r, modules[2:])
	}
	return p, m
}

func (g *cfgGen) genDisable(r *hx.Rand) ruleD {
	d := ruleD{}
	d.path, d.module = g.where(r)
	switch r.Intn(6) {
	case 0: // all options for the matched files
	case 1, 2, 3:
		d.fileOpt = bufconfig.FileOption(1 + r.Intn(18))
	case 4:
		d.js = true
		if r.Bool() {
			d.field = hx.Pick(r, g.fields)
		}
	case 5:
		d.field = hx.Pick(r, g.fields)
	}
	return d
}

func (g *cfgGen) genOverride(r *hx.Rand) ruleO {
	o := ruleO{}
	o.path, o.module = g.where(r)
	switch r.Intn(9) {
	case 8:
		o.fileOpt = hx.Pick(r, []bufconfig.FileOption{bufconfig.FileOptionJavaPackagePrefix, bufconfig.FileOptionJavaPackageSuffix,
			bufconfig.FileOptionJavaPackage, bufconfig.FileOptionRubyPackageSuffix, bufconfig.FileOptionPhpMetadataNamespaceSuffix,
			bufconfig.FileOptionCsharpNamespacePrefix, bufconfig.FileOptionGoPackagePrefix})
		o.sval, o.kind = hx.Pick(r, []string{"org", "net", "x", "Suf", "gen/go"}), 's'
		if r.Chance(2, 3) {
			o.path, o.module = "", ""
		}
	case 0, 1, 2, 3:
		o.fileOpt = hx.Pick(r, stringFileOptions)
		o.sval, o.kind = hx.Pick(r, strValues), 's'
	case 4:
		o.fileOpt = hx.Pick(r, boolFileOptions)
		o.bval, o.kind = r.Bool(), 'b'
	case 5:
		o.fileOpt = bufconfig.FileOptionOptimizeFor
		o.nval, o.kind = int32(1+r.Intn(3)), 'o'
	default:
		o.js, o.kind = true, 'j'
		o.nval = int32(r.Intn(3))
		if r.Chance(1, 2) {
			o.field = hx.Pick(r, g.fields)
		}
	}
	return o
}

func overrideValue(o ruleO) any {
	switch o.kind {
	case 's':
		return o.sval
	case 'b':
		return o.bval
	case 'o':
		return descriptorpb.FileOptions_OptimizeMode(o.nval).String()
	default:
		return descriptorpb.FieldOptions_JSType(o.nval).String()
	}
}

func buildDirect(enabled bool, ds []ruleD, os []ruleO) (bufconfig.GenerateManagedConfig, error) {
	var disables []bufconfig.ManagedDisableRule
	var overrides []bufconfig.ManagedOverrideRule
	for _, d := range ds {
		fo := bufconfig.FieldOptionUnspecified
		if d.js {
			fo = bufconfig.FieldOptionJSType
		}
		rule, err := bufconfig.NewManagedDisableRule(d.path, d.module, d.field, d.fileOpt, fo)
		if err != nil {
			return nil, err
		}
		disables = append(disables, rule)
	}
	for _, o := range os {
		var rule bufconfig.ManagedOverrideRule
		var err error
		if o.js {
			rule, err = bufconfig.NewManagedOverrideRuleForFieldOption(o.path, o.module, o.field, bufconfig.FieldOptionJSType, overrideValue(o))
		} else {
			rule, err = bufconfig.NewManagedOverrideRuleForFileOption(o.path, o.module, o.fileOpt, overrideValue(o))
		}
		if err != nil {
			return nil, err
		}
		overrides = append(overrides, rule)
	}
	return bufconfig.NewGenerateManagedConfig(enabled, disables, overrides), nil
}

func yq(s string) string { return strconv.Quote(s) }

func renderV2(enabled bool, ds []ruleD, os []ruleO) string {
	var sb strings.Builder
	sb.WriteString("version: v2\nmanaged:\n")
	sb.WriteString("  enabled: " + strconv.FormatBool(enabled) + "\n")
	where := func(p, m, f string) {
		if p != "" {
			sb.WriteString("      path: " + yq(p) + "\n")
		}
		if m != "" {
			sb.WriteString("      module: " + yq(m) + "\n")
		}
		if f != "" {
			sb.WriteString("      field: " + yq(f) + "\n")
		}
	}
	if len(ds) > 0 {
		sb.WriteString("  disable:\n")
		for _, d := range ds {
			sb.WriteString("    - ")
			// the first key follows the dash; use a harmless ordering
			switch {
			case d.fileOpt != 0:
				sb.WriteString("file_option: " + d.fileOpt.String() + "\n")
			case d.js:
				sb.WriteString("field_option: jstype\n")
			default:
				// needs at least one of path/module/field as first key
				sb.WriteString("{}\n")
			}
			where(d.path, d.module, d.field)
		}
	}
	if len(os) > 0 {
		sb.WriteString("  override:\n")
		for _, o := range os {
			if o.js {
				sb.WriteString("    - field_option: JsType\n")
			} else {
				sb.WriteString("    - file_option: " + strings.ToUpper(o.fileOpt.String()) + "\n")
			}
			where(o.path, o.module, o.field)
			switch v := overrideValue(o).(type) {
			case string:
				sb.WriteString("      value: " + yq(v) + "\n")
			case bool:
				sb.WriteString("      value: " + strconv.FormatBool(v) + "\n")
			}
		}
	}
	sb.WriteString("plugins:\n  - local: protoc-gen-x\n    out: gen\n")
	return sb.String()
}

// renderV2 cannot express "- {}" followed by keys; emit those rules flow-style instead.
func renderV2Safe(enabled bool, ds []ruleD, os []ruleO) string {
	s := renderV2(enabled, nil, os)
	if len(ds) == 0 {
		return s
	}
	var sb strings.Builder
	sb.WriteString("  disable:\n")
	for _, d := range ds {
		var kv []string
		if d.fileOpt != 0 {
			kv = append(kv, "file_option: "+d.fileOpt.String())
		}
		if d.js {
			kv = append(kv, "field_option: jstype")
		}
		if d.path != "" {
			kv = append(kv, "path: "+yq(d.path))
		}
		if d.module != "" {
			kv = append(kv, "module: "+yq(d.module))
		}
		if d.field != "" {
			kv = append(kv, "field: "+yq(d.field))
		}
		sb.WriteString("    - {" + strings.Join(kv, ", ") + "}\n")
	}
	marker := "  enabled: " + strconv.FormatBool(enabled) + "\n"
	return strings.Replace(s, marker, marker+sb.String(), 1)
}

func parseYAML(text string) (bufconfig.GenerateManagedConfig, error) {
	f, err := bufconfig.ReadBufGenYAMLFile(strings.NewReader(text))
	if err != nil {
		return nil, err
	}
	return f.GenerateConfig().GenerateManagedConfig(), nil
}

func renderV1(r *hx.Rand, g *cfgGen, enabled bool) string {
	var sb strings.Builder
	sb.WriteString("version: v1\nmanaged:\n  enabled: " + strconv.FormatBool(enabled) + "\n")
	if r.Chance(1, 3) {
		sb.WriteString("  cc_enable_arenas: " + strconv.FormatBool(r.Bool()) + "\n")
	}
	if r.Chance(1, 3) {
		sb.WriteString("  java_multiple_files: " + strconv.FormatBool(r.Bool()) + "\n")
	}
	if r.Chance(1, 3) {
		sb.WriteString("  java_string_check_utf8: " + strconv.FormatBool(r.Bool()) + "\n")
	}
	exceptOverride := func(key string, withDefault int, vals []string) {
		// withDefault: 0 none, 1 optional, 2 required
		if !r.Chance(1, 2) {
			return
		}
		mods := append([]string(nil), modules[2:]...)
		hx.Shuffle(r, mods)
		nEx := r.Intn(2)
		nOv := r.Intn(2)
		hasDefault := withDefault == 2 || (withDefault == 1 && r.Bool())
		if !hasDefault && nEx == 0 && nOv == 0 {
			nEx = 1
		}
		sb.WriteString("  " + key + ":\n")
		if hasDefault {
			sb.WriteString("    default: " + yq(hx.Pick(r, vals)) + "\n")
		}
		if nEx > 0 {
			sb.WriteString("    except: [" + yq(mods[0]) + "]\n")
		}
		if nOv > 0 {
			sb.WriteString("    override:\n      " + yq(mods[1]) + ": " + yq(hx.Pick(r, vals)) + "\n")
			if r.Bool() {
				sb.WriteString("      " + yq(mods[2]) + ": " + yq(hx.Pick(r, vals)) + "\n")
			}
		}
	}
	nonEmpty := []string{"org", "net.acme", "io"}
	exceptOverride("java_package_prefix", 2, nonEmpty)
	exceptOverride("csharp_namespace", 0, []string{"Acme.Ns", "X"})
	exceptOverride("optimize_for", 2, optNames)
	exceptOverride("go_package_prefix", 2, []string{"github.com/acme/gen", "example.com/x//y", "gen"})
	exceptOverride("objc_class_prefix", 1, []string{"AB", "GPB", "XYZ"})
	exceptOverride("ruby_package", 0, []string{"Acme::Ruby", "R"})
	if r.Chance(1, 2) {
		sb.WriteString("  override:\n")
		keys := []string{"JAVA_PACKAGE", "GO_PACKAGE", "CC_ENABLE_ARENAS", "OPTIMIZE_FOR", "java_outer_classname", "PHP_NAMESPACE",
			"JAVA_MULTIPLE_FILES", "RUBY_PACKAGE", "CSHARP_NAMESPACE", "PHP_METADATA_NAMESPACE", "OBJC_CLASS_PREFIX", "JAVA_STRING_CHECK_UTF8"}
		hx.Shuffle(r, keys)
		for _, k := range keys[:1+r.Intn(3)] {
			sb.WriteString("    " + k + ":\n")
			ps := append([]string(nil), g.paths...)
			hx.Shuffle(r, ps)
			for _, p := range ps[:1+r.Intn(2)] {
				v := hx.Pick(r, strValues[:3])
				switch strings.ToUpper(k) {
				case "CC_ENABLE_ARENAS", "JAVA_MULTIPLE_FILES", "JAVA_STRING_CHECK_UTF8":
					v = strconv.FormatBool(r.Bool())
				case "OPTIMIZE_FOR":
					v = hx.Pick(r, optNames)
				}
				sb.WriteString("      " + yq(p) + ": " + yq(v) + "\n")
			}
		}
	}
	sb.WriteString("plugins:\n  - plugin: x\n    out: gen\n")
	return sb.String()
}

// ---------------------------------------------------------------------------------------
// oracle helpers (independent of the model and of the implementation's matching code)

func pathContains(rule, file string) bool {
	return rule == "." || rule == file || strings.HasPrefix(file, rule+"/")
}

func ruleMatchesFile(path, module string, f bufimage.ImageFile) bool {
	if path != "" && !pathContains(path, f.Path()) {
		return false
	}
	if module != "" && (f.FullName() == nil || f.FullName().String() != module) {
		return false
	}
	return true
}

// ---------------------------------------------------------------------------------------

type caseResult struct {
	answer     string
	nontrivial bool
	err        bool
}

func cloneFDs(files []bufimage.ImageFile) []*descriptorpb.FileDescriptorProto {
	out := make([]*descriptorpb.FileDescriptorProto, len(files))
	for i, f := range files {
		out[i] = proto.Clone(f.FileDescriptorProto()).(*descriptorpb.FileDescriptorProto)
	}
	return out
}

func detMarshal(m proto.Message) []byte {
	b, err := proto.MarshalOptions{Deterministic: true}.Marshal(m)
	if err != nil {
		panic(err)
	}
	return b
}

func skipLocations(p string) bool { return p == "source_code_info.location" }

func runCase(run *hx.Run, caseID string, img *builtImage, cfg bufconfig.GenerateManagedConfig, preserve bool, cfgKind string) {
	image, err := bufimage.NewImage(img.files)
	if err != nil {
		panic(err)
	}
	ds, os := readRules(cfg)
	encD, encO := encodeRules(ds, os)
	var fileEnc []string
	for _, f := range img.files {
		fileEnc = append(fileEnc, encodeFile(f))
	}
	input := strings.Join([]string{"mod", b01(preserve), b01(cfg.Enabled()), encD, encO, strings.Join(fileEnc, "|")}, "\t")
	replay := fmt.Sprintf("build/c18 --seed %d --tier %s --out /tmp/c18-replay --only %s", run.Seed, run.Tier, caseID)
	fail := func(class, what string) {
		run.Fail(hx.OracleFailure{Class: class, What: what, Input: map[string]any{"case": caseID, "line": input, "config": cfgKind}, Replay: replay})
	}

	before := cloneFDs(img.files)
	origLocs := make([][]*descriptorpb.SourceCodeInfo_Location, len(img.files))
	for i, f := range img.files {
		origLocs[i] = append([]*descriptorpb.SourceCodeInfo_Location(nil), f.FileDescriptorProto().GetSourceCodeInfo().GetLocation()...)
	}
	var opts []bufimagemodify.ModifyOption
	if preserve {
		opts = append(opts, bufimagemodify.ModifyPreserveExisting())
	}
	var modErr error
	panicked := func() (p any) {
		defer func() { p = recover() }()
		modErr = bufimagemodify.Modify(image, cfg, opts...)
		return nil
	}()
	if panicked != nil {
		fail("panic", fmt.Sprintf("bufimagemodify.Modify panicked: %v", panicked))
		run.Case(input, "panic", true)
		return
	}

	status := "ok"
	if modErr != nil {
		status = "err"
		run.Count("modify:err")
	} else {
		run.Count("modify:ok")
	}
	var answers []string
	anyChange := false
	type fileDiff struct {
		fileOptChanged map[int32]protoreflect.Value // tag -> new value
		jsChanged      map[int]int32                // field index -> new value
		removed        []int
	}
	diffs := make([]fileDiff, len(img.files))
	for i, f := range img.files {
		after := f.FileDescriptorProto()
		var chs []change
		diffMsg("", before[i].ProtoReflect(), after.ProtoReflect(), skipLocations, &chs)
		fields := walkFields(before[i])
		fieldIdx := map[string]int{}
		for k, fl := range fields {
			fieldIdx[fl.key+".options.jstype"] = k
		}
		fdiff := fileDiff{fileOptChanged: map[int32]protoreflect.Value{}, jsChanged: map[int]int32{}}
		var items []string
		strItems := map[int32]string{}
		for _, ch := range chs {
			if strings.HasPrefix(ch.path, "options.") {
				if tag, ok := governedFileOptionNames[strings.TrimPrefix(ch.path, "options.")]; ok && ch.has {
					fdiff.fileOptChanged[tag] = ch.val
					switch tag {
					case 9:
						strItems[tag] = "o9=" + strconv.Itoa(int(ch.val.Enum()))
					case 10, 27, 31:
						strItems[tag] = "b" + strconv.Itoa(int(tag)) + "=" + b01(ch.val.Bool())
					default:
						strItems[tag] = "s" + strconv.Itoa(int(tag)) + "=" + hx.Enc(ch.val.String())
					}
					continue
				}
			}
			if k, ok := fieldIdx[ch.path]; ok && ch.has {
				fdiff.jsChanged[k] = int32(ch.val.Enum())
				continue
			}
			// anything else is a change outside what managed mode governs
			items = append(items, "X:"+ch.path)
			fail("non-governed-change", fmt.Sprintf("file %s: %s changed (managed mode does not govern it)", f.Path(), ch.path))
		}
		for _, o := range strOpts {
			if s, ok := strItems[o.tag]; ok {
				items = append(items, s)
			}
		}
		for _, o := range boolOpts {
			if s, ok := strItems[o.tag]; ok {
				items = append(items, s)
			}
		}
		if s, ok := strItems[9]; ok {
			items = append(items, s)
		}
		var ks []int
		for k := range fdiff.jsChanged {
			ks = append(ks, k)
		}
		sort.Ints(ks)
		for _, k := range ks {
			items = append(items, "j"+strconv.Itoa(k)+"="+strconv.Itoa(int(fdiff.jsChanged[k])))
		}
		// locations: the survivors must be the original objects, in order, unchanged
		idxOf := map[*descriptorpb.SourceCodeInfo_Location]int{}
		for k, l := range origLocs[i] {
			idxOf[l] = k
		}
		kept := map[int]bool{}
		last := -1
		for _, l := range after.GetSourceCodeInfo().GetLocation() {
			k, ok := idxOf[l]
			if !ok || k <= last {
				fail("non-governed-change", fmt.Sprintf("file %s: source_code_info.location holds a new or reordered entry %v", f.Path(), l.Path))
				items = append(items, "X:location")
				continue
			}
			last = k
			kept[k] = true
			if !proto.Equal(l, before[i].SourceCodeInfo.Location[k]) {
				fail("non-governed-change", fmt.Sprintf("file %s: location %d %v was edited", f.Path(), k, l.Path))
				items = append(items, "X:location-edit")
			}
		}
		var rm []string
		for k := range origLocs[i] {
			if !kept[k] {
				fdiff.removed = append(fdiff.removed, k)
				rm = append(rm, strconv.Itoa(k))
			}
		}
		if len(items) > 0 || len(rm) > 0 {
			anyChange = true
		}
		for tag := range fdiff.fileOptChanged {
			run.Count(fmt.Sprintf("changed:file-option-%d", tag))
		}
		if len(fdiff.jsChanged) > 0 {
			run.CountN("changed:jstype", len(fdiff.jsChanged))
		}
		if len(rm) > 0 {
			run.CountN("removed-locations", len(rm))
		}
		// the implementation's answer is the COMPLETE state after Modify (every option of the
		// file and of every field by field number, the per-field rest, the non-options payload)
		// plus the removed locations; the model must predict all of it.
		answers = append(answers, fileState(after)+","+dash(strings.Join(rm, ".")))
		diffs[i] = fdiff
		// frame oracle on the same encoding (independent of the model): payload, every
		// non-governed option number, every field's rest and non-jstype options are unchanged
		if pb, pa := filePayload(before[i]), filePayload(after); pb != pa {
			fail("frame-payload-changed", fmt.Sprintf("file %s: the descriptor outside file options / field options / source info changed", f.Path()))
		}
		ob, oa := fileOptionValues(before[i].Options), fileOptionValues(after.Options)
		governedTag := map[int32]bool{}
		for _, tag := range governedFileOptionNames {
			governedTag[tag] = true
		}
		for num := range unionKeys(ob, oa) {
			if !governedTag[num] && ob[num] != oa[num] {
				fail("frame-option-changed", fmt.Sprintf("file %s: FileOptions field %d is not governed by managed mode but changed", f.Path(), num))
			}
		}
		afterFields := walkFields(after)
		if len(afterFields) != len(fields) {
			fail("frame-field-changed", fmt.Sprintf("file %s: number of fields changed", f.Path()))
		} else {
			for k := range fields {
				if fieldRest(fields[k].desc) != fieldRest(afterFields[k].desc) || fields[k].name != afterFields[k].name {
					fail("frame-field-changed", fmt.Sprintf("file %s: field %s changed outside its options", f.Path(), fields[k].name))
				}
				fb, fa := fieldOptionValues(fields[k].desc.Options), fieldOptionValues(afterFields[k].desc.Options)
				for num := range unionKeys(fb, fa) {
					if num != 6 && fb[num] != fa[num] {
						fail("frame-field-changed", fmt.Sprintf("file %s: FieldOptions field %d of %s changed", f.Path(), num, fields[k].name))
					}
				}
			}
		}
	}
	run.Case(input, status+"\t"+strings.Join(answers, "|"), anyChange || modErr != nil)
	// Modify may only fail on malformed source info: the location of a rewritten option that is
	// the first of the list, or a rewritten file option's location not preceded by an [8] location
	// (compilers never emit either).  Any other error means the sweeper misread a path.
	if modErr != nil {
		legit := false
		for i := range img.files {
			locs := before[i].GetSourceCodeInfo().GetLocation()
			fields := walkFields(before[i])
			for k, l := range locs {
				if len(l.Path) == 2 && l.Path[0] == 8 {
					if _, ok := diffs[i].fileOptChanged[l.Path[1]]; ok && (k == 0 || !pathEq(locs[k-1].Path, []int32{8})) {
						legit = true
					}
				}
				if k == 0 {
					for fk := range diffs[i].jsChanged {
						if pathEq(l.Path, cat(fields[fk].path, 8, 6)) {
							legit = true
						}
					}
				}
			}
		}
		if legit {
			run.Count("modify:err-on-malformed-source-info")
		} else {
			fail("modify-error-on-well-formed-source-info", fmt.Sprintf("bufimagemodify.Modify failed (%v) although every rewritten option's location has its preceding parent location", modErr))
		}
	}
	if anyChange {
		run.Count("case:changed")
	} else {
		run.Count("case:unchanged")
	}

	// ---------------- oracle (the property's own statement, on the implementation alone)
	for i, f := range img.files {
		after := f.FileDescriptorProto()
		fdiff := diffs[i]
		nChanged := len(fdiff.fileOptChanged) + len(fdiff.jsChanged) + len(fdiff.removed)
		if !cfg.Enabled() && !proto.Equal(before[i], after) {
			fail("disabled-mode-change", fmt.Sprintf("managed mode disabled but file %s changed", f.Path()))
		}
		if datawkt.Exists(f.Path()) {
			if !bytes.Equal(detMarshal(before[i]), detMarshal(after)) {
				fail("wkt-modified", fmt.Sprintf("well-known-type file %s was modified", f.Path()))
			}
			continue
		}
		if !cfg.Enabled() || nChanged == 0 && modErr != nil {
			continue
		}
		// ModifyPreserveExisting: an option that was set is never rewritten
		if preserve {
			was := fileOptionValues(before[i].Options)
			for tag := range fdiff.fileOptChanged {
				if _, ok := was[tag]; ok {
					fail("preserve-existing-ignored", fmt.Sprintf("file %s: FileOptions field %d was set and ModifyPreserveExisting was given, but it was rewritten", f.Path(), tag))
				}
			}
			bf := walkFields(before[i])
			for k := range fdiff.jsChanged {
				if o := bf[k].desc.Options; o != nil && o.Jstype != nil {
					fail("preserve-existing-ignored", fmt.Sprintf("file %s: jstype of %s was set and ModifyPreserveExisting was given, but it was rewritten", f.Path(), bf[k].name))
				}
			}
		}
		// disable rules
		for tag := range fdiff.fileOptChanged {
			var valueOpt bufconfig.FileOption
			for _, o := range strOpts {
				if o.tag == tag {
					valueOpt = o.fileOpt
				}
			}
			for _, o := range boolOpts {
				if o.tag == tag {
					valueOpt = o.fileOpt
				}
			}
			if tag == 9 {
				valueOpt = bufconfig.FileOptionOptimizeFor
			}
			for _, d := range ds {
				if d.js || d.field != "" {
					continue
				}
				if (d.fileOpt == 0 || d.fileOpt == valueOpt) && ruleMatchesFile(d.path, d.module, f) {
					fail("disable-rule-ignored", fmt.Sprintf("file %s: option %v rewritten although disable rule {path:%q module:%q file_option:%v} exempts it", f.Path(), valueOpt, d.path, d.module, d.fileOpt))
				}
			}
		}
		fields := walkFields(before[i])
		for k := range fdiff.jsChanged {
			for _, d := range ds {
				if d.fileOpt != 0 {
					continue
				}
				if (d.field == "" || d.field == fields[k].name) && ruleMatchesFile(d.path, d.module, f) {
					fail("disable-rule-ignored", fmt.Sprintf("file %s: jstype of %s rewritten although a disable rule exempts it", f.Path(), fields[k].name))
				}
			}
		}
		// precedence for the bool / enum options and jstype: last matching override else default
		lastOverride := func(fo bufconfig.FileOption) *ruleO {
			var res *ruleO
			for k := range os {
				if !os[k].js && os[k].fileOpt == fo && ruleMatchesFile(os[k].path, os[k].module, f) {
					res = &os[k]
				}
			}
			return res
		}
		for _, o := range boolOpts {
			if v, ok := fdiff.fileOptChanged[o.tag]; ok {
				want := o.managedDef
				if lo := lastOverride(o.fileOpt); lo != nil {
					want = lo.bval
				}
				if v.Bool() != want {
					fail("precedence", fmt.Sprintf("file %s: %s rewritten to %v, last matching override else default is %v", f.Path(), o.name, v.Bool(), want))
				}
			}
		}
		if v, ok := fdiff.fileOptChanged[9]; ok {
			want := int32(1)
			if lo := lastOverride(bufconfig.FileOptionOptimizeFor); lo != nil {
				want = lo.nval
			}
			if int32(v.Enum()) != want {
				fail("precedence", fmt.Sprintf("file %s: optimize_for rewritten to %d, last matching override else default is %d", f.Path(), v.Enum(), want))
			}
		}
		for _, o := range strOpts {
			v, ok := fdiff.fileOptChanged[o.tag]
			if !ok {
				continue
			}
			// the last matching override that concerns this option
			var last *ruleO
			for k := range os {
				r := &os[k]
				if r.js || !ruleMatchesFile(r.path, r.module, f) {
					continue
				}
				if r.fileOpt == o.fileOpt || (o.pfx != 0 && r.fileOpt == o.pfx) || (o.sfx != 0 && r.fileOpt == o.sfx) {
					last = r
				}
			}
			if last != nil && last.fileOpt == o.fileOpt && last.sval != "" && v.String() != last.sval {
				fail("precedence", fmt.Sprintf("file %s: %s rewritten to %q but the last matching override sets %q", f.Path(), o.name, v.String(), last.sval))
			}
			if o.name == "java_package" && last != nil {
				anyDisable := false
				for _, d := range ds {
					if ruleMatchesFile(d.path, d.module, f) {
						anyDisable = true
					}
				}
				if !anyDisable {
					val, pre, suf := "", "com", ""
					for k := range os {
						r := &os[k]
						if r.js || !ruleMatchesFile(r.path, r.module, f) {
							continue
						}
						switch r.fileOpt {
						case bufconfig.FileOptionJavaPackage:
							val, pre, suf = r.sval, "", ""
						case bufconfig.FileOptionJavaPackagePrefix:
							val, pre = "", r.sval
						case bufconfig.FileOptionJavaPackageSuffix:
							val, suf = "", r.sval
						}
					}
					if val == "" {
						val = before[i].GetPackage()
						if pre != "" {
							val = pre + "." + val
						}
						if suf != "" {
							val = val + "." + suf
						}
					}
					if v.String() != val {
						fail("precedence", fmt.Sprintf("file %s: java_package rewritten to %q, overrides (value/prefix/suffix, last wins) give %q", f.Path(), v.String(), val))
					}
				}
			}
			if last == nil && o.name == "java_package" && v.String() != "com."+before[i].GetPackage() {
				fail("precedence", fmt.Sprintf("file %s: java_package default is %q, want com.<package>", f.Path(), v.String()))
			}
		}
		for k := range fdiff.jsChanged {
			t := fields[k].desc.GetType()
			if fields[k].desc.Type == nil || !(t == descriptorpb.FieldDescriptorProto_TYPE_INT64 || t == descriptorpb.FieldDescriptorProto_TYPE_UINT64 ||
				t == descriptorpb.FieldDescriptorProto_TYPE_SINT64 || t == descriptorpb.FieldDescriptorProto_TYPE_FIXED64 || t == descriptorpb.FieldDescriptorProto_TYPE_SFIXED64) {
				fail("jstype-on-non-64bit-field", fmt.Sprintf("file %s: jstype of %s (type %v) rewritten; jstype is only governed on 64-bit integer fields", f.Path(), fields[k].name, t))
			}
		}
		for k, v := range fdiff.jsChanged {
			var want *int32
			for j := range os {
				r := &os[j]
				if r.js && (r.field == "" || r.field == fields[k].name) && ruleMatchesFile(r.path, r.module, f) {
					want = &r.nval
				}
			}
			if want == nil || *want != v {
				fail("precedence", fmt.Sprintf("file %s: jstype of %s rewritten to %d without such a last matching override", f.Path(), fields[k].name, v))
			}
		}
		if modErr != nil {
			continue
		}
		// source info: removed = locations of rewritten options, their [8] parents (file options),
		// and FieldOptions locations all of whose (>=1) descendants were removed.
		locs := before[i].GetSourceCodeInfo().GetLocation()
		if !wellShaped(locs, fields) {
			// compilers emit a FieldOptions location once and before the locations inside it;
			// for other shapes only the correspondence with the model is checked
			run.Count("sweep-oracle:skipped-malformed-source-info")
			continue
		}
		run.Count("sweep-oracle:checked")
		expect := map[int]string{}
		for k, l := range locs {
			if len(l.Path) == 2 && l.Path[0] == 8 {
				if _, ok := fdiff.fileOptChanged[l.Path[1]]; ok {
					expect[k] = "option"
					if k > 0 {
						expect[k-1] = "parent"
					}
				}
			}
		}
		for k := range fdiff.jsChanged {
			want := cat(fields[k].path, 8, 6)
			for j, l := range locs {
				if pathEq(l.Path, want) {
					expect[j] = "option"
				}
			}
		}
		for _, fl := range fields {
			root := cat(fl.path, 8)
			for j, l := range locs {
				if !pathEq(l.Path, root) {
					continue
				}
				desc, gone := 0, 0
				for j2, l2 := range locs {
					if len(l2.Path) > len(root) && pathEq(l2.Path[:len(root)], root) {
						desc++
						if expect[j2] == "option" {
							gone++
						}
					}
				}
				if desc > 0 && desc == gone {
					expect[j] = "emptied-parent"
				}
			}
		}
		removed := map[int]bool{}
		for _, k := range fdiff.removed {
			removed[k] = true
		}
		// what the rewritten jstype options sit next to (coverage of the sweep clause)
		for k := range fdiff.jsChanged {
			root := cat(fields[k].path, 8)
			one, deep, hasLoc := 0, 0, false
			for _, l := range locs {
				if len(l.Path) > len(root) && pathEq(l.Path[:len(root)], root) {
					switch {
					case pathEq(l.Path, cat(root, 6)):
						hasLoc = true
					case len(l.Path) == len(root)+1:
						one++
					default:
						deep++
					}
				}
			}
			if hasLoc {
				cls := "none"
				switch {
				case one > 0 && deep > 0:
					cls = "one-element-and-deeper"
				case one > 0:
					cls = "one-element-only"
				case deep > 0:
					cls = "deeper-only"
				}
				run.Count("sweep-oracle:jstype-location-removed:sibling-locations=" + cls)
			}
		}
		for _, k := range fdiff.removed {
			if _, ok := expect[k]; !ok {
				class := "sweep-removed-unrelated-location"
				l := locs[k]
				what := fmt.Sprintf("file %s: source-info location %d %v removed although no rewritten option lives there", f.Path(), k, l.Path)
				if n := len(l.Path); n > 0 && l.Path[n-1] == 8 && n > 1 {
					var surviving [][]int32
					hasDesc := false
					for k2, l2 := range locs {
						if len(l2.Path) > n && pathEq(l2.Path[:n], l.Path) {
							hasDesc = true
							if !removed[k2] {
								surviving = append(surviving, l2.Path)
							}
						}
					}
					if !hasDesc {
						class = "sweep-removed-childless-field-options-location"
					} else if len(surviving) > 0 {
						// the documented parent rule: a FieldOptions location goes only when
						// nothing inside it is left
						class = "sweep-removed-parent-of-surviving-option"
						what = fmt.Sprintf("file %s: FieldOptions location %d %v removed although option locations %v inside it survive", f.Path(), k, l.Path, surviving)
					}
				}
				fail(class, what)
			}
		}
		// every other location survives: count the deep ones (two or more elements below an
		// options message) that were checked as survivors
		for k, l := range locs {
			if removed[k] {
				continue
			}
			for n := 1; n+2 < len(l.Path); n++ {
				if l.Path[n] == 8 && len(l.Path)-n-1 >= 2 && n >= 2 {
					run.Count("sweep-oracle:deep-field-option-location-survived")
					break
				}
			}
			if len(l.Path) >= 3 && l.Path[0] == 8 {
				run.Count("sweep-oracle:deep-file-option-location-survived")
			}
		}
		for k, why := range expect {
			if !removed[k] {
				fail("sweep-kept-location-of-rewritten-option", fmt.Sprintf("file %s: location %d %v (%s) of a rewritten option was kept", f.Path(), k, locs[k].Path, why))
			}
		}
	}
	// idempotence: a second application changes nothing
	if modErr == nil {
		mid := cloneFDs(img.files)
		var err2 error
		p2 := func() (p any) {
			defer func() { p = recover() }()
			err2 = bufimagemodify.Modify(image, cfg, opts...)
			return nil
		}()
		if p2 != nil || err2 != nil {
			fail("not-idempotent", fmt.Sprintf("second Modify failed: %v %v", p2, err2))
		} else {
			for i, f := range img.files {
				if !proto.Equal(mid[i], f.FileDescriptorProto()) {
					fail("not-idempotent", fmt.Sprintf("file %s changed again on a second Modify", f.Path()))
				}
			}
		}
	}
}

// wellShaped: every location that can be a FieldOptions location (path of length >= 3 ending
// in 8, in particular field path + [8]) occurs once and precedes every location inside it.
func wellShaped(locs []*descriptorpb.SourceCodeInfo_Location, fields []fieldIn) bool {
	var roots [][]int32
	for _, fl := range fields {
		roots = append(roots, cat(fl.path, 8))
	}
	for _, l := range locs {
		if n := len(l.Path); n >= 3 && l.Path[n-1] == 8 {
			roots = append(roots, l.Path)
		}
	}
	for _, root := range roots {
		first, count, firstDesc := -1, 0, -1
		for j, l := range locs {
			if pathEq(l.Path, root) {
				count++
				if first < 0 {
					first = j
				}
			} else if len(l.Path) > len(root) && pathEq(l.Path[:len(root)], root) && firstDesc < 0 {
				firstDesc = j
			}
		}
		if count > 1 || (firstDesc >= 0 && (first < 0 || first > firstDesc)) {
			return false
		}
	}
	return true
}

func pathEq(a, b []int32) bool {
	if len(a) != len(b) {
		return false
	}
	for i := range a {
		if a[i] != b[i] {
			return false
		}
	}
	return true
}

func helperLines(run *hx.Run, r *hx.Rand) {
	// datawkt.Exists against the model's list: every file of the embedded bucket + near misses
	var wkt []string
	_ = storage.WalkReadObjects(ctx, datawkt.ReadBucket, "", func(o storage.ReadObject) error {
		wkt = append(wkt, o.Path())
		return nil
	})
	sort.Strings(wkt)
	run.Set("wkt_files", len(wkt))
	cands := append([]string{}, wkt...)
	for _, w := range wkt {
		cands = append(cands, "x/"+w, strings.TrimSuffix(w, ".proto"), strings.ToUpper(w), "./"+w, strings.Replace(w, "/", "//", 1))
	}
	cands = append(cands, "google/protobuf/mine.proto", "a.proto", "google/protobuf", "", ".")
	for _, c := range cands {
		run.Case("wkt\t"+hx.Enc(c), strconv.FormatBool(datawkt.Exists(c)), datawkt.Exists(c))
	}
	alphabet := []string{"a", "b", "Z", "Q", "_", "-", ".", " ", "1", "v", "é", "\t"}
	n := run.N(1500, 20000)
	for i := 0; i < n; i++ {
		var sb strings.Builder
		for k := r.Intn(9); k > 0; k-- {
			sb.WriteString(hx.Pick(r, alphabet))
		}
		s := sb.String()
		if strings.ContainsAny(s, "é") {
			// non-ASCII is outside the ASCII model of the casing helpers; only delimiters matter
			s = strings.ReplaceAll(s, "é", "x")
		}
		run.Case("pascal\t"+hx.Enc(s), hx.Enc(stringutil.ToPascalCase(s)), true)
	}
	verAlpha := []string{"v", "1", "2", "0", "p", "alpha", "beta", "test", "a", "x", "10", "2147483647", "2147483648", "."}
	for i := 0; i < n; i++ {
		var sb strings.Builder
		if r.Chance(3, 4) {
			sb.WriteString(hx.Pick(r, []string{"foo.", "a.b.", "", "x."}))
		}
		for k := r.Intn(6); k > 0; k-- {
			sb.WriteString(hx.Pick(r, verAlpha))
		}
		s := sb.String()
		_, ok := protoversion.NewPackageVersionForPackage(s)
		run.Case("pkgver\t"+hx.Enc(s), strconv.FormatBool(ok), ok)
		if ok {
			run.Count("pkgver:yes")
		} else {
			run.Count("pkgver:no")
		}
	}
	for _, p := range pkgParts {
		s := "foo." + p
		_, ok := protoversion.NewPackageVersionForPackage(s)
		run.Case("pkgver\t"+hx.Enc(s), strconv.FormatBool(ok), ok)
	}
}

func main() {
	run := hx.Start("C18")
	defer run.Finish()
	root := hx.NewRand(run.Seed)
	if run.Only < 0 {
		helperLines(run, root.Fork(1<<40))
	}
	if run.Only < 0 {
		// minimised witness of the sweeper defect found in round 1 (run first): java_package is
		// rewritten; the FieldOptions location [4 0 2 0 8] of `[default = 5]` has no child and
		// belongs to a field nobody touches.
		fd := &descriptorpb.FileDescriptorProto{
			Name: proto.String("w/witness.proto"), Package: proto.String("w.v1"),
			Options: &descriptorpb.FileOptions{JavaPackage: proto.String("old")},
			MessageType: []*descriptorpb.DescriptorProto{{Name: proto.String("M"), Field: []*descriptorpb.FieldDescriptorProto{
				{Name: proto.String("a"), Number: proto.Int32(1), Type: descriptorpb.FieldDescriptorProto_TYPE_INT32.Enum(), DefaultValue: proto.String("5")}}}},
			SourceCodeInfo: &descriptorpb.SourceCodeInfo{Location: []*descriptorpb.SourceCodeInfo_Location{
				{Path: []int32{}, Span: []int32{0, 0, 9}}, {Path: []int32{8}, Span: []int32{1, 0, 9}}, {Path: []int32{8, 1}, Span: []int32{1, 0, 8}},
				{Path: []int32{4, 0, 2, 0}, Span: []int32{3, 0, 9}}, {Path: []int32{4, 0, 2, 0, 8}, Span: []int32{3, 5, 9}}, {Path: []int32{4, 0, 2, 0, 7}, Span: []int32{3, 6, 8}}}},
		}
		img := &builtImage{files: []bufimage.ImageFile{newImageFile(fd, "", false)}, kind: "witness"}
		runCase(run, "witness", img, bufconfig.NewGenerateManagedConfig(true, nil, nil), false, "direct")
	}
	n := run.N(2600, 40000)
	compileErrs := 0
	for i := 0; i < n; i++ {
		if run.Only >= 0 && i != run.Only {
			continue
		}
		r := root.Fork(uint64(i))
		var img *builtImage
		if r.Chance(7, 10) {
			var err error
			img, err = genCompiledImage(r)
			if err != nil {
				compileErrs++
				run.Count("gen:compile-error")
				if compileErrs <= 3 {
					run.Set(fmt.Sprintf("compile_error_%d", compileErrs), err.Error())
				}
				img = genHandImage(r)
			}
		} else {
			img = genHandImage(r)
		}
		run.Count("image:" + img.kind)
		run.Count(fmt.Sprintf("image:files=%d", len(img.files)))
		g := newCfgGen(img)
		enabled := r.Chance(9, 10)
		preserve := r.Chance(1, 10)
		var cfg bufconfig.GenerateManagedConfig
		cfgKind := ""
		var yamlText string
		switch k := r.Intn(10); {
		case k < 2:
			cfgKind = "yaml-v1"
			yamlText = renderV1(r, g, enabled)
			c, err := parseYAML(yamlText)
			if err != nil {
				run.Count("cfg:yaml-v1-rejected")
				run.Set("yaml_v1_rejected_example", yamlText+"\n"+err.Error())
				c = bufconfig.NewGenerateManagedConfig(enabled, nil, nil)
			}
			cfg = c
		default:
			var ds []ruleD
			var os []ruleO
			for j := r.Intn(4); j > 0; j-- {
				ds = append(ds, g.genDisable(r))
			}
			for j := r.Intn(7); j > 0; j-- {
				os = append(os, g.genOverride(r))
			}
			// constructors reject some combinations; drop the offending rules
			var ds2 []ruleD
			for _, d := range ds {
				if _, err := buildDirect(true, []ruleD{d}, nil); err == nil {
					ds2 = append(ds2, d)
				} else {
					run.Count("cfg:disable-rule-rejected")
				}
			}
			ds = ds2
			if k < 5 {
				cfgKind = "yaml-v2"
				yamlText = renderV2Safe(enabled, ds, os)
				c, err := parseYAML(yamlText)
				if err != nil {
					panic(fmt.Sprintf("generated buf.gen.yaml v2 rejected: %v\n%s", err, yamlText))
				}
				// the parsed rules must be the generated ones
				d2, o2 := readRules(c)
				a1, b1 := encodeRules(ds, os)
				a2, b2 := encodeRules(d2, o2)
				if a1 != a2 || b1 != b2 || c.Enabled() != enabled {
					panic(fmt.Sprintf("buf.gen.yaml v2 parsed into different rules:\n%s\n%s | %s\n%s | %s", yamlText, a1, b1, a2, b2))
				}
				cfg = c
			} else {
				cfgKind = "direct"
				c, err := buildDirect(enabled, ds, os)
				if err != nil {
					panic(err)
				}
				cfg = c
			}
		}
		run.Count("cfg:" + cfgKind)
		if !cfg.Enabled() {
			run.Count("cfg:disabled-mode")
		}
		run.Count(fmt.Sprintf("cfg:disables=%d", len(cfg.Disables())))
		run.Count(fmt.Sprintf("cfg:overrides=%d", min(len(cfg.Overrides()), 8)))
		if i < 3 {
			run.Sample(map[string]any{"case": i, "image": img.kind, "files": len(img.files), "config": cfgKind, "yaml": yamlText})
		}
		runCase(run, strconv.Itoa(i), img, cfg, preserve, cfgKind)
	}
	runSweepFamily(run, root.Fork(1<<41))
	runNumberFamily(run, root.Fork(1<<42))
	runConfigKeyFamily(run, root.Fork(1<<43))
}
