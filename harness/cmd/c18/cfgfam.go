// Config-key family: every key of the `managed:` section of buf.gen.yaml v1 and every rule shape of
// v2, ALONE and in pairs, as YAML TEXT through the real reader (bufconfig.ReadBufGenYAMLFile), on an
// image of seven files in three named modules (+ one file without a module), with an oracle taken
// from the DOCUMENTATION of each key — not from the rules the reader translated the key into.
//
// Why: the generic oracle of runCase judges "exempted by a disable rule" from cfg.Disables(), i.e.
// from the translated rules, and the Lean model receives the translated rules too.  A wrong
// translation (v1 `csharp_namespace.except` giving disable rules for csharp_namespace_PREFIX) is
// consistent with itself and went unnoticed.  Here the generator keeps its own INTENT (what each
// YAML key it wrote means according to its documentation) and the oracle evaluates the intents:
//
//	cc_enable_arenas / java_multiple_files / java_string_check_utf8: b    option = b in every file
//	java_package_prefix {default d, except [M..], override {M: p}}       java_package = d.<package>; files of an
//	                                                                     excepted module: java_package untouched;
//	                                                                     files of module M: p.<package>
//	csharp_namespace {except, override {M: v}}                           excepted module: csharp_namespace
//	                                                                     untouched; module M: = v
//	optimize_for {default, except, override}                             likewise (values)
//	go_package_prefix {default, except, override}                        go_package = <prefix>/<dir of file>[;name]
//	objc_class_prefix {default, except, override}                        likewise (values)
//	ruby_package {except, override}                                      likewise (values)
//	override {OPTION: {path: value}}                                     that option of that file = value
//	v2 disable {file_option|field_option|neither, module|path|field|none} the option (all options) untouched in scope
//	v2 override {file_option|field_option, module|path|field|none, value} value / prefix / suffix in scope
//
// For a (file, option) NO key of the document concerns, the outcome must be what `managed: {enabled:
// true}` alone produces on a fresh copy of the image (a key governs exactly its documented option and
// scope).  Oracle classes: cfgkey-exempted-option-rewritten, cfgkey-override-not-applied,
// cfgkey-affects-unrelated-option, cfgkey-reader-rejected.
//
// Every case also goes through runCase (Lean correspondence on the translated rules + the generic
// oracle) and emits one `cfgv1` / `cfgv2` protocol line: the YAML document as a structured value,
// answered by the rules the real reader produced; the Lean side answers with
// BufModel.ConfigGen.readManagedV1/V2 mapped into BufModel.Managed rules (BufModel.ManagedYaml).
package main

import (
	"fmt"
	"path"
	"strconv"
	"strings"

	"github.com/bufbuild/buf/private/bufpkg/bufconfig"
	"github.com/bufbuild/buf/private/bufpkg/bufimage"
	"github.com/bufbuild/buf/private/bufpkg/bufimage/bufimagemodify"
	"github.com/bufbuild/protocompile"
	"github.com/bufbuild/verifharness/internal/hx"
	"github.com/bufbuild/verifharness/internal/nd"
	"google.golang.org/protobuf/proto"
	"google.golang.org/protobuf/types/descriptorpb"
)

const cfgFamBase = 3000000

const (
	modA = "buf.build/acme/weather"
	modB = "buf.build/acme/pet"
	modC = "example.com/org/repo"
)

var cfMods = []string{modA, modB, modC}

type cfFile struct {
	path, pkg, module string
}

// "acme/pet" is a string prefix of "acme/petstore/..." but does not contain it; "org/repo" contains
// "org/repo/sub/b.proto".
var cfFiles = []cfFile{
	{"acme/weather/v1/weather.proto", "acme.weather.v1", modA},
	{"acme/weather/v1/units.proto", "acme.weather.v1", modA},
	{"acme/pet/v1/pet.proto", "acme.pet.v1", modB},
	{"acme/petstore/v1/store.proto", "acme.petstore.v1", modB},
	{"org/repo/a.proto", "org.repo", modC},
	{"org/repo/sub/b.proto", "org.repo.sub.v2", modC},
	{"local/x.proto", "local.x.v1beta1", ""},
}

var cfDirs = []string{"acme/pet", "acme/weather/v1", "org/repo", "org", "acme", "local"}

// governed options by name, in a fixed order
var cfOptNames = []string{"java_package", "java_outer_classname", "java_multiple_files", "java_string_check_utf8", "optimize_for", "go_package",
	"cc_enable_arenas", "objc_class_prefix", "csharp_namespace", "php_namespace", "php_metadata_namespace", "ruby_package"}

func cfOptKind(name string) byte {
	switch name {
	case "java_multiple_files", "java_string_check_utf8", "cc_enable_arenas":
		return 'b'
	case "optimize_for":
		return 'o'
	case "jstype":
		return 'j'
	}
	return 's'
}

// cfPresetValue: the "old" value a governed option is pre-set to (never what a config produces).
var cfPresetValue = map[string]string{
	"java_package": `"com.old"`, "java_outer_classname": `"OldOuter"`, "java_multiple_files": "false", "java_string_check_utf8": "true",
	"optimize_for": "CODE_SIZE", "go_package": `"old/pkg;oldpb"`, "cc_enable_arenas": "false", "objc_class_prefix": `"OLD"`,
	"csharp_namespace": `"Old.Ns"`, "php_namespace": `"Old\\Ns"`, "php_metadata_namespace": `"Old\\Meta"`, "ruby_package": `"Old::Pkg"`,
}

func cfProto(variant, fi int, f cfFile) string {
	var sb strings.Builder
	sb.WriteString("syntax = \"proto2\";\npackage " + f.pkg + ";\n")
	for j, name := range cfOptNames {
		if (variant+fi*5+j)%3 == 0 {
			sb.WriteString("option " + name + " = " + cfPresetValue[name] + ";\n")
		}
	}
	js := func(j int) string {
		switch (variant + fi + j) % 4 {
		case 0:
			return " [jstype = JS_STRING]"
		case 1:
			return " [jstype = JS_NORMAL, deprecated = true]"
		case 2:
			return " [deprecated = true]"
		}
		return ""
	}
	sb.WriteString("message Msg" + strconv.Itoa(fi) + " {\n")
	sb.WriteString("  optional int64 id = 1" + js(0) + ";\n")
	sb.WriteString("  optional uint64 big = 2" + js(1) + ";\n")
	sb.WriteString("  optional string name = 3;\n")
	sb.WriteString("  optional int32 small = 4 [deprecated = true];\n")
	sb.WriteString("  message Inner { optional sfixed64 deep = 1" + js(2) + "; }\n")
	sb.WriteString("}\n")
	return sb.String()
}

const cfVariants = 6

var cfCompiled = map[int][]*descriptorpb.FileDescriptorProto{}

func cfImage(variant int) (*builtImage, error) {
	fds, ok := cfCompiled[variant]
	if !ok {
		var gfs []genFile
		for fi, f := range cfFiles {
			gfs = append(gfs, genFile{path: f.path, pkg: f.pkg, module: f.module, src: cfProto(variant, fi, f)})
		}
		img, err := compileSources(gfs, protocompile.SourceInfoExtraOptionLocations, "cfgfam")
		if err != nil {
			return nil, err
		}
		byPath := map[string]*descriptorpb.FileDescriptorProto{}
		for _, f := range img.files {
			byPath[f.Path()] = f.FileDescriptorProto()
		}
		for _, f := range cfFiles {
			fds = append(fds, byPath[f.path])
		}
		cfCompiled[variant] = fds
	}
	var files []bufimage.ImageFile
	for i, f := range cfFiles {
		files = append(files, newImageFile(proto.Clone(fds[i]).(*descriptorpb.FileDescriptorProto), f.module, false))
	}
	return &builtImage{files: files, kind: "cfgfam"}, nil
}

// ---------------------------------------------------------------------------------------
// intents

type intent struct {
	opt                 string // governed option name or "jstype"; "*" = every file option and jstype
	kind                byte   // 'x' exempt, 'v' value, 'p' prefix, 's' suffix, '?' effect not stated by the documentation
	module, path, field string
	sval                string
	bval                bool
	nval                int32
	src                 string
}

func (it intent) matches(f cfFile, field string) bool {
	if it.module != "" && it.module != f.module {
		return false
	}
	if it.path != "" && !pathContains(it.path, f.path) {
		return false
	}
	if it.field != "" && it.field != field {
		return false
	}
	return true
}

// ---------------------------------------------------------------------------------------
// v1 documents

type v1Section struct {
	def      string
	except   []string
	override [][2]string
}

type v1PerFile struct {
	key     string // as written (any case)
	opt     string // governed option name
	entries [][2]string
}

type v1Doc struct {
	cc, jmf, jsc *bool
	sections     map[string]*v1Section // java_package_prefix csharp_namespace optimize_for go_package_prefix objc_class_prefix ruby_package
	perFile      []v1PerFile
}

var v1SectionNames = []string{"java_package_prefix", "csharp_namespace", "optimize_for", "go_package_prefix", "objc_class_prefix", "ruby_package"}

// what the documentation says each section governs, and how its values act
var v1SectionTarget = map[string]struct {
	opt  string
	kind byte
}{
	"java_package_prefix": {"java_package", 'p'},
	"csharp_namespace":    {"csharp_namespace", 'v'},
	"optimize_for":        {"optimize_for", 'v'},
	"go_package_prefix":   {"go_package", 'p'},
	"objc_class_prefix":   {"objc_class_prefix", 'v'},
	"ruby_package":        {"ruby_package", 'v'},
}

var v1SectionValues = map[string][]string{
	"java_package_prefix": {"net", "org.gen", "io"},
	"csharp_namespace":    {"Acme.Ns", "X.Y"},
	"optimize_for":        {"SPEED", "LITE_RUNTIME"},
	"go_package_prefix":   {"github.com/acme/gen", "example.com/x", "gen"},
	"objc_class_prefix":   {"AB", "XYZ"},
	"ruby_package":        {"Acme::Ruby", "R"},
}

var cfPerFileValues = map[string][]string{
	"java_package": {"x.y", "net.pf"}, "java_outer_classname": {"PfOuter", "Other"}, "java_multiple_files": {"true", "false"},
	"java_string_check_utf8": {"false", "true"}, "optimize_for": {"SPEED", "LITE_RUNTIME"}, "go_package": {"pf/go;pfgo", "other/go"},
	"cc_enable_arenas": {"true", "false"}, "objc_class_prefix": {"PFX", "QQ"}, "csharp_namespace": {"Pf.Ns", "Q"},
	"php_namespace": {"Pf\\Ns", "Q"}, "php_metadata_namespace": {"Pf\\Meta", "Q"}, "ruby_package": {"Pf::Ruby", "Q"},
}

func optNumber(name, v string) int32 {
	switch v {
	case "SPEED":
		return 1
	case "CODE_SIZE":
		return 2
	case "LITE_RUNTIME":
		return 3
	case "JS_NORMAL":
		return 0
	case "JS_STRING":
		return 1
	case "JS_NUMBER":
		return 2
	}
	panic("bad enum value " + v + " for " + name)
}

func valueIntent(opt string, kind byte, v string) intent {
	it := intent{opt: opt, kind: kind}
	if kind == 'v' {
		switch cfOptKind(opt) {
		case 'b':
			it.bval = v == "true"
		case 'o', 'j':
			it.nval = optNumber(opt, v)
		default:
			it.sval = v
		}
	} else {
		it.sval = v
	}
	return it
}

func (d *v1Doc) intents() []intent {
	var out []intent
	b := func(p *bool, opt string) {
		if p != nil {
			out = append(out, intent{opt: opt, kind: 'v', bval: *p, src: opt})
		}
	}
	b(d.cc, "cc_enable_arenas")
	b(d.jmf, "java_multiple_files")
	b(d.jsc, "java_string_check_utf8")
	for _, name := range v1SectionNames {
		s := d.sections[name]
		if s == nil {
			continue
		}
		t := v1SectionTarget[name]
		if s.def != "" {
			it := valueIntent(t.opt, t.kind, s.def)
			it.src = name + ".default"
			out = append(out, it)
		}
		for _, m := range s.except {
			out = append(out, intent{opt: t.opt, kind: 'x', module: m, src: name + ".except"})
		}
		for _, kv := range s.override {
			it := valueIntent(t.opt, t.kind, kv[1])
			it.module, it.src = kv[0], name+".override"
			out = append(out, it)
		}
	}
	for _, pf := range d.perFile {
		for _, kv := range pf.entries {
			it := valueIntent(pf.opt, 'v', kv[1])
			it.path, it.src = kv[0], "override."+pf.key
			out = append(out, it)
		}
	}
	return out
}

func (d *v1Doc) yaml() string {
	var sb strings.Builder
	sb.WriteString("version: v1\nmanaged:\n  enabled: true\n")
	b := func(p *bool, key string) {
		if p != nil {
			sb.WriteString("  " + key + ": " + strconv.FormatBool(*p) + "\n")
		}
	}
	b(d.cc, "cc_enable_arenas")
	b(d.jmf, "java_multiple_files")
	b(d.jsc, "java_string_check_utf8")
	for _, name := range v1SectionNames {
		s := d.sections[name]
		if s == nil {
			continue
		}
		sb.WriteString("  " + name + ":\n")
		if s.def != "" {
			sb.WriteString("    default: " + yq(s.def) + "\n")
		}
		if len(s.except) > 0 {
			var qs []string
			for _, m := range s.except {
				qs = append(qs, yq(m))
			}
			sb.WriteString("    except: [" + strings.Join(qs, ", ") + "]\n")
		}
		if len(s.override) > 0 {
			sb.WriteString("    override:\n")
			for _, kv := range s.override {
				sb.WriteString("      " + yq(kv[0]) + ": " + yq(kv[1]) + "\n")
			}
		}
	}
	if len(d.perFile) > 0 {
		sb.WriteString("  override:\n")
		for _, pf := range d.perFile {
			sb.WriteString("    " + pf.key + ":\n")
			for _, kv := range pf.entries {
				sb.WriteString("      " + yq(kv[0]) + ": " + yq(kv[1]) + "\n")
			}
		}
	}
	sb.WriteString("plugins:\n  - plugin: x\n    out: gen\n")
	return sb.String()
}

func optBoolNode(p *bool) nd.Node {
	if p == nil {
		return nd.L()
	}
	return nd.L(nd.B(*p))
}

func pairsNode(kvs [][2]string) nd.Node {
	xs := []nd.Node{}
	for _, kv := range kvs {
		xs = append(xs, nd.L(nd.A(kv[0]), nd.A(kv[1])))
	}
	return nd.L(xs...)
}

// node: the layout Driver/C16Gen.managedV1Of reads.
func (d *v1Doc) node() nd.Node {
	sec := func(name string) nd.Node {
		s := d.sections[name]
		if s == nil {
			return nd.L(nd.A(""), nd.L(), nd.L())
		}
		return nd.L(nd.A(s.def), nd.Strs(s.except), pairsNode(s.override))
	}
	pf := []nd.Node{}
	for _, p := range d.perFile {
		pf = append(pf, nd.L(nd.A(p.key), pairsNode(p.entries)))
	}
	return nd.L(nd.B(true), optBoolNode(d.cc), optBoolNode(d.jmf), optBoolNode(d.jsc), sec("java_package_prefix"), sec("csharp_namespace"),
		sec("optimize_for"), sec("go_package_prefix"), sec("objc_class_prefix"), sec("ruby_package"), nd.L(pf...))
}

// v1 units: one documented key (sub-key) each
type v1Unit struct {
	name  string
	apply func(d *v1Doc, rot int)
}

func (d *v1Doc) section(name string) *v1Section {
	if d.sections[name] == nil {
		d.sections[name] = &v1Section{}
	}
	return d.sections[name]
}

func cfV1Units() []v1Unit {
	var us []v1Unit
	bp := func(b bool) *bool { return &b }
	us = append(us,
		v1Unit{"cc_enable_arenas", func(d *v1Doc, rot int) { d.cc = bp(rot%2 == 0) }},
		v1Unit{"java_multiple_files", func(d *v1Doc, rot int) { d.jmf = bp(rot%2 == 1) }},
		v1Unit{"java_string_check_utf8", func(d *v1Doc, rot int) { d.jsc = bp(rot%2 == 0) }},
	)
	for _, name := range v1SectionNames {
		name := name
		vals := v1SectionValues[name]
		if name != "csharp_namespace" && name != "ruby_package" {
			us = append(us, v1Unit{name + ".default", func(d *v1Doc, rot int) { d.section(name).def = vals[rot%len(vals)] }})
		}
		us = append(us, v1Unit{name + ".except", func(d *v1Doc, rot int) {
			s := d.section(name)
			s.except = append(s.except, cfMods[rot%3])
			if rot%4 == 3 {
				s.except = append(s.except, cfMods[(rot+1)%3])
			}
		}})
		us = append(us, v1Unit{name + ".override", func(d *v1Doc, rot int) {
			s := d.section(name)
			// a module that is not excepted (the reader rejects a module named in both)
			for j := 0; j < 3; j++ {
				m := cfMods[(rot+2+j)%3]
				used := false
				for _, e := range s.except {
					used = used || e == m
				}
				if !used {
					s.override = append(s.override, [2]string{m, vals[(rot+1)%len(vals)]})
					if rot%5 == 4 {
						for _, m2 := range cfMods {
							u2 := m2 == m
							for _, e := range s.except {
								u2 = u2 || e == m2
							}
							if !u2 {
								s.override = append(s.override, [2]string{m2, vals[rot%len(vals)]})
								break
							}
						}
					}
					return
				}
			}
		}})
	}
	for oi, opt := range cfOptNames {
		opt, oi := opt, oi
		us = append(us, v1Unit{"override." + opt, func(d *v1Doc, rot int) {
			key := strings.ToUpper(opt)
			if (rot+oi)%3 == 1 {
				key = opt
			}
			vals := cfPerFileValues[opt]
			pf := v1PerFile{key: key, opt: opt}
			pf.entries = append(pf.entries, [2]string{cfFiles[(rot+oi)%len(cfFiles)].path, vals[rot%len(vals)]})
			if rot%3 == 2 {
				pf.entries = append(pf.entries, [2]string{cfFiles[(rot+oi+3)%len(cfFiles)].path, vals[(rot+1)%len(vals)]})
			}
			d.perFile = append(d.perFile, pf)
		}})
	}
	return us
}

// complete: sections whose `default` the reader requires get one.
func (d *v1Doc) complete(rot int) {
	for _, name := range []string{"java_package_prefix", "optimize_for", "go_package_prefix"} {
		if s := d.sections[name]; s != nil && s.def == "" {
			vals := v1SectionValues[name]
			s.def = vals[(rot+2)%len(vals)]
		}
	}
}

// ---------------------------------------------------------------------------------------
// v2 documents

type v2Rule struct {
	disable             bool
	fileOpt             string // "" or a file option name as written
	fieldOpt            string // "" or "jstype"
	module, path, field string
	value               string // overrides; bools as "true"/"false"
}

type v2Doc struct {
	rules []v2Rule
}

var cfAllFileOptions = []string{"java_package", "java_package_prefix", "java_package_suffix", "java_outer_classname", "java_multiple_files",
	"java_string_check_utf8", "optimize_for", "go_package", "go_package_prefix", "cc_enable_arenas", "objc_class_prefix", "csharp_namespace",
	"csharp_namespace_prefix", "php_namespace", "php_metadata_namespace", "php_metadata_namespace_suffix", "ruby_package", "ruby_package_suffix"}

// base option and the way a value of this file option acts on it
func cfBaseOf(fileOpt string) (string, byte) {
	switch fileOpt {
	case "java_package_prefix":
		return "java_package", 'p'
	case "java_package_suffix":
		return "java_package", 's'
	case "go_package_prefix":
		return "go_package", 'p'
	case "csharp_namespace_prefix":
		return "csharp_namespace", 'p'
	case "php_metadata_namespace_suffix":
		return "php_metadata_namespace", 's'
	case "ruby_package_suffix":
		return "ruby_package", 's'
	}
	return fileOpt, 'v'
}

var cfV2Values = map[string][]string{
	"java_package_prefix": {"net", "org.gen"}, "java_package_suffix": {"gen", "pb"}, "go_package_prefix": {"github.com/acme/gen", "gen"},
	"csharp_namespace_prefix": {"Corp", "X.Y"}, "php_metadata_namespace_suffix": {"Meta", "M"}, "ruby_package_suffix": {"Gen", "R"},
}

func (d *v2Doc) intents() []intent {
	var out []intent
	for i, r := range d.rules {
		src := fmt.Sprintf("rule %d", i)
		switch {
		case r.disable && r.fileOpt == "" && r.fieldOpt == "":
			out = append(out, intent{opt: "*", kind: 'x', module: r.module, path: r.path, field: r.field, src: src})
		case r.disable && r.fieldOpt != "":
			out = append(out, intent{opt: "jstype", kind: 'x', module: r.module, path: r.path, field: r.field, src: src})
		case r.disable:
			base, kind := cfBaseOf(r.fileOpt)
			if kind == 'v' {
				out = append(out, intent{opt: base, kind: 'x', module: r.module, path: r.path, src: src})
			} else {
				// disabling a prefix / suffix: the documentation does not state the resulting value
				out = append(out, intent{opt: base, kind: '?', module: r.module, path: r.path, src: src})
			}
		case r.fieldOpt != "":
			it := valueIntent("jstype", 'v', r.value)
			it.module, it.path, it.field, it.src = r.module, r.path, r.field, src
			out = append(out, it)
		default:
			base, kind := cfBaseOf(r.fileOpt)
			it := valueIntent(base, kind, r.value)
			it.module, it.path, it.src = r.module, r.path, src
			out = append(out, it)
		}
	}
	return out
}

func (d *v2Doc) yaml() string {
	var sb strings.Builder
	sb.WriteString("version: v2\nmanaged:\n  enabled: true\n")
	item := func(r v2Rule) string {
		var kv []string
		if r.fileOpt != "" {
			kv = append(kv, "file_option: "+r.fileOpt)
		}
		if r.fieldOpt != "" {
			kv = append(kv, "field_option: "+r.fieldOpt)
		}
		if r.module != "" {
			kv = append(kv, "module: "+yq(r.module))
		}
		if r.path != "" {
			kv = append(kv, "path: "+yq(r.path))
		}
		if r.field != "" {
			kv = append(kv, "field: "+yq(r.field))
		}
		if !r.disable {
			base, kind := cfBaseOf(r.fileOpt)
			if r.fieldOpt == "" && kind == 'v' && cfOptKind(base) == 'b' {
				kv = append(kv, "value: "+r.value)
			} else {
				kv = append(kv, "value: "+yq(r.value))
			}
		}
		return "    - {" + strings.Join(kv, ", ") + "}\n"
	}
	var dis, ovr []string
	for _, r := range d.rules {
		if r.disable {
			dis = append(dis, item(r))
		} else {
			ovr = append(ovr, item(r))
		}
	}
	if len(dis) > 0 {
		sb.WriteString("  disable:\n" + strings.Join(dis, ""))
	}
	if len(ovr) > 0 {
		sb.WriteString("  override:\n" + strings.Join(ovr, ""))
	}
	sb.WriteString("plugins:\n  - local: protoc-gen-x\n    out: gen\n")
	return sb.String()
}

// node: the layout Driver/C16Gen.managedV2Of reads.
func (d *v2Doc) node() nd.Node {
	dis, ovr := []nd.Node{}, []nd.Node{}
	for _, r := range d.rules {
		if r.disable {
			dis = append(dis, nd.L(nd.A(r.fileOpt), nd.A(r.fieldOpt), nd.A(r.module), nd.A(r.path), nd.A(r.field)))
			continue
		}
		base, kind := cfBaseOf(r.fileOpt)
		val := nd.L(nd.A("s"), nd.A(r.value))
		if r.fieldOpt == "" && kind == 'v' && cfOptKind(base) == 'b' {
			val = nd.L(nd.A("b"), nd.B(r.value == "true"))
		}
		ovr = append(ovr, nd.L(nd.A(r.fileOpt), nd.A(r.fieldOpt), nd.A(r.module), nd.A(r.path), nd.A(r.field), val))
	}
	return nd.L(nd.B(true), nd.L(dis...), nd.L(ovr...))
}

var cfFieldNames = func() []string {
	var out []string
	for fi, f := range cfFiles {
		m := f.pkg + ".Msg" + strconv.Itoa(fi)
		out = append(out, m+".id", m+".big", m+".Inner.deep", m+".small")
	}
	return out
}()

// every v2 rule shape: {disable, override} x {each file option, jstype, neither} x scope
func cfV2Units() []func(rot int) v2Rule {
	var us []func(rot int) v2Rule
	fileScopes := []string{"module", "path-file", "path-dir", "none", "module+path"}
	setScope := func(r *v2Rule, sc string, rot int) {
		switch sc {
		case "module":
			r.module = cfMods[rot%3]
		case "path-file":
			r.path = cfFiles[rot%len(cfFiles)].path
		case "path-dir":
			r.path = cfDirs[rot%len(cfDirs)]
		case "field":
			r.field = cfFieldNames[rot%len(cfFieldNames)]
		case "module+path":
			r.module = cfMods[rot%3]
			r.path = cfDirs[(rot/3)%len(cfDirs)]
		}
	}
	value := func(fileOpt string, rot int) string {
		if vs, ok := cfV2Values[fileOpt]; ok {
			return vs[rot%len(vs)]
		}
		vs := cfPerFileValues[fileOpt]
		return vs[rot%len(vs)]
	}
	for _, fo := range cfAllFileOptions {
		for _, sc := range fileScopes {
			fo, sc := fo, sc
			us = append(us, func(rot int) v2Rule { r := v2Rule{disable: true, fileOpt: fo}; setScope(&r, sc, rot); return r })
			us = append(us, func(rot int) v2Rule {
				r := v2Rule{fileOpt: fo, value: value(fo, rot)}
				setScope(&r, sc, rot)
				return r
			})
		}
	}
	for _, sc := range []string{"module", "path-file", "path-dir", "field", "none"} {
		sc := sc
		us = append(us, func(rot int) v2Rule { r := v2Rule{disable: true, fieldOpt: "jstype"}; setScope(&r, sc, rot); return r })
		us = append(us, func(rot int) v2Rule {
			r := v2Rule{fieldOpt: "jstype", value: jsNames[rot%3]}
			setScope(&r, sc, rot)
			return r
		})
	}
	for _, sc := range []string{"module", "path-file", "path-dir"} {
		sc := sc
		us = append(us, func(rot int) v2Rule { r := v2Rule{disable: true}; setScope(&r, sc, rot); return r })
	}
	return us
}

// ---------------------------------------------------------------------------------------
// the documentation oracle

// optState: presence + value of a governed file option (strings quoted, bools, enum numbers).
func cfFileOptState(fd *descriptorpb.FileDescriptorProto, name string) (bool, string) {
	o := fd.GetOptions()
	if o == nil {
		return false, ""
	}
	for i, so := range strOpts {
		if so.name == name {
			if p := strOptPtr(o, i); p != nil {
				return true, *p
			}
			return false, ""
		}
	}
	for i, bo := range boolOpts {
		if bo.name == name {
			if p := boolOptPtr(o, i); p != nil {
				return true, strconv.FormatBool(*p)
			}
			return false, ""
		}
	}
	if name == "optimize_for" {
		if o.OptimizeFor != nil {
			return true, strconv.Itoa(int(*o.OptimizeFor))
		}
		return false, ""
	}
	panic("unknown option " + name)
}

// effective value as the generated code sees it (getter: protobuf default when unset)
func cfEffective(fd *descriptorpb.FileDescriptorProto, name string) string {
	o := fd.GetOptions()
	switch name {
	case "java_multiple_files":
		return strconv.FormatBool(o.GetJavaMultipleFiles())
	case "java_string_check_utf8":
		return strconv.FormatBool(o.GetJavaStringCheckUtf8())
	case "cc_enable_arenas":
		return strconv.FormatBool(o.GetCcEnableArenas())
	case "optimize_for":
		return strconv.Itoa(int(o.GetOptimizeFor()))
	}
	_, v := cfFileOptState(fd, name)
	return v
}

func titleParts(pkg, sep string) string {
	var ps []string
	for _, p := range strings.Split(pkg, ".") {
		ps = append(ps, strings.ToUpper(p[:1])+p[1:])
	}
	return strings.Join(ps, sep)
}

type cfExpect struct {
	kind  string // "untouched" | "value" | "go-prefix" | "baseline" | "unstated"
	value string
	why   string
}

func cfExpectFileOption(its []intent, f cfFile, opt string) cfExpect {
	var app []intent
	for _, it := range its {
		if (it.opt == opt || it.opt == "*") && it.field == "" && it.matches(f, "") {
			app = append(app, it)
		}
		if it.opt == "*" && it.field != "" {
			// a disable rule with a field and no option: outside the documented shapes
			return cfExpect{kind: "unstated"}
		}
	}
	if len(app) == 0 {
		return cfExpect{kind: "baseline"}
	}
	var srcs []string
	for _, it := range app {
		srcs = append(srcs, it.src)
		if it.kind == '?' {
			return cfExpect{kind: "unstated"}
		}
	}
	why := strings.Join(srcs, ", ")
	for _, it := range app {
		if it.kind == 'x' {
			for _, it2 := range app {
				if it2.kind != 'x' && it2.path != "" && it.path == "" {
					// exempted by module and overridden per file: the documentation does not rank the two
					return cfExpect{kind: "unstated"}
				}
			}
			return cfExpect{kind: "untouched", why: why}
		}
	}
	// last value override wins over what precedes it; after it the last prefix and the last suffix apply
	val, pre, suf := "", "", ""
	hasVal, sawVal := false, false
	for _, it := range app {
		if sawVal && it.kind != 'v' {
			// a prefix / suffix after a value override of the same option: the documentation does not say
			// whether the default prefix survives the value (as coded it does not)
			return cfExpect{kind: "unstated"}
		}
		switch it.kind {
		case 'v':
			hasVal, sawVal = true, true
			val, pre, suf = it.sval, "", ""
			switch cfOptKind(opt) {
			case 'b':
				val = strconv.FormatBool(it.bval)
			case 'o':
				val = strconv.Itoa(int(it.nval))
			}
		case 'p':
			hasVal = false
			pre = it.sval
		case 's':
			hasVal = false
			suf = it.sval
		}
	}
	if hasVal {
		return cfExpect{kind: "value", value: val, why: why}
	}
	join := func(sep string, parts ...string) string {
		var ps []string
		for _, p := range parts {
			if p != "" {
				ps = append(ps, p)
			}
		}
		return strings.Join(ps, sep)
	}
	switch opt {
	case "java_package":
		if pre == "" {
			// only a suffix was given: the default prefix "com" stays unless it is disabled
			for _, it := range its {
				if it.kind == '?' && it.opt == opt {
					return cfExpect{kind: "unstated"}
				}
			}
			pre = "com"
		}
		return cfExpect{kind: "value", value: join(".", pre, f.pkg, suf), why: why}
	case "go_package":
		return cfExpect{kind: "go-prefix", value: path.Join(pre, path.Dir(f.path)), why: why}
	case "csharp_namespace":
		return cfExpect{kind: "value", value: join(".", pre, titleParts(f.pkg, ".")), why: why}
	case "ruby_package":
		return cfExpect{kind: "value", value: join("::", titleParts(f.pkg, "::"), suf), why: why}
	case "php_metadata_namespace":
		return cfExpect{kind: "value", value: join("\\", titleParts(f.pkg, "\\"), suf), why: why}
	}
	return cfExpect{kind: "unstated"}
}

func is64(t descriptorpb.FieldDescriptorProto_Type) bool {
	switch t {
	case descriptorpb.FieldDescriptorProto_TYPE_INT64, descriptorpb.FieldDescriptorProto_TYPE_UINT64, descriptorpb.FieldDescriptorProto_TYPE_SINT64,
		descriptorpb.FieldDescriptorProto_TYPE_FIXED64, descriptorpb.FieldDescriptorProto_TYPE_SFIXED64:
		return true
	}
	return false
}

func jsState(f *descriptorpb.FieldDescriptorProto) string {
	if f.Options == nil || f.Options.Jstype == nil {
		return "unset"
	}
	return strconv.Itoa(int(*f.Options.Jstype))
}

func cfOracle(run *hx.Run, caseID, kind, yamlText string, its []intent, before, after, base []*descriptorpb.FileDescriptorProto) {
	replay := fmt.Sprintf("build/c18 --seed %d --tier %s --out /tmp/c18-replay --only %s", run.Seed, run.Tier, caseID)
	perClass := map[string]int{}
	fail := func(class, what string) {
		perClass[class]++
		if perClass[class] > 2 {
			return
		}
		run.Fail(hx.OracleFailure{Class: class, What: what, Input: map[string]any{"case": caseID, "config": kind, "buf.gen.yaml": yamlText}, Replay: replay})
	}
	for i, f := range cfFiles {
		for _, opt := range cfOptNames {
			exp := cfExpectFileOption(its, f, opt)
			hb, vb := cfFileOptState(before[i], opt)
			ha, va := cfFileOptState(after[i], opt)
			run.Count("cfgkey-oracle:" + exp.kind)
			switch exp.kind {
			case "untouched":
				if hb != ha || vb != va {
					fail("cfgkey-exempted-option-rewritten", fmt.Sprintf("file %s (module %q): %s was %s and is now %q although the configuration exempts it (%s)",
						f.path, f.module, opt, map[bool]string{true: strconv.Quote(vb), false: "unset"}[hb], va, exp.why))
				}
			case "value":
				if got := cfEffective(after[i], opt); got != exp.value {
					fail("cfgkey-override-not-applied", fmt.Sprintf("file %s (module %q): %s is %q, the configuration (%s) gives %q", f.path, f.module, opt, got, exp.why, exp.value))
				}
			case "go-prefix":
				got := cfEffective(after[i], opt)
				if !(got == exp.value || strings.HasPrefix(got, exp.value+";")) {
					fail("cfgkey-override-not-applied", fmt.Sprintf("file %s (module %q): go_package is %q, the configuration (%s) gives %q[;name]", f.path, f.module, got, exp.why, exp.value))
				}
			case "baseline":
				hx2, vx := cfFileOptState(base[i], opt)
				if ha != hx2 || va != vx {
					fail("cfgkey-affects-unrelated-option", fmt.Sprintf("file %s (module %q): no key of the configuration concerns %s here, yet it is %q (set=%v) instead of %q (set=%v) as with `enabled: true` alone",
						f.path, f.module, opt, va, ha, vx, hx2))
				}
			}
		}
		// jstype per field
		bf, af, xf := walkFields(before[i]), walkFields(after[i]), walkFields(base[i])
		for k, fl := range bf {
			var app []intent
			unstated := false
			for _, it := range its {
				if (it.opt == "jstype" || it.opt == "*") && it.matches(f, fl.name) {
					app = append(app, it)
				}
				if it.opt == "*" && it.field != "" {
					unstated = true
				}
			}
			if unstated {
				continue
			}
			sb, sa, sx := jsState(bf[k].desc), jsState(af[k].desc), jsState(xf[k].desc)
			if !is64(fl.desc.GetType()) || len(app) == 0 {
				// not governed / no key concerns it: as with `enabled: true` alone (which never sets jstype)
				if sa != sx {
					fail("cfgkey-affects-unrelated-option", fmt.Sprintf("file %s: jstype of %s is %s instead of %s as with `enabled: true` alone", f.path, fl.name, sa, sx))
				}
				continue
			}
			exempt := false
			var last *intent
			var srcs []string
			for j := range app {
				srcs = append(srcs, app[j].src)
				if app[j].kind == 'x' {
					exempt = true
				} else {
					last = &app[j]
				}
			}
			switch {
			case exempt:
				run.Count("cfgkey-oracle:jstype-untouched")
				if sa != sb {
					fail("cfgkey-exempted-option-rewritten", fmt.Sprintf("file %s (module %q): jstype of %s was %s and is now %s although the configuration exempts it (%s)", f.path, f.module, fl.name, sb, sa, strings.Join(srcs, ", ")))
				}
			case last != nil:
				run.Count("cfgkey-oracle:jstype-value")
				if sa != strconv.Itoa(int(last.nval)) {
					fail("cfgkey-override-not-applied", fmt.Sprintf("file %s (module %q): jstype of %s is %s, the configuration (%s) gives %d", f.path, f.module, fl.name, sa, strings.Join(srcs, ", "), last.nval))
				}
			}
		}
	}
}

// ---------------------------------------------------------------------------------------

func cfEnvNode() nd.Node {
	var paths []string
	for _, f := range cfFiles {
		paths = append(paths, f.path)
	}
	paths = append(paths, cfDirs...)
	return nd.L(nd.L(), nd.Strs(cfMods), nd.Strs(paths), nd.L())
}

func runCfgFamCase(run *hx.Run, k int, kind, yamlText, op string, node nd.Node, its []intent, variant int) {
	caseID := strconv.Itoa(cfgFamBase + k)
	cfg, err := parseYAML(yamlText)
	line := op + "\t" + node.String() + "\t" + cfEnvNode().String()
	if err != nil {
		// every document of this family is valid by its documentation
		run.Fail(hx.OracleFailure{Class: "cfgkey-reader-rejected", What: "bufconfig.ReadBufGenYAMLFile rejected a documented managed-mode configuration: " + err.Error(),
			Input: map[string]any{"case": caseID, "buf.gen.yaml": yamlText}, Replay: fmt.Sprintf("build/c18 --seed %d --tier %s --out /tmp/c18-replay --only %s", run.Seed, run.Tier, caseID)})
		run.Case(line, "err", true)
		return
	}
	ds, os := readRules(cfg)
	encD, encO := encodeRules(ds, os)
	run.Case(line, "ok\t"+b01(cfg.Enabled())+"\t"+encD+"\t"+encO, true)
	img, err := cfImage(variant)
	if err != nil {
		panic(err)
	}
	baseImg, _ := cfImage(variant)
	before := cloneFDs(img.files)
	run.Count("cfg:cfgfam-" + kind[:2])
	run.Count("image:" + img.kind)
	runCase(run, caseID, img, cfg, false, kind)
	// `enabled: true` alone on a fresh copy
	baseImage, err := bufimage.NewImage(baseImg.files)
	if err != nil {
		panic(err)
	}
	if err := bufimagemodify.Modify(baseImage, bufconfig.NewGenerateManagedConfig(true, nil, nil)); err != nil {
		panic(err)
	}
	var after, base []*descriptorpb.FileDescriptorProto
	for i := range img.files {
		after = append(after, img.files[i].FileDescriptorProto())
		base = append(base, baseImg.files[i].FileDescriptorProto())
	}
	cfOracle(run, caseID, kind, yamlText, its, before, after, base)
}

func runConfigKeyFamily(run *hx.Run, root *hx.Rand) {
	type cse struct {
		kind, yaml, op string
		node           nd.Node
		its            []intent
	}
	var cases []cse
	// ---- v1: every unit alone (three rotations), every pair
	us := cfV1Units()
	mkV1 := func(units []int, rot int) cse {
		d := &v1Doc{sections: map[string]*v1Section{}}
		var names []string
		for j, u := range units {
			us[u].apply(d, rot+j*2)
			names = append(names, us[u].name)
		}
		d.complete(rot)
		return cse{"v1:" + strings.Join(names, "+"), d.yaml(), "cfgv1", d.node(), d.intents()}
	}
	rots := run.N(3, 9)
	for u := range us {
		for rot := 0; rot < rots; rot++ {
			cases = append(cases, mkV1([]int{u}, rot))
		}
	}
	pairRots := run.N(1, 3)
	for a := range us {
		for b := a + 1; b < len(us); b++ {
			for rot := 0; rot < pairRots; rot++ {
				cases = append(cases, mkV1([]int{a, b}, a+b+rot*5))
			}
		}
	}
	// ---- v2: every rule shape alone, pairs (half of them about the same base option)
	vs := cfV2Units()
	mkV2 := func(units []int, rot int) cse {
		d := &v2Doc{}
		var names []string
		for j, u := range units {
			r := vs[u](rot + j*3)
			d.rules = append(d.rules, r)
			n := "override"
			if r.disable {
				n = "disable"
			}
			names = append(names, n+":"+r.fileOpt+r.fieldOpt)
		}
		return cse{"v2:" + strings.Join(names, "+"), d.yaml(), "cfgv2", d.node(), d.intents()}
	}
	for u := range vs {
		for rot := 0; rot < run.N(2, 8); rot++ {
			cases = append(cases, mkV2([]int{u}, u+rot*7))
		}
	}
	r := root.Fork(1)
	nPairs := run.N(500, 3000)
	for p := 0; p < nPairs; p++ {
		a := p % len(vs)
		b := r.Intn(len(vs))
		if p%2 == 0 {
			// same base option: a neighbour within the block of ten units of one file option family
			b = (a/10)*10 + r.Intn(10)
			if b >= len(vs) {
				b = len(vs) - 1
			}
		}
		cases = append(cases, mkV2([]int{a, b}, p))
	}
	for k, c := range cases {
		if run.Only >= 0 && run.Only != cfgFamBase+k {
			continue
		}
		if k%400 == 0 {
			run.Sample(map[string]any{"case": cfgFamBase + k, "config": c.kind, "yaml": c.yaml})
		}
		runCfgFamCase(run, k, c.kind, c.yaml, c.op, c.node, c.its, k%cfVariants)
	}
	run.Set("cfgfam_cases", len(cases))
}
