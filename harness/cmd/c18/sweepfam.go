// Sweep family: images whose SourceCodeInfo carries option locations of EVERY shape next to the
// options managed mode governs, and configs that do / do not change the governed value.
//
// Compiled part (genSweepFamImage): .proto text in which files and fields (message fields at
// three nesting depths, oneof members, extensions at file level / in messages / in nested
// messages, group and map fields) carry a stratified combination of
//   - a governed option pre-set in source (jstype; the twelve governed file options),
//   - 0..n ungoverned standard options with a one-element location (deprecated, debug_redact,
//     packed, lazy, ctype, retention, json_name, default) or a deeper one (targets = repeated
//     standard option [..,8,19,i]; features.x in editions [..,8,21,n]),
//   - custom options: scalar [..,8,T]; message-typed set as a whole `{..}` (plus the extra
//     locations buf's source-info mode adds inside the literal); set through sub-fields
//     [..,8,T,n]; through sub-sub-fields [..,8,T,3,n]; repeated (1-3 elements) [..,8,T,i];
//     repeated message-typed; repeated sub-fields [..,8,T,5,i], [..,8,T,3,3,i],
// stratified so that every single atom and every pair of atoms occurs next to a pre-set jstype,
// with and without one-element siblings.  Messages, enums, enum values, oneofs, services and
// methods carry custom options too (they are never swept and must all survive).
//
// Hand-built part (genHandFieldOptionsImage): descriptors whose source info lists a
// FieldOptions location and an arbitrary selection of locations 1-4 elements below it, in
// compiler order or not, with the root missing or repeated.
//
// Configs (genSweepFamCfg): no rules; file-wide jstype override (each value); per-field jstype
// overrides equal to / different from the pre-set value; the same with every file option
// disabled one by one (only jstype moves); file-option overrides equal to / different from the
// pre-set value; disabled mode; ModifyPreserveExisting; random rules.
package main

import (
	"fmt"
	"strconv"
	"strings"

	"github.com/bufbuild/buf/private/bufpkg/bufconfig"
	"github.com/bufbuild/buf/private/bufpkg/bufimage"
	"github.com/bufbuild/protocompile"
	"github.com/bufbuild/protocompile/linker"
	"github.com/bufbuild/verifharness/internal/hx"
	"google.golang.org/protobuf/proto"
	"google.golang.org/protobuf/reflect/protodesc"
	"google.golang.org/protobuf/reflect/protoreflect"
	"google.golang.org/protobuf/types/descriptorpb"
)

// compileSources compiles generated files in-process (buf's source-info mode unless given) and
// returns the image: every user file plus the files they import.
func compileSources(gfs []genFile, mode protocompile.SourceInfoMode, kind string) (*builtImage, error) {
	srcs := map[string]string{}
	names := make([]string, len(gfs))
	modOf := map[string]string{}
	for i, g := range gfs {
		srcs[g.path] = g.src
		names[i] = g.path
		modOf[g.path] = g.module
	}
	c := protocompile.Compiler{
		Resolver:       protocompile.WithStandardImports(&protocompile.SourceResolver{Accessor: protocompile.SourceAccessorFromMap(srcs)}),
		SourceInfoMode: mode,
	}
	res, err := c.Compile(ctx, names...)
	if err != nil {
		return nil, fmt.Errorf("%w\n%s", err, gfs[len(gfs)-1].src)
	}
	var files []bufimage.ImageFile
	seen := map[string]bool{}
	var addFile func(f protoreflect.FileDescriptor)
	addFile = func(f protoreflect.FileDescriptor) {
		if seen[f.Path()] {
			return
		}
		seen[f.Path()] = true
		imps := f.Imports()
		for i := 0; i < imps.Len(); i++ {
			addFile(imps.Get(i).FileDescriptor)
		}
		var fd *descriptorpb.FileDescriptorProto
		if lr, ok := f.(linker.Result); ok {
			fd = proto.Clone(lr.FileDescriptorProto()).(*descriptorpb.FileDescriptorProto)
		} else {
			fd = protodesc.ToFileDescriptorProto(f)
		}
		mod, user := modOf[f.Path()]
		files = append(files, newImageFile(fd, mod, !user))
	}
	for _, f := range res {
		addFile(f)
	}
	return &builtImage{files: files, kind: kind}, nil
}

// ---------------------------------------------------------------------------------------
// field option atoms

type sfField struct {
	typ      string
	is64     bool
	numeric  bool // packable scalar
	isMsg    bool
	isStr    bool
	repeated bool
	optional bool // proto2 `optional` scalar: default allowed
	isExt    bool
	noJSON   bool
	plain    bool // ordinary message field (not a oneof member, extension, map or group)
}

type sfAtom struct {
	name string
	deep bool // at least one location two or more elements below the options message
	ok   func(f sfField, syn string) bool
	text func(n int) []string
}

func always(sfField, string) bool { return true }

var sfFieldAtoms = []sfAtom{
	{"deprecated", false, always, func(n int) []string { return []string{"deprecated = " + strconv.FormatBool(n%3 != 0)} }},
	{"debug_redact", false, always, func(int) []string { return []string{"debug_redact = true"} }},
	{"retention", false, always, func(int) []string { return []string{"retention = RETENTION_SOURCE"} }},
	{"packed", false, func(f sfField, syn string) bool { return f.repeated && f.numeric && syn != "editions" },
		func(n int) []string { return []string{"packed = " + strconv.FormatBool(n%2 == 0)} }},
	{"lazy", false, func(f sfField, _ string) bool { return f.isMsg && !f.repeated }, func(int) []string { return []string{"lazy = true"} }},
	{"ctype", false, func(f sfField, syn string) bool { return f.isStr && syn != "editions" }, func(int) []string { return []string{"ctype = CORD"} }},
	{"json_name", false, func(f sfField, _ string) bool { return !f.isExt && !f.noJSON },
		func(n int) []string { return []string{"json_name = \"jn" + strconv.Itoa(n) + "\""} }},
	{"default", false, func(f sfField, syn string) bool { return f.optional && syn == "proto2" && !f.isMsg },
		func(int) []string { return []string{"default = DEFAULT"} }},
	{"targets1", true, always, func(int) []string { return []string{"targets = TARGET_TYPE_FIELD"} }},
	{"targets2", true, always, func(int) []string { return []string{"targets = TARGET_TYPE_FIELD", "targets = TARGET_TYPE_FILE"} }},
	{"features-utf8", true, func(f sfField, syn string) bool { return syn == "editions" && f.typ == "string" },
		func(int) []string { return []string{"features.utf8_validation = NONE"} }},
	{"features-encoding", true, func(f sfField, syn string) bool { return syn == "editions" && f.repeated && f.numeric },
		func(int) []string { return []string{"features.repeated_field_encoding = EXPANDED"} }},
	{"features-presence", true, func(f sfField, syn string) bool { return syn == "editions" && f.plain && !f.repeated && !f.isMsg },
		func(int) []string { return []string{"features.field_presence = IMPLICIT"} }},
	{"c_str", false, always, func(int) []string { return []string{"(sf_str) = \"c\""} }},
	{"c_num", false, always, func(n int) []string { return []string{"(sf_num) = " + strconv.Itoa(n)} }},
	{"c_whole", true, always, func(int) []string { return []string{"(sf_msg2) = { a: 1 s: \"w\" inner { b: 2 rr: [1, 2] } }"} }},
	{"c_whole_empty", false, always, func(int) []string { return []string{"(sf_msg3) = {}"} }},
	{"c_sub_a", true, always, func(int) []string { return []string{"(sf_msg).a = 1"} }},
	{"c_sub_s", true, always, func(int) []string { return []string{"(sf_msg).s = \"x\""} }},
	{"c_subsub_b", true, always, func(int) []string { return []string{"(sf_msg).inner.b = 2"} }},
	{"c_subsub_t", true, always, func(int) []string { return []string{"(sf_msg).inner.t = \"t\""} }},
	{"c_sub_rep", true, always, func(n int) []string {
		return [][]string{{"(sf_msg).tags = \"t\""}, {"(sf_msg).tags = \"t\"", "(sf_msg).tags = \"u\""}}[n%2]
	}},
	{"c_subsub_rep", true, always, func(int) []string { return []string{"(sf_msg).inner.rr = 1", "(sf_msg).inner.rr = 2"} }},
	{"c_sub_many", true, always, func(int) []string { return []string{"(sf_msg).many = { b: 1 }"} }},
	{"c_rep1", true, always, func(int) []string { return []string{"(sf_rep) = 1"} }},
	{"c_rep3", true, always, func(int) []string { return []string{"(sf_rep) = 1", "(sf_rep) = 2", "(sf_rep) = 3"} }},
	{"c_rmsg", true, always, func(int) []string { return []string{"(sf_rmsg) = { a: 1 }", "(sf_rmsg) = { s: \"z\" }"} }},
}

// file option atoms (one `option` statement each)
var sfFileAtoms = []sfAtom{
	{"deprecated", false, always, func(int) []string { return []string{"deprecated = true"} }},
	{"swift_prefix", false, always, func(int) []string { return []string{"swift_prefix = \"SW\""} }},
	{"java_generic_services", false, always, func(int) []string { return []string{"java_generic_services = true"} }},
	{"cc_generic_services", false, always, func(int) []string { return []string{"cc_generic_services = false"} }},
	{"php_class_prefix", false, always, func(int) []string { return []string{"php_class_prefix = \"P\""} }},
	{"features", true, func(_ sfField, syn string) bool { return syn == "editions" },
		func(int) []string { return []string{"features.json_format = LEGACY_BEST_EFFORT"} }},
	{"f_str", false, always, func(int) []string { return []string{"(sf_file_str) = \"x\""} }},
	{"f_whole", true, always, func(int) []string { return []string{"(sf_file_msg2) = { a: 1 inner { b: 3 } tags: \"q\" }"} }},
	{"f_sub_a", true, always, func(int) []string { return []string{"(sf_file_msg).a = 1"} }},
	{"f_subsub_b", true, always, func(int) []string { return []string{"(sf_file_msg).inner.b = 2"} }},
	{"f_sub_rep", true, always, func(int) []string { return []string{"(sf_file_msg).tags = \"t\"", "(sf_file_msg).tags = \"u\""} }},
	{"f_rep", true, always, func(n int) []string {
		return [][]string{{"(sf_file_rep) = 1"}, {"(sf_file_rep) = 1", "(sf_file_rep) = 2", "(sf_file_rep) = 3"}}[n%2]
	}},
	{"f_rmsg", true, always, func(int) []string { return []string{"(sf_file_rmsg) = { a: 1 }"} }},
}

type sfGoverned struct {
	name   string
	values []string
}

var sfGovernedFile = []sfGoverned{
	{"java_package", []string{`"com.old"`, `"com.PKG"`, `"x"`}},
	{"java_outer_classname", []string{`"OldOuter"`, `"SfProto"`}},
	{"java_multiple_files", []string{"true", "false"}},
	{"java_string_check_utf8", []string{"true", "false"}},
	{"optimize_for", []string{"SPEED", "CODE_SIZE"}},
	{"go_package", []string{`"old/pkg;oldpb"`, `"gen/go/a"`}},
	{"cc_enable_arenas", []string{"true", "false"}},
	{"objc_class_prefix", []string{`"OLD"`, `"AXX"`}},
	{"csharp_namespace", []string{`"Old.Ns"`, `"Foo"`}},
	{"php_namespace", []string{`"Old\\Ns"`, `"Foo"`}},
	{"php_metadata_namespace", []string{`"Old\\Meta"`, `"Foo\\GPBMetadata"`}},
	{"ruby_package", []string{`"Old::Pkg"`, `"Foo"`}},
}

// pickAtoms chooses the atoms for the k-th carrier of a case: none / exactly one (round robin) /
// a pair (round robin over pairs) / a random subset.
func pickAtoms(r *hx.Rand, atoms []sfAtom, k int, ok func(a sfAtom) bool) []sfAtom {
	var cand []sfAtom
	for _, a := range atoms {
		if ok(a) {
			cand = append(cand, a)
		}
	}
	n := len(cand)
	if n == 0 {
		return nil
	}
	switch k % 5 {
	case 0:
		return nil
	case 1:
		return []sfAtom{cand[(k/5)%n]}
	case 2, 3:
		if n == 1 {
			return []sfAtom{cand[0]}
		}
		i := (k / 5) % n
		j := (i + 1 + (k/(5*n))%(n-1)) % n
		return []sfAtom{cand[i], cand[j]}
	default:
		var out []sfAtom
		for _, a := range cand {
			if r.Chance(1, 4) {
				out = append(out, a)
			}
		}
		return out
	}
}

var sfScalarTypes = []string{"int64", "uint64", "sint64", "fixed64", "sfixed64", "int64", "uint64", "int32", "string", "bool", "double", "bytes"}

func sfFieldOf(typ string) sfField {
	f := sfField{typ: typ}
	switch typ {
	case "int64", "uint64", "sint64", "fixed64", "sfixed64":
		f.is64, f.numeric = true, true
	case "int32", "bool", "double", "uint32":
		f.numeric = true
	case "string", "bytes":
		f.isStr = true
	default:
		f.isMsg = true
	}
	return f
}

func defaultFor(typ string) string {
	switch typ {
	case "string", "bytes":
		return "\"d\""
	case "bool":
		return "true"
	default:
		return "5"
	}
}

// genSweepFamProto renders one file of the family.  k stratifies the atom choice.
func genSweepFamProto(r *hx.Rand, k, idx int, pkg string, earlier []genFile) string {
	var sb strings.Builder
	syn := "proto2"
	switch k % 7 {
	case 2, 5:
		syn = "proto3"
	case 6:
		syn = "editions"
	}
	switch syn {
	case "editions":
		sb.WriteString("edition = \"2023\";\n")
	default:
		sb.WriteString("syntax = \"" + syn + "\";\n")
	}
	sb.WriteString("package " + pkg + ";\n")
	sb.WriteString("import \"google/protobuf/descriptor.proto\";\n")
	for _, e := range earlier {
		if r.Chance(1, 2) {
			sb.WriteString("import \"" + e.path + "\";\n")
		}
	}
	opt := "optional "
	if syn != "proto2" {
		opt = ""
	}
	carrier := k * 11
	next := func() int { carrier++; return carrier }
	// ---- file options
	var stmts []string
	for gi, g := range sfGovernedFile {
		if syn == "editions" && g.name == "java_string_check_utf8" {
			continue // not allowed with editions
		}
		if r.Chance(1, 3) || (k%13 == gi) {
			v := strings.ReplaceAll(hx.Pick(r, g.values), "PKG", pkg)
			stmts = append(stmts, g.name+" = "+v)
		}
	}
	for _, a := range pickAtoms(r, sfFileAtoms, k, func(a sfAtom) bool { return a.ok(sfField{}, syn) }) {
		stmts = append(stmts, a.text(k)...)
	}
	hx.Shuffle(r, stmts)
	for _, s := range stmts {
		sb.WriteString("option " + s + ";\n")
	}
	// ---- option definitions (tags unique across the files of one compile)
	b := 51000 + 100*idx
	sb.WriteString(fmt.Sprintf("message SfInner { %sint32 b = 1; %sstring t = 2; repeated int32 rr = 3; }\n", opt, opt))
	sb.WriteString(fmt.Sprintf("message SfOpt { %sint64 a = 1; %sstring s = 2; %sSfInner inner = 3; repeated SfInner many = 4; repeated string tags = 5; }\n", opt, opt, opt))
	sb.WriteString(fmt.Sprintf("extend google.protobuf.FileOptions { %sstring sf_file_str = %d; %sSfOpt sf_file_msg = %d; repeated int32 sf_file_rep = %d; repeated SfOpt sf_file_rmsg = %d; %sSfOpt sf_file_msg2 = %d; }\n",
		opt, b, opt, b+1, b+2, b+3, opt, b+4))
	sb.WriteString(fmt.Sprintf("extend google.protobuf.FieldOptions { %sstring sf_str = %d; %sSfOpt sf_msg = %d; repeated int32 sf_rep = %d; repeated SfOpt sf_rmsg = %d; %sint32 sf_num = %d; %sSfOpt sf_msg2 = %d; %sSfOpt sf_msg3 = %d; }\n",
		opt, b+10, opt, b+11, b+12, b+13, opt, b+14, opt, b+15, opt, b+16))
	sb.WriteString(fmt.Sprintf("extend google.protobuf.MessageOptions { %sSfOpt sf_m = %d; }\n", opt, b+20))
	sb.WriteString(fmt.Sprintf("extend google.protobuf.EnumOptions { %sSfOpt sf_e = %d; }\n", opt, b+21))
	sb.WriteString(fmt.Sprintf("extend google.protobuf.EnumValueOptions { %sSfOpt sf_ev = %d; }\n", opt, b+22))
	sb.WriteString(fmt.Sprintf("extend google.protobuf.OneofOptions { %sSfOpt sf_o = %d; }\n", opt, b+23))
	sb.WriteString(fmt.Sprintf("extend google.protobuf.ServiceOptions { %sSfOpt sf_s = %d; }\n", opt, b+24))
	sb.WriteString(fmt.Sprintf("extend google.protobuf.MethodOptions { %sSfOpt sf_r = %d; }\n", opt, b+25))
	// ---- fields
	fieldOptions := func(f sfField) string {
		c := next()
		var os []string
		if f.is64 && c%4 != 3 {
			os = append(os, "jstype = "+jsNames[(c/4+k)%3])
		}
		for _, a := range pickAtoms(r, sfFieldAtoms, c, func(a sfAtom) bool { return a.ok(f, syn) }) {
			for _, t := range a.text(c) {
				os = append(os, strings.ReplaceAll(t, "DEFAULT", defaultFor(f.typ)))
			}
		}
		// jstype first / last / anywhere; repeated elements keep their relative order
		switch c % 3 {
		case 0:
		case 1:
			if len(os) > 1 && strings.HasPrefix(os[0], "jstype") {
				os = append(os[1:], os[0])
			}
		default:
			if len(os) > 2 && strings.HasPrefix(os[0], "jstype") {
				m := 1 + r.Intn(len(os)-1)
				js := os[0]
				rest := append([]string{}, os[1:]...)
				os = append(append(append([]string{}, rest[:m]...), js), rest[m:]...)
			}
		}
		if len(os) == 0 {
			return ""
		}
		return " [" + strings.Join(os, ", ") + "]"
	}
	label := func(f *sfField) string {
		switch syn {
		case "proto2":
			switch r.Intn(5) {
			case 0:
				f.repeated = true
				return "repeated "
			case 1:
				return "required "
			default:
				f.optional = true
				return "optional "
			}
		default:
			switch r.Intn(4) {
			case 0:
				f.repeated = true
				return "repeated "
			case 1:
				if syn == "proto3" {
					return "optional "
				}
			}
			return ""
		}
	}
	var genMsg func(name string, depth int, indent string)
	genMsg = func(name string, depth int, indent string) {
		sb.WriteString(indent + "message " + name + " {\n")
		if r.Chance(1, 3) {
			sb.WriteString(indent + "  option (sf_m).a = 1;\n")
			if r.Bool() {
				sb.WriteString(indent + "  option (sf_m).inner.rr = 4;\n")
			}
		}
		nf := 1 + r.Intn(4)
		num := 1
		for i := 0; i < nf; i++ {
			typ := hx.Pick(r, sfScalarTypes)
			if r.Chance(1, 10) {
				typ = "SfInner"
			}
			f := sfFieldOf(typ)
			f.plain = true
			lbl := label(&f)
			sb.WriteString(fmt.Sprintf("%s  %s%s f%d = %d%s;\n", indent, lbl, typ, i, num, fieldOptions(f)))
			num++
		}
		if r.Chance(1, 3) {
			sb.WriteString(indent + "  oneof pick {\n")
			if r.Bool() {
				sb.WriteString(indent + "    option (sf_o).s = \"o\";\n")
			}
			for i := 0; i < 1+r.Intn(2); i++ {
				f := sfFieldOf(hx.Pick(r, sfScalarTypes[:8]))
				sb.WriteString(fmt.Sprintf("%s    %s o%d = %d%s;\n", indent, f.typ, i, num, fieldOptions(f)))
				num++
			}
			sb.WriteString(indent + "  }\n")
		}
		if r.Chance(1, 5) {
			f := sfFieldOf("map")
			f.isMsg, f.repeated, f.noJSON = false, false, false
			sb.WriteString(fmt.Sprintf("%s  map<string, int64> m%d = %d%s;\n", indent, num, num, fieldOptions(f)))
			num++
		}
		if syn == "proto2" && r.Chance(1, 5) {
			f := sfField{typ: "group", noJSON: true}
			sb.WriteString(fmt.Sprintf("%s  optional group Grp%d = %d%s { optional int64 g = 1%s; }\n", indent, num, num, fieldOptions(f), fieldOptions(sfFieldOf("int64"))))
			num++
		}
		if syn != "proto3" {
			sb.WriteString(indent + "  extensions 100 to 199;\n")
		}
		if depth < 2 && r.Chance(2, 5) {
			genMsg("N"+strconv.Itoa(depth), depth+1, indent+"  ")
		}
		if syn != "proto3" && r.Chance(1, 3) {
			f := sfFieldOf(hx.Pick(r, sfScalarTypes[:8]))
			f.isExt = true
			l := opt
			f.optional = syn == "proto2"
			sb.WriteString(fmt.Sprintf("%s  extend %s { %s%s ext_in%d = %d%s; }\n", indent, name, l, f.typ, depth, 100+depth*10+r.Intn(9), fieldOptions(f)))
		}
		if r.Chance(1, 4) {
			sb.WriteString(indent + "  enum E { option (sf_e).a = 2; E_UNSPECIFIED = 0 [(sf_ev).inner.b = 1]; E_ONE = 1; }\n")
		}
		sb.WriteString(indent + "}\n")
	}
	nm := 1 + r.Intn(2)
	for i := 0; i < nm; i++ {
		genMsg("M"+strconv.Itoa(i), 0, "")
	}
	if syn != "proto3" {
		for i := 0; i < r.Intn(3); i++ {
			f := sfFieldOf(hx.Pick(r, sfScalarTypes[:8]))
			f.isExt, f.optional = true, syn == "proto2"
			sb.WriteString(fmt.Sprintf("extend M0 { %s%s top_ext%d = %d%s; }\n", opt, f.typ, i, 150+i, fieldOptions(f)))
		}
	}
	if r.Chance(1, 4) {
		sb.WriteString("enum TopE { TOP_E_UNSPECIFIED = 0; TOP_E_A = 1 [deprecated = true, (sf_ev).a = 3]; }\n")
	}
	if r.Chance(1, 4) {
		sb.WriteString("service Svc { option (sf_s).tags = \"s\"; rpc Get(M0) returns (M0) { option (sf_r).a = 1; option deprecated = true; } }\n")
	}
	return sb.String()
}

func genSweepFamImage(r *hx.Rand, k int) (*builtImage, error) {
	n := 1
	if k%6 == 5 {
		n = 2
	}
	var gfs []genFile
	used := map[string]bool{}
	for i := 0; i < n; i++ {
		p := genFilePath(r, used)
		pkg := hx.Pick(r, []string{"sf.v1", "acme.sweep", "foo.bar.v1beta1", "sf"}) + strconv.Itoa(i)
		g := genFile{path: p, pkg: pkg, module: hx.Pick(r, modules)}
		g.src = genSweepFamProto(r, k+i, i, pkg, gfs)
		gfs = append(gfs, g)
	}
	return compileSources(gfs, protocompile.SourceInfoExtraOptionLocations, "sweepfam")
}

// ---------------------------------------------------------------------------------------
// hand-built FieldOptions location lists

var sfBelowOptions = [][]int32{{6}, {6}, {3}, {1}, {50000}, {50000, 1}, {50000, 2}, {50003, 0}, {50003, 1}, {50002, 1, 1}, {50002, 3, 3, 0},
	{19, 0}, {19, 1}, {21, 1}, {6, 1}, {999, 6}, {8, 6}}

func genHandFieldOptionsImage(r *hx.Rand, k int) *builtImage {
	fd := &descriptorpb.FileDescriptorProto{Name: proto.String("hf/field_options.proto"), Package: proto.String("hf.v1")}
	if r.Bool() {
		fd.Options = &descriptorpb.FileOptions{JavaPackage: proto.String("com.old")}
	}
	sci := &descriptorpb.SourceCodeInfo{}
	add := func(p []int32) {
		loc := &descriptorpb.SourceCodeInfo_Location{Path: append([]int32(nil), p...), Span: []int32{int32(len(sci.Location)), 0, 1}}
		if r.Chance(1, 8) {
			loc.TrailingComments = proto.String("t")
		}
		sci.Location = append(sci.Location, loc)
	}
	add([]int32{})
	if fd.Options != nil && r.Chance(3, 4) {
		add([]int32{8})
		add([]int32{8, 1})
	}
	msg := &descriptorpb.DescriptorProto{Name: proto.String("M")}
	nested := &descriptorpb.DescriptorProto{Name: proto.String("N")}
	type home struct {
		path []int32
		f    *descriptorpb.FieldDescriptorProto
	}
	var homes []home
	mk := func(name string, num int32) *descriptorpb.FieldDescriptorProto {
		f := &descriptorpb.FieldDescriptorProto{Name: proto.String(name), Number: proto.Int32(num),
			Type: descriptorpb.FieldDescriptorProto_Type(hx.Pick(r, []int32{3, 4, 6, 16, 18, 3, 4, 5, 9})).Enum()}
		if r.Chance(3, 4) {
			f.Options = &descriptorpb.FieldOptions{Jstype: descriptorpb.FieldOptions_JSType(r.Intn(3)).Enum()}
			if r.Chance(1, 3) {
				f.Options.Deprecated = proto.Bool(true)
			}
			if r.Chance(1, 3) {
				f.Options.ProtoReflect().SetUnknown([]byte{0x82, 0xb5, 0x18, 0x02, 0x08, 0x01}) // field 50000, a sub-message
			}
		}
		return f
	}
	for j := 0; j < 1+r.Intn(3); j++ {
		f := mk("f"+strconv.Itoa(j), int32(j+1))
		msg.Field = append(msg.Field, f)
		homes = append(homes, home{[]int32{4, 0, 2, int32(j)}, f})
	}
	if r.Bool() {
		f := mk("n0", 1)
		nested.Field = append(nested.Field, f)
		msg.NestedType = append(msg.NestedType, nested)
		homes = append(homes, home{[]int32{4, 0, 3, 0, 2, 0}, f})
	}
	if r.Chance(1, 3) {
		f := mk("in_ext", 120)
		f.Extendee = proto.String(".hf.v1.M")
		msg.Extension = append(msg.Extension, f)
		homes = append(homes, home{[]int32{4, 0, 6, 0}, f})
	}
	fd.MessageType = append(fd.MessageType, msg)
	if r.Chance(1, 3) {
		f := mk("top_ext", 121)
		f.Extendee = proto.String(".hf.v1.M")
		fd.Extension = append(fd.Extension, f)
		homes = append(homes, home{[]int32{7, 0}, f})
	}
	for hi, h := range homes {
		add(h.path)
		root := cat(h.path, 8)
		var below [][]int32
		c := k*7 + hi
		switch c % 4 {
		case 0: // jstype alone
			below = [][]int32{{6}}
		case 1: // jstype + exactly one other location (round robin)
			below = [][]int32{{6}, sfBelowOptions[(c/4)%len(sfBelowOptions)]}
		case 2: // jstype + two others
			below = [][]int32{{6}, sfBelowOptions[(c/4)%len(sfBelowOptions)], sfBelowOptions[(c/4+1+c/64)%len(sfBelowOptions)]}
		default:
			for j := r.Intn(5); j > 0; j-- {
				below = append(below, hx.Pick(r, sfBelowOptions))
			}
		}
		hx.Shuffle(r, below)
		shape := r.Intn(10)
		if shape != 0 { // 0: the FieldOptions location is missing
			add(root)
		}
		for bi, bl := range below {
			add(append(append([]int32{}, root...), bl...))
			if shape == 1 && bi == 0 {
				add(root) // the root once more, after its first descendant
			}
		}
		if shape == 2 {
			add(root) // and once more after everything below it
		}
		add(cat(h.path, 1))
	}
	fd.SourceCodeInfo = sci
	return &builtImage{files: []bufimage.ImageFile{newImageFile(fd, hx.Pick(r, modules), false)}, kind: "hand-field-options"}
}

// ---------------------------------------------------------------------------------------
// configs

var sfOverrideValues = map[bufconfig.FileOption][]string{
	bufconfig.FileOptionJavaPackage:          {"com.old", "x", "net.new"},
	bufconfig.FileOptionJavaOuterClassname:   {"OldOuter", "SfProto", "NewOuter"},
	bufconfig.FileOptionGoPackage:            {"old/pkg;oldpb", "gen/go/a", "new/pkg"},
	bufconfig.FileOptionObjcClassPrefix:      {"OLD", "AXX", "NEW"},
	bufconfig.FileOptionCsharpNamespace:      {"Old.Ns", "Foo", "New.Ns"},
	bufconfig.FileOptionPhpNamespace:         {"Old\\Ns", "Foo", "New"},
	bufconfig.FileOptionPhpMetadataNamespace: {"Old\\Meta", "Foo\\GPBMetadata", "New"},
	bufconfig.FileOptionRubyPackage:          {"Old::Pkg", "Foo", "New"},
}

// genSweepFamCfg returns rules, enabled and preserve for the k-th family case.
func genSweepFamCfg(r *hx.Rand, k int, img *builtImage) (ds []ruleD, os []ruleO, enabled, preserve bool, kind string) {
	enabled = true
	type jf struct {
		name string
		cur  *int32
	}
	var jfs []jf
	for _, f := range img.files {
		if f.IsImport() {
			continue
		}
		for _, fl := range walkFields(f.FileDescriptorProto()) {
			switch fl.desc.GetType() {
			case descriptorpb.FieldDescriptorProto_TYPE_INT64, descriptorpb.FieldDescriptorProto_TYPE_UINT64, descriptorpb.FieldDescriptorProto_TYPE_SINT64,
				descriptorpb.FieldDescriptorProto_TYPE_FIXED64, descriptorpb.FieldDescriptorProto_TYPE_SFIXED64:
				var cur *int32
				if fl.desc.Options != nil && fl.desc.Options.Jstype != nil {
					v := int32(*fl.desc.Options.Jstype)
					cur = &v
				}
				jfs = append(jfs, jf{fl.name, cur})
			}
		}
	}
	perField := func() {
		for i, f := range jfs {
			switch (k/8 + i) % 4 {
			case 0: // the pre-set value: nothing changes
				if f.cur != nil {
					os = append(os, ruleO{field: f.name, js: true, kind: 'j', nval: *f.cur})
				}
			case 1, 2:
				v := int32((k/8 + i) % 3)
				if f.cur != nil {
					v = (*f.cur + 1 + int32(i%2)) % 3
				}
				os = append(os, ruleO{field: f.name, js: true, kind: 'j', nval: v})
			}
		}
	}
	disableFileOptions := func() {
		for fo := bufconfig.FileOption(1); fo <= 18; fo++ {
			d := ruleD{fileOpt: fo}
			if _, err := buildDirect(true, []ruleD{d}, nil); err == nil {
				ds = append(ds, d)
			}
		}
	}
	fileOverrides := func() {
		for _, so := range strOpts {
			if vals, ok := sfOverrideValues[so.fileOpt]; ok && r.Chance(2, 3) {
				os = append(os, ruleO{fileOpt: so.fileOpt, kind: 's', sval: hx.Pick(r, vals)})
			}
		}
		for _, bo := range boolOpts {
			if r.Chance(1, 2) {
				os = append(os, ruleO{fileOpt: bo.fileOpt, kind: 'b', bval: r.Bool()})
			}
		}
		if r.Bool() {
			os = append(os, ruleO{fileOpt: bufconfig.FileOptionOptimizeFor, kind: 'o', nval: int32(1 + r.Intn(2))})
		}
	}
	switch k % 8 {
	case 0:
		kind = "sf:no-rules"
	case 1:
		kind = "sf:jstype-file-wide"
		os = append(os, ruleO{js: true, kind: 'j', nval: int32((k / 8) % 3)})
	case 2:
		kind = "sf:jstype-per-field"
		perField()
	case 3:
		kind = "sf:jstype-only"
		disableFileOptions()
		if (k/8)%2 == 0 {
			os = append(os, ruleO{js: true, kind: 'j', nval: int32((k / 16) % 3)})
		} else {
			perField()
		}
	case 4:
		kind = "sf:file-overrides"
		fileOverrides()
		if r.Bool() {
			perField()
		}
	case 5:
		kind = "sf:disabled-mode"
		enabled = false
		fileOverrides()
		perField()
	case 6:
		kind = "sf:preserve"
		preserve = true
		os = append(os, ruleO{js: true, kind: 'j', nval: int32((k / 8) % 3)})
		if r.Bool() {
			fileOverrides()
		}
	default:
		kind = "sf:random-rules"
		g := newCfgGen(img)
		for j := r.Intn(3); j > 0; j-- {
			d := g.genDisable(r)
			if _, err := buildDirect(true, []ruleD{d}, nil); err == nil {
				ds = append(ds, d)
			}
		}
		for j := 1 + r.Intn(5); j > 0; j-- {
			os = append(os, g.genOverride(r))
		}
		os = append(os, ruleO{js: true, kind: 'j', nval: int32(r.Intn(3))})
	}
	return
}

// sweepFamBase is the --only index of the first sweep-family case.
const sweepFamBase = 1000000

func runSweepFamily(run *hx.Run, root *hx.Rand) {
	n := run.N(900, 5000)
	compileErrs := 0
	for k := 0; k < n; k++ {
		if run.Only >= 0 && run.Only != sweepFamBase+k {
			continue
		}
		r := root.Fork(uint64(k))
		var img *builtImage
		if k%4 == 3 {
			img = genHandFieldOptionsImage(r, k/4)
		} else {
			var err error
			img, err = genSweepFamImage(r, k)
			if err != nil {
				compileErrs++
				run.Count("gen:sweepfam-compile-error")
				if compileErrs <= 3 {
					run.Set(fmt.Sprintf("sweepfam_compile_error_%d", compileErrs), err.Error())
				}
				continue
			}
		}
		run.Count("image:" + img.kind)
		ds, os, enabled, preserve, kind := genSweepFamCfg(r, k/4, img)
		cfg, err := buildDirect(enabled, ds, os)
		if err != nil {
			panic(err)
		}
		run.Count("cfg:" + kind)
		if k < 2 {
			src := ""
			if img.kind == "sweepfam" {
				src = "compiled"
			}
			run.Sample(map[string]any{"case": sweepFamBase + k, "image": img.kind, "config": kind, "source": src})
		}
		runCase(run, strconv.Itoa(sweepFamBase+k), img, cfg, preserve, kind)
	}
}
