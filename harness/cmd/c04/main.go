// Command c04 is the correspondence + oracle harness for property C04 ("compatible edits are
// not reported"; category hierarchy of the breaking-change detector).
//
// Section A (jobs 0..nChains-1): a generated schema S0 and a chain S0 -> S1 -> .. -> Sk of
// additive edits (new files / messages / enums / services / RPCs / oneofs / fields / enum
// values not at the head / reserved ranges and names / extension ranges / extensions) and
// cosmetic edits (comments, whitespace, layout, declaration order, explicit proto2 syntax
// line).  Every (later, earlier) pair, self pairs and re-rendered copies go through the REAL
// bufcheck.Client.Breaking for buf.yaml v1beta1 / v1 / v2 x FILE / PACKAGE / WIRE_JSON / WIRE.
// Oracle: no annotation at all.  The `pair` lines tie the Lean model to the implementation.
//
// Section B (hierarchy): arbitrary pairs (1-3 random breaking edits mixed with additive ones);
// oracle per version: FILE clean => PACKAGE clean => WIRE_JSON clean => WIRE clean.  A fifth of
// the pairs also get a `rules` line (single-rule configurations).
//
// Section C (probe, not an oracle): a new FIRST value of a closed enum used as a field type
// without explicit default; the rule ids reported for v2/FILE are recorded in stats.json under
// extra.head_insert_enum_value_reports.
//
// Section D (large images): bufprotosource.NewFiles converts the files of an image in parallel
// CHUNKS of len/thread.Parallelism() files once a chunk would hold >= 8 files, and whatever does
// not fill a chunk goes into a remainder chunk.  The jobs of this section run in their own phases
// under thread.SetParallelism(2) and (3) (restored afterwards): a schema of n0 = k*P files
// (16..27) and an additive chain that adds files one by one (n0+1, n0+2: non-multiples of P, so a
// remainder chunk exists) and edits inside existing files; the images are handed over in a
// PERMUTED Files() order.  Every later version against every earlier one and self pairs must be
// clean under all categories x versions; the reversed pairs (the big image with MORE files on the
// against side: files deleted) and one pair with a planted breaking edit must respect
// FILE >= PACKAGE >= WIRE_JSON >= WIRE; every pair is a `pair` line for the Lean model.
package main

import (
	"fmt"
	"sort"

	"github.com/bufbuild/buf/private/pkg/thread"
	"github.com/bufbuild/verifharness/internal/hx"
	sg "github.com/bufbuild/verifharness/internal/schemagen"
)

type step struct {
	st   sg.State
	op   string
	kind int
	comp *sg.Compiled
}

func replay(run *hx.Run, i int) string {
	return fmt.Sprintf("go run ./cmd/c04 --out /tmp/c04-replay --seed %d --tier %s --only %d", run.Seed, run.Tier, i)
}

func input(cur, prev *sg.Compiled, note string) map[string]any {
	return map[string]any{"current": cur.Sources, "previous": prev.Sources, "note": note}
}

// evalClean evaluates a pair that must be clean.
func evalClean(run *hx.Run, job int, res *sg.Result, rn *sg.Runner, cur, prev *sg.Compiled, class, note string, differ bool, r *hx.Rand) {
	pe := sg.EvalPair(rn, cur, prev, r.Chance(1, 8))
	if pe.Err != nil {
		res.Fail(hx.OracleFailure{Class: sg.ErrClass("C04", pe.Err), What: pe.ErrAt + ": " + pe.Err.Error(), Input: input(cur, prev, note), Replay: replay(run, job)})
		return
	}
	if pe.Mismatch != "" {
		res.Fail(hx.OracleFailure{Class: "C04-except-not-a-filter", What: pe.Mismatch, Input: input(cur, prev, note), Replay: replay(run, job)})
	}
	res.Cases = append(res.Cases, sg.Case{In: pe.In, Out: pe.Out, Nontrivial: differ || pe.Total > 0, Note: note, Cur: cur.Sources, Prev: prev.Sources})
	var all []sg.Ann
	for _, as := range pe.Sets {
		all = append(all, as...)
	}
	// one more run per version with all four categories at once and no except
	for _, v := range sg.Versions {
		as, err := rn.Run(v.V, sg.Categories, nil, cur, prev, pe.Idx)
		if err != nil {
			res.Fail(hx.OracleFailure{Class: sg.ErrClass("C04", err), What: v.Name + "/ALL: " + err.Error(), Input: input(cur, prev, note), Replay: replay(run, job)})
			return
		}
		all = append(all, as...)
	}
	res.Count("pairs:" + class)
	if len(all) == 0 {
		res.Count("pairs:clean")
		return
	}
	res.Count("pairs:non-clean")
	res.Fail(hx.OracleFailure{Class: class, What: fmt.Sprint(dedupe(sg.AnnStrings(all))), Input: input(cur, prev, note), Replay: replay(run, job)})
}

func dedupe(xs []string) []string {
	sort.Strings(xs)
	var out []string
	for i, x := range xs {
		if i == 0 || x != xs[i-1] {
			out = append(out, x)
		}
	}
	return out
}

func chainJob(run *hx.Run, root *hx.Rand, i int, rn *sg.Runner) *sg.Result {
	res := sg.NewResult()
	r := root.Fork(uint64(i))
	cache := sg.NewCache()
	s0 := sg.Generate(r)
	sg.CountSchema(res, s0)
	k0 := sg.PlainKnobs
	if r.Bool() {
		k0 = sg.RandKnobs(r)
	}
	chain := []step{{st: sg.State{S: s0, K: k0}}}
	c0, err := cache.Compile(chain[0].st.Sources())
	if err != nil {
		res.Count("gen:compile-error")
		res.Samples = append(res.Samples, map[string]any{"gen-compile-error": err.Error(), "sources": chain[0].st.Sources()})
		return res
	}
	res.Count("gen:ok")
	chain[0].comp = c0
	k := 2 + r.Intn(3)
	for j := 1; j <= k; j++ {
		prev := chain[len(chain)-1]
		var nx step
		if r.Chance(3, 10) {
			st, name := sg.ApplyCosmetic(prev.st, r)
			nx = step{st: st, op: name, kind: sg.Cosmetic}
		} else {
			s, op, _, _, ok := sg.ApplyRandom(prev.st.S, sg.AdditiveOps, r)
			if !ok {
				res.Count("edit:none-applicable")
				continue
			}
			nx = step{st: sg.State{S: s, K: prev.st.K}, op: op.Name, kind: sg.Additive}
			if r.Chance(1, 4) {
				nx.st.K = sg.RandKnobs(r)
			}
		}
		comp, err := cache.Compile(nx.st.Sources())
		if err != nil {
			res.Count("edit:compile-error:" + nx.op)
			res.Samples = append(res.Samples, map[string]any{"edit-compile-error": err.Error(), "op": nx.op, "sources": nx.st.Sources()})
			continue
		}
		nx.comp = comp
		res.Count("op:" + nx.op)
		chain = append(chain, nx)
	}
	res.Count(fmt.Sprintf("chain-length:%d", len(chain)-1))
	for hi := 1; hi < len(chain); hi++ {
		for lo := 0; lo < hi; lo++ {
			class, note := "C04-cosmetic-not-clean", ""
			for x := lo + 1; x <= hi; x++ {
				note += chain[x].op + " "
				if chain[x].kind == sg.Additive {
					class = "C04-additive-not-clean"
				}
			}
			evalClean(run, i, res, rn, chain[hi].comp, chain[lo].comp, class, note, true, r)
		}
	}
	// a self pair and a re-rendered copy
	j := r.Intn(len(chain))
	evalClean(run, i, res, rn, chain[j].comp, chain[j].comp, "C04-self-not-clean", "self", false, r)
	j = r.Intn(len(chain))
	re := sg.State{S: chain[j].st.S, K: sg.RandKnobs(r)}
	if comp, err := cache.Compile(re.Sources()); err != nil {
		res.Count("edit:compile-error:Rerender")
		res.Samples = append(res.Samples, map[string]any{"edit-compile-error": err.Error(), "op": "Rerender", "sources": re.Sources()})
	} else {
		res.Count("op:Rerender")
		evalClean(run, i, res, rn, comp, chain[j].comp, "C04-cosmetic-not-clean", "Rerender", true, r)
	}
	return res
}

var strictOrder = sg.Categories // FILE, PACKAGE, WIRE_JSON, WIRE

func hierarchyJob(run *hx.Run, root *hx.Rand, i int, rn *sg.Runner) *sg.Result {
	res := sg.NewResult()
	r := root.Fork(uint64(i))
	cache := sg.NewCache()
	base := sg.State{S: sg.Generate(r), K: sg.RandKnobs(r)}
	prev, err := cache.Compile(base.Sources())
	if err != nil {
		res.Count("gen:compile-error")
		return res
	}
	res.Count("gen:ok")
	sg.CountSchema(res, base.S)
	cur := base.S
	nb := 1 + r.Intn(3)
	note := ""
	for b := 0; b < nb; b++ {
		if r.Chance(1, 3) {
			if s, op, _, _, ok := sg.ApplyRandom(cur, sg.AdditiveOps, r); ok {
				cur = s
				note += op.Name + " "
				res.Count("op:" + op.Name)
			}
		}
		if s, op, _, _, ok := sg.ApplyRandom(cur, sg.BreakingOps, r); ok {
			cur = s
			note += op.Name + " "
			res.Count("op:" + op.Name)
		}
	}
	curState := sg.State{S: cur, K: base.K}
	if r.Bool() {
		curState.K = sg.RandKnobs(r)
	}
	cc, err := cache.Compile(curState.Sources())
	if err != nil {
		res.Count("edit:compile-error:hierarchy")
		res.Samples = append(res.Samples, map[string]any{"edit-compile-error": err.Error(), "ops": note, "sources": curState.Sources()})
		return res
	}
	pe := sg.EvalPair(rn, cc, prev, r.Chance(1, 8))
	if pe.Err != nil {
		res.Fail(hx.OracleFailure{Class: sg.ErrClass("C04", pe.Err), What: pe.ErrAt + ": " + pe.Err.Error(), Input: input(cc, prev, note), Replay: replay(run, i)})
		return res
	}
	if pe.Mismatch != "" {
		res.Fail(hx.OracleFailure{Class: "C04-except-not-a-filter", What: pe.Mismatch, Input: input(cc, prev, note), Replay: replay(run, i)})
	}
	res.Cases = append(res.Cases, sg.Case{In: pe.In, Out: pe.Out, Nontrivial: true, Note: note, Cur: cc.Sources, Prev: prev.Sources})
	res.Count("pairs:hierarchy")
	if pe.Total == 0 {
		res.Count("pairs:clean")
	} else {
		res.Count("pairs:non-clean")
	}
	fired := map[string]bool{}
	for _, v := range sg.Versions {
		for ci, cat := range strictOrder {
			as := pe.Sets[v.Name+"/"+cat]
			res.Count("anns:" + cat + ":" + sg.AnnBucket(len(as)))
			for _, a := range as {
				fired[a.Rule] = true
			}
			if ci == 0 {
				continue
			}
			strict := strictOrder[ci-1]
			if len(pe.Sets[v.Name+"/"+strict]) == 0 && len(as) > 0 {
				res.Fail(hx.OracleFailure{Class: "C04-hierarchy-" + v.Name + "-" + strict + "-" + cat,
					What:  fmt.Sprintf("%s clean but %s reports %v", strict, cat, sg.AnnStrings(as)),
					Input: input(cc, prev, note), Replay: replay(run, i)})
			}
		}
	}
	if r.Chance(1, 5) {
		v2 := sg.RuleCats["v2"]
		var pool, firedIDs []string
		for id := range v2 {
			if sg.IsUnmodelled(id) {
				continue
			}
			pool = append(pool, id)
			if fired[id] {
				firedIDs = append(firedIDs, id)
			}
		}
		sort.Strings(pool)
		sort.Strings(firedIDs)
		n := 3 + r.Intn(4)
		pick := map[string]bool{}
		for len(pick) < n {
			if len(firedIDs) > 0 && r.Chance(2, 3) {
				pick[hx.Pick(r, firedIDs)] = true
				if len(pick) >= len(firedIDs) {
					firedIDs = nil
				}
			} else {
				pick[hx.Pick(r, pool)] = true
			}
		}
		var ids []string
		for id := range pick {
			ids = append(ids, id)
		}
		sort.Strings(ids)
		in, out, _, err := sg.RulesLine(rn, ids, cc, prev, pe.Idx)
		if err != nil {
			res.Fail(hx.OracleFailure{Class: sg.ErrClass("C04", err), What: "single-rule: " + err.Error(), Input: input(cc, prev, note), Replay: replay(run, i)})
		} else {
			res.Cases = append(res.Cases, sg.Case{In: in, Out: out, Nontrivial: true, Note: "rules " + note, Cur: cc.Sources, Prev: prev.Sources})
			res.Count("lines:rules")
		}
	}
	return res
}

// checkHierarchy: per version, a stricter category that is clean implies the next laxer one is.
func checkHierarchy(run *hx.Run, job int, res *sg.Result, pe *sg.PairEval, cur, prev *sg.Compiled, note string) {
	for _, v := range sg.Versions {
		for ci := 1; ci < len(strictOrder); ci++ {
			strict, cat := strictOrder[ci-1], strictOrder[ci]
			as := pe.Sets[v.Name+"/"+cat]
			if len(pe.Sets[v.Name+"/"+strict]) == 0 && len(as) > 0 {
				res.Fail(hx.OracleFailure{Class: "C04-hierarchy-" + v.Name + "-" + strict + "-" + cat,
					What:  fmt.Sprintf("%s clean but %s reports %v", strict, cat, sg.AnnStrings(as)),
					Input: input(cur, prev, note), Replay: replay(run, job)})
			}
		}
	}
}

// evalAny evaluates a pair that need not be clean: correspondence line + hierarchy oracle.
func evalAny(run *hx.Run, job int, res *sg.Result, rn *sg.Runner, cur, prev *sg.Compiled, class, note string) {
	pe := sg.EvalPair(rn, cur, prev, false)
	if pe.Err != nil {
		res.Fail(hx.OracleFailure{Class: sg.ErrClass("C04", pe.Err), What: pe.ErrAt + ": " + pe.Err.Error(), Input: input(cur, prev, note), Replay: replay(run, job)})
		return
	}
	res.Cases = append(res.Cases, sg.Case{In: pe.In, Out: pe.Out, Nontrivial: true, Note: note, Cur: cur.Sources, Prev: prev.Sources})
	res.Count("pairs:" + class)
	if pe.Total == 0 {
		res.Count("pairs:clean")
	} else {
		res.Count("pairs:non-clean")
	}
	checkHierarchy(run, job, res, pe, cur, prev, note)
}

// bigSizes: (parallelism, initial number of files): n0 is a multiple of P with n0/P >= 8, so
// NewFiles takes the chunked path with chunks of exactly n0/P files and no remainder; n0+1 and
// n0+2 leave a remainder chunk.
func bigSize(p int, r *hx.Rand) int {
	if p == 2 {
		return hx.Pick(r, []int{16, 16, 18, 20})
	}
	return hx.Pick(r, []int{24, 24, 27})
}

func bigJob(run *hx.Run, root *hx.Rand, i int, p int, rn *sg.Runner) *sg.Result {
	res := sg.NewResult()
	r := root.Fork(uint64(i))
	if got := thread.Parallelism(); got != p {
		res.Fail(hx.OracleFailure{Class: "harness-parallelism", What: fmt.Sprintf("thread.Parallelism() = %d, want %d", got, p), Replay: replay(run, i)})
		return res
	}
	n0 := bigSize(p, r)
	cache := sg.NewCache()
	var addFile *sg.Op
	for _, op := range sg.AdditiveOps {
		if op.Name == "AddFile" {
			addFile = op
		}
	}
	type ver struct {
		s    *sg.Schema
		comp *sg.Compiled
		op   string
	}
	compile := func(s *sg.Schema, k sg.Knobs) *sg.Compiled {
		c, err := cache.Compile(sg.Render(s, k))
		if err != nil {
			res.Count("big:compile-error")
			res.Samples = append(res.Samples, map[string]any{"big-compile-error": err.Error()})
			return nil
		}
		// hand the image over in a permuted Files() order (half of the time)
		if r.Bool() {
			if rc, err := c.Reordered(r); err == nil {
				res.Count("big:files-order-permuted")
				return rc
			}
			res.Count("big:reorder-error")
		}
		return c
	}
	k := sg.PlainKnobs
	s0 := sg.GenerateBig(r, n0)
	c0 := compile(s0, k)
	if c0 == nil {
		return res
	}
	chain := []ver{{s0, c0, ""}}
	// two file additions (n0+1, n0+2), with an edit inside an existing file in between
	for _, what := range []string{"file", "inner", "file"} {
		cur := chain[len(chain)-1].s
		var nx *sg.Schema
		name := "AddFile"
		if what == "file" {
			c := cur.Clone()
			if _, ok := addFile.Apply(c, sg.Site{}, r); !ok {
				continue
			}
			nx = c
		} else {
			s, op, _, _, ok := sg.ApplyRandom(cur, sg.AdditiveOps, r)
			if !ok {
				continue
			}
			nx, name = s, op.Name
		}
		comp := compile(nx, k)
		if comp == nil {
			continue
		}
		res.Count("op:" + name)
		chain = append(chain, ver{nx, comp, name})
	}
	for _, v := range chain {
		n := len(v.s.Files)
		res.Count(fmt.Sprintf("big:P=%d:files=%d:chunk=%d:remainder=%d", p, n, n/p, n%(n/p)))
	}
	for hi := 1; hi < len(chain); hi++ {
		for lo := 0; lo < hi; lo++ {
			note := fmt.Sprintf("big P=%d %d->%d files: ", p, len(chain[lo].s.Files), len(chain[hi].s.Files))
			for x := lo + 1; x <= hi; x++ {
				note += chain[x].op + " "
			}
			evalClean(run, i, res, rn, chain[hi].comp, chain[lo].comp, "C04-additive-not-clean", note, true, r)
		}
	}
	// self pairs: the longest version (remainder chunk on both sides) and the first
	last := chain[len(chain)-1]
	evalClean(run, i, res, rn, last.comp, last.comp, "C04-self-not-clean", fmt.Sprintf("big P=%d self %d files", p, len(last.s.Files)), false, r)
	if rc, err := last.comp.Reordered(r); err == nil {
		evalClean(run, i, res, rn, rc, last.comp, "C04-self-not-clean", fmt.Sprintf("big P=%d self, other Files() order", p), false, r)
	}
	// reversed: the bigger image on the against side (files deleted): hierarchy only
	evalAny(run, i, res, rn, chain[0].comp, last.comp, "big-reversed", fmt.Sprintf("big P=%d reversed %d->%d files", p, len(last.s.Files), len(chain[0].s.Files)))
	// a planted breaking edit somewhere in the big schema: hierarchy + correspondence
	if s, op, _, _, ok := sg.ApplyRandom(last.s, sg.BreakingOps, r); ok {
		if comp := compile(s, k); comp != nil {
			res.Count("op:" + op.Name)
			evalAny(run, i, res, rn, comp, chain[0].comp, "big-breaking", fmt.Sprintf("big P=%d breaking %s", p, op.Name))
		}
	}
	return res
}

func probeJob(run *hx.Run, root *hx.Rand, i int, rn *sg.Runner) *sg.Result {
	res := sg.NewResult()
	r := root.Fork(uint64(i))
	var probe *sg.Op
	for _, op := range sg.AdditiveOps {
		if op.Name == "AddEnumValueFirst" {
			probe = op
		}
	}
	var s *sg.Schema
	var sites []sg.Site
	for try := 0; try < 8 && len(sites) == 0; try++ {
		s = sg.Generate(r)
		sites = probe.Sites(s)
	}
	if len(sites) == 0 {
		res.Count("probe:no-site")
		return res
	}
	c := s.Clone()
	if _, ok := probe.Apply(c, hx.Pick(r, sites), r); !ok {
		return res
	}
	prev, err1 := sg.Compile(sg.Render(s, sg.PlainKnobs))
	cur, err2 := sg.Compile(sg.Render(c, sg.PlainKnobs))
	if err1 != nil || err2 != nil {
		res.Count("probe:compile-error")
		return res
	}
	idx, err := rn.Paths(cur, prev)
	if err != nil {
		return res
	}
	as, err := rn.Run(sg.Versions[2].V, []string{"FILE"}, nil, cur, prev, idx)
	if err != nil {
		res.Fail(hx.OracleFailure{Class: sg.ErrClass("C04", err), What: "probe: " + err.Error(), Input: input(cur, prev, "AddEnumValueFirst"), Replay: replay(run, i)})
		return res
	}
	res.Evals++
	res.Count("probe:applied")
	res.Sets["head_insert_enum_value_reports"] = []string{}
	if len(as) == 0 {
		res.Count("probe:clean")
		res.Sets["head_insert_enum_value_reports"] = append(res.Sets["head_insert_enum_value_reports"], "(none)")
	}
	for _, a := range as {
		res.Sets["head_insert_enum_value_reports"] = append(res.Sets["head_insert_enum_value_reports"], a.Rule)
	}
	return res
}

func main() {
	run := hx.Start("C04")
	// probe once, before the parallel jobs: which model dispatch matches this tree
	run.Set("tree_has_package_last_element_fix", sg.TreeHasPackageFix())
	root := hx.NewRand(run.Seed)
	nChains := run.N(130, 1000)
	nHier := run.N(230, 1700)
	nProbe := run.N(40, 300)
	nBig := run.N(5, 30) // per parallelism value; thorough in.txt stays < 200 MB
	nSmall := nChains + nHier + nProbe
	saved := thread.Parallelism()
	phases := []sg.Phase{
		{N: nSmall},
		{N: nBig, Enter: func() { thread.SetParallelism(2) }, Leave: func() { thread.SetParallelism(saved) }},
		{N: nBig, Enter: func() { thread.SetParallelism(3) }, Leave: func() { thread.SetParallelism(saved) }},
	}
	sets := sg.RunJobsPhases(run, phases, func(i int, rn *sg.Runner) *sg.Result {
		switch {
		case i < nChains:
			return chainJob(run, root.Fork(1), i, rn)
		case i < nChains+nHier:
			return hierarchyJob(run, root.Fork(2), i, rn)
		case i < nSmall:
			return probeJob(run, root.Fork(3), i, rn)
		case i < nSmall+nBig:
			return bigJob(run, root.Fork(4), i, 2, rn)
		}
		return bigJob(run, root.Fork(4), i, 3, rn)
	})
	if got := thread.Parallelism(); got != saved {
		panic(fmt.Sprintf("thread.Parallelism() not restored: %d != %d", got, saved))
	}
	for k, v := range sets {
		run.Set(k, v)
	}
	run.Finish()
}
