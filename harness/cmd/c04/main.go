// Command c04 is the correspondence + oracle harness for property C04 ("compatible edits are
// not reported"; category hierarchy of the breaking-change detector).
//
// Section A (jobs 0..nChains-1): a generated schema S0 and a chain S0 -> S1 -> .. -> Sk of
// additive edits (new files / messages / enums / services / RPCs / oneofs / fields / enum
// values not at the head / reserved ranges and names / extension ranges / extensions) and
// cosmetic edits (comments, whitespace, layout, declaration order, explicit proto2 syntax
// line).  Every (later, earlier) pair, self pairs and re-rendered copies go through the REAL
// bufcheck.Client.Breaking for buf.yaml v1beta1 / v1 / v2 x FILE / PACKAGE / WIRE_JSON / WIRE.
// Oracle: no annotation at all.  The `pair` lines tie the Lean model to the implementation.
//
// Section B (hierarchy): arbitrary pairs (1-3 random breaking edits mixed with additive ones);
// oracle per version: FILE clean => PACKAGE clean => WIRE_JSON clean => WIRE clean.  A fifth of
// the pairs also get a `rules` line (single-rule configurations).
//
// Section C (probe, not an oracle): a new FIRST value of a closed enum used as a field type
// without explicit default; the rule ids reported for v2/FILE are recorded in stats.json under
// extra.head_insert_enum_value_reports.
package main

import (
	"fmt"
	"sort"

	"github.com/bufbuild/verifharness/internal/hx"
	sg "github.com/bufbuild/verifharness/internal/schemagen"
)

type step struct {
	st   sg.State
	op   string
	kind int
	comp *sg.Compiled
}

func replay(run *hx.Run, i int) string {
	return fmt.Sprintf("go run ./cmd/c04 --out /tmp/c04-replay --seed %d --tier %s --only %d", run.Seed, run.Tier, i)
}

func input(cur, prev *sg.Compiled, note string) map[string]any {
	return map[string]any{"current": cur.Sources, "previous": prev.Sources, "note": note}
}

// evalClean evaluates a pair that must be clean.
func evalClean(run *hx.Run, job int, res *sg.Result, rn *sg.Runner, cur, prev *sg.Compiled, class, note string, differ bool, r *hx.Rand) {
	pe := sg.EvalPair(rn, cur, prev, r.Chance(1, 8))
	if pe.Err != nil {
		res.Fail(hx.OracleFailure{Class: sg.ErrClass("C04", pe.Err), What: pe.ErrAt + ": " + pe.Err.Error(), Input: input(cur, prev, note), Replay: replay(run, job)})
		return
	}
	if pe.Mismatch != "" {
		res.Fail(hx.OracleFailure{Class: "C04-except-not-a-filter", What: pe.Mismatch, Input: input(cur, prev, note), Replay: replay(run, job)})
	}
	res.Cases = append(res.Cases, sg.Case{In: pe.In, Out: pe.Out, Nontrivial: differ || pe.Total > 0, Note: note, Cur: cur.Sources, Prev: prev.Sources})
	var all []sg.Ann
	for _, as := range pe.Sets {
		all = append(all, as...)
	}
	// one more run per version with all four categories at once and no except
	for _, v := range sg.Versions {
		as, err := rn.Run(v.V, sg.Categories, nil, cur, prev, pe.Idx)
		if err != nil {
			res.Fail(hx.OracleFailure{Class: sg.ErrClass("C04", err), What: v.Name + "/ALL: " + err.Error(), Input: input(cur, prev, note), Replay: replay(run, job)})
			return
		}
		all = append(all, as...)
	}
	res.Count("pairs:" + class)
	if len(all) == 0 {
		res.Count("pairs:clean")
		return
	}
	res.Count("pairs:non-clean")
	res.Fail(hx.OracleFailure{Class: class, What: fmt.Sprint(dedupe(sg.AnnStrings(all))), Input: input(cur, prev, note), Replay: replay(run, job)})
}

func dedupe(xs []string) []string {
	sort.Strings(xs)
	var out []string
	for i, x := range xs {
		if i == 0 || x != xs[i-1] {
			out = append(out, x)
		}
	}
	return out
}

func chainJob(run *hx.Run, root *hx.Rand, i int, rn *sg.Runner) *sg.Result {
	res := sg.NewResult()
	r := root.Fork(uint64(i))
	cache := sg.NewCache()
	s0 := sg.Generate(r)
	sg.CountSchema(res, s0)
	k0 := sg.PlainKnobs
	if r.Bool() {
		k0 = sg.RandKnobs(r)
	}
	chain := []step{{st: sg.State{S: s0, K: k0}}}
	c0, err := cache.Compile(chain[0].st.Sources())
	if err != nil {
		res.Count("gen:compile-error")
		res.Samples = append(res.Samples, map[string]any{"gen-compile-error": err.Error(), "sources": chain[0].st.Sources()})
		return res
	}
	res.Count("gen:ok")
	chain[0].comp = c0
	k := 2 + r.Intn(3)
	for j := 1; j <= k; j++ {
		prev := chain[len(chain)-1]
		var nx step
		if r.Chance(3, 10) {
			st, name := sg.ApplyCosmetic(prev.st, r)
			nx = step{st: st, op: name, kind: sg.Cosmetic}
		} else {
			s, op, _, _, ok := sg.ApplyRandom(prev.st.S, sg.AdditiveOps, r)
			if !ok {
				res.Count("edit:none-applicable")
				continue
			}
			nx = step{st: sg.State{S: s, K: prev.st.K}, op: op.Name, kind: sg.Additive}
			if r.Chance(1, 4) {
				nx.st.K = sg.RandKnobs(r)
			}
		}
		comp, err := cache.Compile(nx.st.Sources())
		if err != nil {
			res.Count("edit:compile-error:" + nx.op)
			res.Samples = append(res.Samples, map[string]any{"edit-compile-error": err.Error(), "op": nx.op, "sources": nx.st.Sources()})
			continue
		}
		nx.comp = comp
		res.Count("op:" + nx.op)
		chain = append(chain, nx)
	}
	res.Count(fmt.Sprintf("chain-length:%d", len(chain)-1))
	for hi := 1; hi < len(chain); hi++ {
		for lo := 0; lo < hi; lo++ {
			class, note := "C04-cosmetic-not-clean", ""
			for x := lo + 1; x <= hi; x++ {
				note += chain[x].op + " "
				if chain[x].kind == sg.Additive {
					class = "C04-additive-not-clean"
				}
			}
			evalClean(run, i, res, rn, chain[hi].comp, chain[lo].comp, class, note, true, r)
		}
	}
	// a self pair and a re-rendered copy
	j := r.Intn(len(chain))
	evalClean(run, i, res, rn, chain[j].comp, chain[j].comp, "C04-self-not-clean", "self", false, r)
	j = r.Intn(len(chain))
	re := sg.State{S: chain[j].st.S, K: sg.RandKnobs(r)}
	if comp, err := cache.Compile(re.Sources()); err != nil {
		res.Count("edit:compile-error:Rerender")
		res.Samples = append(res.Samples, map[string]any{"edit-compile-error": err.Error(), "op": "Rerender", "sources": re.Sources()})
	} else {
		res.Count("op:Rerender")
		evalClean(run, i, res, rn, comp, chain[j].comp, "C04-cosmetic-not-clean", "Rerender", true, r)
	}
	return res
}

var strictOrder = sg.Categories // FILE, PACKAGE, WIRE_JSON, WIRE

func hierarchyJob(run *hx.Run, root *hx.Rand, i int, rn *sg.Runner) *sg.Result {
	res := sg.NewResult()
	r := root.Fork(uint64(i))
	cache := sg.NewCache()
	base := sg.State{S: sg.Generate(r), K: sg.RandKnobs(r)}
	prev, err := cache.Compile(base.Sources())
	if err != nil {
		res.Count("gen:compile-error")
		return res
	}
	res.Count("gen:ok")
	sg.CountSchema(res, base.S)
	cur := base.S
	nb := 1 + r.Intn(3)
	note := ""
	for b := 0; b < nb; b++ {
		if r.Chance(1, 3) {
			if s, op, _, _, ok := sg.ApplyRandom(cur, sg.AdditiveOps, r); ok {
				cur = s
				note += op.Name + " "
				res.Count("op:" + op.Name)
			}
		}
		if s, op, _, _, ok := sg.ApplyRandom(cur, sg.BreakingOps, r); ok {
			cur = s
			note += op.Name + " "
			res.Count("op:" + op.Name)
		}
	}
	curState := sg.State{S: cur, K: base.K}
	if r.Bool() {
		curState.K = sg.RandKnobs(r)
	}
	cc, err := cache.Compile(curState.Sources())
	if err != nil {
		res.Count("edit:compile-error:hierarchy")
		res.Samples = append(res.Samples, map[string]any{"edit-compile-error": err.Error(), "ops": note, "sources": curState.Sources()})
		return res
	}
	pe := sg.EvalPair(rn, cc, prev, r.Chance(1, 8))
	if pe.Err != nil {
		res.Fail(hx.OracleFailure{Class: sg.ErrClass("C04", pe.Err), What: pe.ErrAt + ": " + pe.Err.Error(), Input: input(cc, prev, note), Replay: replay(run, i)})
		return res
	}
	if pe.Mismatch != "" {
		res.Fail(hx.OracleFailure{Class: "C04-except-not-a-filter", What: pe.Mismatch, Input: input(cc, prev, note), Replay: replay(run, i)})
	}
	res.Cases = append(res.Cases, sg.Case{In: pe.In, Out: pe.Out, Nontrivial: true, Note: note, Cur: cc.Sources, Prev: prev.Sources})
	res.Count("pairs:hierarchy")
	if pe.Total == 0 {
		res.Count("pairs:clean")
	} else {
		res.Count("pairs:non-clean")
	}
	fired := map[string]bool{}
	for _, v := range sg.Versions {
		for ci, cat := range strictOrder {
			as := pe.Sets[v.Name+"/"+cat]
			res.Count("anns:" + cat + ":" + sg.AnnBucket(len(as)))
			for _, a := range as {
				fired[a.Rule] = true
			}
			if ci == 0 {
				continue
			}
			strict := strictOrder[ci-1]
			if len(pe.Sets[v.Name+"/"+strict]) == 0 && len(as) > 0 {
				res.Fail(hx.OracleFailure{Class: "C04-hierarchy-" + v.Name + "-" + strict + "-" + cat,
					What:  fmt.Sprintf("%s clean but %s reports %v", strict, cat, sg.AnnStrings(as)),
					Input: input(cc, prev, note), Replay: replay(run, i)})
			}
		}
	}
	if r.Chance(1, 5) {
		v2 := sg.RuleCats["v2"]
		var pool, firedIDs []string
		for id := range v2 {
			if sg.IsUnmodelled(id) {
				continue
			}
			pool = append(pool, id)
			if fired[id] {
				firedIDs = append(firedIDs, id)
			}
		}
		sort.Strings(pool)
		sort.Strings(firedIDs)
		n := 3 + r.Intn(4)
		pick := map[string]bool{}
		for len(pick) < n {
			if len(firedIDs) > 0 && r.Chance(2, 3) {
				pick[hx.Pick(r, firedIDs)] = true
				if len(pick) >= len(firedIDs) {
					firedIDs = nil
				}
			} else {
				pick[hx.Pick(r, pool)] = true
			}
		}
		var ids []string
		for id := range pick {
			ids = append(ids, id)
		}
		sort.Strings(ids)
		in, out, _, err := sg.RulesLine(rn, ids, cc, prev, pe.Idx)
		if err != nil {
			res.Fail(hx.OracleFailure{Class: sg.ErrClass("C04", err), What: "single-rule: " + err.Error(), Input: input(cc, prev, note), Replay: replay(run, i)})
		} else {
			res.Cases = append(res.Cases, sg.Case{In: in, Out: out, Nontrivial: true, Note: "rules " + note, Cur: cc.Sources, Prev: prev.Sources})
			res.Count("lines:rules")
		}
	}
	return res
}

func probeJob(run *hx.Run, root *hx.Rand, i int, rn *sg.Runner) *sg.Result {
	res := sg.NewResult()
	r := root.Fork(uint64(i))
	var probe *sg.Op
	for _, op := range sg.AdditiveOps {
		if op.Name == "AddEnumValueFirst" {
			probe = op
		}
	}
	var s *sg.Schema
	var sites []sg.Site
	for try := 0; try < 8 && len(sites) == 0; try++ {
		s = sg.Generate(r)
		sites = probe.Sites(s)
	}
	if len(sites) == 0 {
		res.Count("probe:no-site")
		return res
	}
	c := s.Clone()
	if _, ok := probe.Apply(c, hx.Pick(r, sites), r); !ok {
		return res
	}
	prev, err1 := sg.Compile(sg.Render(s, sg.PlainKnobs))
	cur, err2 := sg.Compile(sg.Render(c, sg.PlainKnobs))
	if err1 != nil || err2 != nil {
		res.Count("probe:compile-error")
		return res
	}
	idx, err := rn.Paths(cur, prev)
	if err != nil {
		return res
	}
	as, err := rn.Run(sg.Versions[2].V, []string{"FILE"}, nil, cur, prev, idx)
	if err != nil {
		res.Fail(hx.OracleFailure{Class: sg.ErrClass("C04", err), What: "probe: " + err.Error(), Input: input(cur, prev, "AddEnumValueFirst"), Replay: replay(run, i)})
		return res
	}
	res.Evals++
	res.Count("probe:applied")
	res.Sets["head_insert_enum_value_reports"] = []string{}
	if len(as) == 0 {
		res.Count("probe:clean")
		res.Sets["head_insert_enum_value_reports"] = append(res.Sets["head_insert_enum_value_reports"], "(none)")
	}
	for _, a := range as {
		res.Sets["head_insert_enum_value_reports"] = append(res.Sets["head_insert_enum_value_reports"], a.Rule)
	}
	return res
}

func main() {
	run := hx.Start("C04")
	// probe once, before the parallel jobs: which model dispatch matches this tree
	run.Set("tree_has_package_last_element_fix", sg.TreeHasPackageFix())
	root := hx.NewRand(run.Seed)
	nChains := run.N(150, 1500)
	nHier := run.N(260, 2600)
	nProbe := run.N(40, 300)
	sets := sg.RunJobs(run, nChains+nHier+nProbe, func(i int, rn *sg.Runner) *sg.Result {
		switch {
		case i < nChains:
			return chainJob(run, root.Fork(1), i, rn)
		case i < nChains+nHier:
			return hierarchyJob(run, root.Fork(2), i, rn)
		}
		return probeJob(run, root.Fork(3), i, rn)
	})
	for k, v := range sets {
		run.Set(k, v)
	}
	run.Finish()
}
