// Command c04 is the correspondence + oracle harness for property C04 ("compatible edits are
// not reported"; category hierarchy of the breaking-change detector).
//
// Section A (jobs 0..nChains-1): a generated schema S0 and a chain S0 -> S1 -> .. -> Sk of
// additive edits (new files / messages / enums / services / RPCs / oneofs / fields / enum
// values not at the head / reserved ranges and names / extension ranges / extensions) and
// cosmetic edits (comments, whitespace, layout, declaration order, explicit proto2 syntax
// line).  Every (later, earlier) pair, self pairs and re-rendered copies go through the REAL
// bufcheck.Client.Breaking for buf.yaml v1beta1 / v1 / v2 x FILE / PACKAGE / WIRE_JSON / WIRE.
// Oracle: no annotation at all.  The `pair` lines tie the Lean model to the implementation.
//
// Section B (hierarchy): arbitrary pairs (1-3 random breaking edits mixed with additive ones);
// oracle per version: FILE clean => PACKAGE clean => WIRE_JSON clean => WIRE clean.  A fifth of
// the pairs also get a `rules` line (single-rule configurations).
//
// Section C (probe, not an oracle): a new FIRST value of a closed enum used as a field type
// without explicit default; the rule ids reported for v2/FILE are recorded in stats.json under
// extra.head_insert_enum_value_reports.
//
// Section D (large images): bufprotosource.NewFiles converts the files of an image in parallel
// CHUNKS of len/thread.Parallelism() files once a chunk would hold >= 8 files, and whatever does
// not fill a chunk goes into a remainder chunk.  The jobs of this section run in their own phases
// under thread.SetParallelism(2) and (3) (restored afterwards): a schema of n0 = k*P files
// (16..27) and an additive chain that adds files one by one (n0+1, n0+2: non-multiples of P, so a
// remainder chunk exists) and edits inside existing files; the images are handed over in a
// PERMUTED Files() order.  Every later version against every earlier one and self pairs must be
// clean under all categories x versions; the reversed pairs (the big image with MORE files on the
// against side: files deleted) and one pair with a planted breaking edit must respect
// FILE >= PACKAGE >= WIRE_JSON >= WIRE; every pair is a `pair` line for the Lean model.
//
// Section G (catalogue): the hierarchy clause on EVERY pair the C03 edit catalogue produces.  The
// stratified plan of the C03 harness (sg.MakePlan over the same bases from the same seed: every
// breaking-edit operator x every kind of element it applies to - field shapes x types incl.
// group / delimited / inherited-delimited, map, oneof member, extension; message depth classes;
// enum position x closedness x number of names - x every file syntax, alone or mixed with additive
// edits) is planted pair by pair; each pair is evaluated under FILE, PACKAGE, WIRE_JSON, WIRE x
// v1beta1 / v1 / v2.  Oracle per version and adjacent categories (stricter, laxer): (1) the
// property's clause - stricter clean => laxer clean; (2) per SUBJECT - every annotation of the
// laxer category is about an element (file + path of the innermost message / field / enum / enum
// value / service / RPC / oneof / extension, whatever the rule id and the attribute inside it)
// that the stricter category reports too.  A failure names the edit, its site and the
// annotations of all four categories.
package main

import (
	"fmt"
	"sort"
	"strconv"
	"strings"

	"github.com/bufbuild/buf/private/pkg/thread"
	"github.com/bufbuild/verifharness/internal/hx"
	sg "github.com/bufbuild/verifharness/internal/schemagen"
)

type step struct {
	st   sg.State
	op   string
	kind int
	comp *sg.Compiled
}

func replay(run *hx.Run, i int) string {
	return fmt.Sprintf("go run ./cmd/c04 --out /tmp/c04-replay --seed %d --tier %s --only %d", run.Seed, run.Tier, i)
}

func input(cur, prev *sg.Compiled, note string) map[string]any {
	return map[string]any{"current": cur.Sources, "previous": prev.Sources, "note": note}
}

// evalClean evaluates a pair that must be clean.
func evalClean(run *hx.Run, job int, res *sg.Result, rn *sg.Runner, cur, prev *sg.Compiled, class, note string, differ bool, r *hx.Rand) {
	pe := sg.EvalPair(rn, cur, prev, r.Chance(1, 8))
	if pe.Err != nil {
		res.Fail(hx.OracleFailure{Class: sg.ErrClass("C04", pe.Err), What: pe.ErrAt + ": " + pe.Err.Error(), Input: input(cur, prev, note), Replay: replay(run, job)})
		return
	}
	if pe.Mismatch != "" {
		res.Fail(hx.OracleFailure{Class: "C04-except-not-a-filter", What: pe.Mismatch, Input: input(cur, prev, note), Replay: replay(run, job)})
	}
	res.Cases = append(res.Cases, sg.Case{In: pe.In, Out: pe.Out, Nontrivial: differ || pe.Total > 0, Note: note, Cur: cur.Sources, Prev: prev.Sources})
	var all []sg.Ann
	for _, as := range pe.Sets {
		all = append(all, as...)
	}
	// one more run per version with all four categories at once and no except (every other pair)
	for _, v := range sg.Versions {
		if !r.Bool() {
			break
		}
		as, err := rn.Run(v.V, sg.Categories, nil, cur, prev, pe.Idx)
		if err != nil {
			res.Fail(hx.OracleFailure{Class: sg.ErrClass("C04", err), What: v.Name + "/ALL: " + err.Error(), Input: input(cur, prev, note), Replay: replay(run, job)})
			return
		}
		all = append(all, as...)
	}
	res.Count("pairs:" + class)
	if len(all) == 0 {
		res.Count("pairs:clean")
		return
	}
	res.Count("pairs:non-clean")
	res.Fail(hx.OracleFailure{Class: class, What: fmt.Sprint(dedupe(sg.AnnStrings(all))), Input: input(cur, prev, note), Replay: replay(run, job)})
}

func dedupe(xs []string) []string {
	sort.Strings(xs)
	var out []string
	for i, x := range xs {
		if i == 0 || x != xs[i-1] {
			out = append(out, x)
		}
	}
	return out
}

func chainJob(run *hx.Run, root *hx.Rand, i int, rn *sg.Runner) *sg.Result {
	res := sg.NewResult()
	r := root.Fork(uint64(i))
	cache := sg.NewCache()
	s0 := sg.Generate(r)
	sg.CountSchema(res, s0)
	k0 := sg.PlainKnobs
	if r.Bool() {
		k0 = sg.RandKnobs(r)
	}
	chain := []step{{st: sg.State{S: s0, K: k0}}}
	c0, err := cache.Compile(chain[0].st.Sources())
	if err != nil {
		res.Count("gen:compile-error")
		res.Samples = append(res.Samples, map[string]any{"gen-compile-error": err.Error(), "sources": chain[0].st.Sources()})
		return res
	}
	res.Count("gen:ok")
	chain[0].comp = c0
	k := 2 + r.Intn(3)
	for j := 1; j <= k; j++ {
		prev := chain[len(chain)-1]
		var nx step
		if r.Chance(3, 10) {
			st, name := sg.ApplyCosmetic(prev.st, r)
			nx = step{st: st, op: name, kind: sg.Cosmetic}
		} else {
			s, op, _, _, ok := sg.ApplyRandom(prev.st.S, sg.AdditiveOps, r)
			if !ok {
				res.Count("edit:none-applicable")
				continue
			}
			nx = step{st: sg.State{S: s, K: prev.st.K}, op: op.Name, kind: sg.Additive}
			if r.Chance(1, 4) {
				nx.st.K = sg.RandKnobs(r)
			}
		}
		comp, err := cache.Compile(nx.st.Sources())
		if err != nil {
			res.Count("edit:compile-error:" + nx.op)
			res.Samples = append(res.Samples, map[string]any{"edit-compile-error": err.Error(), "op": nx.op, "sources": nx.st.Sources()})
			continue
		}
		nx.comp = comp
		res.Count("op:" + nx.op)
		chain = append(chain, nx)
	}
	res.Count(fmt.Sprintf("chain-length:%d", len(chain)-1))
	for hi := 1; hi < len(chain); hi++ {
		for lo := 0; lo < hi; lo++ {
			class, note := "C04-cosmetic-not-clean", ""
			for x := lo + 1; x <= hi; x++ {
				note += chain[x].op + " "
				if chain[x].kind == sg.Additive {
					class = "C04-additive-not-clean"
				}
			}
			evalClean(run, i, res, rn, chain[hi].comp, chain[lo].comp, class, note, true, r)
		}
	}
	// a self pair and a re-rendered copy
	j := r.Intn(len(chain))
	evalClean(run, i, res, rn, chain[j].comp, chain[j].comp, "C04-self-not-clean", "self", false, r)
	j = r.Intn(len(chain))
	re := sg.State{S: chain[j].st.S, K: sg.RandKnobs(r)}
	if comp, err := cache.Compile(re.Sources()); err != nil {
		res.Count("edit:compile-error:Rerender")
		res.Samples = append(res.Samples, map[string]any{"edit-compile-error": err.Error(), "op": "Rerender", "sources": re.Sources()})
	} else {
		res.Count("op:Rerender")
		evalClean(run, i, res, rn, comp, chain[j].comp, "C04-cosmetic-not-clean", "Rerender", true, r)
	}
	return res
}

var strictOrder = sg.Categories // FILE, PACKAGE, WIRE_JSON, WIRE

func hierarchyJob(run *hx.Run, root *hx.Rand, i int, rn *sg.Runner) *sg.Result {
	res := sg.NewResult()
	r := root.Fork(uint64(i))
	cache := sg.NewCache()
	base := sg.State{S: sg.Generate(r), K: sg.RandKnobs(r)}
	prev, err := cache.Compile(base.Sources())
	if err != nil {
		res.Count("gen:compile-error")
		return res
	}
	res.Count("gen:ok")
	sg.CountSchema(res, base.S)
	cur := base.S
	nb := 1 + r.Intn(3)
	note := ""
	for b := 0; b < nb; b++ {
		if r.Chance(1, 3) {
			if s, op, _, _, ok := sg.ApplyRandom(cur, sg.AdditiveOps, r); ok {
				cur = s
				note += op.Name + " "
				res.Count("op:" + op.Name)
			}
		}
		if s, op, _, _, ok := sg.ApplyRandom(cur, sg.BreakingOps, r); ok {
			cur = s
			note += op.Name + " "
			res.Count("op:" + op.Name)
		}
	}
	curState := sg.State{S: cur, K: base.K}
	if r.Bool() {
		curState.K = sg.RandKnobs(r)
	}
	cc, err := cache.Compile(curState.Sources())
	if err != nil {
		res.Count("edit:compile-error:hierarchy")
		res.Samples = append(res.Samples, map[string]any{"edit-compile-error": err.Error(), "ops": note, "sources": curState.Sources()})
		return res
	}
	pe := sg.EvalPair(rn, cc, prev, r.Chance(1, 8))
	if pe.Err != nil {
		res.Fail(hx.OracleFailure{Class: sg.ErrClass("C04", pe.Err), What: pe.ErrAt + ": " + pe.Err.Error(), Input: input(cc, prev, note), Replay: replay(run, i)})
		return res
	}
	if pe.Mismatch != "" {
		res.Fail(hx.OracleFailure{Class: "C04-except-not-a-filter", What: pe.Mismatch, Input: input(cc, prev, note), Replay: replay(run, i)})
	}
	res.Cases = append(res.Cases, sg.Case{In: pe.In, Out: pe.Out, Nontrivial: true, Note: note, Cur: cc.Sources, Prev: prev.Sources})
	res.Count("pairs:hierarchy")
	if pe.Total == 0 {
		res.Count("pairs:clean")
	} else {
		res.Count("pairs:non-clean")
	}
	fired := map[string]bool{}
	for _, v := range sg.Versions {
		for _, cat := range strictOrder {
			as := pe.Sets[v.Name+"/"+cat]
			res.Count("anns:" + cat + ":" + sg.AnnBucket(len(as)))
			for _, a := range as {
				fired[a.Rule] = true
			}
		}
	}
	checkHierarchy(run, i, res, pe, cc, prev, note)
	if r.Chance(1, 5) {
		v2 := sg.RuleCats["v2"]
		var pool, firedIDs []string
		for id := range v2 {
			if sg.IsUnmodelled(id) {
				continue
			}
			pool = append(pool, id)
			if fired[id] {
				firedIDs = append(firedIDs, id)
			}
		}
		sort.Strings(pool)
		sort.Strings(firedIDs)
		n := 3 + r.Intn(4)
		pick := map[string]bool{}
		for len(pick) < n {
			if len(firedIDs) > 0 && r.Chance(2, 3) {
				pick[hx.Pick(r, firedIDs)] = true
				if len(pick) >= len(firedIDs) {
					firedIDs = nil
				}
			} else {
				pick[hx.Pick(r, pool)] = true
			}
		}
		var ids []string
		for id := range pick {
			ids = append(ids, id)
		}
		sort.Strings(ids)
		in, out, _, err := sg.RulesLine(rn, ids, cc, prev, pe.Idx)
		if err != nil {
			res.Fail(hx.OracleFailure{Class: sg.ErrClass("C04", err), What: "single-rule: " + err.Error(), Input: input(cc, prev, note), Replay: replay(run, i)})
		} else {
			res.Cases = append(res.Cases, sg.Case{In: in, Out: out, Nontrivial: true, Note: "rules " + note, Cur: cc.Sources, Prev: prev.Sources})
			res.Count("lines:rules")
		}
	}
	return res
}

// subjectOf is the rule-independent SUBJECT of an annotation: its file and the source path cut
// back to the innermost schema element (message / nested message / field / extension / oneof /
// enum / enum value / service / RPC).  What follows inside the element (name, type, type name,
// label, json_name, default, options ...) and file-level statements (package, syntax, options)
// are attributes: `4.0.2.1.5` (type of field 1 of message 0) and `4.0.2.1.6` (its type name) are
// about the same subject `4.0.2.1`; `2` (package statement) and no path at all are about the file.
func subjectOf(a sg.Ann) string {
	if a.File == "" {
		return "" // no file: a deleted file / package
	}
	var comps []int
	if a.Path != "" && a.Path != "-" {
		for _, c := range strings.Split(a.Path, ".") {
			n, err := strconv.Atoi(c)
			if err != nil {
				return a.File + ":"
			}
			comps = append(comps, n)
		}
	}
	// child tables: FileDescriptorProto, DescriptorProto, EnumDescriptorProto, ServiceDescriptorProto
	const (
		inFile = iota
		inMsg
		inEnum
		inSvc
		leaf
	)
	state, keep := inFile, 0
	for i := 0; i+1 < len(comps) && state != leaf; i += 2 {
		next := -1
		switch state {
		case inFile:
			switch comps[i] {
			case 4:
				next = inMsg
			case 5:
				next = inEnum
			case 6:
				next = inSvc
			case 7:
				next = leaf
			}
		case inMsg:
			switch comps[i] {
			case 3:
				next = inMsg
			case 4:
				next = inEnum
			case 2, 6, 8:
				next = leaf
			}
		case inEnum, inSvc:
			if comps[i] == 2 {
				next = leaf
			}
		}
		if next < 0 {
			break
		}
		state, keep = next, i+2
	}
	parts := make([]string, keep)
	for i := 0; i < keep; i++ {
		parts[i] = strconv.Itoa(comps[i])
	}
	return a.File + ":" + strings.Join(parts, ".")
}

// covered: the stricter category reports about the subject itself or about an element (or the
// file) that CONTAINS it: a changed package statement is about everything in the file, a message
// annotation about everything inside the message.
func covered(have map[string]bool, subject string) bool {
	if have[subject] {
		return true
	}
	file, path, ok := strings.Cut(subject, ":")
	if !ok {
		return false
	}
	comps := strings.Split(path, ".")
	for n := len(comps) - 2; n >= 0; n -= 2 {
		if have[file+":"+strings.Join(comps[:n], ".")] {
			return true
		}
	}
	return false
}

func catSummary(pe *sg.PairEval, ver string) string {
	var sb strings.Builder
	for _, cat := range strictOrder {
		fmt.Fprintf(&sb, "%s=%v ", cat, dedupe(sg.AnnStrings(pe.Sets[ver+"/"+cat])))
	}
	return strings.TrimSpace(sb.String())
}

// checkHierarchy: per version and adjacent categories (stricter, laxer):
//  1. a stricter category that is clean implies the laxer one is (class C04-hierarchy-<v>-<S>-<L>);
//  2. every annotation of the laxer category is about a subject the stricter category reports
//     too - the same element or one that contains it (class C04-hierarchy-subject-<v>-<S>-<L>).  An annotation without file (deleted file /
//     package) is comparable with everything of the other side that has no file either or - a
//     file-level fact - sits at a file as a whole.
func checkHierarchy(run *hx.Run, job int, res *sg.Result, pe *sg.PairEval, cur, prev *sg.Compiled, note string) {
	for _, v := range sg.Versions {
		for ci := 1; ci < len(strictOrder); ci++ {
			strict, cat := strictOrder[ci-1], strictOrder[ci]
			as, ran := pe.Sets[v.Name+"/"+cat]
			ss := pe.Sets[v.Name+"/"+strict]
			if !ran {
				continue // this version was not evaluated for the pair
			}
			res.Count("hierarchy:checked:" + v.Name)
			if len(ss) == 0 && len(as) > 0 {
				in := input(cur, prev, note)
				in["categories"] = catSummary(pe, v.Name)
				res.Fail(hx.OracleFailure{Class: "C04-hierarchy-" + v.Name + "-" + strict + "-" + cat,
					What:  fmt.Sprintf("%s: %s clean but %s reports %v", note, strict, cat, sg.AnnStrings(as)),
					Input: in, Replay: replay(run, job)})
				continue
			}
			have := map[string]bool{}
			fileLevel := false
			for _, b := range ss {
				sb := subjectOf(b)
				have[sb] = true
				if sb == "" || strings.HasSuffix(sb, ":") {
					fileLevel = true
				}
			}
			for _, a := range as {
				sa := subjectOf(a)
				if covered(have, sa) || (sa == "" && fileLevel) {
					res.Count("hierarchy:subject-ok")
					continue
				}
				in := input(cur, prev, note)
				in["categories"] = catSummary(pe, v.Name)
				res.Fail(hx.OracleFailure{Class: "C04-hierarchy-subject-" + v.Name + "-" + strict + "-" + cat,
					What: fmt.Sprintf("%s: %s reports %v but %s reports nothing about that element (subject %q); %s reports %v",
						note, cat, sg.AnnStrings([]sg.Ann{a}), strict, sa, strict, dedupe(sg.AnnStrings(ss))),
					Input: in, Replay: replay(run, job)})
				break
			}
		}
	}
}

// evalAny evaluates a pair that need not be clean: correspondence line + hierarchy oracle.
func evalAny(run *hx.Run, job int, res *sg.Result, rn *sg.Runner, cur, prev *sg.Compiled, class, note string) {
	pe := sg.EvalPair(rn, cur, prev, false)
	if pe.Err != nil {
		res.Fail(hx.OracleFailure{Class: sg.ErrClass("C04", pe.Err), What: pe.ErrAt + ": " + pe.Err.Error(), Input: input(cur, prev, note), Replay: replay(run, job)})
		return
	}
	res.Cases = append(res.Cases, sg.Case{In: pe.In, Out: pe.Out, Nontrivial: true, Note: note, Cur: cur.Sources, Prev: prev.Sources})
	res.Count("pairs:" + class)
	if pe.Total == 0 {
		res.Count("pairs:clean")
	} else {
		res.Count("pairs:non-clean")
	}
	checkHierarchy(run, job, res, pe, cur, prev, note)
}

// bigSizes: (parallelism, initial number of files): n0 is a multiple of P with n0/P >= 8, so
// NewFiles takes the chunked path with chunks of exactly n0/P files and no remainder; n0+1 and
// n0+2 leave a remainder chunk.
func bigSize(p int, r *hx.Rand) int {
	if p == 2 {
		return hx.Pick(r, []int{16, 16, 18, 20})
	}
	return hx.Pick(r, []int{24, 24, 27})
}

func bigJob(run *hx.Run, root *hx.Rand, i int, p int, rn *sg.Runner) *sg.Result {
	res := sg.NewResult()
	r := root.Fork(uint64(i))
	if got := thread.Parallelism(); got != p {
		res.Fail(hx.OracleFailure{Class: "harness-parallelism", What: fmt.Sprintf("thread.Parallelism() = %d, want %d", got, p), Replay: replay(run, i)})
		return res
	}
	n0 := bigSize(p, r)
	cache := sg.NewCache()
	var addFile *sg.Op
	for _, op := range sg.AdditiveOps {
		if op.Name == "AddFile" {
			addFile = op
		}
	}
	type ver struct {
		s    *sg.Schema
		comp *sg.Compiled
		op   string
	}
	compile := func(s *sg.Schema, k sg.Knobs) *sg.Compiled {
		c, err := cache.Compile(sg.Render(s, k))
		if err != nil {
			res.Count("big:compile-error")
			res.Samples = append(res.Samples, map[string]any{"big-compile-error": err.Error()})
			return nil
		}
		// hand the image over in a permuted Files() order (half of the time)
		if r.Bool() {
			if rc, err := c.Reordered(r); err == nil {
				res.Count("big:files-order-permuted")
				return rc
			}
			res.Count("big:reorder-error")
		}
		return c
	}
	k := sg.PlainKnobs
	s0 := sg.GenerateBig(r, n0)
	c0 := compile(s0, k)
	if c0 == nil {
		return res
	}
	chain := []ver{{s0, c0, ""}}
	// two file additions (n0+1, n0+2), with an edit inside an existing file in between
	for _, what := range []string{"file", "inner", "file"} {
		cur := chain[len(chain)-1].s
		var nx *sg.Schema
		name := "AddFile"
		if what == "file" {
			c := cur.Clone()
			if _, ok := addFile.Apply(c, sg.Site{}, r); !ok {
				continue
			}
			nx = c
		} else {
			s, op, _, _, ok := sg.ApplyRandom(cur, sg.AdditiveOps, r)
			if !ok {
				continue
			}
			nx, name = s, op.Name
		}
		comp := compile(nx, k)
		if comp == nil {
			continue
		}
		res.Count("op:" + name)
		chain = append(chain, ver{nx, comp, name})
	}
	for _, v := range chain {
		n := len(v.s.Files)
		res.Count(fmt.Sprintf("big:P=%d:files=%d:chunk=%d:remainder=%d", p, n, n/p, n%(n/p)))
	}
	for hi := 1; hi < len(chain); hi++ {
		for lo := 0; lo < hi; lo++ {
			note := fmt.Sprintf("big P=%d %d->%d files: ", p, len(chain[lo].s.Files), len(chain[hi].s.Files))
			for x := lo + 1; x <= hi; x++ {
				note += chain[x].op + " "
			}
			evalClean(run, i, res, rn, chain[hi].comp, chain[lo].comp, "C04-additive-not-clean", note, true, r)
		}
	}
	// self pairs: the longest version (remainder chunk on both sides) and the first
	last := chain[len(chain)-1]
	evalClean(run, i, res, rn, last.comp, last.comp, "C04-self-not-clean", fmt.Sprintf("big P=%d self %d files", p, len(last.s.Files)), false, r)
	if rc, err := last.comp.Reordered(r); err == nil {
		evalClean(run, i, res, rn, rc, last.comp, "C04-self-not-clean", fmt.Sprintf("big P=%d self, other Files() order", p), false, r)
	}
	// reversed: the bigger image on the against side (files deleted): hierarchy only
	evalAny(run, i, res, rn, chain[0].comp, last.comp, "big-reversed", fmt.Sprintf("big P=%d reversed %d->%d files", p, len(last.s.Files), len(chain[0].s.Files)))
	// a planted breaking edit somewhere in the big schema: hierarchy + correspondence
	if s, op, _, _, ok := sg.ApplyRandom(last.s, sg.BreakingOps, r); ok {
		if comp := compile(s, k); comp != nil {
			res.Count("op:" + op.Name)
			evalAny(run, i, res, rn, comp, chain[0].comp, "big-breaking", fmt.Sprintf("big P=%d breaking %s", p, op.Name))
		}
	}
	return res
}

// evalImports evaluates a pair of images with import files without and with the exclude-imports
// option: `pair` + `pairx` correspondence lines; oracles: clean when mustBeClean (both modes), the
// category order (both modes), exclude-imports only removes annotations, and with it no
// annotation is located in an import file of the current image.
func evalImports(run *hx.Run, job int, res *sg.Result, rn *sg.Runner, cur, prev *sg.Compiled, class, note string, mustBeClean bool, r *hx.Rand) {
	in := input(cur, prev, note)
	curImp, prevImp := cur.ImportFiles(), prev.ImportFiles()
	in["current_imports"], in["previous_imports"] = keys(curImp), keys(prevImp)
	pe := sg.EvalPair(rn, cur, prev, false)
	if pe.Err != nil {
		res.Fail(hx.OracleFailure{Class: sg.ErrClass("C04", pe.Err), What: pe.ErrAt + ": " + pe.Err.Error(), Input: in, Replay: replay(run, job)})
		return
	}
	px := sg.EvalPairExcl(rn, cur, prev, pe.Idx)
	if px.Err != nil {
		res.Fail(hx.OracleFailure{Class: sg.ErrClass("C04", px.Err), What: px.ErrAt + ": " + px.Err.Error(), Input: in, Replay: replay(run, job)})
		return
	}
	res.Cases = append(res.Cases, sg.Case{In: pe.In, Out: pe.Out, Nontrivial: true, Note: note, Cur: cur.Sources, Prev: prev.Sources})
	if px.In != "" {
		res.Cases = append(res.Cases, sg.Case{In: px.In, Out: px.Out, Nontrivial: true, Note: "exclude-imports " + note, Cur: cur.Sources, Prev: prev.Sources})
		res.Count("lines:pairx")
	}
	res.Count("pairs:" + class)
	res.Count(fmt.Sprintf("imports:cur=%s:prev=%s", sg.AnnBucket(len(curImp)), sg.AnnBucket(len(prevImp))))
	if pe.Total == 0 {
		res.Count("pairs:clean")
	} else {
		res.Count("pairs:non-clean")
	}
	if mustBeClean && pe.Total+px.Total > 0 {
		var all []sg.Ann
		for _, as := range pe.Sets {
			all = append(all, as...)
		}
		for _, as := range px.Sets {
			all = append(all, as...)
		}
		res.Fail(hx.OracleFailure{Class: class, What: fmt.Sprint(dedupe(sg.AnnStrings(all))), Input: in, Replay: replay(run, job)})
	}
	checkHierarchy(run, job, res, pe, cur, prev, note)
	// the same order among the exclude-imports runs, when the two sides agree on which files are
	// imports (what `--path` / a dependency module give).  With different flags on the two sides
	// the order does not hold as coded: a package change in a file that is an import NOW only is
	// dropped under FILE (FILE_SAME_PACKAGE sits in the current file) and kept under PACKAGE
	// (PACKAGE_NO_DELETE has only an against location) - counted, not an oracle failure.
	symmetric := true
	for _, f := range cur.Image.Files() {
		if pf := prev.Image.GetFile(f.Path()); pf != nil && pf.IsImport() != f.IsImport() {
			symmetric = false
		}
	}
	for _, v := range sg.Versions {
		for ci := 1; ci < len(strictOrder); ci++ {
			strict, cat := strictOrder[ci-1], strictOrder[ci]
			as := px.Sets[v.Name+"/"+cat]
			if len(px.Sets[v.Name+"/"+strict]) == 0 && len(as) > 0 {
				if !symmetric {
					res.Count("observe:exclude-imports-order-broken-with-asymmetric-import-flags:" + strict + "-" + cat)
					continue
				}
				res.Fail(hx.OracleFailure{Class: "C04-hierarchy-exclude-imports-" + v.Name + "-" + strict + "-" + cat,
					What:  fmt.Sprintf("with exclude-imports %s clean but %s reports %v", strict, cat, sg.AnnStrings(as)),
					Input: in, Replay: replay(run, job)})
			}
		}
	}
	dropped := 0
	for key, xs := range px.Sets {
		have := map[string]bool{}
		for _, a := range pe.Sets[key] {
			have[a.Key()] = true
		}
		seen := map[string]bool{}
		for _, a := range xs {
			seen[a.Key()] = true
			if !have[a.Key()] {
				res.Fail(hx.OracleFailure{Class: "C04-exclude-imports-not-a-filter", What: key + ": only with exclude-imports: " + fmt.Sprint(sg.AnnStrings([]sg.Ann{a})), Input: in, Replay: replay(run, job)})
			}
			if a.File != "" && curImp[a.File] {
				res.Fail(hx.OracleFailure{Class: "C04-exclude-imports-kept-import-file", What: key + ": annotation in an import file survives exclude-imports: " + fmt.Sprint(sg.AnnStrings([]sg.Ann{a})), Input: in, Replay: replay(run, job)})
			}
		}
		for k := range have {
			if !seen[k] {
				dropped++
			}
		}
	}
	if dropped > 0 {
		res.Count("imports:exclude-dropped-something")
	}
}

func keys(m map[string]bool) []string {
	out := make([]string, 0, len(m))
	for k := range m {
		out = append(out, k)
	}
	sort.Strings(out)
	return out
}

// importJob (section E): a schema whose images contain IMPORT files: only some files are targets
// (plus, mostly, an importer file that imports everything), built three ways (image filtered by
// paths, module with target paths, targeted module + non-targeted dependency module), with the
// same or different targets on the two sides.  Self pairs and additive chains must stay clean,
// arbitrary breaking edits (preferably inside an import file) must respect the category order,
// all of it without and with BreakingWithExcludeImports.
func importJob(run *hx.Run, root *hx.Rand, i int, rn *sg.Runner) *sg.Result {
	res := sg.NewResult()
	r := root.Fork(uint64(i))
	var s0 *sg.Schema
	if r.Bool() {
		s0 = sg.Generate(r)
	} else {
		s0 = sg.GenerateBig(r, 4+r.Intn(6))
	}
	k := sg.PlainKnobs
	names := func(s *sg.Schema) (all, importers []string) {
		imps := s.Imports()
		for _, f := range s.Files {
			all = append(all, f.Name)
			if len(imps[f.Name]) > 0 {
				importers = append(importers, f.Name)
			}
		}
		return
	}
	compile := func(s *sg.Schema, spec sg.ImportSpec) *sg.Compiled {
		c, err := sg.CompileTargeted(sg.Render(s, k), spec)
		if err != nil {
			res.Count("imports:compile-error")
			res.Samples = append(res.Samples, map[string]any{"imports-compile-error": err.Error(), "spec": spec})
			return nil
		}
		c.Encode()
		return c
	}
	// additive chain s0 -> s1 -> s2
	chain := []*sg.Schema{s0}
	ops := []string{""}
	for j := 0; j < 2; j++ {
		if s, op, _, _, ok := sg.ApplyRandom(chain[len(chain)-1], sg.AdditiveOps, r); ok {
			chain = append(chain, s)
			ops = append(ops, op.Name)
			res.Count("op:" + op.Name)
		}
	}
	all0, imp0 := names(s0)
	curSpec, prevSpec, flavour := sg.PickImportSpecs(r, all0, nil, imp0)
	res.Count("imports:flavour:" + flavour)
	res.Count("imports:mode:" + sg.TargetModeNames[curSpec.Mode])
	tagNote := fmt.Sprintf("imports %s/%s ", flavour, sg.TargetModeNames[curSpec.Mode])
	// self pair (the two sides may differ in their import flags)
	j := r.Intn(len(chain))
	if a, b := compile(chain[j], curSpec), compile(chain[j], prevSpec); a != nil && b != nil {
		evalImports(run, i, res, rn, a, b, "C04-self-not-clean", tagNote+"self", true, r)
	}
	// additive pairs
	for hi := 1; hi < len(chain); hi++ {
		lo := r.Intn(hi)
		if a, b := compile(chain[hi], curSpec), compile(chain[lo], prevSpec); a != nil && b != nil {
			evalImports(run, i, res, rn, a, b, "C04-additive-not-clean", tagNote+"additive "+fmt.Sprint(ops[lo+1:hi+1]), true, r)
		}
	}
	// breaking edits; the edited file is kept out of the targets so that it is an import
	base := chain[len(chain)-1]
	for b := 0; b < 2; b++ {
		s, op, site, _, ok := sg.ApplyRandom(base, sg.BreakingOps, r)
		if !ok {
			continue
		}
		res.Count("op:" + op.Name)
		allB, impB := names(base)
		var must []string
		if site.File != "" {
			must = []string{site.File}
		}
		cs, ps, fl := sg.PickImportSpecs(r, allB, must, impB)
		res.Count("imports:flavour:" + fl)
		res.Count("imports:mode:" + sg.TargetModeNames[cs.Mode])
		a, bb := compile(s, cs), compile(base, ps)
		if a == nil || bb == nil {
			continue
		}
		if site.File != "" && a.ImportFiles()[site.File] {
			res.Count("imports:edited-file-is-import:cur")
		}
		if site.File != "" && bb.ImportFiles()[site.File] {
			res.Count("imports:edited-file-is-import:prev")
		}
		evalImports(run, i, res, rn, a, bb, "imports-breaking", fmt.Sprintf("imports %s/%s breaking %s at %s", fl, sg.TargetModeNames[cs.Mode], op.Name, site.File), false, r)
	}
	return res
}

// spellingJob (section F): the "same value, other spelling" half of the defaults matrix
// (sg.DefaultCases with Same): hex / octal / signed-zero integers, float notations, literals that
// are equal after rounding to the field's float width, an explicit zero value against no option,
// other quoting / escapes / concatenation of strings and bytes, another NAME (alias) of the same
// enum number.  Nothing but the spelling differs, so the pair must be clean in every category.
func spellingJob(run *hx.Run, root *hx.Rand, i int, layout int, rn *sg.Runner) *sg.Result {
	res := sg.NewResult()
	r := root.Fork(uint64(i))
	var cases []sg.DefaultCase
	for _, c := range sg.DefaultCases() {
		if c.Same && !c.Observe {
			cases = append(cases, c)
		}
	}
	prevSrc, fields := sg.RenderDefaultMatrix(cases, layout, true)
	curSrc, _ := sg.RenderDefaultMatrix(cases, layout, false)
	note := "default spellings, layout " + sg.MatrixLayoutNames[layout]
	prev, err1 := sg.Compile(prevSrc)
	cur, err2 := sg.Compile(curSrc)
	if err1 != nil || err2 != nil {
		res.Fail(hx.OracleFailure{Class: "harness-default-matrix-compile", What: fmt.Sprint(err1, err2), Input: map[string]any{"current": curSrc, "previous": prevSrc}, Replay: replay(run, i)})
		return res
	}
	// the table must be right: the descriptors carry the same default value on both sides
	for _, mf := range fields {
		o, err := sg.DefaultOutcomeOf(cur, prev, mf.FullName)
		if err != nil || o.Changed {
			res.Fail(hx.OracleFailure{Class: "harness-default-matrix-table", What: fmt.Sprintf("%s: %v %+v", cases[mf.Case], err, o), Replay: replay(run, i)})
			return res
		}
	}
	res.CountN("spelling:fields:"+sg.MatrixLayoutNames[layout], len(fields))
	evalClean(run, i, res, rn, cur, prev, "C04-cosmetic-not-clean", note, true, r)
	evalClean(run, i, res, rn, prev, cur, "C04-cosmetic-not-clean", note+" (reversed)", true, r)
	return res
}

// catalogueT is the C03 plan (section G): the same bases, the same plan and the same per-entry
// random streams as the C03 harness derives from this seed, cut into jobs of consecutive entries
// of one base.
type catalogueT struct {
	root  *hx.Rand
	bases []sg.Base
	plan  []sg.PlanEntry
	index []int    // index of plan[i] in the full C03 plan (its `c03 --only` address and random stream)
	jobs  [][2]int // [lo, hi) plan entries
}

func makeCatalogue(run *hx.Run) *catalogueT {
	c := &catalogueT{root: hx.NewRand(run.Seed)}
	c.bases = make([]sg.Base, run.N(25, 40))
	for bi := range c.bases {
		c.bases[bi] = sg.GenBase(c.root, bi)
	}
	// the quick C03 plan in both tiers: one plant per (operator, kind) and (operator, syntax)
	// stratum (thorough: plus the top-up to 10 plants per operator, over 40 bases and two seeds)
	full, _ := sg.MakePlan(false, c.root, c.bases)
	for pi, e := range full {
		// quick: the strata only (every operator x kind, every operator x syntax); the random
		// top-up plants of the C03 plan are left to the thorough tier
		if run.Thorough() || e.Why != "top-up" {
			c.plan = append(c.plan, e)
			c.index = append(c.index, pi)
		}
	}
	const chunk = 12
	for i := 0; i < len(c.plan); {
		j := i
		for j < len(c.plan) && j-i < chunk && c.plan[j].Bi == c.plan[i].Bi {
			j++
		}
		c.jobs = append(c.jobs, [2]int{i, j})
		i = j
	}
	return c
}

// catalogueJob: every plan entry of the job is planted and the pair goes through the 12 category
// runs; oracle = checkHierarchy (clean-implies-clean and per subject).  The pairs are the ones the
// C03 harness sends to the Lean model; here every 6th (thorough: 12th) also becomes a `pair` line.
func catalogueJob(run *hx.Run, cat *catalogueT, i int, k int, rn *sg.Runner) *sg.Result {
	res := sg.NewResult()
	jb := cat.jobs[k]
	base := cat.bases[cat.plan[jb[0]].Bi].St
	cache := sg.NewCache()
	prev, err := cache.Compile(base.Sources())
	if err != nil {
		res.Count("catalogue:base-compile-error")
		return res
	}
	for pi := jb[0]; pi < jb[1]; pi++ {
		e := cat.plan[pi]
		op := sg.BreakingOps[e.Oi]
		rv := sg.PlanEntryRand(cat.root, cat.index[pi])
		p, ok := sg.PlantEntry(cat.bases, e, rv, res)
		if !ok {
			res.Count("catalogue:not-applicable:" + op.Name)
			continue
		}
		cur, err := cache.Compile(p.Cur.Sources())
		if err != nil {
			res.Count("catalogue:compile-error:" + op.Name)
			continue
		}
		note := fmt.Sprintf("catalogue entry %d (c03 plan entry %d): edit %s(%s) at site %s", pi, cat.index[pi], p.Variant, strings.TrimSpace(p.Note), p.Site.String())
		// every 6th pair (thorough: every 12th) becomes a `pair` line: 12 real single-category runs;
		// the others: real single-category runs under ONE version (rotating) and one real
		// all-categories run, split by the spec's category lists, under each of the other two
		var pe *sg.PairEval
		line := pi%run.N(6, 12) == 0
		if line {
			pe = sg.EvalPair(rn, cur, prev, false)
			res.Count("catalogue:runs:12-real")
		} else {
			real := sg.Versions[pi%len(sg.Versions)].Name
			pe, _ = sg.EvalPairOneReal(rn, cur, prev, real)
			res.Count("catalogue:runs:4-real-" + real + "+2-split")
		}
		if pe.Err != nil {
			res.Fail(hx.OracleFailure{Class: sg.ErrClass("C04", pe.Err), What: note + ": " + pe.ErrAt + ": " + pe.Err.Error(), Input: input(cur, prev, note), Replay: replay(run, i)})
			continue
		}
		res.Evals++
		res.Count("pairs:catalogue")
		res.Count("catalogue:op:" + op.Name)
		kindOnly, syn := sg.SplitKind(e.Kind)
		res.Sets["catalogue_operator_kind_evaluated"] = append(res.Sets["catalogue_operator_kind_evaluated"], op.Name+"|"+kindOnly, op.Name+"|@"+syn)
		if pe.Total == 0 {
			res.Count("catalogue:clean-pair:" + op.Name)
		}
		for _, c := range strictOrder {
			if len(pe.Sets["v2/"+c]) > 0 {
				res.Count("catalogue:v2-reports:" + c)
			}
		}
		if line {
			res.Cases = append(res.Cases, sg.Case{In: pe.In, Out: pe.Out, Nontrivial: true, Note: note, Cur: cur.Sources, Prev: prev.Sources})
		}
		checkHierarchy(run, i, res, pe, cur, prev, note)
	}
	return res
}

func probeJob(run *hx.Run, root *hx.Rand, i int, rn *sg.Runner) *sg.Result {
	res := sg.NewResult()
	r := root.Fork(uint64(i))
	var probe *sg.Op
	for _, op := range sg.AdditiveOps {
		if op.Name == "AddEnumValueFirst" {
			probe = op
		}
	}
	var s *sg.Schema
	var sites []sg.Site
	for try := 0; try < 8 && len(sites) == 0; try++ {
		s = sg.Generate(r)
		sites = probe.Sites(s)
	}
	if len(sites) == 0 {
		res.Count("probe:no-site")
		return res
	}
	c := s.Clone()
	if _, ok := probe.Apply(c, hx.Pick(r, sites), r); !ok {
		return res
	}
	prev, err1 := sg.Compile(sg.Render(s, sg.PlainKnobs))
	cur, err2 := sg.Compile(sg.Render(c, sg.PlainKnobs))
	if err1 != nil || err2 != nil {
		res.Count("probe:compile-error")
		return res
	}
	idx, err := rn.Paths(cur, prev)
	if err != nil {
		return res
	}
	as, err := rn.Run(sg.Versions[2].V, []string{"FILE"}, nil, cur, prev, idx)
	if err != nil {
		res.Fail(hx.OracleFailure{Class: sg.ErrClass("C04", err), What: "probe: " + err.Error(), Input: input(cur, prev, "AddEnumValueFirst"), Replay: replay(run, i)})
		return res
	}
	res.Evals++
	res.Count("probe:applied")
	res.Sets["head_insert_enum_value_reports"] = []string{}
	if len(as) == 0 {
		res.Count("probe:clean")
		res.Sets["head_insert_enum_value_reports"] = append(res.Sets["head_insert_enum_value_reports"], "(none)")
	}
	for _, a := range as {
		res.Sets["head_insert_enum_value_reports"] = append(res.Sets["head_insert_enum_value_reports"], a.Rule)
	}
	return res
}

func main() {
	run := hx.Start("C04")
	// probe once, before the parallel jobs: which model dispatch matches this tree
	run.Set("tree_has_package_last_element_fix", sg.TreeHasPackageFix())
	root := hx.NewRand(run.Seed)
	nChains := run.N(115, 840)
	nHier := run.N(110, 1500) // quick: section G covers the single planted edits
	nProbe := run.N(40, 300)
	nBig := run.N(5, 30) // per parallelism value; thorough in.txt stays < 200 MB
	nImp := run.N(44, 120)
	nSpell := sg.NumMatrixLayouts
	cat := makeCatalogue(run)
	nCat := len(cat.jobs)
	run.Set("catalogue_plan_entries", len(cat.plan))
	nSmall := nChains + nHier + nProbe + nImp + nSpell + nCat
	saved := thread.Parallelism()
	phases := []sg.Phase{
		{N: nSmall},
		{N: nBig, Enter: func() { thread.SetParallelism(2) }, Leave: func() { thread.SetParallelism(saved) }},
		{N: nBig, Enter: func() { thread.SetParallelism(3) }, Leave: func() { thread.SetParallelism(saved) }},
	}
	sets := sg.RunJobsPhases(run, phases, func(i int, rn *sg.Runner) *sg.Result {
		switch {
		case i < nChains:
			return chainJob(run, root.Fork(1), i, rn)
		case i < nChains+nHier:
			return hierarchyJob(run, root.Fork(2), i, rn)
		case i < nChains+nHier+nProbe:
			return probeJob(run, root.Fork(3), i, rn)
		case i < nChains+nHier+nProbe+nImp:
			return importJob(run, root.Fork(5), i, rn)
		case i < nChains+nHier+nProbe+nImp+nSpell:
			return spellingJob(run, root.Fork(6), i, i-(nChains+nHier+nProbe+nImp), rn)
		case i < nSmall:
			return catalogueJob(run, cat, i, i-(nChains+nHier+nProbe+nImp+nSpell), rn)
		case i < nSmall+nBig:
			return bigJob(run, root.Fork(4), i, 2, rn)
		}
		return bigJob(run, root.Fork(4), i, 3, rn)
	})
	if got := thread.Parallelism(); got != saved {
		panic(fmt.Sprintf("thread.Parallelism() not restored: %d != %d", got, saved))
	}
	for k, v := range sets {
		run.Set(k, v)
	}
	run.Finish()
}
