package main

// nest.go: the NESTED DELETION family of C03's clause "located at it" for the six deletion rules
// whose annotation cannot sit at the deleted element itself (MESSAGE_NO_DELETE, ENUM_NO_DELETE,
// EXTENSION_NO_DELETE and their PACKAGE_* counterparts): the documentation-level position is the
// CLOSEST SURVIVING ANCESTOR message of the deleted element in the current file, else the file.
//
// A "tower" file is written here as text (own renderer, independent of schemagen and of the
// implementation): message T0 { … message T1 { … message T<D> { … } } }, D = 1..4, every level
// with a field, an enum E<i>, a leaf message L<i>, 0-2 padding messages, an extension x<i>
// (proto2 / editions) in shuffled declaration order, padding messages before T0 and a survivor
// message / enum / extension of the package.  For every level j = 0..D the whole subtree T<j> is
// deleted: everything declared at levels j..D goes, k = i-j+1 >= 1 intermediate ancestors of an
// element of level i go with it, and T<j-1> (for j = 0: nothing) survives.
//
// Oracle (implementation only).  The renderer records line, column and descriptor path of every
// message it writes; deleted elements = names of the previous rendering missing in the current
// one; expected position of each = the message of the CURRENT rendering whose dotted name is the
// longest proper prefix of the deleted name (none: the file).  In every version / category where
// the rule is active and in the single-rule run, the annotations of the rule must be exactly one
// per deleted element of its kind, at these positions (path AND line:column).

import (
	"fmt"
	"sort"
	"strings"

	"github.com/bufbuild/verifharness/internal/hx"
	sg "github.com/bufbuild/verifharness/internal/schemagen"
)

const nestFile = "nest/v1/tower.proto"

var nestSyntaxes = []string{"proto2", "proto3", "editions"}

const nestMaxDepth = 4

// numNestJobs: one job per (syntax, depth).
const numNestJobs = 3 * nestMaxDepth

type nestShape struct {
	syntax   string
	depth    int
	pre      int      // padding messages before T0
	pad      []int    // per level: padding messages nested in T<i>
	order    [][]int  // per level: permutation of the item slots
	comment  []bool   // per level: leading comment above T<i>
	detached bool     // a detached comment + blank line above T0
	tabs     bool     // indent with two spaces (false) / four spaces (true)
	names    []string // T<i> names (varied so that prefixes of different lengths occur)
}

type nestPos struct {
	line, col int
	path      string
}

func (p nestPos) String() string { return fmt.Sprintf("%d:%d path=%s", p.line, p.col, p.path) }

type nestRendered struct {
	src   string
	msgs  map[string]nestPos // dotted nested name -> position of the message
	enums map[string]bool
	exts  map[string]bool
}

func genNestShape(r *hx.Rand, syntax string, depth int) nestShape {
	sh := nestShape{syntax: syntax, depth: depth, pre: r.Intn(3), detached: r.Bool(), tabs: r.Bool()}
	for i := 0; i <= depth; i++ {
		sh.pad = append(sh.pad, r.Intn(3))
		perm := []int{0, 1, 2, 3, 4, 5}
		for k := len(perm) - 1; k > 0; k-- {
			j := r.Intn(k + 1)
			perm[k], perm[j] = perm[j], perm[k]
		}
		sh.order = append(sh.order, perm)
		sh.comment = append(sh.comment, r.Bool())
		// names of different lengths; one level may repeat its parent's name (T0.T0 is legal)
		n := []string{"T", "Tower", "Lvl", "N"}[r.Intn(4)] + fmt.Sprint(i)
		if i > 0 && r.Chance(1, 4) {
			n = sh.names[i-1]
		}
		sh.names = append(sh.names, n)
	}
	return sh
}

// renderNest writes the tower; del = level whose subtree is left out (-1: nothing).
func renderNest(sh nestShape, del int) nestRendered {
	out := nestRendered{msgs: map[string]nestPos{}, enums: map[string]bool{}, exts: map[string]bool{}}
	var lines []string
	unit := "  "
	if sh.tabs {
		unit = "    "
	}
	add := func(indent int, s string) (line, col int) {
		lines = append(lines, strings.Repeat(unit, indent)+s)
		return len(lines), indent*len(unit) + 1
	}
	label := ""
	switch sh.syntax {
	case "proto2":
		add(0, `syntax = "proto2";`)
		label = "optional "
	case "proto3":
		add(0, `syntax = "proto3";`)
	default:
		add(0, `edition = "2023";`)
	}
	add(0, "")
	add(0, "package nest.v1;")
	add(0, "")
	hasExt := sh.syntax != "proto3"
	top := 0 // index among the file's messages
	l, c := add(0, "message Keep {")
	out.msgs["Keep"] = nestPos{l, c, fmt.Sprintf("4.%d", top)}
	top++
	add(1, label+"int32 id = 1;")
	if hasExt {
		add(1, "extensions 100 to max;")
	}
	add(0, "}")
	add(0, "enum KeepEnum {")
	add(1, "KEEP_ENUM_UNSPECIFIED = 0;")
	add(0, "}")
	out.enums["KeepEnum"] = true
	if hasExt {
		add(0, "extend Keep {")
		add(1, label+"int32 keep_ext = 100;")
		add(0, "}")
		out.exts["keep_ext"] = true
	}
	for i := 0; i < sh.pre; i++ {
		l, c := add(0, fmt.Sprintf("message Pre%d {}", i))
		out.msgs[fmt.Sprintf("Pre%d", i)] = nestPos{l, c, fmt.Sprintf("4.%d", top)}
		top++
	}
	var level func(i, indent int, parent, path string)
	level = func(i, indent int, parent, path string) {
		name := sh.names[i]
		full := name
		if parent != "" {
			full = parent + "." + name
		}
		if i == 0 && sh.detached {
			add(indent, "// A detached comment.")
			add(indent, "")
		}
		if sh.comment[i] {
			add(indent, "// "+name+" is level "+fmt.Sprint(i)+" of the tower.")
		}
		l, c := add(indent, "message "+name+" {")
		out.msgs[full] = nestPos{l, c, path}
		nested := 0
		msg := func(n string) {
			l, c := add(indent+1, "message "+n+" {}")
			out.msgs[full+"."+n] = nestPos{l, c, fmt.Sprintf("%s.3.%d", path, nested)}
			nested++
		}
		for _, slot := range sh.order[i] {
			switch slot {
			case 0:
				add(indent+1, label+"int32 f = 1;")
			case 1:
				for k := 0; k < sh.pad[i]; k++ {
					msg(fmt.Sprintf("P%d_%d", i, k))
				}
			case 2:
				add(indent+1, fmt.Sprintf("enum E%d {", i))
				add(indent+2, fmt.Sprintf("E%d_UNSPECIFIED = 0;", i))
				add(indent+2, fmt.Sprintf("E%d_A = 1;", i))
				add(indent+1, "}")
				out.enums[full+fmt.Sprintf(".E%d", i)] = true
			case 3:
				msg(fmt.Sprintf("L%d", i))
			case 4:
				if hasExt {
					add(indent+1, "extend Keep {")
					add(indent+2, fmt.Sprintf("%sint32 x%d = %d;", label, i, 101+i))
					add(indent+1, "}")
					out.exts[full+fmt.Sprintf(".x%d", i)] = true
				}
			case 5:
				if i < sh.depth && i+1 != del {
					level(i+1, indent+1, full, fmt.Sprintf("%s.3.%d", path, nested))
					nested++
				}
			}
		}
		add(indent, "}")
	}
	if del != 0 {
		level(0, 0, "", fmt.Sprintf("4.%d", top))
		top++
	}
	l, c = add(0, "message Post {}")
	out.msgs["Post"] = nestPos{l, c, fmt.Sprintf("4.%d", top)}
	out.src = strings.Join(lines, "\n") + "\n"
	return out
}

// nestAncestor: the position of the message of cur whose dotted name is the longest proper
// prefix of the deleted name (ok = false: no enclosing message survives -> the file).
func nestAncestor(cur nestRendered, name string) (nestPos, string, bool) {
	for {
		i := strings.LastIndexByte(name, '.')
		if i < 0 {
			return nestPos{}, "", false
		}
		name = name[:i]
		if p, ok := cur.msgs[name]; ok {
			return p, name, true
		}
	}
}

var nestRules = []struct{ kind, rule, pkgRule string }{
	{"message", "MESSAGE_NO_DELETE", "PACKAGE_MESSAGE_NO_DELETE"},
	{"enum", "ENUM_NO_DELETE", "PACKAGE_ENUM_NO_DELETE"},
	{"extension", "EXTENSION_NO_DELETE", "PACKAGE_EXTENSION_NO_DELETE"},
}

// nestFileLevel is how an annotation of the file without location appears in sg.Ann (the CLI
// annotation of a file without span reads 1:1; no source path).
var nestFileLevel = nestPos{1, 1, "-"}

func nestJob(run *hx.Run, root *hx.Rand, replayID int, k int, rn *sg.Runner) *sg.Result {
	res := sg.NewResult()
	syntax := nestSyntaxes[k/nestMaxDepth]
	depth := 1 + k%nestMaxDepth
	shapes := 1
	if run.Thorough() {
		shapes = 4
	}
	for si := 0; si < shapes; si++ {
		r := root.Fork(uint64(k*16 + si))
		sh := genNestShape(r, syntax, depth)
		prevR := renderNest(sh, -1)
		prevSrc := map[string]string{nestFile: prevR.src}
		prev, err := sg.Compile(prevSrc)
		if err != nil {
			res.Fail(hx.OracleFailure{Class: "harness-nest-compile", What: "previous: " + err.Error(), Input: map[string]any{"previous": prevSrc}, Replay: replay(run, replayID)})
			continue
		}
		for del := 0; del <= depth; del++ {
			curR := renderNest(sh, del)
			nestPair(run, replayID, res, rn, sh, del, prevR, curR, prev)
		}
	}
	return res
}

func nestPair(run *hx.Run, replayID int, res *sg.Result, rn *sg.Runner, sh nestShape, del int, prevR, curR nestRendered, prev *sg.Compiled) {
	curSrc := map[string]string{nestFile: curR.src}
	note := fmt.Sprintf("nest %s depth=%d delete-subtree-at-level=%d names=%v", sh.syntax, sh.depth, del, sh.names)
	in := map[string]any{"current": curSrc, "previous": prev.Sources, "edit": note}
	fail := func(class, what string) {
		res.Fail(hx.OracleFailure{Class: class, What: what, Input: in, Replay: replay(run, replayID)})
	}
	cur, err := sg.Compile(curSrc)
	if err != nil {
		fail("harness-nest-compile", "current: "+err.Error())
		return
	}
	pe := sg.EvalPair(rn, cur, prev, false)
	if pe.Err != nil {
		fail(sg.ErrClass("C03", pe.Err), pe.ErrAt+": "+pe.Err.Error())
		return
	}
	res.Cases = append(res.Cases, sg.Case{In: pe.In, Out: pe.Out, Nontrivial: true, Note: note, Cur: curSrc, Prev: prev.Sources})
	// deleted elements and their documentation-level positions
	type want struct {
		pos   nestPos
		names []string
	}
	expected := map[string]map[nestPos]*want{} // kind -> position -> deleted names
	dist := func(name, anc string) int { return strings.Count(name, ".") - strings.Count(anc, ".") - 1 }
	addWant := func(kind, name string) {
		pos, anc, ok := nestAncestor(curR, name)
		if !ok {
			pos = nestFileLevel
			res.Count("nest:" + kind + ":no-surviving-ancestor")
		} else {
			res.Count(fmt.Sprintf("nest:%s:deleted-intermediate-ancestors=%d", kind, dist(name, anc)))
			res.Count(fmt.Sprintf("nest:surviving-ancestor-depth=%d", strings.Count(anc, ".")))
		}
		if expected[kind] == nil {
			expected[kind] = map[nestPos]*want{}
		}
		w := expected[kind][pos]
		if w == nil {
			w = &want{pos: pos}
			expected[kind][pos] = w
		}
		w.names = append(w.names, name)
	}
	for n := range prevR.msgs {
		if _, ok := curR.msgs[n]; !ok {
			addWant("message", n)
		}
	}
	for n := range prevR.enums {
		if !curR.enums[n] {
			addWant("enum", n)
		}
	}
	for n := range prevR.exts {
		if !curR.exts[n] {
			addWant("extension", n)
		}
	}
	var ids []string
	for _, nr := range nestRules {
		if len(expected[nr.kind]) > 0 {
			ids = append(ids, nr.rule, nr.pkgRule)
		}
	}
	sort.Strings(ids)
	rin, rout, single, err := sg.RulesLine(rn, ids, cur, prev, pe.Idx)
	if err != nil {
		fail(sg.ErrClass("C03", err), "single-rule run: "+err.Error())
		return
	}
	res.Cases = append(res.Cases, sg.Case{In: rin, Out: rout, Nontrivial: true, Note: "rules " + note, Cur: curSrc, Prev: prev.Sources})
	res.Count("lines:rules")
	res.Count("nest:pairs:" + sh.syntax)
	res.Count(fmt.Sprintf("nest:depth=%d:delete-at=%d", sh.depth, del))
	check := func(where, kind, rule string, as []sg.Ann) {
		got := map[nestPos]int{}
		total := 0
		for _, a := range as {
			if a.Rule != rule {
				continue
			}
			total++
			if a.File != nestFile {
				got[nestPos{-1, -1, "file=" + a.File}]++
				continue
			}
			got[nestPos{a.Line, a.Col, a.Path}]++
		}
		wantTotal := 0
		ok := true
		var desc []string
		for pos, w := range expected[kind] {
			wantTotal += len(w.names)
			if got[pos] != len(w.names) {
				ok = false
			}
			sort.Strings(w.names)
			desc = append(desc, fmt.Sprintf("%d at %v (deleted %v)", len(w.names), pos, w.names))
		}
		for pos := range got {
			if expected[kind][pos] == nil {
				ok = false
			}
		}
		res.Count("expect:" + rule)
		res.Sets["rules_with_checked_expectation"] = append(res.Sets["rules_with_checked_expectation"], rule)
		if ok {
			res.Count("oracle:ok")
			res.Count("nest:oracle:ok")
			return
		}
		sort.Strings(desc)
		var gs []string
		for pos, n := range got {
			gs = append(gs, fmt.Sprintf("%d at %v", n, pos))
		}
		sort.Strings(gs)
		what := fmt.Sprintf("%s: %s: %s owes one annotation per deleted %s at its closest surviving ancestor message in the current file (the file when none survives): want %v; got %v",
			where, note, rule, kind, desc, gs)
		switch {
		case total < wantTotal:
			fail("C03-missed-"+rule, what)
		case total > wantTotal:
			fail("C03-spurious-"+rule, what)
		default:
			fail("C03-location-not-closest-surviving-ancestor", what)
		}
	}
	for _, nr := range nestRules {
		if len(expected[nr.kind]) == 0 {
			continue
		}
		for _, rule := range []string{nr.rule, nr.pkgRule} {
			for _, v := range sg.Versions {
				for _, cat := range sg.Categories {
					if sg.ActiveIn(v.Name, rule, cat) {
						check(v.Name+"/"+cat, nr.kind, rule, pe.Sets[v.Name+"/"+cat])
					}
				}
			}
			check("v2/single:"+rule, nr.kind, rule, single[rule])
		}
	}
}
