// Command c03 is the correspondence + oracle harness for property C03 ("every breaking edit
// is reported, located at the edited element").
//
// For every generated base schema and EVERY operator of the breaking catalogue
// (internal/schemagen/breaking*.go: >= 1 operator per non-deprecated breaking rule id) the edit
// is planted at one applicable element (thorough: at every applicable element, capped), alone
// and mixed with 1-3 random additive edits before / after.  Both schemas are compiled with buf's
// builder and go through the REAL bufcheck.Client.Breaking: 12 category runs (buf.yaml v1beta1 /
// v1 / v2 x FILE / PACKAGE / WIRE_JSON / WIRE) -> `pair` line, and one single-rule run (v2) per
// expected rule id -> `rules` line.
//
// Oracle (implementation only): for every expectation (rule id, file, locator) of the edit and
// every version / category in which the rule is active, the category run (NO except) and the
// single-rule run contain an annotation with that rule id at exactly that file and source path
// (the locator is resolved against the CURRENT compiled image through protoreflect).
package main

import (
	"fmt"
	"sort"
	"strings"

	"github.com/bufbuild/verifharness/internal/hx"
	sg "github.com/bufbuild/verifharness/internal/schemagen"
)

func replay(run *hx.Run, job int) string {
	return fmt.Sprintf("go run ./cmd/c03 --out /tmp/c03-replay --seed %d --tier %s --only %d", run.Seed, run.Tier, job)
}

type planted struct {
	op      *sg.Op
	site    sg.Site
	variant string
	note    string
	cur     sg.State
	exp     []sg.Expect
}

// plant applies op at site, optionally surrounded by additive edits.
func plant(base sg.State, op *sg.Op, site sg.Site, mixed bool, r *hx.Rand, res *sg.Result) (*planted, bool) {
	p := &planted{op: op, site: site, variant: "alone"}
	s := base.S
	if mixed {
		p.variant = "mixed"
		n := r.Intn(3)
		for i := 0; i < n; i++ {
			if c, aop, _, _, ok := sg.ApplyRandom(s, sg.AdditiveOps, r); ok {
				s = c
				p.note += aop.Name + " "
			}
		}
	}
	if mixed {
		// an additive edit mixed in before may have made the element inapplicable
		still := false
		for _, x := range op.Sites(s) {
			if x == site {
				still = true
			}
		}
		if !still {
			return nil, false
		}
	}
	c := s.Clone()
	exp, ok := op.Apply(c, site, r)
	if !ok {
		return nil, false
	}
	p.note += "[" + op.Name + "] "
	for _, e := range exp {
		if sg.ExistedBefore(base.S, e) {
			p.exp = append(p.exp, e)
		} else {
			res.Count("expect:void-new-element:" + op.Name)
		}
	}
	s = c
	k := base.K
	if mixed {
		n := 1 + r.Intn(2)
		for i := 0; i < n; i++ {
			if c, aop, _, _, ok := sg.ApplyRandom(s, sg.AdditiveOps, r); ok {
				s = c
				p.note += aop.Name + " "
			}
		}
		if r.Bool() {
			k = sg.RandKnobs(r)
		}
	}
	p.cur = sg.State{S: s, K: k}
	return p, true
}

func matches(as []sg.Ann, rule string, want sg.Resolved) (fired, located bool) {
	for _, a := range as {
		if a.Rule != rule {
			continue
		}
		fired = true
		if a.File == want.File && (want.AnyPath || a.Path == want.Path) {
			located = true
		}
	}
	return
}

func gotOf(as []sg.Ann, rule string) []string {
	var out []string
	for _, a := range as {
		if a.Rule == rule {
			out = append(out, fmt.Sprintf("file=%q path=%s", a.File, a.Path))
		}
	}
	sort.Strings(out)
	return out
}

// evalPlanted runs the detector on one planted edit and checks the expectations.
func evalPlanted(run *hx.Run, job int, res *sg.Result, rn *sg.Runner, cache *sg.Cache, prev *sg.Compiled, p *planted, r *hx.Rand) {
	opn := p.op.Name
	cur, err := cache.Compile(p.cur.Sources())
	if err != nil {
		res.Count("edit:compile-error:" + opn)
		res.Samples = append(res.Samples, map[string]any{"edit-compile-error": err.Error(), "op": opn, "note": p.note, "sources": p.cur.Sources()})
		return
	}
	res.Count("applied:" + opn)
	res.Count("variant:" + p.variant)
	in := map[string]any{"current": cur.Sources, "previous": prev.Sources, "edit": p.note, "site": p.site.String(), "expect": p.exp}
	fail := func(class, what string) {
		res.Fail(hx.OracleFailure{Class: class, What: what, Input: in, Replay: replay(run, job)})
	}
	pe := sg.EvalPair(rn, cur, prev, r.Chance(1, 8))
	if pe.Err != nil {
		fail(sg.ErrClass("C03", pe.Err), pe.ErrAt+": "+pe.Err.Error())
		return
	}
	if pe.Mismatch != "" {
		fail("C03-except-not-a-filter", pe.Mismatch)
	}
	res.Cases = append(res.Cases, sg.Case{In: pe.In, Out: pe.Out, Nontrivial: true, Note: p.variant + " " + p.note, Cur: cur.Sources, Prev: prev.Sources})
	for _, cat := range sg.Categories {
		res.Count("anns:" + cat + ":" + sg.AnnBucket(len(pe.Sets["v2/"+cat])))
	}
	if pe.Total == 0 {
		res.Count("pairs:clean")
		res.Count("undetected:" + opn)
	} else {
		res.Count("pairs:non-clean")
	}
	// single-rule runs (v2) for the expected rules
	ruleSet := map[string]bool{}
	for _, e := range p.exp {
		if _, ok := sg.RuleCats["v2"][e.Rule]; ok {
			ruleSet[e.Rule] = true
		}
	}
	var modelled, all []string
	for id := range ruleSet {
		all = append(all, id)
		if !sg.IsUnmodelled(id) {
			modelled = append(modelled, id)
		}
	}
	sort.Strings(all)
	sort.Strings(modelled)
	single := map[string][]sg.Ann{}
	if len(all) > 0 {
		_, _, sets, err := sg.RulesLine(rn, all, cur, prev, pe.Idx)
		if err != nil {
			fail(sg.ErrClass("C03", err), "single-rule run: "+err.Error())
			return
		}
		single = sets
		if len(modelled) > 0 {
			parts := make([]string, len(modelled))
			for i, id := range modelled {
				parts[i] = id + "=" + sg.RenderSet(sets[id])
			}
			res.Cases = append(res.Cases, sg.Case{In: sg.RulesOp() + "\t" + strings.Join(modelled, ",") + "\t" + cur.Encode() + "\t" + prev.Encode(),
				Out: strings.Join(parts, "|"), Nontrivial: true, Note: "rules " + p.variant + " " + p.note, Cur: cur.Sources, Prev: prev.Sources})
			res.Count("lines:rules")
		}
	}
	// the oracle
	for _, e := range p.exp {
		want, err := sg.Resolve(cur, e)
		if err != nil {
			res.Count("locator:unresolved:" + opn)
			res.Samples = append(res.Samples, map[string]any{"locator-unresolved": err.Error(), "op": opn, "input": in})
			continue
		}
		if !want.AnyPath && want.File != e.File {
			res.Count("locator:file-mismatch:" + opn)
			res.Samples = append(res.Samples, map[string]any{"locator-file-mismatch": e, "resolved": want, "op": opn, "input": in})
			continue
		}
		res.Count("expect:" + e.Rule)
		res.Count("checked:" + opn)
		res.Sets["rules_with_checked_expectation"] = append(res.Sets["rules_with_checked_expectation"], e.Rule)
		check := func(where string, as []sg.Ann) {
			fired, located := matches(as, e.Rule, want)
			switch {
			case located:
				res.Count("oracle:ok")
			case !fired && strings.HasPrefix(e.Class, sg.ObservePrefix):
				res.Count(e.Class)
				res.Sets["observations"] = append(res.Sets["observations"], e.Class+" ("+opn+")")
			case !fired:
				class := "C03-missed-" + e.Rule
				if e.Class != "" {
					class = e.Class
				}
				fail(class, fmt.Sprintf("%s: op %s expects %s at file=%q path=%s (%s); the rule did not fire", where, opn, e.Rule, want.File, want.Path, e.Locator))
			default:
				fail("C03-mislocated-"+e.Rule, fmt.Sprintf("%s: op %s expects %s at file=%q path=%s (%s); got %v", where, opn, e.Rule, want.File, want.Path, e.Locator, gotOf(as, e.Rule)))
			}
		}
		for _, v := range sg.Versions {
			for _, cat := range sg.Categories {
				if sg.ActiveIn(v.Name, e.Rule, cat) {
					check(v.Name+"/"+cat, pe.Sets[v.Name+"/"+cat])
				}
			}
		}
		if as, ok := single[e.Rule]; ok {
			check("v2/single:"+e.Rule, as)
		}
	}
}

const maxSitesThorough = 2

func main() {
	run := hx.Start("C03")
	// probe once, before the parallel jobs: which model dispatch matches this tree
	run.Set("tree_has_package_last_element_fix", sg.TreeHasPackageFix())
	root := hx.NewRand(run.Seed)
	nOps := len(sg.BreakingOps)
	nBases := run.N(30, 40) // thorough adds both variants and up to maxSitesThorough elements per operator; in.txt stays < 200 MB
	only := run.Only
	onlyBase, onlyOp := -1, -1
	if only >= 0 {
		onlyBase, onlyOp = only/nOps, only%nOps
	}
	// job unit: (base, chunk of operators); --only addresses base*nOps + operator index
	const chunk = 9
	nChunks := (nOps + chunk - 1) / chunk
	if only >= 0 {
		run.Only = onlyBase*nChunks + onlyOp/chunk
	}
	sets := sg.RunJobs(run, nBases*nChunks, func(ji int, rn *sg.Runner) *sg.Result {
		bi, ci := ji/nChunks, ji%nChunks
		res := sg.NewResult()
		r := root.Fork(uint64(bi))
		cache := sg.NewCache()
		base := sg.State{S: sg.Generate(r), K: sg.PlainKnobs}
		if r.Bool() {
			base.K = sg.RandKnobs(r)
		}
		prev, err := cache.Compile(base.Sources())
		if err != nil {
			if ci == 0 {
				res.Count("gen:compile-error")
			}
			res.Samples = append(res.Samples, map[string]any{"gen-compile-error": err.Error(), "sources": base.Sources()})
			return res
		}
		if ci == 0 {
			res.Count("gen:ok")
			sg.CountSchema(res, base.S)
		}
		for oi, op := range sg.BreakingOps {
			if oi/chunk != ci || (onlyOp >= 0 && oi != onlyOp) {
				continue
			}
			job := bi*nOps + oi
			ro := r.Fork(uint64(oi))
			sites := op.Sites(base.S)
			if len(sites) == 0 {
				res.Count("inapplicable:" + op.Name)
				continue
			}
			if run.Thorough() {
				hx.Shuffle(ro, sites)
				if len(sites) > maxSitesThorough {
					sites = sites[:maxSitesThorough]
				}
			} else {
				// the file-option operators rotate through the tracked options with the base
				// index so that every FILE_SAME_* rule is planted in every run
				var pref []sg.Site
				if strings.HasPrefix(op.Name, "FileOption") {
					want := sg.TrackedFileOptions[bi%len(sg.TrackedFileOptions)].Name
					for _, x := range sites {
						if x.Name == want {
							pref = append(pref, x)
						}
					}
				}
				if len(pref) > 0 {
					sites = []sg.Site{hx.Pick(ro, pref)}
				} else {
					sites = []sg.Site{hx.Pick(ro, sites)}
				}
			}
			for si, site := range sites {
				// quick: one variant per (base, operator); thorough: both
				variants := []bool{ro.Bool()}
				if run.Thorough() {
					variants = []bool{false, true}
				}
				for _, mixed := range variants {
					rv := ro.Fork(uint64(si*2 + 1))
					if mixed {
						rv = ro.Fork(uint64(si*2 + 2))
					}
					p, ok := plant(base, op, site, mixed, rv, res)
					if !ok {
						res.Count("not-applicable-after-all:" + op.Name)
						continue
					}
					evalPlanted(run, job, res, rn, cache, prev, p, rv)
				}
			}
		}
		return res
	})
	run.Only = only
	for k, v := range sets {
		run.Set(k, v)
	}
	// which rule ids never had a checked expectation in this run
	have := map[string]bool{}
	for _, id := range sets["rules_with_checked_expectation"] {
		have[id] = true
	}
	var missing []string
	for _, v := range sg.Versions {
		for id := range sg.RuleCats[v.Name] {
			if !have[id] {
				have[id] = true
				missing = append(missing, id)
			}
		}
	}
	sort.Strings(missing)
	run.Set("rules_without_checked_expectation", missing)
	var names []string
	for _, op := range sg.BreakingOps {
		names = append(names, op.Name)
	}
	run.Set("operators", names)
	run.Finish()
}
