// Command c03 is the correspondence + oracle harness for property C03 ("every breaking edit
// is reported, located at the edited element").
//
// For every generated base schema and EVERY operator of the breaking catalogue
// (internal/schemagen/breaking*.go: >= 1 operator per non-deprecated breaking rule id) the edit
// is planted at one applicable element (thorough: at every applicable element, capped), alone
// and mixed with 1-3 random additive edits before / after.  Both schemas are compiled with buf's
// builder and go through the REAL bufcheck.Client.Breaking: 12 category runs (buf.yaml v1beta1 /
// v1 / v2 x FILE / PACKAGE / WIRE_JSON / WIRE) -> `pair` line, and one single-rule run (v2) per
// expected rule id -> `rules` line.
//
// Oracle (implementation only): for every expectation (rule id, file, locator) of the edit and
// every version / category in which the rule is active, the category run (NO except) and the
// single-rule run contain an annotation with that rule id at exactly that file and source path
// (the locator is resolved against the CURRENT compiled image through protoreflect).
package main

import (
	"fmt"
	"sort"
	"strings"

	"github.com/bufbuild/buf/private/pkg/thread"
	"github.com/bufbuild/verifharness/internal/hx"
	sg "github.com/bufbuild/verifharness/internal/schemagen"
)

func replay(run *hx.Run, job int) string {
	return fmt.Sprintf("go run ./cmd/c03 --out /tmp/c03-replay --seed %d --tier %s --only %d", run.Seed, run.Tier, job)
}

func matches(as []sg.Ann, rule string, want sg.Resolved) (fired, located bool) {
	for _, a := range as {
		if a.Rule != rule {
			continue
		}
		fired = true
		if a.File == want.File && (want.AnyPath || a.Path == want.Path) {
			located = true
		}
	}
	return
}

func gotOf(as []sg.Ann, rule string) []string {
	var out []string
	for _, a := range as {
		if a.Rule == rule {
			out = append(out, fmt.Sprintf("file=%q path=%s", a.File, a.Path))
		}
	}
	sort.Strings(out)
	return out
}

// evalPlanted compiles the planted edit and evaluates it (see evalCompiled).
func evalPlanted(run *hx.Run, job int, res *sg.Result, rn *sg.Runner, cache *sg.Cache, prev *sg.Compiled, p *sg.Planted, r *hx.Rand) bool {
	opn := p.Op.Name
	cur, err := cache.Compile(p.Cur.Sources())
	if err != nil {
		res.Count("edit:compile-error:" + opn)
		res.Samples = append(res.Samples, map[string]any{"edit-compile-error": err.Error(), "op": opn, "note": p.Note, "sources": p.Cur.Sources()})
		return false
	}
	return evalCompiled(run, job, res, rn, cur, prev, p, r, "")
}

// checkExpectations is the oracle: every expectation of the planted edit has an annotation with
// its rule id at exactly its file and source path in every version / category where the rule is
// active (sets: "v2/FILE" -> annotations of that run) and in the single-rule run.  keep (may be
// nil) says which expectations apply to this pair of images.
func checkExpectations(res *sg.Result, fail func(class, what string), in map[string]any, p *sg.Planted, cur *sg.Compiled,
	sets map[string][]sg.Ann, single map[string][]sg.Ann, tag string, keep func(e sg.Expect, want sg.Resolved) bool) {
	opn := p.Op.Name
	for _, e := range p.Exp {
		want, err := sg.Resolve(cur, e)
		if err != nil {
			res.Count("locator:unresolved:" + opn)
			res.Samples = append(res.Samples, map[string]any{"locator-unresolved": err.Error(), "op": opn, "input": in})
			continue
		}
		if !want.AnyPath && want.File != e.File {
			res.Count("locator:file-mismatch:" + opn)
			res.Samples = append(res.Samples, map[string]any{"locator-file-mismatch": e, "resolved": want, "op": opn, "input": in})
			continue
		}
		if keep != nil && !keep(e, want) {
			res.Count("expect:void" + tag + ":" + opn)
			continue
		}
		if e.Absent {
			res.Count("expect-absent" + tag + ":" + e.Rule)
		} else {
			res.Count("expect" + tag + ":" + e.Rule)
		}
		res.Count("checked" + tag + ":" + opn)
		if tag == "" && !e.Absent {
			res.Sets["rules_with_checked_expectation"] = append(res.Sets["rules_with_checked_expectation"], e.Rule)
		}
		check := func(where string, as []sg.Ann) {
			fired, located := matches(as, e.Rule, want)
			if e.Absent {
				// the documentation exempts the edit: the rule must stay silent at this element
				if located {
					fail("C03-spurious-"+e.Rule, fmt.Sprintf("%s%s: op %s: %s must not report at file=%q path=%s (%s): the edit is exempt (reserved / the number still has a value); got %v",
						where, tag, opn, e.Rule, want.File, want.Path, e.Locator, gotOf(as, e.Rule)))
				} else {
					res.Count("oracle:ok-absent")
				}
				return
			}
			switch {
			case located:
				res.Count("oracle:ok")
			case !fired && strings.HasPrefix(e.Class, sg.ObservePrefix):
				res.Count(e.Class)
				res.Sets["observations"] = append(res.Sets["observations"], e.Class+" ("+opn+")")
			case !fired:
				class := "C03-missed-" + e.Rule
				if e.Class != "" {
					class = e.Class
				}
				fail(class, fmt.Sprintf("%s%s: op %s expects %s at file=%q path=%s (%s); the rule did not fire", where, tag, opn, e.Rule, want.File, want.Path, e.Locator))
			default:
				fail("C03-mislocated-"+e.Rule, fmt.Sprintf("%s%s: op %s expects %s at file=%q path=%s (%s); got %v", where, tag, opn, e.Rule, want.File, want.Path, e.Locator, gotOf(as, e.Rule)))
			}
		}
		for _, v := range sg.Versions {
			for _, cat := range sg.Categories {
				if sg.ActiveIn(v.Name, e.Rule, cat) {
					check(v.Name+"/"+cat, sets[v.Name+"/"+cat])
				}
			}
		}
		if as, ok := single[e.Rule]; ok {
			check("v2/single:"+e.Rule, as)
		}
	}
}

// evalCompiled runs the detector on one planted edit (both sides compiled) and checks the
// expectations.
func evalCompiled(run *hx.Run, job int, res *sg.Result, rn *sg.Runner, cur, prev *sg.Compiled, p *sg.Planted, r *hx.Rand, tag string) bool {
	opn := p.Op.Name
	res.Count("applied" + tag + ":" + opn)
	res.Count("variant:" + p.Variant)
	in := map[string]any{"current": cur.Sources, "previous": prev.Sources, "edit": p.Note, "site": p.Site.String(), "expect": p.Exp}
	fail := func(class, what string) {
		res.Fail(hx.OracleFailure{Class: class, What: what, Input: in, Replay: replay(run, job)})
	}
	pe := sg.EvalPair(rn, cur, prev, tag == "" && r.Chance(1, 8))
	if pe.Err != nil {
		fail(sg.ErrClass("C03", pe.Err), pe.ErrAt+": "+pe.Err.Error())
		return true
	}
	if pe.Mismatch != "" {
		fail("C03-except-not-a-filter", pe.Mismatch)
	}
	res.Cases = append(res.Cases, sg.Case{In: pe.In, Out: pe.Out, Nontrivial: true, Note: p.Variant + " " + p.Note, Cur: cur.Sources, Prev: prev.Sources})
	for _, cat := range sg.Categories {
		res.Count("anns:" + cat + ":" + sg.AnnBucket(len(pe.Sets["v2/"+cat])))
	}
	if pe.Total == 0 {
		res.Count("pairs:clean")
		res.Count("undetected:" + opn)
	} else {
		res.Count("pairs:non-clean")
	}
	single, ok := singleRuns(res, fail, rn, cur, prev, p, pe.Idx)
	if !ok {
		return true
	}
	checkExpectations(res, fail, in, p, cur, pe.Sets, single, tag, nil)
	return true
}

// singleRuns: one single-rule run (v2) per expected rule id + the `rules` protocol line.
func singleRuns(res *sg.Result, fail func(class, what string), rn *sg.Runner, cur, prev *sg.Compiled, p *sg.Planted, idx sg.PathIndex) (map[string][]sg.Ann, bool) {
	ruleSet := map[string]bool{}
	for _, e := range p.Exp {
		if _, ok := sg.RuleCats["v2"][e.Rule]; ok {
			ruleSet[e.Rule] = true
		}
	}
	var modelled, all []string
	for id := range ruleSet {
		all = append(all, id)
		if !sg.IsUnmodelled(id) {
			modelled = append(modelled, id)
		}
	}
	sort.Strings(all)
	sort.Strings(modelled)
	single := map[string][]sg.Ann{}
	if len(all) > 0 {
		_, _, sets, err := sg.RulesLine(rn, all, cur, prev, idx)
		if err != nil {
			fail(sg.ErrClass("C03", err), "single-rule run: "+err.Error())
			return nil, false
		}
		single = sets
		if len(modelled) > 0 {
			parts := make([]string, len(modelled))
			for i, id := range modelled {
				parts[i] = id + "=" + sg.RenderSet(sets[id])
			}
			res.Cases = append(res.Cases, sg.Case{In: sg.RulesOp() + "\t" + strings.Join(modelled, ",") + "\t" + cur.Encode() + "\t" + prev.Encode(),
				Out: strings.Join(parts, "|"), Nontrivial: true, Note: "rules " + p.Variant + " " + p.Note, Cur: cur.Sources, Prev: prev.Sources})
			res.Count("lines:rules")
		}
	}
	return single, true
}

func sortedKeys(m map[string]bool) []string {
	out := make([]string, 0, len(m))
	for k := range m {
		out = append(out, k)
	}
	sort.Strings(out)
	return out
}

// evalPlantedImports re-evaluates a planted edit on images that contain IMPORT files: only some
// files are targets (plus an importer file that imports every file, or - flavour "natural" - the
// files that import others are the targets), and the edited file is kept out of the targets so
// that, where the flavour allows, the edit sits in an import file.  Oracles:
//   - WITHOUT exclude-imports every expectation holds exactly as without imports (no rule handler
//     may skip import files: the documented breaking change must be reported);
//   - WITH BreakingWithExcludeImports no annotation is located in an import file of the current
//     image, the result is a subset of the run without it, and - when the previous image has no
//     import file - every expectation located in a non-import file (or without file) survives.
func evalPlantedImports(run *hx.Run, job int, res *sg.Result, rn *sg.Runner, base sg.State, p *sg.Planted, r *hx.Rand) {
	opn := p.Op.Name
	var files, importers []string
	imps := base.S.Imports()
	for _, f := range base.S.Files {
		files = append(files, f.Name)
		if len(imps[f.Name]) > 0 {
			importers = append(importers, f.Name)
		}
	}
	mustSet := map[string]bool{}
	if p.Site.File != "" {
		mustSet[p.Site.File] = true
	}
	for _, e := range p.Exp {
		if e.File != "" {
			mustSet[e.File] = true
		}
	}
	cs, ps, flavour := sg.PickImportSpecs(r, files, sortedKeys(mustSet), importers)
	prev, err := sg.CompileTargeted(base.Sources(), ps)
	if err != nil {
		res.Count("imports:compile-error:prev")
		return
	}
	cur, err := sg.CompileTargeted(p.Cur.Sources(), cs)
	if err != nil {
		res.Count("imports:compile-error:cur")
		return
	}
	curImp, prevImp := cur.ImportFiles(), prev.ImportFiles()
	res.Count("imports:flavour:" + flavour)
	res.Count("imports:mode:" + sg.TargetModeNames[cs.Mode])
	res.Count("applied:imports:" + opn)
	in := map[string]any{"current": cur.Sources, "previous": prev.Sources, "edit": p.Note, "site": p.Site.String(), "expect": p.Exp,
		"imports": flavour + "/" + sg.TargetModeNames[cs.Mode], "current_imports": sortedKeys(curImp), "previous_imports": sortedKeys(prevImp)}
	fail := func(class, what string) {
		res.Fail(hx.OracleFailure{Class: class, What: what, Input: in, Replay: replay(run, job)})
	}
	pe := sg.EvalPair(rn, cur, prev, false)
	if pe.Err != nil {
		fail(sg.ErrClass("C03", pe.Err), "imports: "+pe.ErrAt+": "+pe.Err.Error())
		return
	}
	px := sg.EvalPairExcl(rn, cur, prev, pe.Idx)
	if px.Err != nil {
		fail(sg.ErrClass("C03", px.Err), "imports: "+px.ErrAt+": "+px.Err.Error())
		return
	}
	note := "imports " + flavour + "/" + sg.TargetModeNames[cs.Mode] + " " + p.Variant + " " + p.Note
	res.Cases = append(res.Cases, sg.Case{In: pe.In, Out: pe.Out, Nontrivial: true, Note: note, Cur: cur.Sources, Prev: prev.Sources})
	if px.In != "" {
		res.Cases = append(res.Cases, sg.Case{In: px.In, Out: px.Out, Nontrivial: true, Note: "exclude-imports " + note, Cur: cur.Sources, Prev: prev.Sources})
		res.Count("lines:pairx")
	}
	// the files the edit is about must be part of both images (flavour "natural" drops the files
	// no target reaches)
	inImages := func(e sg.Expect, want sg.Resolved) bool {
		if p.Site.File != "" && !prev.HasFile(p.Site.File) {
			return false
		}
		if want.File != "" && (!cur.HasFile(want.File) || !prev.HasFile(want.File)) {
			return false
		}
		return true
	}
	single, ok := singleRuns(res, fail, rn, cur, prev, p, pe.Idx)
	if !ok {
		return
	}
	editedIsImport := false
	for f := range mustSet {
		if curImp[f] {
			editedIsImport = true
		}
	}
	if editedIsImport {
		res.Count("imports:edit-in-import-file")
	}
	checkExpectations(res, fail, in, p, cur, pe.Sets, single, ":imports", inImages)
	// with exclude-imports
	for key, xs := range px.Sets {
		have := map[string]bool{}
		for _, a := range pe.Sets[key] {
			have[a.Key()] = true
		}
		for _, a := range xs {
			if !have[a.Key()] {
				fail("C03-exclude-imports-not-a-filter", key+": only with exclude-imports: "+fmt.Sprint(sg.AnnStrings([]sg.Ann{a})))
			}
			if a.File != "" && curImp[a.File] {
				fail("C03-exclude-imports-kept-import-file", key+": an annotation located in an import file survives exclude-imports: "+fmt.Sprint(sg.AnnStrings([]sg.Ann{a})))
			}
		}
	}
	if len(prevImp) == 0 {
		nonImport := func(e sg.Expect, want sg.Resolved) bool {
			return inImages(e, want) && (want.File == "" || !curImp[want.File])
		}
		// single-rule runs with exclude-imports for the expected rules
		ids := map[string]bool{}
		for _, e := range p.Exp {
			if _, ok := sg.RuleCats["v2"][e.Rule]; ok && !sg.IsUnmodelled(e.Rule) {
				ids[e.Rule] = true
			}
		}
		xsingle := map[string][]sg.Ann{}
		if len(ids) > 0 {
			xin, xout, sets, err := sg.RulesLineExcl(rn, sortedKeys(ids), cur, prev, pe.Idx)
			if err != nil {
				fail(sg.ErrClass("C03", err), "imports: single-rule run with exclude-imports: "+err.Error())
				return
			}
			xsingle = sets
			if xin != "" {
				res.Cases = append(res.Cases, sg.Case{In: xin, Out: xout, Nontrivial: true, Note: "rulesx " + note, Cur: cur.Sources, Prev: prev.Sources})
				res.Count("lines:rulesx")
			}
		}
		checkExpectations(res, func(class, what string) {
			fail(strings.Replace(class, "C03-", "C03-exclude-imports-dropped-non-import-", 1), what)
		}, in, p, cur, px.Sets, xsingle, ":exclude-imports", nonImport)
	}
}

// ---------------------------------------------------------------------------------------------
// The plan: which operator is planted where.  It is computed up front (deterministically from the
// seed) over ALL bases so that the choice can be stratified: every (operator, kind of element)
// pair that is applicable anywhere is planted at least once (quick) / at up to three bases, in both
// variants (thorough), and every (base, operator) pair keeps at least one plant.  The kind of a
// field site is syntax:shape/type (sg.FieldKind: proto2 / proto3 / editions x singular, implicit,
// proto3 optional, required, repeated packed / expanded, map, oneof member, extension x scalar,
// message, enum, group, delimited by a field feature, delimited inherited from the file).

// matrixJob: the defaults matrix (sg.DefaultCases) in one layout: one field per (type, old literal,
// new literal); previous = the old literals, current = the new ones.  Whether the VALUE changed is
// read off the two compiled descriptors (protoreflect Default(), independent of field_default.go)
// and must agree with the table.  Oracle: every value change is reported by FIELD_SAME_DEFAULT at
// the field's default option (at the field when the option is gone) in every configuration where
// the rule is active and in the single-rule run.  Same-value respellings are only counted here
// (C04 demands that they are NOT reported).
func matrixJob(run *hx.Run, replayID int, layout int, rn *sg.Runner) *sg.Result {
	res := sg.NewResult()
	cases := sg.DefaultCases()
	lname := sg.MatrixLayoutNames[layout]
	prevSrc, fields := sg.RenderDefaultMatrix(cases, layout, true)
	curSrc, _ := sg.RenderDefaultMatrix(cases, layout, false)
	in := map[string]any{"current": curSrc, "previous": prevSrc, "edit": "defaults matrix, layout " + lname}
	fail := func(class, what string) {
		res.Fail(hx.OracleFailure{Class: class, What: what, Input: in, Replay: replay(run, replayID)})
	}
	prev, err := sg.Compile(prevSrc)
	if err != nil {
		fail("harness-default-matrix-compile", "previous: "+err.Error())
		return res
	}
	cur, err := sg.Compile(curSrc)
	if err != nil {
		fail("harness-default-matrix-compile", "current: "+err.Error())
		return res
	}
	pe := sg.EvalPair(rn, cur, prev, false)
	if pe.Err != nil {
		fail(sg.ErrClass("C03", pe.Err), pe.ErrAt+": "+pe.Err.Error())
		return res
	}
	note := "defaults-matrix " + lname
	res.Cases = append(res.Cases, sg.Case{In: pe.In, Out: pe.Out, Nontrivial: true, Note: note, Cur: curSrc, Prev: prevSrc})
	const rule = "FIELD_SAME_DEFAULT"
	rin, rout, sets, err := sg.RulesLine(rn, []string{rule}, cur, prev, pe.Idx)
	if err != nil {
		fail(sg.ErrClass("C03", err), "single-rule run: "+err.Error())
		return res
	}
	res.Cases = append(res.Cases, sg.Case{In: rin, Out: rout, Nontrivial: true, Note: "rules " + note, Cur: curSrc, Prev: prevSrc})
	res.Count("lines:rules")
	runs := map[string][]sg.Ann{"v2/single:" + rule: sets[rule]}
	for _, v := range sg.Versions {
		for _, cat := range sg.Categories {
			if sg.ActiveIn(v.Name, rule, cat) {
				runs[v.Name+"/"+cat] = pe.Sets[v.Name+"/"+cat]
			}
		}
	}
	at := func(as []sg.Ann, file string, paths ...string) bool {
		for _, a := range as {
			if a.Rule != rule || a.File != file {
				continue
			}
			for _, p := range paths {
				if a.Path == p {
					return true
				}
			}
		}
		return false
	}
	fails := 0
	for _, mf := range fields {
		c := cases[mf.Case]
		o, err := sg.DefaultOutcomeOf(cur, prev, mf.FullName)
		if err != nil {
			fail("harness-default-matrix-field", err.Error())
			continue
		}
		fieldPath := strings.TrimSuffix(o.Path, ".7")
		key := "matrix:" + c.Type
		switch {
		case c.Observe:
			res.Count("matrix:observe-sign-of-zero:" + fmt.Sprint(at(runs["v2/single:"+rule], o.File, fieldPath, fieldPath+".7")))
		case o.Changed == c.Same:
			fail("harness-default-matrix-table", fmt.Sprintf("%s (%s): table says same=%v, the descriptors say %s -> %s", c, lname, c.Same, o.OldKey, o.NewKey))
		case c.Same:
			res.Count(key + ":same-value")
			if at(runs["v2/single:"+rule], o.File, fieldPath, fieldPath+".7") {
				res.Count("observe:same-value-default-reported")
			}
		default:
			res.Count(key + ":value-change")
			res.Count("expect:" + rule)
			res.Sets["rules_with_checked_expectation"] = append(res.Sets["rules_with_checked_expectation"], rule)
			for _, where := range sortedKeysOf(runs) {
				as := runs[where]
				switch {
				case at(as, o.File, o.Path):
					res.Count("oracle:ok")
				case at(as, o.File, fieldPath, fieldPath+".7"):
					fails++
					if fails <= 40 {
						fail("C03-mislocated-"+rule, fmt.Sprintf("%s: defaults matrix (%s) field %s: %s expects %s at file=%q path=%s", where, lname, mf.FullName, c, rule, o.File, o.Path))
					}
				default:
					fails++
					if fails <= 40 {
						fail("C03-missed-"+rule, fmt.Sprintf("%s: defaults matrix (%s) field %s: %s: the default value changed (%s -> %s) and %s did not fire at file=%q path=%s",
							where, lname, mf.FullName, c, o.OldKey, o.NewKey, rule, o.File, o.Path))
					}
				}
			}
		}
	}
	res.Count("matrix:layout:" + lname)
	return res
}

// typeMatrixJob: the scalar TYPE matrix (sg.TypeCases: every ordered pair of different scalar
// types, one field per pair) in one layout.  Oracle, per field and per type rule, in every
// configuration where the rule is active and in the single-rule run: FIELD_SAME_TYPE reports the
// field's type; FIELD_WIRE_JSON_COMPATIBLE_TYPE / FIELD_WIRE_COMPATIBLE_TYPE report it exactly when
// the documented compatibility groups of the two types differ (string -> bytes is fine for WIRE) -
// a missed pair is C03-missed-<rule>, a reported compatible pair C03-spurious-<rule>.
func typeMatrixJob(run *hx.Run, replayID int, layout int, rn *sg.Runner) *sg.Result {
	res := sg.NewResult()
	lname := sg.TypeMatrixLayoutNames[layout]
	prevSrc, cases := sg.RenderTypeMatrix(layout, true)
	curSrc, _ := sg.RenderTypeMatrix(layout, false)
	in := map[string]any{"current": curSrc, "previous": prevSrc, "edit": "scalar type matrix, layout " + lname}
	fail := func(class, what string) {
		res.Fail(hx.OracleFailure{Class: class, What: what, Input: in, Replay: replay(run, replayID)})
	}
	prev, err := sg.Compile(prevSrc)
	if err != nil {
		fail("harness-type-matrix-compile", "previous: "+err.Error())
		return res
	}
	cur, err := sg.Compile(curSrc)
	if err != nil {
		fail("harness-type-matrix-compile", "current: "+err.Error())
		return res
	}
	pe := sg.EvalPair(rn, cur, prev, false)
	if pe.Err != nil {
		fail(sg.ErrClass("C03", pe.Err), pe.ErrAt+": "+pe.Err.Error())
		return res
	}
	note := "type-matrix " + lname
	res.Cases = append(res.Cases, sg.Case{In: pe.In, Out: pe.Out, Nontrivial: true, Note: note, Cur: curSrc, Prev: prevSrc})
	rules := []string{"FIELD_SAME_TYPE", "FIELD_WIRE_COMPATIBLE_TYPE", "FIELD_WIRE_JSON_COMPATIBLE_TYPE"}
	rin, rout, sets, err := sg.RulesLine(rn, rules, cur, prev, pe.Idx)
	if err != nil {
		fail(sg.ErrClass("C03", err), "single-rule run: "+err.Error())
		return res
	}
	res.Cases = append(res.Cases, sg.Case{In: rin, Out: rout, Nontrivial: true, Note: "rules " + note, Cur: curSrc, Prev: prevSrc})
	res.Count("lines:rules")
	at := func(as []sg.Ann, rule, file, path string) bool {
		for _, a := range as {
			if a.Rule == rule && a.File == file && a.Path == path {
				return true
			}
		}
		return false
	}
	fails := 0
	for _, c := range cases {
		file, path, err := sg.TypeMatrixPath(cur, c.FullName)
		if err != nil {
			fail("harness-type-matrix-field", err.Error())
			continue
		}
		for _, rule := range rules {
			want := true
			switch rule {
			case "FIELD_WIRE_JSON_COMPATIBLE_TYPE":
				want = c.WireJSON
			case "FIELD_WIRE_COMPATIBLE_TYPE":
				want = c.Wire
			}
			runs := map[string][]sg.Ann{"v2/single:" + rule: sets[rule]}
			for _, v := range sg.Versions {
				for _, cat := range sg.Categories {
					if sg.ActiveIn(v.Name, rule, cat) {
						runs[v.Name+"/"+cat] = pe.Sets[v.Name+"/"+cat]
					}
				}
			}
			if want {
				res.Count("expect:" + rule)
				res.Sets["rules_with_checked_expectation"] = append(res.Sets["rules_with_checked_expectation"], rule)
			} else {
				res.Count("expect-absent:" + rule)
			}
			for _, where := range sortedKeysOf(runs) {
				got := at(runs[where], rule, file, path)
				switch {
				case got == want && want:
					res.Count("oracle:ok")
				case got == want:
					res.Count("oracle:ok-absent")
				case want:
					if fails++; fails <= 40 {
						fail("C03-missed-"+rule, fmt.Sprintf("%s: type matrix (%s) field %s: %s: the documentation puts the two types into different compatibility groups and %s did not report at file=%q path=%s; got %v",
							where, lname, c.FullName, c, rule, file, path, gotOf(runs[where], rule)[:min(4, len(gotOf(runs[where], rule)))]))
					}
				default:
					if fails++; fails <= 40 {
						fail("C03-spurious-"+rule, fmt.Sprintf("%s: type matrix (%s) field %s: %s: the documentation calls the change compatible for this rule, and %s reports at file=%q path=%s",
							where, lname, c.FullName, c, rule, file, path))
					}
				}
			}
		}
	}
	res.Count("type-matrix:layout:" + lname)
	res.CountN("type-matrix:pairs", len(cases))
	return res
}

func sortedKeysOf(m map[string][]sg.Ann) []string {
	out := make([]string, 0, len(m))
	for k := range m {
		out = append(out, k)
	}
	sort.Strings(out)
	return out
}

// bigJob (large images): bufprotosource.NewFiles converts the files of an image in parallel
// chunks of len/thread.Parallelism() files once a chunk would hold >= 8 files; what does not fill a
// chunk goes into a REMAINDER chunk.  Under thread.SetParallelism(p) (own phase, restored
// afterwards) a schema of n = k*p + rest files (k >= 8, rest >= 1) gets breaking edits planted, and
// the images are handed over with the edited file LAST in Files(), i.e. inside the remainder chunk
// (on both sides, or on one side only).  Oracle: the expectations of the edit, as for every plant.
func bigJob(run *hx.Run, root *hx.Rand, replayID int, k int, p int, rn *sg.Runner) *sg.Result {
	res := sg.NewResult()
	r := root.Fork(uint64(k))
	if got := thread.Parallelism(); got != p {
		res.Fail(hx.OracleFailure{Class: "harness-parallelism", What: fmt.Sprintf("thread.Parallelism() = %d, want %d", got, p), Replay: replay(run, replayID)})
		return res
	}
	var n int
	if p == 2 {
		n = hx.Pick(r, []int{17, 17, 19, 21})
	} else {
		n = hx.Pick(r, []int{25, 26, 26, 28, 29})
	}
	base := sg.State{S: sg.GenerateBig(r, n), K: sg.PlainKnobs}
	cache := sg.NewCache()
	prev0, err := cache.Compile(base.Sources())
	if err != nil {
		res.Count("big:compile-error")
		res.Samples = append(res.Samples, map[string]any{"big-compile-error": err.Error()})
		return res
	}
	res.Count(fmt.Sprintf("big:P=%d:files=%d:chunk=%d:remainder=%d", p, n, n/p, n%(n/p)))
	inRemainder := func(c *sg.Compiled, file string) bool {
		fs := c.Image.Files()
		chunk := len(fs) / p
		if chunk < 8 {
			return false
		}
		for i, f := range fs {
			if f.Path() == file {
				return i >= p*chunk
			}
		}
		return false
	}
	done := 0
	for try := 0; try < 12 && done < 4; try++ {
		op := hx.Pick(r, sg.BreakingOps)
		if op.ProbeOnly {
			continue
		}
		sites := op.Sites(base.S)
		if len(sites) == 0 {
			continue
		}
		site := hx.Pick(r, sites)
		pl, ok := sg.Plant(base, op, site, false, r, res)
		if !ok || len(pl.Exp) == 0 {
			continue
		}
		cur0, err := cache.Compile(pl.Cur.Sources())
		if err != nil {
			res.Count("edit:compile-error:" + op.Name)
			continue
		}
		// the file the annotation is located in / the edited file goes last
		primary := site.File
		for _, e := range pl.Exp {
			if e.File != "" {
				primary = e.File
				break
			}
		}
		cur, prev := cur0, prev0
		side := []string{"both", "both", "cur", "prev"}[r.Intn(4)]
		if side != "prev" && primary != "" {
			if c, err := cur0.OrderedLast(primary); err == nil {
				cur = c
			}
		}
		if side != "cur" {
			last := site.File
			if last == "" || !prev0.HasFile(last) {
				last = primary
			}
			if last != "" {
				if c, err := prev0.OrderedLast(last); err == nil {
					prev = c
				}
			}
		}
		where := ""
		if inRemainder(cur, primary) {
			where += "cur"
		}
		if inRemainder(prev, site.File) || inRemainder(prev, primary) {
			where += "+prev"
		}
		if where == "" {
			where = "none"
		}
		res.Count(fmt.Sprintf("big:P=%d:edited-file-in-remainder-chunk:%s", p, where))
		pl.Note = fmt.Sprintf("{big P=%d files=%d remainder=%s} ", p, n, where) + pl.Note
		evalCompiled(run, replayID, res, rn, cur, prev, pl, r, ":big")
		done++
	}
	return res
}

func main() {
	run := hx.Start("C03")
	// probe once, before the parallel jobs: which model dispatch matches this tree
	run.Set("tree_has_package_last_element_fix", sg.TreeHasPackageFix())
	root := hx.NewRand(run.Seed)
	nBases := run.N(25, 40) // in.txt stays < 200 MB in the thorough tier
	bases := make([]sg.Base, nBases)
	for bi := range bases {
		bases[bi] = sg.GenBase(root, bi)
	}
	plan, strata := sg.MakePlan(run.Thorough(), root, bases)
	run.Set("plan_entries", len(plan))
	run.Set("plan_strata", strata)
	// job unit: up to `chunk` consecutive plan entries of one base; --only addresses a plan entry
	const chunk = 9
	type jobT struct{ lo, hi int }
	var jobs []jobT
	jobOf := make([]int, len(plan))
	for i := 0; i < len(plan); {
		j := i
		for j < len(plan) && j-i < chunk && plan[j].Bi == plan[i].Bi {
			j++
		}
		for x := i; x < j; x++ {
			jobOf[x] = len(jobs)
		}
		jobs = append(jobs, jobT{i, j})
		i = j
	}
	only := run.Only
	if only >= 0 && only < len(plan) {
		run.Only = jobOf[only]
	}
	firstJobOfBase := map[int]int{}
	for ji, j := range jobs {
		if _, ok := firstJobOfBase[plan[j.lo].Bi]; !ok {
			firstJobOfBase[plan[j.lo].Bi] = ji
		}
	}
	// extra jobs after the plan: the defaults matrix and the scalar type matrix (one job per layout
	// each) and the large-image jobs
	// (own phases under thread.SetParallelism(2) / (3)); `--only len(plan)+k` addresses extra job k
	nPlanJobs := len(jobs)
	nBig := run.N(4, 8)
	nMatrix := sg.NumMatrixLayouts + sg.NumTypeMatrixLayouts // defaults matrix, then the scalar type matrix
	nNest := numNestJobs                                     // the nested-deletion towers (nest.go), after the matrices
	nExtra := nMatrix + nNest + 2*nBig
	if only >= len(plan) {
		k := only - len(plan)
		if k >= nExtra {
			fmt.Println("--only: no such extra job")
			return
		}
		run.Only = nPlanJobs + k
	}
	extraReplay := func(k int) int { return len(plan) + k }
	// every importEvery-th plan entry is evaluated a second time on images with import files
	importEvery := run.N(7, 24) // thorough: in.txt stays < 200 MB
	saved := thread.Parallelism()
	phases := []sg.Phase{
		{N: nPlanJobs + nMatrix + nNest},
		{N: nBig, Enter: func() { thread.SetParallelism(2) }, Leave: func() { thread.SetParallelism(saved) }},
		{N: nBig, Enter: func() { thread.SetParallelism(3) }, Leave: func() { thread.SetParallelism(saved) }},
	}
	sets := sg.RunJobsPhases(run, phases, func(ji int, rn *sg.Runner) *sg.Result {
		if ji >= nPlanJobs {
			k := ji - nPlanJobs
			switch {
			case k < sg.NumMatrixLayouts:
				return matrixJob(run, extraReplay(k), k, rn)
			case k < nMatrix:
				return typeMatrixJob(run, extraReplay(k), k-sg.NumMatrixLayouts, rn)
			case k < nMatrix+nNest:
				return nestJob(run, root.Fork(1<<43), extraReplay(k), k-nMatrix, rn)
			case k < nMatrix+nNest+nBig:
				return bigJob(run, root.Fork(1<<42), extraReplay(k), k, 2, rn)
			}
			return bigJob(run, root.Fork(1<<42), extraReplay(k), k, 3, rn)
		}
		res := sg.NewResult()
		jb := jobs[ji]
		bi := plan[jb.lo].Bi
		base := bases[bi].St
		cache := sg.NewCache()
		first := firstJobOfBase[bi] == ji
		prev, err := cache.Compile(base.Sources())
		if err != nil {
			if first {
				res.Count("gen:compile-error")
				res.Samples = append(res.Samples, map[string]any{"gen-compile-error": err.Error(), "sources": base.Sources()})
			}
			return res
		}
		if first {
			res.Count("gen:ok")
			res.Count(fmt.Sprintf("zoo:%d", bases[bi].Zoo))
			sg.CountSchema(res, base.S)
		}
		for pi := jb.lo; pi < jb.hi; pi++ {
			if only >= 0 && pi != only {
				continue
			}
			e := plan[pi]
			op := sg.BreakingOps[e.Oi]
			rv := sg.PlanEntryRand(root, pi)
			kindOnly, syn := sg.SplitKind(e.Kind)
			keys := []string{op.Name + "|" + kindOnly, op.Name + "|@" + syn}
			p, ok := sg.PlantEntry(bases, e, rv, res)
			if !ok {
				continue
			}
			if evalPlanted(run, pi, res, rn, cache, prev, p, rv) {
				res.Count("plan:" + e.Why)
				res.Sets["operator_kind_planted"] = append(res.Sets["operator_kind_planted"], keys...)
				res.Count("kind:" + kindOnly)
				res.Count("syntax-of-site:" + syn)
				if pi%importEvery == 3 {
					evalPlantedImports(run, pi, res, rn, base, p, rv)
				}
			}
		}
		return res
	})
	run.Only = only
	if got := thread.Parallelism(); got != saved {
		panic(fmt.Sprintf("thread.Parallelism() not restored: %d != %d", got, saved))
	}
	// which applicable (operator, kind) pairs ended up without an evaluated plant
	planted := map[string]bool{}
	for _, k := range sets["operator_kind_planted"] {
		planted[k] = true
	}
	wanted := map[string]bool{}
	for _, e := range plan {
		kindOnly, syn := sg.SplitKind(e.Kind)
		wanted[sg.BreakingOps[e.Oi].Name+"|"+kindOnly] = true
		wanted[sg.BreakingOps[e.Oi].Name+"|@"+syn] = true
	}
	var unhit []string
	for k := range wanted {
		if !planted[k] {
			unhit = append(unhit, k)
		}
	}
	sort.Strings(unhit)
	run.Set("operator_kind_pairs_not_planted", unhit)
	for k, v := range sets {
		run.Set(k, v)
	}
	// which rule ids never had a checked expectation in this run
	have := map[string]bool{}
	for _, id := range sets["rules_with_checked_expectation"] {
		have[id] = true
	}
	var missing []string
	for _, v := range sg.Versions {
		for id := range sg.RuleCats[v.Name] {
			if !have[id] {
				have[id] = true
				missing = append(missing, id)
			}
		}
	}
	sort.Strings(missing)
	run.Set("rules_without_checked_expectation", missing)
	var names []string
	for _, op := range sg.BreakingOps {
		names = append(names, op.Name)
	}
	run.Set("operators", names)
	run.Finish()
}
