// Command c03 is the correspondence + oracle harness for property C03 ("every breaking edit
// is reported, located at the edited element").
//
// For every generated base schema and EVERY operator of the breaking catalogue
// (internal/schemagen/breaking*.go: >= 1 operator per non-deprecated breaking rule id) the edit
// is planted at one applicable element (thorough: at every applicable element, capped), alone
// and mixed with 1-3 random additive edits before / after.  Both schemas are compiled with buf's
// builder and go through the REAL bufcheck.Client.Breaking: 12 category runs (buf.yaml v1beta1 /
// v1 / v2 x FILE / PACKAGE / WIRE_JSON / WIRE) -> `pair` line, and one single-rule run (v2) per
// expected rule id -> `rules` line.
//
// Oracle (implementation only): for every expectation (rule id, file, locator) of the edit and
// every version / category in which the rule is active, the category run (NO except) and the
// single-rule run contain an annotation with that rule id at exactly that file and source path
// (the locator is resolved against the CURRENT compiled image through protoreflect).
package main

import (
	"fmt"
	"sort"
	"strings"

	"github.com/bufbuild/verifharness/internal/hx"
	sg "github.com/bufbuild/verifharness/internal/schemagen"
)

func replay(run *hx.Run, job int) string {
	return fmt.Sprintf("go run ./cmd/c03 --out /tmp/c03-replay --seed %d --tier %s --only %d", run.Seed, run.Tier, job)
}

type planted struct {
	op      *sg.Op
	site    sg.Site
	variant string
	note    string
	cur     sg.State
	exp     []sg.Expect
}

// plant applies op at site, optionally surrounded by additive edits.
func plant(base sg.State, op *sg.Op, site sg.Site, mixed bool, r *hx.Rand, res *sg.Result) (*planted, bool) {
	p := &planted{op: op, site: site, variant: "alone"}
	s := base.S
	if mixed {
		p.variant = "mixed"
		n := r.Intn(3)
		for i := 0; i < n; i++ {
			if c, aop, _, _, ok := sg.ApplyRandom(s, sg.AdditiveOps, r); ok {
				s = c
				p.note += aop.Name + " "
			}
		}
	}
	if mixed {
		// an additive edit mixed in before may have made the element inapplicable
		still := false
		for _, x := range op.Sites(s) {
			if x == site {
				still = true
			}
		}
		if !still {
			return nil, false
		}
	}
	c := s.Clone()
	exp, ok := op.Apply(c, site, r)
	if !ok {
		return nil, false
	}
	p.note += "[" + op.Name + "] "
	for _, e := range exp {
		if sg.ExistedBefore(base.S, e) {
			p.exp = append(p.exp, e)
		} else {
			res.Count("expect:void-new-element:" + op.Name)
		}
	}
	s = c
	k := base.K
	if mixed {
		n := 1 + r.Intn(2)
		for i := 0; i < n; i++ {
			if c, aop, _, _, ok := sg.ApplyRandom(s, sg.AdditiveOps, r); ok {
				s = c
				p.note += aop.Name + " "
			}
		}
		if r.Bool() {
			k = sg.RandKnobs(r)
		}
	}
	p.cur = sg.State{S: s, K: k}
	return p, true
}

func matches(as []sg.Ann, rule string, want sg.Resolved) (fired, located bool) {
	for _, a := range as {
		if a.Rule != rule {
			continue
		}
		fired = true
		if a.File == want.File && (want.AnyPath || a.Path == want.Path) {
			located = true
		}
	}
	return
}

func gotOf(as []sg.Ann, rule string) []string {
	var out []string
	for _, a := range as {
		if a.Rule == rule {
			out = append(out, fmt.Sprintf("file=%q path=%s", a.File, a.Path))
		}
	}
	sort.Strings(out)
	return out
}

// evalPlanted runs the detector on one planted edit and checks the expectations.
func evalPlanted(run *hx.Run, job int, res *sg.Result, rn *sg.Runner, cache *sg.Cache, prev *sg.Compiled, p *planted, r *hx.Rand) bool {
	opn := p.op.Name
	cur, err := cache.Compile(p.cur.Sources())
	if err != nil {
		res.Count("edit:compile-error:" + opn)
		res.Samples = append(res.Samples, map[string]any{"edit-compile-error": err.Error(), "op": opn, "note": p.note, "sources": p.cur.Sources()})
		return false
	}
	res.Count("applied:" + opn)
	res.Count("variant:" + p.variant)
	in := map[string]any{"current": cur.Sources, "previous": prev.Sources, "edit": p.note, "site": p.site.String(), "expect": p.exp}
	fail := func(class, what string) {
		res.Fail(hx.OracleFailure{Class: class, What: what, Input: in, Replay: replay(run, job)})
	}
	pe := sg.EvalPair(rn, cur, prev, r.Chance(1, 8))
	if pe.Err != nil {
		fail(sg.ErrClass("C03", pe.Err), pe.ErrAt+": "+pe.Err.Error())
		return true
	}
	if pe.Mismatch != "" {
		fail("C03-except-not-a-filter", pe.Mismatch)
	}
	res.Cases = append(res.Cases, sg.Case{In: pe.In, Out: pe.Out, Nontrivial: true, Note: p.variant + " " + p.note, Cur: cur.Sources, Prev: prev.Sources})
	for _, cat := range sg.Categories {
		res.Count("anns:" + cat + ":" + sg.AnnBucket(len(pe.Sets["v2/"+cat])))
	}
	if pe.Total == 0 {
		res.Count("pairs:clean")
		res.Count("undetected:" + opn)
	} else {
		res.Count("pairs:non-clean")
	}
	// single-rule runs (v2) for the expected rules
	ruleSet := map[string]bool{}
	for _, e := range p.exp {
		if _, ok := sg.RuleCats["v2"][e.Rule]; ok {
			ruleSet[e.Rule] = true
		}
	}
	var modelled, all []string
	for id := range ruleSet {
		all = append(all, id)
		if !sg.IsUnmodelled(id) {
			modelled = append(modelled, id)
		}
	}
	sort.Strings(all)
	sort.Strings(modelled)
	single := map[string][]sg.Ann{}
	if len(all) > 0 {
		_, _, sets, err := sg.RulesLine(rn, all, cur, prev, pe.Idx)
		if err != nil {
			fail(sg.ErrClass("C03", err), "single-rule run: "+err.Error())
			return true
		}
		single = sets
		if len(modelled) > 0 {
			parts := make([]string, len(modelled))
			for i, id := range modelled {
				parts[i] = id + "=" + sg.RenderSet(sets[id])
			}
			res.Cases = append(res.Cases, sg.Case{In: sg.RulesOp() + "\t" + strings.Join(modelled, ",") + "\t" + cur.Encode() + "\t" + prev.Encode(),
				Out: strings.Join(parts, "|"), Nontrivial: true, Note: "rules " + p.variant + " " + p.note, Cur: cur.Sources, Prev: prev.Sources})
			res.Count("lines:rules")
		}
	}
	// the oracle
	for _, e := range p.exp {
		want, err := sg.Resolve(cur, e)
		if err != nil {
			res.Count("locator:unresolved:" + opn)
			res.Samples = append(res.Samples, map[string]any{"locator-unresolved": err.Error(), "op": opn, "input": in})
			continue
		}
		if !want.AnyPath && want.File != e.File {
			res.Count("locator:file-mismatch:" + opn)
			res.Samples = append(res.Samples, map[string]any{"locator-file-mismatch": e, "resolved": want, "op": opn, "input": in})
			continue
		}
		res.Count("expect:" + e.Rule)
		res.Count("checked:" + opn)
		res.Sets["rules_with_checked_expectation"] = append(res.Sets["rules_with_checked_expectation"], e.Rule)
		check := func(where string, as []sg.Ann) {
			fired, located := matches(as, e.Rule, want)
			switch {
			case located:
				res.Count("oracle:ok")
			case !fired && strings.HasPrefix(e.Class, sg.ObservePrefix):
				res.Count(e.Class)
				res.Sets["observations"] = append(res.Sets["observations"], e.Class+" ("+opn+")")
			case !fired:
				class := "C03-missed-" + e.Rule
				if e.Class != "" {
					class = e.Class
				}
				fail(class, fmt.Sprintf("%s: op %s expects %s at file=%q path=%s (%s); the rule did not fire", where, opn, e.Rule, want.File, want.Path, e.Locator))
			default:
				fail("C03-mislocated-"+e.Rule, fmt.Sprintf("%s: op %s expects %s at file=%q path=%s (%s); got %v", where, opn, e.Rule, want.File, want.Path, e.Locator, gotOf(as, e.Rule)))
			}
		}
		for _, v := range sg.Versions {
			for _, cat := range sg.Categories {
				if sg.ActiveIn(v.Name, e.Rule, cat) {
					check(v.Name+"/"+cat, pe.Sets[v.Name+"/"+cat])
				}
			}
		}
		if as, ok := single[e.Rule]; ok {
			check("v2/single:"+e.Rule, as)
		}
	}
	return true
}

// ---------------------------------------------------------------------------------------------
// The plan: which operator is planted where.  It is computed up front (deterministically from the
// seed) over ALL bases so that the choice can be stratified: every (operator, kind of element)
// pair that is applicable anywhere is planted at least once (quick) / at up to three bases in both
// variants (thorough), and every (base, operator) pair keeps at least one plant.  The kind of a
// field site is syntax:shape/type (sg.FieldKind: proto2 / proto3 / editions x singular, implicit,
// proto3 optional, required, repeated packed / expanded, map, oneof member, extension x scalar,
// message, enum, group, delimited by a field feature, delimited inherited from the file).

type entry struct {
	bi, oi int
	site   sg.Site
	kind   string
	mixed  bool
	why    string // "kind" (stratum) | "base" (top-up: every operator on every base)
}

type baseT struct {
	st  sg.State
	zoo int
}

func genBase(root *hx.Rand, bi int) baseT {
	r := root.Fork(uint64(bi))
	zoo := bi%(sg.NumZoo+1) - 1 // -1 (no zoo), proto2, proto3, editions, editions-inherited
	st := sg.State{S: sg.GenerateZoo(r, zoo), K: sg.PlainKnobs}
	if r.Bool() {
		st.K = sg.RandKnobs(r)
	}
	return baseT{st: st, zoo: zoo}
}

type cand struct {
	bi     int
	site   sg.Site
	kind   string
	syntax string
}

// makePlan: for every operator, (1) one plant (thorough: up to three bases, both variants) per
// KIND of element it is applicable to, preferring sites in a file syntax the operator has not
// been planted in yet and the least loaded base; (2) one per file SYNTAX still uncovered;
// (3) top-up at random sites until the operator has minPerOp plants.
func makePlan(run *hx.Run, root *hx.Rand, bases []baseT) (plan []entry, strata int) {
	pr := root.Fork(1 << 40)
	load := make([]int, len(bases))
	perKind, minPerOp := 1, 10
	if run.Thorough() {
		perKind, minPerOp = 3, 24
	}
	flip := false
	for oi, op := range sg.BreakingOps {
		var cs []cand
		kindSet, synSet := map[string]bool{}, map[string]bool{}
		for bi, b := range bases {
			for _, site := range op.Sites(b.st.S) {
				c := cand{bi, site, op.SiteKind(b.st.S, site), op.SiteSyntax(b.st.S, site)}
				cs = append(cs, c)
				kindSet[c.kind], synSet[c.syntax] = true, true
			}
		}
		if len(cs) == 0 {
			continue
		}
		kinds := make([]string, 0, len(kindSet))
		for k := range kindSet {
			kinds = append(kinds, k)
		}
		sort.Strings(kinds)
		syns := make([]string, 0, len(synSet))
		for k := range synSet {
			syns = append(syns, k)
		}
		sort.Strings(syns)
		strata += len(kinds) + len(syns)
		synDone := map[string]int{}
		nOp := 0
		add := func(c cand, why string) {
			variants := []bool{false, true}
			if !run.Thorough() {
				flip = !flip
				variants = []bool{flip}
			}
			for _, mixed := range variants {
				plan = append(plan, entry{bi: c.bi, oi: oi, site: c.site, kind: c.kind + "@" + c.syntax, mixed: mixed, why: why})
				load[c.bi]++
				nOp++
			}
			synDone[c.syntax]++
		}
		// choose among `pool` the candidate with the least covered syntax, then least loaded
		// base; ties are broken at random (reservoir)
		choose := func(pool []cand, usedBase map[int]bool) (cand, bool) {
			var best cand
			found, ties := false, 0
			for _, c := range pool {
				if usedBase[c.bi] {
					continue
				}
				better := !found || synDone[c.syntax] < synDone[best.syntax] ||
					(synDone[c.syntax] == synDone[best.syntax] && load[c.bi] < load[best.bi])
				same := found && synDone[c.syntax] == synDone[best.syntax] && load[c.bi] == load[best.bi]
				switch {
				case better:
					best, found, ties = c, true, 1
				case same:
					ties++
					if pr.Intn(ties) == 0 {
						best = c
					}
				}
			}
			return best, found
		}
		for _, k := range kinds {
			var pool []cand
			for _, c := range cs {
				if c.kind == k {
					pool = append(pool, c)
				}
			}
			used := map[int]bool{}
			for n := 0; n < perKind; n++ {
				c, ok := choose(pool, used)
				if !ok {
					break
				}
				used[c.bi] = true
				add(c, "kind")
			}
		}
		for _, sy := range syns {
			if synDone[sy] > 0 {
				continue
			}
			var pool []cand
			for _, c := range cs {
				if c.syntax == sy {
					pool = append(pool, c)
				}
			}
			if c, ok := choose(pool, map[int]bool{}); ok {
				add(c, "syntax")
			}
		}
		for tries := 0; nOp < minPerOp && tries < 4*minPerOp; tries++ {
			add(hx.Pick(pr, cs), "top-up")
		}
	}
	sort.SliceStable(plan, func(i, j int) bool {
		if plan[i].bi != plan[j].bi {
			return plan[i].bi < plan[j].bi
		}
		return plan[i].oi < plan[j].oi
	})
	return plan, strata
}

func main() {
	run := hx.Start("C03")
	// probe once, before the parallel jobs: which model dispatch matches this tree
	run.Set("tree_has_package_last_element_fix", sg.TreeHasPackageFix())
	root := hx.NewRand(run.Seed)
	nBases := run.N(25, 40) // in.txt stays < 200 MB in the thorough tier
	bases := make([]baseT, nBases)
	for bi := range bases {
		bases[bi] = genBase(root, bi)
	}
	plan, strata := makePlan(run, root, bases)
	run.Set("plan_entries", len(plan))
	run.Set("plan_strata", strata)
	// job unit: up to `chunk` consecutive plan entries of one base; --only addresses a plan entry
	const chunk = 9
	type jobT struct{ lo, hi int }
	var jobs []jobT
	jobOf := make([]int, len(plan))
	for i := 0; i < len(plan); {
		j := i
		for j < len(plan) && j-i < chunk && plan[j].bi == plan[i].bi {
			j++
		}
		for x := i; x < j; x++ {
			jobOf[x] = len(jobs)
		}
		jobs = append(jobs, jobT{i, j})
		i = j
	}
	only := run.Only
	if only >= 0 {
		if only >= len(plan) {
			fmt.Println("--only: no such plan entry")
			return
		}
		run.Only = jobOf[only]
	}
	firstJobOfBase := map[int]int{}
	for ji, j := range jobs {
		if _, ok := firstJobOfBase[plan[j.lo].bi]; !ok {
			firstJobOfBase[plan[j.lo].bi] = ji
		}
	}
	sets := sg.RunJobs(run, len(jobs), func(ji int, rn *sg.Runner) *sg.Result {
		res := sg.NewResult()
		jb := jobs[ji]
		bi := plan[jb.lo].bi
		base := bases[bi].st
		cache := sg.NewCache()
		first := firstJobOfBase[bi] == ji
		prev, err := cache.Compile(base.Sources())
		if err != nil {
			if first {
				res.Count("gen:compile-error")
				res.Samples = append(res.Samples, map[string]any{"gen-compile-error": err.Error(), "sources": base.Sources()})
			}
			return res
		}
		if first {
			res.Count("gen:ok")
			res.Count(fmt.Sprintf("zoo:%d", bases[bi].zoo))
			sg.CountSchema(res, base.S)
		}
		for pi := jb.lo; pi < jb.hi; pi++ {
			if only >= 0 && pi != only {
				continue
			}
			e := plan[pi]
			op := sg.BreakingOps[e.oi]
			rv := root.Fork(uint64(1<<41) + uint64(pi))
			kindOnly, syn, _ := strings.Cut(e.kind, "@")
			keys := []string{op.Name + "|" + kindOnly, op.Name + "|@" + syn}
			p, ok := plant(base, op, e.site, e.mixed, rv, res)
			if !ok {
				// the site turned out not to be applicable: try the other sites of the same
				// kind and syntax in this base (alone), so that the stratum is not lost
				res.Count("not-applicable-after-all:" + op.Name)
				alts := op.Sites(base.S)
				if e.mixed {
					alts = append([]sg.Site{e.site}, alts...) // first the same site, alone
				}
				for ai, alt := range alts {
					if (alt == e.site && !(e.mixed && ai == 0)) || op.SiteKind(base.S, alt) != kindOnly || op.SiteSyntax(base.S, alt) != syn {
						continue
					}
					if p, ok = plant(base, op, alt, false, rv, res); ok {
						res.Count("replanted-at-alternative-site:" + op.Name)
						break
					}
				}
				if !ok {
					continue
				}
			}
			p.note = "{" + e.kind + "} " + p.note
			if evalPlanted(run, pi, res, rn, cache, prev, p, rv) {
				res.Count("plan:" + e.why)
				res.Sets["operator_kind_planted"] = append(res.Sets["operator_kind_planted"], keys...)
				res.Count("kind:" + kindOnly)
				res.Count("syntax-of-site:" + syn)
			}
		}
		return res
	})
	run.Only = only
	// which applicable (operator, kind) pairs ended up without an evaluated plant
	planted := map[string]bool{}
	for _, k := range sets["operator_kind_planted"] {
		planted[k] = true
	}
	wanted := map[string]bool{}
	for _, e := range plan {
		kindOnly, syn, _ := strings.Cut(e.kind, "@")
		wanted[sg.BreakingOps[e.oi].Name+"|"+kindOnly] = true
		wanted[sg.BreakingOps[e.oi].Name+"|@"+syn] = true
	}
	var unhit []string
	for k := range wanted {
		if !planted[k] {
			unhit = append(unhit, k)
		}
	}
	sort.Strings(unhit)
	run.Set("operator_kind_pairs_not_planted", unhit)
	for k, v := range sets {
		run.Set(k, v)
	}
	// which rule ids never had a checked expectation in this run
	have := map[string]bool{}
	for _, id := range sets["rules_with_checked_expectation"] {
		have[id] = true
	}
	var missing []string
	for _, v := range sg.Versions {
		for id := range sg.RuleCats[v.Name] {
			if !have[id] {
				have[id] = true
				missing = append(missing, id)
			}
		}
	}
	sort.Strings(missing)
	run.Set("rules_without_checked_expectation", missing)
	var names []string
	for _, op := range sg.BreakingOps {
		names = append(names, op.Name)
	}
	run.Set("operators", names)
	run.Finish()
}
