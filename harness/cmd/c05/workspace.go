package main

import (
	"context"
	"errors"
	"fmt"
	"io"
	"log/slog"
	"os"
	"sort"
	"strings"
	"time"

	"buf.build/go/bufplugin/check"
	"github.com/bufbuild/buf/private/bufpkg/bufanalysis"
	"github.com/bufbuild/buf/private/bufpkg/bufcheck"
	"github.com/bufbuild/buf/private/bufpkg/bufconfig"
	"github.com/bufbuild/buf/private/bufpkg/bufimage"
	"github.com/bufbuild/buf/private/bufpkg/bufmodule"
	"github.com/bufbuild/buf/private/bufpkg/bufmodule/bufmoduletesting"
	"github.com/bufbuild/verifharness/internal/hx"
)

var (
	ctx    = context.Background()
	logger = slog.New(slog.NewTextHandler(io.Discard, nil))
	debug  = os.Getenv("C05_DEBUG") != ""
)

// unmodelled rules: excluded on both sides of the correspondence, still judged by the oracle.
var unmodelled = map[string]bool{"PROTOVALIDATE": true}

type built struct {
	image bufimage.Image
	texts map[string]string
	spans map[string]map[string]span   // file -> path key -> span
	index map[string]map[span][]string // file -> span -> path keys (several only for groups)
}

// build renders the workspace and compiles it with buf's own image builder; the import-only
// file lives in a second, non-targeted module.
func build(w *wsT) (b *built, err error) {
	defer since(time.Now(), &tBuild)
	defer func() {
		if r := recover(); r != nil {
			err = fmt.Errorf("panic in build: %v", r)
		}
	}()
	b = &built{texts: map[string]string{}, spans: map[string]map[string]span{}, index: map[string]map[span][]string{}}
	target := map[string][]byte{}
	dep := map[string][]byte{}
	for _, f := range w.files {
		text, spans := render(w, f)
		if _, dup := b.texts[f.path]; dup {
			return nil, fmt.Errorf("duplicate file path %s", f.path)
		}
		b.texts[f.path] = text
		b.spans[f.path] = spans
		idx, err := spanIndex(spans)
		if err != nil {
			return nil, fmt.Errorf("harness bug: %s: %w", f.path, err)
		}
		b.index[f.path] = idx
		if f.isImport {
			dep[f.path] = []byte(text)
		} else {
			target[f.path] = []byte(text)
		}
	}
	ms, err := bufmoduletesting.NewModuleSet(
		bufmoduletesting.ModuleData{PathToData: target},
		bufmoduletesting.ModuleData{PathToData: dep, NotTargeted: true},
	)
	if err != nil {
		return nil, err
	}
	b.image, err = bufimage.BuildImage(ctx, logger, bufmodule.ModuleSetToModuleReadBucketWithOnlyProtoFiles(ms))
	if err != nil {
		return nil, err
	}
	return b, nil
}

// selfCheck compares the renderer's position table with the compiler's source code info: a
// difference is a bug of the harness renderer (or an unexpected protocompile convention), never
// a property violation.
func (b *built) selfCheck() error {
	for _, f := range b.image.Files() {
		spans, ok := b.spans[f.Path()]
		if !ok {
			continue
		}
		got := map[string]span{}
		for _, l := range f.FileDescriptorProto().GetSourceCodeInfo().GetLocation() {
			parts := make([]string, len(l.Path))
			for i, p := range l.Path {
				parts[i] = fmt.Sprint(p)
			}
			key := strings.Join(parts, ".")
			if _, seen := got[key]; seen {
				continue
			}
			sp := l.Span
			s := span{int(sp[0]) + 1, int(sp[1]) + 1, int(sp[0]) + 1, int(sp[2]) + 1}
			if len(sp) == 4 {
				s = span{int(sp[0]) + 1, int(sp[1]) + 1, int(sp[2]) + 1, int(sp[3]) + 1}
			}
			got[key] = s
		}
		for key, want := range spans {
			if got[key] != want {
				return fmt.Errorf("%s: path %s rendered at %v but compiler says %v", f.Path(), key, want, got[key])
			}
		}
	}
	return nil
}

var perUse = map[string]time.Duration{}
var perUseN = map[string]int{}

type lintCfg struct {
	version bufconfig.FileVersion
	use     []string
	opts    lintOpts
	except  []string
}

func (c lintCfg) String() string {
	return fmt.Sprintf("%v use=%s except=%s zero=%q svc=%q same=%v ereq=%v eresp=%v", c.version, strings.Join(c.use, "+"), strings.Join(c.except, "+"), c.opts.zeroSuffix, c.opts.svcSuffix, c.opts.allowSame, c.opts.allowEmptyReq, c.opts.allowEmptyResp)
}

type annT struct {
	rule, file, path string
	line, col        int
	msg              string
}

func (a annT) key() string { return a.rule + "@" + hx.Enc(a.file) + "@" + a.path }

type linter struct {
	client bufcheck.Client
	rules  map[string][]string // cfg key -> configured rule ids
}

func newLinter() *linter {
	client, err := bufcheck.NewClient(logger, bufcheck.NewLocalRunnerProvider(nil, nil, nil))
	if err != nil {
		panic(err)
	}
	return &linter{client: client, rules: map[string][]string{}}
}

func (l *linter) lintConfig(c lintCfg) bufconfig.LintConfig {
	var cc bufconfig.CheckConfig
	if len(c.except) == 0 {
		cc = bufconfig.NewEnabledCheckConfigForUseIDsAndCategories(c.version, c.use, false)
	} else {
		var err error
		cc, err = bufconfig.NewEnabledCheckConfig(c.version, c.use, c.except, nil, nil, false)
		if err != nil {
			panic(err)
		}
	}
	return bufconfig.NewLintConfig(cc, c.opts.zeroSuffix, c.opts.allowSame, c.opts.allowEmptyReq, c.opts.allowEmptyResp, c.opts.svcSuffix, false)
}

func (l *linter) configured(c lintCfg) ([]string, error) {
	key := fmt.Sprintf("%v|%s|%s", c.version, strings.Join(c.use, ","), strings.Join(c.except, ","))
	if r, ok := l.rules[key]; ok {
		return r, nil
	}
	rules, err := l.client.ConfiguredRules(ctx, check.RuleTypeLint, l.lintConfig(c))
	if err != nil {
		return nil, err
	}
	ids := []string{}
	for _, r := range rules {
		ids = append(ids, r.ID())
	}
	sort.Strings(ids)
	l.rules[key] = ids
	return ids, nil
}

// lint runs the real client and resolves every reported position through the renderer's table.
func (l *linter) lint(b *built, c lintCfg) (anns []annT, err error) {
	defer since(time.Now(), &tLint)
	defer func() {
		if r := recover(); r != nil {
			err = fmt.Errorf("panic in Lint: %v", r)
		}
	}()
	t0 := time.Now()
	lerr := l.client.Lint(ctx, l.lintConfig(c), b.image)
	if debug {
		perUse[strings.Join(c.use, "+")] += time.Since(t0)
		perUseN[strings.Join(c.use, "+")]++
	}
	if lerr == nil {
		return nil, nil
	}
	var fas bufanalysis.FileAnnotationSet
	if !errors.As(lerr, &fas) {
		return nil, lerr
	}
	for _, fa := range fas.FileAnnotations() {
		a := annT{rule: fa.Type(), line: fa.StartLine(), col: fa.StartColumn(), msg: fa.Message()}
		if fa.FileInfo() != nil {
			a.file = fa.FileInfo().Path()
		}
		s := span{fa.StartLine(), fa.StartColumn(), fa.EndLine(), fa.EndColumn()}
		if s == (span{1, 1, 1, 1}) {
			a.path = "" // reported without a location
		} else if keys, ok := b.index[a.file][s]; ok {
			a.path = resolveSpan(keys, a.rule)
		} else {
			a.path = fmt.Sprintf("unknown-position-%d:%d-%d:%d", s.sl, s.sc, s.el, s.ec)
		}
		anns = append(anns, a)
	}
	return anns, nil
}

func optsField(o lintOpts) string {
	return strings.Join([]string{hx.Enc(o.zeroSuffix), hx.Enc(o.svcSuffix), b2s(o.allowSame), b2s(o.allowEmptyReq), b2s(o.allowEmptyResp), hx.Enc("buf:lint:ignore")}, " ")
}

func sortedKeys(m map[string]bool) []string {
	out := make([]string, 0, len(m))
	for k := range m {
		out = append(out, k)
	}
	sort.Strings(out)
	return out
}

// expT is an annotation the property demands: rule at (file, element path).
type expT struct{ rule, file, path string }

func (e expT) key() string { return e.rule + "@" + hx.Enc(e.file) + "@" + e.path }

// judge runs one (workspace, config) pair: correspondence line + oracle.
func judge(run *hx.Run, l *linter, w *wsT, b *built, c lintCfg, what string, expected []expT, replay string) {
	ids, err := l.configured(c)
	if err != nil {
		run.Fail(hx.OracleFailure{Class: "c05-configured-rules-error", What: err.Error(), Input: c.String(), Replay: replay})
		return
	}
	conf := map[string]bool{}
	modelled := []string{}
	for _, id := range ids {
		conf[id] = true
		if !unmodelled[id] {
			modelled = append(modelled, id)
		}
	}
	anns, err := l.lint(b, c)
	if err != nil {
		run.Fail(hx.OracleFailure{Class: "c05-lint-error", What: fmt.Sprintf("%s: Lint failed: %v", what, err), Input: map[string]any{"config": c.String(), "files": b.texts}, Replay: replay})
		return
	}
	// oracle (implementation only): the annotations are exactly the expected ones of the configured rules
	want := map[string]bool{}
	for _, e := range expected {
		if conf[e.rule] {
			want[e.key()] = true
		}
	}
	got := map[string]bool{}
	gotModelled := map[string]bool{}
	detail := map[string]string{}
	cycleCount := map[string]int{}
	for _, a := range anns {
		// PACKAGE_NO_IMPORT_CYCLE: an import statement belongs to ONE (package, directly imported
		// package) pair, so it is annotated at most once ("exactly once" with the owed set below)
		if a.rule == "PACKAGE_NO_IMPORT_CYCLE" {
			if cycleCount[a.key()]++; cycleCount[a.key()] == 2 {
				run.Fail(hx.OracleFailure{Class: "c05-import-cycle-annotated-twice", What: fmt.Sprintf("%s: %s %s:%d:%d is reported more than once", what, a.rule, a.file, a.line, a.col),
					Input: map[string]any{"config": c.String(), "files": b.texts}, Replay: replay})
			}
		}
		got[a.key()] = true
		detail[a.key()] = fmt.Sprintf("%s %s:%d:%d %s", a.rule, a.file, a.line, a.col, a.msg)
		if !unmodelled[a.rule] {
			gotModelled[a.key()] = true
		}
	}
	// a rule that the configuration names explicitly but that the client never runs
	for _, e := range expected {
		if conf[e.rule] || e.rule != "IMPORT_NO_WEAK" {
			continue
		}
		for _, u := range c.use {
			if u == e.rule {
				run.Fail(hx.OracleFailure{Class: "c05-import-no-weak-never-reported",
					What:  fmt.Sprintf("%s [%s]: a weak import is never reported: IMPORT_NO_WEAK is deprecated without replacement, belongs to no category, is dropped from `use`, and its handler does nothing", what, c.String()),
					Input: map[string]any{"config": c.String(), "files": b.texts, "expected": e.key()}, Replay: replay})
			}
		}
	}
	for k := range got {
		if !want[k] {
			cls := "c05-unexpected-annotation"
			if len(expected) == 0 {
				cls = "c05-false-positive-on-clean-workspace"
			}
			if strings.Contains(k, "unknown-position") {
				cls = "c05-annotation-at-wrong-position"
			}
			note := ""
			if c2, ok := unexpectedClass[k]; ok {
				cls, note = c2, " — "+unexpectedNote[k] // the comment shape family (comments.go): a documented element was flagged
			}
			run.Fail(hx.OracleFailure{Class: cls, What: fmt.Sprintf("%s [%s]: unexpected annotation %s%s", what, c.String(), detail[k], note),
				Input: map[string]any{"config": c.String(), "files": b.texts, "expected": sortedKeys(want), "got": sortedKeys(got)}, Replay: replay})
		}
	}
	for k := range want {
		if !got[k] {
			rule := k[:strings.Index(k, "@")]
			cls := "c05-missed-violation-" + rule
			run.Fail(hx.OracleFailure{Class: cls, What: fmt.Sprintf("%s [%s]: planted violation not reported: %s", what, c.String(), k),
				Input: map[string]any{"config": c.String(), "files": b.texts, "expected": sortedKeys(want), "got": sortedKeys(got)}, Replay: replay})
		}
	}
	// correspondence line.  clean / dirty come from the operator's documentation-level EXPECTATION
	// (which rules it set out to violate), not from what the implementation reported: the model
	// answers with its Clean specification (cleanRule) evaluated rule by rule.
	clean := "1"
	dirtySet := map[string]bool{}
	for _, e := range expected {
		if conf[e.rule] && !unmodelled[e.rule] {
			clean = "0"
			dirtySet[e.rule] = true
		}
	}
	dirty := "-"
	if len(dirtySet) > 0 {
		dirty = strings.Join(sortedKeys(dirtySet), ",")
	}
	line := "lint\t" + optsField(c.opts) + "\t" + strings.Join(modelled, ",") + "\t" + w.serialise()
	run.Case(line, "clean="+clean+" dirty="+dirty+" names="+b2s(w.methodNamesDistinct())+" "+strings.Join(sortedKeys(gotModelled), ";"), len(gotModelled) > 0)
	run.Count(fmt.Sprintf("B:lint:%v:%s", c.version, strings.Join(c.use, "+")))
	for _, a := range anns {
		run.Count("B:annotation:" + a.rule)
	}
}

// methodNamesDistinct: no two RPCs of the target files have the same fully-qualified name
// <package>.<Service>.<Rpc> (the linker guarantees it; it is the hypothesis under which the Lean
// theorems identify the rule as coded — maps keyed by that name — with the documented one)
func (w *wsT) methodNamesDistinct() bool {
	seen := map[string]bool{}
	for _, fi := range targets(w) {
		f := w.files[fi]
		for _, s := range f.svcs {
			for _, m := range s.rpcs {
				n := s.name + "." + m.name
				if f.pkg != "" {
					n = f.pkg + "." + n
				}
				if seen[n] {
					return false
				}
				seen[n] = true
			}
		}
	}
	return true
}

var versions = []bufconfig.FileVersion{bufconfig.FileVersionV1Beta1, bufconfig.FileVersionV1, bufconfig.FileVersionV2}

// allUse enables every category of the property plus the uncategorised rules of each version.
func allUse(v bufconfig.FileVersion) []string {
	use := []string{"MINIMAL", "BASIC", "STANDARD", "COMMENTS", "UNARY_RPC", "IMPORT_NO_WEAK"}
	switch v {
	case bufconfig.FileVersionV1Beta1:
		use = append(use, "OTHER")
	case bufconfig.FileVersionV1:
		use = append(use, "PACKAGE_NO_IMPORT_CYCLE")
	case bufconfig.FileVersionV2:
		use = append(use, "STABLE_PACKAGE_NO_IMPORT_UNSTABLE")
	}
	return use
}

// optionSets: every option alone and in ASYMMETRIC combinations (only one of the two
// allow_google_protobuf_empty_* flags, with and without allow_same; one custom suffix without the
// other), so a rule that consults the wrong option, or both, changes some verdict.
var optionSets = []lintOpts{
	{},
	{allowEmptyReq: true},
	{allowEmptyResp: true, svcSuffix: "Endpoint"},
	{zeroSuffix: "_NONE", svcSuffix: "API"},
	{allowSame: true, allowEmptyReq: true, allowEmptyResp: true},
	{zeroSuffix: "_ZERO", allowSame: true},
	{allowSame: true, allowEmptyResp: true},
	{allowSame: true, allowEmptyReq: true, svcSuffix: "Handler"},
	{allowEmptyReq: true, allowEmptyResp: true},
	// the DEFAULT suffixes spelled out in the configuration: same meaning as leaving them unset
	{zeroSuffix: "_UNSPECIFIED", svcSuffix: "Service"},
}

func sectionB(run *hx.Run, r *hx.Rand) {
	l := newLinter()
	nws := run.N(10, 20)
	for wi := 0; wi < nws; wi++ {
		if !wantWorkspace(wi) {
			continue
		}
		rr := r.Fork(uint64(wi))
		o := optionSets[wi%len(optionSets)]
		w := genWorkspace(rr, o)
		replay := fmt.Sprintf("c05 --seed %d --tier %s (workspace %d)", run.Seed, run.Tier, wi)
		b, err := build(w)
		if err != nil {
			// a clean workspace that does not build is a generator bug: make it loud
			run.Fail(hx.OracleFailure{Class: "c05-harness-generated-invalid-workspace", What: err.Error(), Input: textsOf(w), Replay: replay})
			continue
		}
		if err := b.selfCheck(); err != nil {
			run.Fail(hx.OracleFailure{Class: "c05-harness-renderer-position-table", What: err.Error(), Input: b.texts, Replay: replay})
			continue
		}
		if wi < 2 {
			run.Sample(map[string]any{"workspace": wi, "files": b.texts})
		}
		run.Count(fmt.Sprintf("B:workspace:files=%d", len(w.files)))
		for _, v := range versions {
			if onlyNewFamilies {
				break
			}
			for _, use := range [][]string{{"MINIMAL"}, {"BASIC"}, {"STANDARD"}, {"COMMENTS"}, {"UNARY_RPC"}, allUse(v)} {
				judge(run, l, w, b, lintCfg{v, use, o, nil}, fmt.Sprintf("clean workspace %d", wi), nil, replay)
			}
		}
		if !onlyNewFamilies {
			plantAll(run, l, rr, w, o, wi, replay, nil, false)
		}
		commentShapeFamily(run, l, rr, w, o, wi, replay, run.N(3, 8))
	}
	// the name-collision family (collide.go): workspaces numbered from 100
	for ci, nc := 0, run.N(2, 4); ci < nc; ci++ {
		wi := 100 + ci
		if !wantWorkspace(wi) || onlyNewFamilies {
			continue
		}
		rr := r.Fork(uint64(wi))
		o := optionSets[(ci*3+int(run.Seed%10))%len(optionSets)]
		w, info := genCollisionWorkspace(rr, o)
		replay := fmt.Sprintf("c05 --seed %d --tier %s (name-collision workspace %d)", run.Seed, run.Tier, wi)
		b, err := build(w)
		if err != nil {
			run.Fail(hx.OracleFailure{Class: "c05-harness-generated-invalid-workspace", What: "name-collision workspace: " + err.Error(), Input: textsOf(w), Replay: replay})
			continue
		}
		if err := b.selfCheck(); err != nil {
			run.Fail(hx.OracleFailure{Class: "c05-harness-renderer-position-table", What: err.Error(), Input: b.texts, Replay: replay})
			continue
		}
		if ci == 0 {
			run.Sample(map[string]any{"name-collision workspace": wi, "files": b.texts})
		}
		run.Count(fmt.Sprintf("C:workspace:files=%d", len(w.files)))
		for _, v := range versions {
			for _, use := range [][]string{{"MINIMAL"}, {"BASIC"}, {"STANDARD"}, {"COMMENTS"}, {"UNARY_RPC"}, allUse(v)} {
				judge(run, l, w, b, lintCfg{v, use, o, nil}, fmt.Sprintf("clean name-collision workspace %d", wi), nil, replay)
			}
		}
		plantAll(run, l, rr, w, o, wi, replay, info, false)
	}
	// the wide workspace (wide.go), numbered from 200: LAST, so that its budget goes to what the other
	// workspaces cannot offer (elements at an index >= 10) and to whatever stratum is still uncovered;
	// one per run (the thorough tier runs two seeds, hence two of them)
	for ci, nc := 0, 1; ci < nc; ci++ {
		wi := 200 + ci
		if !wantWorkspace(wi) || onlyNewFamilies {
			continue
		}
		rr := r.Fork(uint64(wi))
		o := optionSets[(ci*5+int(run.Seed%10)+3)%len(optionSets)]
		w := genWideWorkspace(rr, o)
		replay := fmt.Sprintf("c05 --seed %d --tier %s (wide workspace %d)", run.Seed, run.Tier, wi)
		b, err := build(w)
		if err != nil {
			run.Fail(hx.OracleFailure{Class: "c05-harness-generated-invalid-workspace", What: "wide workspace: " + err.Error(), Input: textsOf(w), Replay: replay})
			continue
		}
		if err := b.selfCheck(); err != nil {
			run.Fail(hx.OracleFailure{Class: "c05-harness-renderer-position-table", What: err.Error(), Input: b.texts, Replay: replay})
			continue
		}
		run.Count(fmt.Sprintf("W:workspace:files=%d", len(w.files)))
		for _, v := range versions {
			for _, use := range [][]string{{"MINIMAL"}, {"BASIC"}, {"STANDARD"}, {"COMMENTS"}, {"UNARY_RPC"}, allUse(v)} {
				judge(run, l, w, b, lintCfg{v, use, o, nil}, fmt.Sprintf("clean wide workspace %d", wi), nil, replay)
			}
		}
		plantAll(run, l, rr, w, o, wi, replay, nil, true)
	}
	// the package import cycle family (cycles.go), workspaces numbered from 300
	cycleFamily(run, l, r)
}

// onlyNewFamilies: C05_FAMILIES=1 runs only the comment shape family (on the regular workspaces, without
// their other plants) and the import cycle family — a development aid for cheap seed sweeps (~3 s per seed)
var onlyNewFamilies = os.Getenv("C05_FAMILIES") != ""

// wantWorkspace: C05_WS=3,100,200 restricts Section B to these workspaces (development / replay aid;
// Section A is skipped then)
func wantWorkspace(wi int) bool {
	v := os.Getenv("C05_WS")
	if v == "" {
		return true
	}
	for _, t := range strings.Split(v, ",") {
		if t == fmt.Sprint(wi) {
			return true
		}
	}
	return false
}

func textsOf(w *wsT) map[string]string {
	out := map[string]string{}
	for _, f := range w.files {
		t, _ := render(w, f)
		out[f.path] = t
	}
	return out
}
