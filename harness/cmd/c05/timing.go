package main

import (
	"fmt"
	"os"
	"time"
)

var tBuild, tLint, tSer, tEnum, tSelect time.Duration

func reportTiming() {
	if debug {
		fmt.Fprintln(os.Stderr, "build", tBuild, "lint", tLint, "serialise", tSer, "enumerate", tEnum, "select", tSelect)
		for k, v := range perUse {
			fmt.Fprintln(os.Stderr, k, v/time.Duration(perUseN[k]), perUseN[k])
		}
	}
}

func since(t time.Time, acc *time.Duration) { *acc += time.Since(t) }
