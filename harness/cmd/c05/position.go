package main

import (
	"fmt"
	"strconv"
	"strings"
)

// The DECLARATION-ORDER family.
//
// "Look at element [0] only" (or: the last one, the first ten, the first NAME of a number) is a
// generic slip of every per-element rule: the iteration helper hands the rule ONE element at a time,
// and a rule rewritten to take the parent and pick the element itself is silent about every element it
// does not pick.  Two things make such a slip visible:
//
//  1. POSITION strata (this file, posClass / listKind): every plant at an element knows where the
//     element sits in the list the iteration helper walks — first / middle / last / only / at an index
//     >= 10 (wide parents: wide.go) — per KIND of list (the fields of a message, the extensions
//     nested in a message, the file-level extensions, top-level and nested messages and enums, the
//     values of an enum, oneofs, services, RPCs, imports, the files of the workspace).  Selection
//     (selectPlants) spends a part of every workspace's budget on the least covered (rule, list, position).
//
//  2. The ENUM family (enumFamilyPlants): for the enum-value rules the order of DECLARATION and the
//     NUMBERS are independent — a closed enum (proto2; editions `features.enum_type = CLOSED` at the
//     enum or at the file) may declare a non-zero value before the zero value, `allow_alias` gives a
//     number several names, numbers may be negative.  The generator's clean enums always start with
//     their only zero value, so every other shape is PLANTED: the whole value list of an enum is
//     replaced by a template, and the expectation is written from the rule documentation alone (enumDoc).

// posClass: where index i sits among n siblings.
func posClass(i, n int) string {
	switch {
	case i >= 10:
		return "idx>=10"
	case n <= 1:
		return "only"
	case i == 0:
		return "first"
	case i == n-1:
		return "last"
	}
	return "middle"
}

func pathInts(p string) []int {
	var xs []int
	if p != "" {
		for _, t := range strings.Split(p, ".") {
			n, _ := strconv.Atoi(t)
			xs = append(xs, n)
		}
	}
	return xs
}

// listKind names the list an ELEMENT path indexes into, as the iteration helpers distinguish them
// (NewLintFieldRuleHandler has one loop for the fields of a message, one for the extensions nested in
// it and one for the file-level extensions; ForEachMessage / ForEachEnum one for the top-level list
// and one per nesting parent).  "" = not an element path.
func listKind(p string) string {
	xs := pathInts(p)
	if len(xs) == 0 || len(xs)%2 != 0 {
		return ""
	}
	ctx, kind := "file", ""
	for i := 0; i+1 < len(xs); i += 2 {
		switch ctx {
		case "file":
			switch xs[i] {
			case 3:
				ctx, kind = "leaf", "import"
			case 4:
				ctx, kind = "msg", "top-message"
			case 5:
				ctx, kind = "enum", "top-enum"
			case 6:
				ctx, kind = "svc", "service"
			case 7:
				ctx, kind = "leaf", "file-ext"
			default:
				return ""
			}
		case "msg":
			switch xs[i] {
			case 2:
				ctx, kind = "leaf", "field"
			case 3:
				ctx, kind = "msg", "nested-message"
			case 4:
				ctx, kind = "enum", "nested-enum"
			case 6:
				ctx, kind = "leaf", "nested-ext"
			case 8:
				ctx, kind = "leaf", "oneof"
			default:
				return ""
			}
		case "enum":
			if xs[i] != 2 {
				return ""
			}
			ctx, kind = "leaf", "value"
		case "svc":
			if xs[i] != 2 {
				return ""
			}
			ctx, kind = "leaf", "rpc"
		default:
			return ""
		}
	}
	return kind
}

// sibCounts: the length of every list of the file, keyed by the list's path (an element path without
// its last index): "4" top-level messages, "4.0.2" the fields of message 4.0, "5.1.2" the values of enum 5.1 …
func sibCounts(f *fileT) map[string]int {
	n := map[string]int{"3": len(f.imports), "4": len(f.msgs), "5": len(f.enums), "6": len(f.svcs), "7": len(f.exts)}
	f.eachMsgCtx(func(p, _ string, m *msgT, _ msgCtx) {
		n[p+".2"] = len(m.fields)
		n[p+".3"] = len(m.nestedItems())
		n[p+".4"] = len(m.enums)
		n[p+".6"] = len(m.exts)
		n[p+".8"] = len(m.oneofs)
	})
	f.eachEnum(func(p, _ string, e *enumT) { n[p+".2"] = len(e.values) })
	for si, s := range f.svcs {
		n[pk("6", si)+".2"] = len(s.rpcs)
	}
	return n
}

// elementPos: "<list kind>:<position class>" of the element at path ep ("" when ep is no element path).
func elementPos(sib map[string]int, ep string) string {
	k := listKind(ep)
	if k == "" {
		return ""
	}
	cut := strings.LastIndex(ep, ".")
	i, _ := strconv.Atoi(ep[cut+1:])
	return k + ":" + posClass(i, sib[ep[:cut]])
}

// baseRule: the rule an operator is named after (`FIELD_LOWER_SNAKE_CASE/upper-first` -> FIELD_LOWER_SNAKE_CASE).
func baseRule(op string) string {
	if i := strings.Index(op, "/"); i >= 0 {
		return op[:i]
	}
	return op
}

// strata2: the second stratification of a plant — (rule, list kind, position class) and the free tags
// of the enum family (closedness of the enum, nesting depth).
func (p plantT) strata2() []string {
	var out []string
	if p.pos != "" {
		out = append(out, "P|"+baseRule(p.op)+"@"+p.pos)
	}
	for _, t := range p.tags {
		out = append(out, "T|"+t)
	}
	return out
}

// ---- documentation-level expectation for everything a lint rule says about enums ----

// docCommentOK — COMMENT_*: "Checks that … have non-empty comments."  A comment documents the element
// when some line of it says something; a line that only carries a `buf:lint:ignore` directive does not.
func docCommentOK(c []string) bool {
	if isRaw(c) {
		return c[5] == "1" // the shape table's documentation-level verdict (comments.go)
	}
	for _, l := range c {
		t := strings.TrimSpace(l)
		if t != "" && !strings.HasPrefix(t, "buf:lint:ignore") {
			return true
		}
	}
	return false
}

// enumDoc lists, from the Purpose texts of the rules (bufcheckserverbuild) and the rule documentation
// alone, every annotation the eight enum rules owe on the target files of c:
//
//	COMMENT_ENUM                 "enums have non-empty comments"                       at the enum
//	ENUM_PASCAL_CASE             "enums are PascalCase"                                at the name
//	ENUM_NO_ALLOW_ALIAS          "enums do not have the allow_alias option set"        at the option
//	ENUM_FIRST_VALUE_ZERO        "all first values of enums have a numeric value of 0" — the first DECLARED
//	                             value, whatever the other values are                   at its number
//	COMMENT_ENUM_VALUE           "enum values have non-empty comments"                 EVERY value, at the value
//	ENUM_ZERO_VALUE_SUFFIX       "enum zero values have a consistent suffix"           EVERY name of the number 0,
//	                             wherever it is declared                                at the value's name
//	ENUM_VALUE_PREFIX            "enum values are prefixed with ENUM_NAME_UPPER_SNAKE_CASE"   EVERY value
//	ENUM_VALUE_UPPER_SNAKE_CASE  "enum values are UPPER_SNAKE_CASE"                    EVERY value
//
// A value is a value whether its number is new, repeats the number of an earlier value (allow_alias),
// is zero or negative.  Nothing here is taken from the implementation or from the Lean model.
func enumDoc(c *wsT, o lintOpts) []expT {
	exp := []expT{}
	for _, fi := range targets(c) {
		f := c.files[fi]
		f.eachEnum(func(p, _ string, e *enumT) {
			if !docCommentOK(e.comment) {
				exp = append(exp, expT{"COMMENT_ENUM", f.path, p})
			}
			if !rePascal.MatchString(e.name) {
				exp = append(exp, expT{"ENUM_PASCAL_CASE", f.path, p + ".1"})
			}
			if e.allowAlias {
				exp = append(exp, expT{"ENUM_NO_ALLOW_ALIAS", f.path, p + ".3.2"})
			}
			if len(e.values) > 0 && e.values[0].number != 0 {
				exp = append(exp, expT{"ENUM_FIRST_VALUE_ZERO", f.path, pk(p, 2, 0) + ".2"})
			}
			for vi, v := range e.values {
				vp := pk(p, 2, vi)
				if !docCommentOK(v.comment) {
					exp = append(exp, expT{"COMMENT_ENUM_VALUE", f.path, vp})
				}
				if v.number == 0 && !strings.HasSuffix(v.name, o.zero()) {
					exp = append(exp, expT{"ENUM_ZERO_VALUE_SUFFIX", f.path, vp + ".1"})
				}
				if !strings.HasPrefix(v.name, e.upper+"_") {
					exp = append(exp, expT{"ENUM_VALUE_PREFIX", f.path, vp + ".1"})
				}
				if !reUpperSnake.MatchString(v.name) {
					exp = append(exp, expT{"ENUM_VALUE_UPPER_SNAKE_CASE", f.path, vp + ".1"})
				}
			}
		})
	}
	return exp
}

// ---- the enum family ----

// enumTemplate: the NUMBERS of the values of an enum in declaration order.  A template whose first
// number is not 0 needs a closed enum; one with a repeated number needs `option allow_alias = true;`
// (then ENUM_NO_ALLOW_ALIAS is owed on top of whatever the values owe).
type enumTemplate struct {
	name string
	nums []int
}

func seq(from, to int) []int {
	var out []int
	for i := from; i <= to; i++ {
		out = append(out, i)
	}
	return out
}

var enumTemplates = []enumTemplate{
	{"[0,1,2]", []int{0, 1, 2}},
	{"[0]", []int{0}},
	{"[5]", []int{5}},
	{"[1,0,2]", []int{1, 0, 2}},
	{"[1,2,0]", []int{1, 2, 0}},
	{"[1,2,3]", []int{1, 2, 3}},
	{"[-1,0,1]", []int{-1, 0, 1}},
	{"[0,-1,min,max]", []int{0, -1, -2147483648, 2147483647}},
	{"[0,0,1]", []int{0, 0, 1}},
	{"[0,1,0]", []int{0, 1, 0}},
	{"[0,0,0]", []int{0, 0, 0}},
	{"[1,0,0]", []int{1, 0, 0}},
	{"[0,1,1]", []int{0, 1, 1}},
	{"[0,1,2,1]", []int{0, 1, 2, 1}},
	{"[0,-1,-1]", []int{0, -1, -1}},
	{"[0,1,1,2,2,2]", []int{0, 1, 1, 2, 2, 2}},
	{"[2,1,0,1,0]", []int{2, 1, 0, 1, 0}},
	{"[1..11,0]", append(seq(1, 11), 0)},
	{"[0..10,0]", append(seq(0, 10), 0)},
}

func (t enumTemplate) needsClosed() bool { return t.nums[0] != 0 }

func (t enumTemplate) needsAlias() bool {
	seen := map[int]bool{}
	for _, n := range t.nums {
		if seen[n] {
			return true
		}
		seen[n] = true
	}
	return false
}

// slotClass describes slot s by what a rule might (wrongly) key on: the sign of the number, and whether
// the number has other names (declared before / after this one).
func (t enumTemplate) slotClass(s int) string {
	num := "positive"
	switch {
	case t.nums[s] == 0:
		num = "zero"
	case t.nums[s] < 0:
		num = "negative"
	}
	before, after := 0, 0
	for i, n := range t.nums {
		if n == t.nums[s] && i < s {
			before++
		}
		if n == t.nums[s] && i > s {
			after++
		}
	}
	switch {
	case before == 0 && after == 0:
		return num + "/only-name-of-its-number"
	case before == 0:
		return num + "/1st-name-of-its-number"
	case before == 1:
		return num + "/2nd-name-of-its-number"
	}
	return num + "/3rd+-name-of-its-number"
}

// famValues builds the value list of template t for an enum whose documented value prefix is upper:
// every value conforms to every rule, except that slot badSlot (if >= 0) breaks exactly `bad`:
// "suffix" (a name of 0 without the configured suffix), "prefix", "case", "comment".
func famValues(t enumTemplate, upper, zero string, badSlot int, bad string, badComment []string) []valueT {
	var out []valueT
	for i, n := range t.nums {
		sfx := ""
		if n == 0 {
			sfx = zero
		}
		v := valueT{number: n, comment: []string{fmt.Sprintf("Value %d.", i)}, name: fmt.Sprintf("%s_N%d%s", upper, i, sfx)}
		if i == 0 && n == 0 {
			v.name = upper + zero
		}
		if (i+len(t.nums))%4 == 0 {
			v.noise = []string{"deprecated = false"}
		}
		if i == badSlot {
			switch bad {
			case "suffix":
				v.name = fmt.Sprintf("%s_N%d_UNKNOWN", upper, i)
			case "prefix":
				v.name = fmt.Sprintf("ZZ_N%d%s", i, sfx)
			case "case":
				v.name = fmt.Sprintf("%s_n%dx%s", upper, i, sfx)
			case "comment":
				v.comment = badComment
			}
		}
		out = append(out, v)
	}
	return out
}

// enumReferencedByProto3: a `syntax = "proto3"` file may only use OPEN enums as field types.
func (w *wsT) enumReferencedByProto3(fi int, nested string) bool {
	used := false
	for _, f := range w.files {
		if f.syntax != "proto3" {
			continue
		}
		f.eachRefOf(func(r *ref) {
			if r.file == fi && r.nested == nested {
				used = true
			}
		})
	}
	return used
}

type closedVariant struct {
	tag   string
	apply func(c *wsT, fi int, ee *enumT)
}

// closedVariants: how the enum is (or can be made) open / closed.
func closedVariants(w *wsT, fi int, nested string, e *enumT) []closedVariant {
	f := w.files[fi]
	switch {
	case f.syntax == "proto3":
		return []closedVariant{{"open:proto3", nil}}
	case f.syntax != "editions":
		return []closedVariant{{"closed:proto2", nil}}
	case f.enumClosed:
		return []closedVariant{{"closed:editions-file-feature", nil}}
	case e.closed:
		return []closedVariant{{"closed:editions-enum-feature", nil}}
	}
	out := []closedVariant{{"open:editions", nil}}
	if !w.enumReferencedByProto3(fi, nested) {
		out = append(out, closedVariant{"closed:editions-enum-feature", func(_ *wsT, _ int, ee *enumT) { ee.closed = true }})
		anyUsed := false
		f.eachEnum(func(_, n string, _ *enumT) { anyUsed = anyUsed || w.enumReferencedByProto3(fi, n) })
		if !anyUsed {
			out = append(out, closedVariant{"closed:editions-file-feature", func(c *wsT, fi int, _ *enumT) { c.files[fi].enumClosed = true }})
		}
	}
	return out
}

type famAdd func(op, kind, at, cat, posOv string, tags []string, mutate func(c *wsT) []expT)

// enumFamilyPlants enumerates, for ONE enum, every template x closedness variant x (no offending
// value | one offending value at every slot, for every value rule the slot can offend).
// Operators are named after the rule that is owed an annotation at the offending slot; templates
// without an offending value after ENUM_FIRST_VALUE_ZERO (non-zero first value), ENUM_NO_ALLOW_ALIAS
// (alias) or ENUM_VALUE_RULES/family-silent (nothing at all is owed: judged like a clean workspace).
func enumFamilyPlants(w *wsT, o lintOpts, fi int, p, nested string, e *enumT, enumKind string, get func(c *wsT) *enumT, pickBad func() []string, add famAdd) {
	f := w.files[fi]
	upper := e.upper
	mapValue := w.usedAsMapValue(fi, nested)
	for _, cv := range closedVariants(w, fi, nested, e) {
		cv := cv
		for _, t := range enumTemplates {
			t := t
			if t.needsClosed() && (!strings.HasPrefix(cv.tag, "closed") || mapValue) {
				continue
			}
			for s := -1; s < len(t.nums); s++ {
				s := s
				bads := []string{"none"}
				if s >= 0 {
					bads = []string{"prefix", "case", "comment"}
					if t.nums[s] == 0 {
						bads = append(bads, "suffix")
					}
				}
				for _, bad := range bads {
					bad := bad
					var op, cat, kind, at, posOv string
					at = f.path + ":" + p
					switch bad {
					case "suffix":
						op, cat, kind = "ENUM_ZERO_VALUE_SUFFIX/family", "STANDARD", fmt.Sprintf("t=%s:slot%d", t.name, s)
					case "prefix":
						op, cat, kind = "ENUM_VALUE_PREFIX/family", "STANDARD", t.slotClass(s)
					case "case":
						op, cat, kind = "ENUM_VALUE_UPPER_SNAKE_CASE/family", "BASIC", t.slotClass(s)
					case "comment":
						op, cat, kind = "COMMENT_ENUM_VALUE/family", "COMMENTS", t.slotClass(s)
					default:
						kind = "t=" + t.name
						switch {
						case t.needsClosed():
							op, cat = "ENUM_FIRST_VALUE_ZERO/family", "OTHER|BASIC"
						case t.needsAlias():
							op, cat = "ENUM_NO_ALLOW_ALIAS/family", "MINIMAL|BASIC"
						default:
							op, cat = "ENUM_VALUE_RULES/family-silent", "STANDARD"
						}
					}
					if s >= 0 {
						at = f.path + ":" + pk(p, 2, s)
						posOv = "value:" + posClass(s, len(t.nums))
					}
					tags := []string{baseRule(op) + "@" + cv.tag, baseRule(op) + "@" + enumKind}
					add(op, kind, at, cat, posOv, tags, func(c *wsT) []expT {
						ee := get(c)
						if cv.apply != nil {
							cv.apply(c, fi, ee)
						}
						var bc []string
						if bad == "comment" {
							bc = pickBad()
						}
						ee.values = famValues(t, upper, o.zero(), s, bad, bc)
						if t.needsAlias() {
							ee.allowAlias, ee.aliasFalse = true, false
						}
						return enumDoc(c, o)
					})
				}
			}
		}
	}
}

// ---- selection ----

func countStrata(p plantT, stratum func(plantT) string) {
	strataDone[stratum(p)]++
	for _, s := range p.strata2() {
		strataDone[s]++
	}
}
