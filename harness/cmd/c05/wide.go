package main

import (
	"fmt"
	"strconv"

	"github.com/bufbuild/verifharness/internal/hx"
)

// The WIDE workspace: every list an iteration helper walks has at least eleven elements somewhere, so
// that every per-element operator has a target at an index >= 10 (a rule that stops after the first
// ten elements, or indexes with a one-digit assumption, is silent there).  One package, one directory:
//
//	acme/wide/v1/part_1.proto … part_11.proto   proto3    eleven small files (>= 11 target files; imported below)
//	acme/wide/v1/types.proto                    proto2    11 top-level enums (the first with 12 values), 11 top-level
//	                                                      messages, the first of them WIDE: >= 11 fields, nested
//	                                                      messages, nested enums, oneofs, nested extensions;
//	                                                      11 file-level extensions
//	acme/wide/v1/service.proto                  proto3    11 services, the first with 11 RPCs (>= 40 top-level messages)
//	acme/wide/v1/more_types.proto               editions  11 imports (all used), a 12-value enum
//	Dep/BadFile.proto                           import-only
//
// Clean by construction like every generated workspace; run under the ordinary clean configurations,
// then planted at the least covered strata (selectWide).
const wideN = 11

func genWideWorkspace(r *hx.Rand, o lintOpts) *wsT {
	g := &gen{r: r, o: o, w: &wsT{}, used: map[string]bool{}, maxDepth: 1, extendable: map[int][]string{}}
	const pkg = "acme.wide.v1"
	scope := "pkg:" + pkg
	var cfg [7][]optT
	nFiles := wideN + 3
	for k := range cfg {
		cfg[k] = cleanOptConfig(r, k, nFiles)
	}
	mk := func(name, syntax string) int {
		i := len(g.w.files)
		var opts [7]optT
		for k := range opts {
			opts[k] = cfg[k][i]
		}
		g.w.files = append(g.w.files, &fileT{path: "acme/wide/v1/" + name + ".proto", pkg: pkg, syntax: syntax, opts: opts, order: []byte("emsx")})
		return i
	}
	nextNum := func(m *msgT) int {
		n := 0
		for _, f := range m.fields {
			n = max(n, f.number)
		}
		return n + 1
	}
	// the small files first: a file may only import files generated before it
	var parts []ref
	for i := 0; i < wideN; i++ {
		fi := mk("part_"+strconv.Itoa(i+1), "proto3")
		f := g.w.files[fi]
		g.depIdx = 1 << 30 // no dependency file yet: nothing may refer to it
		m := g.message(fi, scope, "", g.maxDepth, true, "")
		f.msgs = append(f.msgs, m)
		parts = append(parts, ref{fi, m.name})
		if i%3 == 0 {
			f.enums = append(f.enums, g.enum(scope, "", fi, true))
		}
	}
	types := mk("types", "proto2")
	svc := mk("service", "proto3")
	ed := mk("more_types", "editions")
	g.depIdx = len(g.w.files)
	g.w.files = append(g.w.files, depFile())

	// ---- types.proto ----
	ft := g.w.files[types]
	for i := 0; i < wideN; i++ {
		ft.enums = append(ft.enums, g.enum(scope, "", types, false))
	}
	widen := func(e *enumT, n int) {
		for k := 0; len(e.values) < n; k++ {
			e.values = append(e.values, valueT{name: fmt.Sprintf("%s_W%d", e.upper, k), comment: g.comment(), number: 300 + k})
		}
	}
	widen(&ft.enums[0], wideN+1)
	wm := g.message(types, scope, "", 0, false, "")
	inner := scope + "." + wm.name
	prefix := wm.name + "."
	for len(wm.msgs) < wideN {
		wm.msgs = append(wm.msgs, g.message(types, inner, prefix, 1, false, ""))
	}
	for len(wm.enums) < wideN {
		wm.enums = append(wm.enums, g.enum(inner, prefix, types, false))
	}
	widen(&wm.enums[len(wm.enums)-1], wideN+1)
	for len(wm.fields) < wideN {
		f := fieldT{name: g.fieldName(inner), comment: g.comment(), number: nextNum(&wm), oneof: -1, label: hx.Pick(g.r, []string{"optional", "optional", "repeated"}),
			noise: g.noise(fieldNoise, 1, 6)}
		g.fieldType(types, false, &f)
		wm.fields = append(wm.fields, f)
	}
	for len(wm.oneofs) < wideN {
		oname := g.uniq(inner, "choice", func(n int) string { return "choice_" + strconv.Itoa(n+2) })
		wm.oneofs = append(wm.oneofs, oneofT{name: oname, comment: g.comment()})
		wm.fields = append(wm.fields, fieldT{name: g.fieldName(inner), comment: g.comment(), number: nextNum(&wm), oneof: len(wm.oneofs) - 1, scalar: hx.Pick(g.r, scalars)})
	}
	if !wm.extRange {
		wm.extRange = true
		g.extendable[types] = append(g.extendable[types], wm.name)
	}
	for len(wm.exts) < wideN {
		wm.exts = append(wm.exts, g.extension(types, inner))
	}
	wm.fields = append(wm.fields, fieldT{name: "dep_ref", comment: []string{"Uses the dependency."}, ref: ref{g.depIdx, "bad_message"}, number: nextNum(&wm), oneof: -1, label: "optional"})
	g.ensureImport(types, g.depIdx, "")
	ft.msgs = append(ft.msgs, wm)
	for len(ft.msgs) < wideN {
		ft.msgs = append(ft.msgs, g.message(types, scope, "", 0, false, ""))
	}
	for len(ft.exts) < wideN {
		ft.exts = append(ft.exts, g.extension(types, scope))
	}

	// ---- service.proto ----
	fs := g.w.files[svc]
	for i := 0; i < wideN; i++ {
		g.fixRpcs = 1
		if i == 0 {
			g.fixRpcs = wideN
		}
		fs.svcs = append(fs.svcs, g.service(svc, scope))
	}
	g.fixRpcs = 0

	// ---- more_types.proto: one field per small file, so that all eleven imports are used ----
	fe := g.w.files[ed]
	we := g.enum(scope, "", ed, true)
	widen(&we, wideN+1)
	fe.enums = append(fe.enums, we, g.enum(scope, "", ed, true))
	pm := g.message(ed, scope, "", g.maxDepth, true, "")
	pinner := scope + "." + pm.name
	for _, p := range parts {
		pm.fields = append(pm.fields, fieldT{name: g.fieldName(pinner), comment: g.comment(), number: nextNum(&pm), oneof: -1, ref: p})
		g.ensureImport(ed, p.file, "")
	}
	fe.msgs = append(fe.msgs, pm, g.message(ed, scope, "", 0, true, ""))

	g.ensureKinds()
	g.toEditions(fe)
	return g.w
}
