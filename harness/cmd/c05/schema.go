package main

import (
	"fmt"
	"sort"
	"strconv"
	"strings"

	"github.com/bufbuild/verifharness/internal/hx"
)

// The harness's own schema representation.  It is the single source for (1) the rendered
// .proto text with a position table, (2) the serialisation sent to the Lean model and (3) the
// planting operators.  Nothing here is read back from the compiled image.

type ref struct {
	file   int    // index into ws.files; -1 = well-known type (nested holds the full name)
	nested string // e.g. "Outer.Inner"
}

type fieldT struct {
	name     string
	comment  []string // nil = no comment; lines without the leading "//"
	detached bool     // a detached comment block (followed by a blank line) precedes the element
	label    string   // "", "optional", "repeated", "required"
	scalar   string   // scalar type, or "" when ref is used
	ref      ref
	number   int
	oneof    int    // -1 = none; else index into msgT.oneofs
	extendee string // for extension fields: full name of the extended message (a descriptor option message), or
	extOwn   string // the nested name of an extendable proto2 message of the SAME file (rendered fully qualified)
	mapKey   string // != "": a map field `map<mapKey, scalar|ref> name = n;` (synthetic <Name>Entry nested message)
	group    *msgT  // != nil: a proto2 group `label group <group.name> = n { … }`; name == lower(group.name),
	// the declaration's comment belongs to the nested message (group.comment), the field has none
	noise []string // explicit-default options no lint rule reads: `[deprecated = false, …]`
	// presence: editions files only — `[features.field_presence = <presence>]`: "" (not spelled),
	// "EXPLICIT" (the default, spelled out), "IMPLICIT", "LEGACY_REQUIRED" (= a required field)
	presence string
}

func (f *fieldT) isMap() bool { return f.mapKey != "" }
func (f *fieldT) isRequired() bool {
	return f.label == "required" || f.presence == "LEGACY_REQUIRED"
}

// bracketOptions: what stands between `[` and `]` after the field number.
func (f *fieldT) bracketOptions() []string {
	var out []string
	if f.presence != "" {
		out = append(out, "features.field_presence = "+f.presence)
	}
	return append(out, f.noise...)
}

// p3like: proto3 and editions files share the generator's conventions (no labels but `repeated`,
// no groups, open enums whose first value is zero).
func (f *fileT) p3like() bool { return f.syntax == "proto3" || f.syntax == "editions" }

func (f *fieldT) isGroup() bool { return f.group != nil }

type valueT struct {
	name    string
	comment []string
	number  int
	noise   []string // `[deprecated = false]`
}

type enumT struct {
	name       string
	upper      string // the documented UPPER_SNAKE_CASE form of name (harness bookkeeping)
	comment    []string
	detached   bool
	allowAlias bool
	// aliasFalse: the enum spells the DEFAULT out, `option allow_alias = false;` — the option is
	// present (has a location) but its value is what ENUM_NO_ALLOW_ALIAS demands
	aliasFalse bool
	// closed: editions files only — `option features.enum_type = CLOSED;` at the enum: a CLOSED enum (like
	// every proto2 enum) may declare a non-zero value first; an OPEN one (proto3, editions default) may not
	closed bool
	noise  []string // further explicit-default option statements (`option deprecated = false;`)
	values []valueT
}

type oneofT struct {
	name    string
	comment []string
}

type msgT struct {
	name        string
	comment     []string
	detached    bool
	fields      []fieldT
	oneofs      []oneofT
	exts        []fieldT
	enums       []enumT
	msgs        []msgT
	nestedFirst bool     // render nested types before the fields
	extRange    bool     // proto2: declares `extensions 1000 to max;` (may be the extendee of extension fields)
	noise       []string // explicit-default option statements (`option deprecated = false;`)
}

// nestedItem is one entry of the message's nested_type list in DESCRIPTOR order: the compiler
// appends nested messages, group messages and synthetic map-entry messages in source order.
type nestedItem struct {
	msg   *msgT // declared nested message or group body; nil for a map entry
	field int   // index of the map / group field in msgT.fields; -1 for a declared nested message
}

// nestedItems mirrors the renderer's layout: nestedFirst puts the declared nested messages
// before the fields (hence before the groups / map entries the fields give rise to).
func (m *msgT) nestedItems() []nestedItem {
	var syn, real []nestedItem
	for i := range m.fields {
		switch {
		case m.fields[i].isGroup():
			syn = append(syn, nestedItem{m.fields[i].group, i})
		case m.fields[i].isMap():
			syn = append(syn, nestedItem{nil, i})
		}
	}
	for k := range m.msgs {
		real = append(real, nestedItem{&m.msgs[k], -1})
	}
	if m.nestedFirst {
		return append(real, syn...)
	}
	return append(syn, real...)
}

// nestedIndexOfField is the nested_type index of the group / map-entry message of field i.
func (m *msgT) nestedIndexOfField(i int) int {
	for j, it := range m.nestedItems() {
		if it.field == i {
			return j
		}
	}
	return -1
}

// mapEntryName is protoc's MapEntryName: CamelCase of the field name + "Entry".
func mapEntryName(field string) string {
	var sb strings.Builder
	up := true
	for _, c := range field {
		switch {
		case c == '_':
			up = true
		case up:
			sb.WriteString(strings.ToUpper(string(c)))
			up = false
		default:
			sb.WriteRune(c)
		}
	}
	return sb.String() + "Entry"
}

type rpcT struct {
	name     string
	comment  []string
	in, out  ref
	cs, ss   bool
	dottedIn bool     // render the request type with a leading dot
	noise    []string // option statements in the method body (`option idempotency_level = IDEMPOTENCY_UNKNOWN;`)
}

type svcT struct {
	name    string
	comment []string
	rpcs    []rpcT
	noise   []string // `option deprecated = false;`
}

type impT struct {
	file   int    // index into ws.files, or -1 for a well-known import
	wkt    string // path when file == -1
	public bool
	weak   bool
	unused bool
}

type fileT struct {
	path     string
	pkg      string
	isImport bool
	syntax   string // "proto3", "proto2", "" (= unspecified, parsed as proto2)
	imports  []impT
	opts     [7]optT
	noise    []string // file options no lint rule reads, spelled with their default value
	// enumClosed: editions files only — `option features.enum_type = CLOSED;` at FILE level: every enum of
	// the file is closed
	enumClosed bool
	enums      []enumT
	msgs       []msgT
	svcs       []svcT
	exts       []fieldT
	order      []byte // permutation of "emsx": order of the top-level declaration kinds
}

type wsT struct {
	files []*fileT
}

// optT is one of the seven file options of PACKAGE_SAME_*: whether the file has the option
// STATEMENT, and the value written there (java_multiple_files: "true"/"false"; the string
// options: the string, possibly empty — `option go_package = "";`).
type optT struct {
	set bool
	val string
}

func unsetOpt() optT       { return optT{} }
func setOpt(v string) optT { return optT{true, v} }
func (o optT) String() string {
	if !o.set {
		return "unset"
	}
	return fmt.Sprintf("%q", o.val)
}

var optNames = [7]string{"csharp_namespace", "go_package", "java_multiple_files", "java_package", "php_namespace", "ruby_package", "swift_prefix"}
var optFieldNumbers = [7]int{37, 11, 10, 1, 41, 45, 39}

func (w *wsT) fullName(r ref) string {
	if r.file < 0 {
		return r.nested
	}
	if p := w.files[r.file].pkg; p != "" {
		return p + "." + r.nested
	}
	return r.nested
}

func (w *wsT) importPath(i impT) string {
	if i.file < 0 {
		return i.wkt
	}
	return w.files[i.file].path
}

// ---- deep copy ----

func cloneLines(c []string) []string {
	if c == nil {
		return nil
	}
	return append([]string{}, c...)
}

func cloneField(f fieldT) fieldT {
	f.comment = cloneLines(f.comment)
	if f.group != nil {
		g := cloneMsg(*f.group)
		f.group = &g
	}
	return f
}

func cloneFields(fs []fieldT) []fieldT {
	out := make([]fieldT, len(fs))
	for i, f := range fs {
		out[i] = cloneField(f)
	}
	return out
}

func cloneEnum(e enumT) enumT {
	e.comment = cloneLines(e.comment)
	vs := make([]valueT, len(e.values))
	for i, v := range e.values {
		v.comment = cloneLines(v.comment)
		vs[i] = v
	}
	e.values = vs
	return e
}

func cloneEnums(es []enumT) []enumT {
	out := make([]enumT, len(es))
	for i, e := range es {
		out[i] = cloneEnum(e)
	}
	return out
}

func cloneMsg(m msgT) msgT {
	m.comment = cloneLines(m.comment)
	m.fields = cloneFields(m.fields)
	os := make([]oneofT, len(m.oneofs))
	for i, o := range m.oneofs {
		o.comment = cloneLines(o.comment)
		os[i] = o
	}
	m.oneofs = os
	m.exts = cloneFields(m.exts)
	m.enums = cloneEnums(m.enums)
	m.msgs = cloneMsgs(m.msgs)
	return m
}

func cloneMsgs(ms []msgT) []msgT {
	out := make([]msgT, len(ms))
	for i, m := range ms {
		out[i] = cloneMsg(m)
	}
	return out
}

func (w *wsT) clone() *wsT {
	out := &wsT{}
	for _, f := range w.files {
		g := *f
		g.imports = append([]impT{}, f.imports...)
		g.enums = cloneEnums(f.enums)
		g.msgs = cloneMsgs(f.msgs)
		g.exts = cloneFields(f.exts)
		g.order = append([]byte{}, f.order...)
		g.svcs = make([]svcT, len(f.svcs))
		for i, s := range f.svcs {
			s.comment = cloneLines(s.comment)
			rs := make([]rpcT, len(s.rpcs))
			for j, r := range s.rpcs {
				r.comment = cloneLines(r.comment)
				rs[j] = r
			}
			s.rpcs = rs
			g.svcs[i] = s
		}
		out.files = append(out.files, &g)
	}
	return out
}

// ---- what buf sees as the leading comment ----

func leadingText(c []string) string {
	if isRaw(c) {
		return c[2] // a comment given as literal source (comments.go): the text SourceCodeInfo delivers, from the shape table
	}
	var sb strings.Builder
	for _, l := range c {
		if l != "" {
			sb.WriteString(" " + l)
		}
		sb.WriteString("\n")
	}
	return sb.String()
}

// ---- serialisation for the Lean driver (see Driver/C05.lean parseSchema) ----

type ser struct{ toks []string }

func (s *ser) t(x ...string) { s.toks = append(s.toks, x...) }
func (s *ser) n(i int)       { s.toks = append(s.toks, strconv.Itoa(i)) }
func (s *ser) b(v bool)      { s.toks = append(s.toks, b2s(v)) }
func (s *ser) h(v string)    { s.toks = append(s.toks, hx.Enc(v)) }

func (s *ser) field(f fieldT, proto3 bool, oneofIndex int) {
	s.t("D")
	s.h(f.name)
	if f.isGroup() {
		s.h("") // the comment in front of a group declaration documents the nested message
	} else {
		s.h(leadingText(f.comment))
	}
	s.b(f.isRequired())
	s.b(f.isGroup())
	s.b(proto3 && f.label == "optional") // extensions too: no synthetic oneof, but proto3_optional is set
	s.n(oneofIndex)
}

// mapEntry emits the synthetic nested message of a map field: no comment, no source location.
func (s *ser) mapEntry(f fieldT) {
	s.t("M")
	s.h(mapEntryName(f.name))
	s.h("")
	s.b(true)
	s.n(2)
	for _, n := range []string{"key", "value"} {
		s.t("D")
		s.h(n)
		s.h("")
		s.b(false)
		s.b(false)
		s.b(false)
		s.n(-1)
	}
	s.n(0)
	s.n(0)
	s.n(0)
	s.n(0)
}

func (s *ser) enum(e enumT) {
	s.t("E")
	s.h(e.name)
	s.h(leadingText(e.comment))
	s.b(e.allowAlias)
	s.n(len(e.values))
	for _, v := range e.values {
		s.t("V")
		s.h(v.name)
		s.h(leadingText(v.comment))
		s.n(v.number)
	}
}

func (s *ser) msg(m msgT, proto3 bool) {
	s.t("M")
	s.h(m.name)
	s.h(leadingText(m.comment))
	s.b(false)
	// synthetic oneofs (proto3 optional) follow the declared ones, in field order
	synth := []string{}
	s.n(len(m.fields))
	for _, f := range m.fields {
		oi := f.oneof
		if proto3 && f.label == "optional" {
			oi = len(m.oneofs) + len(synth)
			synth = append(synth, "_"+f.name)
		}
		s.field(f, proto3, oi)
	}
	s.n(len(m.oneofs) + len(synth))
	for _, o := range m.oneofs {
		s.t("O")
		s.h(o.name)
		s.h(leadingText(o.comment))
		s.b(false)
	}
	for _, name := range synth {
		s.t("O")
		s.h(name)
		s.h("")
		s.b(true)
	}
	s.n(len(m.exts))
	for _, f := range m.exts {
		s.field(f, proto3, -1)
	}
	s.n(len(m.enums))
	for _, e := range m.enums {
		s.enum(e)
	}
	items := m.nestedItems()
	s.n(len(items))
	for _, it := range items {
		if it.msg != nil {
			s.msg(*it.msg, proto3)
		} else {
			s.mapEntry(m.fields[it.field])
		}
	}
}

func (w *wsT) serialise() string {
	s := &ser{}
	s.t("W")
	s.n(len(w.files))
	for _, f := range w.files {
		proto3 := f.syntax == "proto3"
		s.t("F")
		s.h(f.path)
		s.h(f.pkg)
		s.b(f.isImport)
		s.b(f.syntax == "")
		s.n(len(f.imports))
		for _, i := range f.imports {
			s.t("I")
			s.h(w.importPath(i))
			s.b(i.public)
			s.b(i.weak)
			s.b(i.unused)
		}
		for _, o := range f.opts {
			if o.set {
				s.h(o.val) // "-" = explicitly the empty string
			} else {
				s.t("~") // no option statement
			}
		}
		s.n(len(f.enums))
		for _, e := range f.enums {
			s.enum(e)
		}
		s.n(len(f.msgs))
		for _, m := range f.msgs {
			s.msg(m, proto3)
		}
		s.n(len(f.svcs))
		for _, sv := range f.svcs {
			s.t("S")
			s.h(sv.name)
			s.h(leadingText(sv.comment))
			s.n(len(sv.rpcs))
			for _, r := range sv.rpcs {
				s.t("R")
				s.h(r.name)
				s.h(leadingText(r.comment))
				s.h(w.fullName(r.in))
				s.h(w.fullName(r.out))
				s.b(r.cs)
				s.b(r.ss)
			}
		}
		s.n(len(f.exts))
		for _, x := range f.exts {
			s.field(x, proto3, -1)
		}
	}
	return strings.Join(s.toks, " ")
}

// ---- rendering with a position table ----

type span struct{ sl, sc, el, ec int } // 1-based, end exclusive — as bufanalysis.FileAnnotation reports

type renderer struct {
	sb        strings.Builder
	line, col int
	spans     map[string]span
	w         *wsT
	f         *fileT
	trail     string // a trailing comment waiting for the end of the element's first line (comments.go)
}

func (r *renderer) write(s string) {
	if r.trail != "" && strings.HasSuffix(s, "\n") {
		s, r.trail = s[:len(s)-1]+" "+r.trail+"\n", ""
	}
	r.sb.WriteString(s)
	for _, c := range s {
		if c == '\n' {
			r.line++
			r.col = 1
		} else {
			r.col++
		}
	}
}

func (r *renderer) pos() (int, int) { return r.line, r.col }

func (r *renderer) mark(path string, sl, sc int) {
	r.spans[path] = span{sl, sc, r.line, r.col}
}

// tok writes s and records its span under path.
func (r *renderer) tok(path, s string) {
	sl, sc := r.pos()
	r.write(s)
	r.mark(path, sl, sc)
}

func pk(base string, xs ...int) string {
	parts := []string{}
	if base != "" {
		parts = append(parts, base)
	}
	for _, x := range xs {
		parts = append(parts, strconv.Itoa(x))
	}
	return strings.Join(parts, ".")
}

func (r *renderer) comment(ind string, c []string, detached bool) {
	if isRaw(c) {
		// literal comment source: every line indented, the last one ended; then (detached shapes) a blank line
		if c[1] != "" {
			for _, l := range strings.Split(c[1], "\n") {
				if l == "" {
					r.write("\n")
				} else {
					r.write(ind + l + "\n")
				}
			}
		}
		if c[4] == "1" {
			r.write("\n")
		}
		r.trail = c[3]
		return
	}
	if detached {
		r.write(ind + "// (detached note, not documentation)\n\n")
	}
	for _, l := range c {
		if l == "" {
			r.write(ind + "//\n")
		} else {
			r.write(ind + "// " + l + "\n")
		}
	}
}

func (r *renderer) typeName(f fieldT) string {
	t := f.scalar
	if t == "" {
		t = "." + r.w.fullName(f.ref)
	}
	if f.isMap() {
		return "map<" + f.mapKey + ", " + t + ">"
	}
	return t
}

func (r *renderer) field(ind, path string, f fieldT) {
	r.comment(ind, f.comment, f.detached)
	r.write(ind)
	sl, sc := r.pos()
	if f.label != "" {
		r.write(f.label + " ")
	}
	r.write(r.typeName(f) + " ")
	r.tok(path+".1", f.name)
	r.write(" = " + strconv.Itoa(f.number))
	if opts := f.bracketOptions(); len(opts) > 0 {
		r.write(" [" + strings.Join(opts, ", ") + "]")
	}
	r.write(";")
	r.mark(path, sl, sc)
	r.write("\n")
}

// group renders `label group Name = n { fields }`.  The compiler gives the field (path) and
// the nested message (bodyPath) the SAME span, and both name locations the span of the Name
// token; the leading comment is attached to the nested message only.
func (r *renderer) group(ind, path, bodyPath string, f fieldT) {
	g := f.group
	r.comment(ind, g.comment, g.detached)
	r.write(ind)
	sl, sc := r.pos()
	if f.label != "" {
		r.write(f.label + " ")
	}
	r.write("group ")
	nl, nc := r.pos()
	r.write(g.name)
	r.mark(path+".1", nl, nc)
	r.mark(bodyPath+".1", nl, nc)
	r.write(" = " + strconv.Itoa(f.number) + " {\n")
	r.msgFields(ind, bodyPath, *g)
	r.write(ind + "}")
	r.mark(path, sl, sc)
	r.mark(bodyPath, sl, sc)
	r.write("\n")
}

func (r *renderer) enum(ind, path string, e enumT) {
	r.comment(ind, e.comment, e.detached)
	r.write(ind)
	sl, sc := r.pos()
	r.write("enum ")
	r.tok(path+".1", e.name)
	r.write(" {\n")
	switch {
	case e.allowAlias:
		r.write(ind + "  ")
		r.tok(path+".3.2", "option allow_alias = true;")
		r.write("\n")
	case e.aliasFalse:
		r.write(ind + "  ")
		r.tok(path+".3.2", "option allow_alias = false;")
		r.write("\n")
	}
	if e.closed {
		r.write(ind + "  option features.enum_type = CLOSED;\n")
	}
	for _, n := range e.noise {
		r.write(ind + "  " + n + "\n")
	}
	for i, v := range e.values {
		vp := pk(path, 2, i)
		r.comment(ind+"  ", v.comment, false)
		r.write(ind + "  ")
		vsl, vsc := r.pos()
		r.tok(vp+".1", v.name)
		r.write(" = ")
		r.tok(vp+".2", strconv.Itoa(v.number))
		if len(v.noise) > 0 {
			r.write(" [" + strings.Join(v.noise, ", ") + "]")
		}
		r.write(";")
		r.mark(vp, vsl, vsc)
		r.write("\n")
	}
	r.write(ind + "}")
	r.mark(path, sl, sc)
	r.write("\n")
}

// extendBlocks renders extension fields grouped in `extend X { … }` blocks of consecutive
// fields with the same extendee (so one extendee may get several blocks).
func (r *renderer) extendBlocks(ind string, exts []fieldT, pathOf func(i int) string) {
	i := 0
	for i < len(exts) {
		j := i
		for j < len(exts) && exts[j].extendee == exts[i].extendee && exts[j].extOwn == exts[i].extOwn && j-i < 2 {
			j++
		}
		extendee := exts[i].extendee
		if exts[i].extOwn != "" {
			extendee = "." + exts[i].extOwn
			if r.f.pkg != "" {
				extendee = "." + r.f.pkg + "." + exts[i].extOwn
			}
		}
		r.write(ind + "extend " + extendee + " {\n")
		for k := i; k < j; k++ {
			r.field(ind+"  ", pathOf(k), exts[k])
		}
		r.write(ind + "}\n")
		i = j
	}
}

func (r *renderer) msgField(ind, path string, m msgT, i int) {
	if m.fields[i].isGroup() {
		r.group(ind, pk(path, 2, i), pk(path, 3, m.nestedIndexOfField(i)), m.fields[i])
		return
	}
	r.field(ind, pk(path, 2, i), m.fields[i])
}

func (r *renderer) msgFields(ind, path string, m msgT) {
	i := 0
	for i < len(m.fields) {
		f := m.fields[i]
		if f.oneof < 0 {
			r.msgField(ind+"  ", path, m, i)
			i++
			continue
		}
		o := m.oneofs[f.oneof]
		op := pk(path, 8, f.oneof)
		r.comment(ind+"  ", o.comment, false)
		r.write(ind + "  ")
		sl, sc := r.pos()
		r.write("oneof ")
		r.tok(op+".1", o.name)
		r.write(" {\n")
		for i < len(m.fields) && m.fields[i].oneof == f.oneof {
			r.msgField(ind+"    ", path, m, i)
			i++
		}
		r.write(ind + "  }")
		r.mark(op, sl, sc)
		r.write("\n")
	}
}

func (r *renderer) msgNested(ind, path string, m msgT) {
	for i, e := range m.enums {
		r.enum(ind+"  ", pk(path, 4, i), e)
	}
	for j, it := range m.nestedItems() {
		if it.field < 0 {
			r.msg(ind+"  ", pk(path, 3, j), *it.msg)
		}
	}
}

func (r *renderer) msg(ind, path string, m msgT) {
	r.comment(ind, m.comment, m.detached)
	r.write(ind)
	sl, sc := r.pos()
	r.write("message ")
	r.tok(path+".1", m.name)
	r.write(" {\n")
	for _, n := range m.noise {
		r.write(ind + "  " + n + "\n")
	}
	if m.nestedFirst {
		r.msgNested(ind, path, m)
		r.msgFields(ind, path, m)
	} else {
		r.msgFields(ind, path, m)
		r.msgNested(ind, path, m)
	}
	if m.extRange {
		r.write(ind + "  extensions 1000 to max;\n")
	}
	r.extendBlocks(ind+"  ", m.exts, func(i int) string { return pk(path, 6, i) })
	r.write(ind + "}")
	r.mark(path, sl, sc)
	r.write("\n")
}

func (r *renderer) svc(path string, s svcT) {
	r.comment("", s.comment, false)
	sl, sc := r.pos()
	r.write("service ")
	r.tok(path+".1", s.name)
	r.write(" {\n")
	for _, n := range s.noise {
		r.write("  " + n + "\n")
	}
	for i, m := range s.rpcs {
		mp := pk(path, 2, i)
		r.comment("  ", m.comment, false)
		r.write("  ")
		msl, msc := r.pos()
		r.write("rpc ")
		r.tok(mp+".1", m.name)
		r.write("(")
		if m.cs {
			r.write("stream ")
		}
		in := r.w.fullName(m.in)
		if m.dottedIn || r.w.files[max(m.in.file, 0)].pkg == "" {
			in = "." + in
		}
		r.tok(mp+".2", in)
		r.write(") returns (")
		if m.ss {
			r.write("stream ")
		}
		r.tok(mp+".3", "."+r.w.fullName(m.out))
		if len(m.noise) == 0 {
			r.write(");")
		} else {
			r.write(") {\n")
			for _, n := range m.noise {
				r.write("    " + n + "\n")
			}
			r.write("  }")
		}
		r.mark(mp, msl, msc)
		r.write("\n")
	}
	r.write("}")
	r.mark(path, sl, sc)
	r.write("\n")
}

// render returns the .proto text of f and the span of every location a lint rule can report.
func render(w *wsT, f *fileT) (string, map[string]span) {
	r := &renderer{line: 1, col: 1, spans: map[string]span{}, w: w, f: f}
	r.write("// Generated by the C05 harness.\n\n")
	switch f.syntax {
	case "":
	case "editions":
		r.write("edition = \"2023\";\n\n")
	default:
		r.write("syntax = \"" + f.syntax + "\";\n\n")
	}
	if f.pkg != "" {
		r.tok("2", "package "+f.pkg+";")
		r.write("\n\n")
	}
	for i, imp := range f.imports {
		mod := ""
		if imp.public {
			mod = "public "
		} else if imp.weak {
			mod = "weak "
		}
		r.tok(pk("3", i), "import "+mod+"\""+w.importPath(imp)+"\";")
		r.write("\n")
	}
	r.write("\n")
	for k, o := range f.opts {
		if !o.set {
			continue
		}
		val := "\"" + o.val + "\""
		if k == 2 {
			val = o.val
		}
		r.tok(pk("8", optFieldNumbers[k]), "option "+optNames[k]+" = "+val+";")
		r.write("\n")
	}
	if f.enumClosed {
		r.write("option features.enum_type = CLOSED;\n")
	}
	for _, n := range f.noise {
		r.write(n + "\n")
	}
	for _, kind := range f.order {
		switch kind {
		case 'e':
			for i, e := range f.enums {
				r.write("\n")
				r.enum("", pk("5", i), e)
			}
		case 'm':
			for i, m := range f.msgs {
				r.write("\n")
				r.msg("", pk("4", i), m)
			}
		case 's':
			for i, s := range f.svcs {
				r.write("\n")
				r.svc(pk("6", i), s)
			}
		case 'x':
			if len(f.exts) > 0 {
				r.write("\n")
				r.extendBlocks("", f.exts, func(i int) string { return pk("7", i) })
			}
		}
	}
	return r.sb.String(), r.spans
}

// pathKind classifies a tracked source path by the element it belongs to ("field", "message",
// "enum", "oneof", "service", "import", "file"): sub-locations (name, number, …) count as their element.
func pathKind(p string) string {
	var xs []int
	if p != "" {
		for _, t := range strings.Split(p, ".") {
			n, _ := strconv.Atoi(t)
			xs = append(xs, n)
		}
	}
	kind := "file"
	for i := 0; i+1 < len(xs); i += 2 {
		switch kind {
		case "file":
			switch xs[i] {
			case 4:
				kind = "message"
			case 5:
				kind = "enum"
			case 6:
				kind = "service"
			case 7:
				kind = "field"
			case 3:
				kind = "import"
			default:
				return kind
			}
		case "message":
			switch xs[i] {
			case 2, 6:
				kind = "field"
			case 3:
				kind = "message"
			case 4:
				kind = "enum"
			case 8:
				kind = "oneof"
			default:
				return kind
			}
		default:
			return kind
		}
	}
	return kind
}

// spanIndex inverts a span table.  Two tracked paths may share a span only when they belong to
// elements of different kinds (a group: the field and its nested message, and their names);
// any other collision is a harness bug.
func spanIndex(spans map[string]span) (map[span][]string, error) {
	keys := make([]string, 0, len(spans))
	for k := range spans {
		keys = append(keys, k)
	}
	sort.Strings(keys)
	idx := map[span][]string{}
	for _, k := range keys {
		s := spans[k]
		for _, other := range idx[s] {
			if pathKind(other) == pathKind(k) {
				return nil, fmt.Errorf("span collision between %s and %s at %v", other, k, s)
			}
		}
		idx[s] = append(idx[s], k)
	}
	return idx, nil
}

// ruleElementKind: the kind of element a rule reports on, used only to tell apart tracked paths
// that share a span.
func ruleElementKind(rule string) string {
	switch {
	case strings.HasPrefix(rule, "FIELD_"), rule == "COMMENT_FIELD":
		return "field"
	case rule == "MESSAGE_PASCAL_CASE", rule == "COMMENT_MESSAGE":
		return "message"
	}
	return ""
}

func resolveSpan(cands []string, rule string) string {
	if want := ruleElementKind(rule); want != "" {
		for _, c := range cands {
			if pathKind(c) == want {
				return c
			}
		}
	}
	return cands[0]
}
