package main

import (
	"fmt"
	"sort"
	"strconv"
	"strings"

	"github.com/bufbuild/verifharness/internal/hx"
)

// The harness's own schema representation.  It is the single source for (1) the rendered
// .proto text with a position table, (2) the serialisation sent to the Lean model and (3) the
// planting operators.  Nothing here is read back from the compiled image.

type ref struct {
	file   int    // index into ws.files; -1 = well-known type (nested holds the full name)
	nested string // e.g. "Outer.Inner"
}

type fieldT struct {
	name     string
	comment  []string // nil = no comment; lines without the leading "//"
	detached bool     // a detached comment block (followed by a blank line) precedes the element
	label    string   // "", "optional", "repeated", "required"
	scalar   string   // scalar type, or "" when ref is used
	ref      ref
	number   int
	oneof    int    // -1 = none; else index into msgT.oneofs
	extendee string // for extension fields: full name of the extended message
}

type valueT struct {
	name    string
	comment []string
	number  int
}

type enumT struct {
	name       string
	upper      string // the documented UPPER_SNAKE_CASE form of name (harness bookkeeping)
	comment    []string
	detached   bool
	allowAlias bool
	values     []valueT
}

type oneofT struct {
	name    string
	comment []string
}

type msgT struct {
	name        string
	comment     []string
	detached    bool
	fields      []fieldT
	oneofs      []oneofT
	exts        []fieldT
	enums       []enumT
	msgs        []msgT
	nestedFirst bool // render nested types before the fields
}

type rpcT struct {
	name     string
	comment  []string
	in, out  ref
	cs, ss   bool
	dottedIn bool // render the request type with a leading dot
}

type svcT struct {
	name    string
	comment []string
	rpcs    []rpcT
}

type impT struct {
	file   int    // index into ws.files, or -1 for a well-known import
	wkt    string // path when file == -1
	public bool
	weak   bool
	unused bool
}

type fileT struct {
	path     string
	pkg      string
	isImport bool
	syntax   string // "proto3", "proto2", "" (= unspecified, parsed as proto2)
	imports  []impT
	opts     [7]string
	enums    []enumT
	msgs     []msgT
	svcs     []svcT
	exts     []fieldT
	order    []byte // permutation of "emsx": order of the top-level declaration kinds
}

type wsT struct {
	files []*fileT
}

var optNames = [7]string{"csharp_namespace", "go_package", "java_multiple_files", "java_package", "php_namespace", "ruby_package", "swift_prefix"}
var optFieldNumbers = [7]int{37, 11, 10, 1, 41, 45, 39}

func (w *wsT) fullName(r ref) string {
	if r.file < 0 {
		return r.nested
	}
	if p := w.files[r.file].pkg; p != "" {
		return p + "." + r.nested
	}
	return r.nested
}

func (w *wsT) importPath(i impT) string {
	if i.file < 0 {
		return i.wkt
	}
	return w.files[i.file].path
}

// ---- deep copy ----

func cloneLines(c []string) []string {
	if c == nil {
		return nil
	}
	return append([]string{}, c...)
}

func cloneField(f fieldT) fieldT { f.comment = cloneLines(f.comment); return f }

func cloneFields(fs []fieldT) []fieldT {
	out := make([]fieldT, len(fs))
	for i, f := range fs {
		out[i] = cloneField(f)
	}
	return out
}

func cloneEnum(e enumT) enumT {
	e.comment = cloneLines(e.comment)
	vs := make([]valueT, len(e.values))
	for i, v := range e.values {
		v.comment = cloneLines(v.comment)
		vs[i] = v
	}
	e.values = vs
	return e
}

func cloneEnums(es []enumT) []enumT {
	out := make([]enumT, len(es))
	for i, e := range es {
		out[i] = cloneEnum(e)
	}
	return out
}

func cloneMsg(m msgT) msgT {
	m.comment = cloneLines(m.comment)
	m.fields = cloneFields(m.fields)
	os := make([]oneofT, len(m.oneofs))
	for i, o := range m.oneofs {
		o.comment = cloneLines(o.comment)
		os[i] = o
	}
	m.oneofs = os
	m.exts = cloneFields(m.exts)
	m.enums = cloneEnums(m.enums)
	m.msgs = cloneMsgs(m.msgs)
	return m
}

func cloneMsgs(ms []msgT) []msgT {
	out := make([]msgT, len(ms))
	for i, m := range ms {
		out[i] = cloneMsg(m)
	}
	return out
}

func (w *wsT) clone() *wsT {
	out := &wsT{}
	for _, f := range w.files {
		g := *f
		g.imports = append([]impT{}, f.imports...)
		g.enums = cloneEnums(f.enums)
		g.msgs = cloneMsgs(f.msgs)
		g.exts = cloneFields(f.exts)
		g.order = append([]byte{}, f.order...)
		g.svcs = make([]svcT, len(f.svcs))
		for i, s := range f.svcs {
			s.comment = cloneLines(s.comment)
			rs := make([]rpcT, len(s.rpcs))
			for j, r := range s.rpcs {
				r.comment = cloneLines(r.comment)
				rs[j] = r
			}
			s.rpcs = rs
			g.svcs[i] = s
		}
		out.files = append(out.files, &g)
	}
	return out
}

// ---- what buf sees as the leading comment ----

func leadingText(c []string) string {
	var sb strings.Builder
	for _, l := range c {
		if l != "" {
			sb.WriteString(" " + l)
		}
		sb.WriteString("\n")
	}
	return sb.String()
}

// ---- serialisation for the Lean driver (see Driver/C05.lean parseSchema) ----

type ser struct{ toks []string }

func (s *ser) t(x ...string) { s.toks = append(s.toks, x...) }
func (s *ser) n(i int)       { s.toks = append(s.toks, strconv.Itoa(i)) }
func (s *ser) b(v bool)      { s.toks = append(s.toks, b2s(v)) }
func (s *ser) h(v string)    { s.toks = append(s.toks, hx.Enc(v)) }

func (s *ser) field(f fieldT, proto3 bool, oneofIndex int) {
	s.t("D")
	s.h(f.name)
	s.h(leadingText(f.comment))
	s.b(f.label == "required")
	s.b(false)
	s.b(proto3 && f.label == "optional" && f.extendee == "")
	s.n(oneofIndex)
}

func (s *ser) enum(e enumT) {
	s.t("E")
	s.h(e.name)
	s.h(leadingText(e.comment))
	s.b(e.allowAlias)
	s.n(len(e.values))
	for _, v := range e.values {
		s.t("V")
		s.h(v.name)
		s.h(leadingText(v.comment))
		s.n(v.number)
	}
}

func (s *ser) msg(m msgT, proto3 bool) {
	s.t("M")
	s.h(m.name)
	s.h(leadingText(m.comment))
	s.b(false)
	// synthetic oneofs (proto3 optional) follow the declared ones, in field order
	synth := []string{}
	s.n(len(m.fields))
	for _, f := range m.fields {
		oi := f.oneof
		if proto3 && f.label == "optional" {
			oi = len(m.oneofs) + len(synth)
			synth = append(synth, "_"+f.name)
		}
		s.field(f, proto3, oi)
	}
	s.n(len(m.oneofs) + len(synth))
	for _, o := range m.oneofs {
		s.t("O")
		s.h(o.name)
		s.h(leadingText(o.comment))
		s.b(false)
	}
	for _, name := range synth {
		s.t("O")
		s.h(name)
		s.h("")
		s.b(true)
	}
	s.n(len(m.exts))
	for _, f := range m.exts {
		s.field(f, proto3, -1)
	}
	s.n(len(m.enums))
	for _, e := range m.enums {
		s.enum(e)
	}
	s.n(len(m.msgs))
	for _, c := range m.msgs {
		s.msg(c, proto3)
	}
}

func (w *wsT) serialise() string {
	s := &ser{}
	s.t("W")
	s.n(len(w.files))
	for _, f := range w.files {
		proto3 := f.syntax == "proto3"
		s.t("F")
		s.h(f.path)
		s.h(f.pkg)
		s.b(f.isImport)
		s.b(f.syntax == "")
		s.n(len(f.imports))
		for _, i := range f.imports {
			s.t("I")
			s.h(w.importPath(i))
			s.b(i.public)
			s.b(i.weak)
			s.b(i.unused)
		}
		for _, o := range f.opts {
			s.h(o)
		}
		s.n(len(f.enums))
		for _, e := range f.enums {
			s.enum(e)
		}
		s.n(len(f.msgs))
		for _, m := range f.msgs {
			s.msg(m, proto3)
		}
		s.n(len(f.svcs))
		for _, sv := range f.svcs {
			s.t("S")
			s.h(sv.name)
			s.h(leadingText(sv.comment))
			s.n(len(sv.rpcs))
			for _, r := range sv.rpcs {
				s.t("R")
				s.h(r.name)
				s.h(leadingText(r.comment))
				s.h(w.fullName(r.in))
				s.h(w.fullName(r.out))
				s.b(r.cs)
				s.b(r.ss)
			}
		}
		s.n(len(f.exts))
		for _, x := range f.exts {
			s.field(x, proto3, -1)
		}
	}
	return strings.Join(s.toks, " ")
}

// ---- rendering with a position table ----

type span struct{ sl, sc, el, ec int } // 1-based, end exclusive — as bufanalysis.FileAnnotation reports

type renderer struct {
	sb        strings.Builder
	line, col int
	spans     map[string]span
	w         *wsT
	f         *fileT
}

func (r *renderer) write(s string) {
	r.sb.WriteString(s)
	for _, c := range s {
		if c == '\n' {
			r.line++
			r.col = 1
		} else {
			r.col++
		}
	}
}

func (r *renderer) pos() (int, int) { return r.line, r.col }

func (r *renderer) mark(path string, sl, sc int) {
	r.spans[path] = span{sl, sc, r.line, r.col}
}

// tok writes s and records its span under path.
func (r *renderer) tok(path, s string) {
	sl, sc := r.pos()
	r.write(s)
	r.mark(path, sl, sc)
}

func pk(base string, xs ...int) string {
	parts := []string{}
	if base != "" {
		parts = append(parts, base)
	}
	for _, x := range xs {
		parts = append(parts, strconv.Itoa(x))
	}
	return strings.Join(parts, ".")
}

func (r *renderer) comment(ind string, c []string, detached bool) {
	if detached {
		r.write(ind + "// (detached note, not documentation)\n\n")
	}
	for _, l := range c {
		if l == "" {
			r.write(ind + "//\n")
		} else {
			r.write(ind + "// " + l + "\n")
		}
	}
}

func (r *renderer) typeName(f fieldT) string {
	if f.scalar != "" {
		return f.scalar
	}
	return "." + r.w.fullName(f.ref)
}

func (r *renderer) field(ind, path string, f fieldT) {
	r.comment(ind, f.comment, f.detached)
	r.write(ind)
	sl, sc := r.pos()
	if f.label != "" {
		r.write(f.label + " ")
	}
	r.write(r.typeName(f) + " ")
	r.tok(path+".1", f.name)
	r.write(" = " + strconv.Itoa(f.number) + ";")
	r.mark(path, sl, sc)
	r.write("\n")
}

func (r *renderer) enum(ind, path string, e enumT) {
	r.comment(ind, e.comment, e.detached)
	r.write(ind)
	sl, sc := r.pos()
	r.write("enum ")
	r.tok(path+".1", e.name)
	r.write(" {\n")
	if e.allowAlias {
		r.write(ind + "  ")
		r.tok(path+".3.2", "option allow_alias = true;")
		r.write("\n")
	}
	for i, v := range e.values {
		vp := pk(path, 2, i)
		r.comment(ind+"  ", v.comment, false)
		r.write(ind + "  ")
		vsl, vsc := r.pos()
		r.tok(vp+".1", v.name)
		r.write(" = ")
		r.tok(vp+".2", strconv.Itoa(v.number))
		r.write(";")
		r.mark(vp, vsl, vsc)
		r.write("\n")
	}
	r.write(ind + "}")
	r.mark(path, sl, sc)
	r.write("\n")
}

// extendBlocks renders extension fields grouped in `extend X { … }` blocks of consecutive
// fields with the same extendee (so one extendee may get several blocks).
func (r *renderer) extendBlocks(ind string, exts []fieldT, pathOf func(i int) string) {
	i := 0
	for i < len(exts) {
		j := i
		for j < len(exts) && exts[j].extendee == exts[i].extendee && j-i < 2 {
			j++
		}
		r.write(ind + "extend " + exts[i].extendee + " {\n")
		for k := i; k < j; k++ {
			r.field(ind+"  ", pathOf(k), exts[k])
		}
		r.write(ind + "}\n")
		i = j
	}
}

func (r *renderer) msgFields(ind, path string, m msgT) {
	i := 0
	for i < len(m.fields) {
		f := m.fields[i]
		if f.oneof < 0 {
			r.field(ind+"  ", pk(path, 2, i), f)
			i++
			continue
		}
		o := m.oneofs[f.oneof]
		op := pk(path, 8, f.oneof)
		r.comment(ind+"  ", o.comment, false)
		r.write(ind + "  ")
		sl, sc := r.pos()
		r.write("oneof ")
		r.tok(op+".1", o.name)
		r.write(" {\n")
		for i < len(m.fields) && m.fields[i].oneof == f.oneof {
			r.field(ind+"    ", pk(path, 2, i), m.fields[i])
			i++
		}
		r.write(ind + "  }")
		r.mark(op, sl, sc)
		r.write("\n")
	}
}

func (r *renderer) msgNested(ind, path string, m msgT) {
	for i, e := range m.enums {
		r.enum(ind+"  ", pk(path, 4, i), e)
	}
	for i, c := range m.msgs {
		r.msg(ind+"  ", pk(path, 3, i), c)
	}
}

func (r *renderer) msg(ind, path string, m msgT) {
	r.comment(ind, m.comment, m.detached)
	r.write(ind)
	sl, sc := r.pos()
	r.write("message ")
	r.tok(path+".1", m.name)
	r.write(" {\n")
	if m.nestedFirst {
		r.msgNested(ind, path, m)
		r.msgFields(ind, path, m)
	} else {
		r.msgFields(ind, path, m)
		r.msgNested(ind, path, m)
	}
	r.extendBlocks(ind+"  ", m.exts, func(i int) string { return pk(path, 6, i) })
	r.write(ind + "}")
	r.mark(path, sl, sc)
	r.write("\n")
}

func (r *renderer) svc(path string, s svcT) {
	r.comment("", s.comment, false)
	sl, sc := r.pos()
	r.write("service ")
	r.tok(path+".1", s.name)
	r.write(" {\n")
	for i, m := range s.rpcs {
		mp := pk(path, 2, i)
		r.comment("  ", m.comment, false)
		r.write("  ")
		msl, msc := r.pos()
		r.write("rpc ")
		r.tok(mp+".1", m.name)
		r.write("(")
		if m.cs {
			r.write("stream ")
		}
		in := r.w.fullName(m.in)
		if m.dottedIn || r.w.files[max(m.in.file, 0)].pkg == "" {
			in = "." + in
		}
		r.tok(mp+".2", in)
		r.write(") returns (")
		if m.ss {
			r.write("stream ")
		}
		r.tok(mp+".3", "."+r.w.fullName(m.out))
		r.write(");")
		r.mark(mp, msl, msc)
		r.write("\n")
	}
	r.write("}")
	r.mark(path, sl, sc)
	r.write("\n")
}

// render returns the .proto text of f and the span of every location a lint rule can report.
func render(w *wsT, f *fileT) (string, map[string]span) {
	r := &renderer{line: 1, col: 1, spans: map[string]span{}, w: w, f: f}
	r.write("// Generated by the C05 harness.\n\n")
	if f.syntax != "" {
		r.write("syntax = \"" + f.syntax + "\";\n\n")
	}
	if f.pkg != "" {
		r.tok("2", "package "+f.pkg+";")
		r.write("\n\n")
	}
	for i, imp := range f.imports {
		mod := ""
		if imp.public {
			mod = "public "
		} else if imp.weak {
			mod = "weak "
		}
		r.tok(pk("3", i), "import "+mod+"\""+w.importPath(imp)+"\";")
		r.write("\n")
	}
	r.write("\n")
	for k, v := range f.opts {
		if v == "" {
			continue
		}
		val := "\"" + v + "\""
		if k == 2 {
			val = v
		}
		r.tok(pk("8", optFieldNumbers[k]), "option "+optNames[k]+" = "+val+";")
		r.write("\n")
	}
	for _, kind := range f.order {
		switch kind {
		case 'e':
			for i, e := range f.enums {
				r.write("\n")
				r.enum("", pk("5", i), e)
			}
		case 'm':
			for i, m := range f.msgs {
				r.write("\n")
				r.msg("", pk("4", i), m)
			}
		case 's':
			for i, s := range f.svcs {
				r.write("\n")
				r.svc(pk("6", i), s)
			}
		case 'x':
			if len(f.exts) > 0 {
				r.write("\n")
				r.extendBlocks("", f.exts, func(i int) string { return pk("7", i) })
			}
		}
	}
	return r.sb.String(), r.spans
}

// spanIndex inverts a span table; a collision between two tracked paths is a harness bug.
func spanIndex(spans map[string]span) (map[span]string, error) {
	keys := make([]string, 0, len(spans))
	for k := range spans {
		keys = append(keys, k)
	}
	sort.Strings(keys)
	idx := map[span]string{}
	for _, k := range keys {
		s := spans[k]
		if other, ok := idx[s]; ok {
			return nil, fmt.Errorf("span collision between %s and %s at %v", other, k, s)
		}
		idx[s] = k
	}
	return idx, nil
}
