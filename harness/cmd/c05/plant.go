package main

import (
	"fmt"
	"strings"
	"time"
	"unicode"

	"github.com/bufbuild/buf/private/bufpkg/bufconfig"
	"github.com/bufbuild/verifharness/internal/hx"
)

// Planting operators: each introduces ONE violation at ONE element of a clean workspace.  The
// expected annotations (rule, file, element path) are written down from the rule documentation
// (https://buf.build/docs/lint/rules) and the property text — never from observed output.
// Rules that the same edit necessarily also violates are listed explicitly.

type plantT struct {
	op     string
	kind   string // the KIND of element the plant targets (see fieldKind, msgKind, …): selection is stratified by op@kind
	at     string
	mutate func(c *wsT) []expT // applied to a clone; nil result = not applicable
	cat    string              // a category (or rule id) that contains the planted rule in every version that has it
	single bool                // value-space operators (many small variations of one edit): ONE configuration per
	// plant, alternating between "everything enabled" and "the rule's category alone"
	// twin: where OTHER elements of the same class carry the same simple name (collide.go
	// twinIndex.class): scope / file / pkg / none
	twin string
	fi   int    // file of the planted element (-1: a package-level operator)
	ep   string // source path of the planted element ("" for file- and package-level operators)
	ord  int    // ordinal among the plants of the same operator at the same element
	// double: the operator applied at an element AND at its twin in a copied package
	double bool
	// pos: "<list kind>:<position class>" — where the planted element sits in the list the iteration
	// helper walks (position.go); "" for operators that are not about one element of a list
	pos string
	// tags: further strata of the enum family (closedness of the enum, nesting depth)
	tags []string
}

func (p plantT) stratum() string { return p.op + "@" + p.kind }

// twinStratum: selection on the name-collision workspaces is stratified by (operator, where the
// twins of the planted element are)
func (p plantT) twinStratum() string { return "C|" + p.op + "@" + p.twin }

// ---- walkers (pre-order, with descriptor source paths) ----

// msgCtx describes where a message sits: depth 0 = top level; group != nil = the body of a group field.
type msgCtx struct {
	depth int
	group *fieldT
}

func walkMsg(p, nested string, m *msgT, ctx msgCtx, fn func(path, nested string, m *msgT, ctx msgCtx)) {
	fn(p, nested, m, ctx)
	for j, it := range m.nestedItems() {
		if it.msg == nil {
			continue // synthetic map entry: no location, nothing to plant
		}
		c := msgCtx{depth: ctx.depth + 1}
		if it.field >= 0 {
			c.group = &m.fields[it.field]
		}
		walkMsg(pk(p, 3, j), nested+"."+it.msg.name, it.msg, c, fn)
	}
}

func (f *fileT) eachMsgCtx(fn func(path, nested string, m *msgT, ctx msgCtx)) {
	for i := range f.msgs {
		walkMsg(pk("4", i), f.msgs[i].name, &f.msgs[i], msgCtx{}, fn)
	}
}

func (f *fileT) eachMsg(fn func(path, nested string, m *msgT)) {
	f.eachMsgCtx(func(p, nested string, m *msgT, _ msgCtx) { fn(p, nested, m) })
}

func (f *fileT) eachEnumCtx(fn func(path, nested string, e *enumT, depth int)) {
	for i := range f.enums {
		fn(pk("5", i), f.enums[i].name, &f.enums[i], 0)
	}
	f.eachMsgCtx(func(p, nested string, m *msgT, ctx msgCtx) {
		for i := range m.enums {
			fn(pk(p, 4, i), nested+"."+m.enums[i].name, &m.enums[i], ctx.depth+1)
		}
	})
}

func (f *fileT) eachEnum(fn func(path, nested string, e *enumT)) {
	f.eachEnumCtx(func(p, nested string, e *enumT, _ int) { fn(p, nested, e) })
}

// eachField visits what NewLintFieldRuleHandler visits and the harness can plant at: per message
// (pre-order, group bodies included) its fields then its extensions, finally the file-level
// extensions (m == nil).  depth is the nesting depth of m (-1 for file-level extensions).
func (f *fileT) eachField(fn func(path string, fl *fieldT, m *msgT, isExt bool, depth int)) {
	f.eachMsgCtx(func(p, _ string, m *msgT, ctx msgCtx) {
		d := ctx.depth
		if ctx.group != nil {
			d = 100 + ctx.depth // fields of a group body
		}
		for i := range m.fields {
			fn(pk(p, 2, i), &m.fields[i], m, false, d)
		}
		for i := range m.exts {
			fn(pk(p, 6, i), &m.exts[i], m, true, d)
		}
	})
	for i := range f.exts {
		fn(pk("7", i), &f.exts[i], nil, true, -1)
	}
}

// fieldKind names the kind of a field as the rule code can tell them apart (parent message nil /
// map entry / group type / oneof membership / proto3 optional / extension) plus where it sits.
func fieldKind(fl *fieldT, m *msgT, isExt bool, depth int, proto3 bool) string {
	switch {
	case isExt && m == nil:
		return "file-ext"
	case isExt:
		return "nested-ext"
	case fl.isGroup() && fl.oneof >= 0:
		return "group-in-oneof"
	case fl.isGroup():
		return "group"
	case fl.isMap():
		return "map"
	case depth >= 100:
		return "in-group-body"
	case fl.oneof >= 0:
		return "oneof-member"
	case proto3 && fl.label == "optional":
		return "proto3-optional"
	case depth >= 1:
		return "nested-msg-field"
	}
	return "plain"
}

func depthKind(depth int) string {
	switch {
	case depth == 0:
		return "top"
	case depth == 1:
		return "nested-1"
	}
	return "nested-2+"
}

func (w *wsT) eachRef(fn func(r *ref)) {
	for _, f := range w.files {
		f.eachField(func(_ string, fl *fieldT, _ *msgT, _ bool, _ int) {
			if fl.scalar == "" && !fl.isGroup() {
				fn(&fl.ref)
			}
		})
		for i := range f.svcs {
			for j := range f.svcs[i].rpcs {
				fn(&f.svcs[i].rpcs[j].in)
				fn(&f.svcs[i].rpcs[j].out)
			}
		}
	}
}

func renamed(name, oldNested, newNested string) (string, bool) {
	if name == oldNested {
		return newNested, true
	}
	if strings.HasPrefix(name, oldNested+".") {
		return newNested + name[len(oldNested):], true
	}
	return name, false
}

func (w *wsT) renameRefs(fi int, oldNested, newNested string) {
	w.eachRef(func(r *ref) {
		if r.file != fi {
			return
		}
		r.nested, _ = renamed(r.nested, oldNested, newNested)
	})
	// extension blocks that extend a message of this file
	w.files[fi].eachField(func(_ string, fl *fieldT, _ *msgT, isExt bool, _ int) {
		if isExt && fl.extOwn != "" {
			fl.extOwn, _ = renamed(fl.extOwn, oldNested, newNested)
		}
	})
}

func (w *wsT) usedByRPC(fi int, nested string) bool {
	used := false
	for _, f := range w.files {
		for _, s := range f.svcs {
			for _, m := range s.rpcs {
				if (m.in.file == fi && m.in.nested == nested) || (m.out.file == fi && m.out.nested == nested) {
					used = true
				}
			}
		}
	}
	return used
}

// usedAsMapValue: protoc (and protodesc.NewFile, which buf lint runs on the image) reject a map
// whose enum value type does not start with a zero value; protocompile lets it through and lint
// then fails with a system error — an invalid schema, not a lint input.
func (w *wsT) usedAsMapValue(fi int, nested string) bool {
	used := false
	for _, f := range w.files {
		f.eachField(func(_ string, fl *fieldT, _ *msgT, _ bool, _ int) {
			if fl.isMap() && fl.scalar == "" && fl.ref.file == fi && fl.ref.nested == nested {
				used = true
			}
		})
	}
	return used
}

func lowerFirst(s string) string { return strings.ToLower(s[:1]) + s[1:] }

func secondIsLower(s string) bool { return len(s) == 1 || unicode.IsLower(rune(s[1])) }

func replaceLast(nested, name string) string {
	if i := strings.LastIndex(nested, "."); i >= 0 {
		return nested[:i+1] + name
	}
	return name
}

func camel(name string) string {
	if i := strings.Index(name, "_"); i >= 0 && i+1 < len(name) && unicode.IsLower(rune(name[i+1])) {
		return name[:i] + strings.ToUpper(name[i+1:i+2]) + name[i+2:]
	}
	return name + "X"
}

// pkgCycles lists, from the meaning of PACKAGE_NO_IMPORT_CYCLE alone, the imports of target
// files that lie on a package import cycle (packages as nodes, imports between files of
// different non-empty packages as edges; import-only files take part in the graph).
func pkgCycles(c *wsT) []expT {
	edges := map[string]map[string]bool{}
	for _, f := range c.files {
		for _, i := range f.imports {
			if i.file < 0 {
				continue
			}
			q := c.files[i.file].pkg
			if f.pkg == "" || q == "" || q == f.pkg {
				continue
			}
			if edges[f.pkg] == nil {
				edges[f.pkg] = map[string]bool{}
			}
			edges[f.pkg][q] = true
		}
	}
	reach := func(from, to string) bool {
		seen := map[string]bool{}
		stack := []string{from}
		for len(stack) > 0 {
			n := stack[len(stack)-1]
			stack = stack[:len(stack)-1]
			if n == to {
				return true
			}
			if seen[n] {
				continue
			}
			seen[n] = true
			for m := range edges[n] {
				stack = append(stack, m)
			}
		}
		return false
	}
	var exp []expT
	for _, f := range c.files {
		if f.isImport || f.pkg == "" {
			continue
		}
		for ii, i := range f.imports {
			if i.file < 0 {
				continue
			}
			q := c.files[i.file].pkg
			if q == "" || q == f.pkg {
				continue
			}
			if reach(q, f.pkg) {
				exp = append(exp, expT{"PACKAGE_NO_IMPORT_CYCLE", f.path, pk("3", ii)})
			}
		}
	}
	return exp
}

// rpcUniqueDoc lists, from the documentation of RPC_REQUEST_RESPONSE_UNIQUE and its three options
// alone, the RPCs of the target files the rule must flag: an RPC whose request and response type
// are the same (unless rpc_allow_same_request_response), and every RPC that uses a type another
// RPC uses as well.  rpc_allow_google_protobuf_empty_requests exempts the uses of
// google.protobuf.Empty as a REQUEST, rpc_allow_google_protobuf_empty_responses the uses as a
// RESPONSE — each option its own side only.
func rpcUniqueDoc(c *wsT, o lintOpts) []expT {
	const empty = "google.protobuf.Empty"
	type rpcAt struct {
		file, path string
		in, out    string
	}
	var rpcs []rpcAt
	for _, f := range c.files {
		if f.isImport {
			continue
		}
		for si, s := range f.svcs {
			for mi, m := range s.rpcs {
				rpcs = append(rpcs, rpcAt{f.path, pk(pk("6", si), 2, mi), c.fullName(m.in), c.fullName(m.out)})
			}
		}
	}
	exemptIn := func(r rpcAt) bool { return r.in == empty && o.allowEmptyReq }
	exemptOut := func(r rpcAt) bool { return r.out == empty && o.allowEmptyResp }
	flag := map[int]bool{}
	for i, r := range rpcs {
		if r.in == r.out && !o.allowSame && !(exemptIn(r) && exemptOut(r)) {
			flag[i] = true
		}
	}
	users := map[string]map[int]bool{} // type -> RPCs with a non-exempt use of it
	use := func(t string, i int) {
		if users[t] == nil {
			users[t] = map[int]bool{}
		}
		users[t][i] = true
	}
	for i, r := range rpcs {
		if !exemptIn(r) {
			use(r.in, i)
		}
		if !exemptOut(r) {
			use(r.out, i)
		}
	}
	for _, us := range users {
		if len(us) > 1 {
			for i := range us {
				flag[i] = true
			}
		}
	}
	var exp []expT
	for i, r := range rpcs {
		if flag[i] {
			exp = append(exp, expT{"RPC_REQUEST_RESPONSE_UNIQUE", r.file, r.path})
		}
	}
	return exp
}

func targets(w *wsT) []int {
	out := []int{}
	for i, f := range w.files {
		if !f.isImport {
			out = append(out, i)
		}
	}
	return out
}

var badComments = [][]string{nil, {""}, {"buf:lint:ignore COMMENT_FIELD"}, {"", "buf:lint:ignore ENUM_PASCAL_CASE and more"}}

// enumerate builds every plant of every operator on w.
func enumeratePlants(w *wsT, o lintOpts, r *hx.Rand, info *collInfo) []plantT {
	var out []plantT
	kind := "" // the kind of the element the following add calls target
	twin := "" // where the twins of that element are (twinIndex.class)
	ti := buildTwinIndex(w)
	pathToFile := map[string]int{}
	for i, f := range w.files {
		pathToFile[f.path] = i
	}
	ords := map[string]int{}
	sibs := map[int]map[string]int{}
	tgts := targets(w)
	filePos := map[int]string{}
	for k, fi := range tgts {
		filePos[fi] = "file:" + posClass(k, len(tgts))
	}
	posOv := ""       // position of the planted element when it cannot be read off `at` (reset by add)
	var tags []string // further strata (reset by add)
	add := func(op, at, cat string, mutate func(c *wsT) []expT) {
		p := plantT{op: op, kind: kind, twin: twin, at: at, mutate: mutate, cat: cat, fi: -1, tags: tags,
			single: strings.HasPrefix(op, "PACKAGE_SAME_<OPTION>/") || op == "PACKAGE_VERSION_SUFFIX/near-miss" || op == "PACKAGE_VERSION_SUFFIX/respelled" ||
				strings.HasSuffix(op, "/family") || strings.HasSuffix(op, "/family-silent")}
		if i := strings.LastIndex(at, ":"); i >= 0 {
			if fi, ok := pathToFile[at[:i]]; ok {
				p.fi, p.ep = fi, at[i+1:]
			}
		} else if fi, ok := pathToFile[at]; ok {
			p.fi = fi
		}
		switch {
		case posOv != "":
			p.pos = posOv
		case p.fi >= 0 && p.ep != "":
			if sibs[p.fi] == nil {
				sibs[p.fi] = sibCounts(w.files[p.fi])
			}
			p.pos = elementPos(sibs[p.fi], p.ep)
		case p.fi >= 0:
			p.pos = filePos[p.fi] // a file-level operator: the file among the target files (generation order)
		}
		posOv, tags = "", nil
		p.ord = ords[op+"\x00"+at]
		ords[op+"\x00"+at]++
		if p.twin == "" {
			p.twin = "none"
		}
		out = append(out, p)
	}
	one := func(rule, file, path string) []expT { return []expT{{rule, file, path}} }
	badIdx := 0
	pickBad := func() []string { badIdx++; return cloneLines(badComments[badIdx%len(badComments)]) }

	for _, fi := range targets(w) {
		fi := fi
		f := w.files[fi]
		proto3 := f.p3like()

		// ---- messages (top-level, nested at every depth, group bodies) ----
		f.eachMsgCtx(func(p, nested string, m *msgT, ctx msgCtx) {
			p, nested, name := p, nested, m.name
			kind = depthKind(ctx.depth)
			if ctx.group != nil {
				kind = "group-body"
			}
			twin = ti.class("msg", m.name, fi, parentOf(nested))
			get := func(c *wsT) *msgT {
				var found *msgT
				c.files[fi].eachMsg(func(q, _ string, mm *msgT) {
					if q == p {
						found = mm
					}
				})
				return found
			}
			// the field that declares the group (its name is the lower-cased group name)
			groupField := func(c *wsT) *fieldT {
				var found *fieldT
				c.files[fi].eachMsgCtx(func(q, _ string, _ *msgT, cc msgCtx) {
					if q == p {
						found = cc.group
					}
				})
				return found
			}
			switch {
			case ctx.group != nil:
				// a group name must start with a capital letter; `Name_x` leaves the field name
				// `name_x` lower_snake_case, so the message name is the only violation
				add("MESSAGE_PASCAL_CASE", f.path+":"+p, "BASIC", func(c *wsT) []expT {
					get(c).name = name + "_x"
					groupField(c).name = strings.ToLower(name + "_x")
					return one("MESSAGE_PASCAL_CASE", f.path, p+".1")
				})
			case !w.usedByRPC(fi, nested):
				for _, nn := range []string{lowerFirst(name), name + "_x", "_" + name} {
					nn := nn
					add("MESSAGE_PASCAL_CASE", f.path+":"+p, "BASIC", func(c *wsT) []expT {
						get(c).name = nn
						c.renameRefs(fi, nested, replaceLast(nested, nn))
						return one("MESSAGE_PASCAL_CASE", f.path, p+".1")
					})
				}
			}
			add("COMMENT_MESSAGE", f.path+":"+p, "COMMENTS", func(c *wsT) []expT {
				get(c).comment = pickBad()
				return one("COMMENT_MESSAGE", f.path, p)
			})
			for oi := range m.oneofs {
				oi := oi
				op := pk(p, 8, oi)
				kind = fmt.Sprintf("oneof%d-%s", min(oi, 1), depthKind(ctx.depth))
				twin = ti.class("oneof", m.oneofs[oi].name, fi, nested)
				add("ONEOF_LOWER_SNAKE_CASE", f.path+":"+op, "BASIC", func(c *wsT) []expT {
					get(c).oneofs[oi].name = camel(m.oneofs[oi].name)
					return one("ONEOF_LOWER_SNAKE_CASE", f.path, op+".1")
				})
				add("COMMENT_ONEOF", f.path+":"+op, "COMMENTS", func(c *wsT) []expT {
					get(c).oneofs[oi].comment = pickBad()
					return one("COMMENT_ONEOF", f.path, op)
				})
			}
		})

		// ---- fields: every kind that NewLintFieldRuleHandler visits (plain, nested-message field,
		// oneof member, proto3 optional, map, group, group in a oneof, field of a group body,
		// extension nested in a message, FILE-LEVEL extension whose parent message is nil) ----
		msgNested := map[*msgT]string{}
		f.eachMsgCtx(func(_, nested string, m *msgT, _ msgCtx) { msgNested[m] = nested })
		f.eachField(func(p string, fl *fieldT, m *msgT, isExt bool, depth int) {
			p, name := p, fl.name
			kind = fieldKind(fl, m, isExt, depth, proto3)
			fscope := msgNested[m]
			if isExt {
				fscope += "#ext"
			}
			twin = ti.class("field", fl.name, fi, fscope)
			get := func(c *wsT) *fieldT {
				var found *fieldT
				c.files[fi].eachField(func(q string, ff *fieldT, _ *msgT, _ bool, _ int) {
					if q == p {
						found = ff
					}
				})
				return found
			}
			if fl.isGroup() {
				// the field name is derived from the group name; the comment belongs to the message
				bodyPath := ""
				f.eachMsgCtx(func(q, _ string, _ *msgT, cc msgCtx) {
					if cc.group == fl {
						bodyPath = q
					}
				})
				gname := fl.group.name
				add("FIELD_LOWER_SNAKE_CASE/group", f.path+":"+p, "BASIC", func(c *wsT) []expT {
					// `Name_`: neither `name_` is lower_snake_case nor `Name_` PascalCase
					g := get(c)
					g.group.name = gname + "_"
					g.name = strings.ToLower(gname) + "_"
					return []expT{{"FIELD_LOWER_SNAKE_CASE", f.path, p + ".1"}, {"MESSAGE_PASCAL_CASE", f.path, bodyPath + ".1"}}
				})
				add("FIELD_NO_DESCRIPTOR", f.path+":"+p, "MINIMAL|BASIC", func(c *wsT) []expT {
					g := get(c)
					g.group.name = "Descriptor"
					g.name = "descriptor"
					return one("FIELD_NO_DESCRIPTOR", f.path, p+".1")
				})
				if fl.label == "optional" {
					add("FIELD_NOT_REQUIRED", f.path+":"+p, "BASIC", func(c *wsT) []expT {
						get(c).label = "required"
						return one("FIELD_NOT_REQUIRED", f.path, p+".1")
					})
				}
				return
			}
			add("FIELD_LOWER_SNAKE_CASE", f.path+":"+p, "BASIC", func(c *wsT) []expT {
				get(c).name = camel(name)
				return one("FIELD_LOWER_SNAKE_CASE", f.path, p+".1")
			})
			add("FIELD_LOWER_SNAKE_CASE/upper-first", f.path+":"+p, "BASIC", func(c *wsT) []expT {
				get(c).name = strings.ToUpper(name[:1]) + name[1:] + "_q"
				return one("FIELD_LOWER_SNAKE_CASE", f.path, p+".1")
			})
			add("FIELD_NO_DESCRIPTOR", f.path+":"+p, "MINIMAL|BASIC", func(c *wsT) []expT {
				get(c).name = hx.Pick(r, []string{"descriptor", "descriptor", "_descriptor", "descriptor__"})
				exp := one("FIELD_NO_DESCRIPTOR", f.path, p+".1")
				if get(c).name != "descriptor" {
					exp = append(exp, expT{"FIELD_LOWER_SNAKE_CASE", f.path, p + ".1"})
				}
				return exp
			})
			add("COMMENT_FIELD", f.path+":"+p, "COMMENTS", func(c *wsT) []expT {
				get(c).comment = pickBad()
				return one("COMMENT_FIELD", f.path, p)
			})
			if !proto3 && !isExt && fl.oneof < 0 && fl.label == "optional" {
				add("FIELD_NOT_REQUIRED", f.path+":"+p, "BASIC", func(c *wsT) []expT {
					get(c).label = "required"
					return one("FIELD_NOT_REQUIRED", f.path, p+".1")
				})
			}
			if f.syntax == "editions" && !isExt && fl.oneof < 0 && fl.label == "" && !fl.isMap() {
				// editions: a required field is spelled with a feature, the label stays empty
				add("FIELD_NOT_REQUIRED/editions", f.path+":"+p, "BASIC", func(c *wsT) []expT {
					get(c).presence = "LEGACY_REQUIRED"
					return one("FIELD_NOT_REQUIRED", f.path, p+".1")
				})
			}
		})

		// ---- enums and values ----
		f.eachEnumCtx(func(p, nested string, e *enumT, depth int) {
			p, nested, name, upper := p, nested, e.name, e.upper
			enumKind := "enum-" + depthKind(depth) // top = file level, nested-1 = in a top-level message, …
			kind = enumKind
			twin = ti.class("enum", e.name, fi, parentOf(nested))
			get := func(c *wsT) *enumT {
				var found *enumT
				c.files[fi].eachEnum(func(q, _ string, ee *enumT) {
					if q == p {
						found = ee
					}
				})
				return found
			}
			if secondIsLower(name) {
				add("ENUM_PASCAL_CASE", f.path+":"+p, "BASIC", func(c *wsT) []expT {
					nn := lowerFirst(name)
					get(c).name = nn
					c.renameRefs(fi, nested, replaceLast(nested, nn))
					return one("ENUM_PASCAL_CASE", f.path, p+".1")
				})
			}
			add("COMMENT_ENUM", f.path+":"+p, "COMMENTS", func(c *wsT) []expT {
				get(c).comment = pickBad()
				return one("COMMENT_ENUM", f.path, p)
			})
			add("ENUM_NO_ALLOW_ALIAS", f.path+":"+p, "MINIMAL|BASIC", func(c *wsT) []expT {
				ee := get(c)
				ee.allowAlias = true
				last := ee.values[len(ee.values)-1]
				alias := valueT{name: upper + "_ALIAS", comment: []string{"An alias."}, number: last.number}
				if last.number == 0 {
					alias.name += o.zero()
				}
				ee.values = append(ee.values, alias)
				return one("ENUM_NO_ALLOW_ALIAS", f.path, p+".3.2")
			})
			if !proto3 && len(e.values) >= 2 && !w.usedAsMapValue(fi, nested) {
				add("ENUM_FIRST_VALUE_ZERO", f.path+":"+p, "OTHER|BASIC", func(c *wsT) []expT {
					ee := get(c)
					ee.values[0], ee.values[1] = ee.values[1], ee.values[0]
					return one("ENUM_FIRST_VALUE_ZERO", f.path, p+".2.0.2")
				})
			}
			for vi := range e.values {
				vi := vi
				v := e.values[vi]
				vp := pk(p, 2, vi)
				kind = enumKind + map[bool]string{true: "-last-value", false: "-value"}[vi > 0 && vi == len(e.values)-1]
				twin = ti.class("value", v.name, fi, nested)
				add("COMMENT_ENUM_VALUE", f.path+":"+vp, "COMMENTS", func(c *wsT) []expT {
					get(c).values[vi].comment = pickBad()
					return one("COMMENT_ENUM_VALUE", f.path, vp)
				})
				if v.number == 0 {
					add("ENUM_ZERO_VALUE_SUFFIX", f.path+":"+vp, "STANDARD", func(c *wsT) []expT {
						get(c).values[vi].name = upper + "_UNKNOWN"
						return one("ENUM_ZERO_VALUE_SUFFIX", f.path, vp+".1")
					})
					add("ENUM_VALUE_PREFIX/zero", f.path+":"+vp, "STANDARD", func(c *wsT) []expT {
						get(c).values[vi].name = "ZZ" + o.zero()
						return one("ENUM_VALUE_PREFIX", f.path, vp+".1")
					})
					if o.zero() != "_UNSPECIFIED" {
						// a custom suffix is configured: the DEFAULT suffix is a violation now
						add("ENUM_ZERO_VALUE_SUFFIX/default-suffix", f.path+":"+vp, "STANDARD", func(c *wsT) []expT {
							get(c).values[vi].name = upper + "_UNSPECIFIED"
							return one("ENUM_ZERO_VALUE_SUFFIX", f.path, vp+".1")
						})
					} else {
						// no suffix configured: the suffixes of the other option sets are violations
						add("ENUM_ZERO_VALUE_SUFFIX/other-suffix", f.path+":"+vp, "STANDARD", func(c *wsT) []expT {
							get(c).values[vi].name = upper + hx.Pick(r, []string{"_NONE", "_ZERO", "_UNSPECIFIED_X", "_unspecified"})
							exp := one("ENUM_ZERO_VALUE_SUFFIX", f.path, vp+".1")
							if strings.HasSuffix(get(c).values[vi].name, "_unspecified") {
								exp = append(exp, expT{"ENUM_VALUE_UPPER_SNAKE_CASE", f.path, vp + ".1"})
							}
							return exp
						})
					}
				} else {
					rest := strings.TrimPrefix(v.name, upper+"_")
					add("ENUM_VALUE_PREFIX", f.path+":"+vp, "STANDARD", func(c *wsT) []expT {
						get(c).values[vi].name = "ZZ_" + rest
						return one("ENUM_VALUE_PREFIX", f.path, vp+".1")
					})
					// the prefix in another case: not the prefix (and not UPPER_SNAKE_CASE either)
					add("ENUM_VALUE_PREFIX/case-only", f.path+":"+vp, "STANDARD", func(c *wsT) []expT {
						get(c).values[vi].name = strings.ToLower(upper[:1]) + upper[1:] + "_" + rest
						return []expT{{"ENUM_VALUE_PREFIX", f.path, vp + ".1"}, {"ENUM_VALUE_UPPER_SNAKE_CASE", f.path, vp + ".1"}}
					})
					add("ENUM_VALUE_UPPER_SNAKE_CASE", f.path+":"+vp, "BASIC", func(c *wsT) []expT {
						get(c).values[vi].name = upper + "_" + strings.ToLower(rest[:1]) + rest[1:] + "z"
						return one("ENUM_VALUE_UPPER_SNAKE_CASE", f.path, vp+".1")
					})
				}
			}
			// the declaration-order / alias family (position.go): the whole value list is replaced
			if info == nil {
				twin = ""
				enumFamilyPlants(w, o, fi, p, nested, e, enumKind, get, pickBad, func(op, k, at, cat, pv string, tg []string, mutate func(c *wsT) []expT) {
					kind, posOv, tags = k, pv, tg
					add(op, at, cat, mutate)
				})
			}
		})

		// ---- services and RPCs ----
		for si := range f.svcs {
			si := si
			s := f.svcs[si]
			sp := pk("6", si)
			kind = fmt.Sprintf("service%d", min(si, 1))
			twin = ti.class("svc", s.name, fi, "")
			add("SERVICE_PASCAL_CASE", f.path+":"+sp, "BASIC", func(c *wsT) []expT {
				c.files[fi].svcs[si].name = lowerFirst(s.name)
				return one("SERVICE_PASCAL_CASE", f.path, sp+".1")
			})
			add("COMMENT_SERVICE", f.path+":"+sp, "COMMENTS", func(c *wsT) []expT {
				c.files[fi].svcs[si].comment = pickBad()
				return one("COMMENT_SERVICE", f.path, sp)
			})
			// a service without the configured suffix; request/response types named
			// <Service><Rpc>Request no longer carry the service's name
			svcSuffixPlant := func(op, newName string) {
				add(op, f.path+":"+sp, "STANDARD", func(c *wsT) []expT {
					c.files[fi].svcs[si].name = newName
					exp := one("SERVICE_SUFFIX", f.path, sp+".1")
					for mi, m := range s.rpcs {
						if m.in.file >= 0 && m.in.nested == s.name+m.name+"Request" {
							exp = append(exp, expT{"RPC_REQUEST_STANDARD_NAME", f.path, pk(sp, 2, mi) + ".2"})
						}
						if m.out.file >= 0 && m.out.nested == s.name+m.name+"Response" {
							exp = append(exp, expT{"RPC_RESPONSE_STANDARD_NAME", f.path, pk(sp, 2, mi) + ".3"})
						}
					}
					return exp
				})
			}
			svcSuffixPlant("SERVICE_SUFFIX", strings.TrimSuffix(s.name, o.svc())+"Svc")
			if o.svc() != "Service" {
				// a custom suffix is configured: the DEFAULT suffix is a violation now
				svcSuffixPlant("SERVICE_SUFFIX/default-suffix", strings.TrimSuffix(s.name, o.svc())+"Service")
			} else {
				svcSuffixPlant("SERVICE_SUFFIX/other-suffix", strings.TrimSuffix(s.name, o.svc())+hx.Pick(r, []string{"API", "Endpoint", "ServiceX", "service"}))
			}
			for mi := range s.rpcs {
				mi := mi
				m := s.rpcs[mi]
				mp := pk(sp, 2, mi)
				kind = fmt.Sprintf("service%d-rpc%d", min(si, 1), min(mi, 1))
				twin = ti.class("rpc", m.name, fi, s.name)
				add("RPC_PASCAL_CASE", f.path+":"+mp, "BASIC", func(c *wsT) []expT {
					c.files[fi].svcs[si].rpcs[mi].name = lowerFirst(m.name)
					return one("RPC_PASCAL_CASE", f.path, mp+".1")
				})
				add("COMMENT_RPC", f.path+":"+mp, "COMMENTS", func(c *wsT) []expT {
					c.files[fi].svcs[si].rpcs[mi].comment = pickBad()
					return one("COMMENT_RPC", f.path, mp)
				})
				add("RPC_NO_CLIENT_STREAMING", f.path+":"+mp, "UNARY_RPC", func(c *wsT) []expT {
					c.files[fi].svcs[si].rpcs[mi].cs = true
					return one("RPC_NO_CLIENT_STREAMING", f.path, mp)
				})
				add("RPC_NO_SERVER_STREAMING", f.path+":"+mp, "UNARY_RPC", func(c *wsT) []expT {
					c.files[fi].svcs[si].rpcs[mi].ss = true
					return one("RPC_NO_SERVER_STREAMING", f.path, mp)
				})
				if m.in.file == fi {
					add("RPC_REQUEST_STANDARD_NAME", f.path+":"+mp, "STANDARD", func(c *wsT) []expT {
						nn := strings.TrimSuffix(m.in.nested, "Request") + "Req"
						for i := range c.files[fi].msgs {
							if c.files[fi].msgs[i].name == m.in.nested {
								c.files[fi].msgs[i].name = nn
							}
						}
						c.renameRefs(fi, m.in.nested, nn)
						return one("RPC_REQUEST_STANDARD_NAME", f.path, mp+".2")
					})
				}
				if m.out.file == fi {
					add("RPC_RESPONSE_STANDARD_NAME", f.path+":"+mp, "STANDARD", func(c *wsT) []expT {
						nn := strings.TrimSuffix(m.out.nested, "Response") + "Reply"
						for i := range c.files[fi].msgs {
							if c.files[fi].msgs[i].name == m.out.nested {
								c.files[fi].msgs[i].name = nn
							}
						}
						c.renameRefs(fi, m.out.nested, nn)
						return one("RPC_RESPONSE_STANDARD_NAME", f.path, mp+".3")
					})
				}
				// names that differ from the standard name in the CASE of one letter only, or that merely
				// START with it: a comparison that folds case or tests a prefix accepts them
				for _, how := range []string{"case-only", "extended"} {
					how := how
					respell := func(n string) string {
						if how == "extended" {
							return n + "X"
						}
						for i := 1; i < len(n); i++ {
							if unicode.IsUpper(rune(n[i])) && i+1 < len(n) && unicode.IsLower(rune(n[i+1])) {
								return n[:i] + strings.ToLower(n[i:i+1]) + n[i+1:]
							}
						}
						return ""
					}
					renameTop := func(c *wsT, old, nn string) bool {
						for i := range c.files[fi].msgs {
							if c.files[fi].msgs[i].name == nn {
								return false
							}
						}
						for i := range c.files[fi].msgs {
							if c.files[fi].msgs[i].name == old {
								c.files[fi].msgs[i].name = nn
							}
						}
						c.renameRefs(fi, old, nn)
						return true
					}
					if m.in.file == fi && !strings.Contains(m.in.nested, ".") {
						add("RPC_REQUEST_STANDARD_NAME/"+how, f.path+":"+mp, "STANDARD", func(c *wsT) []expT {
							nn := respell(m.in.nested)
							if nn == "" || !renameTop(c, m.in.nested, nn) {
								return nil
							}
							return one("RPC_REQUEST_STANDARD_NAME", f.path, mp+".2")
						})
					}
					if m.out.file == fi && !strings.Contains(m.out.nested, ".") {
						add("RPC_RESPONSE_STANDARD_NAME/"+how, f.path+":"+mp, "STANDARD", func(c *wsT) []expT {
							nn := respell(m.out.nested)
							if nn == "" || !renameTop(c, m.out.nested, nn) {
								return nil
							}
							return one("RPC_RESPONSE_STANDARD_NAME", f.path, mp+".3")
						})
					}
				}
				if m.in.file == fi && m.out.file == fi {
					add("RPC_REQUEST_RESPONSE_UNIQUE/same", f.path+":"+mp, "STANDARD", func(c *wsT) []expT {
						c.files[fi].svcs[si].rpcs[mi].out = m.in
						exp := one("RPC_RESPONSE_STANDARD_NAME", f.path, mp+".3")
						if !o.allowSame {
							exp = append(exp, expT{"RPC_REQUEST_RESPONSE_UNIQUE", f.path, mp})
						}
						return exp
					})
				}
				// google.protobuf.Empty where the configuration does not allow it: the two allow_*
				// options are independent, each covers its own side only
				emptyRef := ref{-1, "google.protobuf.Empty"}
				useEmpty := func(c *wsT) {
					for _, i := range c.files[fi].imports {
						if i.file < 0 && i.wkt == "google/protobuf/empty.proto" {
							return
						}
					}
					c.files[fi].imports = append(c.files[fi].imports, impT{file: -1, wkt: "google/protobuf/empty.proto"})
				}
				optKind := fmt.Sprintf("/allow-req=%v,resp=%v,same=%v", o.allowEmptyReq, o.allowEmptyResp, o.allowSame)
				savedKind := kind
				kind = "rpc" + optKind
				if !o.allowEmptyReq && m.in != emptyRef {
					add("RPC_REQUEST_STANDARD_NAME/empty", f.path+":"+mp, "STANDARD", func(c *wsT) []expT {
						c.files[fi].svcs[si].rpcs[mi].in = emptyRef
						useEmpty(c)
						return append(one("RPC_REQUEST_STANDARD_NAME", f.path, mp+".2"), rpcUniqueDoc(c, o)...)
					})
				}
				if !o.allowEmptyResp && m.out != emptyRef {
					add("RPC_RESPONSE_STANDARD_NAME/empty", f.path+":"+mp, "STANDARD", func(c *wsT) []expT {
						c.files[fi].svcs[si].rpcs[mi].out = emptyRef
						useEmpty(c)
						return append(one("RPC_RESPONSE_STANDARD_NAME", f.path, mp+".3"), rpcUniqueDoc(c, o)...)
					})
				}
				// two RPCs of the file with google.protobuf.Empty on the same side
				for mj := range s.rpcs {
					mj := mj
					if mj <= mi {
						continue
					}
					for _, side := range []string{"request", "response"} {
						side := side
						if (side == "request" && o.allowEmptyReq) || (side == "response" && o.allowEmptyResp) {
							continue // allowed on that side: the generator's clean workspaces cover it
						}
						add("RPC_REQUEST_RESPONSE_UNIQUE/empty-"+side+"-twice", f.path+":"+mp, "STANDARD", func(c *wsT) []expT {
							var exp []expT
							for _, k := range []int{mi, mj} {
								rp := &c.files[fi].svcs[si].rpcs[k]
								kp := pk(sp, 2, k)
								if side == "request" {
									if rp.in != emptyRef && !o.allowEmptyReq {
										exp = append(exp, expT{"RPC_REQUEST_STANDARD_NAME", f.path, kp + ".2"})
									}
									rp.in = emptyRef
								} else {
									if rp.out != emptyRef && !o.allowEmptyResp {
										exp = append(exp, expT{"RPC_RESPONSE_STANDARD_NAME", f.path, kp + ".3"})
									}
									rp.out = emptyRef
								}
							}
							useEmpty(c)
							exp = append(exp, rpcUniqueDoc(c, o)...)
							return exp // empty = the configuration allows it: not a plant
						})
					}
				}
				kind = savedKind
				// reuse the request type of another RPC of the same file
				for sj := range f.svcs {
					for mj := range f.svcs[sj].rpcs {
						sj, mj := sj, mj
						other := f.svcs[sj].rpcs[mj]
						if (sj == si && mj == mi) || other.in.file != fi || m.in.file != fi {
							continue
						}
						add("RPC_REQUEST_RESPONSE_UNIQUE/reuse", f.path+":"+mp, "STANDARD", func(c *wsT) []expT {
							c.files[fi].svcs[si].rpcs[mi].in = other.in
							// the borrowed type is not named after this RPC — unless the other RPC has the SAME name
							// in another service (name-collision workspaces): `<Rpc>Request` is then a standard name
							// here as well (stdNameDoc: the documentation of RPC_REQUEST_STANDARD_NAME)
							return append([]expT{{"RPC_REQUEST_RESPONSE_UNIQUE", f.path, mp}, {"RPC_REQUEST_RESPONSE_UNIQUE", f.path, pk(pk("6", sj), 2, mj)}},
								stdNameDoc(c, o, fi, si, mi)...)
						})
					}
				}
			}
		}

		// ---- imports ----
		twin = ""
		for ii := range f.imports {
			ii := ii
			ip := pk("3", ii)
			switch {
			case f.imports[ii].file < 0:
				kind = "import-wkt"
			case w.files[f.imports[ii].file].isImport:
				kind = "import-dependency"
			default:
				kind = "import-workspace"
			}
			add("IMPORT_NO_PUBLIC", f.path+":"+ip, "MINIMAL|BASIC", func(c *wsT) []expT {
				// protocompile attributes a symbol reachable both directly and through a public
				// import to the public path and then calls the direct import unused; keep the
				// plant a SINGLE violation: no other file may import both f and the target.
				for _, g := range c.files {
					both := 0
					for _, gi := range g.imports {
						if gi.file == fi || (gi.file == f.imports[ii].file && gi.wkt == f.imports[ii].wkt) {
							both++
						}
					}
					if both >= 2 {
						return nil
					}
				}
				c.files[fi].imports[ii].public = true
				return one("IMPORT_NO_PUBLIC", f.path, ip)
			})
			add("IMPORT_NO_WEAK", f.path+":"+ip, "IMPORT_NO_WEAK", func(c *wsT) []expT {
				c.files[fi].imports[ii].weak = true
				return one("IMPORT_NO_WEAK", f.path, ip)
			})
		}
		kind = "file-" + f.syntax
		posOv = "import:" + posClass(len(f.imports), len(f.imports)+1) // the unused import is appended
		add("IMPORT_USED", f.path, "BASIC", func(c *wsT) []expT {
			for _, i := range f.imports {
				if i.file < 0 && i.wkt == "google/protobuf/timestamp.proto" {
					return nil
				}
			}
			c.files[fi].imports = append(c.files[fi].imports, impT{file: -1, wkt: "google/protobuf/timestamp.proto", unused: true})
			return one("IMPORT_USED", f.path, pk("3", len(f.imports)))
		})

		// ---- file level ----
		add("FILE_LOWER_SNAKE_CASE", f.path, "STANDARD", func(c *wsT) []expT {
			g := c.files[fi]
			dir, base := g.path[:strings.LastIndex(g.path, "/")+1], g.path[strings.LastIndex(g.path, "/")+1:]
			g.path = dir + hx.Pick(r, []string{strings.ToUpper(base[:1]) + base[1:], strings.TrimSuffix(base, ".proto") + "X.proto"})
			return one("FILE_LOWER_SNAKE_CASE", g.path, "")
		})
		if f.syntax == "proto2" {
			add("SYNTAX_SPECIFIED", f.path, "BASIC", func(c *wsT) []expT {
				c.files[fi].syntax = ""
				return one("SYNTAX_SPECIFIED", f.path, "")
			})
		}
		samePkg, sameDir := []int{}, []int{}
		dirOf := func(p string) string { return p[:strings.LastIndex(p, "/")] }
		for _, fj := range targets(w) {
			if w.files[fj].pkg == f.pkg {
				samePkg = append(samePkg, fj)
			}
			if dirOf(w.files[fj].path) == dirOf(f.path) {
				sameDir = append(sameDir, fj)
			}
		}
		add("PACKAGE_DIRECTORY_MATCH", f.path, "MINIMAL", func(c *wsT) []expT {
			g := c.files[fi]
			g.path = "misc/elsewhere/" + g.path[strings.LastIndex(g.path, "/")+1:]
			exp := one("PACKAGE_DIRECTORY_MATCH", g.path, "2")
			if len(samePkg) > 1 { // files of one package in two directories
				for _, fj := range samePkg {
					exp = append(exp, expT{"PACKAGE_SAME_DIRECTORY", c.files[fj].path, "2"})
				}
			}
			return exp
		})
		add("DIRECTORY_SAME_PACKAGE", f.path, "MINIMAL", func(c *wsT) []expT {
			if len(sameDir) < 2 {
				return nil
			}
			parts := strings.Split(f.pkg, ".")
			parts[len(parts)-2] += "_other"
			c.files[fi].pkg = strings.Join(parts, ".")
			exp := one("PACKAGE_DIRECTORY_MATCH", f.path, "2")
			for _, fj := range sameDir {
				exp = append(exp, expT{"DIRECTORY_SAME_PACKAGE", c.files[fj].path, "2"})
			}
			return exp
		})
		add("PACKAGE_DEFINED", f.path, "MINIMAL", func(c *wsT) []expT {
			c.files[fi].pkg = ""
			exp := one("PACKAGE_DEFINED", f.path, "")
			if len(sameDir) > 1 {
				for _, fj := range sameDir {
					path := "2"
					if fj == fi {
						path = ""
					}
					exp = append(exp, expT{"DIRECTORY_SAME_PACKAGE", c.files[fj].path, path})
				}
			}
			return exp
		})
		// a file moved into a SUBDIRECTORY of its package's directory, or into a sibling directory whose
		// name has the package's directory as a string prefix: still two directories
		for _, how := range []string{"subdir", "sibling-prefix"} {
			how := how
			add("PACKAGE_SAME_DIRECTORY/"+how, f.path, "MINIMAL", func(c *wsT) []expT {
				g := c.files[fi]
				dir, base := dirOf(g.path), g.path[strings.LastIndex(g.path, "/")+1:]
				if how == "subdir" {
					g.path = dir + "/sub/" + base
				} else {
					g.path = dir + "x/" + base
				}
				exp := one("PACKAGE_DIRECTORY_MATCH", g.path, "2")
				if len(samePkg) > 1 {
					for _, fj := range samePkg {
						exp = append(exp, expT{"PACKAGE_SAME_DIRECTORY", c.files[fj].path, "2"})
					}
				}
				return exp
			})
		}
		// directory / package that differ from what they should be in the CASE of one letter only
		add("PACKAGE_DIRECTORY_MATCH/case-only", f.path, "MINIMAL", func(c *wsT) []expT {
			g := c.files[fi]
			g.path = strings.ToUpper(g.path[:1]) + g.path[1:]
			exp := one("PACKAGE_DIRECTORY_MATCH", g.path, "2")
			if len(samePkg) > 1 {
				for _, fj := range samePkg {
					exp = append(exp, expT{"PACKAGE_SAME_DIRECTORY", c.files[fj].path, "2"})
				}
			}
			return exp
		})
		add("DIRECTORY_SAME_PACKAGE/case-only", f.path, "MINIMAL", func(c *wsT) []expT {
			if len(sameDir) < 2 {
				return nil
			}
			c.files[fi].pkg = strings.ToUpper(f.pkg[:1]) + f.pkg[1:]
			exp := []expT{{"PACKAGE_DIRECTORY_MATCH", f.path, "2"}, {"PACKAGE_LOWER_SNAKE_CASE", f.path, "2"}}
			for _, fj := range sameDir {
				exp = append(exp, expT{"DIRECTORY_SAME_PACKAGE", c.files[fj].path, "2"})
			}
			return exp
		})
		// the package of one file differs from its directory neighbours in the VERSION component only
		add("DIRECTORY_SAME_PACKAGE/version-only", f.path, "MINIMAL", func(c *wsT) []expT {
			if len(sameDir) < 2 {
				return nil
			}
			parts := strings.Split(f.pkg, ".")
			last := parts[len(parts)-1]
			parts[len(parts)-1] = "v9" + last[1:] // v1 -> v91, v1p1beta1 -> v91p1beta1: a version of the same stability
			c.files[fi].pkg = strings.Join(parts, ".")
			exp := one("PACKAGE_DIRECTORY_MATCH", f.path, "2")
			for _, fj := range sameDir {
				exp = append(exp, expT{"DIRECTORY_SAME_PACKAGE", c.files[fj].path, "2"})
			}
			return exp
		})
	}

	// ---- request / response types reused across files and packages (collide.go) ----
	crossFilePlants(w, o, info, func(op, k, at, cat string, mutate func(c *wsT) []expT) {
		kind, twin = k, k
		add(op, at, cat, mutate)
		out[len(out)-1].ep = "" // the expectation depends on the whole workspace: not paired into a double plant
	})
	twin = ""

	// ---- whole-package operators (package statement of every file of the package + its directory) ----
	kind = "package"
	seen := map[string]bool{}
	for _, fi := range targets(w) {
		pkg := w.files[fi].pkg
		if seen[pkg] {
			continue
		}
		seen[pkg] = true
		kind = "package"
		parts := strings.Split(pkg, ".")
		repackage := func(c *wsT, newPkg string, rule string) []expT {
			var exp []expT
			for _, fj := range targets(c) {
				g := c.files[fj]
				if g.pkg != pkg {
					continue
				}
				g.pkg = newPkg
				g.path = strings.ReplaceAll(newPkg, ".", "/") + g.path[strings.LastIndex(g.path, "/"):]
				exp = append(exp, expT{rule, g.path, "2"})
			}
			return exp
		}
		add("PACKAGE_LOWER_SNAKE_CASE", pkg, "BASIC", func(c *wsT) []expT {
			p2 := append([]string{}, parts...)
			p2[0] = strings.ToUpper(p2[0][:1]) + p2[0][1:]
			return repackage(c, strings.Join(p2, "."), "PACKAGE_LOWER_SNAKE_CASE")
		})
		for _, bad := range []string{"", "v0", "v1p1", "v1gamma1", "vbeta1"} {
			bad := bad
			add("PACKAGE_VERSION_SUFFIX/"+bad, pkg, "STANDARD", func(c *wsT) []expT {
				p2 := append([]string{}, parts[:len(parts)-1]...)
				p2[len(p2)-1] += "_nv"
				if bad != "" {
					p2 = append(p2, bad)
				}
				return repackage(c, strings.Join(p2, "."), "PACKAGE_VERSION_SUFFIX")
			})
		}
		// near misses of the documented version grammar (v\d+ | v\d+test.* | v\d+(alpha|beta)\d* |
		// v\d+p\d+(alpha|beta)\d*, numbers >= 1) as the last component: every one must be reported;
		// a component that is not lower_snake_case ([a-z0-9]+(_[a-z0-9]+)*) violates that rule as well
		for _, bad := range nearMissSuffixes {
			bad := bad
			kind = "suffix=" + bad
			add("PACKAGE_VERSION_SUFFIX/near-miss", pkg, "STANDARD", func(c *wsT) []expT {
				p2 := append(append([]string{}, parts[:len(parts)-1]...), bad)
				np := strings.Join(p2, ".")
				if versioned, _ := isDocVersionPackage(np); versioned {
					panic("harness: " + np + " has a documented version suffix")
				}
				exp := repackage(c, np, "PACKAGE_VERSION_SUFFIX")
				if !reLowerSnake.MatchString(bad) {
					for _, e := range append([]expT{}, exp...) {
						exp = append(exp, expT{"PACKAGE_LOWER_SNAKE_CASE", e.file, "2"})
					}
				}
				return exp
			})
		}
		// other spellings of a documented version: nothing to report (besides a stable package that
		// now imports an unstable one: stableDoc)
		for _, good := range respelledSuffixes {
			good := good
			kind = "suffix=" + good
			add("PACKAGE_VERSION_SUFFIX/respelled", pkg, "STANDARD", func(c *wsT) []expT {
				p2 := append(append([]string{}, parts[:len(parts)-1]...), good)
				np := strings.Join(p2, ".")
				if versioned, _ := isDocVersionPackage(np); !versioned {
					panic("harness: " + np + " has no documented version suffix")
				}
				for _, fj := range targets(c) {
					if c.files[fj].pkg == np {
						return nil // the package exists already
					}
				}
				repackage(c, np, "")
				return []expT{}
			})
		}
		kind = "package"
		// every file of the package moves to one other directory: still ONE directory per package
		add("PACKAGE_SAME_DIRECTORY/all-moved", pkg, "MINIMAL", func(c *wsT) []expT {
			exp := []expT{}
			for _, fj := range targets(c) {
				g := c.files[fj]
				if g.pkg == pkg {
					g.path = "misc/elsewhere/" + g.path[strings.LastIndex(g.path, "/")+1:]
					exp = append(exp, expT{"PACKAGE_DIRECTORY_MATCH", g.path, "2"})
				}
			}
			return exp
		})
		// every file of the package gets the same other package and stays where it is: still ONE
		// package per directory
		add("DIRECTORY_SAME_PACKAGE/all-repackaged", pkg, "MINIMAL", func(c *wsT) []expT {
			p2 := append([]string{}, parts...)
			p2[len(p2)-2] += "_other"
			exp := []expT{}
			for _, fj := range targets(c) {
				g := c.files[fj]
				if g.pkg == pkg {
					g.pkg = strings.Join(p2, ".")
					exp = append(exp, expT{"PACKAGE_DIRECTORY_MATCH", g.path, "2"})
				}
			}
			return exp
		})
		// ---- the VALUE SPACE of PACKAGE_SAME_<option>: unset / explicit default / non-default values
		// over the files of one package (see optConfigs) ----
		var members []int
		for _, fj := range targets(w) {
			if w.files[fj].pkg == pkg {
				members = append(members, fj)
			}
		}
		for k := 0; k < 7; k++ {
			k := k
			for _, cfg := range optConfigs(k, len(members)) {
				cfg := cfg
				// the number of files is part of the configuration name (one-file-*, three-files-*); the six
				// string options share every SILENT configuration (one stratum, the option rotates), the
				// conflicting ones and java_multiple_files are strata per option
				kind = optNames[k]
				if k != 2 && cfg.silent {
					kind = "string-option"
				}
				odd := r.Intn(len(members))
				add("PACKAGE_SAME_<OPTION>/"+cfg.name, pkg, "MINIMAL|BASIC", func(c *wsT) []expT {
					vals := cfg.assign(len(members), odd)
					for i, fj := range members {
						c.files[fj].opts[k] = vals[i]
					}
					return packageSameDoc(c, pkg, k)
				})
			}
		}
	}
	return out
}

// nearMissSuffixes: last package components that are NOT of a documented version form — numbers in
// another notation (digit separators, base prefixes, exponent), zero where >= 1 is demanded, a
// missing or doubled part, the wrong case.
var nearMissSuffixes = []string{"v1_0", "v1_1", "v0x1", "v0b1", "v0o7", "v0x1f", "v1e3", "v1alpha1_1", "v1alpha_1", "v1p1_0beta1", "v1_0p1beta1", "v1p0x1alpha",
	"v1_", "v00", "v1alpha0", "v1alpha00", "v1p0beta1", "v0p1beta1", "v1pbeta1", "v1p", "v1beta1alpha", "v1alphabeta", "v1alpha1p1", "v1x", "v1betax", "vv1", "v",
	"x1", "v1tes", "v1alph", "V1", "v1Alpha1", "v1ALPHA"}

// respelledSuffixes: documented versions in less common spellings.
var respelledSuffixes = []string{"v01", "v10", "v2147483647", "v1alpha", "v2beta3", "v1p2alpha3", "v3p1beta", "v001p01beta01", "v1test", "v1testfoo_bar", "v1test_1", "v7testalpha"}

type optConfig struct {
	name   string
	assign func(n, odd int) []optT
	silent bool // for a string option (unset and "" are one value) the files agree
}

// optConfigs: how the n files of one package may spell option k.  A = a non-default value, A2 = A
// with one letter in the other case, B = another non-default value, D = the default spelled out
// (`= ""` / `= false`), U = no option statement.  `odd` is the index of the file that differs.
func optConfigs(k, n int) []optConfig {
	A, B, D, U := setOpt(optValuePool[k][0]), setOpt(optValuePool[k][len(optValuePool[k])-1]), optDefault(k), unsetOpt()
	all := func(v optT) func(n, odd int) []optT {
		return func(n, _ int) []optT {
			out := make([]optT, n)
			for i := range out {
				out[i] = v
			}
			return out
		}
	}
	oneOdd := func(oddV, rest optT) func(n, odd int) []optT {
		return func(n, odd int) []optT {
			out := all(rest)(n, 0)
			out[odd] = oddV
			return out
		}
	}
	if n == 1 {
		return []optConfig{{"one-file-unset", all(U), true}, {"one-file-explicit-default", all(D), true}, {"one-file-non-default", all(A), true}}
	}
	cfgs := []optConfig{
		{"all-unset", all(U), true},
		{"all-explicit-default", all(D), true},
		{"all-equal-non-default", all(A), true},
		{"unset-vs-explicit-default", oneOdd(D, U), true},
		{"explicit-default-vs-unset", oneOdd(U, D), true},
		{"explicit-default-vs-non-default", oneOdd(D, A), false},
		{"non-default-vs-explicit-default", oneOdd(A, D), false},
		{"non-default-vs-unset", oneOdd(A, U), false},
		{"unset-vs-non-default", oneOdd(U, A), false},
	}
	if k != 2 {
		A2 := setOpt(optValuePool[k][1])
		cfgs = append(cfgs, optConfig{"two-non-defaults", oneOdd(B, A), false}, optConfig{"case-only", oneOdd(A2, A), false})
	}
	if n >= 3 {
		cfgs = append(cfgs, optConfig{"three-files-unset-default-non-default", func(n, odd int) []optT {
			out := all(A)(n, 0)
			out[odd], out[(odd+1)%n] = U, D
			return out
		}, false})
	}
	return cfgs
}

// packageSameDoc: "all files with a given package have the same value for the <option> option".
// The VALUE of a string option that is not set is the empty string — `option go_package = "";`
// and no statement are one value (the default of the protobuf language; the code agrees).  For
// java_multiple_files the rule's own message tells "values" from "no value" ("have both values
// %q and no value for option"), so a file without the statement and a file with
// `option java_multiple_files = false;` do NOT agree.  When the values differ EVERY file of the
// package is reported: at its option statement when it has one, else without a location.
func packageSameDoc(c *wsT, pkg string, k int) []expT {
	vals := map[string]bool{}
	var files []*fileT
	for _, fj := range targets(c) {
		g := c.files[fj]
		if g.pkg != pkg {
			continue
		}
		files = append(files, g)
		switch {
		case g.opts[k].set:
			vals["="+g.opts[k].val] = true
		case k == 2:
			vals["no value"] = true
		default:
			vals["="] = true
		}
	}
	exp := []expT{}
	if len(vals) <= 1 {
		return exp
	}
	rule := "PACKAGE_SAME_" + strings.ToUpper(optNames[k])
	for _, g := range files {
		path := ""
		if g.opts[k].set {
			path = pk("8", optFieldNumbers[k])
		}
		exp = append(exp, expT{rule, g.path, path})
	}
	return exp
}

// stableDoc: STABLE_PACKAGE_NO_IMPORT_UNSTABLE — a file of a package with a stable version
// (v\d+) must not import a file of a package with an unstable one (alpha, beta, test); packages
// without a documented version are neither.  Only target files are looked at.
func stableDoc(c *wsT) []expT {
	var exp []expT
	for _, f := range c.files {
		if f.isImport {
			continue
		}
		if _, stable := isDocVersionPackage(f.pkg); !stable {
			continue
		}
		for ii, i := range f.imports {
			if i.file < 0 || c.files[i.file].isImport {
				continue
			}
			if versioned, stable := isDocVersionPackage(c.files[i.file].pkg); versioned && !stable {
				exp = append(exp, expT{"STABLE_PACKAGE_NO_IMPORT_UNSTABLE", f.path, pk("3", ii)})
			}
		}
	}
	return exp
}

func catUse(cat string, v bufconfig.FileVersion) []string {
	if cat == "IMPORT_NO_WEAK" {
		return []string{"MINIMAL", "IMPORT_NO_WEAK"} // a deprecated id without replacement cannot be the only id
	}
	// the first alternative that exists in this version
	alts := strings.Split(cat, "|")
	if v == bufconfig.FileVersionV1Beta1 {
		return []string{alts[0]}
	}
	return []string{alts[len(alts)-1]}
}

// budgets of the quick tier: plants per regular workspace, plants on the wide workspace;
// PROTOVALIDATE on every pvEvery-th plant
const (
	regularQuick = 92
	wideQuick    = 70
	pvEvery      = 16
)

// strataDone counts, over the whole run, how many plants of every stratum (operator @ element
// kind) were executed: the per-workspace budget goes to the least covered strata first, so every
// operator reaches every kind of element it applies to.
var strataDone = map[string]int{}

// selectPlants: `limit` plants of one workspace.  First one plant of every operator (the enum-family
// operators excepted: they are many variations of one edit) — the one that covers most strata no plant
// of this run has covered yet —, then greedily the plant that covers most uncovered strata of either
// stratification: (operator, element kind) and (rule, list kind, position class) / family tags
// (position.go); ties: the least covered strata in total, then the shuffled order.
func selectPlants(plants []plantT, limit int, r *hx.Rand, perOperator bool) []plantT {
	if len(plants) <= limit {
		for _, p := range plants {
			countStrata(p, plantT.stratum)
		}
		return plants
	}
	hx.Shuffle(r, plants)
	// strata as small integers, their coverage so far in a slice (the selection loop is hot)
	ids := map[string]int{}
	var done []int
	var names []string
	keys := make([][]int, len(plants))
	for i, p := range plants {
		for _, k := range append([]string{p.stratum()}, p.strata2()...) {
			id, ok := ids[k]
			if !ok {
				id = len(done)
				ids[k] = id
				done = append(done, strataDone[k])
				names = append(names, k)
			}
			keys[i] = append(keys[i], id)
		}
	}
	taken := make([]bool, len(plants))
	var keep []plantT
	take := func(i int) {
		taken[i] = true
		keep = append(keep, plants[i])
		for _, id := range keys[i] {
			done[id]++
			strataDone[names[id]]++
		}
	}
	gain := func(i int) (uncovered, sum int) {
		for _, id := range keys[i] {
			d := done[id]
			if d == 0 {
				uncovered++
			}
			sum += d
		}
		return
	}
	// pick: the plant that covers most uncovered strata; the average coverage decides between plants
	// that open equally many
	pick := func(cands func(yield func(i int))) int {
		best, ub, sb := -1, 0, 0
		cands(func(i int) {
			ui, si := gain(i)
			if best < 0 || ui > ub || (ui == ub && si*len(keys[best]) < sb*len(keys[i])) {
				best, ub, sb = i, ui, si
			}
		})
		return best
	}
	if perOperator {
		var ops []string
		byOp := map[string][]int{}
		for i, p := range plants {
			if strings.Contains(p.op, "/family") {
				continue
			}
			if byOp[p.op] == nil {
				ops = append(ops, p.op)
			}
			byOp[p.op] = append(byOp[p.op], i)
		}
		for _, op := range ops {
			take(pick(func(yield func(i int)) {
				for _, i := range byOp[op] {
					yield(i)
				}
			}))
		}
	}
	for len(keep) < limit {
		best := pick(func(yield func(i int)) {
			for i := range plants {
				if !taken[i] {
					yield(i)
				}
			}
		})
		if best < 0 {
			break
		}
		take(best)
	}
	return keep
}

// twinRank orders the strata of a name-collision workspace by what the family is about: an RPC pair
// with equal service and RPC names first, then equal RPC or service names, then elements whose name
// twin sits in another scope / file, then elements with a twin in another package, last the rest.
func twinRank(p plantT) int {
	switch {
	case strings.Contains(p.twin, "same-service-and-rpc-name"):
		return 0
	case strings.Contains(p.twin, "same-rpc-name") || strings.Contains(p.twin, "same-service-name"):
		return 1
	case strings.HasPrefix(p.twin, "scope") || strings.HasPrefix(p.twin, "file"):
		return 2
	case p.twin == "none":
		return 4
	}
	return 3
}

// selectCollision: always the least covered (operator, twin class) stratum, ties by twinRank.
func selectCollision(plants []plantT, limit int, r *hx.Rand) []plantT {
	hx.Shuffle(r, plants)
	taken := make([]bool, len(plants))
	var keep []plantT
	for len(keep) < limit {
		best := -1
		for i, p := range plants {
			if taken[i] {
				continue
			}
			if best < 0 {
				best = i
				continue
			}
			di, db := strataDone[p.twinStratum()], strataDone[plants[best].twinStratum()]
			if di < db || (di == db && twinRank(p) < twinRank(plants[best])) {
				best = i
			}
		}
		if best < 0 {
			break
		}
		taken[best] = true
		keep = append(keep, plants[best])
		countStrata(plants[best], plantT.twinStratum)
	}
	return keep
}

func plantAll(run *hx.Run, l *linter, r *hx.Rand, w *wsT, o lintOpts, wi int, replay string, info *collInfo, wide bool) {
	// the documentation-level enum oracle and the generator must agree that a generated workspace is clean
	if exp := enumDoc(w, o); len(exp) > 0 {
		run.Fail(hx.OracleFailure{Class: "c05-harness-generated-enum-not-clean", What: fmt.Sprintf("workspace %d: the generator's enum owes %v by the rule documentation", wi, exp[0]),
			Input: textsOf(w), Replay: replay})
		return
	}
	t0 := time.Now()
	plants := enumeratePlants(w, o, r, info)
	since(t0, &tEnum)
	t0 = time.Now()
	run.CountN("B:plants:enumerated", len(plants))
	for _, p := range plants {
		for _, s := range p.strata2() {
			run.CountN("P:stratum-available:"+s[2:], 1)
		}
	}
	if info == nil {
		for _, p := range plants {
			run.CountN("B:stratum-available:"+p.stratum(), 1)
		}
		plants = selectPlants(plants, run.N(map[bool]int{false: regularQuick, true: wideQuick}[wide], map[bool]int{false: 240, true: 160}[wide]), r, !wide)
	} else {
		// name-collision workspace: every operator once, then the least covered (operator, twin class)
		// first; then the same operator at both twins, the least covered operator first
		doubles := doublePlants(w, info, plants)
		for _, p := range plants {
			run.CountN("C:stratum-available:"+p.op+"@"+p.twin, 1)
		}
		run.CountN("C:doubles:enumerated", len(doubles))
		plants = selectCollision(plants, run.N(88, 220), r)
		hx.Shuffle(r, doubles)
		nd := 0
		for len(doubles) > 0 && nd < run.N(24, 80) {
			best := 0
			for i, d := range doubles {
				if strataDone["D|"+d.op] < strataDone["D|"+doubles[best].op] {
					best = i
				}
			}
			strataDone["D|"+doubles[best].op]++
			plants = append(plants, doubles[best])
			doubles = append(doubles[:best], doubles[best+1:]...)
			nd++
		}
	}
	since(t0, &tSelect)
	for pi, p := range plants {
		what := fmt.Sprintf("workspace %d, plant %s at %s (%s; position %s)", wi, p.op, p.at, p.kind, p.pos)
		if wide {
			what = "wide " + what
		}
		if info != nil {
			what = fmt.Sprintf("name-collision workspace %d, plant %s at %s (%s; same name elsewhere: %s)", wi, p.op, p.at, p.kind, p.twin)
		}
		pw := w.clone()
		expect := p.mutate(pw)
		if expect == nil {
			run.Count("B:plant-not-applicable:" + p.op)
			continue
		}
		expect = append(expect, pkgCycles(pw)...)
		expect = append(expect, stableDoc(pw)...)
		b, err := build(pw)
		if err != nil {
			run.Count("B:plant-build-failed:" + p.op)
			if debug {
				fmt.Println("BUILD FAILED", what, err)
			}
			continue
		}
		if err := b.selfCheck(); err != nil {
			run.Fail(hx.OracleFailure{Class: "c05-harness-renderer-position-table", What: what + ": " + err.Error(), Input: b.texts, Replay: replay})
			continue
		}
		run.Count("B:plant:" + p.op)
		for _, s := range p.strata2() {
			run.Count("P:stratum:" + s[2:])
		}
		if info == nil {
			run.Count("B:stratum:" + p.stratum())
		} else if p.double {
			run.Count("C:double:" + p.op)
		} else {
			run.Count("C:stratum:" + p.op + "@" + p.twin)
		}
		v := versions[(wi+pi)%3]
		// PROTOVALIDATE (CEL set-up, ~65 ms per call) stays enabled on every pvEvery-th plant only
		var except []string
		if pi%pvEvery != 0 && v != bufconfig.FileVersionV1Beta1 {
			except = []string{"PROTOVALIDATE"}
		}
		// name-collision and wide workspaces (10 / 15 files): ONE configuration per plant in the quick tier
		single := p.single || ((info != nil || wide) && run.Tier == "quick")
		if !single || pi%2 == 0 {
			judge(run, l, pw, b, lintCfg{v, allUse(v), o, except}, what, expect, replay)
		}
		if single && pi%2 == 0 {
			continue
		}
		v2 := versions[(wi+pi+1)%3]
		except = nil
		if strings.Contains(p.cat, "STANDARD") && v2 != bufconfig.FileVersionV1Beta1 && pi%pvEvery != 1 {
			except = []string{"PROTOVALIDATE"}
		}
		judge(run, l, pw, b, lintCfg{v2, catUse(p.cat, v2), o, except}, what, expect, replay)
	}
}
