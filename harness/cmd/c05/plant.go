package main

import (
	"fmt"
	"strings"
	"unicode"

	"github.com/bufbuild/buf/private/bufpkg/bufconfig"
	"github.com/bufbuild/verifharness/internal/hx"
)

// Planting operators: each introduces ONE violation at ONE element of a clean workspace.  The
// expected annotations (rule, file, element path) are written down from the rule documentation
// (https://buf.build/docs/lint/rules) and the property text — never from observed output.
// Rules that the same edit necessarily also violates are listed explicitly.

type plantT struct {
	op     string
	at     string
	mutate func(c *wsT) []expT // applied to a clone; nil result = not applicable
	cat    string              // a category (or rule id) that contains the planted rule in every version that has it
}

// ---- walkers (pre-order, with descriptor source paths) ----

func walkMsgs(ms []msgT, base string, tag int, prefix string, fn func(path, nested string, m *msgT)) {
	for i := range ms {
		p := pk(base, tag, i)
		fn(p, prefix+ms[i].name, &ms[i])
		walkMsgs(ms[i].msgs, p, 3, prefix+ms[i].name+".", fn)
	}
}

func (f *fileT) eachMsg(fn func(path, nested string, m *msgT)) { walkMsgs(f.msgs, "", 4, "", fn) }

func (f *fileT) eachEnum(fn func(path, nested string, e *enumT)) {
	for i := range f.enums {
		fn(pk("5", i), f.enums[i].name, &f.enums[i])
	}
	f.eachMsg(func(p, nested string, m *msgT) {
		for i := range m.enums {
			fn(pk(p, 4, i), nested+"."+m.enums[i].name, &m.enums[i])
		}
	})
}

func (f *fileT) eachField(fn func(path string, fl *fieldT, m *msgT, isExt bool)) {
	f.eachMsg(func(p, _ string, m *msgT) {
		for i := range m.fields {
			fn(pk(p, 2, i), &m.fields[i], m, false)
		}
		for i := range m.exts {
			fn(pk(p, 6, i), &m.exts[i], m, true)
		}
	})
	for i := range f.exts {
		fn(pk("7", i), &f.exts[i], nil, true)
	}
}

func (w *wsT) eachRef(fn func(r *ref)) {
	for _, f := range w.files {
		f.eachField(func(_ string, fl *fieldT, _ *msgT, _ bool) {
			if fl.scalar == "" {
				fn(&fl.ref)
			}
		})
		for i := range f.svcs {
			for j := range f.svcs[i].rpcs {
				fn(&f.svcs[i].rpcs[j].in)
				fn(&f.svcs[i].rpcs[j].out)
			}
		}
	}
}

func (w *wsT) renameRefs(fi int, oldNested, newNested string) {
	w.eachRef(func(r *ref) {
		if r.file != fi {
			return
		}
		if r.nested == oldNested {
			r.nested = newNested
		} else if strings.HasPrefix(r.nested, oldNested+".") {
			r.nested = newNested + r.nested[len(oldNested):]
		}
	})
}

func (w *wsT) usedByRPC(fi int, nested string) bool {
	used := false
	for _, f := range w.files {
		for _, s := range f.svcs {
			for _, m := range s.rpcs {
				if (m.in.file == fi && m.in.nested == nested) || (m.out.file == fi && m.out.nested == nested) {
					used = true
				}
			}
		}
	}
	return used
}

func lowerFirst(s string) string { return strings.ToLower(s[:1]) + s[1:] }

func secondIsLower(s string) bool { return len(s) == 1 || unicode.IsLower(rune(s[1])) }

func replaceLast(nested, name string) string {
	if i := strings.LastIndex(nested, "."); i >= 0 {
		return nested[:i+1] + name
	}
	return name
}

func camel(name string) string {
	if i := strings.Index(name, "_"); i >= 0 && i+1 < len(name) && unicode.IsLower(rune(name[i+1])) {
		return name[:i] + strings.ToUpper(name[i+1:i+2]) + name[i+2:]
	}
	return name + "X"
}

// pkgCycles lists, from the meaning of PACKAGE_NO_IMPORT_CYCLE alone, the imports of target
// files that lie on a package import cycle (packages as nodes, imports between files of
// different non-empty packages as edges; import-only files take part in the graph).
func pkgCycles(c *wsT) []expT {
	edges := map[string]map[string]bool{}
	for _, f := range c.files {
		for _, i := range f.imports {
			if i.file < 0 {
				continue
			}
			q := c.files[i.file].pkg
			if f.pkg == "" || q == "" || q == f.pkg {
				continue
			}
			if edges[f.pkg] == nil {
				edges[f.pkg] = map[string]bool{}
			}
			edges[f.pkg][q] = true
		}
	}
	reach := func(from, to string) bool {
		seen := map[string]bool{}
		stack := []string{from}
		for len(stack) > 0 {
			n := stack[len(stack)-1]
			stack = stack[:len(stack)-1]
			if n == to {
				return true
			}
			if seen[n] {
				continue
			}
			seen[n] = true
			for m := range edges[n] {
				stack = append(stack, m)
			}
		}
		return false
	}
	var exp []expT
	for _, f := range c.files {
		if f.isImport || f.pkg == "" {
			continue
		}
		for ii, i := range f.imports {
			if i.file < 0 {
				continue
			}
			q := c.files[i.file].pkg
			if q == "" || q == f.pkg {
				continue
			}
			if reach(q, f.pkg) {
				exp = append(exp, expT{"PACKAGE_NO_IMPORT_CYCLE", f.path, pk("3", ii)})
			}
		}
	}
	return exp
}

func targets(w *wsT) []int {
	out := []int{}
	for i, f := range w.files {
		if !f.isImport {
			out = append(out, i)
		}
	}
	return out
}

var badComments = [][]string{nil, {""}, {"buf:lint:ignore COMMENT_FIELD"}, {"", "buf:lint:ignore ENUM_PASCAL_CASE and more"}}

// enumerate builds every plant of every operator on w.
func enumeratePlants(w *wsT, o lintOpts, r *hx.Rand) []plantT {
	var out []plantT
	add := func(op, at, cat string, mutate func(c *wsT) []expT) {
		out = append(out, plantT{op: op, at: at, mutate: mutate, cat: cat})
	}
	one := func(rule, file, path string) []expT { return []expT{{rule, file, path}} }
	badIdx := 0
	pickBad := func() []string { badIdx++; return cloneLines(badComments[badIdx%len(badComments)]) }

	for _, fi := range targets(w) {
		fi := fi
		f := w.files[fi]
		proto3 := f.syntax == "proto3"

		// ---- messages ----
		f.eachMsg(func(p, nested string, m *msgT) {
			p, nested, name := p, nested, m.name
			get := func(c *wsT) *msgT {
				var found *msgT
				c.files[fi].eachMsg(func(q, _ string, mm *msgT) {
					if q == p {
						found = mm
					}
				})
				return found
			}
			if !w.usedByRPC(fi, nested) {
				for _, nn := range []string{lowerFirst(name), name + "_x", "_" + name} {
					nn := nn
					add("MESSAGE_PASCAL_CASE", f.path+":"+p, "BASIC", func(c *wsT) []expT {
						get(c).name = nn
						c.renameRefs(fi, nested, replaceLast(nested, nn))
						return one("MESSAGE_PASCAL_CASE", f.path, p+".1")
					})
				}
			}
			add("COMMENT_MESSAGE", f.path+":"+p, "COMMENTS", func(c *wsT) []expT {
				get(c).comment = pickBad()
				return one("COMMENT_MESSAGE", f.path, p)
			})
			for oi := range m.oneofs {
				oi := oi
				op := pk(p, 8, oi)
				add("ONEOF_LOWER_SNAKE_CASE", f.path+":"+op, "BASIC", func(c *wsT) []expT {
					get(c).oneofs[oi].name = camel(m.oneofs[oi].name)
					return one("ONEOF_LOWER_SNAKE_CASE", f.path, op+".1")
				})
				add("COMMENT_ONEOF", f.path+":"+op, "COMMENTS", func(c *wsT) []expT {
					get(c).oneofs[oi].comment = pickBad()
					return one("COMMENT_ONEOF", f.path, op)
				})
			}
		})

		// ---- fields (message fields, oneof members, extensions in messages and files) ----
		f.eachField(func(p string, fl *fieldT, m *msgT, isExt bool) {
			p, name := p, fl.name
			get := func(c *wsT) *fieldT {
				var found *fieldT
				c.files[fi].eachField(func(q string, ff *fieldT, _ *msgT, _ bool) {
					if q == p {
						found = ff
					}
				})
				return found
			}
			add("FIELD_LOWER_SNAKE_CASE", f.path+":"+p, "BASIC", func(c *wsT) []expT {
				get(c).name = camel(name)
				return one("FIELD_LOWER_SNAKE_CASE", f.path, p+".1")
			})
			add("FIELD_LOWER_SNAKE_CASE/upper-first", f.path+":"+p, "BASIC", func(c *wsT) []expT {
				get(c).name = strings.ToUpper(name[:1]) + name[1:] + "_q"
				return one("FIELD_LOWER_SNAKE_CASE", f.path, p+".1")
			})
			add("FIELD_NO_DESCRIPTOR", f.path+":"+p, "MINIMAL|BASIC", func(c *wsT) []expT {
				get(c).name = "descriptor"
				return one("FIELD_NO_DESCRIPTOR", f.path, p+".1")
			})
			add("COMMENT_FIELD", f.path+":"+p, "COMMENTS", func(c *wsT) []expT {
				get(c).comment = pickBad()
				return one("COMMENT_FIELD", f.path, p)
			})
			if !proto3 && !isExt && fl.oneof < 0 && fl.label == "optional" {
				add("FIELD_NOT_REQUIRED", f.path+":"+p, "BASIC", func(c *wsT) []expT {
					get(c).label = "required"
					return one("FIELD_NOT_REQUIRED", f.path, p+".1")
				})
			}
		})

		// ---- enums and values ----
		f.eachEnum(func(p, nested string, e *enumT) {
			p, nested, name, upper := p, nested, e.name, e.upper
			get := func(c *wsT) *enumT {
				var found *enumT
				c.files[fi].eachEnum(func(q, _ string, ee *enumT) {
					if q == p {
						found = ee
					}
				})
				return found
			}
			if secondIsLower(name) {
				add("ENUM_PASCAL_CASE", f.path+":"+p, "BASIC", func(c *wsT) []expT {
					nn := lowerFirst(name)
					get(c).name = nn
					c.renameRefs(fi, nested, replaceLast(nested, nn))
					return one("ENUM_PASCAL_CASE", f.path, p+".1")
				})
			}
			add("COMMENT_ENUM", f.path+":"+p, "COMMENTS", func(c *wsT) []expT {
				get(c).comment = pickBad()
				return one("COMMENT_ENUM", f.path, p)
			})
			add("ENUM_NO_ALLOW_ALIAS", f.path+":"+p, "MINIMAL|BASIC", func(c *wsT) []expT {
				ee := get(c)
				ee.allowAlias = true
				last := ee.values[len(ee.values)-1]
				alias := valueT{name: upper + "_ALIAS", comment: []string{"An alias."}, number: last.number}
				if last.number == 0 {
					alias.name += o.zero()
				}
				ee.values = append(ee.values, alias)
				return one("ENUM_NO_ALLOW_ALIAS", f.path, p+".3.2")
			})
			if !proto3 && len(e.values) >= 2 {
				add("ENUM_FIRST_VALUE_ZERO", f.path+":"+p, "OTHER|BASIC", func(c *wsT) []expT {
					ee := get(c)
					ee.values[0], ee.values[1] = ee.values[1], ee.values[0]
					return one("ENUM_FIRST_VALUE_ZERO", f.path, p+".2.0.2")
				})
			}
			for vi := range e.values {
				vi := vi
				v := e.values[vi]
				vp := pk(p, 2, vi)
				add("COMMENT_ENUM_VALUE", f.path+":"+vp, "COMMENTS", func(c *wsT) []expT {
					get(c).values[vi].comment = pickBad()
					return one("COMMENT_ENUM_VALUE", f.path, vp)
				})
				if v.number == 0 {
					add("ENUM_ZERO_VALUE_SUFFIX", f.path+":"+vp, "STANDARD", func(c *wsT) []expT {
						get(c).values[vi].name = upper + "_UNKNOWN"
						return one("ENUM_ZERO_VALUE_SUFFIX", f.path, vp+".1")
					})
					add("ENUM_VALUE_PREFIX/zero", f.path+":"+vp, "STANDARD", func(c *wsT) []expT {
						get(c).values[vi].name = "ZZ" + o.zero()
						return one("ENUM_VALUE_PREFIX", f.path, vp+".1")
					})
				} else {
					rest := strings.TrimPrefix(v.name, upper+"_")
					add("ENUM_VALUE_PREFIX", f.path+":"+vp, "STANDARD", func(c *wsT) []expT {
						get(c).values[vi].name = "ZZ_" + rest
						return one("ENUM_VALUE_PREFIX", f.path, vp+".1")
					})
					add("ENUM_VALUE_UPPER_SNAKE_CASE", f.path+":"+vp, "BASIC", func(c *wsT) []expT {
						get(c).values[vi].name = upper + "_" + strings.ToLower(rest[:1]) + rest[1:] + "z"
						return one("ENUM_VALUE_UPPER_SNAKE_CASE", f.path, vp+".1")
					})
				}
			}
		})

		// ---- services and RPCs ----
		for si := range f.svcs {
			si := si
			s := f.svcs[si]
			sp := pk("6", si)
			add("SERVICE_PASCAL_CASE", f.path+":"+sp, "BASIC", func(c *wsT) []expT {
				c.files[fi].svcs[si].name = lowerFirst(s.name)
				return one("SERVICE_PASCAL_CASE", f.path, sp+".1")
			})
			add("COMMENT_SERVICE", f.path+":"+sp, "COMMENTS", func(c *wsT) []expT {
				c.files[fi].svcs[si].comment = pickBad()
				return one("COMMENT_SERVICE", f.path, sp)
			})
			add("SERVICE_SUFFIX", f.path+":"+sp, "STANDARD", func(c *wsT) []expT {
				c.files[fi].svcs[si].name = strings.TrimSuffix(s.name, o.svc()) + "Svc"
				exp := one("SERVICE_SUFFIX", f.path, sp+".1")
				// request/response types named <Service><Rpc>Request no longer carry the service's name
				for mi, m := range s.rpcs {
					if m.in.file >= 0 && m.in.nested == s.name+m.name+"Request" {
						exp = append(exp, expT{"RPC_REQUEST_STANDARD_NAME", f.path, pk(sp, 2, mi) + ".2"})
					}
					if m.out.file >= 0 && m.out.nested == s.name+m.name+"Response" {
						exp = append(exp, expT{"RPC_RESPONSE_STANDARD_NAME", f.path, pk(sp, 2, mi) + ".3"})
					}
				}
				return exp
			})
			for mi := range s.rpcs {
				mi := mi
				m := s.rpcs[mi]
				mp := pk(sp, 2, mi)
				add("RPC_PASCAL_CASE", f.path+":"+mp, "BASIC", func(c *wsT) []expT {
					c.files[fi].svcs[si].rpcs[mi].name = lowerFirst(m.name)
					return one("RPC_PASCAL_CASE", f.path, mp+".1")
				})
				add("COMMENT_RPC", f.path+":"+mp, "COMMENTS", func(c *wsT) []expT {
					c.files[fi].svcs[si].rpcs[mi].comment = pickBad()
					return one("COMMENT_RPC", f.path, mp)
				})
				add("RPC_NO_CLIENT_STREAMING", f.path+":"+mp, "UNARY_RPC", func(c *wsT) []expT {
					c.files[fi].svcs[si].rpcs[mi].cs = true
					return one("RPC_NO_CLIENT_STREAMING", f.path, mp)
				})
				add("RPC_NO_SERVER_STREAMING", f.path+":"+mp, "UNARY_RPC", func(c *wsT) []expT {
					c.files[fi].svcs[si].rpcs[mi].ss = true
					return one("RPC_NO_SERVER_STREAMING", f.path, mp)
				})
				if m.in.file == fi {
					add("RPC_REQUEST_STANDARD_NAME", f.path+":"+mp, "STANDARD", func(c *wsT) []expT {
						nn := strings.TrimSuffix(m.in.nested, "Request") + "Req"
						for i := range c.files[fi].msgs {
							if c.files[fi].msgs[i].name == m.in.nested {
								c.files[fi].msgs[i].name = nn
							}
						}
						c.renameRefs(fi, m.in.nested, nn)
						return one("RPC_REQUEST_STANDARD_NAME", f.path, mp+".2")
					})
				}
				if m.out.file == fi {
					add("RPC_RESPONSE_STANDARD_NAME", f.path+":"+mp, "STANDARD", func(c *wsT) []expT {
						nn := strings.TrimSuffix(m.out.nested, "Response") + "Reply"
						for i := range c.files[fi].msgs {
							if c.files[fi].msgs[i].name == m.out.nested {
								c.files[fi].msgs[i].name = nn
							}
						}
						c.renameRefs(fi, m.out.nested, nn)
						return one("RPC_RESPONSE_STANDARD_NAME", f.path, mp+".3")
					})
				}
				if m.in.file == fi && m.out.file == fi {
					add("RPC_REQUEST_RESPONSE_UNIQUE/same", f.path+":"+mp, "STANDARD", func(c *wsT) []expT {
						c.files[fi].svcs[si].rpcs[mi].out = m.in
						exp := one("RPC_RESPONSE_STANDARD_NAME", f.path, mp+".3")
						if !o.allowSame {
							exp = append(exp, expT{"RPC_REQUEST_RESPONSE_UNIQUE", f.path, mp})
						}
						return exp
					})
				}
				// reuse the request type of another RPC of the same file
				for sj := range f.svcs {
					for mj := range f.svcs[sj].rpcs {
						sj, mj := sj, mj
						other := f.svcs[sj].rpcs[mj]
						if (sj == si && mj == mi) || other.in.file != fi || m.in.file != fi {
							continue
						}
						add("RPC_REQUEST_RESPONSE_UNIQUE/reuse", f.path+":"+mp, "STANDARD", func(c *wsT) []expT {
							c.files[fi].svcs[si].rpcs[mi].in = other.in
							return []expT{{"RPC_REQUEST_RESPONSE_UNIQUE", f.path, mp}, {"RPC_REQUEST_RESPONSE_UNIQUE", f.path, pk(pk("6", sj), 2, mj)},
								{"RPC_REQUEST_STANDARD_NAME", f.path, mp + ".2"}}
						})
					}
				}
			}
		}

		// ---- imports ----
		for ii := range f.imports {
			ii := ii
			ip := pk("3", ii)
			add("IMPORT_NO_PUBLIC", f.path+":"+ip, "MINIMAL|BASIC", func(c *wsT) []expT {
				// protocompile attributes a symbol reachable both directly and through a public
				// import to the public path and then calls the direct import unused; keep the
				// plant a SINGLE violation: no other file may import both f and the target.
				for _, g := range c.files {
					both := 0
					for _, gi := range g.imports {
						if gi.file == fi || (gi.file == f.imports[ii].file && gi.wkt == f.imports[ii].wkt) {
							both++
						}
					}
					if both >= 2 {
						return nil
					}
				}
				c.files[fi].imports[ii].public = true
				return one("IMPORT_NO_PUBLIC", f.path, ip)
			})
			add("IMPORT_NO_WEAK", f.path+":"+ip, "IMPORT_NO_WEAK", func(c *wsT) []expT {
				c.files[fi].imports[ii].weak = true
				return one("IMPORT_NO_WEAK", f.path, ip)
			})
		}
		add("IMPORT_USED", f.path, "BASIC", func(c *wsT) []expT {
			for _, i := range f.imports {
				if i.file < 0 && i.wkt == "google/protobuf/timestamp.proto" {
					return nil
				}
			}
			c.files[fi].imports = append(c.files[fi].imports, impT{file: -1, wkt: "google/protobuf/timestamp.proto", unused: true})
			return one("IMPORT_USED", f.path, pk("3", len(f.imports)))
		})

		// ---- file level ----
		add("FILE_LOWER_SNAKE_CASE", f.path, "STANDARD", func(c *wsT) []expT {
			g := c.files[fi]
			dir, base := g.path[:strings.LastIndex(g.path, "/")+1], g.path[strings.LastIndex(g.path, "/")+1:]
			g.path = dir + hx.Pick(r, []string{strings.ToUpper(base[:1]) + base[1:], strings.TrimSuffix(base, ".proto") + "X.proto"})
			return one("FILE_LOWER_SNAKE_CASE", g.path, "")
		})
		if f.syntax == "proto2" {
			add("SYNTAX_SPECIFIED", f.path, "BASIC", func(c *wsT) []expT {
				c.files[fi].syntax = ""
				return one("SYNTAX_SPECIFIED", f.path, "")
			})
		}
		samePkg, sameDir := []int{}, []int{}
		dirOf := func(p string) string { return p[:strings.LastIndex(p, "/")] }
		for _, fj := range targets(w) {
			if w.files[fj].pkg == f.pkg {
				samePkg = append(samePkg, fj)
			}
			if dirOf(w.files[fj].path) == dirOf(f.path) {
				sameDir = append(sameDir, fj)
			}
		}
		add("PACKAGE_DIRECTORY_MATCH", f.path, "MINIMAL", func(c *wsT) []expT {
			g := c.files[fi]
			g.path = "misc/elsewhere/" + g.path[strings.LastIndex(g.path, "/")+1:]
			exp := one("PACKAGE_DIRECTORY_MATCH", g.path, "2")
			if len(samePkg) > 1 { // files of one package in two directories
				for _, fj := range samePkg {
					exp = append(exp, expT{"PACKAGE_SAME_DIRECTORY", c.files[fj].path, "2"})
				}
			}
			return exp
		})
		add("DIRECTORY_SAME_PACKAGE", f.path, "MINIMAL", func(c *wsT) []expT {
			if len(sameDir) < 2 {
				return nil
			}
			parts := strings.Split(f.pkg, ".")
			parts[len(parts)-2] += "_other"
			c.files[fi].pkg = strings.Join(parts, ".")
			exp := one("PACKAGE_DIRECTORY_MATCH", f.path, "2")
			for _, fj := range sameDir {
				exp = append(exp, expT{"DIRECTORY_SAME_PACKAGE", c.files[fj].path, "2"})
			}
			return exp
		})
		add("PACKAGE_DEFINED", f.path, "MINIMAL", func(c *wsT) []expT {
			c.files[fi].pkg = ""
			exp := one("PACKAGE_DEFINED", f.path, "")
			if len(sameDir) > 1 {
				for _, fj := range sameDir {
					path := "2"
					if fj == fi {
						path = ""
					}
					exp = append(exp, expT{"DIRECTORY_SAME_PACKAGE", c.files[fj].path, path})
				}
			}
			return exp
		})
		if len(samePkg) > 1 {
			k := r.Intn(7)
			add("PACKAGE_SAME_"+strings.ToUpper(optNames[k]), f.path, "MINIMAL|BASIC", func(c *wsT) []expT {
				g := c.files[fi]
				if g.opts[k] == "" {
					g.opts[k] = optValuePool[k][0]
				} else if k == 2 {
					g.opts[k] = map[string]string{"true": "false", "false": "true"}[g.opts[k]]
				} else if r.Chance(1, 2) {
					g.opts[k] = ""
				} else {
					g.opts[k] += "2"
				}
				rule := map[int]string{0: "PACKAGE_SAME_CSHARP_NAMESPACE", 1: "PACKAGE_SAME_GO_PACKAGE", 2: "PACKAGE_SAME_JAVA_MULTIPLE_FILES",
					3: "PACKAGE_SAME_JAVA_PACKAGE", 4: "PACKAGE_SAME_PHP_NAMESPACE", 5: "PACKAGE_SAME_RUBY_PACKAGE", 6: "PACKAGE_SAME_SWIFT_PREFIX"}[k]
				var exp []expT
				for _, fj := range samePkg {
					path := ""
					if c.files[fj].opts[k] != "" {
						path = pk("8", optFieldNumbers[k])
					}
					exp = append(exp, expT{rule, c.files[fj].path, path})
				}
				return exp
			})
		}
	}

	// ---- whole-package operators (package statement of every file of the package + its directory) ----
	seen := map[string]bool{}
	for _, fi := range targets(w) {
		pkg := w.files[fi].pkg
		if seen[pkg] {
			continue
		}
		seen[pkg] = true
		parts := strings.Split(pkg, ".")
		repackage := func(c *wsT, newPkg string, rule string) []expT {
			var exp []expT
			for _, fj := range targets(c) {
				g := c.files[fj]
				if g.pkg != pkg {
					continue
				}
				g.pkg = newPkg
				g.path = strings.ReplaceAll(newPkg, ".", "/") + g.path[strings.LastIndex(g.path, "/"):]
				exp = append(exp, expT{rule, g.path, "2"})
			}
			return exp
		}
		add("PACKAGE_LOWER_SNAKE_CASE", pkg, "BASIC", func(c *wsT) []expT {
			p2 := append([]string{}, parts...)
			p2[0] = strings.ToUpper(p2[0][:1]) + p2[0][1:]
			return repackage(c, strings.Join(p2, "."), "PACKAGE_LOWER_SNAKE_CASE")
		})
		for _, bad := range []string{"", "v0", "v1p1", "v1gamma1", "vbeta1"} {
			bad := bad
			add("PACKAGE_VERSION_SUFFIX/"+bad, pkg, "STANDARD", func(c *wsT) []expT {
				p2 := append([]string{}, parts[:len(parts)-1]...)
				p2[len(p2)-1] += "_nv"
				if bad != "" {
					p2 = append(p2, bad)
				}
				return repackage(c, strings.Join(p2, "."), "PACKAGE_VERSION_SUFFIX")
			})
		}
	}
	return out
}

func catUse(cat string, v bufconfig.FileVersion) []string {
	if cat == "IMPORT_NO_WEAK" {
		return []string{"MINIMAL", "IMPORT_NO_WEAK"} // a deprecated id without replacement cannot be the only id
	}
	// the first alternative that exists in this version
	alts := strings.Split(cat, "|")
	if v == bufconfig.FileVersionV1Beta1 {
		return []string{alts[0]}
	}
	return []string{alts[len(alts)-1]}
}

func plantAll(run *hx.Run, l *linter, r *hx.Rand, w *wsT, o lintOpts, wi int, replay string) {
	plants := enumeratePlants(w, o, r)
	run.CountN("B:plants:enumerated", len(plants))
	limit := run.N(70, 250)
	if len(plants) > limit {
		// keep at least one plant of every operator, fill up at random
		hx.Shuffle(r, plants)
		seen := map[string]bool{}
		var keep, rest []plantT
		for _, p := range plants {
			if !seen[p.op] {
				seen[p.op] = true
				keep = append(keep, p)
			} else {
				rest = append(rest, p)
			}
		}
		for len(keep) < limit && len(rest) > 0 {
			keep = append(keep, rest[0])
			rest = rest[1:]
		}
		plants = keep
	}
	for pi, p := range plants {
		what := fmt.Sprintf("workspace %d, plant %s at %s", wi, p.op, p.at)
		pw := w.clone()
		expect := p.mutate(pw)
		if expect == nil {
			run.Count("B:plant-not-applicable:" + p.op)
			continue
		}
		expect = append(expect, pkgCycles(pw)...)
		b, err := build(pw)
		if err != nil {
			run.Count("B:plant-build-failed:" + p.op)
			if debug {
				fmt.Println("BUILD FAILED", what, err)
			}
			continue
		}
		if err := b.selfCheck(); err != nil {
			run.Fail(hx.OracleFailure{Class: "c05-harness-renderer-position-table", What: what + ": " + err.Error(), Input: b.texts, Replay: replay})
			continue
		}
		run.Count("B:plant:" + p.op)
		v := versions[(wi+pi)%3]
		// PROTOVALIDATE (CEL set-up, ~65 ms per call) stays enabled on every fourth plant only
		var except []string
		if pi%4 != 0 && v != bufconfig.FileVersionV1Beta1 {
			except = []string{"PROTOVALIDATE"}
		}
		judge(run, l, pw, b, lintCfg{v, allUse(v), o, except}, what, expect, replay)
		v2 := versions[(wi+pi+1)%3]
		except = nil
		if strings.Contains(p.cat, "STANDARD") && v2 != bufconfig.FileVersionV1Beta1 && pi%4 != 1 {
			except = []string{"PROTOVALIDATE"}
		}
		judge(run, l, pw, b, lintCfg{v2, catUse(p.cat, v2), o, except}, what, expect, replay)
	}
}
