package main

import (
	"sort"
	"strconv"
	"strings"

	"github.com/bufbuild/verifharness/internal/hx"
)

// The NAME-COLLISION family.
//
// Every lint rule that groups or keys elements by a NAME must use the name that identifies the
// element (the fully-qualified one), never a shorter one that only happens to be unique in small
// schemas.  The ordinary generated workspaces draw names per scope from pools, so two packages
// that declare a service of the same name with an RPC of the same name — the normal shape of a
// v1/v2 copy of an API — practically never occur, and no RPC ever uses a type of another file.
//
// A collision workspace is clean by construction and full of equal names:
//
//	<root>/common/v1/common.proto        <root>.common.v1     shared types, spare <Rpc>Request/<Rpc>Response messages
//	<root>/<base>/v1/types.proto         <root>.<base>.v1     enums, messages (names echoed between scopes)
//	<root>/<base>/v1/service.proto       <root>.<base>.v1     services + request / response types
//	<root>/<base>/v1/api2.proto          <root>.<base>.v1     more services: RPC names of service.proto reused
//	Dep/BadFile.proto                    import-only
//	<root>/<base>/v2/{types,service,api2}.proto   <root>.<base>.v2    an exact COPY of the v1 package: every message, enum,
//	                                     enum value, field, oneof, service and RPC has a twin of the same (nested) name
//	<root>/<base>x/v1/service.proto      <root>.<base>x.v1    a copy of service.proto in a package / directory of which
//	                                     <root>.<base> is a string prefix ("a.b" vs "a.bc"); its fields use the v1 types
//	<root>/<base>/v1beta1/types.proto    <root>.<base>.v1beta1   a copy of types.proto ("…/v1" is a string prefix of "…/v1beta1")
//
// On such a workspace (1) the clean runs must stay silent, (2) every planting operator is applied
// at elements that have a twin — in another package, in another file of the package, in another
// scope of the file — and must report the planted element only, (3) the same operator is applied
// at BOTH twins at once and must report both, (4) request / response types are reused ACROSS files
// and packages (RPC_REQUEST_RESPONSE_UNIQUE counts over the whole module set).

type collInfo struct {
	copyOf map[int]int // file index of a copy -> file index of its original
	copies map[int][]int
	common int
	spare  map[string]bool // nested names of the spare request / response messages of the common file
}

func cloneFile(f *fileT) *fileT {
	g := *f
	g.imports = append([]impT{}, f.imports...)
	g.enums = cloneEnums(f.enums)
	g.msgs = cloneMsgs(f.msgs)
	g.exts = cloneFields(f.exts)
	g.order = append([]byte{}, f.order...)
	g.noise = append([]string{}, f.noise...)
	g.svcs = make([]svcT, len(f.svcs))
	for i, s := range f.svcs {
		s.comment = cloneLines(s.comment)
		rs := make([]rpcT, len(s.rpcs))
		for j, r := range s.rpcs {
			r.comment = cloneLines(r.comment)
			rs[j] = r
		}
		s.rpcs = rs
		g.svcs[i] = s
	}
	return &g
}

// eachRefOf visits every type reference of one file.
func (f *fileT) eachRefOf(fn func(r *ref)) {
	f.eachField(func(_ string, fl *fieldT, _ *msgT, _ bool, _ int) {
		if fl.scalar == "" && !fl.isGroup() {
			fn(&fl.ref)
		}
	})
	for i := range f.svcs {
		for j := range f.svcs[i].rpcs {
			fn(&f.svcs[i].rpcs[j].in)
			fn(&f.svcs[i].rpcs[j].out)
		}
	}
}

// copyPackage appends copies of the files src to w as files of the package newPkg: same base names,
// same declarations, references between the copied files follow the copies, everything else
// (common file, dependency, well-known types, files that are not copied) is shared.  Extensions of
// descriptor options get fresh numbers (an extension number is unique per extendee in a link).
func copyPackage(w *wsT, info *collInfo, src []int, newPkg string, extBump int) {
	remap := map[int]int{}
	for k, s := range src {
		remap[s] = len(w.files) + k
	}
	dir := strings.ReplaceAll(newPkg, ".", "/")
	for _, s := range src {
		g := cloneFile(w.files[s])
		g.pkg = newPkg
		g.path = dir + g.path[strings.LastIndex(g.path, "/"):]
		// the copied package agrees on OTHER option values than the original: a rule that groups the
		// files by a key shorter than the package (a prefix of it, its last component) sees a conflict
		for k := range g.opts {
			switch {
			case k == 2:
				g.opts[k] = setOpt([]string{"true", "false"}[(extBump/10000)%2])
			default:
				g.opts[k] = setOpt(optValuePool[k][(extBump/10000)%len(optValuePool[k])] + "." + strconv.Itoa(extBump/10000))
			}
		}
		for i := range g.imports {
			if n, ok := remap[g.imports[i].file]; ok && g.imports[i].file >= 0 {
				g.imports[i].file = n
			}
		}
		g.eachRefOf(func(r *ref) {
			if n, ok := remap[r.file]; ok && r.file >= 0 {
				r.file = n
			}
		})
		g.eachField(func(_ string, fl *fieldT, _ *msgT, isExt bool, _ int) {
			if isExt && fl.extendee != "" {
				fl.number += extBump
			}
		})
		info.copyOf[len(w.files)] = s
		info.copies[s] = append(info.copies[s], len(w.files))
		w.files = append(w.files, g)
	}
}

func genCollisionWorkspace(r *hx.Rand, o lintOpts) (*wsT, *collInfo) {
	g := &gen{r: r, o: o, w: &wsT{}, used: map[string]bool{}, maxDepth: 1 + r.Intn(2), extendable: map[int][]string{},
		collide: true, rpcNames: map[string][]string{}}
	info := &collInfo{copyOf: map[int]int{}, copies: map[int][]int{}, spare: map[string]bool{}}
	root := hx.Pick(r, []string{"acme", "zoo", "x1"})
	base := hx.Pick(r, []string{"thing", "foo_bar", "api2", "w2"})
	commonPkg, p1 := root+".common.v1", root+"."+base+".v1"
	newFile := func(pkg, name, syntax string, opts [7]optT) {
		g.w.files = append(g.w.files, &fileT{path: strings.ReplaceAll(pkg, ".", "/") + "/" + name + ".proto", pkg: pkg, syntax: syntax, opts: opts,
			noise: g.noise(fileNoise, 1, 5)})
	}
	var cfgC, cfg1 [7][]optT
	for k := range cfg1 {
		cfgC[k] = cleanOptConfig(r, k, 1)
		cfg1[k] = cleanOptConfig(r, k, 3)
	}
	optsOf := func(cfg [7][]optT, i int) (out [7]optT) {
		for k := range out {
			out[k] = cfg[k][i]
		}
		return out
	}
	typesSyntax := hx.Pick(r, []string{"proto3", "proto3", "editions", "proto2"})
	newFile(commonPkg, "common", "proto3", optsOf(cfgC, 0))
	newFile(p1, "types", typesSyntax, optsOf(cfg1, 0))
	newFile(p1, "service", hx.Pick(r, []string{"proto3", "proto3", "editions"}), optsOf(cfg1, 1))
	newFile(p1, "api2", "proto3", optsOf(cfg1, 2))
	info.common = 0
	g.depIdx = len(g.w.files)
	g.w.files = append(g.w.files, depFile())
	g.avail = append(g.avail, avail{ref{g.depIdx, "bad_message"}, false, false}, avail{ref{g.depIdx, "bad_message.inner_bad"}, false, false})

	typesBody := func(fi, minEnums, minMsgs int) {
		f := g.w.files[fi]
		scope := "pkg:" + f.pkg
		for i, n := 0, minEnums+g.r.Intn(2); i < n; i++ {
			f.enums = append(f.enums, g.enum(scope, "", fi, f.p3like()))
		}
		for i, n := 0, minMsgs+g.r.Intn(2); i < n; i++ {
			f.msgs = append(f.msgs, g.message(fi, scope, "", 0, f.p3like(), ""))
		}
		if g.r.Chance(1, 2) {
			f.exts = append(f.exts, g.extension(fi, scope))
		}
		order := []byte("emsx")
		hx.Shuffle(g.r, order)
		f.order = order
	}
	typesBody(0, 1, 1)
	typesBody(1, 1, 2)
	for _, fi := range []int{2, 3} {
		f := g.w.files[fi]
		scope := "pkg:" + f.pkg
		for i, n := 0, 1+g.r.Intn(2); i < n; i++ {
			f.svcs = append(f.svcs, g.service(fi, scope))
		}
		if g.r.Chance(1, 2) {
			f.enums = append(f.enums, g.enum(scope, "", fi, true))
		}
		order := []byte("emsx")
		hx.Shuffle(g.r, order)
		f.order = order
	}
	// spare request / response messages in the common package, named after RPCs of the v1 package:
	// used by one RPC such a type is clean, used by the RPC and its v2 twin it is a reuse
	cscope := "pkg:" + commonPkg
	n := 0
	for _, s := range g.w.files[2].svcs {
		for _, m := range s.rpcs {
			for _, suf := range []string{"Request", "Response"} {
				name := m.name + suf
				if n >= 6 || g.used[cscope+"\x00"+name] {
					continue
				}
				n++
				g.w.files[0].msgs = append(g.w.files[0].msgs, g.message(0, cscope, "", g.maxDepth, true, name))
				info.spare[name] = true
			}
		}
	}
	// the import-only file is imported by a target file
	f1 := g.w.files[1]
	hasDep := false
	for _, f := range g.w.files[:g.depIdx] {
		for _, i := range f.imports {
			if i.file == g.depIdx {
				hasDep = true
			}
		}
	}
	if !hasDep && len(f1.msgs) > 0 {
		fl := fieldT{name: "dep_ref", comment: []string{"Uses the dependency."}, ref: ref{g.depIdx, "bad_message"}, number: 900, oneof: -1}
		if !f1.p3like() {
			fl.label = "optional"
		}
		f1.msgs[0].fields = append(f1.msgs[0].fields, fl)
		g.ensureImport(1, g.depIdx, "")
	}
	g.ensureKinds()
	for fi := 0; fi < g.depIdx; fi++ {
		if g.w.files[fi].syntax == "editions" {
			g.toEditions(g.w.files[fi])
		}
	}
	copyPackage(g.w, info, []int{1, 2, 3}, root+"."+base+".v2", 10000)
	copyPackage(g.w, info, []int{2}, root+"."+base+"x.v1", 20000)
	copyPackage(g.w, info, []int{1}, root+"."+base+".v1beta1", 30000)
	return g.w, info
}

// ---- twins: which other elements carry the same simple name ----

type twinOcc struct {
	fi    int
	scope string
}

type twinIndex struct {
	w   *wsT
	occ map[string][]twinOcc // class \x00 name -> occurrences
}

func buildTwinIndex(w *wsT) *twinIndex {
	t := &twinIndex{w: w, occ: map[string][]twinOcc{}}
	put := func(cls, name string, fi int, scope string) {
		k := cls + "\x00" + name
		t.occ[k] = append(t.occ[k], twinOcc{fi, scope})
	}
	for _, fi := range targets(w) {
		f := w.files[fi]
		f.eachMsgCtx(func(_, nested string, m *msgT, _ msgCtx) {
			put("msg", m.name, fi, parentOf(nested))
			for _, o := range m.oneofs {
				put("oneof", o.name, fi, nested)
			}
			for _, fl := range m.fields {
				put("field", fl.name, fi, nested)
			}
			for _, fl := range m.exts {
				put("field", fl.name, fi, nested+"#ext")
			}
		})
		for _, fl := range f.exts {
			put("field", fl.name, fi, "#ext")
		}
		f.eachEnum(func(_, nested string, e *enumT) {
			put("enum", e.name, fi, parentOf(nested))
			for _, v := range e.values {
				put("value", v.name, fi, nested)
			}
		})
		for _, s := range f.svcs {
			put("svc", s.name, fi, "")
			for _, m := range s.rpcs {
				put("rpc", m.name, fi, s.name)
			}
		}
	}
	return t
}

func parentOf(nested string) string {
	if i := strings.LastIndex(nested, "."); i >= 0 {
		return nested[:i]
	}
	return ""
}

// class says where the other elements of the same class and simple name are: "scope" = in another
// scope of the same file, "file" = in another file of the same package, "pkg" = in a file of another
// package ("+pkg": there as well), "none".
func (t *twinIndex) class(cls, name string, fi int, scope string) string {
	var p, f, s bool
	for _, o := range t.occ[cls+"\x00"+name] {
		switch {
		case o.fi == fi && o.scope == scope:
		case o.fi == fi:
			s = true
		case t.w.files[o.fi].pkg == t.w.files[fi].pkg:
			f = true
		default:
			p = true
		}
	}
	// the rarest relation names the stratum: another scope of the same file, else another file of the
	// package, else another package
	out := "none"
	switch {
	case s:
		out = "scope"
	case f:
		out = "file"
	case p:
		return "pkg"
	}
	if p && out != "none" {
		out += "+pkg"
	}
	return out
}

// ---- documentation-level expectations ----

// stdNameDoc: RPC_REQUEST_STANDARD_NAME / RPC_RESPONSE_STANDARD_NAME — "RPC request type names are
// RPCNameRequest or ServiceNameRPCNameRequest" (the NAME of the type, whatever its package);
// google.protobuf.Empty is accepted on the side whose rpc_allow_google_protobuf_empty_* option is set.
func stdNameDoc(c *wsT, o lintOpts, fi, si, mi int) []expT {
	f := c.files[fi]
	s := f.svcs[si]
	m := s.rpcs[mi]
	mp := pk(pk("6", si), 2, mi)
	var exp []expT
	simple := func(r ref) string { return r.nested[strings.LastIndex(r.nested, ".")+1:] }
	isEmpty := func(r ref) bool { return r.file < 0 && r.nested == "google.protobuf.Empty" }
	if !(isEmpty(m.in) && o.allowEmptyReq) {
		if n := simple(m.in); n != m.name+"Request" && n != s.name+m.name+"Request" {
			exp = append(exp, expT{"RPC_REQUEST_STANDARD_NAME", f.path, mp + ".2"})
		}
	}
	if !(isEmpty(m.out) && o.allowEmptyResp) {
		if n := simple(m.out); n != m.name+"Response" && n != s.name+m.name+"Response" {
			exp = append(exp, expT{"RPC_RESPONSE_STANDARD_NAME", f.path, mp + ".3"})
		}
	}
	return exp
}

// importsReach: does file from (transitively) import file to?
func importsReach(c *wsT, from, to int) bool {
	seen := map[int]bool{}
	var dfs func(i int) bool
	dfs = func(i int) bool {
		if i == to {
			return true
		}
		if seen[i] {
			return false
		}
		seen[i] = true
		for _, imp := range c.files[i].imports {
			if imp.file >= 0 && dfs(imp.file) {
				return true
			}
		}
		return false
	}
	return dfs(from)
}

// useTypeOf makes file fi able to name a type of file fj: an import is added unless there is one;
// false when that would close a FILE import cycle (which does not compile).
func useTypeOf(c *wsT, fi, fj int) bool {
	if fj < 0 || fi == fj {
		return true
	}
	for _, imp := range c.files[fi].imports {
		if imp.file == fj {
			return true
		}
	}
	if importsReach(c, fj, fi) {
		return false
	}
	c.files[fi].imports = append(c.files[fi].imports, impT{file: fj})
	return true
}

type rpcAt struct{ fi, si, mi int }

func (w *wsT) allRpcs() []rpcAt {
	var out []rpcAt
	for _, fi := range targets(w) {
		for si, s := range w.files[fi].svcs {
			for mi := range s.rpcs {
				out = append(out, rpcAt{fi, si, mi})
			}
		}
	}
	return out
}

func (w *wsT) rpc(a rpcAt) *rpcT { return &w.files[a.fi].svcs[a.si].rpcs[a.mi] }

// fileStillUses: does file fi reference a type of file fj?
func fileStillUses(c *wsT, fi, fj int) bool {
	used := false
	c.files[fi].eachRefOf(func(r *ref) {
		if r.file == fj {
			used = true
		}
	})
	// an extension of a message of another file cannot happen: extOwn names messages of the file itself
	return used
}

// relation of two RPCs of different files, as the keys a rule might (wrongly) use see them
func rpcRelation(w *wsT, a, b rpcAt) string {
	fa, fb := w.files[a.fi], w.files[b.fi]
	sa, sb := fa.svcs[a.si], fb.svcs[b.si]
	ma, mb := sa.rpcs[a.mi], sb.rpcs[b.mi]
	rel := "other-pkg"
	if fa.pkg == fb.pkg {
		rel = "same-pkg"
	}
	switch {
	case sa.name == sb.name && ma.name == mb.name:
		rel += "+same-service-and-rpc-name"
	case ma.name == mb.name:
		rel += "+same-rpc-name"
	case sa.name == sb.name:
		rel += "+same-service-name"
	}
	return rel
}

// crossFilePlants: request / response types reused by RPCs of DIFFERENT files (of one package or of
// two packages).  "A request / response type may be used by one RPC only" — counted over the whole
// module set, whatever the names of the services and RPCs involved.
func crossFilePlants(w *wsT, o lintOpts, info *collInfo, add func(op, kind, at, cat string, mutate func(c *wsT) []expT)) {
	emptyRef := ref{-1, "google.protobuf.Empty"}
	rpcs := w.allRpcs()
	atOf := func(a rpcAt) string { return w.files[a.fi].path + ":" + pk(pk("6", a.si), 2, a.mi) }
	// leavesUnusedImport: the edit at RPC a left an import of its file without any use — that would be a
	// second violation (IMPORT_USED), so such an edit is not a plant
	leavesUnusedImport := func(c *wsT, a rpcAt, prev ...ref) bool {
		f := c.files[a.fi]
		for _, p := range prev {
			switch {
			case p == emptyRef:
				still := false
				f.eachRefOf(func(r *ref) {
					if *r == emptyRef {
						still = true
					}
				})
				if !still {
					return true
				}
			case p.file >= 0 && p.file != a.fi && !fileStillUses(c, a.fi, p.file):
				for k := range f.imports {
					if f.imports[k].file == p.file {
						return true
					}
				}
			}
		}
		return false
	}
	nonNil := func(e []expT) []expT {
		if e == nil {
			return []expT{}
		}
		return e
	}
	for _, a := range rpcs {
		for _, b := range rpcs {
			a, b := a, b
			if a.fi == b.fi {
				continue
			}
			rel := rpcRelation(w, a, b)
			ma, mb := *w.rpc(a), *w.rpc(b)
			for _, side := range []string{"request", "response", "request-from-response"} {
				side := side
				add("RPC_REQUEST_RESPONSE_UNIQUE/reuse-cross-file/"+side, rel, atOf(a), "STANDARD", func(c *wsT) []expT {
					ra := c.rpc(a)
					var t ref
					switch side {
					case "request":
						t = mb.in
					case "response", "request-from-response":
						t = mb.out
					}
					if t == emptyRef || !useTypeOf(c, a.fi, t.file) {
						return nil
					}
					if side == "response" {
						if ma.out == t {
							return nil
						}
						ra.out = t
					} else {
						if ma.in == t {
							return nil
						}
						ra.in = t
					}
					if leavesUnusedImport(c, a, ma.in, ma.out) {
						return nil
					}
					return append(stdNameDoc(c, o, a.fi, a.si, a.mi), rpcUniqueDoc(c, o)...)
				})
			}
			if b.fi < a.fi {
				continue
			}
			// google.protobuf.Empty on the same side of two RPCs of different files: a violation unless the
			// option of that side allows it (then the plant is judged like a clean workspace)
			for _, side := range []string{"request", "response"} {
				side := side
				add("RPC_REQUEST_RESPONSE_UNIQUE/empty-"+side+"-cross-file", rel, atOf(a), "STANDARD", func(c *wsT) []expT {
					for _, x := range []rpcAt{a, b} {
						rp := c.rpc(x)
						prevIn, prevOut := rp.in, rp.out
						if side == "request" {
							rp.in = emptyRef
						} else {
							rp.out = emptyRef
						}
						if rp.in == rp.out && !o.allowSame {
							return nil // keep it to ONE kind of violation
						}
						useEmptyImport(c, x.fi)
						if leavesUnusedImport(c, x, prevIn, prevOut) {
							return nil
						}
					}
					exp := rpcUniqueDoc(c, o)
					for _, x := range []rpcAt{a, b} {
						exp = append(exp, stdNameDoc(c, o, x.fi, x.si, x.mi)...)
					}
					return nonNil(exp)
				})
			}
		}
	}
	if info == nil {
		return
	}
	// the RPC and its twin(s) in the copied packages both take the spare type of the common package:
	// acme.v1.ThingService.GetThing and acme.v2.ThingService.GetThing both use common.v1.GetThingRequest
	for _, a := range rpcs {
		a := a
		twins := info.copies[a.fi]
		if len(twins) == 0 {
			continue
		}
		ma := *w.rpc(a)
		for _, suf := range []string{"Request", "Response"} {
			suf := suf
			name := ma.name + suf
			if !info.spare[name] {
				continue
			}
			t := ref{info.common, name}
			set := func(c *wsT, x rpcAt) bool {
				rp := c.rpc(x)
				prevIn, prevOut := rp.in, rp.out
				if !useTypeOf(c, x.fi, info.common) {
					return false
				}
				if suf == "Request" {
					rp.in = t
				} else {
					rp.out = t
				}
				return !leavesUnusedImport(c, x, prevIn, prevOut)
			}
			// alone: a type of another package with the standard name, used by one RPC — nothing to report
			add("RPC_REQUEST_RESPONSE_UNIQUE/common-type-once/"+suf, "alone", atOf(a), "STANDARD", func(c *wsT) []expT {
				if !set(c, a) {
					return nil
				}
				return nonNil(append(stdNameDoc(c, o, a.fi, a.si, a.mi), rpcUniqueDoc(c, o)...))
			})
			for _, tf := range twins {
				b := rpcAt{tf, a.si, a.mi}
				rel := rpcRelation(w, a, b)
				add("RPC_REQUEST_RESPONSE_UNIQUE/common-type-twice/"+suf, rel, atOf(a), "STANDARD", func(c *wsT) []expT {
					if !set(c, a) || !set(c, b) {
						return nil
					}
					exp := rpcUniqueDoc(c, o)
					for _, x := range []rpcAt{a, b} {
						exp = append(exp, stdNameDoc(c, o, x.fi, x.si, x.mi)...)
					}
					return exp
				})
			}
		}
	}
}

func useEmptyImport(c *wsT, fi int) {
	for _, i := range c.files[fi].imports {
		if i.file < 0 && i.wkt == "google/protobuf/empty.proto" {
			return
		}
	}
	c.files[fi].imports = append(c.files[fi].imports, impT{file: -1, wkt: "google/protobuf/empty.proto"})
}

// ---- the same operator at both twins ----

// doublePlants pairs every element-level plant in a file of the v1 package with the plant of the
// same operator at the same element of a copy of that file, and applies both: two violations of
// one rule at two elements of the same name must give two annotations.
func doublePlants(w *wsT, info *collInfo, plants []plantT) []plantT {
	type key struct {
		op, ep  string
		fi, ord int
	}
	byKey := map[key]plantT{}
	for _, p := range plants {
		if p.ep != "" {
			byKey[key{p.op, p.ep, p.fi, p.ord}] = p
		}
	}
	var out []plantT
	var keys []key
	for k := range byKey {
		keys = append(keys, k)
	}
	sort.Slice(keys, func(i, j int) bool {
		a, b := keys[i], keys[j]
		if a.fi != b.fi {
			return a.fi < b.fi
		}
		if a.op != b.op {
			return a.op < b.op
		}
		if a.ep != b.ep {
			return a.ep < b.ep
		}
		return a.ord < b.ord
	})
	for _, k := range keys {
		p := byKey[k]
		for _, tf := range info.copies[k.fi] {
			q, ok := byKey[key{k.op, k.ep, tf, k.ord}]
			if !ok {
				continue
			}
			p, q := p, q
			out = append(out, plantT{op: p.op, kind: p.kind, twin: "both:" + p.twin, at: p.at + " + " + q.at, cat: p.cat, single: p.single, fi: p.fi, ep: p.ep, ord: p.ord, double: true,
				mutate: func(c *wsT) []expT {
					e1 := p.mutate(c)
					if e1 == nil {
						return nil
					}
					e2 := q.mutate(c)
					if e2 == nil {
						return nil
					}
					return append(append([]expT{}, e1...), e2...)
				}})
		}
	}
	return out
}
