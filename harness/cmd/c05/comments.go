package main

import (
	"fmt"
	"strconv"
	"strings"

	"github.com/bufbuild/buf/private/bufpkg/bufconfig"
	"github.com/bufbuild/verifharness/internal/hx"
)

// The COMMENT SHAPE family (strengthening round 6-H, seed C05-m10).
//
// COMMENT_ENUM / COMMENT_ENUM_VALUE / COMMENT_FIELD / COMMENT_MESSAGE / COMMENT_ONEOF / COMMENT_RPC /
// COMMENT_SERVICE — Purpose "Checks that <elements> have non-empty comments." — were only exercised with
// `// text` lines (plus the four bad comments).  This family writes the comment of an element in every
// SHAPE the protobuf grammar offers and states, per shape, from the rule text and the SourceCodeInfo
// contract of descriptor.proto alone, whether the element is DOCUMENTED:
//
//	the comment that counts is the LEADING comment of the element (SourceCodeInfo.Location.leading_comments:
//	the comment block directly before the element, not separated from it by a blank line); trailing and
//	detached comments are other fields of the location and do not document the element for this rule.  The
//	text is what SourceCodeInfo defines: `//` and `/* */` markers removed, for block comments leading
//	whitespace and ONE `*` gutter removed from every line but the first.  The element is documented iff
//	some line of that text has a non-whitespace character and is not a `buf:lint:ignore …` directive line.
//
// An element with a documented shape must NOT get its COMMENT_* annotation (class
// c05-comment-shape-documented-but-flagged), one with an undocumented shape MUST
// (c05-missed-violation-<RULE>).  The delivered text written down per shape is compared with what the
// compiler really put into the image (class c05-harness-comment-text-table: a harness / protocompile
// convention matter, never a property violation); the same text goes to the Lean model.

// rawMark: a comment given as literal source.  Layout of the []string (schema.go keeps `comment []string`):
// {rawMark, source lines joined by \n ("" = no leading comment), delivered leading text, trailing comment
// source ("" = none), "1" = a blank line separates the comment from the element, "1" = documented}
const rawMark = "\x00raw"

type commentShape struct {
	name       string
	src        string // literal comment source; lines separated by \n; the renderer indents every line and ends the last with \n
	delivered  string // SourceCodeInfo leading_comments of the element
	trail      string // a comment written after the element's first line (`int32 f = 1; // x`, `message M { // x`)
	gap        bool   // a blank line between the comment and the element: the comment is DETACHED
	documented bool
}

func (s commentShape) lines() []string {
	return []string{rawMark, s.src, s.delivered, s.trail, b2s(s.gap), b2s(s.documented)}
}

func isRaw(c []string) bool { return len(c) == 6 && c[0] == rawMark }

var commentShapes = []commentShape{
	// ---- documented ----
	{name: "line", src: "// Doc.", delivered: " Doc.\n", documented: true},
	{name: "line-no-space", src: "//Doc.", delivered: "Doc.\n", documented: true},
	{name: "line-tab", src: "//\tDoc.", delivered: "\tDoc.\n", documented: true},
	{name: "block-one-line", src: "/* Doc. */", delivered: " Doc. ", documented: true},
	{name: "block-javadoc-one-line", src: "/** Doc. */", delivered: "* Doc. ", documented: true},
	{name: "block-tight", src: "/*Doc.*/", delivered: "Doc.", documented: true},
	{name: "block-one-letter", src: "/*x*/", delivered: "x", documented: true},
	{name: "block-text-on-last-line", src: "/*\n\n Doc. */", delivered: "\n\nDoc. ", documented: true},
	{name: "block-text-on-first-line", src: "/* Doc.\n\n*/", delivered: " Doc.\n\n", documented: true},
	{name: "block-text-in-the-middle", src: "/*\n\n Doc.\n\n*/", delivered: "\n\nDoc.\n\n", documented: true},
	{name: "block-javadoc-gutter", src: "/**\n * Doc.\n * More.\n */", delivered: "*\n Doc.\n More.\n", documented: true},
	{name: "block-gutter", src: "/*\n * Doc.\n */", delivered: "\n Doc.\n", documented: true},
	{name: "block-gutter-text-last", src: "/*\n *\n * Doc. */", delivered: "\n\n Doc. ", documented: true},
	{name: "line-crlf", src: "// Doc.\r", delivered: " Doc.\r\n", documented: true},
	{name: "block-crlf", src: "/* Doc.\r\n */\r", delivered: " Doc.\r\n", documented: true},
	{name: "block-crlf-text-last", src: "/*\r\n Doc. */", delivered: "\r\nDoc. ", documented: true},
	{name: "ignore-line-then-text", src: "// buf:lint:ignore COMMENT_FIELD\n// Doc.", delivered: " buf:lint:ignore COMMENT_FIELD\n Doc.\n", documented: true},
	{name: "text-then-ignore-line", src: "// Doc.\n// buf:lint:ignore COMMENT_FIELD", delivered: " Doc.\n buf:lint:ignore COMMENT_FIELD\n", documented: true},
	{name: "block-ignore-line-then-text", src: "/* buf:lint:ignore COMMENT_FIELD\n Doc. */", delivered: " buf:lint:ignore COMMENT_FIELD\nDoc. ", documented: true},
	{name: "lines-text-last", src: "//\n//\n// Doc.", delivered: "\n\n Doc.\n", documented: true},
	{name: "lines-text-first", src: "// Doc.\n//\n//", delivered: " Doc.\n\n\n", documented: true},
	{name: "lines-text-middle", src: "//\n// Doc.\n//   ", delivered: "\n Doc.\n   \n", documented: true},
	{name: "ignore-mentioned-inside-a-line", src: "// See buf:lint:ignore for details.", delivered: " See buf:lint:ignore for details.\n", documented: true},
	{name: "leading-and-trailing", src: "// Doc.", delivered: " Doc.\n", trail: "// Trailing.", documented: true},
	// the text SourceCodeInfo defines for `/** … */` starts with the second `*` of the opener: the comment
	// text is "*" — not empty (an observation of this round: an empty Javadoc-style comment counts as
	// documentation; see the hand-off)
	{name: "block-javadoc-gutter-only", src: "/**\n *\n */", delivered: "*\n\n", documented: true},
	// ---- not documented ----
	{name: "none", src: "", delivered: "", documented: false},
	{name: "line-empty", src: "//", delivered: "\n", documented: false},
	{name: "line-spaces", src: "//   ", delivered: "   \n", documented: false},
	{name: "line-tab-only", src: "//\t", delivered: "\t\n", documented: false},
	{name: "line-empty-crlf", src: "//\r", delivered: "\r\n", documented: false},
	{name: "lines-empty-crlf", src: "// \r\n//\r", delivered: " \r\n\r\n", documented: false},
	{name: "block-space", src: "/* */", delivered: " ", documented: false},
	{name: "block-empty", src: "/**/", delivered: "", documented: false},
	{name: "block-newlines", src: "/*\n\n*/", delivered: "\n\n", documented: false},
	{name: "block-gutter-only", src: "/*\n *\n */", delivered: "\n\n", documented: false},
	{name: "block-crlf-only", src: "/* \r\n */", delivered: " \r\n", documented: false},
	{name: "trailing-only", src: "", delivered: "", trail: "// Doc.", documented: false},
	{name: "trailing-block-only", src: "", delivered: "", trail: "/* Doc. */", documented: false},
	{name: "detached-only", src: "// Doc.", delivered: "", gap: true, documented: false},
	{name: "detached-block-only", src: "/* Doc. */", delivered: "", gap: true, documented: false},
	{name: "ignore-line-only", src: "// buf:lint:ignore COMMENT_FIELD", delivered: " buf:lint:ignore COMMENT_FIELD\n", documented: false},
	{name: "ignore-lines-and-blanks", src: "//\n// buf:lint:ignore COMMENT_FIELD\n//\n//   buf:lint:ignore COMMENT_ENUM and more", delivered: "\n buf:lint:ignore COMMENT_FIELD\n\n   buf:lint:ignore COMMENT_ENUM and more\n", documented: false},
	{name: "block-ignore-only", src: "/* buf:lint:ignore COMMENT_FIELD */", delivered: " buf:lint:ignore COMMENT_FIELD ", documented: false},
	{name: "block-ignore-last-line", src: "/*\n\n buf:lint:ignore COMMENT_FIELD */", delivered: "\n\nbuf:lint:ignore COMMENT_FIELD ", documented: false},
}

var commentRules = []string{"COMMENT_MESSAGE", "COMMENT_FIELD", "COMMENT_ENUM", "COMMENT_ENUM_VALUE", "COMMENT_SERVICE", "COMMENT_RPC", "COMMENT_ONEOF"}

// cmtElem: an element of a target file a COMMENT_* rule looks at, with a setter that works on a clone
type cmtElem struct {
	fi   int
	path string
	set  func(c *wsT, cm []string)
}

func commentElems(w *wsT, rule string) []cmtElem {
	var out []cmtElem
	for _, fi := range targets(w) {
		fi := fi
		f := w.files[fi]
		switch rule {
		case "COMMENT_MESSAGE":
			f.eachMsg(func(p, _ string, _ *msgT) {
				out = append(out, cmtElem{fi, p, func(c *wsT, cm []string) {
					c.files[fi].eachMsg(func(q, _ string, mm *msgT) {
						if q == p {
							mm.comment, mm.detached = cm, false
						}
					})
				}})
			})
		case "COMMENT_FIELD":
			f.eachField(func(p string, fl *fieldT, _ *msgT, _ bool, _ int) {
				if fl.isGroup() {
					return // the declaration's comment belongs to the group's message
				}
				out = append(out, cmtElem{fi, p, func(c *wsT, cm []string) {
					c.files[fi].eachField(func(q string, ff *fieldT, _ *msgT, _ bool, _ int) {
						if q == p {
							ff.comment, ff.detached = cm, false
						}
					})
				}})
			})
		case "COMMENT_ENUM", "COMMENT_ENUM_VALUE":
			f.eachEnum(func(p, _ string, e *enumT) {
				setEnum := func(c *wsT, fn func(ee *enumT)) {
					c.files[fi].eachEnum(func(q, _ string, ee *enumT) {
						if q == p {
							fn(ee)
						}
					})
				}
				if rule == "COMMENT_ENUM" {
					out = append(out, cmtElem{fi, p, func(c *wsT, cm []string) { setEnum(c, func(ee *enumT) { ee.comment, ee.detached = cm, false }) }})
					return
				}
				for vi := range e.values {
					vi := vi
					out = append(out, cmtElem{fi, pk(p, 2, vi), func(c *wsT, cm []string) { setEnum(c, func(ee *enumT) { ee.values[vi].comment = cm }) }})
				}
			})
		case "COMMENT_ONEOF":
			f.eachMsg(func(p, _ string, m *msgT) {
				for oi := range m.oneofs {
					oi := oi
					out = append(out, cmtElem{fi, pk(p, 8, oi), func(c *wsT, cm []string) {
						c.files[fi].eachMsg(func(q, _ string, mm *msgT) {
							if q == p {
								mm.oneofs[oi].comment = cm
							}
						})
					}})
				}
			})
		case "COMMENT_SERVICE":
			for si := range f.svcs {
				si := si
				out = append(out, cmtElem{fi, pk("6", si), func(c *wsT, cm []string) { c.files[fi].svcs[si].comment = cm }})
			}
		case "COMMENT_RPC":
			for si := range f.svcs {
				for mi := range f.svcs[si].rpcs {
					si, mi := si, mi
					out = append(out, cmtElem{fi, pk("6", si, 2, mi), func(c *wsT, cm []string) { c.files[fi].svcs[si].rpcs[mi].comment = cm }})
				}
			}
		}
	}
	return out
}

// shapeCursor counts the (shape, rule) assignments of the run: assignment n takes shape n mod S (every
// shape on every run) and rule (shape + 2·round + seed) mod 7 (every pair within a few seeds).
var shapeCursor = 0

// unexpectedClass: judge (workspace.go) reports an unexpected annotation with this class when its key is listed
var unexpectedClass = map[string]string{}
var unexpectedNote = map[string]string{}

const shapesPerPlant = 6

// leadingOf reads the leading comment the compiler attached to file:path ("" when the location has none).
func (b *built) leadingOf(file, path string) (string, bool) {
	for _, f := range b.image.Files() {
		if f.Path() != file {
			continue
		}
		for _, l := range f.FileDescriptorProto().GetSourceCodeInfo().GetLocation() {
			parts := make([]string, len(l.Path))
			for i, p := range l.Path {
				parts[i] = strconv.Itoa(int(p))
			}
			if strings.Join(parts, ".") == path {
				return l.GetLeadingComments(), true
			}
		}
	}
	return "", false
}

// commentShapeFamily: nplants plants on the (clean) workspace w, each rewriting the comment of
// shapesPerPlant different elements in different shapes; ONE configuration per plant (everything enabled /
// the COMMENTS category, alternating).
func commentShapeFamily(run *hx.Run, l *linter, r *hx.Rand, w *wsT, o lintOpts, wi int, replay string, nplants int) {
	elems := map[string][]cmtElem{}
	for _, rule := range commentRules {
		elems[rule] = commentElems(w, rule)
		hx.Shuffle(r, elems[rule])
	}
	S := len(commentShapes)
	for pi := 0; pi < nplants; pi++ {
		pw := w.clone()
		expect := []expT{}
		used := map[string]bool{}
		type asg struct {
			rule, file, path string
			shape            commentShape
		}
		var asgs []asg
		descr := []string{}
		for k := 0; k < shapesPerPlant; k++ {
			n := shapeCursor
			shapeCursor++
			si := n % S
			shape := commentShapes[si]
			rule := commentRules[(si+2*(n/S)+int(run.Seed%7))%len(commentRules)]
			var el *cmtElem
			for i := range elems[rule] {
				e := &elems[rule][(i+n)%len(elems[rule])]
				if !used[fmt.Sprint(e.fi)+":"+e.path] {
					el = e
					break
				}
			}
			if el == nil {
				run.Count("S:shape-not-applicable:" + rule)
				continue
			}
			used[fmt.Sprint(el.fi)+":"+el.path] = true
			el.set(pw, shape.lines())
			file := w.files[el.fi].path
			asgs = append(asgs, asg{rule, file, el.path, shape})
			descr = append(descr, fmt.Sprintf("%s at %s:%s = %s (documented=%v)", rule, file, el.path, shape.name, shape.documented))
			if !shape.documented {
				expect = append(expect, expT{rule, file, el.path})
			}
		}
		if len(asgs) == 0 {
			continue
		}
		what := fmt.Sprintf("workspace %d, comment shapes [%s]", wi, strings.Join(descr, "; "))
		b, err := build(pw)
		if err != nil {
			run.Fail(hx.OracleFailure{Class: "c05-harness-comment-shape-does-not-build", What: what + ": " + err.Error(), Input: textsOf(pw), Replay: replay})
			continue
		}
		if err := b.selfCheck(); err != nil {
			run.Fail(hx.OracleFailure{Class: "c05-harness-renderer-position-table", What: what + ": " + err.Error(), Input: b.texts, Replay: replay})
			continue
		}
		ok := true
		for _, a := range asgs {
			got, found := b.leadingOf(a.file, a.path)
			if !found || got != a.shape.delivered {
				run.Fail(hx.OracleFailure{Class: "c05-harness-comment-text-table", What: fmt.Sprintf("%s: shape %s at %s:%s: the table says leading_comments = %q, the compiler delivered %q (location found: %v)",
					what, a.shape.name, a.file, a.path, a.shape.delivered, got, found), Input: b.texts, Replay: replay})
				ok = false
			}
		}
		if !ok {
			continue
		}
		for _, a := range asgs {
			run.Count("S:shape:" + a.shape.name)
			run.Count("S:shape-rule:" + a.rule + "@" + a.shape.name)
			if a.shape.documented {
				k := expT{a.rule, a.file, a.path}.key()
				unexpectedClass[k] = "c05-comment-shape-documented-but-flagged"
				unexpectedNote[k] = fmt.Sprintf("the element at %s:%s is documented by a comment of shape %s (source %q, SourceCodeInfo leading_comments %q)", a.file, a.path, a.shape.name, a.shape.src, a.shape.delivered)
			}
		}
		run.Count("S:plant")
		v := versions[(wi+pi)%3]
		if (wi+pi)%2 == 0 {
			var except []string
			if v != bufconfig.FileVersionV1Beta1 {
				except = []string{"PROTOVALIDATE"}
			}
			judge(run, l, pw, b, lintCfg{v, allUse(v), o, except}, what, expect, replay)
		} else {
			judge(run, l, pw, b, lintCfg{v, []string{"COMMENTS"}, o, nil}, what, expect, replay)
		}
		for k := range unexpectedClass {
			delete(unexpectedClass, k)
			delete(unexpectedNote, k)
		}
	}
}
