package main

import (
	"strconv"
	"strings"

	"github.com/bufbuild/verifharness/internal/hx"
)

// Generator of clean-by-construction workspaces.  Every naming convention used here is the
// documented one (https://buf.build/docs/lint/rules): PascalCase messages/enums/services/RPCs,
// lower_snake_case fields/oneofs/packages/files, UPPER_SNAKE_CASE enum values prefixed with
// the UPPER_SNAKE_CASE enum name, zero value suffix, service suffix, versioned packages that
// match their directory, one directory per package, equal file options per package, used
// non-public imports, unary RPCs with unique <Rpc>Request/<Rpc>Response types, comments on
// everything.

type lintOpts struct {
	zeroSuffix     string // "" = default "_UNSPECIFIED"
	svcSuffix      string // "" = default "Service"
	allowSame      bool
	allowEmptyReq  bool
	allowEmptyResp bool
}

func (o lintOpts) zero() string {
	if o.zeroSuffix == "" {
		return "_UNSPECIFIED"
	}
	return o.zeroSuffix
}

func (o lintOpts) svc() string {
	if o.svcSuffix == "" {
		return "Service"
	}
	return o.svcSuffix
}

type pascalName struct{ pascal, upper string }

var pascalPool = []pascalName{{"Color", "COLOR"}, {"FooBar", "FOO_BAR"}, {"Status", "STATUS"}, {"ItemKind", "ITEM_KIND"},
	{"Level2", "LEVEL2"}, {"HTTPCode", "HTTP_CODE"}, {"Shape", "SHAPE"}, {"UserRole", "USER_ROLE"}, {"A", "A"}, {"Node", "NODE"}}
var extraWords = []pascalName{{"", ""}, {"Alt", "_ALT"}, {"Ext", "_EXT"}, {"Two", "_TWO"}, {"Next", "_NEXT"}, {"Old", "_OLD"}}
var fieldPool = []string{"id", "name", "foo_bar", "value2", "a_1", "created_at", "x", "user_id", "page_token", "is_ok", "kind", "data"}
var valuePool = []string{"RED", "GREEN", "ACTIVE", "DONE", "LEVEL_1", "BIG2", "X", "HTTP_OK"}
var rpcVerbs = []string{"Get", "List", "Create", "Delete", "Update", "Watch", "Ping"}
var scalars = []string{"string", "int32", "bool", "bytes", "uint64", "double"}
var commentPool = []string{"Describes the thing.", "See the design document for details.", "TODO(owner): refine.", "Second sentence here.", "x"}
var pkgPool = []string{"acme.foo.v1", "acme.bar.v1beta1", "zoo.v2", "acme.baz_qux.v1alpha2", "x1.y.v1p1beta1", "pkg.v1test", "acme.w2.v3"}
var filePool = []string{"types", "service", "more_types", "api2", "a_1", "common", "x"}
var mapKeyPool = []string{"string", "int32", "int64", "bool", "uint32"}
var oddNumbers = []int{-1, -7, 100, 5, 3, 2147483647, -2147483648, 12, -2}
var groupPool = []string{"Result", "Item", "FooGrp", "Entry2", "HTTPInfo", "G", "SubPart"}

// optValuePool: NON-default values of the seven PACKAGE_SAME_* options (java_multiple_files: the
// only non-default is "true"); [1] differs from [0] in the CASE of one letter only, [2] is another value.
var optValuePool = [7][]string{{"Acme.Foo", "Acme.foo", "Other.Ns"}, {"example.com/gen/foo;foov1", "example.com/gen/Foo;foov1", "foo"}, {"true"},
	{"com.acme.foo", "com.acme.Foo", "org.other"}, {`Acme\\Foo`, `Acme\\foo`, `Other`}, {"Acme::Foo", "Acme::foo", "Other"}, {"ACME", "ACMe", "OTH"}}

// optDefault is the explicit spelling of the DEFAULT value of option k: `= false` / `= ""`.
func optDefault(k int) optT {
	if k == 2 {
		return setOpt("false")
	}
	return setOpt("")
}

// cleanOptConfig gives option k of the nf files of one package values that the documentation of
// PACKAGE_SAME_<option> calls equal: all unset; all the same explicit value (non-default, or the
// default spelled out); and — the string options only, where an unset option and `= ""` are one
// value — a mixture of unset and explicitly empty.  An explicit `java_multiple_files = false` next
// to a file without the option is NOT clean (the rule's message: "both values … and no value").
func cleanOptConfig(r *hx.Rand, k, nf int) []optT {
	out := make([]optT, nf)
	switch c := r.Intn(12); {
	case c < 5: // all unset
	case c < 8:
		for i := range out {
			out[i] = setOpt(optValuePool[k][0])
		}
	case c == 8:
		v := optValuePool[k][len(optValuePool[k])-1]
		for i := range out {
			out[i] = setOpt(v)
		}
	case c < 11 || k == 2: // the default, spelled out in every file
		for i := range out {
			out[i] = optDefault(k)
		}
	default: // unset and explicitly empty, mixed
		for i := range out {
			if r.Bool() {
				out[i] = setOpt("")
			}
		}
		if nf == 1 {
			out[0] = setOpt("")
		} else {
			i := r.Intn(nf)
			j := (i + 1 + r.Intn(nf-1)) % nf
			out[i], out[j] = setOpt(""), unsetOpt()
		}
	}
	return out
}

// explicit-default options that no lint rule reads: a rule that mistakes "has options" / "has a
// location" for "has the value it forbids" reports them on a clean workspace
func (g *gen) noise(pool []string, num, den int) []string {
	var out []string
	for _, o := range pool {
		if g.r.Chance(num, den) {
			out = append(out, o)
		}
	}
	return out
}

var (
	fileNoise  = []string{"option deprecated = false;", "option optimize_for = SPEED;", "option cc_generic_services = false;", "option java_generic_services = false;"}
	msgNoise   = []string{"option deprecated = false;", "option no_standard_descriptor_accessor = false;"}
	enumNoise  = []string{"option deprecated = false;"}
	svcNoise   = []string{"option deprecated = false;"}
	rpcNoise   = []string{"option idempotency_level = IDEMPOTENCY_UNKNOWN;", "option deprecated = false;"}
	fieldNoise = []string{"deprecated = false"}
)

type avail struct {
	r      ref
	isEnum bool
	proto3 bool
}

type gen struct {
	r        *hx.Rand
	o        lintOpts
	w        *wsT
	used     map[string]bool // names used per scope key
	avail    []avail
	rpcCount int
	extNum   int
	depIdx   int
	maxDepth int
	// extendable[fi]: nested names of the proto2 messages of file fi that declare an extension range
	extendable map[int][]string
	// collide (name-collision workspaces, collide.go): names are deliberately REUSED wherever the
	// protobuf language allows it — a name used in one scope is echoed in other scopes (nested
	// messages / enums of different parents, sometimes differing in the case of one letter only), an
	// RPC name is reused by other services of the package
	collide    bool
	pascalSeen []pascalName
	rpcNames   map[string][]string // package scope -> RPC names used by its services
	// wide workspaces (wide.go): the next service gets exactly this many RPCs (0 = random 1..3)
	fixRpcs int
}

// caseTwin: a PascalCase name that differs from n in the CASE of one letter only (and is itself
// PascalCase with a known UPPER_SNAKE_CASE form)
var caseTwin = map[string]pascalName{"FooBar": {"Foobar", "FOOBAR"}, "ItemKind": {"Itemkind", "ITEMKIND"}, "UserRole": {"Userrole", "USERROLE"},
	"Foobar": {"FooBar", "FOO_BAR"}, "Itemkind": {"ItemKind", "ITEM_KIND"}, "Userrole": {"UserRole", "USER_ROLE"}}

func (g *gen) uniq(scope, base string, alt func(n int) string) string {
	name := base
	for n := 0; g.used[scope+"\x00"+name]; n++ {
		name = alt(n)
	}
	g.used[scope+"\x00"+name] = true
	return name
}

func (g *gen) pascal(scope string) pascalName {
	if g.collide && len(g.pascalSeen) > 0 && g.r.Chance(1, 2) {
		// echo a name that another scope already uses (or its case twin)
		cand := hx.Pick(g.r, g.pascalSeen)
		if t, ok := caseTwin[cand.pascal]; ok && g.r.Chance(1, 3) {
			cand = t
		}
		if !g.used[scope+"\x00"+cand.pascal] {
			g.used[scope+"\x00"+cand.pascal] = true
			return cand
		}
	}
	n := g.pascalFresh(scope)
	if g.collide {
		g.pascalSeen = append(g.pascalSeen, n)
	}
	return n
}

func (g *gen) pascalFresh(scope string) pascalName {
	b := hx.Pick(g.r, pascalPool)
	e := hx.Pick(g.r, extraWords)
	cand := pascalName{b.pascal + e.pascal, b.upper + e.upper}
	n := 0
	for g.used[scope+"\x00"+cand.pascal] {
		n++
		cand = pascalName{b.pascal + e.pascal + strconv.Itoa(n), b.upper + e.upper + strconv.Itoa(n)}
	}
	g.used[scope+"\x00"+cand.pascal] = true
	return cand
}

func (g *gen) fieldName(scope string) string {
	b := hx.Pick(g.r, fieldPool)
	return g.uniq(scope, b, func(n int) string { return b + "_" + strconv.Itoa(n+2) })
}

func (g *gen) comment() []string {
	c := []string{hx.Pick(g.r, commentPool)}
	if g.r.Chance(1, 4) {
		c = append(c, hx.Pick(g.r, commentPool))
	}
	if g.r.Chance(1, 10) {
		c = append([]string{""}, c...) // a leading empty "//" line
	}
	if g.r.Chance(1, 12) {
		c = append(c, "buf:lint:ignore FIELD_LOWER_SNAKE_CASE") // an excluded line next to a real one
	}
	if g.r.Chance(1, 12) {
		c = append([]string{"buf:lint:ignore COMMENT_FIELD"}, c...) // the excluded line comes first
	}
	return c
}

func (g *gen) ensureImport(fi int, target int, wkt string) {
	f := g.w.files[fi]
	for _, i := range f.imports {
		if (target >= 0 && i.file == target) || (target < 0 && i.file < 0 && i.wkt == wkt) {
			return
		}
	}
	f.imports = append(f.imports, impT{file: target, wkt: wkt})
}

func stableVersion(pkg string) (stable bool, versioned bool) {
	parts := strings.Split(pkg, ".")
	last := parts[len(parts)-1]
	if len(parts) < 2 || !strings.HasPrefix(last, "v") {
		return false, false
	}
	for _, c := range last[1:] {
		if c < '0' || c > '9' {
			return false, true
		}
	}
	return true, true
}

// canImport: never import "forward" (no file or package cycles) and never let a stable
// package depend on an unstable one.
func (g *gen) canImport(fi, target int) bool {
	if target == g.depIdx {
		return true
	}
	if target >= fi {
		return false
	}
	ps, _ := stableVersion(g.w.files[fi].pkg)
	ts, tv := stableVersion(g.w.files[target].pkg)
	if ps && tv && !ts {
		return false
	}
	return true
}

func (g *gen) fieldType(fi int, proto3 bool, f *fieldT) {
	if g.r.Chance(1, 2) || len(g.avail) == 0 {
		f.scalar = hx.Pick(g.r, scalars)
		return
	}
	a := hx.Pick(g.r, g.avail)
	if a.r.file != fi && !g.canImport(fi, a.r.file) {
		f.scalar = "string"
		return
	}
	if a.isEnum && proto3 && !a.proto3 {
		f.scalar = "int32"
		return
	}
	f.ref = a.r
	if a.r.file != fi {
		g.ensureImport(fi, a.r.file, "")
	}
}

func (g *gen) enum(scope string, nestedPrefix string, fi int, proto3 bool) enumT {
	n := g.pascal(scope)
	e := enumT{name: n.pascal, upper: n.upper, comment: g.comment(), detached: g.r.Chance(1, 8),
		aliasFalse: g.r.Chance(1, 4), noise: g.noise(enumNoise, 1, 5)}
	e.values = append(e.values, valueT{name: n.upper + g.o.zero(), comment: g.comment(), number: 0, noise: g.noise(fieldNoise, 1, 8)})
	k := 1 + g.r.Intn(3)
	usedV := map[string]bool{}
	// what the documentation leaves free stays free in a clean enum: the NUMBERS of the values after the
	// zero value (1/3 of the enums: negative, descending, sparse, the int32 bounds)
	odd := g.r.Chance(1, 3)
	usedN := map[int]bool{0: true}
	for i := 0; i < k; i++ {
		v := hx.Pick(g.r, valuePool)
		if usedV[v] {
			continue
		}
		usedV[v] = true
		num := len(e.values)
		if odd {
			num = hx.Pick(g.r, oddNumbers)
			if usedN[num] {
				num = 200 + len(e.values)
			}
		}
		usedN[num] = true
		// enum value names are scoped to the enclosing scope of the enum: the prefix makes them unique
		e.values = append(e.values, valueT{name: n.upper + "_" + v, comment: g.comment(), number: num, noise: g.noise(fieldNoise, 1, 8)})
	}
	// editions: a third of the enums is CLOSED (`option features.enum_type = CLOSED;`) — with the zero
	// value first such an enum is as clean as an open one.  A closed enum is not offered to proto3 files.
	f := g.w.files[fi]
	if f.syntax == "editions" && !f.enumClosed && g.r.Chance(1, 3) {
		e.closed = true
	}
	g.avail = append(g.avail, avail{ref{fi, nestedPrefix + e.name}, true, proto3 && !e.closed && !f.enumClosed})
	return e
}

// extension makes one extension field.  Extendees: descriptor option messages (the only ones a
// proto3 file may extend) and, in proto2 files, messages of the same file with an extension range.
func (g *gen) extension(fi int, scope string) fieldT {
	g.extNum++
	name := hx.Pick(g.r, fieldPool)
	name = g.uniq(scope, name, func(n int) string { return name + "_opt" + strconv.Itoa(n+1) })
	f := fieldT{name: name, comment: g.comment(), detached: g.r.Chance(1, 10), scalar: hx.Pick(g.r, scalars), number: 50000 + g.extNum, oneof: -1,
		noise: g.noise(fieldNoise, 1, 6)}
	proto3 := g.w.files[fi].p3like()
	if own := g.extendable[fi]; !proto3 && len(own) > 0 && g.r.Chance(2, 3) {
		f.extOwn = hx.Pick(g.r, own)
	} else {
		g.ensureImport(fi, -1, "google/protobuf/descriptor.proto")
		f.extendee = hx.Pick(g.r, []string{"google.protobuf.FieldOptions", "google.protobuf.MessageOptions", "google.protobuf.FieldOptions"})
	}
	switch {
	case !proto3:
		f.label = hx.Pick(g.r, []string{"optional", "optional", "repeated"})
	case g.r.Chance(1, 4):
		f.label = "repeated"
	case g.r.Chance(1, 4):
		f.label = "optional" // proto3_optional without a synthetic oneof
	}
	return f
}

// mapField: `map<K, V> name = n;` — the compiler adds the synthetic nested message <Name>Entry.
func (g *gen) mapField(fi int, inner string, proto3 bool, num int) fieldT {
	f := fieldT{name: g.fieldName(inner), comment: g.comment(), detached: g.r.Chance(1, 10), number: num, oneof: -1, mapKey: hx.Pick(g.r, mapKeyPool),
		noise: g.noise(fieldNoise, 1, 6)}
	g.fieldType(fi, proto3, &f)
	g.used[inner+"\x00"+mapEntryName(f.name)] = true
	return f
}

// groupField (proto2 only): `label group Name = n { … }` — a field `name` (lower-cased) of type
// group plus the nested message Name, which owns the comment.
func (g *gen) groupField(fi int, inner string, num int, oneof int) fieldT {
	base := hx.Pick(g.r, groupPool)
	name := base
	for n := 2; g.used[inner+"\x00"+name] || g.used[inner+"\x00"+strings.ToLower(name)]; n++ {
		name = base + strconv.Itoa(n)
	}
	g.used[inner+"\x00"+name] = true
	g.used[inner+"\x00"+strings.ToLower(name)] = true
	body := &msgT{name: name, comment: g.comment(), detached: g.r.Chance(1, 8)}
	bscope := inner + "." + name
	for i, n := 0, 1+g.r.Intn(2); i < n; i++ {
		bf := fieldT{name: g.fieldName(bscope), comment: g.comment(), number: i + 1, oneof: -1, label: hx.Pick(g.r, []string{"optional", "repeated"})}
		g.fieldType(fi, false, &bf)
		body.fields = append(body.fields, bf)
	}
	f := fieldT{name: strings.ToLower(name), number: num, oneof: oneof, group: body}
	if oneof < 0 {
		f.label = hx.Pick(g.r, []string{"optional", "optional", "repeated"})
	}
	return f
}

func (g *gen) message(fi int, scope, nestedPrefix string, depth int, proto3 bool, named string) msgT {
	var name string
	if named != "" {
		name = named
		g.used[scope+"\x00"+name] = true
	} else {
		name = g.pascal(scope).pascal
	}
	m := msgT{name: name, comment: g.comment(), detached: g.r.Chance(1, 8), nestedFirst: g.r.Chance(1, 3), noise: g.noise(msgNoise, 1, 6)}
	inner := scope + "." + name
	prefix := nestedPrefix + name + "."
	// nested types first, so fields can refer to them
	if depth < g.maxDepth {
		ne := g.r.Intn(2)
		for i := 0; i < ne; i++ {
			m.enums = append(m.enums, g.enum(inner, prefix, fi, proto3))
		}
		nm := g.r.Intn(3)
		if depth == 0 && g.r.Chance(1, 2) {
			nm++
		}
		for i := 0; i < nm && i < 2; i++ {
			m.msgs = append(m.msgs, g.message(fi, inner, prefix, depth+1, proto3, ""))
		}
	}
	if !proto3 && g.r.Chance(1, 3) {
		m.extRange = true
		g.extendable[fi] = append(g.extendable[fi], nestedPrefix+name)
	}
	nf := 1 + g.r.Intn(4)
	num := 1
	for i := 0; i < nf; i++ {
		switch {
		case g.r.Chance(1, 6):
			m.fields = append(m.fields, g.mapField(fi, inner, proto3, num))
			num++
			continue
		case !proto3 && g.r.Chance(1, 5):
			m.fields = append(m.fields, g.groupField(fi, inner, num, -1))
			num++
			continue
		}
		f := fieldT{name: g.fieldName(inner), comment: g.comment(), detached: g.r.Chance(1, 10), number: num, oneof: -1, noise: g.noise(fieldNoise, 1, 6)}
		num++
		g.fieldType(fi, proto3, &f)
		switch {
		case !proto3:
			f.label = hx.Pick(g.r, []string{"optional", "optional", "repeated"})
		case g.r.Chance(1, 5):
			f.label = "repeated"
		case g.r.Chance(1, 6):
			f.label = "optional" // proto3 optional: synthetic oneof "_name"
		}
		m.fields = append(m.fields, f)
	}
	// up to two oneofs over fresh consecutive fields (a proto2 oneof may hold a group)
	no := 0
	if g.r.Chance(1, 3) {
		no = 1 + g.r.Intn(3)/2
	}
	for k := 0; k < no; k++ {
		oname := g.uniq(inner, hx.Pick(g.r, []string{"choice", "kind_of", "payload2"}), func(n int) string { return "choice_" + strconv.Itoa(n+2) })
		m.oneofs = append(m.oneofs, oneofT{name: oname, comment: g.comment()})
		for j := 0; j < 2; j++ {
			if !proto3 && j == 1 && g.r.Chance(1, 3) {
				m.fields = append(m.fields, g.groupField(fi, inner, num, len(m.oneofs)-1))
				num++
				continue
			}
			f := fieldT{name: g.fieldName(inner), comment: g.comment(), number: num, oneof: len(m.oneofs) - 1, noise: g.noise(fieldNoise, 1, 6)}
			num++
			g.fieldType(fi, proto3, &f)
			m.fields = append(m.fields, f)
		}
		if g.r.Chance(1, 2) {
			f := fieldT{name: g.fieldName(inner), comment: g.comment(), number: num, oneof: -1, scalar: "string"}
			num++
			if !proto3 {
				f.label = "optional"
			}
			m.fields = append(m.fields, f)
		}
	}
	if g.r.Chance(1, 4) {
		n := 1 + g.r.Intn(3)
		for i := 0; i < n; i++ {
			m.exts = append(m.exts, g.extension(fi, inner))
		}
	}
	g.avail = append(g.avail, avail{ref{fi, nestedPrefix + name}, false, proto3})
	return m
}

func (g *gen) service(fi int, pkgScope string) svcT {
	f := g.w.files[fi]
	base := g.pascal(pkgScope + "#svc")
	s := svcT{name: base.pascal + g.o.svc(), comment: g.comment(), noise: g.noise(svcNoise, 1, 4)}
	g.used[pkgScope+"\x00"+s.name] = true
	n := 1 + g.r.Intn(3)
	if g.fixRpcs > 0 {
		n = g.fixRpcs
	}
	for i := 0; i < n; i++ {
		g.rpcCount++
		rn := hx.Pick(g.r, rpcVerbs) + hx.Pick(g.r, pascalPool).pascal
		prefix := ""
		reused := false
		if g.collide && len(g.rpcNames[pkgScope]) > 0 && g.r.Chance(1, 2) {
			// the RPC name of another service of the package: legal (RPC names are scoped by their
			// service); the request / response types carry the service name to stay unique
			cand := hx.Pick(g.r, g.rpcNames[pkgScope])
			if !g.used[pkgScope+"#rpc#"+s.name+"\x00"+cand] && !g.used[pkgScope+"\x00"+s.name+cand+"Request"] && !g.used[pkgScope+"\x00"+s.name+cand+"Response"] {
				rn, prefix, reused = cand, s.name, true
			}
		}
		if !reused {
			rn = g.uniq(pkgScope+"#rpc", rn, func(k int) string { return rn + strconv.Itoa(g.rpcCount) + "x" + strconv.Itoa(k) })
		}
		g.used[pkgScope+"#rpc#"+s.name+"\x00"+rn] = true
		if g.collide {
			g.rpcNames[pkgScope] = append(g.rpcNames[pkgScope], rn)
		}
		m := rpcT{name: rn, comment: g.comment(), dottedIn: g.r.Chance(1, 3), noise: g.noise(rpcNoise, 1, 4)}
		if !reused && g.r.Chance(1, 3) {
			prefix = s.name
		}
		empty := ref{-1, "google.protobuf.Empty"}
		if g.o.allowEmptyReq && g.r.Chance(1, 2) {
			m.in = empty
			g.ensureImport(fi, -1, "google/protobuf/empty.proto")
		} else {
			req := g.message(fi, pkgScope, "", g.maxDepth, f.p3like(), prefix+rn+"Request")
			f.msgs = append(f.msgs, req)
			m.in = ref{fi, req.name}
		}
		if g.o.allowEmptyResp && g.r.Chance(1, 2) && (m.in != empty || (g.o.allowSame && g.o.allowEmptyReq)) {
			m.out = empty
			g.ensureImport(fi, -1, "google/protobuf/empty.proto")
		} else {
			resp := g.message(fi, pkgScope, "", g.maxDepth, f.p3like(), prefix+rn+"Response")
			f.msgs = append(f.msgs, resp)
			m.out = ref{fi, resp.name}
		}
		s.rpcs = append(s.rpcs, m)
	}
	return s
}

func (g *gen) fileBody(fi int) {
	f := g.w.files[fi]
	proto3 := f.p3like()
	scope := "pkg:" + f.pkg
	for i, n := 0, g.r.Intn(3); i < n; i++ {
		f.enums = append(f.enums, g.enum(scope, "", fi, proto3))
	}
	for i, n := 0, 1+g.r.Intn(3); i < n; i++ {
		f.msgs = append(f.msgs, g.message(fi, scope, "", 0, proto3, ""))
	}
	if proto3 || g.r.Chance(1, 2) {
		for i, n := 0, g.r.Intn(3); i < n; i++ {
			f.svcs = append(f.svcs, g.service(fi, scope))
		}
	}
	if g.r.Chance(1, 2) {
		for i, n := 0, 1+g.r.Intn(3); i < n; i++ {
			f.exts = append(f.exts, g.extension(fi, scope))
		}
	}
	order := []byte("emsx")
	hx.Shuffle(g.r, order)
	f.order = order
}

// toEditions respells a file generated with proto3 conventions for `edition = "2023";`: there is no
// `optional` label — explicit presence is the default and may be SPELLED OUT with
// `[features.field_presence = EXPLICIT]`; a singular scalar field may have IMPLICIT presence.
// FIELD_NOT_REQUIRED is about `features.field_presence = LEGACY_REQUIRED` there (planted), so the
// clean files carry the other two values of the feature, explicitly.
func (g *gen) toEditions(f *fileT) {
	f.eachField(func(_ string, fl *fieldT, _ *msgT, isExt bool, _ int) {
		wasOptional := fl.label == "optional"
		if wasOptional {
			fl.label = ""
		}
		if isExt || fl.oneof >= 0 || fl.isMap() || fl.label == "repeated" {
			return
		}
		switch {
		case wasOptional || g.r.Chance(1, 4):
			fl.presence = "EXPLICIT"
		case fl.scalar != "" && g.r.Chance(1, 4):
			fl.presence = "IMPLICIT"
		}
	})
}

// depFile is import-only and violates as many rules as possible (every kind of field included:
// plain, nested, map, group, nested and file-level extension): nothing in it may be reported.
func depFile() *fileT {
	return &fileT{path: "Dep/BadFile.proto", pkg: "Dep_pkg", isImport: true, syntax: "proto2", order: []byte("emsx"),
		opts:  [7]optT{{}, setOpt("dep/other"), setOpt("true"), {}, {}, {}, {}},
		enums: []enumT{{name: "bad_enum", values: []valueT{{name: "one", number: 1}, {name: "zero", number: 0}}}},
		msgs: []msgT{{name: "bad_message", extRange: true,
			fields: []fieldT{{name: "BadField", label: "required", scalar: "string", number: 1, oneof: -1},
				{name: "BadMap", scalar: "string", mapKey: "int32", number: 2, oneof: -1},
				{name: "bad_group", label: "required", number: 3, oneof: -1,
					group: &msgT{name: "Bad_group", fields: []fieldT{{name: "InGroup", label: "optional", scalar: "bool", number: 1, oneof: -1}}}}},
			exts: []fieldT{{name: "NestedBadExt", label: "optional", scalar: "string", number: 1000, oneof: -1, extOwn: "bad_message"}},
			msgs: []msgT{{name: "inner_bad", fields: []fieldT{{name: "Descriptor", label: "optional", scalar: "string", number: 1, oneof: -1}}}}}},
		exts: []fieldT{{name: "BadExt", label: "optional", scalar: "string", number: 1001, oneof: -1, extOwn: "bad_message"},
			{name: "descriptor", label: "repeated", scalar: "int32", number: 1002, oneof: -1, extOwn: "bad_message"}},
	}
}

// ensureKinds makes sure that every workspace contains every KIND of element the iteration
// helpers of the lint rules distinguish, so that every planting operator has a target of every
// kind in every workspace: a file-level extension (parent message nil), an extension nested in
// a message, a map field, a second service, and — when the workspace has a proto2 file — a
// group field and a group inside a oneof.
func (g *gen) ensureKinds() {
	nextNum := func(m *msgT) int {
		n := 0
		for _, f := range m.fields {
			n = max(n, f.number)
		}
		return n + 1
	}
	have := map[string]bool{}
	proto2File := -1
	for fi, f := range g.w.files[:g.depIdx] {
		if !f.p3like() && proto2File < 0 && len(f.msgs) > 0 {
			proto2File = fi
		}
		if len(f.exts) > 0 {
			have["file-ext"] = true
		}
		f.eachField(func(_ string, fl *fieldT, m *msgT, isExt bool, _ int) {
			switch {
			case isExt && m != nil:
				have["nested-ext"] = true
			case fl.isMap():
				have["map"] = true
			case fl.isGroup() && fl.oneof >= 0:
				have["group-oneof"] = true
			case fl.isGroup():
				have["group"] = true
			}
		})
	}
	f0 := g.w.files[0]
	scope0 := "pkg:" + f0.pkg
	if !have["file-ext"] {
		f0.exts = append(f0.exts, g.extension(0, scope0), g.extension(0, scope0))
	}
	if len(f0.msgs) > 0 {
		m := &f0.msgs[len(f0.msgs)-1]
		inner := scope0 + "." + m.name
		if !have["nested-ext"] {
			m.exts = append(m.exts, g.extension(0, inner))
		}
		if !have["map"] {
			m.fields = append(m.fields, g.mapField(0, inner, f0.p3like(), nextNum(m)))
		}
	}
	if proto2File >= 0 {
		f := g.w.files[proto2File]
		m := &f.msgs[0]
		inner := "pkg:" + f.pkg + "." + m.name
		if !have["group"] {
			m.fields = append(m.fields, g.groupField(proto2File, inner, nextNum(m), -1))
		}
		if !have["group-oneof"] {
			oname := g.uniq(inner, "grouped", func(n int) string { return "grouped_" + strconv.Itoa(n+2) })
			m.oneofs = append(m.oneofs, oneofT{name: oname, comment: g.comment()})
			oi := len(m.oneofs) - 1
			fl := fieldT{name: g.fieldName(inner), comment: g.comment(), number: nextNum(m), oneof: oi, scalar: "string"}
			m.fields = append(m.fields, fl)
			m.fields = append(m.fields, g.groupField(proto2File, inner, nextNum(m), oi))
		}
	}
}

func genWorkspace(r *hx.Rand, o lintOpts) *wsT {
	g := &gen{r: r, o: o, w: &wsT{}, used: map[string]bool{}, maxDepth: 1 + r.Intn(3), extendable: map[int][]string{}}
	npk := 1 + r.Intn(3)
	pkgs := append([]string{}, pkgPool...)
	hx.Shuffle(r, pkgs)
	pkgs = pkgs[:npk]
	proto2Slot := -1
	if r.Chance(3, 4) {
		proto2Slot = r.Intn(npk)
	}
	for pi, pkg := range pkgs {
		nf := 1 + r.Intn(3)
		if r.Chance(1, 8) {
			nf = 4
		}
		names := append([]string{}, filePool...)
		hx.Shuffle(r, names)
		var cfg [7][]optT
		for k := range cfg {
			cfg[k] = cleanOptConfig(r, k, nf)
		}
		for i := 0; i < nf; i++ {
			syntax := "proto3"
			if pi == proto2Slot && i == nf-1 {
				syntax = "proto2"
			} else if r.Chance(1, 4) {
				syntax = "editions"
			}
			var opts [7]optT
			for k := range opts {
				opts[k] = cfg[k][i]
			}
			g.w.files = append(g.w.files, &fileT{path: strings.ReplaceAll(pkg, ".", "/") + "/" + names[i] + ".proto", pkg: pkg, syntax: syntax, opts: opts,
				noise: g.noise(fileNoise, 1, 5), enumClosed: syntax == "editions" && r.Chance(1, 4)})
		}
	}
	g.depIdx = len(g.w.files)
	g.w.files = append(g.w.files, depFile())
	g.avail = append(g.avail, avail{ref{g.depIdx, "bad_message"}, false, false}, avail{ref{g.depIdx, "bad_message.inner_bad"}, false, false})
	for fi := 0; fi < g.depIdx; fi++ {
		g.fileBody(fi)
	}
	// make sure the import-only file really is imported by a target file
	f0 := g.w.files[0]
	hasDep := false
	for _, f := range g.w.files[:g.depIdx] {
		for _, i := range f.imports {
			if i.file == g.depIdx {
				hasDep = true
			}
		}
	}
	if !hasDep && len(f0.msgs) > 0 {
		m := &f0.msgs[0]
		fl := fieldT{name: "dep_ref", comment: []string{"Uses the dependency."}, ref: ref{g.depIdx, "bad_message"}, number: 900, oneof: -1}
		if !f0.p3like() {
			fl.label = "optional"
		}
		m.fields = append(m.fields, fl)
		g.ensureImport(0, g.depIdx, "")
	}
	g.ensureKinds()
	for fi := 0; fi < g.depIdx; fi++ {
		if g.w.files[fi].syntax == "editions" {
			g.toEditions(g.w.files[fi])
		}
	}
	return g.w
}
