package main

import (
	"fmt"
	"sort"
	"strings"

	"github.com/bufbuild/buf/private/bufpkg/bufconfig"
	"github.com/bufbuild/verifharness/internal/hx"
)

// The PACKAGE IMPORT CYCLE family (strengthening round 6-H, seed C05-m9).
//
// PACKAGE_NO_IMPORT_CYCLE — Purpose "Checks that packages do not have import cycles." — was only ever
// exercised by the cycles other operators happened to create (one pair of packages, one import each way).
// This family builds small workspaces from GRAPH TEMPLATES: 2–5 packages, several files per package (the
// FILE graph must stay acyclic, so the two directions of a package edge always live in different files),
// and judges them against a documentation-level expectation:
//
//	packages are nodes; an import statement of a file of package p (non-empty) naming a file of a DIFFERENT
//	non-empty package q is an edge p -> q (import-only files contribute edges like every other file).  An
//	import statement of a TARGET file is owed exactly one annotation at [3, i] iff q can reach p in that
//	graph — every such statement, also when the same package is imported from two files of p, or by two
//	statements of one file; nothing else is owed (same-package imports, imports of or through the empty
//	package, imports that only LEAD to a cycle without lying on one).
//
// The expectation of every template is written down BY HAND (owed) and cross-checked against the
// independent graph search pkgCycles (plant.go): a difference is a harness bug (class
// c05-harness-cycle-template-table), never a property violation.  The annotation message names ONE cycle
// (the first the search finds, map order) and is never compared.

type cycFileT struct {
	pkg     string // template package letter "a".."e"; "" = no package statement
	imports []int  // indices of EARLIER files of the template (keeps the file graph acyclic)
	imp     bool   // import-only file (not a target: nothing is reported on it, but it is part of the graph)
}

type cycTemplate struct {
	name  string
	files []cycFileT
	owed  [][2]int // (file, import index) owed an annotation
	// cleanAll: the workspace is clean for every other rule, so it is also judged with everything enabled
	cleanAll bool
}

var cycTemplates = []cycTemplate{
	// the shape of seed m9: a imports b and c; c imports b; b imports a — the two cycles through a share b
	{name: "two-cycles-sharing-a-package", cleanAll: true, files: []cycFileT{
		{pkg: "a"}, {pkg: "b", imports: []int{0}}, {pkg: "c", imports: []int{1}}, {pkg: "a", imports: []int{1, 2}}},
		owed: [][2]int{{1, 0}, {2, 0}, {3, 0}, {3, 1}}},
	// three imports of the start; all three cycles share b
	{name: "three-cycles-sharing-a-package", cleanAll: true, files: []cycFileT{
		{pkg: "a"}, {pkg: "b", imports: []int{0}}, {pkg: "c", imports: []int{1}}, {pkg: "d", imports: []int{1, 2}}, {pkg: "a", imports: []int{1, 2, 3}}},
		owed: [][2]int{{1, 0}, {2, 0}, {3, 0}, {3, 1}, {4, 0}, {4, 1}, {4, 2}}},
	// the shared package at distance 2 from the start: a->b->e->a, a->c->e->a, a->d->e->a
	{name: "shared-package-at-distance-2", cleanAll: true, files: []cycFileT{
		{pkg: "a"}, {pkg: "e", imports: []int{0}}, {pkg: "b", imports: []int{1}}, {pkg: "c", imports: []int{1}}, {pkg: "d", imports: []int{1}},
		{pkg: "a", imports: []int{2}}, {pkg: "a", imports: []int{3, 4}}},
		owed: [][2]int{{1, 0}, {2, 0}, {3, 0}, {4, 0}, {5, 0}, {6, 0}, {6, 1}}},
	// a->b->a and a->c->a: no package shared but the start
	{name: "disjoint-cycles", cleanAll: true, files: []cycFileT{
		{pkg: "a"}, {pkg: "b", imports: []int{0}}, {pkg: "c", imports: []int{0}}, {pkg: "a", imports: []int{1, 2}}},
		owed: [][2]int{{1, 0}, {2, 0}, {3, 0}, {3, 1}}},
	// files of ONE package importing each other are no package cycle; b imports a one way only
	{name: "same-package-imports", cleanAll: true, files: []cycFileT{
		{pkg: "a"}, {pkg: "a", imports: []int{0}}, {pkg: "a", imports: []int{0, 1}}, {pkg: "b", imports: []int{1, 2}}},
		owed: nil},
	// a->b->d, a->c->d: a diamond, no cycle
	{name: "diamond-without-cycle", cleanAll: true, files: []cycFileT{
		{pkg: "d"}, {pkg: "b", imports: []int{0}}, {pkg: "c", imports: []int{0}}, {pkg: "a", imports: []int{1, 2}}, {pkg: "a", imports: []int{0, 3}}},
		owed: nil},
	// a->b, b->c->b: a's import leads to a cycle but does not lie on one
	{name: "cycle-reachable-but-not-through-the-importer", cleanAll: true, files: []cycFileT{
		{pkg: "b"}, {pkg: "c", imports: []int{0}}, {pkg: "b", imports: []int{1}}, {pkg: "a", imports: []int{2}}, {pkg: "a", imports: []int{0, 1}}},
		owed: [][2]int{{1, 0}, {2, 0}}},
	// a->b->c->d->e->a
	{name: "cycle-of-five", cleanAll: true, files: []cycFileT{
		{pkg: "a"}, {pkg: "e", imports: []int{0}}, {pkg: "d", imports: []int{1}}, {pkg: "c", imports: []int{2}}, {pkg: "b", imports: []int{3}}, {pkg: "a", imports: []int{4}}},
		owed: [][2]int{{1, 0}, {2, 0}, {3, 0}, {4, 0}, {5, 0}}},
	// a cycle of five with chords: a->b->c->d->e->a, b->d (a second file of d that imports nothing), c->a
	{name: "cycle-of-five-with-chords", cleanAll: true, files: []cycFileT{
		{pkg: "a"}, {pkg: "e", imports: []int{0}}, {pkg: "d", imports: []int{1}}, {pkg: "c", imports: []int{2, 0}}, {pkg: "d"}, {pkg: "b", imports: []int{4, 3}}, {pkg: "a", imports: []int{5}}},
		owed: [][2]int{{1, 0}, {2, 0}, {3, 0}, {3, 1}, {5, 0}, {5, 1}, {6, 0}}},
	// the empty package is no package: a -> "" -> a and a -> b -> "" -> a are no cycles; a <-> c is one
	{name: "empty-package", files: []cycFileT{
		{pkg: "a"}, {pkg: "", imports: []int{0}}, {pkg: "a", imports: []int{1}}, {pkg: "b", imports: []int{1}}, {pkg: "a", imports: []int{3}},
		{pkg: "c", imports: []int{0}}, {pkg: "a", imports: []int{5, 1}}},
		owed: [][2]int{{5, 0}, {6, 0}}},
	// import-only files take part in the graph but are never reported: b's only file is import-only
	{name: "import-only-on-the-cycle", cleanAll: true, files: []cycFileT{
		{pkg: "a"}, {pkg: "b", imports: []int{0}, imp: true}, {pkg: "a", imports: []int{1}}},
		owed: [][2]int{{2, 0}}},
	// a->b->c->a where b and c exist as import-only files only, and an import-only file of a itself
	{name: "import-only-intermediate-packages", cleanAll: true, files: []cycFileT{
		{pkg: "a", imp: true}, {pkg: "c", imports: []int{0}, imp: true}, {pkg: "b", imports: []int{1}, imp: true}, {pkg: "a", imports: []int{2}},
		{pkg: "a", imports: []int{2, 0}, imp: true}, {pkg: "a", imports: []int{4, 1}}},
		// file 5: import 0 is a same-package import, import 1 names package c, and c -> a
		owed: [][2]int{{3, 0}, {5, 1}}},
	// the two directions of the pair a<->b live in different files; the other files of both packages import nothing
	{name: "edges-of-a-pair-in-different-files", cleanAll: true, files: []cycFileT{
		{pkg: "a"}, {pkg: "b"}, {pkg: "a"}, {pkg: "b", imports: []int{2}}, {pkg: "b"}, {pkg: "a", imports: []int{0}}, {pkg: "a", imports: []int{4, 5}}},
		owed: [][2]int{{3, 0}, {6, 0}}},
	// the same package imported from two files, and by two statements of one file: every statement is owed
	{name: "same-package-imported-several-times", cleanAll: true, files: []cycFileT{
		{pkg: "a"}, {pkg: "b", imports: []int{0}}, {pkg: "b", imports: []int{0}}, {pkg: "a", imports: []int{1, 2}}, {pkg: "a", imports: []int{1}},
		{pkg: "a", imports: []int{0, 2, 3}}, {pkg: "b", imports: []int{1, 0}}},
		owed: [][2]int{{1, 0}, {2, 0}, {3, 0}, {3, 1}, {4, 0}, {5, 1}, {6, 1}}},
	// two cycles sharing a package where the start ALSO has a harmless import (d imports nothing)
	{name: "two-cycles-sharing-plus-harmless-import", cleanAll: true, files: []cycFileT{
		{pkg: "a"}, {pkg: "d"}, {pkg: "b", imports: []int{0, 1}}, {pkg: "c", imports: []int{2, 1}}, {pkg: "a", imports: []int{1, 3, 2}}},
		owed: [][2]int{{2, 0}, {3, 0}, {4, 1}, {4, 2}}},
}

var cycPkgPool = []string{"alpha", "beta", "core", "data", "edge", "front", "gate"}

// genCycleWorkspace instantiates a template: package letters -> `cyc.<name>.v1` (names shuffled by seed),
// one commented message per file and one field per import (so that IMPORT_USED is satisfied).
func genCycleWorkspace(t cycTemplate, r *hx.Rand) (*wsT, []expT) {
	names := append([]string{}, cycPkgPool...)
	hx.Shuffle(r, names)
	pkgOf := func(letter string) string {
		if letter == "" {
			return ""
		}
		return "cyc." + names[int(letter[0]-'a')] + ".v1"
	}
	w := &wsT{}
	for i, cf := range t.files {
		pkg := pkgOf(cf.pkg)
		dir := "nopkg"
		if pkg != "" {
			dir = strings.ReplaceAll(pkg, ".", "/")
		}
		syntax := "proto3"
		if r.Chance(1, 4) {
			syntax = "proto2"
		}
		f := &fileT{path: fmt.Sprintf("%s/f%d.proto", dir, i), pkg: pkg, isImport: cf.imp, syntax: syntax, order: []byte("emsx")}
		m := msgT{name: fmt.Sprintf("Node%d", i), comment: []string{fmt.Sprintf("Node of file %d.", i)}}
		label := ""
		if syntax == "proto2" {
			label = "optional"
		}
		for k, j := range cf.imports {
			if j >= i {
				panic("cycle template " + t.name + ": a file may only import earlier files")
			}
			f.imports = append(f.imports, impT{file: j})
			m.fields = append(m.fields, fieldT{name: fmt.Sprintf("ref_%d", k+1), comment: []string{"Uses the import."}, label: label,
				ref: ref{j, fmt.Sprintf("Node%d", j)}, number: k + 1, oneof: -1})
		}
		if len(cf.imports) == 0 {
			m.fields = append(m.fields, fieldT{name: "id", comment: []string{"An identifier."}, label: label, scalar: "string", number: 1, oneof: -1})
		}
		f.msgs = []msgT{m}
		w.files = append(w.files, f)
	}
	owed := []expT{}
	for _, o := range t.owed {
		owed = append(owed, expT{"PACKAGE_NO_IMPORT_CYCLE", w.files[o[0]].path, pk("3", o[1])})
	}
	return w, owed
}

func expKeys(es []expT) string {
	ks := []string{}
	for _, e := range es {
		ks = append(ks, e.file+":"+e.path)
	}
	sort.Strings(ks)
	return strings.Join(ks, " ")
}

// cycleFamily: every template on every run (workspaces numbered from 300), two configurations each: the
// rule alone and — when the template is clean otherwise — everything enabled.
func cycleFamily(run *hx.Run, l *linter, r *hx.Rand) {
	for ti, t := range cycTemplates {
		wi := 300 + ti
		if !wantWorkspace(wi) {
			continue
		}
		rr := r.Fork(uint64(wi))
		w, owed := genCycleWorkspace(t, rr)
		replay := fmt.Sprintf("c05 --seed %d --tier %s (import-cycle workspace %d, template %s)", run.Seed, run.Tier, wi, t.name)
		if got := pkgCycles(w); expKeys(got) != expKeys(owed) {
			run.Fail(hx.OracleFailure{Class: "c05-harness-cycle-template-table", What: fmt.Sprintf("template %s: written down [%s], graph search says [%s]", t.name, expKeys(owed), expKeys(got)),
				Input: textsOf(w), Replay: replay})
			continue
		}
		b, err := build(w)
		if err != nil {
			run.Fail(hx.OracleFailure{Class: "c05-harness-generated-invalid-workspace", What: "import-cycle workspace " + t.name + ": " + err.Error(), Input: textsOf(w), Replay: replay})
			continue
		}
		if err := b.selfCheck(); err != nil {
			run.Fail(hx.OracleFailure{Class: "c05-harness-renderer-position-table", What: err.Error(), Input: b.texts, Replay: replay})
			continue
		}
		run.Count("Y:cycle-workspace:" + t.name)
		run.CountN("Y:cycle-imports-owed", len(owed))
		what := fmt.Sprintf("import-cycle workspace %d (template %s: %d files, %d import statements owed an annotation)", wi, t.name, len(w.files), len(owed))
		o := optionSets[(ti+int(run.Seed%10))%len(optionSets)]
		v := versions[1+(ti+int(run.Seed%2))%2] // v1 / v2: v1beta1 does not know the rule id
		judge(run, l, w, b, lintCfg{v, []string{"PACKAGE_NO_IMPORT_CYCLE"}, o, nil}, what, owed, replay)
		if t.cleanAll {
			v2 := versions[(ti+int(run.Seed%3)+1)%3]
			var except []string
			if v2 != bufconfig.FileVersionV1Beta1 {
				except = []string{"PROTOVALIDATE"}
			}
			judge(run, l, w, b, lintCfg{v2, allUse(v2), o, except}, what, owed, replay)
		}
	}
}
